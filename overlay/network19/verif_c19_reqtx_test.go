//go:build verif

package network

// C19, part `reqtx` (white-box, compiled into pkg/network by /verif/run): the glue between dBFT and the P2P server for
// transactions a backup does not have. dBFT hands its list of missing transactions to Server.RequestTx and goes on
// using (and shrinking, in place) that very list while the transactions arrive; every requested transaction that
// arrives afterwards has to be passed to the consensus service, in whatever order they come, otherwise the backup
// never completes the proposal ("live under synchrony").

import (
	"fmt"
	"slices"
	"testing"
	"time"

	"github.com/nspcc-dev/neo-go/pkg/core/transaction"
	"github.com/nspcc-dev/neo-go/pkg/util"
	"pgregory.net/rapid"
	"verifharness/vt"
)

type c19ReqCase struct {
	N       int   `json:"n"`       // requested transactions
	Order   []int `json:"order"`   // order of the list handed to RequestTx (indices into the hash-sorted transactions)
	Arrive  []int `json:"arrive"`  // order of arrival
	Caller  int   `json:"caller"`  // what the caller does with its list when a transaction arrives: 0 nothing, 1 deletes the entry in place (dBFT), 2 zeroes it
	Foreign int   `json:"foreign"` // unrequested transactions arriving in between
}

func c19GenReq(t *rapid.T) c19ReqCase {
	n := rapid.IntRange(1, 9).Draw(t, "n")
	perm := func(l string) []int { return rapid.Permutation(seqInts(n)).Draw(t, l) }
	return c19ReqCase{N: n, Order: perm("order"), Arrive: perm("arrive"), Caller: rapid.IntRange(0, 2).Draw(t, "caller"), Foreign: rapid.IntRange(0, 2).Draw(t, "foreign")}
}

func seqInts(n int) []int {
	s := make([]int, n)
	for i := range s {
		s[i] = i
	}
	return s
}

var c19T *testing.T

func c19CheckReq(c c19ReqCase, o *vt.Obs) error {
	if c.N < 1 || c.N > 64 || len(c.Order) != c.N || len(c.Arrive) != c.N {
		return nil
	}
	for _, l := range [][]int{c.Order, c.Arrive} {
		seen := map[int]bool{}
		for _, i := range l {
			if i < 0 || i >= c.N || seen[i] {
				return nil
			}
			seen[i] = true
		}
	}
	t := c19T
	s := newTestServer(t, ServerConfig{})
	cons := new(fakeConsensus)
	s.AddConsensusService(cons, cons.OnPayload, cons.OnTransaction)
	s.Start()
	defer s.Shutdown()

	txs := make([]*transaction.Transaction, c.N)
	for i := range txs {
		txs[i] = newDummyTx()
	}
	slices.SortFunc(txs, func(a, b *transaction.Transaction) int { return a.Hash().Compare(b.Hash()) })
	missing := make([]util.Uint256, 0, c.N)
	for _, i := range c.Order {
		missing = append(missing, txs[i].Hash())
	}
	s.RequestTx(missing...)
	reached := func(tx *transaction.Transaction) bool {
		cons.txlock.Lock()
		defer cons.txlock.Unlock()
		return slices.Contains(cons.txs, tx)
	}
	for k, i := range c.Arrive {
		for f := 0; f < c.Foreign; f++ {
			s.testHandleMessage(t, nil, CMDTX, newDummyTx())
		}
		tx := txs[i]
		s.testHandleMessage(t, nil, CMDTX, tx)
		ok := false
		for w := 0; w < 2000; w++ {
			if ok = reached(tx); ok {
				break
			}
			time.Sleep(10 * time.Millisecond)
		}
		if !ok {
			return fmt.Errorf("requested transaction #%d of %d (position %d of the requested list, arrival order %v, the caller %s) has not reached the consensus service within 20 s of its arrival",
				k+1, c.N, slices.Index(c.Order, i), c.Arrive, []string{"keeps its list", "deletes arrived entries from its list in place", "zeroes arrived entries of its list"}[c.Caller])
		}
		if j := slices.Index(missing, tx.Hash()); j >= 0 {
			switch c.Caller {
			case 1:
				missing = slices.Delete(missing, j, j+1)
			case 2:
				missing[j] = util.Uint256{}
			}
		}
		o.Units(1)
	}
	o.Labelf("reqtx-caller-%d", c.Caller)
	if c.N >= 3 && c.Caller != 0 {
		o.NonTrivial()
	}
	return nil
}

func init() {
	vt.PropertyID = "C19"
	vt.Register("reqtx", 1.0, c19GenReq, c19CheckReq)
}

func TestProp(t *testing.T) {
	c19T = t
	vt.RunAll(t, 40)
}

func TestReplay(t *testing.T) {
	c19T = t
	vt.ReplayAll(t)
}
