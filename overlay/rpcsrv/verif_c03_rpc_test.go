//go:build verif

package rpcsrv

// Property C03, RPC part (white-box, compiled into package rpcsrv through `go test -overlay`, see /verif/run):
// the historic RPC handlers (getstoragehistoric, findstoragehistoric, getstate, findstates, getproof + verifyproof,
// invokefunctionhistoric, invokescripthistoric, invokecontractverifyhistoric, getstateroot) called LATER with the
// state root / height / block hash of height h return what the corresponding live handlers (getstorage, findstorage,
// invokefunction, invokescript, invokecontractverify) returned when the chain stood at height h.
//
// The handlers do their own parameter resolution (contract by id / hash / address / native name, paging by `from` /
// `start`, proof encoding, historic reference by height / block hash / state root): that is what is attacked here.

import (
	"bytes"
	"encoding/base64"
	"encoding/json"
	"fmt"
	"sort"
	"testing"

	"github.com/nspcc-dev/neo-go/pkg/config"
	"github.com/nspcc-dev/neo-go/pkg/core/native/nativehashes"
	"github.com/nspcc-dev/neo-go/pkg/core/native/noderoles"
	"github.com/nspcc-dev/neo-go/pkg/core/state"
	"github.com/nspcc-dev/neo-go/pkg/encoding/address"
	"github.com/nspcc-dev/neo-go/pkg/encoding/fixedn"
	"github.com/nspcc-dev/neo-go/pkg/io"
	"github.com/nspcc-dev/neo-go/pkg/neorpc"
	"github.com/nspcc-dev/neo-go/pkg/neorpc/result"
	"github.com/nspcc-dev/neo-go/pkg/services/rpcsrv/params"
	"github.com/nspcc-dev/neo-go/pkg/smartcontract/callflag"
	"github.com/nspcc-dev/neo-go/pkg/util"
	"github.com/nspcc-dev/neo-go/pkg/vm/emit"
	"github.com/nspcc-dev/neo-go/pkg/vm/stackitem"
	"go.uber.org/zap"
	"pgregory.net/rapid"
	ck "verifharness/chainkit"
	"verifharness/vt"
)

func init() {
	vt.PropertyID = "C03"
	vt.Register("rpc", 1.0, c03GenCase, c03CheckCase)
}

func TestProp(t *testing.T)   { vt.RunAll(t, 300) }
func TestReplay(t *testing.T) { vt.ReplayAll(t) }

// ---- case --------------------------------------------------------------------------------------------------

const (
	c03Present = iota // a key present at the probed height
	c03Deleted        // present at an earlier height, absent now
	c03Nibble         // one nibble off
	c03Prefix         // proper prefix of a present key
	c03Extend         // extension of a present key
	c03Raw            // drawn bytes from the grammar's key alphabet
)

type c03KeySel struct {
	Sel int      `json:"sel"`
	Mut int      `json:"mut"`
	Pos int      `json:"pos"`
	Nib int      `json:"nib"`
	Raw vt.Bytes `json:"raw,omitempty"`
}

// c03Tgt selects a contract and the way it is addressed in the request.
type c03Tgt struct {
	T    int `json:"t"`    // index into natives ++ contracts known to the builder (mod)
	Addr int `json:"addr"` // 0 id (number), 1 id (string), 2 hash LE hex, 3 0x-prefixed hash, 4 address, 5 native name
}

type c03StorageProbe struct {
	Tgt c03Tgt    `json:"tgt"`
	Key c03KeySel `json:"key"`
}

type c03FindProbe struct {
	Tgt   c03Tgt    `json:"tgt"`
	Key   c03KeySel `json:"key"`
	Cut   int       `json:"cut"`
	Count int       `json:"count"` // findstates count parameter
}

type c03InvokeProbe struct {
	Kind  string    `json:"kind"` // fn | script | verify
	Tgt   c03Tgt    `json:"tgt"`
	Key   c03KeySel `json:"key"`
	Cut   int       `json:"cut"`
	Opts  int64     `json:"opts"`
	Sel   int       `json:"sel"`
	Role  int       `json:"role"`
	Party int       `json:"party"`
	Ref   int       `json:"ref"` // historic reference: 0 height, 1 block hash, 2 state root
}

type c03Case struct {
	Chain          ck.ChainCfg       `json:"chain"`
	Blocks         []ck.BlockSpec    `json:"blocks"`
	MaxFind        int               `json:"max_find"`         // RPC.MaxFindResultItems (findstates)
	MaxFindStorage int               `json:"max_find_storage"` // RPC.MaxFindStoragePageSize (findstorage[historic])
	Storage        []c03StorageProbe `json:"storage"`
	Finds          []c03FindProbe    `json:"finds"`
	Invokes        []c03InvokeProbe  `json:"invokes"`
	Heights        []int             `json:"heights"` // recorded (later questioned) heights, as selectors; the last height is always recorded
}

// ---- generator ---------------------------------------------------------------------------------------------

var c03Alphabet = []byte{0x00, 0x01, 0x10, 0xff, 'a', 'b'}

func c03GenKeySel(t *rapid.T, label string) c03KeySel {
	k := c03KeySel{
		Sel: rapid.IntRange(0, 200).Draw(t, label+"_sel"),
		Mut: rapid.SampledFrom([]int{c03Present, c03Present, c03Present, c03Deleted, c03Deleted, c03Nibble, c03Prefix, c03Extend, c03Raw}).Draw(t, label+"_mut"),
		Pos: rapid.IntRange(0, 31).Draw(t, label+"_pos"),
		Nib: rapid.IntRange(0, 35).Draw(t, label+"_nib"),
	}
	if k.Mut == c03Raw {
		k.Raw = ck.GenStorageKey(t, label+"_raw")
	}
	return k
}

func c03GenTgt(t *rapid.T, label string) c03Tgt {
	return c03Tgt{
		T:    rapid.SampledFrom([]int{0, 1, 2, 3, 4, 5, 5, 6, 6, 7, 7, 8, 9}).Draw(t, label+"_t"),
		Addr: rapid.IntRange(0, 5).Draw(t, label+"_addr"),
	}
}

var c03FindOpts = []int64{0, 0, 1, 2, 3, 4, 8, 0x18, 0x28, 0x80, 0x81, 0x82, 0x84, 0x98, 5, 0x30}

func c03SerialPair(a int64, b []byte) vt.Bytes {
	bs, err := stackitem.Serialize(stackitem.NewArray([]stackitem.Item{stackitem.Make(a), stackitem.Make(b)}))
	if err != nil {
		panic(err)
	}
	return bs
}

// c03GenChurn appends storage-churn storylines (same families as harness/c03) to the drawn blocks.
func c03GenChurn(t *rapid.T, blocks []ck.BlockSpec, roleStory int) {
	n := len(blocks)
	at := func(label string, lo int) int {
		if lo > n-1 {
			lo = n - 1
		}
		return rapid.IntRange(lo, n-1).Draw(t, label)
	}
	add := func(i int, a ck.Action) {
		a.From = rapid.IntRange(0, ck.NAccounts-1).Draw(t, "cfrom")
		a.Nonce = rapid.Uint32().Draw(t, "cnonce")
		blocks[i].Txs = append(blocks[i].Txs, a)
	}
	put := func(c int, k, v vt.Bytes) ck.Action { return ck.Action{Kind: "invoke", S: "put", A: c, K: k, V: v} }
	del := func(c int, k vt.Bytes) ck.Action { return ck.Action{Kind: "invoke", S: "del", A: c, K: k} }
	stories := rapid.IntRange(2, 4).Draw(t, "nstories")
	for s := 0; s < stories; s++ {
		c := rapid.IntRange(0, 2).Draw(t, "story_c")
		kind := rapid.SampledFrom([]string{"recreate", "recreate", "samevalue", "empty", "prefixes", "destroy", "destroy", "multi", "roles", "serial"}).Draw(t, "story")
		if s == 0 && rapid.Bool().Draw(t, "story0") {
			kind = "destroy"
		}
		switch kind {
		case "recreate":
			k, v := ck.GenStorageKey(t, "rk"), ck.GenStorageVal(t, "rv")
			i := at("ri", 0)
			j := at("rj", i)
			l := at("rl", j)
			if n >= 3 && rapid.IntRange(0, 3).Draw(t, "rspread") != 0 {
				i = rapid.IntRange(0, n-3).Draw(t, "ri3")
				j = rapid.IntRange(i+1, n-2).Draw(t, "rj3")
				l = rapid.IntRange(j+1, n-1).Draw(t, "rl3")
			}
			add(i, put(c, k, v))
			add(j, del(c, k))
			add(l, put(c, k, ck.GenStorageVal(t, "rv2")))
		case "samevalue":
			v := ck.GenStorageVal(t, "sv")
			i := at("si", 0)
			add(i, put(c, ck.GenStorageKey(t, "sk1"), v))
			add(at("sj", i), put(rapid.IntRange(0, 2).Draw(t, "sc2"), ck.GenStorageKey(t, "sk2"), v))
		case "empty":
			k := ck.GenStorageKey(t, "ek")
			i := at("ei", 0)
			add(i, put(c, k, vt.Bytes{}))
			switch rapid.IntRange(0, 2).Draw(t, "eend") {
			case 0:
				add(at("ej", i), put(c, k, ck.GenStorageVal(t, "ev")))
			case 1:
				add(at("ej", i), del(c, k))
			}
		case "prefixes":
			k := ck.GenStorageKey(t, "pk")
			k1 := append(append(vt.Bytes{}, k...), rapid.SampledFrom(c03Alphabet).Draw(t, "pb1"))
			k2 := append(append(vt.Bytes{}, k1...), rapid.SampledFrom(c03Alphabet).Draw(t, "pb2"))
			i := at("pi", 0)
			for _, x := range []vt.Bytes{k2, k, k1} {
				add(at("pj", i), put(c, x, ck.GenStorageVal(t, "pv")))
			}
			if rapid.Bool().Draw(t, "pdel") {
				add(at("pl", i), del(c, k1))
			}
		case "destroy": // fill, destroy later, deploy another contract, write to it: the contract exists at h and not at the end
			i := at("di", 0)
			add(i, ck.Action{Kind: "multi_put", A: c, N: int64(rapid.IntRange(1, 5).Draw(t, "dn")), K: ck.GenStorageKey(t, "dk"), V: ck.GenStorageVal(t, "dv")})
			j := at("dj", i)
			add(j, ck.Action{Kind: "invoke", S: "destroy", A: c})
			l := at("dl", j)
			add(l, ck.Action{Kind: "deploy", A: rapid.IntRange(0, 2).Draw(t, "dvar"), S: rapid.SampledFrom([]string{"r", "s"}).Draw(t, "dsuf")})
			add(at("dm", l), put(rapid.IntRange(2, 4).Draw(t, "dc2"), ck.GenStorageKey(t, "dk2"), ck.GenStorageVal(t, "dv2")))
		case "multi":
			k := ck.GenStorageKey(t, "mk")
			i := at("mi", 0)
			add(i, ck.Action{Kind: "multi_put", A: c, N: int64(rapid.IntRange(2, 6).Draw(t, "mn")), K: k, V: ck.GenStorageVal(t, "mv")})
			add(at("mj", i), ck.Action{Kind: "multi_put", A: c, N: int64(rapid.IntRange(2, 6).Draw(t, "mn2")), B: rapid.IntRange(1, 3).Draw(t, "mdel"), K: k, V: ck.GenStorageVal(t, "mv2")})
		case "roles":
			i := 0
			for r := rapid.IntRange(2, 3).Draw(t, "nrole"); r > 0; r-- {
				i = at("roi", i)
				add(i, ck.Action{Kind: "designate", A: roleStory, B: rapid.IntRange(1, 7).Draw(t, "rokeys")})
			}
		case "serial":
			k := append(vt.Bytes("s"), ck.GenStorageKey(t, "zk")...)
			add(at("zi", 0), put(c, k, c03SerialPair(int64(rapid.IntRange(-1, 300).Draw(t, "za")), ck.GenStorageVal(t, "zb"))))
		}
	}
}

// c03Sanitize drops what the historic clause does not cover (GetTestHistoricVM derives the fake block timestamp
// from the CURRENT milliseconds-per-block value).
func c03Sanitize(blocks []ck.BlockSpec) []ck.BlockSpec {
	out := make([]ck.BlockSpec, len(blocks))
	for i, b := range blocks {
		nb := b
		nb.Txs = nil
		for _, a := range b.Txs {
			if (a.Kind == "policy" && a.S == "setMillisecondsPerBlock") || a.Kind == "syscall_time" {
				continue
			}
			nb.Txs = append(nb.Txs, a)
		}
		out[i] = nb
	}
	return out
}

func c03GenCase(t *rapid.T) c03Case {
	var c c03Case
	c.Chain = ck.ChainCfg{
		Profile:   rapid.SampledFrom([]string{"V1C1", "V1C1", "V1C1", "V1C1", "V1C3"}).Draw(t, "profile"),
		SRIH:      rapid.Bool().Draw(t, "srih"),
		P2PSig:    rapid.IntRange(0, 3).Draw(t, "p2psig") == 0,
		HFStagger: rapid.IntRange(0, 3).Draw(t, "hfstagger") == 0,
	}
	bias := ck.GenBias{Storage: 8, Faults: 2, Value: 1, Governance: 1, Attrs: 3, P2PSig: c.Chain.P2PSig}
	n := rapid.IntRange(3, 15).Draw(t, "nblocks")
	for i := 0; i < n; i++ {
		c.Blocks = append(c.Blocks, ck.GenBlock(t, bias, 2))
	}
	roleStory := rapid.SampledFrom([]int{int(noderoles.StateValidator), int(noderoles.Oracle), int(noderoles.NeoFSAlphabet), int(noderoles.P2PNotary)}).Draw(t, "role_story")
	c03GenChurn(t, c.Blocks, roleStory)
	c.Blocks = c03Sanitize(c.Blocks)
	c.MaxFind = rapid.IntRange(1, 6).Draw(t, "max_find")
	c.MaxFindStorage = rapid.IntRange(1, 6).Draw(t, "max_find_storage")
	for i := rapid.IntRange(2, 5).Draw(t, "nstorage"); i > 0; i-- {
		c.Storage = append(c.Storage, c03StorageProbe{Tgt: c03GenTgt(t, "st"), Key: c03GenKeySel(t, "sk")})
	}
	for i := rapid.IntRange(1, 3).Draw(t, "nfinds"); i > 0; i-- {
		c.Finds = append(c.Finds, c03FindProbe{Tgt: c03GenTgt(t, "ft"), Key: c03GenKeySel(t, "fk"), Cut: rapid.IntRange(0, 3).Draw(t, "fcut"), Count: rapid.IntRange(1, 6).Draw(t, "fcount")})
	}
	for i := rapid.IntRange(1, 4).Draw(t, "ninvokes"); i > 0; i-- {
		c.Invokes = append(c.Invokes, c03InvokeProbe{
			Kind:  rapid.SampledFrom([]string{"fn", "fn", "fn", "script", "verify"}).Draw(t, "ikind"),
			Tgt:   c03GenTgt(t, "it"),
			Key:   c03GenKeySel(t, "ik"),
			Cut:   rapid.IntRange(0, 3).Draw(t, "icut"),
			Opts:  rapid.SampledFrom(c03FindOpts).Draw(t, "iopts"),
			Sel:   rapid.IntRange(0, 7).Draw(t, "isel"),
			Role:  rapid.SampledFrom([]int{roleStory, roleStory, int(noderoles.Oracle), int(noderoles.P2PNotary)}).Draw(t, "irole"),
			Party: rapid.IntRange(0, ck.NParties-1).Draw(t, "iparty"),
			Ref:   rapid.IntRange(0, 2).Draw(t, "iref"),
		})
	}
	for i := rapid.IntRange(1, 5).Draw(t, "nheights"); i > 0; i-- {
		c.Heights = append(c.Heights, rapid.IntRange(0, 15).Draw(t, "hsel"))
	}
	return c
}

// ---- world -------------------------------------------------------------------------------------------------

func c03Mod(a, n int) int {
	if n <= 0 {
		return 0
	}
	return ((a % n) + n) % n
}

type c03Target struct {
	id      int32
	hasID   bool
	hash    util.Uint160
	native  string
	alive   bool
	deploy  int // index in b.Deployed or -1
	listing []result.KeyValue
	grave   [][]byte
}

var c03Natives = []struct {
	name string
	hash util.Uint160
}{
	{"ContractManagement", nativehashes.ContractManagement},
	{"NeoToken", nativehashes.NeoToken},
	{"GasToken", nativehashes.GasToken},
	{"PolicyContract", nativehashes.PolicyContract},
	{"RoleManagement", nativehashes.RoleManagement},
}

type c03Out struct {
	code int64 // 0: success
	msg  string
	js   string
	res  any
}

func (o c03Out) String() string {
	if o.code != 0 {
		return fmt.Sprintf("error %d (%s)", o.code, o.msg)
	}
	s := o.js
	if len(s) > 700 {
		s = s[:700] + "..."
	}
	return s
}

func c03Same(a, b c03Out) bool { return a.code == b.code && (a.code != 0 || a.js == b.js) }

type c03StorageRec struct {
	contract any
	hashHex  string
	key      []byte
	live     c03Out
	tgtAlive bool
	hash     util.Uint160
}

type c03FindRec struct {
	contract any
	hashHex  string
	prefix   []byte
	count    int
	live     []result.KeyValue
	liveErr  c03Out
}

type c03InvokeRec struct {
	p    c03InvokeProbe
	args []any
	live c03Out
}

type c03Rec struct {
	h         uint32
	root      string
	blockHash string
	storage   []c03StorageRec
	finds     []c03FindRec
	invokes   []c03InvokeRec
}

type c03Env struct {
	c      c03Case
	o      *vt.Obs
	b      *ck.Builder
	s      *Server
	lastID map[util.Uint160]int32
	seen   map[util.Uint160]map[string]struct{}
	recs   []*c03Rec
	// classification
	byMode                                            [6]bool
	paged, invoked, proofs, cannotContinue, destroyed bool
}

func c03Params(vals ...any) params.Params {
	raw, err := json.Marshal(vals)
	if err != nil {
		panic(err)
	}
	var ps params.Params
	if err := json.Unmarshal(raw, &ps); err != nil {
		panic(err)
	}
	return ps
}

func (e *c03Env) call(f func(*Server, params.Params) (any, *neorpc.Error), vals ...any) c03Out {
	res, rerr := f(e.s, c03Params(vals...))
	if rerr != nil {
		return c03Out{code: rerr.Code, msg: rerr.Message + " / " + rerr.Data}
	}
	js, err := json.Marshal(res)
	if err != nil {
		return c03Out{code: -1, msg: "unmarshallable result: " + err.Error()}
	}
	return c03Out{js: string(js), res: res}
}

func c03B64(b []byte) string { return base64.StdEncoding.EncodeToString(b) }

// targets lists natives and every contract the builder has ever deployed, with their storage listings right now.
func (e *c03Env) targets() []*c03Target {
	bc := e.b.N.BC
	var out []*c03Target
	for _, n := range c03Natives {
		cs := bc.GetContractState(n.hash)
		t := &c03Target{hash: n.hash, native: n.name, deploy: -1}
		if cs != nil {
			t.id, t.hasID, t.alive = cs.ID, true, true
		}
		out = append(out, t)
	}
	for i, d := range e.b.Deployed {
		t := &c03Target{hash: d.Hash, deploy: i}
		if cs := bc.GetContractState(d.Hash); cs != nil {
			t.id, t.hasID, t.alive = cs.ID, true, true
			e.lastID[d.Hash] = cs.ID
		} else if id, ok := e.lastID[d.Hash]; ok {
			t.id, t.hasID = id, true
			e.destroyed = true
		}
		out = append(out, t)
	}
	for _, t := range out {
		if t.hasID {
			bc.SeekStorage(t.id, nil, func(k, v []byte) bool {
				t.listing = append(t.listing, result.KeyValue{Key: bytes.Clone(k), Value: bytes.Clone(v)})
				return true
			})
		}
		seen := e.seen[t.hash]
		if seen == nil {
			seen = map[string]struct{}{}
			e.seen[t.hash] = seen
		}
		now := map[string]struct{}{}
		for _, x := range t.listing {
			now[string(x.Key)] = struct{}{}
		}
		for k := range seen {
			if _, ok := now[k]; !ok {
				t.grave = append(t.grave, []byte(k))
			}
		}
		sort.Slice(t.grave, func(i, j int) bool { return bytes.Compare(t.grave[i], t.grave[j]) < 0 })
		for k := range now {
			seen[k] = struct{}{}
		}
	}
	return out
}

func (t *c03Target) key(k c03KeySel) []byte {
	// Questions stay inside the key space of a contract (at most 64 bytes): longer keys are refused as invalid
	// input by the historic handlers and simply absent for the current ones, which is not what this check is about.
	if b := t.key0(k); len(b) <= 64 {
		return b
	} else {
		return b[:64]
	}
}

func (t *c03Target) key0(k c03KeySel) []byte {
	var b []byte
	if len(t.listing) > 0 {
		b = bytes.Clone(t.listing[c03Mod(k.Sel, len(t.listing))].Key)
	}
	ext := func() []byte {
		b = append(b, c03Alphabet[c03Mod(k.Nib, len(c03Alphabet))])
		if k.Pos%2 == 1 {
			b = append(b, c03Alphabet[c03Mod(k.Nib/len(c03Alphabet), len(c03Alphabet))])
		}
		return b
	}
	switch k.Mut {
	case c03Present:
		return b
	case c03Deleted:
		if len(t.grave) > 0 {
			return t.grave[c03Mod(k.Sel, len(t.grave))]
		}
		return append([]byte{}, k.Raw...)
	case c03Nibble:
		if len(b) == 0 {
			return ext()
		}
		pos := c03Mod(k.Pos, 2*len(b))
		old := b[pos/2] >> 4
		if pos%2 == 1 {
			old = b[pos/2] & 0x0f
		}
		nw := (old + 1 + byte(c03Mod(k.Nib, 15))) % 16
		if pos%2 == 0 {
			b[pos/2] = b[pos/2]&0x0f | nw<<4
		} else {
			b[pos/2] = b[pos/2]&0xf0 | nw
		}
		return b
	case c03Prefix:
		if len(b) > 0 {
			return b[:c03Mod(k.Pos, len(b))]
		}
		return ext()
	case c03Extend:
		return ext()
	default:
		return append([]byte{}, k.Raw...)
	}
}

// param renders the contract the way the request names it.
func (e *c03Env) param(t *c03Target, addr int) any {
	mode := addr
	if mode == 5 && t.native == "" {
		mode = 2
	}
	if mode <= 1 && !t.hasID {
		mode = 2
	}
	e.byMode[mode] = true
	switch mode {
	case 0:
		return int64(t.id)
	case 1:
		return fmt.Sprint(t.id)
	case 3:
		return "0x" + t.hash.StringLE()
	case 4:
		return address.Uint160ToString(t.hash)
	case 5:
		return t.native
	default:
		return t.hash.StringLE()
	}
}

func (e *c03Env) pick(ts []*c03Target, g c03Tgt) *c03Target { return ts[c03Mod(g.T, len(ts))] }

// ---- paging clients ------------------------------------------------------------------------------------------

// pageFindStorage is a findstorage / findstoragehistoric client: follows `next` while `truncated`.
func (e *c03Env) pageFindStorage(root string, contract any, prefix []byte) ([]result.KeyValue, c03Out, int) {
	var out []result.KeyValue
	start, calls := 0, 0
	for {
		calls++
		var r c03Out
		if root == "" {
			r = e.call((*Server).findStorage, contract, c03B64(prefix), start)
		} else {
			r = e.call((*Server).findStorageHistoric, root, contract, c03B64(prefix), start)
		}
		if r.code != 0 {
			return out, r, calls
		}
		fs := r.res.(*result.FindStorage)
		out = append(out, fs.Results...)
		if !fs.Truncated {
			return out, c03Out{}, calls
		}
		if fs.Next <= start || calls > 400 {
			return out, c03Out{code: -2, msg: fmt.Sprintf("paging does not advance: next=%d after start=%d (%d calls)", fs.Next, start, calls)}, calls
		}
		start = fs.Next
	}
}

// pageFindStates is a findstates client: continues from the last returned key while `truncated`.
// stuck is set when the page ended at the item with the empty key under the empty prefix: `from` = "" means
// "no from" in this API, so a client cannot continue from there (documented limitation, not asserted).
func (e *c03Env) pageFindStates(root, hashHex string, prefix []byte, count int) (out []result.KeyValue, r c03Out, calls int, stuck bool, proofs []*result.ProofWithKey) {
	from := ""
	for {
		calls++
		r = e.call((*Server).findStates, root, hashHex, c03B64(prefix), from, count)
		if r.code != 0 {
			return out, r, calls, false, proofs
		}
		fs := r.res.(result.FindStates)
		out = append(out, fs.Results...)
		if fs.FirstProof != nil {
			proofs = append(proofs, fs.FirstProof)
		}
		if fs.LastProof != nil {
			proofs = append(proofs, fs.LastProof)
		}
		if !fs.Truncated {
			return out, c03Out{}, calls, false, proofs
		}
		if len(fs.Results) == 0 || calls > 400 {
			return out, c03Out{code: -2, msg: fmt.Sprintf("truncated page without progress (%d calls)", calls)}, calls, false, proofs
		}
		last := fs.Results[len(fs.Results)-1].Key
		if len(last) == 0 {
			return out, c03Out{}, calls, true, proofs
		}
		from = c03B64(last)
	}
}

func c03SameKVs(got, want []result.KeyValue) string {
	for i := 0; i < len(got) || i < len(want); i++ {
		switch {
		case i >= len(got):
			return fmt.Sprintf("item %d missing: want %x=%x (got %d items, want %d)", i, want[i].Key, want[i].Value, len(got), len(want))
		case i >= len(want):
			return fmt.Sprintf("extra item %d: got %x=%x (got %d items, want %d)", i, got[i].Key, got[i].Value, len(got), len(want))
		case !bytes.Equal(got[i].Key, want[i].Key) || !bytes.Equal(got[i].Value, want[i].Value):
			return fmt.Sprintf("item %d: got %x=%x, want %x=%x", i, got[i].Key, got[i].Value, want[i].Key, want[i].Value)
		}
	}
	return ""
}

// ---- recording (live answers at height h) ----------------------------------------------------------------------

func c03FuncParam(typ string, v any) map[string]any { return map[string]any{"type": typ, "value": v} }

// invokeArgs resolves an invoke probe into the request parameters that follow the (optional) historic reference.
func (e *c03Env) invokeArgs(ts []*c03Target, p c03InvokeProbe, h uint32) []any {
	t := e.pick(ts, p.Tgt)
	party := e.b.PartyHash(c03Mod(p.Party, ck.NParties))
	switch p.Kind {
	case "verify":
		return []any{e.param(t, p.Tgt.Addr), []any{}}
	case "script":
		w := io.NewBufBinWriter()
		call := func(hh util.Uint160, m string, args ...any) {
			emit.AppCall(w.BinWriter, hh, m, callflag.ReadOnly, args...)
		}
		if t.deploy >= 0 {
			call(t.hash, "get", t.key(p.Key))
		}
		call(nativehashes.NeoToken, "balanceOf", party)
		call(nativehashes.GasToken, "balanceOf", party)
		call(nativehashes.PolicyContract, "getFeePerByte")
		call(nativehashes.PolicyContract, "getStoragePrice")
		call(nativehashes.NeoToken, "getCandidates")
		for i := int64(0); i <= int64(h)+1; i++ {
			call(nativehashes.RoleManagement, "getDesignatedByRole", int64(p.Role), i)
		}
		for _, d := range e.b.Deployed {
			call(nativehashes.ContractManagement, "getContract", d.Hash)
		}
		return []any{c03B64(w.Bytes())}
	}
	// fn
	cp := e.param(t, p.Tgt.Addr)
	if t.deploy >= 0 {
		key := t.key(p.Key)
		if p.Sel%2 == 0 {
			return []any{cp, "get", []any{c03FuncParam("ByteArray", c03B64(key))}}
		}
		pre := key[:c03Mod(p.Cut, len(key)+1)]
		if p.Opts&0x38 != 0 && p.Cut%2 == 0 {
			pre = []byte("s")
		}
		return []any{cp, "find", []any{c03FuncParam("ByteArray", c03B64(pre)), c03FuncParam("Integer", p.Opts)}}
	}
	switch t.native {
	case "NeoToken":
		switch p.Sel % 4 {
		case 0:
			return []any{cp, "balanceOf", []any{c03FuncParam("Hash160", party.StringLE())}}
		case 1:
			return []any{cp, "getCandidates", []any{}}
		case 2:
			return []any{cp, "getAccountState", []any{c03FuncParam("Hash160", party.StringLE())}}
		default:
			return []any{cp, "getCommittee", []any{}}
		}
	case "GasToken":
		return []any{cp, "balanceOf", []any{c03FuncParam("Hash160", party.StringLE())}}
	case "PolicyContract":
		switch p.Sel % 3 {
		case 0:
			return []any{cp, "getFeePerByte", []any{}}
		case 1:
			return []any{cp, "getStoragePrice", []any{}}
		default:
			return []any{cp, "isBlocked", []any{c03FuncParam("Hash160", party.StringLE())}}
		}
	case "RoleManagement":
		idx := int64(h) + 1 - int64(c03Mod(p.Sel*5+p.Cut, int(h)+2))
		return []any{cp, "getDesignatedByRole", []any{c03FuncParam("Integer", int64(p.Role)), c03FuncParam("Integer", idx)}}
	default: // ContractManagement
		dh := util.Uint160{1, 2, 3}
		if len(e.b.Deployed) > 0 {
			dh = e.b.Deployed[c03Mod(p.Sel, len(e.b.Deployed))].Hash
		}
		return []any{cp, "getContract", []any{c03FuncParam("Hash160", dh.StringLE())}}
	}
}

func (e *c03Env) liveInvoke(kind string, args []any) c03Out {
	switch kind {
	case "verify":
		return e.call((*Server).invokeContractVerify, args...)
	case "script":
		return e.call((*Server).invokescript, args...)
	}
	return e.call((*Server).invokeFunction, args...)
}

func (e *c03Env) historicInvoke(kind string, ref any, args []any) c03Out {
	all := append([]any{ref}, args...)
	switch kind {
	case "verify":
		return e.call((*Server).invokeContractVerifyHistoric, all...)
	case "script":
		return e.call((*Server).invokescripthistoric, all...)
	}
	return e.call((*Server).invokeFunctionHistoric, all...)
}

func (e *c03Env) record(h uint32, withInvokes bool) error {
	bc := e.b.N.BC
	sr := e.call((*Server).getStateRoot, int64(h))
	if sr.code != 0 {
		return fmt.Errorf("getstateroot(%d) on a node standing at height %d: %s", h, bc.BlockHeight(), sr)
	}
	rec := &c03Rec{h: h, root: sr.res.(*state.MPTRoot).Root.StringLE(), blockHash: bc.GetHeaderHash(h).StringLE()}
	ts := e.targets()
	for _, p := range e.c.Storage {
		t := e.pick(ts, p.Tgt)
		r := c03StorageRec{contract: e.param(t, p.Tgt.Addr), hashHex: t.hash.StringLE(), key: t.key(p.Key), tgtAlive: t.alive, hash: t.hash}
		r.live = e.call((*Server).getStorage, r.contract, c03B64(r.key))
		rec.storage = append(rec.storage, r)
	}
	for _, p := range e.c.Finds {
		t := e.pick(ts, p.Tgt)
		key := t.key(p.Key)
		r := c03FindRec{contract: e.param(t, p.Tgt.Addr), hashHex: t.hash.StringLE(), prefix: key[:c03Mod(p.Cut, len(key)+1)], count: p.Count}
		r.live, r.liveErr, _ = e.pageFindStorage("", r.contract, r.prefix)
		rec.finds = append(rec.finds, r)
	}
	if withInvokes {
		for _, p := range e.c.Invokes {
			args := e.invokeArgs(ts, p, h)
			rec.invokes = append(rec.invokes, c03InvokeRec{p: p, args: args, live: e.liveInvoke(p.Kind, args)})
		}
	}
	e.recs = append(e.recs, rec)
	return nil
}

// ---- questioning (historic answers later) ------------------------------------------------------------------------

func (e *c03Env) question(rec *c03Rec, cur uint32) (nt bool, err error) {
	where := fmt.Sprintf("node at height %d about height %d (root %s)", cur, rec.h, rec.root)
	// The three names of the historic state agree.
	if r := e.call((*Server).getStateRoot, rec.blockHash); r.code != 0 || r.res.(*state.MPTRoot).Root.StringLE() != rec.root {
		return false, fmt.Errorf("%s: getstateroot(block hash %s) = %s", where, rec.blockHash, r)
	}
	for _, r := range rec.storage {
		what := fmt.Sprintf("contract %v key %x", r.contract, r.key)
		hist := e.call((*Server).getStorageHistoric, rec.root, r.contract, c03B64(r.key))
		if !c03Same(hist, r.live) {
			return false, fmt.Errorf("%s: getstoragehistoric(%s) = %s, but getstorage returned %s when the chain stood at that height", where, what, hist, r.live)
		}
		e.o.Units(1)
		if rec.h < cur {
			if now := e.call((*Server).getStorage, r.contract, c03B64(r.key)); !c03Same(now, r.live) {
				nt = true // the historic answer differs from the current one: reading the current state would be noticed
			}
		}
		// getstate / getproof+verifyproof address the contract by hash only.
		gs := e.call((*Server).getState, rec.root, r.hashHex, c03B64(r.key))
		gp := e.call((*Server).getProof, rec.root, r.hashHex, c03B64(r.key))
		if r.tgtAlive && r.live.code == 0 {
			if !c03Same(gs, r.live) {
				return false, fmt.Errorf("%s: getstate(%s %x) = %s, but getstorage returned %s when the chain stood at that height", where, r.hashHex, r.key, gs, r.live)
			}
			if gp.code != 0 {
				return false, fmt.Errorf("%s: getproof(%s %x) = %s for an item getstorage returned (%s) at that height", where, r.hashHex, r.key, gp, r.live)
			}
			var proof string
			if err := json.Unmarshal([]byte(gp.js), &proof); err != nil {
				return false, fmt.Errorf("%s: getproof result %s is not a JSON string", where, gp.js)
			}
			vp := e.call((*Server).verifyProof, rec.root, proof)
			if !c03Same(vp, r.live) {
				return false, fmt.Errorf("%s: verifyproof(getproof(%s %x)) = %s, but getstorage returned %s at that height", where, r.hashHex, r.key, vp, r.live)
			}
			e.proofs = true
		} else {
			// No such item (or no such contract) at that height: no state, no proof.
			if gs.code == 0 {
				return false, fmt.Errorf("%s: getstate(%s %x) = %s, but getstorage failed (%s) at that height", where, r.hashHex, r.key, gs, r.live)
			}
			if gp.code == 0 {
				return false, fmt.Errorf("%s: getproof(%s %x) succeeded, but getstorage failed (%s) at that height", where, r.hashHex, r.key, r.live)
			}
		}
	}
	for _, r := range rec.finds {
		what := fmt.Sprintf("contract %v prefix %x", r.contract, r.prefix)
		hist, herr, calls := e.pageFindStorage(rec.root, r.contract, r.prefix)
		e.o.Units(calls)
		if herr.code != r.liveErr.code {
			return false, fmt.Errorf("%s: findstoragehistoric(%s) ends with %s, findstorage ended with %s when the chain stood at that height", where, what, herr, r.liveErr)
		}
		if d := c03SameKVs(hist, r.live); d != "" {
			return false, fmt.Errorf("%s: findstoragehistoric(%s) pages (%d calls, page %d) differ from the findstorage listing taken at that height: %s", where, what, calls, e.c.MaxFindStorage, d)
		}
		if calls > 1 {
			e.paged = true
		}
		if r.liveErr.code != 0 {
			continue
		}
		fs, ferr, calls, stuck, proofs := e.pageFindStates(rec.root, r.hashHex, r.prefix, r.count)
		e.o.Units(calls)
		if stuck {
			e.cannotContinue = true
			continue
		}
		if ferr.code != 0 {
			if fmt.Sprint(r.contract) == r.hashHex || len(r.live) > 0 {
				return false, fmt.Errorf("%s: findstates(%s %x count %d) ends with %s, findstorage listed %d items at that height", where, r.hashHex, r.prefix, r.count, ferr, len(r.live))
			}
			continue // the contract did not exist under this hash at that height (it was addressed by id)
		}
		if d := c03SameKVs(fs, r.live); d != "" {
			return false, fmt.Errorf("%s: findstates(%s %x count %d) pages (%d calls) differ from the findstorage listing taken at that height: %s", where, r.hashHex, r.prefix, r.count, calls, d)
		}
		if calls > 1 {
			e.paged = true
		}
		for _, p := range proofs {
			js, _ := json.Marshal(p)
			var ps string
			_ = json.Unmarshal(js, &ps)
			vp := e.call((*Server).verifyProof, rec.root, ps)
			var want []byte
			found := false
			for _, x := range r.live {
				if len(p.Key) >= 4 && bytes.Equal(x.Key, p.Key[4:]) {
					want, found = x.Value, true
				}
			}
			wjs := `"` + c03B64(want) + `"`
			if !found || vp.code != 0 || vp.js != wjs {
				return false, fmt.Errorf("%s: a first/last proof of findstates(%s %x) for key %x verifies to %s, the listing taken at that height has (%x, present=%v)", where, r.hashHex, r.prefix, p.Key, vp, want, found)
			}
		}
	}
	for _, r := range rec.invokes {
		var ref any
		switch r.p.Ref {
		case 0:
			ref = int64(rec.h)
		case 1:
			ref = rec.blockHash
		default:
			ref = rec.root
		}
		if r.p.Kind != "script" && c03IsID(r.args[0]) && vt.Known(c03KfInvokeByID) {
			// Listed finding: invoke*historic resolve a contract ID in the CURRENT state. Excluded shape.
			e.o.Excluded()
			continue
		}
		hist := e.historicInvoke(r.p.Kind, ref, r.args)
		e.o.Units(1)
		if !c03Same(hist, r.live) {
			aj, _ := json.Marshal(r.args)
			return false, fmt.Errorf("%s: historic %s(%v, %s) = %s, but the live call returned %s when the chain stood at that height", where, r.p.Kind, ref, aj, hist, r.live)
		}
		e.invoked = true
	}
	return nt, nil
}

// Keys of known_findings.json entries this check knows how to step around.
const c03KfInvokeByID = "historic-invoke-contract-id-current-state"

func c03IsID(v any) bool {
	switch x := v.(type) {
	case int64:
		return true
	case string:
		var n int32
		_, err := fmt.Sscanf(x, "%d", &n)
		return err == nil && fmt.Sprint(n) == x
	}
	return false
}

// ---- check -----------------------------------------------------------------------------------------------------

func c03CheckCase(c c03Case, o *vt.Obs) error {
	c.Blocks = c03Sanitize(c.Blocks)
	if len(c.Blocks) == 0 {
		return nil
	}
	b, err := ck.NewBuilder(c.Chain)
	if err != nil {
		return fmt.Errorf("harness: builder: %v", err)
	}
	defer b.Close()
	if _, err := b.Bootstrap(); err != nil {
		return fmt.Errorf("harness: bootstrap: %v", err)
	}
	rpcCfg := config.RPC{
		MaxGasInvoke:              fixedn.Fixed8FromInt64(20),
		MaxFindResultItems:        max(1, c.MaxFind),
		MaxFindStorageResultItems: max(1, c.MaxFindStorage),
		MaxIteratorResultItems:    100,
	}
	e := &c03Env{c: c, o: o, b: b, lastID: map[util.Uint160]int32{}, seen: map[util.Uint160]map[string]struct{}{}}
	// The way the package's own tests build a Server (server_helper_test.go), minus the network part: none of the
	// handlers under test touches coreServer; Start is not needed to run handlers.
	e.s = New(b.N.BC, rpcCfg, nil, nil, zap.NewNop(), make(chan error, 2))

	// Recorded heights: the drawn ones and the last one (the live answers are taken while the chain stands there).
	want := map[uint32]bool{uint32(2 + len(c.Blocks)): true}
	for _, sel := range c.Heights {
		want[uint32(2+c03Mod(sel, len(c.Blocks)+1))] = true
	}
	if want[2] {
		if err := e.record(2, true); err != nil {
			return err
		}
	}
	for _, spec := range c.Blocks {
		_, blk, err := b.BuildBlock(spec)
		if err != nil {
			o.Label("history-truncated")
			break
		}
		if want[blk.Index] {
			if err := e.record(blk.Index, true); err != nil {
				return err
			}
		} else {
			e.targets() // keeps the per-contract "deleted earlier" sets and last known ids up to date
		}
	}
	cur := b.N.BC.BlockHeight()
	nt := false
	for _, rec := range e.recs {
		x, err := e.question(rec, cur)
		if err != nil {
			return err
		}
		nt = nt || x
	}
	names := []string{"by-id", "by-id-string", "by-hash", "by-0x-hash", "by-address", "by-native-name"}
	for i, v := range e.byMode {
		if v {
			o.Label(names[i])
		}
	}
	if e.destroyed {
		o.Label("contract-destroyed-after-probed-height")
	}
	if e.paged {
		o.Label("paging-continued")
	}
	if e.invoked {
		o.Label("historic-invocation-compared")
	}
	if e.proofs {
		o.Label("proof-roundtrip")
	}
	if e.cannotContinue {
		o.Label("findstates-page-ended-at-empty-key")
	}
	if nt {
		o.Label("historic-answer-differs-from-current")
	}
	if nt && e.invoked {
		o.NonTrivial()
	}
	return nil
}
