//go:build verif

package consensus

// C19 harness, part 6: STORYLINES. A uniform random schedule almost never reaches the deep states of dBFT (a node
// that committed in an old view while the others moved on, a validator that asks for a view change after the
// others committed, a recovery message from a higher view ...). A storyline is a schedule built from drawn
// high-level PHASES instead of single events; every phase is expressed with the router's primitives only:
//
//	del    deliver the pending messages that match a filter (class / sender / destination / view), FIFO
//	lose   lose the pending messages that match a filter
//	fire   the timers of a set of nodes expire (optionally only of the nodes that are still in a given view)
//	sil    a node goes silent (<= f at a time) / unsil
//	flush  deliver whatever is pending, FIFO, including what the deliveries produce
//	ev     one plain schedule event of the safety check (jitter)        mark   nothing (carries the goals of a phase)
//
// so the whole run is a legal asynchronous execution with honest nodes (delay, reordering, loss, <= f silent):
// nothing is forged. Who plays which role, which messages get through and how many timer rounds happen are rapid
// draws; the steps are plain data (replay, shrinking). Nodes are named RELATIVE to the primary of the first
// height: relative node r is the validator (p0 + r) mod N, so relative 0 is the primary of view 0 and relative
// N-v the primary of view v. A phase may carry goals: white-box predicates over the dBFT contexts that tell
// whether the intended state was reached; they only produce class labels ("<phase>: reached / missed"), never a
// verdict. The verdict is the safety oracle of the network (after every delivery) and nothing else; a storyline is
// followed by a random tail of plain events and the final block relay.

import (
	"errors"
	"fmt"
	"sort"

	"pgregory.net/rapid"
	"verifharness/vt"
)

// message classes (bit mask)
const (
	c19TCV = 1 << iota
	c19TReq
	c19TResp
	c19TCommit
	c19TRecReq
	c19TRecMsg
	c19TOther // getdata / transaction
)

// C19Goal is a white-box predicate evaluated after a step (class labels only).
//
//	csent  every node of A has sent its Commit, no node of B has
//	view   every node of A works on the first height in view V
//	holds  every node of A holds a Commit of relative node B
//	vchg   every node of A has asked for a view change that has not happened yet
//	preps  every node of A holds >= Cnt preparations; B = 1: and the PrepareRequest, B = 2: and no PrepareRequest
//	nopreps3  no node of A holds M preparations
//	hv     node A adopted the view of the recovery message delivered last (observation 3: what became of its responses)
type C19Goal struct {
	P   string `json:"p"`
	A   int    `json:"a,omitempty"`
	B   int    `json:"b,omitempty"`
	V   int    `json:"v,omitempty"`
	Cnt int    `json:"cnt,omitempty"`
}

// C19Ph is one step of a storyline.
type C19Ph struct {
	K     string    `json:"k"`
	Name  string    `json:"name,omitempty"`  // the phase this step completes (labelled with the outcome of its goals)
	T     int       `json:"t,omitempty"`     // message classes (0 = all)
	From  int       `json:"from,omitempty"`  // senders, mask over relative node numbers (0 = everybody)
	To    int       `json:"to,omitempty"`    // destinations / nodes, likewise
	V     int       `json:"v,omitempty"`     // view+1 of the payload, for fire: of the node (0 = any)
	Max   int       `json:"max,omitempty"`   // at most so many messages (0 = all that match)
	Ev    *C19Ev    `json:"ev,omitempty"`    // k == "ev"
	Goals []C19Goal `json:"goals,omitempty"` // all must hold for "reached"
}

// C19Story is a storyline case.
type C19Story struct {
	N         int            `json:"n"`
	Kind      string         `json:"kind"`
	SRIH      bool           `json:"srih,omitempty"`
	Bypass    bool           `json:"bypass_dedup,omitempty"`
	PoolFirst bool           `json:"pool_first,omitempty"`
	AutoZero  bool           `json:"auto_zero,omitempty"`
	Pools     [][]int        `json:"pools"`
	Skew      []int          `json:"skew_ms,omitempty"`
	Roles     map[string]int `json:"roles,omitempty"` // documentation: relative node numbers / masks of the cast
	Steps     []C19Ph        `json:"steps"`
	Tail      []C19Ev        `json:"tail,omitempty"`
}

// ---- generator helpers ------------------------------------------------------------------------------------------

func c19Bit(r int) int { return 1 << r }

func c19Members(mask int) []int {
	var out []int
	for r := 0; mask>>r != 0; r++ {
		if mask&(1<<r) != 0 {
			out = append(out, r)
		}
	}
	return out
}

// c19SubMask draws a subset of mask with lo..hi members.
func c19SubMask(t *rapid.T, mask, lo, hi int, label string) int {
	mem := c19Members(mask)
	hi = min(hi, len(mem))
	lo = min(lo, hi)
	if hi == 0 {
		return 0
	}
	out := 0
	for _, r := range rapid.SliceOfNDistinct(rapid.SampledFrom(mem), lo, hi, func(i int) int { return i }).Draw(t, label) {
		out |= 1 << r
	}
	return out
}

func c19GenStoryPools(t *rapid.T, n int) [][]int {
	if rapid.IntRange(0, 9).Draw(t, "poolmode") < 2 {
		return c19GenPools(t, n) // differing mempools: RequestTx, missing transactions (a storyline may stall on them)
	}
	var plain []int
	for k := 0; k < c19NTx; k++ {
		if c19IsPlain(k) {
			plain = append(plain, k)
		}
	}
	common := rapid.SliceOfNDistinct(rapid.SampledFrom(plain), 0, 3, func(i int) int { return i }).Draw(t, "common")
	pools := make([][]int, n)
	for j := range pools {
		pools[j] = append([]int{}, common...)
	}
	return pools
}

type c19StoryGen struct {
	t     *rapid.T
	c     *C19Story
	name  string
	goals []C19Goal
}

func (g *c19StoryGen) add(ph C19Ph) { g.c.Steps = append(g.c.Steps, ph) }

// end closes the current phase: the last step carries its name and goals.
func (g *c19StoryGen) end(name string, goals ...C19Goal) {
	if len(g.c.Steps) == 0 || g.c.Steps[len(g.c.Steps)-1].Name != "" { // the phase added no step of its own
		g.add(C19Ph{K: "mark"})
	}
	last := &g.c.Steps[len(g.c.Steps)-1]
	last.Name, last.Goals = name, goals
}

// jitter: now and then a plain event between two phases (delivery, duplicate, loss, timer).
func (g *c19StoryGen) jitter(n int) {
	if rapid.IntRange(0, 11).Draw(g.t, "jitter") != 0 {
		return
	}
	k := rapid.SampledFrom([]string{"d", "d", "dup", "drop", "t", "dto"}).Draw(g.t, "jkind")
	ev := C19Ev{K: k, A: rapid.IntRange(0, 40).Draw(g.t, "ja")}
	g.add(C19Ph{K: "ev", Ev: &ev})
}

// c19GenStoryOldCommit: the storyline for "a commit of an older view inside a recovery message" (N = 7, f = 2, M = 5).
//
//	A  X alone receives enough view-0 preparations and sends its Commit; everybody else holds fewer than M
//	B  X's Commit reaches the nodes Y (at least one); X may fall silent
//	C  everybody but X times out (recovery requests first, then ChangeViews) and agrees on view 1
//	D  the view-1 PrepareRequest reaches everybody but Z, the PrepareResponses reach Z too: five nodes commit in view 1
//	E  some view-1 Commits reach the answering node early (never M of them)
//	F  Z times out, asks for view 2, committed nodes answer with recovery messages, Z reads them
//	G  everything pending is delivered
func c19GenStoryOldCommit(t *rapid.T, c *C19Story) {
	const N = 7
	g := &c19StoryGen{t: t, c: c}
	all := 1<<N - 1
	p1 := N - 1
	x := rapid.IntRange(0, N-2).Draw(t, "x")
	z := rapid.SampledFrom(c19Members(all&^c19Bit(x)&^c19Bit(p1))).Draw(t, "z")
	others := all &^ c19Bit(x)
	cm := others &^ c19Bit(z) // the five nodes that are to commit in view 1
	yset := c19SubMask(t, cm, 1, 3, "yset")
	yr := rapid.SampledFrom(c19Members(yset)).Draw(t, "yr")
	c.Roles = map[string]int{"X": x, "Z": z, "Yset": yset, "Yanswer": yr}
	backups := all &^ 1

	// A
	g.add(C19Ph{K: "del", T: c19TReq, V: 1})
	need := 3
	if x == 0 {
		need = 4
	}
	g.add(C19Ph{K: "del", T: c19TResp, V: 1, To: c19Bit(x), From: c19SubMask(t, backups&^c19Bit(x), need, N, "xresp")})
	for _, j := range c19Members(others) {
		if m := c19SubMask(t, backups&^c19Bit(j), 0, 2, "resp0"); m != 0 {
			g.add(C19Ph{K: "del", T: c19TResp, V: 1, To: c19Bit(j), From: m})
		}
	}
	g.end("A: X alone commits in view 0", C19Goal{P: "csent", A: c19Bit(x), B: others}, C19Goal{P: "view", A: all, V: 0})
	g.jitter(N)
	// B
	g.add(C19Ph{K: "del", T: c19TCommit, V: 1, From: c19Bit(x), To: yset})
	g.end("B: X's view-0 commit reaches Y", C19Goal{P: "holds", A: yset, B: x})
	silX := rapid.IntRange(0, 3).Draw(t, "silx") == 0
	if silX {
		g.add(C19Ph{K: "sil", To: c19Bit(x)})
	}
	// C
	rounds := rapid.SampledFrom([]int{1, 2, 2, 2, 3, 3}).Draw(t, "rounds0")
	for r := 0; r < rounds; r++ {
		g.add(C19Ph{K: "fire", To: others, V: 1})
		g.add(C19Ph{K: "del", T: c19TRecReq | c19TCV, V: 1, To: others})
	}
	if rapid.Bool().Draw(t, "lose-rec0") {
		g.add(C19Ph{K: "lose", T: c19TRecMsg, V: 1})
	}
	g.end("C: the others agree on view 1", C19Goal{P: "view", A: others, V: 1})
	g.jitter(N)
	// D
	if !c.AutoZero {
		g.add(C19Ph{K: "fire", To: c19Bit(p1), V: 2})
	}
	g.add(C19Ph{K: "del", T: c19TReq, V: 2, To: all &^ c19Bit(z)})
	zresp := c19SubMask(t, cm&^c19Bit(p1), rapid.SampledFrom([]int{4, 4, 4, 4, 4, 4, 4, 3}).Draw(t, "zrespn"), 4, "zresp")
	g.add(C19Ph{K: "del", T: c19TResp, V: 2, To: c19Bit(z), From: zresp})
	g.add(C19Ph{K: "del", T: c19TResp, V: 2, To: all &^ c19Bit(z)})
	g.end("D: five nodes commit in view 1, Z has responses but no request", C19Goal{P: "csent", A: cm, B: c19Bit(z)}, C19Goal{P: "preps", A: c19Bit(z), Cnt: 4, B: 2})
	g.jitter(N)
	// E
	if early := c19SubMask(t, cm&^c19Bit(yr), 0, rapid.SampledFrom([]int{0, 1, 2, 2, 3}).Draw(t, "nearly"), "early"); early != 0 {
		g.add(C19Ph{K: "del", T: c19TCommit, V: 2, To: c19Bit(yr), From: early})
		g.end("E: some view-1 commits reach the answering node")
	}
	// F
	for r := rapid.SampledFrom([]int{1, 1, 1, 2}).Draw(t, "zrounds"); r > 0; r-- {
		g.add(C19Ph{K: "fire", To: c19Bit(z), V: 2})
	}
	g.end("F1: Z asks for view 2", C19Goal{P: "vchg", A: c19Bit(z)})
	wset := c19SubMask(t, cm, 1, 3, "wset")
	if rapid.IntRange(0, 7).Draw(t, "with-yr") != 0 {
		wset |= c19Bit(yr)
	}
	order := rapid.Permutation(c19Members(wset)).Draw(t, "worder")
	if rapid.IntRange(0, 2).Draw(t, "yr-first") != 0 { // mostly the node that carries X's commit answers first
		sort.SliceStable(order, func(i, j int) bool { return order[i] == yr && order[j] != yr })
	}
	c.Roles["Wset"] = wset
	g.add(C19Ph{K: "del", T: c19TCV, V: 2, From: c19Bit(z), To: wset})
	for _, w := range order {
		g.add(C19Ph{K: "del", T: c19TRecMsg, V: 2, From: c19Bit(w), To: c19Bit(z)})
	}
	g.end("F2: Z stores X's old commit out of a recovery message", C19Goal{P: "holds", A: c19Bit(z), B: x}, C19Goal{P: "view", A: c19Bit(z), V: 1})
	g.jitter(N)
	// G
	if silX && rapid.Bool().Draw(t, "unsilx") {
		g.add(C19Ph{K: "unsil", To: c19Bit(x)})
	}
	g.add(C19Ph{K: "flush", Max: 900})
	g.end("G: everything delivered")
}

// c19GenStoryHigherView: the storyline for "a recovery message from a higher view" (N = 4 or 7).
//
//	A  view 0 stalls: the proposal is lost, or it is delivered and the responses are held back
//	B  everybody times out; the ChangeViews reach everybody but W: the others are in view 1, W is still in view 0
//	C  the view-1 PrepareRequest reaches the others (W may cache it), a drawn part of the PrepareResponses is exchanged
//	D  W times out; its request is answered by recovery messages of view 1; W reads the first, then the rest
//	E  everything pending is delivered
func c19GenStoryHigherView(t *rapid.T, c *C19Story) {
	N := c.N
	g := &c19StoryGen{t: t, c: c}
	all := 1<<N - 1
	p1 := N - 1
	w := rapid.IntRange(0, N-2).Draw(t, "w")
	others := all &^ c19Bit(w)
	c.Roles = map[string]int{"W": w}
	// A
	if rapid.Bool().Draw(t, "lose-req0") {
		g.add(C19Ph{K: "lose", T: c19TReq, V: 1})
	} else {
		g.add(C19Ph{K: "del", T: c19TReq, V: 1, To: c19SubMask(t, all, 1, N, "req0to")})
		if rapid.Bool().Draw(t, "lose-resp0") {
			g.add(C19Ph{K: "lose", T: c19TResp, V: 1})
		}
	}
	g.end("A: view 0 stalls", C19Goal{P: "csent", B: all})
	// B
	firing := others
	if rapid.Bool().Draw(t, "w-fires") {
		firing = all
	}
	for r := rapid.SampledFrom([]int{1, 2, 2, 2, 3}).Draw(t, "rounds0"); r > 0; r-- {
		g.add(C19Ph{K: "fire", To: firing, V: 1})
		g.add(C19Ph{K: "del", T: c19TRecReq, V: 1})
		g.add(C19Ph{K: "del", T: c19TCV, V: 1, To: others})
	}
	if rapid.Bool().Draw(t, "lose-rec0") {
		g.add(C19Ph{K: "lose", T: c19TRecMsg, V: 1})
	}
	g.end("B: the others are in view 1, W in view 0", C19Goal{P: "view", A: others, V: 1}, C19Goal{P: "view", A: c19Bit(w), V: 0})
	g.jitter(N)
	// C
	if !c.AutoZero {
		g.add(C19Ph{K: "fire", To: c19Bit(p1), V: 2})
	}
	to := others
	if rapid.IntRange(0, 3).Draw(t, "w-caches") == 0 {
		to = all
	}
	g.add(C19Ph{K: "del", T: c19TReq, V: 2, To: to})
	full := rapid.IntRange(0, 2).Draw(t, "resp1-mode") // 0: everything among the others, else drawn subsets
	for _, j := range c19Members(others) {
		m := others &^ c19Bit(j)
		if full != 0 {
			m = c19SubMask(t, m, 0, N, "resp1")
		}
		if m != 0 {
			g.add(C19Ph{K: "del", T: c19TResp, V: 2, To: c19Bit(j), From: m})
		}
	}
	g.end("C: view-1 proposal known to the others", C19Goal{P: "preps", A: others, Cnt: 1, B: 1}, C19Goal{P: "view", A: c19Bit(w), V: 0})
	g.jitter(N)
	// D
	if rapid.IntRange(0, 3).Draw(t, "keep-early-rec1") != 0 { // answers W got before the view-1 proposal existed
		g.add(C19Ph{K: "lose", T: c19TRecMsg, V: 2, To: c19Bit(w)})
	}
	for r := rapid.SampledFrom([]int{1, 1, 2}).Draw(t, "wrounds"); r > 0; r-- {
		g.add(C19Ph{K: "fire", To: c19Bit(w), V: 1})
	}
	rset := others
	if rapid.IntRange(0, 2).Draw(t, "rset-part") == 0 {
		rset = c19SubMask(t, others, 1, N, "rset")
	}
	g.add(C19Ph{K: "del", T: c19TRecReq | c19TCV, V: 1, From: c19Bit(w), To: rset})
	g.add(C19Ph{K: "del", T: c19TRecMsg, V: 2, To: c19Bit(w), Max: 1})
	g.end("D1: W reads a recovery message of the higher view", C19Goal{P: "hv", A: c19Bit(w), V: 1})
	g.add(C19Ph{K: "del", T: c19TRecMsg, V: 2, To: c19Bit(w)})
	g.end("D2: W reads the other recovery messages and holds responses", C19Goal{P: "preps", A: c19Bit(w), Cnt: 3, B: 1}, C19Goal{P: "view", A: c19Bit(w), V: 1})
	g.jitter(N)
	// E
	g.add(C19Ph{K: "flush", Max: 900})
	g.end("E: everything delivered")
}

// c19GenStoryHiddenRecovery: the storyline for "the only copy of a preparation travels in a recovery message that is
// read too early" (N = 4, f = 1, M = 3). X is relative node 0..2, view 1 has the primary A = relative 3.
//
//	A  X alone commits in view 0 (only X receives a third preparation)
//	B  the other three time out: recovery requests first (they have not seen each other), then ChangeViews: view 1
//	C  C (a backup of view 1) shows up in view 1 with a recovery request, then receives the view-1 proposal and B's
//	   response and commits; its own response and its Commit are lost: A and B hold two preparations each
//	D  A and B time out and ask for view 2 (they count one node, X, as committed or lost: not more than f)
//	E  C answers with its recovery message; A and B read it while they are changing view: its preparations are
//	   skipped, its commits are taken (dbft.onRecoveryMessage), from now on they would accept the preparations
//
// Afterwards two nodes are committed in different views and the other two lack one preparation that only C's
// recovery message carries; C repeats it byte for byte on every timeout.
func c19GenStoryHiddenRecovery(t *rapid.T, c *C19Story) {
	const N = 4
	g := &c19StoryGen{t: t, c: c}
	all := 1<<N - 1
	x := rapid.IntRange(0, N-2).Draw(t, "x")
	others := all &^ c19Bit(x)
	a := N - 1 // the primary of view 1
	cc := rapid.SampledFrom(c19Members(others&^c19Bit(a))).Draw(t, "c")
	b := c19Members(others &^ c19Bit(a) &^ c19Bit(cc))[0]
	c.Roles = map[string]int{"X": x, "A": a, "B": b, "C": cc}
	backups := all &^ 1
	// A
	g.add(C19Ph{K: "del", T: c19TReq, V: 1})
	need := 1
	if x == 0 {
		need = 2
	}
	g.add(C19Ph{K: "del", T: c19TResp, V: 1, To: c19Bit(x), From: c19SubMask(t, backups&^c19Bit(x), need, N, "xresp")})
	g.end("A: X alone commits in view 0", C19Goal{P: "csent", A: c19Bit(x), B: others}, C19Goal{P: "view", A: all, V: 0})
	g.jitterOf("dup", "t")
	// B
	for r := rapid.SampledFrom([]int{2, 2, 2, 3}).Draw(t, "rounds0"); r > 0; r-- {
		g.add(C19Ph{K: "fire", To: others, V: 1})
		g.add(C19Ph{K: "del", T: c19TRecReq | c19TCV, V: 1, From: others, To: others})
		g.add(C19Ph{K: "lose", T: c19TRecMsg, V: 1})
	}
	g.end("B: the others agree on view 1", C19Goal{P: "view", A: others, V: 1}, C19Goal{P: "view", A: c19Bit(x), V: 0})
	xCommitEarly := rapid.Bool().Draw(t, "xcommit-early")
	if xCommitEarly { // X's view-0 commit reaches some of the others now (they count X as committed instead of lost)
		g.add(C19Ph{K: "del", T: c19TCommit, V: 1, From: c19Bit(x), To: c19SubMask(t, others, 1, N, "xcto")})
	}
	// C
	g.add(C19Ph{K: "fire", To: c19Bit(cc), V: 2})
	g.add(C19Ph{K: "del", T: c19TRecReq | c19TCV, V: 2, From: c19Bit(cc), To: c19Bit(a) | c19Bit(b)})
	g.add(C19Ph{K: "lose", T: c19TRecMsg, V: 2})
	if !c.AutoZero {
		g.add(C19Ph{K: "fire", To: c19Bit(a), V: 2})
	}
	g.add(C19Ph{K: "del", T: c19TReq, V: 2, To: c19Bit(b) | c19Bit(cc)})
	g.add(C19Ph{K: "del", T: c19TResp, V: 2, From: c19Bit(b), To: c19Bit(a) | c19Bit(cc)})
	g.add(C19Ph{K: "lose", T: c19TResp | c19TCommit, V: 2, From: c19Bit(cc)})
	g.end("C: C alone commits in view 1, its response is lost", C19Goal{P: "csent", A: c19Bit(cc), B: c19Bit(a) | c19Bit(b)}, C19Goal{P: "preps", A: c19Bit(a) | c19Bit(b), Cnt: 2, B: 1})
	// D
	g.add(C19Ph{K: "fire", To: c19Bit(a) | c19Bit(b), V: 2})
	g.end("D: A and B ask for view 2", C19Goal{P: "vchg", A: c19Bit(a) | c19Bit(b)})
	// E
	g.add(C19Ph{K: "del", T: c19TCV, V: 2, From: c19Bit(a) | c19Bit(b), To: c19Bit(cc) | c19Bit(a) | c19Bit(b)})
	g.add(C19Ph{K: "del", T: c19TRecMsg, V: 2, From: c19Bit(cc), To: c19Bit(a) | c19Bit(b)})
	g.end("E: A and B read C's recovery message while changing view", C19Goal{P: "holds", A: c19Bit(a) | c19Bit(b), B: cc}, C19Goal{P: "preps", A: c19Bit(a) | c19Bit(b), Cnt: 2, B: 1}, C19Goal{P: "nopreps3", A: c19Bit(a) | c19Bit(b)})
	if !xCommitEarly && rapid.Bool().Draw(t, "xcommit-late") {
		g.add(C19Ph{K: "del", T: c19TCommit, V: 1, From: c19Bit(x), To: others})
	}
}

// jitterOf: now and then one plain event of the given kinds between two phases.
func (g *c19StoryGen) jitterOf(kinds ...string) {
	if rapid.IntRange(0, 5).Draw(g.t, "jitter") != 0 {
		return
	}
	ev := C19Ev{K: rapid.SampledFrom(kinds).Draw(g.t, "jkind"), A: rapid.IntRange(0, 40).Draw(g.t, "ja")}
	g.add(C19Ph{K: "ev", Ev: &ev})
}

func c19GenStory(t *rapid.T) C19Story {
	c := C19Story{Kind: rapid.SampledFrom([]string{"old-commit", "old-commit", "old-commit", "old-commit", "higher-view", "higher-view", "hidden-recovery"}).Draw(t, "kind")}
	c.N = 7
	if c.Kind == "higher-view" {
		c.N = rapid.SampledFrom([]int{4, 7}).Draw(t, "n")
	}
	if c.Kind == "hidden-recovery" {
		c.N = 4
	}
	c.SRIH = rapid.Bool().Draw(t, "srih")
	c.Bypass = rapid.Bool().Draw(t, "bypass")
	c.PoolFirst = rapid.Bool().Draw(t, "poolfirst")
	c.AutoZero = rapid.Bool().Draw(t, "autozero")
	c.Pools = c19GenStoryPools(t, c.N)
	if rapid.IntRange(0, 3).Draw(t, "skewed") == 0 {
		c.Skew = rapid.SliceOfN(rapid.SampledFrom([]int{0, 0, 1, 500, 3000}), c.N, c.N).Draw(t, "skew")
	}
	switch c.Kind {
	case "old-commit":
		c19GenStoryOldCommit(t, &c)
	case "hidden-recovery":
		c19GenStoryHiddenRecovery(t, &c)
		g := &c19StoryGen{t: t, c: &c}
		g.add(C19Ph{K: "flush", Max: 900})
		g.end("F: everything delivered")
	default:
		c19GenStoryHigherView(t, &c)
	}
	nt := rapid.IntRange(0, 60).Draw(t, "ntail")
	c.Tail = rapid.SliceOfN(rapid.Custom(c19GenEv(c.N)), nt, nt).Draw(t, "tail")
	return c
}

// ---- interpreter --------------------------------------------------------------------------------------------------

type c19StoryRun struct {
	net *c19Net
	n   int
	p0  int    // validator index of the primary of the first height, view 0
	h0  uint32 // the first height
	// node index <-> validator index
	nodeOf, valOf []int
}

// val: validator index of a relative node number; abs / rel translate between relative numbers and NODE indices
// (node j holds the j-th key, its validator index is its rank in the sorted key list).
func (s *c19StoryRun) val(rel int) int { return c19Mod(s.p0+rel, s.n) }
func (s *c19StoryRun) abs(rel int) int { return s.nodeOf[s.val(rel)] }
func (s *c19StoryRun) rel(abs int) int { return c19Mod(s.valOf[abs]-s.p0, s.n) }

func (s *c19StoryRun) in(mask, abs int) bool { return mask == 0 || mask&(1<<s.rel(abs)) != 0 }

// nodes lists the members of a mask (here 0 is the empty set).
func (s *c19StoryRun) nodes(mask int) []*c19Node {
	var out []*c19Node
	for _, r := range c19Members(mask & (1<<s.n - 1)) {
		out = append(out, s.net.nodes[s.abs(r)])
	}
	return out
}

func c19ClassOf(m *c19Msg) int {
	if m.kind != c19MsgPayload {
		return c19TOther
	}
	switch m.info.typ {
	case changeViewType:
		return c19TCV
	case prepareRequestType:
		return c19TReq
	case prepareResponseType:
		return c19TResp
	case commitType:
		return c19TCommit
	case recoveryRequestType:
		return c19TRecReq
	case recoveryMessageType:
		return c19TRecMsg
	}
	return c19TOther
}

func (s *c19StoryRun) match(ph C19Ph, m *c19Msg) bool {
	if ph.T != 0 && ph.T&c19ClassOf(m) == 0 {
		return false
	}
	if !s.in(ph.From, m.from) || !s.in(ph.To, m.to) {
		return false
	}
	if ph.V > 0 && (m.kind != c19MsgPayload || m.info.height != s.h0 || int(m.info.view) != ph.V-1) {
		return false
	}
	return true
}

func (s *c19StoryRun) step(ph C19Ph) error {
	net := s.net
	switch ph.K {
	case "del", "lose":
		var sel, rest []*c19Msg
		for _, m := range net.pending {
			if (ph.Max == 0 || len(sel) < ph.Max) && s.match(ph, m) {
				sel = append(sel, m)
			} else {
				rest = append(rest, m)
			}
		}
		net.pending = rest
		if ph.K == "lose" {
			if len(sel) > 0 {
				net.label("dropped")
				net.logf("lose %d pending messages (classes %#x from %#x to %#x view+1 %d)", len(sel), ph.T, ph.From, ph.To, ph.V)
			}
			return nil
		}
		for i, m := range sel {
			if net.deliveries >= c19MaxDeliveries {
				net.pending = append(net.pending, sel[i:]...)
				return nil
			}
			if err := net.deliver(m); err != nil {
				return err
			}
		}
	case "fire":
		for _, n := range net.nodes {
			if !s.in(ph.To, n.idx) {
				continue
			}
			if ph.V > 0 && (n.snap.blockIndex != s.h0 || int(n.snap.view) != ph.V-1) {
				continue
			}
			if _, err := net.fire(n); err != nil {
				return err
			}
		}
	case "sil":
		for _, n := range s.nodes(ph.To) {
			if !n.silent && net.maySilence(n) {
				n.silent = true
				net.label("silent-node")
				net.logf("silence n%d", n.idx)
			}
		}
	case "unsil":
		for _, n := range s.nodes(ph.To) {
			if n.silent {
				n.silent = false
				net.label("unsilenced")
				net.logf("un-silence n%d", n.idx)
			}
		}
	case "flush":
		for i := 0; i < ph.Max && len(net.pending) > 0 && net.deliveries < c19MaxDeliveries; i++ {
			if err := net.deliver(net.take(0)); err != nil {
				return err
			}
			if net.autoZero {
				if err := net.autoFire(); err != nil {
					return err
				}
			}
		}
	case "mark":
	case "ev":
		if ph.Ev == nil {
			return fmt.Errorf("bad case: ev step without event")
		}
		return net.exec(*ph.Ev)
	default:
		return fmt.Errorf("bad case: unknown step kind %q", ph.K)
	}
	return nil
}

// goal evaluates a white-box predicate. The services are quiescent (every hand-over ends with the barrier
// handshake), so their contexts may be read. Labels only.
func (s *c19StoryRun) goal(name string, g C19Goal) bool {
	here := func(n *c19Node) bool { return n.srv.dbft.BlockIndex == s.h0 && !n.srv.dbft.BlockSent() }
	switch g.P {
	case "csent":
		for _, n := range s.nodes(g.A) {
			if !here(n) || !n.srv.dbft.CommitSent() {
				return false
			}
		}
		for _, n := range s.nodes(g.B) {
			if !here(n) || n.srv.dbft.CommitSent() {
				return false
			}
		}
	case "view":
		for _, n := range s.nodes(g.A) {
			if !here(n) || int(n.srv.dbft.ViewNumber) != g.V {
				return false
			}
		}
	case "holds":
		owner := s.val(g.B)
		for _, n := range s.nodes(g.A) {
			if !here(n) || n.srv.dbft.CommitPayloads[owner] == nil {
				return false
			}
			s.net.label(fmt.Sprintf("%s: stored under view %d", name, n.srv.dbft.CommitPayloads[owner].ViewNumber()))
		}
	case "vchg":
		for _, n := range s.nodes(g.A) {
			if !here(n) || !n.srv.dbft.ViewChanging() {
				return false
			}
		}
	case "nopreps3": // no node of A holds M preparations
		for _, n := range s.nodes(g.A) {
			cnt := 0
			for _, p := range n.srv.dbft.PreparationPayloads {
				if p != nil {
					cnt++
				}
			}
			if !here(n) || cnt >= n.srv.dbft.M() {
				return false
			}
		}
	case "preps":
		for _, n := range s.nodes(g.A) {
			if !here(n) {
				return false
			}
			d := n.srv.dbft
			cnt := 0
			for _, p := range d.PreparationPayloads {
				if p != nil {
					cnt++
				}
			}
			if cnt < g.Cnt || (g.B == 1 && !d.RequestSentOrReceived()) || (g.B == 2 && d.RequestSentOrReceived()) {
				return false
			}
		}
	case "hv":
		lr := s.net.lastRec
		for _, n := range s.nodes(g.A) {
			d := n.srv.dbft
			if !here(n) || int(d.ViewNumber) != g.V || lr.to != n.idx || int(lr.view) != g.V {
				return false
			}
			if !lr.hasReq {
				s.net.label(name + ": message without PrepareRequest")
				continue
			}
			if !d.RequestSentOrReceived() {
				s.net.label(name + ": PrepareRequest of the message not taken")
				continue
			}
			cnt := 0
			for i, p := range d.PreparationPayloads {
				if p != nil && i != d.MyIndex {
					cnt++
				}
			}
			if cnt < lr.preps {
				s.net.label(fmt.Sprintf("%s: PrepareResponses of the message dropped (observation 3)", name))
			} else {
				s.net.label(name + ": all preparations of the message taken")
			}
		}
	default:
		return false
	}
	return true
}

// c19NewStoryRun prepares the interpreter for a started network of n validators (constant validator set).
func c19NewStoryRun(net *c19Net, w *c19World, n int) (*c19StoryRun, error) {
	s := &c19StoryRun{net: net, n: n, h0: w.baseH + 1, p0: int(w.baseH+1) % n}
	if got := int(net.nodes[0].srv.dbft.GetPrimaryIndex(0)); got != s.p0 {
		return nil, fmt.Errorf("HARNESS: primary of the first height is validator %d, storyline assumes %d", got, s.p0)
	}
	s.nodeOf, s.valOf = make([]int, n), make([]int, n)
	for _, k := range net.nodes {
		if k.snap.myIndex < 0 || k.snap.myIndex >= n {
			return nil, fmt.Errorf("HARNESS: storyline on a network where node %d is no validator", k.idx)
		}
		s.valOf[k.idx] = k.snap.myIndex
		s.nodeOf[k.snap.myIndex] = k.idx
	}
	return s, nil
}

// runSteps executes the steps of a storyline and labels its phases.
func (s *c19StoryRun) runSteps(steps []C19Ph) (executed int, reachedAll bool, err error) {
	net := s.net
	reachedAll = true
	for i, ph := range steps {
		if net.deliveries >= c19MaxDeliveries {
			break
		}
		net.logf("=%d %s %q classes=%#x from=%#x to=%#x v+1=%d max=%d (pending %d)", i, ph.K, ph.Name, ph.T, ph.From, ph.To, ph.V, ph.Max, len(net.pending))
		if err := s.step(ph); err != nil {
			return executed, reachedAll, err
		}
		if net.autoZero {
			if err := net.autoFire(); err != nil {
				return executed, reachedAll, err
			}
		}
		executed++
		if ph.Name != "" {
			ok := true
			for _, g := range ph.Goals {
				if !s.goal(ph.Name, g) {
					ok = false
				}
			}
			reachedAll = reachedAll && ok
			verdict := map[bool]string{true: "reached", false: "missed"}[ok]
			net.logf("   phase %q: %s", ph.Name, verdict)
			net.label(ph.Name + ": " + verdict)
		}
	}
	return executed, reachedAll, nil
}

func c19CheckStory(c C19Story, o *vt.Obs) (err error) {
	if c.N != 4 && c.N != 7 {
		return fmt.Errorf("bad case: n=%d", c.N)
	}
	w, err := c19GetWorld(c.N, c.SRIH, nil)
	if err != nil {
		return fmt.Errorf("HARNESS: world: %w", err)
	}
	net, err := c19NewNet(w, c.Pools, c.Skew, c.Bypass, c.PoolFirst, C19Lim{})
	defer net.close()
	if err != nil {
		return c19NetErr(net, err)
	}
	net.autoZero = c.AutoZero
	executed := 0
	reachedAll := true
	err = func() error {
		if err := net.start(); err != nil {
			return err
		}
		auto := func() error {
			if net.autoZero {
				return net.autoFire()
			}
			return nil
		}
		if err := auto(); err != nil {
			return err
		}
		s, err := c19NewStoryRun(net, w, c.N)
		if err != nil {
			return err
		}
		n, all, err := s.runSteps(c.Steps)
		executed, reachedAll = n, all
		if err != nil {
			return err
		}
		for i, ev := range c.Tail {
			if net.deliveries >= c19MaxDeliveries {
				break
			}
			if h, _ := net.maxHeight(); h >= w.baseH+c19MaxHeights {
				break
			}
			net.logf("#%d %s a=%d b=%d (pending %d)", i, ev.K, ev.A, ev.B, len(net.pending))
			if err := net.exec(ev); err != nil {
				return err
			}
			if err := auto(); err != nil {
				return err
			}
			executed++
		}
		return net.finalSync()
	}()
	o.Units(executed)
	if errors.Is(err, errC19Infra) {
		o.Label("infra-timeout")
		c19Record(c, net, "infra")
		return nil
	}
	o.Label("story=" + c.Kind)
	if reachedAll {
		o.Label("story=" + c.Kind + ": every phase reached")
	}
	c19Classify(net, o, w)
	if err != nil {
		c19Record(c, net, "FAIL")
		// Block and payload hashes depend on the nonce the library takes from crypto/rand. rapid minimises a failing
		// case only while the failure message stays the same, so the hashes are blanked in the message.
		return errors.New(c19BlkRe.ReplaceAllString(err.Error(), "blk:-"))
	}
	c19Record(c, net, "ok")
	return nil
}
