//go:build verif

package consensus

// Property C19: consensus through the node's dBFT integration is safe, and live under synchrony.
// White-box harness compiled into package consensus through `go test -overlay` (see /verif/run).

import (
	"testing"

	"verifharness/vt"
)

func init() {
	vt.PropertyID = "C19"
	vt.Register("safety", 1, c19GenSafety, c19CheckSafety)
	vt.Register("liveness", 0.5, c19GenLive, c19CheckLive)
	vt.Register("recovery", 0.5, c19GenRecovery, c19CheckLive)
	vt.Register("proposal", 0.3, c19GenProp, c19CheckProp)
	vt.Register("storyline", 0.25, c19GenStory, c19CheckStory)
}

func TestProp(t *testing.T) {
	defer c19Cleanup()
	vt.RunAll(t, 10)
}

func TestReplay(t *testing.T) {
	defer c19Cleanup()
	vt.ReplayAll(t)
}
