//go:build verif

package consensus

// Property C19: consensus through the node's dBFT integration is safe, and live under synchrony.
// White-box harness compiled into package consensus through `go test -overlay` (see /verif/run).

import (
	"encoding/json"
	"os"
	"path/filepath"
	"strings"
	"testing"

	"verifharness/vt"
)

func init() {
	vt.PropertyID = "C19"
	vt.Register("safety", 0.85, c19GenSafety, c19CheckSafety)
	vt.Register("liveness", 0.5, c19GenLive, c19CheckLive)
	vt.Register("recovery", 0.45, c19GenRecovery, c19CheckLive)
	vt.Register("proposal", 0.3, c19GenProp, c19CheckProp)
	vt.Register("storyline", 0.25, c19GenStory, c19CheckStory)
}

func TestProp(t *testing.T) {
	defer c19Cleanup()
	vt.RunAll(t, 10)
}

func TestReplay(t *testing.T) {
	defer c19Cleanup()
	vt.ReplayAll(t)
}

// TestKnownFindings re-confirms the listed finding C19KnownHiddenRecovery from its recorded case (a recovery case
// whose prefix is the hidden-recovery storyline, which the generator does not draw while the finding is listed):
// the synchronous phase makes no block and resumes as soon as duplicates pass the extensible pools.
func TestKnownFindings(t *testing.T) {
	defer c19Cleanup()
	key := C19KnownHiddenRecovery
	if !vt.Known(key) {
		t.Logf("%s: not listed as known: TestProp generates the shape itself", key)
		return
	}
	root := os.Getenv("VERIF_ROOT")
	if root == "" {
		root = "/verif"
	}
	raw, err := os.ReadFile(filepath.Join(root, "replays", "C19", "known", key+".json"))
	if err != nil {
		t.Logf("%s: %v", key, err)
		return
	}
	var env struct {
		Case C19Live `json:"case"`
	}
	if err := json.Unmarshal(raw, &env); err != nil {
		t.Fatal(err)
	}
	for try := 0; try < 3; try++ { // the run is reproducible up to goroutine handoff inside a node
		res, err := c19RunLive(env.Case)
		if err != nil {
			s := err.Error()
			if i := strings.IndexByte(s, '\n'); i >= 0 {
				s = s[:i]
			}
			t.Logf("%s: the recorded case ends otherwise: %s", key, s)
			continue
		}
		if res.shortfall != "" && res.resumed {
			vt.KnownFinding(key, "all validators honest, every message delivered, timers firing after the recorded asynchronous prefix: "+res.shortfall+"; blocks appear when payloads the receivers' extensible pools already hold are handed to consensus again (the pools hide the repeated byte-identical recovery message of a committed node)")
			return
		}
		t.Logf("%s: the recorded case no longer stalls (shortfall %q, resumed %v)", key, res.shortfall, res.resumed)
	}
}
