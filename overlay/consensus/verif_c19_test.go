//go:build verif

package consensus

import (
	"testing"

	"verifharness/vt"
)

func init() { vt.PropertyID = "C19" }

func TestProp(t *testing.T)   { vt.RunAll(t, 10) }
func TestReplay(t *testing.T) { vt.ReplayAll(t) }
