//go:build verif

package consensus

// C19 harness, part 3: the adversarial schedule (Case), its generator and the safety check.

import (
	"crypto/sha256"
	"encoding/json"
	"errors"
	"fmt"
	"os"
	"regexp"
	"slices"
	"strings"

	"pgregory.net/rapid"
	"verifharness/vt"
)

// C19Ev is one schedule event. Pending messages are referred to by index modulo the current queue length
// because their identities exist at run time only; the actual history is logged.
//
//	d      deliver pending[A] to its destination          dup   append a copy of pending[A] to the queue
//	drop   lose pending[A]                                 t     fire the timer of node A
//	tall   fire the timers of all nodes (index order)      tx    node B receives transaction A from the network
//	sil    silence node A (if fewer than f are silent)     unsil un-silence the A-th silent node
//	blk    node B receives its next block from the most advanced audible node
//	settle deliver up to A pending messages in FIFO order
//	dto    deliver everything now pending for node A (FIFO)   xto / xfrom  lose everything pending for / from node A
//	adv    a stretch of synchronous operation: everything pending is delivered (FIFO), lagging nodes are served blocks,
//	       the earliest timer fires when the network is idle, until every node has one more block (at most A steps)
type C19Ev struct {
	K string `json:"k"`
	A int    `json:"a,omitempty"`
	B int    `json:"b,omitempty"`
}

// C19Case is a safety schedule.
type C19Case struct {
	N         int       `json:"n"`
	Shift     *C19Shift `json:"shift,omitempty"` // the validator set changes inside the run (N = 6 nodes: the whole committee)
	SRIH      bool      `json:"srih,omitempty"`
	Bypass    bool      `json:"bypass_dedup,omitempty"` // hand duplicates to the service even if the node's extensible pool knows them
	PoolFirst bool      `json:"pool_first,omitempty"`   // a received tx enters the mempool before (true) / after the consensus callback
	AutoZero  bool      `json:"auto_zero,omitempty"`    // a timer armed with zero delay fires at once (as the wall-clock timer does)
	Lim       C19Lim    `json:"lim"`                    // small block limits (zero value: defaults)
	Pools     [][]int   `json:"pools"`                  // initial mempool of node j: indices into the tx pool
	Skew      []int     `json:"skew_ms,omitempty"`      // clock skew of node j
	Evs       []C19Ev   `json:"evs"`
}

const (
	c19MaxEvents     = 400
	c19MaxHeights    = 5
	c19MaxDeliveries = 2500
)

// c19GenLim draws small block limits: one, two or all three of them bind at 1..4 plain transactions per block.
func c19GenLim(t *rapid.T) C19Lim {
	var l C19Lim
	which := rapid.IntRange(1, 7).Draw(t, "limits")
	capa := func() int { return rapid.IntRange(1, 4).Draw(t, "cap") }
	if which&1 != 0 {
		l.MaxTx = capa()
	}
	if which&2 != 0 {
		l.SizeTxs = capa()
	}
	if which&4 != 0 {
		l.FeeTxs = capa()
	}
	return l
}

// c19GenStuffedPools: mempools holding more valid transactions than one block may carry, mostly the same on every
// node, so that the primary's proposal is cut to exactly the limit.
func c19GenStuffedPools(t *rapid.T, n int, l C19Lim) [][]int {
	capa := l.Cap()
	cnt := rapid.IntRange(capa+1, min(3*capa+2, 10)).Draw(t, "stuffed")
	var plain []int
	for k := 0; k < c19NTx; k++ {
		if c19IsPlain(k) {
			plain = append(plain, k)
		}
	}
	common := rapid.Permutation(plain).Draw(t, "perm")[:cnt]
	pools := make([][]int, n)
	for j := range pools {
		pools[j] = append([]int{}, common...)
		if rapid.IntRange(0, 3).Draw(t, "extra") == 0 { // a node-local extra (short-lived / conflicting / plain)
			pools[j] = append(pools[j], rapid.IntRange(0, c19NTx-1).Draw(t, "extratx"))
		}
	}
	return pools
}

func c19GenPools(t *rapid.T, n int) [][]int {
	mode := rapid.IntRange(0, 3).Draw(t, "poolmode") // 0 all empty, 1 identical, 2/3 different subsets
	var common []int
	if mode == 1 {
		common = rapid.SliceOfNDistinct(rapid.IntRange(0, c19NTx-1), 0, 5, func(i int) int { return i }).Draw(t, "common")
	}
	pools := make([][]int, n)
	for j := range pools {
		switch mode {
		case 0:
			pools[j] = []int{}
		case 1:
			pools[j] = append([]int{}, common...)
		default:
			pools[j] = rapid.SliceOfNDistinct(rapid.IntRange(0, c19NTx-1), 0, 5, func(i int) int { return i }).Draw(t, "pool")
		}
	}
	return pools
}

var c19ShiftRanks = [][]int{
	{4, 5, 0, 1, 2, 3}, // members 4 and 5 outrank 2 and 3: two new validators
	{5, 4, 3, 2, 1, 0}, // validators 2..5
	{0, 1, 2, 4, 3, 5}, // one new validator
	{4, 5, 3, 0, 1, 2}, // validators 0, 3, 4, 5
	{3, 2, 1, 0, 5, 4}, // an election that keeps the validators
	{5, 0, 4, 1, 3, 2}, // validators 0, 1, 4, 5 in another committee order
}

// c19GenShift draws a world whose validator set changes at the refresh height inside the run.
func c19GenShift(t *rapid.T) *C19Shift {
	s := &C19Shift{Base: rapid.SampledFrom([]int{4, 4, 5}).Draw(t, "base")}
	rank := func() []int {
		if rapid.IntRange(0, 3).Draw(t, "anyrank") == 0 {
			return rapid.Permutation([]int{0, 1, 2, 3, 4, 5}).Draw(t, "rank")
		}
		return slices.Clone(rapid.SampledFrom(c19ShiftRanks).Draw(t, "rank"))
	}
	pair := func(ps ...[2]int) {
		p := rapid.SampledFrom(ps).Draw(t, "counts")
		s.V0, s.V1 = p[0], p[1]
	}
	switch rapid.IntRange(0, 11).Draw(t, "shiftkind") {
	case 0, 1, 2, 3: // votes reorder the candidates inside the committee, the count stays
		s.Rank = rank()
	case 4, 5: // the count grows
		pair([2]int{1, 4}, [2]int{1, 4}, [2]int{4, 6}, [2]int{1, 6}, [2]int{4, 5}, [2]int{2, 4})
	case 6, 7, 8: // the count shrinks
		pair([2]int{4, 1}, [2]int{4, 1}, [2]int{6, 4}, [2]int{6, 4}, [2]int{4, 2}, [2]int{5, 4}, [2]int{6, 1}, [2]int{4, 3})
	case 9, 10: // both
		s.Rank = rank()
		pair([2]int{1, 4}, [2]int{4, 6}, [2]int{4, 1}, [2]int{6, 4}, [2]int{4, 3}, [2]int{4, 5}, [2]int{4, 4})
	default: // the committee grows with the validators
		s.C0 = 3
		pair([2]int{1, 4}, [2]int{3, 4}, [2]int{3, 1}, [2]int{3, 6}, [2]int{3, 3})
		if rapid.Bool().Draw(t, "c0rank") {
			s.Rank = rank()
		}
	}
	return s
}

var c19FrontBias = []int{0, 0, 0, 0, 0, 1, 1, 2, 3, 5, 8, 13, 21, 34}

func c19GenEv(n int) func(t *rapid.T) C19Ev {
	return func(t *rapid.T) C19Ev {
		r := rapid.IntRange(0, 99).Draw(t, "kind")
		idx := func() int { return rapid.SampledFrom(c19FrontBias).Draw(t, "idx") }
		node := func() int { return rapid.IntRange(0, n-1).Draw(t, "node") }
		switch {
		case r < 24:
			return C19Ev{K: "d", A: idx()}
		case r < 31:
			return C19Ev{K: "dto", A: node()}
		case r < 34:
			return C19Ev{K: "xto", A: node()}
		case r < 36:
			return C19Ev{K: "xfrom", A: node()}
		case r < 48:
			return C19Ev{K: "settle", A: rapid.IntRange(3, 80).Draw(t, "cnt")}
		case r < 60:
			return C19Ev{K: "t", A: node()}
		case r < 66:
			return C19Ev{K: "tall"}
		case r < 70:
			return C19Ev{K: "dup", A: idx()}
		case r < 78:
			return C19Ev{K: "drop", A: idx()}
		case r < 83:
			return C19Ev{K: "tx", A: rapid.IntRange(0, c19NTx-1).Draw(t, "tx"), B: node()}
		case r < 86:
			return C19Ev{K: "sil", A: node()}
		case r < 90:
			return C19Ev{K: "unsil", A: node()}
		default:
			return C19Ev{K: "blk", B: node()}
		}
	}
}

func c19GenSafety(t *rapid.T) C19Case {
	c := C19Case{N: rapid.SampledFrom([]int{4, 4, 4, 7}).Draw(t, "n")}
	if rapid.IntRange(0, 9).Draw(t, "shifted") < 4 {
		c.N, c.Shift = c19ShiftNodes, c19GenShift(t)
	}
	c.SRIH = rapid.Bool().Draw(t, "srih")
	c.Bypass = rapid.Bool().Draw(t, "bypass")
	c.PoolFirst = rapid.Bool().Draw(t, "poolfirst")
	c.AutoZero = rapid.IntRange(0, 2).Draw(t, "autozero") > 0
	switch rapid.IntRange(0, 9).Draw(t, "limmode") {
	case 0, 1:
		c.Lim = c19GenLim(t)
		c.Pools = c19GenStuffedPools(t, c.N, c.Lim)
	case 2:
		c.Lim = c19GenLim(t)
		c.Pools = c19GenPools(t, c.N)
	default:
		c.Pools = c19GenPools(t, c.N)
	}
	if c.Shift != nil {
		c.Lim.SizeTxs = 0 // calibrated for a fixed number of block signatures
	}
	if rapid.Bool().Draw(t, "skewed") {
		c.Skew = rapid.SliceOfN(rapid.SampledFrom([]int{0, 0, 1, 500, 3000}), c.N, c.N).Draw(t, "skew")
	}
	ne := rapid.IntRange(30, c19MaxEvents).Draw(t, "nev")
	c.Evs = rapid.SliceOfN(rapid.Custom(c19GenEv(c.N)), ne, ne).Draw(t, "evs")
	if c.Shift != nil {
		// Bring the adversarial part of the schedule close to the validator change: 0-3 blocks are made under
		// synchrony first (the refresh block is the first or second block of the run), one more stretch may follow later.
		lead := rapid.SampledFrom([]int{0, 1, 1, 2, 2, 2, 3}).Draw(t, "lead")
		for i := 0; i < lead; i++ {
			c.Evs = slices.Insert(c.Evs, i, C19Ev{K: "adv", A: 400})
		}
		if rapid.Bool().Draw(t, "midadv") {
			at := rapid.IntRange(lead, len(c.Evs)).Draw(t, "advat")
			c.Evs = slices.Insert(c.Evs, at, C19Ev{K: "adv", A: 400})
		}
	}
	return c
}

func c19Mod(a, n int) int { return ((a % n) + n) % n }

func (net *c19Net) silentCount() int {
	k := 0
	for _, n := range net.nodes {
		if n.silent {
			k++
		}
	}
	return k
}

func (net *c19Net) take(i int) *c19Msg {
	m := net.pending[i]
	net.pending = append(net.pending[:i], net.pending[i+1:]...)
	return m
}

// autoFire fires timers that were armed with zero delay, until none is left (bounded).
func (net *c19Net) autoFire() error {
	for round := 0; round < 20; round++ {
		any := false
		for _, n := range net.nodes {
			t := n.tm
			t.mu.Lock()
			due := t.armed && int64(t.deadline) <= net.vclock.Load() && t.zero
			t.mu.Unlock()
			if due {
				any = true
				if _, err := net.fire(n); err != nil {
					return err
				}
			}
		}
		if !any {
			return nil
		}
	}
	return nil
}

// advance: synchronous operation until every audible node has one more block than the most advanced one has now.
func (net *c19Net) advance(maxSteps int) error {
	target, _ := net.maxHeight()
	target++
	for step := 0; step < maxSteps && net.deliveries < c19MaxDeliveries; step++ {
		done := true
		var lag *c19Node
		mh, best := net.maxHeight()
		for _, n := range net.nodes {
			if n.silent {
				continue
			}
			if n.bc.BlockHeight() < target {
				done = false
			}
			if n.bc.BlockHeight() < mh && lag == nil {
				lag = n
			}
		}
		if done {
			return nil
		}
		switch {
		case len(net.pending) > 0:
			if err := net.deliver(net.take(0)); err != nil {
				return err
			}
		case lag != nil:
			if _, err := net.relay(best, lag); err != nil {
				return err
			}
		default:
			var n *c19Node
			for _, k := range net.nodes { // the earliest armed timer of an audible node
				k.tm.mu.Lock()
				armed, d := k.tm.armed, k.tm.deadline
				k.tm.mu.Unlock()
				if armed && !k.silent && (n == nil || d < n.tm.deadline) {
					n = k
				}
			}
			if n == nil {
				return nil
			}
			if _, err := net.fire(n); err != nil {
				return err
			}
		}
		if net.autoZero {
			if err := net.autoFire(); err != nil {
				return err
			}
		}
	}
	return nil
}

func (net *c19Net) exec(ev C19Ev) error {
	N := len(net.nodes)
	switch ev.K {
	case "d":
		if len(net.pending) == 0 {
			return nil
		}
		return net.deliver(net.take(c19Mod(ev.A, len(net.pending))))
	case "settle":
		for i := 0; i < ev.A && len(net.pending) > 0 && net.deliveries < c19MaxDeliveries; i++ {
			if err := net.deliver(net.take(0)); err != nil {
				return err
			}
		}
	case "dto":
		to := c19Mod(ev.A, N)
		var mine, rest []*c19Msg
		for _, m := range net.pending {
			if m.to == to && len(mine) < 80 {
				mine = append(mine, m)
			} else {
				rest = append(rest, m)
			}
		}
		net.pending = rest
		for _, m := range mine {
			if err := net.deliver(m); err != nil {
				return err
			}
		}
	case "adv":
		return net.advance(ev.A)
	case "xto", "xfrom":
		who := c19Mod(ev.A, N)
		var rest []*c19Msg
		lost := 0
		for _, m := range net.pending {
			if (ev.K == "xto" && m.to == who) || (ev.K == "xfrom" && m.from == who) {
				lost++
			} else {
				rest = append(rest, m)
			}
		}
		net.pending = rest
		if lost > 0 {
			net.label("dropped")
			net.logf("lose %d pending messages (%s n%d)", lost, ev.K, who)
		}
	case "dup":
		if len(net.pending) == 0 {
			return nil
		}
		m := *net.pending[c19Mod(ev.A, len(net.pending))]
		net.pending = append(net.pending, &m)
		net.label("duplicated")
		net.logf("duplicate %d>%d %s", m.from, m.to, m.desc)
	case "drop":
		if len(net.pending) == 0 {
			return nil
		}
		m := net.take(c19Mod(ev.A, len(net.pending)))
		net.label("dropped")
		net.logf("drop %d>%d %s", m.from, m.to, m.desc)
	case "t":
		_, err := net.fire(net.nodes[c19Mod(ev.A, N)])
		return err
	case "tall":
		for _, n := range net.nodes {
			if _, err := net.fire(n); err != nil {
				return err
			}
		}
	case "tx":
		n := net.nodes[c19Mod(ev.B, N)]
		k := c19Mod(ev.A, c19NTx)
		if n.silent {
			net.logf("tx %d for n%d: node silent, lost", k, n.idx)
			return nil
		}
		net.tick()
		net.logf("tx %d arrives at n%d", k, n.idx)
		return net.acceptTx(n, net.w.txs[k])
	case "sil":
		n := net.nodes[c19Mod(ev.A, N)]
		if !n.silent && net.maySilence(n) {
			n.silent = true
			net.label("silent-node")
			net.logf("silence n%d", n.idx)
		}
	case "unsil":
		var sl []*c19Node
		for _, n := range net.nodes {
			if n.silent {
				sl = append(sl, n)
			}
		}
		if len(sl) == 0 {
			return nil
		}
		n := sl[c19Mod(ev.A, len(sl))]
		if n.silent {
			n.silent = false
			net.label("unsilenced")
			net.logf("un-silence n%d", n.idx)
		}
	case "blk":
		dst := net.nodes[c19Mod(ev.B, N)]
		if dst.silent {
			return nil
		}
		var src *c19Node
		for _, n := range net.nodes {
			if n != dst && !n.silent && n.bc.BlockHeight() > dst.bc.BlockHeight() && (src == nil || n.bc.BlockHeight() > src.bc.BlockHeight()) {
				src = n
			}
		}
		if src != nil {
			_, err := net.relay(src, dst)
			return err
		}
	default:
		return fmt.Errorf("unknown event kind %q", ev.K)
	}
	return nil
}

var c19BlkRe = regexp.MustCompile(`blk:[0-9a-f]+|[0-9a-f]{64}`)

func c19Record(c any, net *c19Net, verdict string) {
	p := os.Getenv("VERIF_C19_HIST")
	if p == "" {
		return
	}
	raw, _ := json.Marshal(c)
	ch := sha256.Sum256(raw)
	// block and payload hashes depend on the nonce the library draws from crypto/rand: they are not part of the shape
	hh := sha256.Sum256([]byte(c19BlkRe.ReplaceAllString(strings.Join(net.hist, "\n"), "blk:-")))
	f, err := os.OpenFile(p, os.O_APPEND|os.O_CREATE|os.O_WRONLY, 0o644)
	if err != nil {
		return
	}
	fmt.Fprintf(f, "%x %x %d %s\n", ch[:8], hh[:8], len(net.hist), verdict)
	_ = f.Close()
	if d := os.Getenv("VERIF_C19_HISTDIR"); d != "" {
		_ = os.WriteFile(fmt.Sprintf("%s/%x-%x.txt", d, ch[:8], hh[:8]), []byte(strings.Join(net.hist, "\n")), 0o644)
		_ = os.WriteFile(fmt.Sprintf("%s/%x.case.json", d, ch[:8]), raw, 0o644)
	}
}

func c19CheckSafety(c C19Case, o *vt.Obs) (err error) {
	if err := c19CheckN(c.N, c.Shift); err != nil {
		return err
	}
	w, err := c19GetWorld(c.N, c.SRIH, c.Shift)
	if err != nil {
		return fmt.Errorf("HARNESS: world: %w", err)
	}
	net, err := c19NewNet(w, c.Pools, c.Skew, c.Bypass, c.PoolFirst, c.Lim)
	defer net.close()
	if err != nil {
		return c19NetErr(net, err)
	}
	net.autoZero = c.AutoZero
	executed := 0
	err = func() error {
		if err := net.start(); err != nil {
			return err
		}
		if net.autoZero {
			if err := net.autoFire(); err != nil {
				return err
			}
		}
		for i, ev := range c.Evs {
			if i >= c19MaxEvents || net.deliveries >= c19MaxDeliveries {
				break
			}
			if h, _ := net.maxHeight(); h >= w.baseH+c19MaxHeights {
				break
			}
			net.logf("#%d %s a=%d b=%d (pending %d)", i, ev.K, ev.A, ev.B, len(net.pending))
			if err := net.exec(ev); err != nil {
				return err
			}
			if net.autoZero {
				if err := net.autoFire(); err != nil {
					return err
				}
			}
			executed++
		}
		return net.finalSync()
	}()
	o.Units(executed)
	if errors.Is(err, errC19Infra) {
		o.Label("infra-timeout")
		c19Record(c, net, "infra")
		return nil
	}
	c19Classify(net, o, w)
	if err != nil {
		c19Record(c, net, "FAIL")
		return err
	}
	c19Record(c, net, "ok")
	return nil
}

func c19CheckN(n int, shift *C19Shift) error {
	if shift != nil {
		if n != c19ShiftNodes {
			return fmt.Errorf("bad case: n=%d with a shift", n)
		}
		return shift.validate()
	}
	if n != 4 && n != 7 {
		return fmt.Errorf("bad case: n=%d", n)
	}
	return nil
}

func c19Classify(net *c19Net, o *vt.Obs, w *c19World) {
	for l := range net.labels {
		o.Label(l)
	}
	h, _ := net.maxHeight()
	if s := w.shift; s != nil {
		v0, v1 := s.counts()
		o.Labelf("shift: validators %d>%d", v0, v1)
		if len(s.Rank) != 0 {
			kept := 0
			for _, j := range w.post {
				if slices.Contains(w.pre, j) {
					kept++
				}
			}
			o.Labelf("shift: election, %d of %d new validators were validators before", kept, len(w.post))
		}
		if s.C0 != 0 {
			o.Label("shift: committee 3>6")
		}
		switch {
		case h > w.refresh:
			o.Label("shift: blocks by the new validators")
		case h == w.refresh:
			o.Label("shift: refresh block reached")
		default:
			o.Label("shift: refresh block not reached")
		}
	}
	o.Labelf("n=%d", len(net.nodes))
	if net.lim.Cap() > 0 {
		o.Label("small-block-limits")
	}
	o.Labelf("blocks-produced=%d", h-w.baseH)
	if net.maxView >= 2 {
		o.Label("view>=2")
	}
	if net.labels["view-change-happened"] || net.labels["recovery-message-exchanged"] || net.labels["request-tx-happened"] {
		o.NonTrivial()
	}
}
