//go:build verif

package consensus

// C19 harness, part 1: the fixed "world" every run starts from (cached per process): bootstrap blocks built by
// chainkit, a small pool of valid transactions, wallet files of the validators with light scrypt parameters.

import (
	"fmt"
	"maps"
	"os"
	"path/filepath"
	"runtime"
	"slices"
	"sync"

	"github.com/nspcc-dev/neo-go/pkg/core/storage"

	"github.com/nspcc-dev/neo-go/pkg/core/fee"
	"github.com/nspcc-dev/neo-go/pkg/core/transaction"
	"github.com/nspcc-dev/neo-go/pkg/crypto/keys"
	"github.com/nspcc-dev/neo-go/pkg/io"
	"github.com/nspcc-dev/neo-go/pkg/util"
	"github.com/nspcc-dev/neo-go/pkg/wallet"
	ck "verifharness/chainkit"
)

const (
	c19WalletPass = "c19"
	c19NTx        = 20 // size of the tx pool: 0..7 and 12..19 plain, 8..9 short-lived, 10..11 a Conflicts pair
)

// c19IsPlain: a transfer that stays valid for the whole run and conflicts with nothing.
func c19IsPlain(k int) bool { return k < 8 || (k >= 12 && k < c19NTx) }

type c19TxMeta struct {
	idx    int
	size   int
	sysFee int64
}

type c19World struct {
	n       int
	chain   ck.ChainCfg
	boot    [][]byte // bootstrap blocks (heights 1, 2)
	txs     [][]byte // valid transactions (built against the state after bootstrap)
	txHash  []util.Uint256
	txMeta  map[util.Uint256]c19TxMeta
	wallets []string // wallet file of validator node j (key ck.CommitteeKeys[j])
	baseH   uint32   // chain height after bootstrap
	// snapshot of the persisted bootstrap state: every node starts from a copy (as a node restarted over its DB)
	// instead of re-verifying the bootstrap blocks.
	snapMem  map[string][]byte
	snapStor map[string][]byte
}

// newStore returns a fresh memory backend holding the bootstrap state.
func (w *c19World) newStore() *storage.MemoryStore {
	ms := storage.NewMemoryStore()
	_ = ms.PutChangeSet(maps.Clone(w.snapMem), maps.Clone(w.snapStor))
	return ms
}

var (
	c19Mu      sync.Mutex
	c19Worlds  = map[string]*c19World{}
	c19Dir     string
	c19Wallets []string
)

// c19Cleanup removes the per-process scratch directory (wallet files).
func c19Cleanup() {
	c19Mu.Lock()
	defer c19Mu.Unlock()
	if c19Dir != "" {
		_ = os.RemoveAll(c19Dir)
		c19Dir = ""
		c19Wallets = nil
		c19Worlds = map[string]*c19World{} // they name the removed wallet files
	}
	if os.Getenv("VERIF_C19_DEBUG") != "" {
		fmt.Println("c19: goroutines at cleanup:", runtime.NumGoroutine())
	}
}

func c19WalletFiles() ([]string, error) {
	if c19Wallets != nil {
		return c19Wallets, nil
	}
	d, err := os.MkdirTemp("", "verif-c19-")
	if err != nil {
		return nil, err
	}
	c19Dir = d
	light := keys.ScryptParams{N: 2, R: 1, P: 1}
	var out []string
	for j := 0; j < ck.NCommittee; j++ {
		p := filepath.Join(d, fmt.Sprintf("w%d.json", j))
		w, err := wallet.NewWallet(p)
		if err != nil {
			return nil, err
		}
		w.Scrypt = light
		acc := wallet.NewAccountFromPrivateKey(ck.CommitteeKeys[j].Priv)
		if err := acc.Encrypt(c19WalletPass, light); err != nil {
			return nil, err
		}
		w.AddAccount(acc)
		if err := w.Save(); err != nil {
			return nil, err
		}
		out = append(out, p)
	}
	c19Wallets = out
	return out, nil
}

func c19EncodeTx(tx *transaction.Transaction) []byte {
	w := io.NewBufBinWriter()
	tx.EncodeBinary(w.BinWriter)
	return w.Bytes()
}

func c19DecodeTx(raw []byte) (*transaction.Transaction, error) {
	tx := new(transaction.Transaction)
	r := io.NewBinReaderFromBuf(raw)
	tx.DecodeBinary(r)
	return tx, r.Err
}

// c19GetWorld builds (once per process) the world for a network size and StateRootInHeader setting.
func c19GetWorld(n int, srih bool) (*c19World, error) {
	c19Mu.Lock()
	defer c19Mu.Unlock()
	key := fmt.Sprintf("%d/%v", n, srih)
	if w := c19Worlds[key]; w != nil {
		return w, nil
	}
	prof := "V4C6"
	if n == 7 {
		prof = "V7C7"
	} else if n != 4 {
		return nil, fmt.Errorf("unsupported network size %d", n)
	}
	w := &c19World{n: n, chain: ck.ChainCfg{Profile: prof, SRIH: srih, MemPoolSize: 100}}
	wf, err := c19WalletFiles()
	if err != nil {
		return nil, err
	}
	w.wallets = wf[:n]
	b, err := ck.NewBuilder(w.chain)
	if err != nil {
		return nil, err
	}
	defer b.Close()
	if w.boot, err = b.Bootstrap(); err != nil {
		return nil, err
	}
	w.baseH = b.N.BC.BlockHeight()
	bc := b.N.BC
	for k := 0; k < c19NTx; k++ {
		a := ck.Action{Kind: "gas_transfer", From: k % ck.NAccounts, A: (k + 1) % ck.NAccounts, N: int64(1000 + k), Nonce: uint32(7000 + k), VUB: 40}
		switch k {
		case 8:
			a.VUB = 0 // valid for the first consensus height only
		case 9:
			a.VUB = 1
		case 10, 11:
			a.From = 5
		}
		tx, err := b.MakeTx(a)
		if err != nil {
			return nil, fmt.Errorf("tx %d: %w", k, err)
		}
		if k == 11 { // conflicts with tx 10 (same sender), pays more
			old := tx
			tx = transaction.New(old.Script, old.SystemFee) // fresh object: the hash of the old one is cached
			tx.Nonce, tx.ValidUntilBlock, tx.Signers = old.Nonce, old.ValidUntilBlock, old.Signers
			tx.Attributes = []transaction.Attribute{{Type: transaction.ConflictsT, Value: &transaction.Conflicts{Hash: w.txHash[10]}}}
			actor := ck.Single(ck.Accounts[5])
			tx.Scripts = nil
			size := io.GetVarSize(tx)
			nf, sd := fee.Calculate(bc.GetBaseExecFee(), actor.Ver)
			tx.NetworkFee = nf + int64(size+sd)*bc.FeePerByte() + bc.CalculateAttributesFee(tx) + 100000
			tx.Scripts = []transaction.Witness{{InvocationScript: actor.Invocation(tx), VerificationScript: actor.Ver}}
		}
		raw := c19EncodeTx(tx)
		dec, err := c19DecodeTx(raw)
		if err != nil {
			return nil, fmt.Errorf("tx %d does not round-trip: %w", k, err)
		}
		if err := bc.VerifyTx(dec); err != nil {
			return nil, fmt.Errorf("tx %d is not valid on the bootstrap state: %w", k, err)
		}
		w.txs = append(w.txs, raw)
		w.txHash = append(w.txHash, dec.Hash())
		if w.txMeta == nil {
			w.txMeta = map[util.Uint256]c19TxMeta{}
		}
		w.txMeta[dec.Hash()] = c19TxMeta{idx: k, size: dec.Size(), sysFee: dec.SystemFee}
	}
	if err := bc.VerifPersist(); err != nil {
		return nil, err
	}
	w.snapMem, w.snapStor = map[string][]byte{}, map[string][]byte{}
	for p := 0; p < 256; p++ {
		b.N.Base().Seek(storage.SeekRange{Prefix: []byte{byte(p)}}, func(k, v []byte) bool {
			if p == int(storage.STStorage) || p == int(storage.STTempStorage) {
				w.snapStor[string(k)] = slices.Clone(v)
			} else {
				w.snapMem[string(k)] = slices.Clone(v)
			}
			return true
		})
	}
	c19Worlds[key] = w
	return w, nil
}
