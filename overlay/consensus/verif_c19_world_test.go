//go:build verif

package consensus

// C19 harness, part 1: the fixed "world" every run starts from (cached per process): bootstrap blocks built by
// chainkit, a small pool of valid transactions, wallet files of the validators with light scrypt parameters.

import (
	"encoding/json"
	"fmt"
	"maps"
	"os"
	"path/filepath"
	"runtime"
	"slices"
	"sync"

	"github.com/nspcc-dev/neo-go/pkg/core/storage"

	"github.com/nspcc-dev/neo-go/pkg/core/fee"
	"github.com/nspcc-dev/neo-go/pkg/core/transaction"
	"github.com/nspcc-dev/neo-go/pkg/crypto/keys"
	"github.com/nspcc-dev/neo-go/pkg/io"
	"github.com/nspcc-dev/neo-go/pkg/util"
	"github.com/nspcc-dev/neo-go/pkg/wallet"
	ck "verifharness/chainkit"
)

const (
	c19WalletPass = "c19"
	c19NTx        = 20 // size of the tx pool: 0..7 and 12..19 plain, 8..9 short-lived, 10..11 a Conflicts pair
)

// c19IsPlain: a transfer that stays valid for the whole run and conflicts with nothing.
func c19IsPlain(k int) bool { return k < 8 || (k >= 12 && k < c19NTx) }

type c19TxMeta struct {
	idx    int
	size   int
	sysFee int64
}

// C19Shift describes a world whose validator set changes at the committee refresh height 6, which lies inside the
// run (profile V4C6: the six committee keys are the cast, node j runs the consensus service with the wallet of
// committee key j from the start; a node whose key is not in the current validator list is watch-only).
//
//	Rank    election: all six committee keys are registered candidates and are voted for in the bootstrap blocks so
//	        that Rank lists them by descending votes (Rank[0] by the genesis holder, the rest by accounts 5..1); the
//	        committee stays the same six keys (and keeps its address), the validators of the new epoch are the first
//	        V1 keys of Rank. Empty: no election, the validators are a prefix of the standby committee.
//	V0, V1  ValidatorsHistory {0: V0, 6: V1} (both zero: the fixed ValidatorsCount 4 of the profile)
//	C0      CommitteeHistory {0: C0, 6: 6} (zero: six members from genesis); C0 = 3 refreshes at heights 3 and 6
//	Base    chain height after the bootstrap (4 or 5: the refresh block is the second or the first block of the run)
type C19Shift struct {
	Rank []int `json:"rank,omitempty"`
	V0   int   `json:"v0,omitempty"`
	V1   int   `json:"v1,omitempty"`
	C0   int   `json:"c0,omitempty"`
	Base int   `json:"base"`
}

const (
	c19ShiftNodes   = 6
	c19ShiftRefresh = 6
)

func (s *C19Shift) counts() (int, int) {
	if s.V0 == 0 && s.V1 == 0 {
		return 4, 4
	}
	return s.V0, s.V1
}

func (s *C19Shift) validate() error {
	v0, v1 := s.counts()
	if v0 < 1 || v1 < 1 || v0 > c19ShiftNodes || v1 > c19ShiftNodes || (s.Base != 4 && s.Base != 5) || (s.C0 != 0 && s.C0 != 3) || (s.C0 != 0 && v0 > s.C0) {
		return fmt.Errorf("bad case: shift %+v", *s)
	}
	if len(s.Rank) != 0 {
		seen := map[int]bool{}
		for _, r := range s.Rank {
			if r < 0 || r >= c19ShiftNodes || seen[r] {
				return fmt.Errorf("bad case: shift rank %v", s.Rank)
			}
			seen[r] = true
		}
		if len(s.Rank) != c19ShiftNodes {
			return fmt.Errorf("bad case: shift rank %v", s.Rank)
		}
	}
	return nil
}

// sets returns the node indices of the validators before and after the refresh (by the rules of the protocol, not
// read from the code under test; the ledgers' own answers are compared with them during the run).
func (s *C19Shift) sets() (pre, post []int) {
	v0, v1 := s.counts()
	for j := 0; j < v0; j++ {
		pre = append(pre, j)
	}
	if len(s.Rank) != 0 {
		post = slices.Clone(s.Rank[:v1])
		slices.Sort(post)
	} else {
		for j := 0; j < v1; j++ {
			post = append(post, j)
		}
	}
	return pre, post
}

// shiftString names the world in messages and class labels.
func (w *c19World) shiftString() string {
	s := w.shift
	if s == nil {
		return "constant validators"
	}
	v0, v1 := s.counts()
	out := fmt.Sprintf("validators %d>%d", v0, v1)
	if len(s.Rank) != 0 {
		out += fmt.Sprintf(", election %v", s.Rank)
	}
	if s.C0 != 0 {
		out += fmt.Sprintf(", committee %d>6", s.C0)
	}
	return out + fmt.Sprintf(", refresh at %d, run from %d", c19ShiftRefresh, s.Base)
}

type c19World struct {
	n       int       // number of nodes
	shift   *C19Shift // nil: the validators are the standby list for the whole run (n of them)
	pre     []int     // node indices of the validators up to the refresh block / of the following blocks
	post    []int
	refresh uint32 // height of the refresh block (0: none)
	chain   ck.ChainCfg
	boot    [][]byte // bootstrap blocks (heights 1, 2)
	txs     [][]byte // valid transactions (built against the state after bootstrap)
	txHash  []util.Uint256
	txMeta  map[util.Uint256]c19TxMeta
	wallets []string // wallet file of validator node j (key ck.CommitteeKeys[j])
	baseH   uint32   // chain height after bootstrap
	// snapshot of the persisted bootstrap state: every node starts from a copy (as a node restarted over its DB)
	// instead of re-verifying the bootstrap blocks.
	snapMem  map[string][]byte
	snapStor map[string][]byte
}

// newStore returns a fresh memory backend holding the bootstrap state.
func (w *c19World) newStore() *storage.MemoryStore {
	ms := storage.NewMemoryStore()
	_ = ms.PutChangeSet(maps.Clone(w.snapMem), maps.Clone(w.snapStor))
	return ms
}

var (
	c19Mu      sync.Mutex
	c19Worlds  = map[string]*c19World{}
	c19Dir     string
	c19Wallets []string
)

// c19Cleanup removes the per-process scratch directory (wallet files).
func c19Cleanup() {
	c19Mu.Lock()
	defer c19Mu.Unlock()
	if c19Dir != "" {
		_ = os.RemoveAll(c19Dir)
		c19Dir = ""
		c19Wallets = nil
		c19Worlds = map[string]*c19World{} // they name the removed wallet files
	}
	if os.Getenv("VERIF_C19_DEBUG") != "" {
		fmt.Println("c19: goroutines at cleanup:", runtime.NumGoroutine())
	}
}

func c19WalletFiles() ([]string, error) {
	if c19Wallets != nil {
		return c19Wallets, nil
	}
	d, err := os.MkdirTemp("", "verif-c19-")
	if err != nil {
		return nil, err
	}
	c19Dir = d
	light := keys.ScryptParams{N: 2, R: 1, P: 1}
	var out []string
	for j := 0; j < ck.NCommittee; j++ {
		p := filepath.Join(d, fmt.Sprintf("w%d.json", j))
		w, err := wallet.NewWallet(p)
		if err != nil {
			return nil, err
		}
		w.Scrypt = light
		acc := wallet.NewAccountFromPrivateKey(ck.CommitteeKeys[j].Priv)
		if err := acc.Encrypt(c19WalletPass, light); err != nil {
			return nil, err
		}
		w.AddAccount(acc)
		if err := w.Save(); err != nil {
			return nil, err
		}
		out = append(out, p)
	}
	c19Wallets = out
	return out, nil
}

func c19EncodeTx(tx *transaction.Transaction) []byte {
	w := io.NewBufBinWriter()
	tx.EncodeBinary(w.BinWriter)
	return w.Bytes()
}

func c19DecodeTx(raw []byte) (*transaction.Transaction, error) {
	tx := new(transaction.Transaction)
	r := io.NewBinReaderFromBuf(raw)
	tx.DecodeBinary(r)
	return tx, r.Err
}

// c19BootstrapShift extends the funding prologue of a shift world: the election (registration of the six committee
// keys paid by the accounts, then the votes) and empty blocks up to the base height.
func c19BootstrapShift(b *ck.Builder, s *C19Shift) ([][]byte, error) {
	var out [][]byte
	add := func(txs []ck.Action) error {
		raw, _, err := b.BuildBlock(ck.BlockSpec{Txs: txs, TimeD: 1000})
		if err != nil {
			return err
		}
		out = append(out, raw)
		return nil
	}
	if len(s.Rank) != 0 {
		var reg, votes []ck.Action
		for j := 0; j < c19ShiftNodes; j++ {
			reg = append(reg, ck.Action{Kind: "register", From: j % ck.NAccounts, A: ck.CandCommittee0 + j, Nonce: uint32(500 + j)})
		}
		for k, j := range s.Rank {
			voter := ck.PValidators // the genesis holder: the turnout rule (20% of the supply must vote) is met by it alone
			if k > 0 {
				voter = ck.NAccounts - k // accounts 5..1 hold 6000..2000 NEO
			}
			votes = append(votes, ck.Action{Kind: "vote", From: voter, A: ck.CandCommittee0 + j, Nonce: uint32(520 + k)})
		}
		if err := add(reg); err != nil {
			return nil, err
		}
		if err := add(votes); err != nil {
			return nil, err
		}
	}
	for b.N.BC.BlockHeight() < uint32(s.Base) {
		if err := add(nil); err != nil {
			return nil, err
		}
	}
	if len(b.Rejected) != 0 {
		return nil, fmt.Errorf("bootstrap transactions rejected: %v", b.Rejected)
	}
	if h := b.N.BC.BlockHeight(); h != uint32(s.Base) {
		return nil, fmt.Errorf("bootstrap ends at height %d, want %d", h, s.Base)
	}
	return out, nil
}

// c19GetWorld builds (once per process) the world for a network size, a StateRootInHeader setting and a shift.
func c19GetWorld(n int, srih bool, shift *C19Shift) (*c19World, error) {
	c19Mu.Lock()
	defer c19Mu.Unlock()
	key := fmt.Sprintf("%d/%v", n, srih)
	if shift != nil {
		if err := shift.validate(); err != nil {
			return nil, err
		}
		if n != c19ShiftNodes {
			return nil, fmt.Errorf("bad case: a shift world has %d nodes, not %d", c19ShiftNodes, n)
		}
		raw, _ := json.Marshal(shift)
		key += "/" + string(raw)
	}
	if w := c19Worlds[key]; w != nil {
		return w, nil
	}
	prof := "V4C6"
	if n == 7 {
		prof = "V7C7"
	} else if n != 4 && shift == nil {
		return nil, fmt.Errorf("unsupported network size %d", n)
	}
	w := &c19World{n: n, shift: shift, chain: ck.ChainCfg{Profile: prof, SRIH: srih, MemPoolSize: 100}}
	for j := 0; j < n; j++ {
		w.pre = append(w.pre, j)
	}
	w.post = w.pre
	if shift != nil {
		w.pre, w.post = shift.sets()
		w.refresh = c19ShiftRefresh
		if shift.V0 != 0 || shift.V1 != 0 {
			w.chain.ValidatorsHistory = map[uint32]uint32{0: uint32(shift.V0), c19ShiftRefresh: uint32(shift.V1)}
		}
		if shift.C0 != 0 {
			w.chain.CommitteeHistory = map[uint32]uint32{0: uint32(shift.C0), c19ShiftRefresh: c19ShiftNodes}
		}
	}
	wf, err := c19WalletFiles()
	if err != nil {
		return nil, err
	}
	w.wallets = wf[:n]
	b, err := ck.NewBuilder(w.chain)
	if err != nil {
		return nil, err
	}
	defer b.Close()
	if w.boot, err = b.Bootstrap(); err != nil {
		return nil, err
	}
	if shift != nil {
		more, err := c19BootstrapShift(b, shift)
		if err != nil {
			return nil, fmt.Errorf("shift %+v: %w", *shift, err)
		}
		w.boot = append(w.boot, more...)
	}
	w.baseH = b.N.BC.BlockHeight()
	bc := b.N.BC
	for k := 0; k < c19NTx; k++ {
		a := ck.Action{Kind: "gas_transfer", From: k % ck.NAccounts, A: (k + 1) % ck.NAccounts, N: int64(1000 + k), Nonce: uint32(7000 + k), VUB: 40}
		switch k {
		case 8:
			a.VUB = 0 // valid for the first consensus height only
		case 9:
			a.VUB = 1
		case 10, 11:
			a.From = 5
		}
		tx, err := b.MakeTx(a)
		if err != nil {
			return nil, fmt.Errorf("tx %d: %w", k, err)
		}
		if k == 11 { // conflicts with tx 10 (same sender), pays more
			old := tx
			tx = transaction.New(old.Script, old.SystemFee) // fresh object: the hash of the old one is cached
			tx.Nonce, tx.ValidUntilBlock, tx.Signers = old.Nonce, old.ValidUntilBlock, old.Signers
			tx.Attributes = []transaction.Attribute{{Type: transaction.ConflictsT, Value: &transaction.Conflicts{Hash: w.txHash[10]}}}
			actor := ck.Single(ck.Accounts[5])
			tx.Scripts = nil
			size := io.GetVarSize(tx)
			nf, sd := fee.Calculate(bc.GetBaseExecFee(), actor.Ver)
			tx.NetworkFee = nf + int64(size+sd)*bc.FeePerByte() + bc.CalculateAttributesFee(tx) + 100000
			tx.Scripts = []transaction.Witness{{InvocationScript: actor.Invocation(tx), VerificationScript: actor.Ver}}
		}
		raw := c19EncodeTx(tx)
		dec, err := c19DecodeTx(raw)
		if err != nil {
			return nil, fmt.Errorf("tx %d does not round-trip: %w", k, err)
		}
		if err := bc.VerifyTx(dec); err != nil {
			return nil, fmt.Errorf("tx %d is not valid on the bootstrap state: %w", k, err)
		}
		w.txs = append(w.txs, raw)
		w.txHash = append(w.txHash, dec.Hash())
		if w.txMeta == nil {
			w.txMeta = map[util.Uint256]c19TxMeta{}
		}
		w.txMeta[dec.Hash()] = c19TxMeta{idx: k, size: dec.Size(), sysFee: dec.SystemFee}
	}
	if err := bc.VerifPersist(); err != nil {
		return nil, err
	}
	w.snapMem, w.snapStor = map[string][]byte{}, map[string][]byte{}
	for p := 0; p < 256; p++ {
		b.N.Base().Seek(storage.SeekRange{Prefix: []byte{byte(p)}}, func(k, v []byte) bool {
			if p == int(storage.STStorage) || p == int(storage.STTempStorage) {
				w.snapStor[string(k)] = slices.Clone(v)
			} else {
				w.snapMem[string(k)] = slices.Clone(v)
			}
			return true
		})
	}
	if len(c19Worlds) >= 64 { // drawn elections: keep the cache bounded (the worlds in use stay referenced by their runs)
		c19Worlds = map[string]*c19World{}
	}
	c19Worlds[key] = w
	return w, nil
}
