//go:build verif

package consensus

// C19 harness, part 2: a network of full nodes (real core.Blockchain + real consensus service + real extensible
// pool), a virtual dBFT timer, the router that plays the role of pkg/network/server.go for consensus payloads,
// transaction relay and block relay, the quiescence handshake and the continuously evaluated safety oracle.

import (
	"bytes"
	"errors"
	"fmt"
	"os"
	"runtime"
	"slices"
	"strings"
	"sync"
	"sync/atomic"
	"time"

	"github.com/nspcc-dev/dbft"
	"github.com/nspcc-dev/neo-go/pkg/config"
	"github.com/nspcc-dev/neo-go/pkg/core"
	coreb "github.com/nspcc-dev/neo-go/pkg/core/block"
	"github.com/nspcc-dev/neo-go/pkg/core/transaction"
	"github.com/nspcc-dev/neo-go/pkg/crypto/keys"
	"github.com/nspcc-dev/neo-go/pkg/io"
	"github.com/nspcc-dev/neo-go/pkg/network/extpool"
	npayload "github.com/nspcc-dev/neo-go/pkg/network/payload"
	"github.com/nspcc-dev/neo-go/pkg/smartcontract"
	"github.com/nspcc-dev/neo-go/pkg/util"
	"go.uber.org/zap"
	"go.uber.org/zap/zapcore"
	"go.uber.org/zap/zaptest/observer"
	ck "verifharness/chainkit"
)

// c19T0 is the origin of virtual time. It lies in the future of any wall clock so that the library's
// time.Since(prepareSentTime) (the only wall-clock read that is not routed through the Timer) stays negative and
// its round-trip estimate stays zero.
var c19T0 = time.Date(2100, 1, 1, 0, 0, 0, 0, time.UTC)

const c19InfraWait = 20 * time.Second // wall-clock guard of the handshake: exceeding it is infrastructure trouble, never a verdict

var c19Debug = os.Getenv("VERIF_C19_DEBUG") != ""

var errC19Infra = errors.New("c19: quiescence handshake exceeded its wall-clock guard")

// ---- virtual timer ------------------------------------------------------------------------------------

type c19Snap struct {
	blockIndex uint32
	view       byte
	myIndex    int
	commitSent bool
	blockSent  bool
}

// c19Timer implements dbft.Timer. It never fires on its own: the router sends a tick when the schedule says so.
// The same channel carries "barrier" ticks: the event loop answers every tick by calling Height() once; for a
// barrier tick Height() reports a snapshot of the dBFT context (we are on the loop's goroutine there) and returns
// a height that no context has, which makes the following OnTimeout a no-op. The kind of each tick is queued
// before the tick is sent, so a tick can never be mistaken for the other kind.
type c19Timer struct {
	mu       sync.Mutex
	ch       chan time.Time
	net      *c19Net
	node     *c19Node
	h        uint32
	v        byte
	deadline time.Duration
	armed    bool
	zero     bool   // armed with zero delay: the wall-clock timer would tick at once
	kinds    []bool // one entry per tick sent and not yet answered by Height(): true = barrier tick
	ack      chan c19Snap
	resets   int
}

var _ dbft.Timer = (*c19Timer)(nil)

func (t *c19Timer) Now() time.Time {
	return c19T0.Add(time.Duration(t.net.vclock.Load()) + t.node.skew)
}

func (t *c19Timer) Reset(h uint32, v byte, d time.Duration) {
	t.mu.Lock()
	t.h, t.v = h, v
	t.deadline = time.Duration(t.net.vclock.Load()) + d
	t.armed = true
	t.zero = d == 0
	t.resets++
	t.mu.Unlock()
}

func (t *c19Timer) Extend(d time.Duration) {
	t.mu.Lock()
	t.deadline += d
	t.mu.Unlock()
}

func (t *c19Timer) Height() uint32 {
	t.mu.Lock()
	barrier := false
	if len(t.kinds) > 0 { // ticks are answered in the order they were sent, one Height() call per tick
		barrier = t.kinds[0]
		t.kinds = t.kinds[1:]
	}
	if barrier {
		t.mu.Unlock()
		d := t.node.srv.dbft
		t.ack <- c19Snap{blockIndex: d.BlockIndex, view: d.ViewNumber, myIndex: d.MyIndex, commitSent: d.MyIndex >= 0 && d.CommitSent(), blockSent: d.BlockSent()}
		return ^uint32(0)
	}
	h := t.h
	t.mu.Unlock()
	return h
}

func (t *c19Timer) View() byte {
	t.mu.Lock()
	defer t.mu.Unlock()
	return t.v
}

func (t *c19Timer) C() <-chan time.Time { return t.ch }

// ---- node ---------------------------------------------------------------------------------------------

const (
	c19OutPayload = iota
	c19OutReq
	c19OutStop
	c19OutCommit
)

type c19Out struct {
	kind    int
	raw     []byte
	hashes  []util.Uint256
	blk     *coreb.Block
	err     error
	poolErr error
}

type c19Node struct {
	idx        int
	net        *c19Net
	bc         *core.Blockchain
	srv        *service
	tm         *c19Timer
	ext        *extpool.Pool
	logs       *observer.ObservedLogs
	skew       time.Duration
	silent     bool
	cbList     []util.Uint256
	snap       c19Snap
	seenH      uint32 // chain height up to which the agreement oracle has looked at this node
	srvStopped bool
	bcClosed   bool

	probe  chan *coreb.Block // never read: used for the dispatcher handshake only
	quietH uint32            // chain height at the last complete handshake

	mu      sync.Mutex
	outbox  []c19Out
	fatal   string
	fatalCh chan struct{}
}

func (n *c19Node) push(o c19Out) {
	n.mu.Lock()
	n.outbox = append(n.outbox, o)
	n.mu.Unlock()
}

func (n *c19Node) takeOutbox() []c19Out {
	n.mu.Lock()
	o := n.outbox
	n.outbox = nil
	n.mu.Unlock()
	return o
}

func (n *c19Node) getFatal() string {
	n.mu.Lock()
	defer n.mu.Unlock()
	return n.fatal
}

// OnWrite is the zap fatal hook: a Fatal log entry is recorded as a failure and stops the logging goroutine only.
func (n *c19Node) OnWrite(ce *zapcore.CheckedEntry, _ []zapcore.Field) {
	n.mu.Lock()
	first := n.fatal == ""
	if first {
		n.fatal = ce.Message
	}
	n.mu.Unlock()
	if first {
		close(n.fatalCh)
	}
	runtime.Goexit()
}

// Put implements BlockQueuer the way the existing tests of the package do (synchronous AddBlock); the outcome is
// recorded for the oracle ("every block a validator commits ...").
func (n *c19Node) Put(b *coreb.Block) error {
	err := n.bc.AddBlock(b)
	n.push(c19Out{kind: c19OutCommit, blk: b, err: err})
	return err
}

func (n *c19Node) broadcast(e *npayload.Extensible) {
	w := io.NewBufBinWriter()
	e.EncodeBinary(w.BinWriter)
	err := w.Err // Bytes() drains the writer and sets Err
	o := c19Out{kind: c19OutPayload, raw: slices.Clone(w.Bytes()), err: err}
	// server.BroadcastExtensible: the node's own pool takes the payload at the moment it is created.
	_, o.poolErr = n.ext.Add(e)
	n.push(o)
}

func (n *c19Node) requestTx(h ...util.Uint256) {
	n.push(c19Out{kind: c19OutReq, hashes: slices.Clone(h)})
}

func (n *c19Node) stopTxFlow() { n.push(c19Out{kind: c19OutStop}) }

func (n *c19Node) barrier(deadline time.Time) (c19Snap, error) {
	t := n.tm
	t.mu.Lock()
	t.kinds = append(t.kinds, true)
	t.mu.Unlock()
	t.ch <- time.Time{}
	left := time.Until(deadline)
	if left < time.Second {
		left = time.Second
	}
	guard := time.NewTimer(left)
	defer guard.Stop()
	select {
	case s := <-t.ack:
		return s, nil
	case <-n.fatalCh:
		return c19Snap{}, fmt.Errorf("node %d: log.Fatal: %s", n.idx, n.getFatal())
	case <-guard.C:
		return c19Snap{}, errC19Infra
	}
}

// quiesce waits until the node's event loop has consumed everything that was handed to it and has finished
// processing it, including every block notification of its chain. Nothing else is injected meanwhile, so the state
// reached does not depend on how long any of this takes. Steps, repeated until a whole round sees nothing new:
//
//  1. the loop's input channels are empty (the loop took the items), then a barrier tick is answered: the loop is
//     back in its select, so processing (including a synchronous AddBlock of a committed block) is over;
//  2. a subscribe/unsubscribe pair on the chain: the notification dispatcher accepts it only between events, so
//     every block event of blocks added so far has been pushed into the service's channel;
//  3. if that channel was non-empty or the chain grew, go again (the loop handles the event), else done.
func (n *c19Node) quiesce() error {
	s := n.srv
	deadline := time.Now().Add(c19InfraWait)
	for spins := 0; ; spins++ {
		if f := n.getFatal(); f != "" {
			return fmt.Errorf("node %d: log.Fatal: %s", n.idx, f)
		}
		if len(s.messages) == 0 && len(s.transactions) == 0 && len(n.tm.ch) == 0 && len(s.blockEvents) == 0 {
			snap, err := n.barrier(deadline)
			if err != nil {
				return err
			}
			h0 := n.bc.BlockHeight()
			if h0 == n.quietH && len(s.blockEvents) == 0 {
				// no block since the last complete handshake: no notification can be under way
				n.snap = snap
				return nil
			}
			n.bc.SubscribeForBlocks(n.probe)
			n.bc.UnsubscribeFromBlocks(n.probe)
			if len(s.blockEvents) == 0 {
				snap, err := n.barrier(deadline)
				if err != nil {
					return err
				}
				if len(s.blockEvents) == 0 && n.bc.BlockHeight() == h0 {
					n.snap = snap
					n.quietH = h0
					return nil
				}
			}
		}
		if time.Now().After(deadline) {
			return errC19Infra
		}
		if spins < 200 {
			runtime.Gosched()
		} else {
			time.Sleep(20 * time.Microsecond)
		}
	}
}

// ---- network / router -----------------------------------------------------------------------------------

const (
	c19MsgPayload = iota
	c19MsgGetData
	c19MsgTx
)

type c19Msg struct {
	kind   int
	from   int
	to     int
	raw    []byte
	hashes []util.Uint256
	desc   string
	info   c19Info // decoded head of a consensus payload (kind == c19MsgPayload)
}

type c19Canon struct {
	hash util.Uint256
	root util.Uint256
	by   int
}

type c19Net struct {
	w           *c19World
	vals        map[uint32][]util.Uint160 // height -> accounts of the validators of that block, by validator index (from the first ledger that got there)
	nodes       []*c19Node
	pending     []*c19Msg
	vclock      atomic.Int64
	hist        []string
	labels      map[string]bool
	canon       map[uint32]c19Canon
	bypassDedup bool
	poolFirst   bool
	autoZero    bool
	lim         C19Lim
	cfg         config.Blockchain
	// proposal probe only: the harness itself hands an invalid PrepareRequest to a backup
	tolerateInvalidRequest bool
	deliveries             int
	maxView                int
	committed              int
	lastRec                c19RecSeen // the recovery message handed to a service most recently (storyline probes)
	// set around the hand-over of a payload whose sender is not the validator its index names in the receiver's
	// ledger (another epoch): the receiver must refuse it ("can't validate payload"), which is then no violation
	foreignIdx bool
	sawInvalid bool
	failed     bool // an oracle has spoken (fail was called): the error is a verdict, not harness trouble
}

// c19RecSeen describes a delivered recovery message (classification only, no oracle reads it).
type c19RecSeen struct {
	from, to       int
	view           byte
	preps, commits int
	hasReq         bool
}

func (net *c19Net) logf(f string, a ...any) {
	net.hist = append(net.hist, fmt.Sprintf(f, a...))
}

func (net *c19Net) label(l string) { net.labels[l] = true }

// history renders the tail of the logged actual history (attached to every failure).
func (net *c19Net) history(maxLines int) string {
	h := net.hist
	skipped := 0
	if len(h) > maxLines {
		skipped = len(h) - maxLines
		h = h[skipped:]
	}
	var b strings.Builder
	fmt.Fprintf(&b, "\n--- actual history (last %d of %d lines; N=%d) ---\n", len(h), len(net.hist), len(net.nodes))
	for i, l := range h {
		fmt.Fprintf(&b, "%d %s\n", skipped+i, l)
	}
	return b.String()
}

func (net *c19Net) fail(f string, a ...any) error {
	net.failed = true
	msg := fmt.Sprintf(f, a...)
	net.logf("VIOLATION %s", msg)
	return fmt.Errorf("%s%s", msg, net.history(70))
}

// c19NetErr: an error of c19NewNet is harness trouble unless an oracle produced it (a ledger opened over the
// bootstrap database answers wrongly).
func c19NetErr(net *c19Net, err error) error {
	if net != nil && net.failed {
		return err
	}
	return fmt.Errorf("HARNESS: network: %w", err)
}

// C19Lim draws small block limits (0 = the default, i.e. never reached): the primary cuts its proposal with
// ApplyPolicyToTxSet to exactly these limits and the backups re-check them in verifyRequest / verifyBlock.
// The size and fee limits are given as the number of plain transactions (all of one size and one system fee)
// that exactly fit by the primary's own estimate.
type C19Lim struct {
	MaxTx   int `json:"max_tx,omitempty"`
	SizeTxs int `json:"size_txs,omitempty"`
	FeeTxs  int `json:"fee_txs,omitempty"`
}

// Cap is the number of plain transactions one block can carry (0 = unlimited for this harness).
func (l C19Lim) Cap() int {
	c := 0
	for _, v := range []int{l.MaxTx, l.SizeTxs, l.FeeTxs} {
		if v > 0 && (c == 0 || v < c) {
			c = v
		}
	}
	return c
}

// apply turns the limits into protocol settings (identical on every node).
func (l C19Lim) apply(w *c19World, cfg *config.Blockchain) error {
	plain := w.txMeta[w.txHash[0]]
	for k := 0; k < c19NTx; k++ {
		if m := w.txMeta[w.txHash[k]]; c19IsPlain(k) && (m.size != plain.size || m.sysFee != plain.sysFee) {
			return fmt.Errorf("plain transactions differ in size or system fee (tx %d)", k)
		}
	}
	if l.MaxTx > 0 {
		cfg.MaxTransactionsPerBlock = uint16(l.MaxTx)
	}
	if l.FeeTxs > 0 {
		cfg.MaxBlockSystemFee = int64(l.FeeTxs) * plain.sysFee
	}
	if l.SizeTxs > 0 && w.shift != nil {
		return fmt.Errorf("bad case: a block size limit in a world whose validator count changes")
	}
	if l.SizeTxs > 0 {
		// the estimate ApplyPolicyToTxSet uses: header with the default multisignature witness of the validators
		pubs := make(keys.PublicKeys, w.n)
		for i := range pubs {
			pubs[i] = ck.CommitteeKeys[i].Pub
		}
		ver, err := smartcontract.CreateDefaultMultiSigRedeemScript(pubs)
		if err != nil {
			return err
		}
		b := &coreb.Block{Header: coreb.Header{StateRootEnabled: w.chain.SRIH, Script: transaction.Witness{
			InvocationScript: make([]byte, 66*smartcontract.GetDefaultHonestNodeCount(w.n)), VerificationScript: ver}}}
		cfg.MaxBlockSize = uint32(b.GetExpectedBlockSizeWithoutTransactions(l.SizeTxs) + l.SizeTxs*plain.size)
	}
	return nil
}

func c19NewNet(w *c19World, pools [][]int, skewMs []int, bypassDedup, poolFirst bool, lim C19Lim) (*c19Net, error) {
	net := &c19Net{w: w, vals: map[uint32][]util.Uint160{}, labels: map[string]bool{}, canon: map[uint32]c19Canon{}, bypassDedup: bypassDedup, poolFirst: poolFirst, lim: lim}
	cfg := w.chain.Blockchain(ck.NodeCfg{Backend: "mem"})
	if err := lim.apply(w, &cfg); err != nil {
		return net, err
	}
	net.cfg = cfg
	for j := 0; j < w.n; j++ {
		n := &c19Node{idx: j, net: net, fatalCh: make(chan struct{}), probe: make(chan *coreb.Block, 8)}
		if j < len(skewMs) {
			n.skew = time.Duration(skewMs[j]) * time.Millisecond
		}
		net.nodes = append(net.nodes, n)
		bc, err := core.NewBlockchain(w.newStore(), cfg, zap.NewNop())
		if err != nil {
			return net, fmt.Errorf("node %d: %w", j, err)
		}
		n.bc = bc
		net.cfg = bc.GetConfig() // with the defaults NewBlockchain filled in
		go bc.Run()
		if bc.BlockHeight() != w.baseH {
			return net, fmt.Errorf("node %d: opened at height %d, want %d", j, bc.BlockHeight(), w.baseH)
		}
		n.seenH = bc.BlockHeight()
		if err := net.noteValidators(n); err != nil {
			return net, err
		}
		if j < len(pools) {
			for _, k := range pools[j] {
				tx, err := c19DecodeTx(w.txs[((k%c19NTx)+c19NTx)%c19NTx])
				if err != nil {
					return net, err
				}
				_ = bc.PoolTx(tx) // a conflicting pair cannot both be pooled: the second is simply refused
			}
		}
		n.ext = extpool.New(bc, 20, func([]util.Uint256) {})
		lvl := zapcore.InfoLevel
		if os.Getenv("VERIF_C19_DEBUG") != "" {
			lvl = zapcore.DebugLevel
		}
		obs, logs := observer.New(lvl)
		n.logs = logs
		srv, err := NewService(Config{
			Logger:                zap.New(obs, zap.WithFatalHook(n)),
			Broadcast:             n.broadcast,
			Chain:                 bc,
			BlockQueue:            n,
			ProtocolConfiguration: bc.GetConfig().ProtocolConfiguration,
			RequestTx:             n.requestTx,
			StopTxFlow:            n.stopTxFlow,
			Wallet:                config.Wallet{Path: w.wallets[j], Password: c19WalletPass},
		})
		if err != nil {
			return net, fmt.Errorf("node %d: NewService: %w", j, err)
		}
		n.srv = srv.(*service)
		n.tm = &c19Timer{ch: make(chan time.Time, 1), ack: make(chan c19Snap, 1), net: net, node: n}
		n.srv.dbft.Timer = n.tm
		n.srv.dbft.Context.Config.Timer = n.tm
	}
	return net, nil
}

// start starts the services one after another (the primary of the first height proposes inside Start).
func (net *c19Net) start() error {
	for _, n := range net.nodes {
		done := make(chan struct{})
		go func() { // Start runs dBFT code on the caller's goroutine: keep a Fatal log from ending the test goroutine
			defer close(done)
			n.srv.Start()
		}()
		<-done
		net.logf("start n%d", n.idx)
		if err := net.after(n); err != nil {
			return err
		}
	}
	return nil
}

func (net *c19Net) close() {
	for _, n := range net.nodes {
		net.stopSrv(n)
		if n.bc != nil && !n.bcClosed {
			n.bcClosed = true
			n.bc.Close()
		}
	}
}

func (net *c19Net) stopSrv(n *c19Node) {
	if n.srvStopped {
		return
	}
	n.srvStopped = true
	if n.srv != nil && n.srv.started.Load() && n.getFatal() == "" {
		n.srv.Shutdown()
	}
}

type c19Info struct {
	typ    messageType
	height uint32
	view   byte
	from   byte
}

func (i c19Info) String() string {
	return fmt.Sprintf("%s h%d v%d from v%d", i.typ, i.height, i.view, i.from)
}

func (net *c19Net) decodeExt(raw []byte) (*npayload.Extensible, c19Info, error) {
	e := npayload.NewExtensible()
	r := io.NewBinReaderFromBuf(raw)
	e.DecodeBinary(r)
	if r.Err != nil {
		return nil, c19Info{}, r.Err
	}
	p := net.nodes[0].srv.payloadFromExtensible(e)
	if err := p.decodeData(); err != nil {
		return e, c19Info{}, err
	}
	return e, c19Info{typ: p.message.Type, height: p.message.BlockIndex, view: p.message.ViewNumber, from: p.message.ValidatorIndex}, nil
}

// after is called when something was handed to node n: wait for quiescence, look at what it logged, route what
// it emitted, and re-evaluate the agreement oracle for the blocks it gained.
func (net *c19Net) after(n *c19Node) error {
	if err := n.quiesce(); err != nil {
		if errors.Is(err, errC19Infra) {
			return err
		}
		return net.fail("%v", err)
	}
	h0 := n.bc.BlockHeight()
	if err := net.noteValidators(n); err != nil {
		return err
	}
	if h := h0; n.snap.blockIndex != h+1 {
		// handleChainBlock re-initialises dBFT for every block the chain gains; all notifications are in.
		return net.fail("node %d: every block notification was processed, its ledger is at height %d, but its consensus works on height %d (expected %d)", n.idx, h, n.snap.blockIndex, h+1)
	}
	// Its role follows its ledger: validator #i of the block it works on iff its key is the i-th of the list its
	// ledger gives for that block, watch-only otherwise.
	if want := slices.Index(net.vals[h0+1], ck.CommitteeKeys[n.idx].Hash); n.snap.myIndex != want {
		return net.fail("node %d (key %d): its ledger at height %d lists its key as validator #%d of the next block, its consensus service runs as #%d (-1 = watch-only)", n.idx, n.idx, h0, want, n.snap.myIndex)
	}
	if int(n.snap.view) > net.maxView {
		net.maxView = int(n.snap.view)
	}
	if n.snap.view > 0 {
		net.label("view-change-happened")
	}
	if err := net.scanLogs(n); err != nil {
		return err
	}
	if err := net.drain(n); err != nil {
		return err
	}
	return net.agreement(n)
}

var c19ViolationLogs = map[string]bool{
	"can't decode payload data": true, // OnPayload: an honest payload must decode
	"can't validate payload":    true, // OnPayload: sender must match the validator index
	"invalid PrepareRequest":    true, // verifyRequest failed at the same height and view for the legitimate primary
}

func (net *c19Net) scanLogs(n *c19Node) error {
	for _, e := range n.logs.TakeAll() {
		if e.Level >= zapcore.ErrorLevel {
			return net.fail("node %d logged at %s level: %q %v", n.idx, e.Level, e.Message, e.ContextMap())
		}
		if e.Message == "can't validate payload" && net.foreignIdx {
			net.sawInvalid = true
			net.label("payload-of-other-epoch-refused")
			continue
		}
		if c19ViolationLogs[e.Message] && !(net.tolerateInvalidRequest && e.Message == "invalid PrepareRequest") {
			return net.fail("node %d (h%d v%d) rejected a payload of an honest validator: %q %v", n.idx, n.snap.blockIndex, n.snap.view, e.Message, e.ContextMap())
		}
		if e.Message == "received commit for different view" {
			net.label("commit-of-other-view-seen")
		}
		if c19Debug && e.Message != "recovery message received" {
			net.logf("      n%d %s %s %v", n.idx, e.Level, e.Message, e.ContextMap())
		}
		if e.Level == zapcore.WarnLevel {
			net.label("warn: " + e.Message)
			net.logf("   n%d WARN %s %v", n.idx, e.Message, e.ContextMap())
		}
	}
	return nil
}

func (net *c19Net) drain(n *c19Node) error {
	for _, o := range n.takeOutbox() {
		switch o.kind {
		case c19OutPayload:
			if o.err != nil {
				return net.fail("node %d: emitted payload does not serialise: %v", n.idx, o.err)
			}
			_, info, err := net.decodeExt(o.raw)
			if err != nil {
				return net.fail("node %d: emitted payload does not decode: %v", n.idx, err)
			}
			if info.typ == prepareRequestType {
				net.classifyProposal(n, o.raw)
			}
			if info.view > 0 {
				net.label("view-change-happened")
				if int(info.view) > net.maxView {
					net.maxView = int(info.view)
				}
			}
			// server.BroadcastExtensible: the node's own pool must accept what its consensus created.
			if o.poolErr != nil {
				return net.fail("node %d: its own extensible pool refuses the payload it created (%s): %v", n.idx, info, o.poolErr)
			}
			if n.silent {
				net.logf("   n%d emits %s: discarded (silent)", n.idx, info)
				continue
			}
			net.logf("   n%d emits %s", n.idx, info)
			for _, k := range net.nodes {
				if k != n {
					net.pending = append(net.pending, &c19Msg{kind: c19MsgPayload, from: n.idx, to: k.idx, raw: o.raw, desc: info.String(), info: info})
				}
			}
		case c19OutReq:
			if len(o.hashes) == 0 {
				continue
			}
			net.label("request-tx-happened")
			n.cbList = o.hashes
			if n.silent {
				net.logf("   n%d requests %d tx: discarded (silent)", n.idx, len(o.hashes))
				continue
			}
			net.logf("   n%d requests %d tx", n.idx, len(o.hashes))
			for _, k := range net.nodes {
				if k != n {
					net.pending = append(net.pending, &c19Msg{kind: c19MsgGetData, from: n.idx, to: k.idx, hashes: o.hashes, desc: fmt.Sprintf("getdata(%d tx)", len(o.hashes))})
				}
			}
		case c19OutStop:
			n.cbList = nil
		case c19OutCommit:
			net.committed++
			b := o.blk
			net.logf("   n%d COMMITS block %d blk:%s (%d tx) -> own ledger: %v", n.idx, b.Index, b.Hash().StringLE()[:8], len(b.Transactions), o.err)
			// The protocol limits bind every block consensus produces (config: "MaxBlockSize is the maximum block
			// size in bytes", MaxTransactionsPerBlock, MaxBlockSystemFee).
			var fee int64
			for _, tx := range b.Transactions {
				fee += tx.SystemFee
			}
			if sz := io.GetVarSize(b); len(b.Transactions) > int(net.cfg.MaxTransactionsPerBlock) || (net.cfg.MaxBlockSize > 0 && sz > int(net.cfg.MaxBlockSize)) || (net.cfg.MaxBlockSystemFee > 0 && fee > net.cfg.MaxBlockSystemFee) {
				return net.fail("node %d committed block %d with %d transactions, %d bytes, system fee %d: beyond the protocol limits (MaxTransactionsPerBlock %d, MaxBlockSize %d, MaxBlockSystemFee %d)", n.idx, b.Index, len(b.Transactions), sz, fee, net.cfg.MaxTransactionsPerBlock, net.cfg.MaxBlockSize, net.cfg.MaxBlockSystemFee)
			}
			if o.err != nil {
				if !errors.Is(o.err, core.ErrAlreadyExists) {
					return net.fail("node %d: the block its consensus committed (index %d, %s) is rejected by its own ledger: %v", n.idx, b.Index, b.Hash().StringLE(), o.err)
				}
				if have := n.bc.GetHeaderHash(b.Index); have != b.Hash() {
					return net.fail("node %d: consensus committed block %s at height %d but its ledger already holds %s there", n.idx, b.Hash().StringLE(), b.Index, have.StringLE())
				}
			}
		}
	}
	return nil
}

// classifyProposal labels a proposal that fills a block limit exactly (by the primary's own reckoning).
func (net *c19Net) classifyProposal(n *c19Node, raw []byte) {
	e, _, err := net.decodeExt(raw)
	if err != nil {
		return
	}
	p := n.srv.payloadFromExtensible(e)
	if p.decodeData() != nil {
		return
	}
	req, ok := p.payload.(*prepareRequest)
	if !ok {
		return
	}
	cnt := len(req.transactionHashes)
	if cnt > 0 {
		net.label("proposal-with-tx")
	}
	var size int
	var fee int64
	for _, h := range req.transactionHashes {
		m := net.w.txMeta[h]
		size += m.size
		fee += m.sysFee
	}
	full := false
	if cnt == int(net.cfg.MaxTransactionsPerBlock) && net.lim.MaxTx > 0 {
		net.label("full: tx count")
		full = true
	}
	if fee == net.cfg.MaxBlockSystemFee && net.lim.FeeTxs > 0 {
		net.label("full: system fee")
		full = true
	}
	if net.lim.SizeTxs > 0 && cnt == net.lim.SizeTxs && size == cnt*net.w.txMeta[net.w.txHash[0]].size {
		net.label("full: block size")
		full = true
	}
	if full {
		net.label("proposal-exactly-full")
	}
}

// agreement: every height a node gained is compared with what any node held there before (hash and state root).
func (net *c19Net) agreement(n *c19Node) error {
	h := n.bc.BlockHeight()
	if h == n.seenH {
		return nil
	}
	for i := n.seenH + 1; i <= h; i++ {
		hash := n.bc.GetHeaderHash(i)
		sr, err := n.bc.GetStateModule().GetStateRoot(i)
		if err != nil {
			return net.fail("node %d has no state root for its own block %d: %v", n.idx, i, err)
		}
		c, ok := net.canon[i]
		if !ok {
			net.canon[i] = c19Canon{hash: hash, root: sr.Root, by: n.idx}
			continue
		}
		if c.hash != hash {
			return net.fail("FORK: height %d: node %d holds block %s, node %d holds block %s", i, c.by, c.hash.StringLE(), n.idx, hash.StringLE())
		}
		if c.root != sr.Root {
			return net.fail("state roots differ at height %d (same block %s): node %d has %s, node %d has %s", i, hash.StringLE(), c.by, c.root.StringLE(), n.idx, sr.Root.StringLE())
		}
	}
	n.seenH = h
	n.ext.RemoveStale(h) // server.relayBlocksLoop does this for every new block
	return net.noteValidators(n)
}

// noteValidators looks at the validators node n's ledger names for its next block: equal on all ledgers of that
// height, in a shift world the set the protocol rules give (standby prefix / election result, old count up to
// the refresh block, new count after it), and every one of them an allowed sender of extensible payloads
// (Blockchain.IsExtensibleAllowed: what extpool.Pool, i.e. the network server, asks for every consensus payload).
func (net *c19Net) noteValidators(n *c19Node) error {
	h := n.bc.BlockHeight()
	pubs, err := n.bc.GetNextBlockValidators()
	if err != nil {
		return net.fail("node %d: GetNextBlockValidators at height %d: %v", n.idx, h, err)
	}
	accs := make([]util.Uint160, len(pubs))
	var set []int
	for i, p := range pubs {
		accs[i] = p.GetScriptHash()
		set = append(set, slices.IndexFunc(ck.CommitteeKeys, func(k ck.Key) bool { return k.Pub.Equal(p) }))
	}
	if have, ok := net.vals[h+1]; ok {
		if !slices.Equal(have, accs) {
			return net.fail("node %d: its ledger at height %d names validators (keys %v) for block %d that differ from what another ledger of the same height names", n.idx, h, set, h+1)
		}
		return nil // already looked at (same list)
	}
	net.vals[h+1] = accs
	want := net.w.pre
	if net.w.refresh != 0 && h >= net.w.refresh {
		want = net.w.post
		if !slices.Equal(net.w.pre, net.w.post) {
			net.label("validators-changed")
		}
	}
	sorted := slices.Clone(set)
	slices.Sort(sorted)
	if !slices.Equal(sorted, want) {
		return net.fail("node %d: its ledger at height %d names the committee keys %v as validators of block %d, by the protocol rules (%s) they are %v", n.idx, h, set, h+1, net.w.shiftString(), want)
	}
	for i, a := range accs {
		if !n.bc.IsExtensibleAllowed(a) {
			return net.fail("node %d: its ledger at height %d names committee key %d as validator #%d of block %d but does not allow it to send extensible (consensus) payloads", n.idx, h, set[i], i, h+1)
		}
	}
	return nil
}

// maySilence: silencing node n keeps at most f members of every validator list of the run silent.
func (net *c19Net) maySilence(n *c19Node) bool {
	for _, s := range [][]int{net.w.pre, net.w.post} {
		k := 0
		for _, j := range s {
			if j == n.idx || net.nodes[j].silent {
				k++
			}
		}
		if slices.Contains(s, n.idx) && k > (len(s)-1)/3 {
			return false
		}
	}
	return true
}

func (net *c19Net) maxHeight() (uint32, *c19Node) {
	var best *c19Node
	for _, n := range net.nodes {
		if best == nil || n.bc.BlockHeight() > best.bc.BlockHeight() {
			best = n
		}
	}
	return best.bc.BlockHeight(), best
}

func (net *c19Net) minHeight() uint32 {
	m := net.nodes[0].bc.BlockHeight()
	for _, n := range net.nodes[1:] {
		m = min(m, n.bc.BlockHeight())
	}
	return m
}

func (net *c19Net) tick() { net.vclock.Add(int64(time.Millisecond)) }

// deliver hands one pending message to its destination the way the server would.
func (net *c19Net) deliver(m *c19Msg) error {
	net.deliveries++
	net.tick()
	dst := net.nodes[m.to]
	if dst.silent {
		net.label("lost-at-silent-node")
		net.logf("deliver %d>%d %s: destination silent, lost", m.from, m.to, m.desc)
		return nil
	}
	switch m.kind {
	case c19MsgPayload:
		e, info, err := net.decodeExt(m.raw)
		if err != nil {
			return net.fail("payload %d>%d does not decode from its wire form: %v", m.from, m.to, err)
		}
		// What the receiver's ledger says about the sender (the list was recorded from the first ledger that reached
		// this height): the sender must be allowed by the pool iff it is a validator of the receiver's next block,
		// and the service must take the payload iff the sender is the validator the payload's index names.
		dh := dst.bc.BlockHeight()
		curVals := net.vals[dh+1]
		isVal := slices.Contains(curVals, e.Sender)
		idxOK := int(info.from) < len(curVals) && curVals[info.from] == e.Sender
		// server.handleExtensibleCmd: extensiblePool.Add (witness, height window, IsExtensibleAllowed(sender),
		// de-duplication) decides whether the consensus handler sees the payload at all.
		ok, err := dst.ext.Add(e)
		if err != nil {
			if errors.Is(err, extpool.ErrInvalidHeight) {
				net.label("stale-payload")
				net.logf("deliver %d>%d %s: stale for height %d", m.from, m.to, m.desc, dst.bc.BlockHeight())
				return nil
			}
			if !isVal && err.Error() == "disallowed sender" {
				// a validator of another epoch than the one the receiver's ledger is in (the receiver lags behind the
				// refresh block or is already past it): the real node drops the payload (and the peer) too
				net.label("payload-of-other-epoch-refused")
				net.logf("deliver %d>%d %s: sender is no validator of block %d, refused by the pool", m.from, m.to, m.desc, dst.bc.BlockHeight()+1)
				return nil
			}
			return net.fail("node %d (chain height %d): extensible pool refuses the payload of honest node %d (%s): %v", m.to, dst.bc.BlockHeight(), m.from, info, err)
		}
		if !ok {
			if e.ValidBlockEnd == dst.bc.BlockHeight() {
				net.logf("deliver %d>%d %s: for the block already on chain, ignored", m.from, m.to, m.desc)
				return nil
			}
			net.label("duplicate-delivered")
			if !net.bypassDedup {
				net.logf("deliver %d>%d %s: duplicate, absorbed by the pool", m.from, m.to, m.desc)
				return nil
			}
		}
		if info.typ == recoveryMessageType {
			net.label("recovery-message-exchanged")
		}
		net.logf("deliver %d>%d %s [n%d at h%d v%d]", m.from, m.to, m.desc, m.to, dst.snap.blockIndex, dst.snap.view)
		var rec *recoveryMessage
		if info.typ == recoveryMessageType {
			// The loop is parked (quiescent) and the barrier's ack ordered its writes before us: reading is safe.
			d := dst.srv.dbft
			p := dst.srv.payloadFromExtensible(e)
			if p.decodeData() == nil {
				if r, ok := p.payload.(*recoveryMessage); ok {
					net.lastRec = c19RecSeen{from: m.from, to: m.to, view: info.view, preps: len(r.preparationPayloads), commits: len(r.commitPayloads), hasReq: r.prepareRequest != nil}
					if d.BlockIndex == info.height && d.ViewNumber == info.view && d.MyIndex >= 0 && !d.CommitSent() && !d.ViewChanging() && !d.BlockSent() {
						rec = r
					}
				}
			}
		}
		if err := dst.srv.OnPayload(e); err != nil {
			return net.fail("node %d: OnPayload(%s from node %d) = %v", m.to, info, m.from, err)
		}
		net.foreignIdx = !idxOK
		err = net.after(dst)
		refused := net.sawInvalid
		net.foreignIdx, net.sawInvalid = false, false
		if err != nil {
			return err
		}
		if !idxOK && !refused {
			return net.fail("node %d (ledger height %d) handed the payload %s of node %d to its consensus although the sender is not validator #%d of block %d by its ledger", m.to, dh, info, m.from, info.from, dh+1)
		}
		if rec != nil {
			return net.recoveryTransfer(dst, rec, info, m.from)
		}
		return nil
	case c19MsgGetData:
		found := 0
		for _, h := range m.hashes {
			if tx, _, err := dst.bc.GetTransaction(h); err == nil {
				found++
				net.pending = append(net.pending, &c19Msg{kind: c19MsgTx, from: m.to, to: m.from, raw: c19EncodeTx(tx), desc: "tx " + h.StringLE()[:8]})
			}
		}
		net.logf("deliver %d>%d %s: %d found", m.from, m.to, m.desc, found)
		return nil
	default:
		net.logf("deliver %d>%d %s", m.from, m.to, m.desc)
		return net.acceptTx(dst, m.raw)
	}
}

// recoveryTransfer: a recovery message received by a validator that is in the sender's height and view, has not
// committed and is not changing view hands over the sender's knowledge: afterwards (if the receiver is still in that
// height and view and did not start a view change) it holds a preparation of every validator whose preparation
// the message carries, and a commit of every validator whose commit of this view it carries.
// (dbft.onRecoveryMessage feeds exactly these reconstructed payloads to OnReceive; none of its filters applies
// under the stated conditions.)
func (net *c19Net) recoveryTransfer(dst *c19Node, rec *recoveryMessage, info c19Info, from int) error {
	d := dst.srv.dbft
	if d.BlockIndex != info.height || d.ViewNumber != info.view || d.BlockSent() || d.ViewChanging() {
		return nil
	}
	net.label("recovery-transfer-checked")
	for _, c := range rec.preparationPayloads {
		if int(c.ValidatorIndex) < len(d.PreparationPayloads) && d.PreparationPayloads[c.ValidatorIndex] == nil {
			return net.fail("recovery message %s of node %d carries the preparation of validator %d, but node %d (same height and view, not committed, not changing view) holds none after processing it", info, from, c.ValidatorIndex, dst.idx)
		}
	}
	for _, c := range rec.commitPayloads {
		if c.ViewNumber == info.view && int(c.ValidatorIndex) < len(d.CommitPayloads) && d.CommitPayloads[c.ValidatorIndex] == nil && d.RequestSentOrReceived() {
			return net.fail("recovery message %s of node %d carries the commit of validator %d for this view, but node %d holds none after processing it", info, from, c.ValidatorIndex, dst.idx)
		}
	}
	return nil
}

// acceptTx is server.txHandlerLoop for one received transaction.
func (net *c19Net) acceptTx(dst *c19Node, raw []byte) error {
	tx, err := c19DecodeTx(raw)
	if err != nil {
		return net.fail("tx does not decode: %v", err)
	}
	pool := func() {
		if err := dst.bc.PoolTx(tx); err != nil {
			net.logf("   n%d pool: %v", dst.idx, err)
		}
	}
	if net.poolFirst {
		pool()
	}
	if slices.Contains(dst.cbList, tx.Hash()) {
		dst.srv.OnTransaction(tx)
		if err := net.after(dst); err != nil {
			return err
		}
	}
	if !net.poolFirst {
		pool()
	}
	return nil
}

// fire makes node n's timer expire (no-op if it is not armed).
func (net *c19Net) fire(n *c19Node) (bool, error) {
	t := n.tm
	t.mu.Lock()
	if !t.armed {
		t.mu.Unlock()
		return false, nil
	}
	t.armed = false
	if int64(t.deadline) > net.vclock.Load() {
		net.vclock.Store(int64(t.deadline))
	}
	h, v := t.h, t.v
	t.kinds = append(t.kinds, false)
	t.mu.Unlock()
	net.tick()
	net.logf("timer n%d (armed for h%d v%d)%s", n.idx, h, v, map[bool]string{true: " [silent]", false: ""}[n.silent])
	t.ch <- time.Time{}
	return true, net.after(n)
}

// relay gives node dst the next block it lacks from node src's chain, as P2P block relay would
// (EncodeBinary -> DecodeBinary -> AddBlock). A refusal is a violation: src's ledger accepted that block.
func (net *c19Net) relay(src, dst *c19Node) (bool, error) {
	h := dst.bc.BlockHeight()
	if src.bc.BlockHeight() <= h {
		return false, nil
	}
	net.tick()
	b, err := src.bc.GetBlock(src.bc.GetHeaderHash(h + 1))
	if err != nil {
		return false, net.fail("node %d cannot serve its own block %d: %v", src.idx, h+1, err)
	}
	w := io.NewBufBinWriter()
	b.EncodeBinary(w.BinWriter)
	if w.Err != nil {
		return false, net.fail("block %d of node %d does not serialise: %v", h+1, src.idx, w.Err)
	}
	nb, err := ck.DecodeBlock(slices.Clone(w.Bytes()), net.w.chain.SRIH)
	if err != nil {
		return false, net.fail("block %d of node %d does not decode from its wire form: %v", h+1, src.idx, err)
	}
	if nb.Hash() != b.Hash() {
		return false, net.fail("block %d of node %d changes its hash over the wire", h+1, src.idx)
	}
	net.label("block-relayed")
	net.logf("relay block %d blk:%s n%d>n%d", h+1, b.Hash().StringLE()[:8], src.idx, dst.idx)
	if err := dst.bc.AddBlock(nb); err != nil {
		return false, net.fail("block %d (%s, %d tx) accepted by node %d's ledger is rejected by node %d's ledger: %v", h+1, b.Hash().StringLE(), len(b.Transactions), src.idx, dst.idx, err)
	}
	if dst.srvStopped {
		return true, net.agreement(dst)
	}
	return true, net.after(dst)
}

// finalSync stops the services and feeds every lagging ledger all blocks any validator committed, in index order.
func (net *c19Net) finalSync() error {
	for _, n := range net.nodes {
		net.stopSrv(n)
	}
	_, best := net.maxHeight()
	for _, n := range net.nodes {
		for n != best {
			ok, err := net.relay(best, n)
			if err != nil {
				return err
			}
			if !ok {
				break
			}
		}
	}
	// Every committed block is on `best`'s chain (agreement oracle) and now on everybody's; compare once more.
	hb := best.bc.BlockHeight()
	for _, n := range net.nodes {
		if n.bc.BlockHeight() != hb || !bytes.Equal(n.bc.CurrentBlockHash().BytesBE(), best.bc.CurrentBlockHash().BytesBE()) {
			return net.fail("after final block relay node %d is at %d/%s, node %d at %d/%s", n.idx, n.bc.BlockHeight(), n.bc.CurrentBlockHash().StringLE(), best.idx, hb, best.bc.CurrentBlockHash().StringLE())
		}
	}
	return nil
}
