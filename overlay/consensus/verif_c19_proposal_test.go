//go:build verif

package consensus

// C19 harness, part 5: proposal checks against the ledger (consensus.go verifyRequest / verifyBlock).
// Among honest validators a proposal never violates them, so they are probed directly: the legitimate primary's
// PrepareRequest is altered in one field, signed again with the primary's key (the harness owns all keys) and
// handed to one backup through the normal path. A backup that answers such a proposal with a PrepareResponse
// has accepted it. The unaltered, re-signed proposal is the positive control (it must be answered).

import (
	"errors"
	"fmt"
	"slices"
	"strings"

	"github.com/nspcc-dev/neo-go/pkg/core/transaction"
	"github.com/nspcc-dev/neo-go/pkg/crypto/keys"
	"github.com/nspcc-dev/neo-go/pkg/io"
	"github.com/nspcc-dev/neo-go/pkg/util"
	"pgregory.net/rapid"
	ck "verifharness/chainkit"
	"verifharness/vt"
)

// C19Prop is a forged-proposal case.
type C19Prop struct {
	N       int     `json:"n"`
	SRIH    bool    `json:"srih,omitempty"`
	Lim     C19Lim  `json:"lim"` // small block limits (zero value: defaults)
	Pools   [][]int `json:"pools"`
	Victim  int     `json:"victim"`  // which of the primary's pending PrepareRequest copies is replaced
	Corrupt string  `json:"corrupt"` // none | prevhash | version | stateroot | timestamp | toomany | unknowntx | overfull | alteredwitness
	Bit     int     `json:"bit"`     // which bit of the hash is flipped
}

func c19GenProp(t *rapid.T) C19Prop {
	c := C19Prop{N: rapid.SampledFrom([]int{4, 4, 7}).Draw(t, "n")}
	c.SRIH = rapid.Bool().Draw(t, "srih")
	if rapid.Bool().Draw(t, "limited") {
		c.Lim = c19GenLim(t)
		c.Pools = c19GenStuffedPools(t, c.N, c.Lim)
	} else {
		c.Pools = c19GenPools(t, c.N)
	}
	c.Victim = rapid.IntRange(0, c.N-2).Draw(t, "victim")
	kinds := []string{"none", "prevhash", "version", "timestamp", "toomany", "unknowntx"}
	if c.SRIH {
		kinds = append(kinds, "stateroot", "stateroot")
	}
	if c.Lim.Cap() > 0 {
		kinds = append(kinds, "none", "none", "overfull", "overfull", "overfull")
	}
	c.Corrupt = rapid.SampledFrom(kinds).Draw(t, "corrupt")
	c.Bit = rapid.IntRange(0, 255).Draw(t, "bit")
	if c.Lim.Cap() == 0 && rapid.IntRange(0, 5).Draw(t, "altered_witness") == 0 {
		// The proposal is genuine, but a peer answers the backup's request for a missing transaction with a copy
		// whose witness is altered (same hash); the genuine copy arrives right after it. Only the proposer holds
		// transactions, so that the backup has to fetch at least two.
		c.Corrupt = "alteredwitness"
		for j := range c.Pools {
			c.Pools[j] = []int{0, 1, 2, 3}
		}
	}
	return c
}

func c19CheckProp(c C19Prop, o *vt.Obs) error {
	if c.N != 4 && c.N != 7 {
		return fmt.Errorf("bad case: n=%d", c.N)
	}
	w, err := c19GetWorld(c.N, c.SRIH, nil)
	if err != nil {
		return fmt.Errorf("HARNESS: world: %w", err)
	}
	pools := c.Pools
	if c.Corrupt == "alteredwitness" {
		// every node but the proposer of the first height starts with an empty pool
		pools = make([][]int, len(c.Pools))
		for j := range pools {
			pools[j] = []int{}
		}
		prim := c19FirstPrimary(w, c.N)
		if prim >= 0 && prim < len(pools) {
			pools[prim] = c.Pools[prim]
		}
	}
	net, err := c19NewNet(w, pools, nil, false, false, c.Lim)
	defer net.close()
	if err != nil {
		return c19NetErr(net, err)
	}
	corrupt := c.Corrupt
	var (
		alteredHash util.Uint256
		alteredInv  []byte
	)
	err = func() error {
		if err := net.start(); err != nil {
			return err
		}
		// The primary of the first height proposes inside Start: its PrepareRequest copies are pending.
		var reqs []*c19Msg
		for _, m := range net.pending {
			if m.kind == c19MsgPayload {
				if _, info, err := net.decodeExt(m.raw); err == nil && info.typ == prepareRequestType {
					reqs = append(reqs, m)
				}
			}
		}
		if len(reqs) != c.N-1 {
			return net.fail("HARNESS: expected %d pending PrepareRequest copies after start, found %d", c.N-1, len(reqs))
		}
		m := reqs[c19Mod(c.Victim, len(reqs))]
		dst := net.nodes[m.to]
		e, info, err := net.decodeExt(m.raw)
		if err != nil {
			return net.fail("HARNESS: %v", err)
		}
		p := dst.srv.payloadFromExtensible(e)
		if err := p.decodeData(); err != nil {
			return net.fail("HARNESS: %v", err)
		}
		req := p.payload.(*prepareRequest)
		bit := c19Mod(c.Bit, 256)
		corrupt = c.Corrupt
		switch c.Corrupt {
		case "none", "alteredwitness":
		case "prevhash":
			req.prevHash[bit/8] ^= 1 << (bit % 8)
		case "version":
			req.version = 1 + uint32(bit)
		case "stateroot":
			req.stateRoot[bit/8] ^= 1 << (bit % 8)
		case "timestamp":
			top, err := dst.bc.GetHeader(dst.bc.CurrentBlockHash())
			if err != nil {
				return net.fail("HARNESS: %v", err)
			}
			req.timestamp = top.Timestamp - uint64(bit%2) // equal to / below the previous block's
		case "toomany":
			max := int(dst.bc.GetConfig().MaxTransactionsPerBlock)
			for i := len(req.transactionHashes); i <= max; i++ {
				var h util.Uint256
				h[0], h[1], h[2] = byte(i), byte(i>>8), 0xEE
				req.transactionHashes = append(req.transactionHashes, h)
			}
		case "unknowntx":
			var h util.Uint256
			h[bit/8] = 1 << (bit % 8)
			h[31] ^= 0x5A
			req.transactionHashes = append(req.transactionHashes, h)
		case "overfull":
			// One more valid transaction (known to the backup) on top of a proposal that fills the count or the
			// system fee limit exactly. If the proposal is not exactly full the case degrades to the control.
			var fee int64
			for _, h := range req.transactionHashes {
				fee += w.txMeta[h].sysFee
			}
			full := (c.Lim.MaxTx > 0 && len(req.transactionHashes) == int(net.cfg.MaxTransactionsPerBlock)) ||
				(c.Lim.FeeTxs > 0 && fee == net.cfg.MaxBlockSystemFee)
			spare := -1
			for k := 0; k < c19NTx && full; k++ {
				if c19IsPlain(k) && dst.bc.GetMemPool().ContainsKey(w.txHash[k]) && !slices.Contains(req.transactionHashes, w.txHash[k]) {
					spare = k
					break
				}
			}
			if spare < 0 {
				corrupt = "none"
			} else {
				req.transactionHashes = append(slices.Clone(req.transactionHashes), w.txHash[spare])
			}
		default:
			return fmt.Errorf("bad case: corrupt=%q", c.Corrupt)
		}
		pub, ok := dst.srv.dbft.Validators[info.from].(*keys.PublicKey)
		if !ok {
			return net.fail("HARNESS: validator %d has no key", info.from)
		}
		key, ok := ck.KeyByPub(pub)
		if !ok {
			return net.fail("HARNESS: validator %d is not in the cast", info.from)
		}
		p.Data = nil
		p.network = dst.srv.ProtocolConfiguration.Magic
		if err := p.Sign(key.Priv); err != nil {
			return net.fail("HARNESS: %v", err)
		}
		bw := io.NewBufBinWriter()
		p.Extensible.EncodeBinary(bw.BinWriter)
		if bw.Err != nil {
			return net.fail("HARNESS: %v", bw.Err)
		}
		forged := &c19Msg{kind: c19MsgPayload, from: m.from, to: m.to, raw: bw.Bytes(), desc: "FORGED(" + corrupt + ") " + m.desc}
		net.tolerateInvalidRequest = true
		for i, pm := range net.pending { // the forged copy replaces the original one
			if pm == m {
				net.take(i)
				break
			}
		}
		if err := net.deliver(forged); err != nil {
			return err
		}
		// Transactions the backup lacks are fetched from the other nodes (getdata from / tx to the backup only).
		for round := 0; round < 200; round++ {
			found := -1
			for i, pm := range net.pending {
				if (pm.kind == c19MsgGetData && pm.from == dst.idx) || (pm.kind == c19MsgTx && pm.to == dst.idx) {
					found = i
					break
				}
			}
			if found < 0 {
				break
			}
			fm := net.take(found)
			if c.Corrupt == "alteredwitness" && fm.kind == c19MsgTx && alteredHash == (util.Uint256{}) {
				// count the transaction copies still to come: the altered one must not be the last missing one
				more := 0
				for _, pm := range net.pending {
					if pm.kind == c19MsgTx && pm.to == dst.idx {
						more++
					}
				}
				if tx, err := c19DecodeTx(fm.raw); err == nil && more > 0 && len(tx.Scripts) > 0 && len(tx.Scripts[0].InvocationScript) > 10 {
					alt, _ := c19DecodeTx(fm.raw)
					alt.Scripts[0].InvocationScript = slices.Clone(alt.Scripts[0].InvocationScript)
					alt.Scripts[0].InvocationScript[5+bit%50] ^= 1 << (bit % 8)
					alteredHash, alteredInv = tx.Hash(), alt.Scripts[0].InvocationScript
					if err := net.deliver(&c19Msg{kind: c19MsgTx, from: fm.from, to: fm.to, raw: c19EncodeTx(alt), desc: "ALTERED WITNESS " + fm.desc}); err != nil {
						return err
					}
				}
			}
			if err := net.deliver(fm); err != nil {
				return err
			}
		}
		responded := false
		for _, out := range net.pending {
			if out.kind == c19MsgPayload && out.from == dst.idx {
				if _, oi, err := net.decodeExt(out.raw); err == nil && (oi.typ == prepareResponseType || oi.typ == commitType) {
					responded = true
				}
			}
		}
		if c.Corrupt == "alteredwitness" {
			if alteredHash == (util.Uint256{}) {
				o.Labelf("alteredwitness degraded: proposal of %d transactions, primary node %d", len(req.transactionHashes), c19FirstPrimary(w, c.N))
				corrupt = "none" // fewer than two transactions were fetched: plain control
			} else if held, ok := dst.srv.dbft.Transactions[alteredHash].(*transaction.Transaction); ok && responded &&
				len(held.Scripts) > 0 && slices.Equal(held.Scripts[0].InvocationScript, alteredInv) {
				o.Label("corrupt=alteredwitness")
				return net.fail("backup %d answered the proposal with a PrepareResponse although the copy of transaction %s it holds for the block carries an altered witness (a peer sent it before the genuine copy arrived): the block it is going to sign is refused by every ledger, its own included",
					dst.idx, alteredHash.StringLE())
			} else {
				o.Label("corrupt=alteredwitness")
				o.NonTrivial()
				if !responded {
					o.Label("alteredwitness: proposal not answered")
				}
				return nil
			}
		}
		o.Label("corrupt=" + corrupt)
		if corrupt == "none" {
			if !responded {
				return net.fail("control: backup %d did not answer the unaltered (re-signed) proposal of the legitimate primary (limits %+v)", dst.idx, c.Lim)
			}
			return nil
		}
		if responded {
			return net.fail("backup %d answered a proposal of the legitimate primary whose %s is wrong with a PrepareResponse (it accepted it; limits %+v)", dst.idx, corrupt, c.Lim)
		}
		return nil
	}()
	o.Units(1)
	if errors.Is(err, errC19Infra) {
		o.Label("infra-timeout")
		return nil
	}
	o.Labelf("n=%d", c.N)
	for l := range net.labels {
		if strings.HasPrefix(l, "full: ") || l == "proposal-exactly-full" {
			o.Label(l)
		}
	}
	if corrupt != "none" || net.labels["proposal-exactly-full"] {
		o.NonTrivial()
	}
	return err
}

// c19FirstPrimary is the node (index into the wallets = committee keys) whose key is the primary of the first height
// of a run at view 0: validators are ordered by public key, the primary is number (height mod N).
func c19FirstPrimary(w *c19World, n int) int {
	pubs := make(keys.PublicKeys, n)
	for j := 0; j < n; j++ {
		pubs[j] = ck.CommitteeKeys[j].Pub
	}
	sorted := slices.Clone(pubs)
	slices.SortFunc(sorted, (*keys.PublicKey).Cmp)
	p := sorted[int(w.baseH+1)%n]
	for j := range pubs {
		if pubs[j].Equal(p) {
			return j
		}
	}
	return -1
}
