//go:build verif

package consensus

// C19 harness, part 4: liveness under synchrony, as bounded-event progress under a fair driver.
//
// Synchronous phase: every validator is audible, every pending message is delivered before any timer fires,
// the timer that fires when the network is idle is the one with the earliest virtual deadline (discrete-event
// simulation of a network with zero latency), lagging nodes are served blocks by relay when the network is idle.
// Claim: K more blocks on every node within a bounded number of events, and they carry every plain transaction
// that all mempools held early enough.
//
// "liveness" starts the synchronous phase from a fresh network and is the claim. "recovery" starts it from the
// state reached by an adversarial prefix (loss, reordering, silence): there only the safety oracle (and the
// recovery-transfer clause) decide, because dBFT 2.0 has documented liveness locks after asynchrony.

import (
	"errors"
	"fmt"

	"github.com/nspcc-dev/neo-go/pkg/util"
	"pgregory.net/rapid"
	"verifharness/vt"
)

const c19LiveK = 4

// C19Inj is a transaction that reaches the nodes in Mask once After blocks of the synchronous phase exist everywhere.
type C19Inj struct {
	After int `json:"after"`
	Tx    int `json:"tx"`
	Mask  int `json:"mask"`
}

// C19Live is a liveness case.
type C19Live struct {
	N         int       `json:"n"`
	Shift     *C19Shift `json:"shift,omitempty"` // the validator set changes inside the run (N = 6 nodes: the whole committee)
	SRIH      bool      `json:"srih,omitempty"`
	PoolFirst bool      `json:"pool_first,omitempty"`
	Order     int       `json:"order"` // 0: pending messages are delivered FIFO, 1: LIFO (both deliver everything before any timer)
	Lim       C19Lim    `json:"lim"`   // small block limits (zero value: defaults)
	Pools     [][]int   `json:"pools"`
	Skew      []int     `json:"skew_ms,omitempty"`
	Inj       []C19Inj  `json:"inj,omitempty"`
	Prefix    []C19Ev   `json:"prefix,omitempty"` // adversarial prefix (recovery check only)
	// a storyline as the adversarial prefix (recovery check only; constant validator set): phases of verif_c19_story_test.go
	Story    string         `json:"story,omitempty"`
	AutoZero bool           `json:"auto_zero,omitempty"` // during the storyline: a timer armed with zero delay fires at once
	Roles    map[string]int `json:"roles,omitempty"`
	Steps    []C19Ph        `json:"steps,omitempty"`
	// key of a listed known finding whose shape the generator would have drawn here and did not (counted as excluded)
	Skipped string `json:"skipped_known,omitempty"`
}

// C19KnownHiddenRecovery: key of the finding "the extensible pool hides the repeated recovery message".
const C19KnownHiddenRecovery = "extpool-hides-repeated-recovery-message"

func c19GenLiveBase(t *rapid.T) C19Live {
	c := C19Live{N: rapid.SampledFrom([]int{4, 4, 7}).Draw(t, "n")}
	if rapid.Bool().Draw(t, "shifted") {
		c.N, c.Shift = c19ShiftNodes, c19GenShift(t)
	}
	c.SRIH = rapid.Bool().Draw(t, "srih")
	c.PoolFirst = rapid.Bool().Draw(t, "poolfirst")
	c.Order = rapid.IntRange(0, 1).Draw(t, "order")
	switch rapid.IntRange(0, 9).Draw(t, "limmode") {
	case 0, 1, 2:
		c.Lim = c19GenLim(t)
		c.Pools = c19GenStuffedPools(t, c.N, c.Lim)
	case 3:
		c.Lim = c19GenLim(t)
		c.Pools = c19GenPools(t, c.N)
	default:
		c.Pools = c19GenPools(t, c.N)
	}
	if c.Shift != nil {
		c.Lim.SizeTxs = 0 // calibrated for a fixed number of block signatures
	}
	if rapid.Bool().Draw(t, "skewed") {
		c.Skew = rapid.SliceOfN(rapid.SampledFrom([]int{0, 0, 1, 500, 3000}), c.N, c.N).Draw(t, "skew")
	}
	all := 1<<c.N - 1
	c.Inj = rapid.SliceOfN(rapid.Custom(func(t *rapid.T) C19Inj {
		m := all
		if rapid.Bool().Draw(t, "partial") {
			m = rapid.IntRange(1, all).Draw(t, "mask")
		}
		return C19Inj{After: rapid.IntRange(0, c19LiveK-1).Draw(t, "after"), Tx: rapid.IntRange(0, c19NTx-1).Draw(t, "tx"), Mask: m}
	}), 0, 6).Draw(t, "inj")
	return c
}

func c19GenLive(t *rapid.T) C19Live { return c19GenLiveBase(t) }

func c19GenRecovery(t *rapid.T) C19Live {
	c := c19GenLiveBase(t)
	// While the finding is listed as known its shape is not drawn (the probe TestKnownFindings re-confirms it from
	// its recorded case); a random prefix that reaches it all the same is counted as excluded by the check.
	storied := c.N == 4 && c.Shift == nil && rapid.IntRange(0, 3).Draw(t, "storied") == 0
	if storied && vt.Known(C19KnownHiddenRecovery) {
		storied, c.Skipped = false, C19KnownHiddenRecovery
	}
	if storied {
		st := C19Story{N: 4, Kind: "hidden-recovery", AutoZero: rapid.Bool().Draw(t, "autozero")}
		c19GenStoryHiddenRecovery(t, &st)
		c.Story, c.AutoZero, c.Roles, c.Steps = st.Kind, st.AutoZero, st.Roles, st.Steps
		c.Lim = C19Lim{}
		c.Pools = c19GenStoryPools(t, c.N)
		return c
	}
	np := rapid.IntRange(10, 150).Draw(t, "nprefix")
	c.Prefix = rapid.SliceOfN(rapid.Custom(c19GenEv(c.N)), np, np).Draw(t, "prefix")
	return c
}

type c19LiveResult struct {
	net       *c19Net
	shortfall string // non-empty: the liveness claim failed in this run
	resumed   bool   // after a shortfall that follows a prefix: blocks appeared once duplicates passed the pools
	events    int
	prefixEv  int
	k         int
}

func (net *c19Net) inAllPools(h util.Uint256) bool {
	for _, n := range net.nodes {
		if !n.bc.GetMemPool().ContainsKey(h) {
			return false
		}
	}
	return true
}

// earliest returns the armed timer with the earliest deadline (ties: lowest node index).
func (net *c19Net) earliest() *c19Node {
	var best *c19Node
	var bd int64
	for _, n := range net.nodes {
		n.tm.mu.Lock()
		armed, d := n.tm.armed, int64(n.tm.deadline)
		n.tm.mu.Unlock()
		if armed && (best == nil || d < bd) {
			best, bd = n, d
		}
	}
	return best
}

// c19RunLive executes one liveness run. err is a safety violation / harness trouble; res.shortfall a liveness shortfall.
func c19RunLive(c C19Live) (res c19LiveResult, err error) {
	w, err := c19GetWorld(c.N, c.SRIH, c.Shift)
	if err != nil {
		return res, fmt.Errorf("HARNESS: world: %w", err)
	}
	net, err := c19NewNet(w, c.Pools, c.Skew, false, c.PoolFirst, c.Lim)
	res.net = net
	defer net.close()
	if err != nil {
		return res, c19NetErr(net, err)
	}
	if err := net.start(); err != nil {
		return res, err
	}
	for i, ev := range c.Prefix {
		if net.deliveries >= c19MaxDeliveries {
			break
		}
		if h, _ := net.maxHeight(); h >= w.baseH+c19MaxHeights {
			break
		}
		net.logf("#%d %s a=%d b=%d (pending %d)", i, ev.K, ev.A, ev.B, len(net.pending))
		if err := net.exec(ev); err != nil {
			return res, err
		}
		res.prefixEv++
	}
	if len(c.Steps) > 0 {
		if c.Shift != nil {
			return res, fmt.Errorf("bad case: storyline in a world whose validators change")
		}
		net.autoZero = c.AutoZero
		if net.autoZero {
			if err := net.autoFire(); err != nil {
				return res, err
			}
		}
		s, err := c19NewStoryRun(net, w, c.N)
		if err != nil {
			return res, err
		}
		n, all, err := s.runSteps(c.Steps)
		res.prefixEv += n
		if err != nil {
			return res, err
		}
		if all {
			net.label("story=" + c.Story + ": every phase reached")
		}
		net.autoZero = false
	}
	async := len(c.Prefix) > 0 || len(c.Steps) > 0
	for _, n := range net.nodes {
		if n.silent {
			n.silent = false
			net.logf("un-silence n%d", n.idx)
		}
	}
	// With small block limits the pending transactions no longer fit into one block: every block carries either
	// `capa` transactions of the universe U (at most |U|/capa such blocks) or everything its primary holds, which
	// includes every transaction that is in all mempools. So ceil(|U|/capa) more blocks are granted.
	K := c19LiveK
	if capa := c.Lim.Cap(); capa > 0 {
		u := map[int]bool{}
		for _, p := range c.Pools {
			for _, k := range p {
				u[c19Mod(k, c19NTx)] = true
			}
		}
		for _, in := range c.Inj {
			u[c19Mod(in.Tx, c19NTx)] = true
		}
		K += (len(u) + capa - 1) / capa
	}
	res.k = K
	start, _ := net.maxHeight()
	target := start + uint32(K)
	if w.refresh != 0 && !async && target < w.refresh+2 {
		return res, fmt.Errorf("HARNESS: the synchronous phase (heights %d..%d) does not cross the validator change at %d", start+1, target, w.refresh)
	}
	net.logf("=== synchronous phase: from height %d to %d, %d pending ===", start, target, len(net.pending))
	N := c.N
	bound := 10*(K*((2*N+2)*(N-1))+K) + 3*len(net.pending)
	must := map[util.Uint256]int{}
	note := func() {
		for k := 0; k < c19NTx; k++ {
			if !c19IsPlain(k) {
				continue
			}
			if net.inAllPools(w.txHash[k]) {
				must[w.txHash[k]] = k
			}
		}
	}
	note()
	applied := make([]bool, len(c.Inj))
	for {
		if net.minHeight() >= target {
			break
		}
		if res.events >= bound {
			res.shortfall = fmt.Sprintf("only %d of %d blocks on every node after %d events of the synchronous phase (bound %d, limits %+v): heights %v", int(net.minHeight())-int(start), K, res.events, bound, c.Lim, net.heights())
			break
		}
		res.events++
		if len(net.pending) > 0 {
			i := 0
			if c.Order == 1 {
				i = len(net.pending) - 1
			}
			if err := net.deliver(net.take(i)); err != nil {
				return res, err
			}
			continue
		}
		// ---- the network is idle ----
		done := int(net.minHeight()) - int(start)
		injected := false
		for i, in := range c.Inj {
			if applied[i] || in.After > done {
				continue
			}
			applied[i] = true
			injected = true
			k := c19Mod(in.Tx, c19NTx)
			for _, n := range net.nodes {
				if in.Mask&(1<<n.idx) != 0 {
					net.tick()
					net.logf("tx %d arrives at n%d", k, n.idx)
					if err := net.acceptTx(n, w.txs[k]); err != nil {
						return res, err
					}
				}
			}
			if in.After <= c19LiveK-2 {
				note()
			}
		}
		if injected {
			continue
		}
		if mh, best := net.maxHeight(); net.minHeight() < mh {
			for _, n := range net.nodes {
				if n.bc.BlockHeight() < mh {
					if _, err := net.relay(best, n); err != nil {
						return res, err
					}
					break
				}
			}
			continue
		}
		n := net.earliest()
		if n == nil {
			res.shortfall = fmt.Sprintf("deadlock after %d events: nothing pending, no timer armed, heights %v", res.events, net.heights())
			break
		}
		if _, err := net.fire(n); err != nil {
			return res, err
		}
	}
	if res.shortfall != "" && async {
		// Why does it stall? The same network goes on under synchrony, but from now on a payload the receiver's
		// extensible pool already holds is handed to its consensus service again (the only difference: the pools'
		// de-duplication is bypassed). If blocks appear now, the stall was made by the pools hiding the repeated
		// (byte-identical) recovery messages of committed nodes from a consensus that could not use them the first
		// time; if not, it is the view lock of dBFT 2.0 itself.
		h0 := net.minHeight()
		net.logf("=== stalled at %v; synchrony continues with the pools' de-duplication bypassed ===", net.heights())
		net.bypassDedup = true
		for ev := 0; ev < bound && net.minHeight() < h0+2 && net.deliveries < 3*c19MaxDeliveries; ev++ {
			if len(net.pending) > 0 {
				if err := net.deliver(net.take(0)); err != nil {
					return res, err
				}
				continue
			}
			if mh, best := net.maxHeight(); net.minHeight() < mh {
				for _, n := range net.nodes {
					if n.bc.BlockHeight() < mh {
						if _, err := net.relay(best, n); err != nil {
							return res, err
						}
						break
					}
				}
				continue
			}
			n := net.earliest()
			if n == nil {
				break
			}
			if _, err := net.fire(n); err != nil {
				return res, err
			}
		}
		res.resumed = net.minHeight() > h0
		net.logf("=== heights %v, resumed: %v ===", net.heights(), res.resumed)
	}
	if res.shortfall == "" {
		have := map[util.Uint256]bool{}
		bc := net.nodes[0].bc
		for h := start + 1; h <= target; h++ {
			b, err := bc.GetBlock(bc.GetHeaderHash(h))
			if err != nil {
				return res, net.fail("node 0 cannot read its block %d: %v", h, err)
			}
			for _, tx := range b.Transactions {
				have[tx.Hash()] = true
			}
		}
		for h, k := range must {
			if !have[h] {
				res.shortfall = fmt.Sprintf("transaction %d (%s) was in every mempool before block %d of %d but is in none of the %d blocks produced (limits %+v)", k, h.StringLE(), c19LiveK-1, K, K, c.Lim)
				break
			}
		}
	}
	if err := net.finalSync(); err != nil {
		return res, err
	}
	return res, nil
}

func (net *c19Net) heights() []uint32 {
	var hs []uint32
	for _, n := range net.nodes {
		hs = append(hs, n.bc.BlockHeight())
	}
	return hs
}

func c19CheckLive(c C19Live, o *vt.Obs) error {
	if err := c19CheckN(c.N, c.Shift); err != nil {
		return err
	}
	if c.Story != "" {
		o.Label("story=" + c.Story)
	}
	if c.Skipped != "" {
		o.Excluded()
		o.Label("shape of known finding not drawn: " + c.Skipped)
	}
	res, err := c19RunLive(c)
	o.Units(res.events + res.prefixEv)
	if errors.Is(err, errC19Infra) {
		o.Label("infra-timeout")
		return nil
	}
	if res.net != nil {
		w, _ := c19GetWorld(c.N, c.SRIH, c.Shift)
		c19Classify(res.net, o, w)
		if len(c.Prefix) > 0 {
			h, _ := res.net.maxHeight()
			_ = h
		}
	}
	if err != nil {
		c19Record(c, res.net, "FAIL")
		return err // safety violations are reported from liveness runs too
	}
	if res.shortfall == "" {
		c19Record(c, res.net, "ok")
		return nil
	}
	if res.resumed {
		// Not the view lock of the library: with the same messages handed to it (again) the consensus goes on. The
		// messages were delivered, the node's own network layer (extpool.Pool.Add / Server.handleExtensibleCmd)
		// kept them from its consensus because it had seen the same bytes before.
		if vt.Known(C19KnownHiddenRecovery) {
			o.Excluded()
			o.Label("known: " + C19KnownHiddenRecovery)
			c19Record(c, res.net, "known")
			return nil
		}
		c19Record(c, res.net, "SHORTFALL")
		res.net.logf("LIVENESS %s", res.shortfall)
		return fmt.Errorf("liveness under synchrony after an asynchronous period: all validators honest, every message delivered, timers firing, but %s; as soon as a payload that the receiver's extensible pool already holds is handed to its consensus service again, blocks are produced (heights %v): the pools hide the byte-identical recovery message a committed node repeats on every timeout from a consensus that could not use its preparations when it came first%s", res.shortfall, res.net.heights(), res.net.history(120))
	}
	if len(c.Prefix) > 0 || len(c.Steps) > 0 {
		// dBFT 2.0 is not live after a period of asynchrony: a node may request a view change, then still
		// prepare and commit in the old view while its request moves others to the next view; committed nodes
		// never change view, and neither view can reach M any more (see dbft's formal-models/README.md,
		// "liveness locks"). The property claims liveness under synchrony only, so a shortfall after an
		// adversarial prefix is counted, not reported; the run still served the safety oracle.
		o.Label("lock-after-asynchrony: persists when duplicates pass the pools (dBFT view lock, not claimed)")
		c19Record(c, res.net, "lock")
		return nil
	}
	// A liveness shortfall counts only if it reproduces on 2 of 2 immediate re-runs of the same case.
	first := res
	for i := 0; i < 2; i++ {
		r2, err2 := c19RunLive(c)
		if err2 != nil || r2.shortfall == "" {
			o.Label("liveness-inconclusive")
			c19Record(c, first.net, "inconclusive")
			return nil
		}
	}
	c19Record(c, first.net, "SHORTFALL")
	first.net.logf("LIVENESS %s", first.shortfall)
	return fmt.Errorf("liveness under synchrony: %s (reproduced on 2 of 2 re-runs)%s", first.shortfall, first.net.history(90))
}
