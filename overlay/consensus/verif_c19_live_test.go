//go:build verif

package consensus

// C19 harness, part 4: liveness under synchrony, as bounded-event progress under a fair driver.
//
// Synchronous phase: every validator is audible, every pending message is delivered before any timer fires,
// the timer that fires when the network is idle is the one with the earliest virtual deadline (discrete-event
// simulation of a network with zero latency), lagging nodes are served blocks by relay when the network is idle.
// Claim: K more blocks on every node within a bounded number of events, and they carry every plain transaction
// that all mempools held early enough.
//
// "liveness" starts the synchronous phase from a fresh network and is the claim. "recovery" starts it from the
// state reached by an adversarial prefix (loss, reordering, silence): there only the safety oracle (and the
// recovery-transfer clause) decide, because dBFT 2.0 has documented liveness locks after asynchrony.

import (
	"errors"
	"fmt"

	"github.com/nspcc-dev/neo-go/pkg/util"
	"pgregory.net/rapid"
	"verifharness/vt"
)

const c19LiveK = 4

// C19Inj is a transaction that reaches the nodes in Mask once After blocks of the synchronous phase exist everywhere.
type C19Inj struct {
	After int `json:"after"`
	Tx    int `json:"tx"`
	Mask  int `json:"mask"`
}

// C19Live is a liveness case.
type C19Live struct {
	N         int      `json:"n"`
	SRIH      bool     `json:"srih,omitempty"`
	PoolFirst bool     `json:"pool_first,omitempty"`
	Order     int      `json:"order"` // 0: pending messages are delivered FIFO, 1: LIFO (both deliver everything before any timer)
	Lim       C19Lim   `json:"lim"`   // small block limits (zero value: defaults)
	Pools     [][]int  `json:"pools"`
	Skew      []int    `json:"skew_ms,omitempty"`
	Inj       []C19Inj `json:"inj,omitempty"`
	Prefix    []C19Ev  `json:"prefix,omitempty"` // adversarial prefix (recovery check only)
}

func c19GenLiveBase(t *rapid.T) C19Live {
	c := C19Live{N: rapid.SampledFrom([]int{4, 4, 7}).Draw(t, "n")}
	c.SRIH = rapid.Bool().Draw(t, "srih")
	c.PoolFirst = rapid.Bool().Draw(t, "poolfirst")
	c.Order = rapid.IntRange(0, 1).Draw(t, "order")
	switch rapid.IntRange(0, 9).Draw(t, "limmode") {
	case 0, 1, 2:
		c.Lim = c19GenLim(t)
		c.Pools = c19GenStuffedPools(t, c.N, c.Lim)
	case 3:
		c.Lim = c19GenLim(t)
		c.Pools = c19GenPools(t, c.N)
	default:
		c.Pools = c19GenPools(t, c.N)
	}
	if rapid.Bool().Draw(t, "skewed") {
		c.Skew = rapid.SliceOfN(rapid.SampledFrom([]int{0, 0, 1, 500, 3000}), c.N, c.N).Draw(t, "skew")
	}
	all := 1<<c.N - 1
	c.Inj = rapid.SliceOfN(rapid.Custom(func(t *rapid.T) C19Inj {
		m := all
		if rapid.Bool().Draw(t, "partial") {
			m = rapid.IntRange(1, all).Draw(t, "mask")
		}
		return C19Inj{After: rapid.IntRange(0, c19LiveK-1).Draw(t, "after"), Tx: rapid.IntRange(0, c19NTx-1).Draw(t, "tx"), Mask: m}
	}), 0, 6).Draw(t, "inj")
	return c
}

func c19GenLive(t *rapid.T) C19Live { return c19GenLiveBase(t) }

func c19GenRecovery(t *rapid.T) C19Live {
	c := c19GenLiveBase(t)
	np := rapid.IntRange(10, 150).Draw(t, "nprefix")
	c.Prefix = rapid.SliceOfN(rapid.Custom(c19GenEv(c.N)), np, np).Draw(t, "prefix")
	return c
}

type c19LiveResult struct {
	net       *c19Net
	shortfall string // non-empty: the liveness claim failed in this run
	events    int
	prefixEv  int
	k         int
}

func (net *c19Net) inAllPools(h util.Uint256) bool {
	for _, n := range net.nodes {
		if !n.bc.GetMemPool().ContainsKey(h) {
			return false
		}
	}
	return true
}

// earliest returns the armed timer with the earliest deadline (ties: lowest node index).
func (net *c19Net) earliest() *c19Node {
	var best *c19Node
	var bd int64
	for _, n := range net.nodes {
		n.tm.mu.Lock()
		armed, d := n.tm.armed, int64(n.tm.deadline)
		n.tm.mu.Unlock()
		if armed && (best == nil || d < bd) {
			best, bd = n, d
		}
	}
	return best
}

// c19RunLive executes one liveness run. err is a safety violation / harness trouble; res.shortfall a liveness shortfall.
func c19RunLive(c C19Live) (res c19LiveResult, err error) {
	w, err := c19GetWorld(c.N, c.SRIH)
	if err != nil {
		return res, fmt.Errorf("HARNESS: world: %w", err)
	}
	net, err := c19NewNet(w, c.Pools, c.Skew, false, c.PoolFirst, c.Lim)
	res.net = net
	defer net.close()
	if err != nil {
		return res, fmt.Errorf("HARNESS: network: %w", err)
	}
	if err := net.start(); err != nil {
		return res, err
	}
	for i, ev := range c.Prefix {
		if net.deliveries >= c19MaxDeliveries {
			break
		}
		if h, _ := net.maxHeight(); h >= w.baseH+c19MaxHeights {
			break
		}
		net.logf("#%d %s a=%d b=%d (pending %d)", i, ev.K, ev.A, ev.B, len(net.pending))
		if err := net.exec(ev); err != nil {
			return res, err
		}
		res.prefixEv++
	}
	for _, n := range net.nodes {
		if n.silent {
			n.silent = false
			net.logf("un-silence n%d", n.idx)
		}
	}
	// With small block limits the pending transactions no longer fit into one block: every block carries either
	// `capa` transactions of the universe U (at most |U|/capa such blocks) or everything its primary holds, which
	// includes every transaction that is in all mempools. So ceil(|U|/capa) more blocks are granted.
	K := c19LiveK
	if capa := c.Lim.Cap(); capa > 0 {
		u := map[int]bool{}
		for _, p := range c.Pools {
			for _, k := range p {
				u[c19Mod(k, c19NTx)] = true
			}
		}
		for _, in := range c.Inj {
			u[c19Mod(in.Tx, c19NTx)] = true
		}
		K += (len(u) + capa - 1) / capa
	}
	res.k = K
	start, _ := net.maxHeight()
	target := start + uint32(K)
	net.logf("=== synchronous phase: from height %d to %d, %d pending ===", start, target, len(net.pending))
	N := c.N
	bound := 10*(K*((2*N+2)*(N-1))+K) + 3*len(net.pending)
	must := map[util.Uint256]int{}
	note := func() {
		for k := 0; k < c19NTx; k++ {
			if !c19IsPlain(k) {
				continue
			}
			if net.inAllPools(w.txHash[k]) {
				must[w.txHash[k]] = k
			}
		}
	}
	note()
	applied := make([]bool, len(c.Inj))
	for {
		if net.minHeight() >= target {
			break
		}
		if res.events >= bound {
			res.shortfall = fmt.Sprintf("only %d of %d blocks on every node after %d events of the synchronous phase (bound %d, limits %+v): heights %v", int(net.minHeight())-int(start), K, res.events, bound, c.Lim, net.heights())
			break
		}
		res.events++
		if len(net.pending) > 0 {
			i := 0
			if c.Order == 1 {
				i = len(net.pending) - 1
			}
			if err := net.deliver(net.take(i)); err != nil {
				return res, err
			}
			continue
		}
		// ---- the network is idle ----
		done := int(net.minHeight()) - int(start)
		injected := false
		for i, in := range c.Inj {
			if applied[i] || in.After > done {
				continue
			}
			applied[i] = true
			injected = true
			k := c19Mod(in.Tx, c19NTx)
			for _, n := range net.nodes {
				if in.Mask&(1<<n.idx) != 0 {
					net.tick()
					net.logf("tx %d arrives at n%d", k, n.idx)
					if err := net.acceptTx(n, w.txs[k]); err != nil {
						return res, err
					}
				}
			}
			if in.After <= c19LiveK-2 {
				note()
			}
		}
		if injected {
			continue
		}
		if mh, best := net.maxHeight(); net.minHeight() < mh {
			for _, n := range net.nodes {
				if n.bc.BlockHeight() < mh {
					if _, err := net.relay(best, n); err != nil {
						return res, err
					}
					break
				}
			}
			continue
		}
		n := net.earliest()
		if n == nil {
			res.shortfall = fmt.Sprintf("deadlock after %d events: nothing pending, no timer armed, heights %v", res.events, net.heights())
			break
		}
		if _, err := net.fire(n); err != nil {
			return res, err
		}
	}
	if res.shortfall == "" {
		have := map[util.Uint256]bool{}
		bc := net.nodes[0].bc
		for h := start + 1; h <= target; h++ {
			b, err := bc.GetBlock(bc.GetHeaderHash(h))
			if err != nil {
				return res, net.fail("node 0 cannot read its block %d: %v", h, err)
			}
			for _, tx := range b.Transactions {
				have[tx.Hash()] = true
			}
		}
		for h, k := range must {
			if !have[h] {
				res.shortfall = fmt.Sprintf("transaction %d (%s) was in every mempool before block %d of %d but is in none of the %d blocks produced (limits %+v)", k, h.StringLE(), c19LiveK-1, K, K, c.Lim)
				break
			}
		}
	}
	if err := net.finalSync(); err != nil {
		return res, err
	}
	return res, nil
}

func (net *c19Net) heights() []uint32 {
	var hs []uint32
	for _, n := range net.nodes {
		hs = append(hs, n.bc.BlockHeight())
	}
	return hs
}

func c19CheckLive(c C19Live, o *vt.Obs) error {
	if c.N != 4 && c.N != 7 {
		return fmt.Errorf("bad case: n=%d", c.N)
	}
	res, err := c19RunLive(c)
	o.Units(res.events + res.prefixEv)
	if errors.Is(err, errC19Infra) {
		o.Label("infra-timeout")
		return nil
	}
	if res.net != nil {
		w, _ := c19GetWorld(c.N, c.SRIH)
		c19Classify(res.net, o, w)
		if len(c.Prefix) > 0 {
			h, _ := res.net.maxHeight()
			_ = h
		}
	}
	if err != nil {
		c19Record(c, res.net, "FAIL")
		return err // safety violations are reported from liveness runs too
	}
	if res.shortfall == "" {
		c19Record(c, res.net, "ok")
		return nil
	}
	if len(c.Prefix) > 0 {
		// dBFT 2.0 is not live after a period of asynchrony: a node may request a view change, then still
		// prepare and commit in the old view while its request moves others to the next view; committed nodes
		// never change view, and neither view can reach M any more (see dbft's formal-models/README.md,
		// "liveness locks"). The property claims liveness under synchrony only, so a shortfall after an
		// adversarial prefix is counted, not reported; the run still served the safety oracle.
		o.Label("lock-after-asynchrony (not claimed)")
		c19Record(c, res.net, "lock")
		return nil
	}
	// A liveness shortfall counts only if it reproduces on 2 of 2 immediate re-runs of the same case.
	first := res
	for i := 0; i < 2; i++ {
		r2, err2 := c19RunLive(c)
		if err2 != nil || r2.shortfall == "" {
			o.Label("liveness-inconclusive")
			c19Record(c, first.net, "inconclusive")
			return nil
		}
	}
	c19Record(c, first.net, "SHORTFALL")
	first.net.logf("LIVENESS %s", first.shortfall)
	return fmt.Errorf("liveness under synchrony: %s (reproduced on 2 of 2 re-runs)%s", first.shortfall, first.net.history(90))
}
