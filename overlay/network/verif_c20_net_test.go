//go:build verif

package network

// Property C20, part "net" (white-box, compiled into package network through `go test -overlay`, see /verif/run):
// the REAL Server of a source node and the REAL Server of a syncing node talk to each other through harness-owned
// in-memory peers. Every message a server wants to send is recorded (encoded, as on the wire) and delivered by the
// harness in a generated order with duplication, loss (re-requested later), batching, peer disconnects, restarts of the
// syncing node and, optionally, a second lying peer that sends forged headers / blocks / MPT nodes.
//
// The syncing node's Server is really Start()ed and Shutdown() (fake transport and discovery from the package's own
// test helpers, ping / protocol timers set to an hour): its run loop registers and unregisters the in-memory peers and
// initialises state sync after a handshake, and every queue goroutine is started by the server itself. The harness
// plays the peer goroutines only: TCPPeer.StartProtocol (requestBlocksOrHeaders after the handshake and on protocol
// ticks) and TCPPeer.handleIncoming (handleMessage for every delivered message, a handler error drops the peer).
// The source node's Server is used through handleMessage only. So server.go decides what is requested, served, queued
// and accepted; the chains and the state sync modules are real. Messages the run loop emits on its own schedule
// (getaddr, relayed block invs) are discarded.
//
// Liveness is judged by events: once the generated schedule is over, clean rounds (ping, every request delivered,
// every answer delivered, queues drained) must make progress; three clean rounds without any progress while the node
// is behind are a violation. Waiting for the queue goroutine is bounded by a wall-clock guard that only delays.

import (
	"bytes"
	"context"
	"errors"
	"fmt"
	"net"
	"os"
	"runtime"
	"sort"
	"strings"
	"sync"
	"testing"
	"time"

	"github.com/nspcc-dev/neo-go/pkg/config"
	"github.com/nspcc-dev/neo-go/pkg/core"
	"github.com/nspcc-dev/neo-go/pkg/core/block"
	"github.com/nspcc-dev/neo-go/pkg/core/mpt"
	"github.com/nspcc-dev/neo-go/pkg/core/storage"
	"github.com/nspcc-dev/neo-go/pkg/io"
	"github.com/nspcc-dev/neo-go/pkg/network/capability"
	"github.com/nspcc-dev/neo-go/pkg/network/payload"
	"github.com/nspcc-dev/neo-go/pkg/util"
	"go.uber.org/zap"
	"go.uber.org/zap/zapcore"
	"pgregory.net/rapid"
	ck "verifharness/chainkit"
	"verifharness/vt"
)

func init() {
	vt.PropertyID = "C20"
	vt.Register("net", 1.0, c20GenCase, c20CheckCase)
}

func TestProp(t *testing.T) {
	vt.RunAll(t, 40)
	if os.Getenv("C20_NET_TIMING") != "" {
		fmt.Println("TIMING", c20T)
	}
}
func TestReplay(t *testing.T) { vt.ReplayAll(t) }

// ---- case ---------------------------------------------------------------------------------------------------------

// c20Event is one step of the schedule.
type c20Event struct {
	K    string `json:"k"`           // tick | ping | sping | req | resp | drop | dup | inv | grow | disc | restart | liar | flush
	I    int    `json:"i,omitempty"` // index into the pending list (modulo its length); tick: 0 honest peer, 1 liar
	N    int    `json:"n,omitempty"` // how many consecutive messages (req/resp: batching), blocks (grow)
	Seed uint64 `json:"seed,omitempty"`
}

// c20Probe is one request sent to the source server by an arbitrary peer; the answer is compared with the chain.
type c20Probe struct {
	K     string `json:"k"` // byindex | headers | getblocks | getdata | mpt
	Start int    `json:"start"`
	Count int    `json:"count"`
	Sel   []int  `json:"sel,omitempty"` // getdata / mpt: selectors of known items; negative: an unknown hash
}

type c20Case struct {
	Chain     ck.ChainCfg    `json:"chain"`
	Blocks    []ck.BlockSpec `json:"blocks"`
	Filler    int            `json:"filler"`     // empty blocks built right after the bootstrap (long chains: count limits)
	StateSync bool           `json:"state_sync"` // syncing node bootstraps by P2P state exchange
	Node      ck.NodeCfg     `json:"node"`
	Init      int            `json:"init"` // generated blocks the source already has when the syncing node connects
	Events    []c20Event     `json:"events"`
	Probes    []c20Probe     `json:"probes"`
	Liar      bool           `json:"liar"`
}

// c20Pct: 0..99, drawn with SampledFrom (IntRange is biased towards small values).
var c20Pct = func() []int {
	p := make([]int, 100)
	for i := range p {
		p[i] = i
	}
	return p
}()

func c20GenEvent(t *rapid.T) c20Event {
	e := c20Event{Seed: rapid.Uint64().Draw(t, "seed"), I: rapid.IntRange(0, 40).Draw(t, "i")}
	switch k := rapid.SampledFrom(c20Pct).Draw(t, "kind"); {
	case k < 12:
		e.K = "tick"
		e.I = rapid.SampledFrom([]int{0, 0, 0, 1}).Draw(t, "whom")
	case k < 18:
		e.K = "ping"
	case k < 22:
		e.K = "sping"
	case k < 42:
		e.K, e.N = "req", rapid.IntRange(1, 4).Draw(t, "n")
	case k < 70:
		e.K, e.N = "resp", rapid.SampledFrom([]int{1, 1, 2, 3, 8, 40, 600}).Draw(t, "n")
	case k < 75:
		e.K, e.N = "drop", rapid.SampledFrom([]int{1, 1, 2, 5, 50}).Draw(t, "n")
	case k < 80:
		e.K = "dup"
	case k < 83:
		e.K = "inv"
	case k < 89:
		e.K, e.N = "grow", rapid.IntRange(1, 4).Draw(t, "n")
	case k < 91:
		e.K = "disc"
	case k < 93:
		e.K = "restart"
	case k < 98:
		e.K = "liar"
	default:
		e.K = "flush"
	}
	return e
}

func c20GenProbe(t *rapid.T) c20Probe {
	p := c20Probe{K: rapid.SampledFrom([]string{"byindex", "byindex", "headers", "headers", "getblocks", "getdata", "mpt", "mpt"}).Draw(t, "pk")}
	p.Start = rapid.SampledFrom([]int{0, 1, 2, 3, 5, 8, 13, 20, 30, 45, 400, 499, 500, 501, 1500, 1999, 2000, 2001, 3000}).Draw(t, "start")
	p.Count = rapid.SampledFrom([]int{-1, -1, 1, 2, 3, 5, 10, 30, 499, 500, 501, 1999, 2000}).Draw(t, "count")
	if p.K == "getdata" || p.K == "mpt" {
		p.Sel = rapid.SliceOfN(rapid.IntRange(-2, 60), 1, 8).Draw(t, "sel")
	}
	return p
}

func c20GenCase(t *rapid.T) c20Case {
	c := c20Case{Chain: ck.GenChainCfg(t, false)}
	c.StateSync = rapid.IntRange(0, 9).Draw(t, "variant") < 6
	c.Node = ck.NodeCfg{Backend: rapid.SampledFrom([]string{"mem", "mem", "mem", "bolt"}).Draw(t, "backend")}
	if c.StateSync {
		c.Chain.SRIH, c.Chain.StateExchange = true, true
		c.Chain.StateSyncInterval = rapid.IntRange(4, 8).Draw(t, "interval")
		c.Chain.MTB = uint32(rapid.IntRange(4, 8).Draw(t, "mtb"))
		c.Node.RemoveUntraceable = true
		c.Node.KeepOnlyLatest = rapid.Bool().Draw(t, "latest")
		c.Node.GCPeriod = uint32(rapid.IntRange(1, 4).Draw(t, "gcp"))
	} else {
		if rapid.Bool().Draw(t, "serve_mpt") {
			c.Chain.SRIH, c.Chain.StateExchange = true, true
			c.Chain.StateSyncInterval = rapid.IntRange(4, 8).Draw(t, "interval")
		}
		switch rapid.IntRange(0, 3).Draw(t, "nodemode") {
		case 1:
			// P2PStateExchangeExtensions wants an MPT-complete node or RemoveUntraceableBlocks
			c.Node.KeepOnlyLatest = !c.Chain.StateExchange
		case 2:
			if !c.Chain.StateExchange { // RemoveUntraceableBlocks + P2PStateExchangeExtensions is the state sync variant
				c.Chain.MTB = uint32(rapid.IntRange(8, 20).Draw(t, "mtb"))
				c.Node.RemoveUntraceable = true
				c.Node.GCPeriod = uint32(rapid.IntRange(1, 4).Draw(t, "gcp"))
			}
		}
	}
	// Long chains reach the count limits of getblockbyindex (500) and getheaders (2000).
	switch k := rapid.SampledFrom(c20Pct).Draw(t, "long"); {
	case k < 8:
		c.Filler = rapid.IntRange(498, 520).Draw(t, "filler")
		c.Chain.Profile, c.Chain.ValidatorsHistory = "V1C1", nil
	case k < 10:
		c.Filler = rapid.IntRange(1996, 2006).Draw(t, "filler")
		c.Chain.Profile, c.Chain.ValidatorsHistory = "V1C1", nil
	}
	bias := ck.BalancedBias(c.Chain.P2PSig)
	bias.Storage = 8
	nb := rapid.IntRange(8, 36).Draw(t, "nblocks")
	if c.StateSync {
		nb = rapid.IntRange(2*c.Chain.StateSyncInterval+2, 40).Draw(t, "nblocks_ss")
	}
	for i := 0; i < nb; i++ {
		c.Blocks = append(c.Blocks, ck.GenBlock(t, bias, 3))
	}
	c.Init = rapid.IntRange(0, nb).Draw(t, "init")
	if c.StateSync && rapid.IntRange(0, 3).Draw(t, "late") != 0 {
		c.Init = rapid.IntRange(2*c.Chain.StateSyncInterval, nb).Draw(t, "init_ss")
	}
	c.Events = rapid.SliceOfN(rapid.Custom(c20GenEvent), 20, 140).Draw(t, "events")
	c.Probes = rapid.SliceOfN(rapid.Custom(c20GenProbe), 2, 10).Draw(t, "probes")
	c.Liar = rapid.IntRange(0, 2).Draw(t, "liar") == 0
	return c
}

// ---- the in-memory peer ----------------------------------------------------------------------------------------

// c20Peer is the endpoint a Server sees for one remote node. Everything the server sends is kept, encoded, one
// message per element, in sending order.
type c20Peer struct {
	name  string
	addr  net.TCPAddr
	ver   *payload.Version
	srih  bool
	mu    sync.Mutex
	last  uint32
	out   [][]byte
	gone  error
	isOut bool
}

func c20NewPeer(name string, port int, height uint32, archival, srih bool) *c20Peer {
	caps := []capability.Capability{
		{Type: capability.TCPServer, Data: &capability.Server{Port: uint16(port)}},
		{Type: capability.FullNode, Data: &capability.Node{StartHeight: height}},
	}
	if archival {
		caps = append(caps, capability.Capability{Type: capability.ArchivalNode, Data: &capability.Archival{}})
	}
	return &c20Peer{
		name: name,
		addr: net.TCPAddr{IP: net.IPv4(10, 0, 0, byte(port%250+1)), Port: port},
		ver:  payload.NewVersion(ck.Magic, uint32(port), "/verif/", caps),
		srih: srih,
		last: height,
	}
}

func (p *c20Peer) split(b []byte) error {
	r := io.NewBinReaderFromBuf(b)
	for r.Len() > 0 {
		from := len(b) - r.Len()
		m := &Message{StateRootInHeader: p.srih}
		if err := m.Decode(r); err != nil {
			return fmt.Errorf("server sent an undecodable packet to %s: %w", p.name, err)
		}
		p.out = append(p.out, bytes.Clone(b[from:len(b)-r.Len()])) // the bytes as they go over the wire
	}
	return nil
}

func (p *c20Peer) packet(b []byte) error {
	p.mu.Lock()
	defer p.mu.Unlock()
	if p.gone != nil {
		return errors.New("peer is gone")
	}
	return p.split(b)
}

func (p *c20Peer) message(m *Message) error {
	b, err := m.Bytes()
	if err != nil {
		return err
	}
	return p.packet(b)
}

func (p *c20Peer) take() [][]byte {
	p.mu.Lock()
	defer p.mu.Unlock()
	o := p.out
	p.out = nil
	return o
}

func (p *c20Peer) ConnectionAddr() string                              { return p.addr.String() }
func (p *c20Peer) PeerAddr() net.Addr                                  { return &p.addr }
func (p *c20Peer) RemoteAddr() net.Addr                                { return &p.addr }
func (p *c20Peer) Version() *payload.Version                           { return p.ver }
func (p *c20Peer) BroadcastPacket(_ context.Context, b []byte) error   { return p.packet(b) }
func (p *c20Peer) BroadcastHPPacket(_ context.Context, b []byte) error { return p.packet(b) }
func (p *c20Peer) EnqueueP2PMessage(m *Message) error                  { return p.message(m) }
func (p *c20Peer) EnqueueP2PPacket(b []byte) error                     { return p.packet(b) }
func (p *c20Peer) EnqueueHPMessage(m *Message) error                   { return p.message(m) }
func (p *c20Peer) EnqueueHPPacket(b []byte) error                      { return p.packet(b) }
func (p *c20Peer) Handshaked() bool                                    { return true }
func (p *c20Peer) IsFullNode() bool                                    { return true }
func (p *c20Peer) SupportsCompression() bool                           { return true }
func (p *c20Peer) SetPingTimer()                                       {}
func (p *c20Peer) SendVersion() error                                  { return nil }
func (p *c20Peer) SendVersionAck(*Message) error                       { return nil }
func (p *c20Peer) StartProtocol()                                      {}
func (p *c20Peer) HandleVersion(*payload.Version) error                { return nil }
func (p *c20Peer) HandleVersionAck() error                             { return nil }
func (p *c20Peer) AddGetAddrSent()                                     {}
func (p *c20Peer) CanProcessAddr() bool                                { return false }
func (p *c20Peer) LastBlockIndex() uint32                              { p.mu.Lock(); defer p.mu.Unlock(); return p.last }
func (p *c20Peer) HandlePing(ping *payload.Ping) error {
	p.mu.Lock()
	p.last = ping.LastBlockIndex
	p.mu.Unlock()
	return nil
}
func (p *c20Peer) HandlePong(pong *payload.Ping) error {
	p.mu.Lock()
	p.last = pong.LastBlockIndex
	p.mu.Unlock()
	return nil
}
func (p *c20Peer) Disconnect(err error) {
	p.mu.Lock()
	if p.gone == nil {
		p.gone = err
	}
	p.mu.Unlock()
}

// ---- the world --------------------------------------------------------------------------------------------------

type c20World struct {
	c   c20Case
	o   *vt.Obs
	b   *ck.Builder // the source node is the builder's node
	src *Server
	// built: number of generated blocks already built on the source
	built int

	n                    *ck.Node // syncing node
	srv                  *Server
	runWG                sync.WaitGroup
	panics               chan string
	applied              []uint32 // block indices in the order the syncing chain reported them
	appMu                sync.Mutex
	subCh                chan *block.Block
	sessStart, sessPoint uint32 // height at the start of this run of the node; sync point if state sync was active in it
	subDone              chan struct{}
	subQuit              chan struct{}

	atSync *c20Peer // the source as seen by the syncing server
	atSrc  *c20Peer // the syncing node as seen by the source server
	liar   *c20Peer // the liar as seen by the syncing server
	port   int

	reqQ  [][]byte // syncing -> source, not yet delivered
	respQ [][]byte // source -> syncing, not yet delivered

	fatal                    c20Fatal
	lastDrop                 string                  // why the honest peer was dropped last time
	delivered, deliveredSync map[uint32]bool         // indices of the blocks handed to the current syncing server instance (for bQueue / bSyncQueue)
	forged                   map[util.Uint256]string // hashes of forged headers / blocks (must never be known to the syncing node)
	stats                    struct {
		drops, dups, discs, restarts, liarMsgs, liarRejected, handlerErrs, reorder, invs int
		stages                                                                           map[string]bool
	}
}

func (w *c20World) srih() bool { return w.c.Chain.SRIH }

// c20Fatal receives what the server logs at Fatal level (zap would exit the process silently otherwise); the
// logging goroutine is ended instead.
type c20Fatal struct {
	mu  sync.Mutex
	msg string
}

func (f *c20Fatal) OnWrite(ce *zapcore.CheckedEntry, fields []zapcore.Field) {
	enc := zapcore.NewMapObjectEncoder()
	for _, fl := range fields {
		fl.AddTo(enc)
	}
	f.mu.Lock()
	if f.msg == "" {
		f.msg = fmt.Sprintf("%s %v", ce.Message, enc.Fields)
	}
	f.mu.Unlock()
	runtime.Goexit()
}

func (f *c20Fatal) get() string {
	f.mu.Lock()
	defer f.mu.Unlock()
	return f.msg
}

type c20FatalCore struct{ zapcore.LevelEnabler }

func (c c20FatalCore) With([]zapcore.Field) zapcore.Core { return c }
func (c c20FatalCore) Check(e zapcore.Entry, ce *zapcore.CheckedEntry) *zapcore.CheckedEntry {
	if c.Enabled(e.Level) {
		return ce.AddCore(e, c)
	}
	return ce
}
func (c c20FatalCore) Write(zapcore.Entry, []zapcore.Field) error { return nil }
func (c c20FatalCore) Sync() error                                { return nil }

func (w *c20World) logger() *zap.Logger {
	if os.Getenv("C20_NET_LOG") != "" {
		l, _ := zap.NewDevelopment(zap.WithFatalHook(&w.fatal))
		return l
	}
	return zap.New(c20FatalCore{zapcore.FatalLevel}, zap.WithFatalHook(&w.fatal))
}

func (w *c20World) newServer(bc *core.Blockchain) (*Server, error) {
	return newServerFromConstructors(ServerConfig{
		Addresses:         []config.AnnounceableAddress{{Address: ":0"}},
		MinPeers:          1,
		MaxPeers:          10,
		AttemptConnPeers:  1,
		Net:               ck.Magic,
		Relay:             true,
		UserAgent:         "/verif/",
		PingInterval:      time.Hour,
		PingTimeout:       time.Hour,
		ProtoTickInterval: time.Hour,
		DialTimeout:       time.Second,
	}, bc, bc.GetStateSyncModule(), w.logger(), newFakeTransp, newTestDiscovery)
}

func (w *c20World) goRun(name string, f func()) {
	w.runWG.Add(1)
	go func() {
		defer w.runWG.Done()
		defer func() {
			if r := recover(); r != nil {
				select {
				case w.panics <- fmt.Sprintf("PANIC in %s: %v", name, r):
				default:
				}
			}
		}()
		f()
	}()
}

// startSync creates the syncing node's server over its (re)opened chain and does what Server.Start does for the
// parts that matter here.
func (w *c20World) startSync() error {
	defer c20Time("start")()
	srv, err := w.newServer(w.n.BC)
	if err != nil {
		return fmt.Errorf("syncing server: %v", err)
	}
	w.srv = srv
	w.delivered, w.deliveredSync = map[uint32]bool{}, map[uint32]bool{}
	srv.Start()
	w.sessStart = w.n.BC.BlockHeight()
	w.subCh = make(chan *block.Block, 8192)
	w.subDone = make(chan struct{})
	w.subQuit = make(chan struct{})
	ch, done, quit := w.subCh, w.subDone, w.subQuit
	w.n.BC.SubscribeForBlocks(ch)
	go func() {
		defer close(done)
		for {
			select {
			case b := <-ch:
				w.appMu.Lock()
				w.applied = append(w.applied, b.Index)
				w.appMu.Unlock()
			case <-quit:
				return
			}
		}
	}()
	return nil
}

func (w *c20World) stopSync() {
	defer c20Time("stop")()
	w.srv.Shutdown()
	w.runWG.Wait()
	// Shutdown does not wait for a block addition the queue goroutine is in the middle of; Close does. Its event is
	// handed to the dispatcher before Close returns and reaches the collector right after. (UnsubscribeFromBlocks
	// would discard events itself, so the subscription simply dies with the chain.)
	w.n.Stop()
	if h := w.n.BC.BlockHeight(); h > w.sessStart && !(w.sessPoint != 0 && h == w.sessPoint) {
		c20Wait(func() bool {
			w.appMu.Lock()
			defer w.appMu.Unlock()
			return len(w.applied) > 0 && w.applied[len(w.applied)-1] == h
		})
	}
	w.sessPoint = 0
	close(w.subQuit)
	<-w.subDone
}

// connect registers fresh peer objects on both sides (a new connection) and plays the post-handshake steps of
// Server.run (tryInitStateSync) and TCPPeer.StartProtocol (requestBlocksOrHeaders).
func (w *c20World) connect() error {
	w.port++
	w.reqQ, w.respQ = nil, nil
	w.atSync = c20NewPeer("source", 20000+w.port, w.b.N.BC.BlockHeight(), true, w.srih())
	w.atSrc = c20NewPeer("syncing", 30000+w.port, w.n.BC.BlockHeight(), !w.c.Node.RemoveUntraceable, w.srih())
	w.src.lock.Lock()
	w.src.peers[w.atSrc] = true
	w.src.lock.Unlock()
	if err := w.register(w.atSync); err != nil {
		return err
	}
	if w.c.Liar {
		w.liar = c20NewPeer("liar", 40000+w.port, w.b.N.BC.BlockHeight(), true, w.srih())
		if err := w.register(w.liar); err != nil {
			return err
		}
	}
	return w.tick(w.atSync)
}

func (w *c20World) has(p *c20Peer) bool {
	w.srv.lock.RLock()
	defer w.srv.lock.RUnlock()
	return w.srv.peers[p]
}

var c20T = map[string]time.Duration{}

func c20Time(k string) func() { t := time.Now(); return func() { c20T[k] += time.Since(t) } }

func c20Wait(cond func() bool) bool {
	defer c20Time("wait")()
	for i := 0; i < 200000; i++ {
		if cond() {
			return true
		}
		time.Sleep(50 * time.Microsecond)
	}
	return false
}

// register hands a handshaked peer to the syncing server's run loop (what the transport and TCPPeer.StartProtocol
// do) and waits until the loop has processed it, including its tryInitStateSync.
func (w *c20World) register(p *c20Peer) error {
	w.srv.register <- p
	if !c20Wait(func() bool { return w.has(p) }) {
		return errors.New("infra: the run loop did not register the peer")
	}
	select {
	case w.srv.handshake <- p:
	case <-time.After(20 * time.Second):
		return fmt.Errorf("the run loop of the syncing server is gone: %s", w.fatal.get())
	}
	// The handshake case of the run loop ends with tryStartServices; the next loop iteration can only be entered
	// after it: a second, harmless event (an unregister of an unknown peer) is consumed only then.
	select {
	case w.srv.unregister <- peerDrop{c20NewPeer("nobody", 1, 0, true, w.srih()), errors.New("sync")}:
	case <-time.After(20 * time.Second):
	}
	return w.checkPanics()
}

func (w *c20World) unregister(s *Server, p *c20Peer) {
	if s == w.srv {
		s.unregister <- peerDrop{p, errors.New("dropped by the harness")}
		c20Wait(func() bool { return !w.has(p) })
		return
	}
	s.lock.Lock()
	delete(s.peers, p)
	s.lock.Unlock()
}

func (w *c20World) disconnect() {
	w.unregister(w.srv, w.atSync)
	w.unregister(w.src, w.atSrc)
	if w.liar != nil {
		w.unregister(w.srv, w.liar)
	}
}

func (w *c20World) collect() {
	for _, m := range w.atSync.take() {
		// the run loop's own chatter (getaddr when short of peers, relayed invs of applied blocks) is timing
		// dependent and irrelevant here
		if len(m) > 1 {
			switch CommandType(m[1]) {
			case CMDGetAddr, CMDAddr, CMDInv, CMDMempool:
				continue
			}
		}
		w.reqQ = append(w.reqQ, m)
	}
	for _, m := range w.atSrc.take() {
		w.respQ = append(w.respQ, m)
	}
	if w.liar != nil {
		w.liar.take() // whatever is asked from the liar stays unanswered
	}
}

func (w *c20World) tick(p *c20Peer) error {
	err := w.srv.requestBlocksOrHeaders(p)
	w.collect()
	if err != nil {
		// TCPPeer.StartProtocol disconnects on error
		w.stats.handlerErrs++
		if p == w.atSync {
			return fmt.Errorf("requestBlocksOrHeaders towards the honest peer failed: %v", err)
		}
	}
	return nil
}

func c20Decode(b []byte, srih bool) (*Message, error) {
	m := &Message{StateRootInHeader: srih}
	r := io.NewBinReaderFromBuf(b)
	if err := m.Decode(r); err != nil {
		return nil, err
	}
	return m, nil
}

// toSync delivers one encoded message from the source to the syncing server. A handler error drops the connection
// (TCPPeer.handleIncoming); the peers then reconnect.
func (w *c20World) toSync(from *c20Peer, b []byte) (error, error) {
	m, err := c20Decode(b, w.srih())
	if err != nil {
		return nil, fmt.Errorf("message for the syncing node does not decode: %v", err)
	}
	if blk, ok := m.Payload.(*block.Block); ok && m.Command == CMDBlock {
		switch w.stage() { // in the other stages the server has no use for blocks
		case "inactive":
			w.delivered[blk.Index] = true
		case "blocks":
			w.deliveredSync[blk.Index] = true
		}
	}
	herr := w.srv.handleMessage(from, m)
	if os.Getenv("C20_NET_LOG") != "" {
		d := ""
		if blk, ok := m.Payload.(*block.Block); ok {
			d = fmt.Sprint("index ", blk.Index)
		}
		fmt.Printf("TO-SYNC %s %s -> %v (stage %s)\n", m.Command, d, herr, w.stage())
	}
	w.collect()
	return herr, nil
}

func (w *c20World) toSource(b []byte) error {
	m, err := c20Decode(b, w.srih())
	if err != nil {
		return fmt.Errorf("request of the syncing node does not decode: %v", err)
	}
	herr := w.src.handleMessage(w.atSrc, m)
	if os.Getenv("C20_NET_LOG") != "" {
		d := ""
		if g, ok := m.Payload.(*payload.GetBlockByIndex); ok {
			d = fmt.Sprint("start ", g.IndexStart, " count ", g.Count)
		}
		fmt.Printf("TO-SOURCE %s %s -> %v\n", m.Command, d, herr)
	}
	w.collect()
	if herr != nil && !errors.Is(herr, storage.ErrKeyNotFound) {
		return fmt.Errorf("the source server failed to handle %s sent by the syncing server: %v", m.Command, herr)
	}
	return nil
}

// qlen is the number of elements sitting in the syncing server's block queues.
func (w *c20World) qlen() int {
	if w.stage() == "blocks" {
		_, c2 := w.srv.bSyncQueue.LastQueued()
		return w.srv.bSyncQueue.Cap() - c2
	}
	_, c1 := w.srv.bQueue.LastQueued() // bSyncQueue may keep blocks above the sync point for good
	return w.srv.bQueue.Cap() - c1
}

type c20Progress struct {
	hh, bh, mh uint32
	stage      string
	unk        string
}

func (w *c20World) stage() string {
	ss := w.srv.stateSync
	switch {
	case !ss.IsActive():
		return "inactive"
	case !ss.IsInitialized():
		return "none"
	case ss.NeedHeaders():
		return "headers"
	case ss.NeedStorageData():
		return "state"
	case ss.NeedBlocks():
		return "blocks"
	}
	return "?"
}

func (w *c20World) progress() c20Progress {
	p := c20Progress{hh: w.n.BC.HeaderHeight(), bh: w.n.BC.BlockHeight(), stage: w.stage()}
	if p.stage == "headers" || p.stage == "state" || p.stage == "blocks" {
		w.sessPoint = w.srv.stateSync.GetStateSyncPoint()
	}
	w.stats.stages[p.stage] = true
	switch p.stage {
	case "state":
		u := w.srv.stateSync.GetUnknownMPTNodesBatch(1 << 20)
		sort.Slice(u, func(i, j int) bool { return bytes.Compare(u[i][:], u[j][:]) < 0 })
		var sb strings.Builder
		for _, h := range u {
			sb.Write(h[:4])
		}
		p.unk = sb.String()
	case "blocks":
		p.mh = w.srv.stateSync.BlockHeight()
	}
	return p
}

// settle waits for the queue goroutines. The queues hold (a subset of) the blocks delivered to this server instance;
// as long as the block the chain (or the state sync module) needs next is among them, wait for it to be applied, but
// not longer than `quiet` without any movement (a forged block may sit in its slot).
func (w *c20World) settle(quiet time.Duration) {
	defer c20Time(fmt.Sprint("settle", quiet))()
	last := w.progress()
	since := time.Now()
	for d := 20 * time.Microsecond; ; {
		if w.qlen() == 0 {
			return
		}
		next, set := last.bh+1, w.delivered
		switch last.stage {
		case "blocks":
			next, set = last.mh+1, w.deliveredSync
		case "headers", "state", "none":
			return // blocks are not taken in these stages
		}
		lq, _ := w.srv.bQueue.LastQueued()
		if last.stage == "blocks" {
			lq, _ = w.srv.bSyncQueue.LastQueued()
		}
		if !set[next] && lq < next { // neither delivered nor claimed by the queue itself
			return
		}
		time.Sleep(d)
		if d < time.Millisecond {
			d *= 2
		}
		if now := w.progress(); now != last {
			last, since = now, time.Now()
		} else if time.Since(since) > quiet {
			if os.Getenv("C20_NET_TIMING") != "" {
				lq, cl := w.srv.bQueue.LastQueued()
				fmt.Printf("SETTLE-TIMEOUT quiet=%v stage=%s bh=%d mh=%d next=%d qlen=%d bQueue(lastQ=%d len=%d) srcTop=%d\n", quiet, last.stage, last.bh, last.mh, next, w.qlen(), lq, w.srv.bQueue.Cap()-cl, w.b.N.BC.BlockHeight())
			}
			delete(set, next)
			return
		}
	}
}

func (w *c20World) handleDrop(herr error, who string) error {
	if herr == nil {
		return nil
	}
	w.stats.handlerErrs++
	w.o.Label("handler-error-drops-peer")
	w.lastDrop = fmt.Sprintf("%s peer dropped in stage %s: %v", who, w.stage(), herr)
	w.disconnect()
	return w.connect()
}

// ---- the liar -----------------------------------------------------------------------------------------------------

func (w *c20World) srcBlock(i uint32) *block.Block {
	b, err := w.b.N.BC.GetBlock(w.b.N.BC.GetHeaderHash(i))
	if err != nil {
		return nil
	}
	return b
}

func c20Clone(b *block.Block, srih bool) *block.Block {
	bw := io.NewBufBinWriter()
	b.EncodeBinary(bw.BinWriter)
	nb := block.New(srih)
	r := io.NewBinReaderFromBuf(bw.Bytes())
	nb.DecodeBinary(r)
	return nb
}

// lie sends one forged message from the liar. mustFail: the payload is invalid beyond doubt, the handler has to
// return an error (which disconnects the peer).
func (w *c20World) lie(seed uint64) error {
	if w.liar == nil {
		return nil
	}
	top := w.b.N.BC.BlockHeight()
	var (
		msg      *Message
		mustFail bool
		what     string
	)
	switch seed % 9 {
	case 8: // the next block with an altered witness: its hash is the genuine one (the witness is not hashed)
		i := w.n.BC.BlockHeight() + 1
		if w.stage() == "blocks" {
			i = w.srv.stateSync.BlockHeight() + 1
		}
		b := w.srcBlock(i)
		if b == nil || len(b.Script.InvocationScript) == 0 {
			return nil
		}
		nb := c20Clone(b, w.srih())
		nb.Script.InvocationScript = bytes.Clone(nb.Script.InvocationScript)
		nb.Script.InvocationScript[int(seed>>8)%len(nb.Script.InvocationScript)] ^= 1 << (seed >> 16 % 8)
		msg, what = NewMessage(CMDBlock, nb), "genuine block with an altered witness"
	case 0: // next header with an altered field
		i := w.n.BC.HeaderHeight() + 1
		b := w.srcBlock(i)
		if b == nil {
			return nil
		}
		fb := c20Clone(b, w.srih())
		fb.Nonce ^= 1 + seed>>8
		h := c20Clone(fb, w.srih()).Header // re-decoded: the hash is the hash of the altered header
		w.forged[h.Hash()] = fmt.Sprintf("header %d with altered nonce", h.Index)
		msg, mustFail, what = NewMessage(CMDHeaders, &payload.Headers{Hdrs: []*block.Header{&h}, StateRootInHeader: w.srih()}), true, "forged header"
	case 1, 2: // next block with an altered header field / with a transaction removed
		i := w.n.BC.BlockHeight() + 1
		if w.stage() == "blocks" {
			i = w.srv.stateSync.BlockHeight() + 1
		}
		b := w.srcBlock(i)
		if b == nil {
			return nil
		}
		nb := c20Clone(b, w.srih())
		if seed%8 == 1 || len(nb.Transactions) == 0 {
			nb.Timestamp += 1 + seed>>8%1000
			nb = c20Clone(nb, w.srih()) // re-decoded: the hash is the hash of the altered header
			w.forged[nb.Hash()] = fmt.Sprintf("block %d with altered timestamp (stage %s)", nb.Index, w.stage())
			what = "forged block header"
		} else {
			nb.Transactions = nb.Transactions[1:]
			what = "block without one of its transactions"
		}
		msg = NewMessage(CMDBlock, nb)
	case 3:
		msg, mustFail, what = NewMessage(CMDMPTData, &payload.MPTData{Nodes: [][]byte{{0xff, 0x01, 0x02}}}), true, "undecodable MPT node"
	case 4:
		msg, mustFail, what = NewMessage(CMDMPTData, &payload.MPTData{Nodes: [][]byte{{0x04}}}), true, "empty MPT node"
	case 5: // a real node of the source's latest trie with one bit flipped
		var nb []byte
		root := w.b.N.BC.GetStateModule().CurrentLocalStateRoot()
		k := int(seed >> 8 % 40)
		_ = w.src.stateSync.Traverse(root, func(_ mpt.Node, b []byte) bool {
			nb = bytes.Clone(b)
			k--
			return k < 0
		})
		if len(nb) == 0 {
			return nil
		}
		nb[int(seed>>16)%len(nb)] ^= 1 << (seed >> 24 % 8)
		msg, what = NewMessage(CMDMPTData, &payload.MPTData{Nodes: [][]byte{nb}}), "altered MPT node"
		mustFail = !w.c.Chain.StateExchange || w.stage() != "state" // not requested / not enabled => error; requested stage: error or ignored
	case 6: // announces something that does not exist
		var h util.Uint256
		for i := range h {
			h[i] = byte(seed >> (uint(i) % 8 * 8))
		}
		msg, what = NewMessage(CMDInv, payload.NewInventory(payload.BlockType, []util.Uint256{h})), "inv of an unknown block"
	default: // a far future genuine block (harmless)
		b := w.srcBlock(top)
		if b == nil {
			return nil
		}
		msg, what = NewMessage(CMDBlock, b), "genuine top block"
	}
	b, err := msg.Bytes()
	if err != nil {
		return nil
	}
	w.stats.liarMsgs++
	w.o.Label("liar:" + what)
	herr, derr := w.toSync(w.liar, b)
	if derr != nil {
		return derr
	}
	if herr != nil {
		w.stats.liarRejected++
		// the liar is dropped and comes back as a new connection
		w.unregister(w.srv, w.liar)
		w.port++
		w.liar = c20NewPeer("liar", 40000+w.port, top, true, w.srih())
		if err := w.register(w.liar); err != nil {
			return err
		}
	} else if mustFail {
		return fmt.Errorf("the syncing server handled a %s from a peer without an error (stage %s): the peer is not dropped", what, w.stage())
	}
	return nil
}

// ---- running a case -------------------------------------------------------------------------------------------------

func (w *c20World) grow(n int) error {
	for ; n > 0 && w.built < len(w.c.Blocks); n-- {
		if _, _, err := w.b.BuildBlock(w.c.Blocks[w.built]); err != nil {
			return fmt.Errorf("build block: %v", err)
		}
		w.built++
	}
	return nil
}

func (w *c20World) behind() bool {
	return w.n.BC.BlockHeight() < w.b.N.BC.BlockHeight() || w.srv.stateSync.IsActive()
}

func (w *c20World) deliverResp(i, n int, drop bool) error {
	if len(w.respQ) == 0 {
		return nil
	}
	i %= len(w.respQ)
	n = min(max(n, 1), len(w.respQ)-i)
	if i > 0 {
		w.stats.reorder++
	}
	batch := append([][]byte{}, w.respQ[i:i+n]...)
	w.respQ = append(w.respQ[:i], w.respQ[i+n:]...)
	if drop {
		w.stats.drops += n
		return nil
	}
	conn := w.atSync
	for _, b := range batch {
		if conn != w.atSync {
			break // the connection was dropped meanwhile, the rest is lost
		}
		herr, derr := w.toSync(w.atSync, b)
		if derr != nil {
			return derr
		}
		if err := w.handleDrop(herr, "source"); err != nil {
			return err
		}
	}
	w.settle(3 * time.Millisecond)
	return nil
}

func (w *c20World) deliverReq(i, n int) error {
	if len(w.reqQ) == 0 {
		return nil
	}
	i %= len(w.reqQ)
	n = min(max(n, 1), len(w.reqQ)-i)
	batch := append([][]byte{}, w.reqQ[i:i+n]...)
	w.reqQ = append(w.reqQ[:i], w.reqQ[i+n:]...)
	for _, b := range batch {
		if err := w.toSource(b); err != nil {
			return err
		}
	}
	return nil
}

func (w *c20World) ping(fromSource bool) error {
	if fromSource {
		m := NewMessage(CMDPing, payload.NewPing(w.b.N.BC.BlockHeight(), w.src.id))
		b, _ := m.Bytes()
		herr, derr := w.toSync(w.atSync, b)
		if derr != nil {
			return derr
		}
		if herr != nil {
			return fmt.Errorf("the syncing server failed to handle a ping of the honest peer: %v", herr)
		}
		return nil
	}
	m := NewMessage(CMDPing, payload.NewPing(w.n.BC.BlockHeight(), w.srv.id))
	b, _ := m.Bytes()
	return w.toSource(b)
}

func (w *c20World) event(e c20Event) error {
	switch e.K {
	case "tick":
		p := w.atSync
		if e.I == 1 && w.liar != nil {
			p = w.liar
		}
		return w.tick(p)
	case "ping":
		return w.ping(true)
	case "sping":
		return w.ping(false)
	case "req":
		return w.deliverReq(e.I, e.N)
	case "resp":
		return w.deliverResp(e.I, e.N, false)
	case "drop":
		return w.deliverResp(e.I, e.N, true)
	case "dup":
		if len(w.respQ) > 0 {
			i := e.I % len(w.respQ)
			w.respQ = append(w.respQ, w.respQ[i])
			w.stats.dups++
		}
	case "inv":
		top := w.b.N.BC.BlockHeight()
		m := NewMessage(CMDInv, payload.NewInventory(payload.BlockType, []util.Uint256{w.b.N.BC.GetHeaderHash(top)}))
		b, _ := m.Bytes()
		w.stats.invs++
		herr, derr := w.toSync(w.atSync, b)
		if derr != nil {
			return derr
		}
		if herr != nil {
			return fmt.Errorf("the syncing server failed to handle a block inv of the honest peer: %v", herr)
		}
	case "grow":
		// While a sync point is being worked on the network may not run away by two intervals: a restarted node
		// then refuses to continue by documentation ("drop the database manually"); that is not provoked.
		if st := w.stage(); st == "headers" || st == "state" || st == "blocks" {
			lim := w.srv.stateSync.GetStateSyncPoint() + 2*uint32(w.c.Chain.StateSyncInterval) - 1
			if top := w.b.N.BC.BlockHeight(); top+uint32(e.N) > lim {
				if top >= lim {
					return nil
				}
				e.N = int(lim - top)
			}
		}
		return w.grow(e.N)
	case "disc":
		w.stats.discs++
		w.disconnect()
		return w.connect()
	case "restart":
		// Documented refusal (statesync.Module.Init): a node that already has blocks and stands two sync intervals or
		// more behind the network does not start ("drop the database manually"). Not provoked.
		if w.c.Chain.StateExchange && w.c.Node.RemoveUntraceable && w.stage() == "inactive" {
			iv := uint32(w.c.Chain.StateSyncInterval)
			p := w.b.N.BC.BlockHeight() / iv * iv
			if bh := w.n.BC.BlockHeight(); p >= 2*iv && bh != 0 && bh <= p-2*iv {
				w.o.Label("restart-skipped:too-far-behind-by-documentation")
				return nil
			}
		}
		w.stats.restarts++
		st := w.stage()
		w.o.Label("restart@" + st)
		w.disconnect()
		w.stopSync()
		if err := w.n.Reopen(); err != nil {
			return fmt.Errorf("restart of the syncing node in stage %s: %v", st, err)
		}
		if err := w.startSync(); err != nil {
			return err
		}
		return w.connect()
	case "liar":
		return w.lie(e.Seed)
	case "flush":
		return w.n.BC.VerifPersist()
	}
	return nil
}

func (w *c20World) checkPanics() error {
	if m := w.fatal.get(); m != "" {
		return fmt.Errorf("the server logged a FATAL error (the node would exit): %s", m)
	}
	select {
	case p := <-w.panics:
		return errors.New(p)
	default:
		return nil
	}
}

// cleanRounds: ping, all requests, all answers, drain; until the syncing node has caught up.
func (w *c20World) cleanRounds() error {
	stall := 0
	for round := 0; w.behind(); round++ {
		if err := w.checkPanics(); err != nil {
			return err
		}
		if round > 5000 {
			return fmt.Errorf("the syncing node has not caught up after 5000 clean rounds (height %d of %d, stage %s)", w.n.BC.BlockHeight(), w.b.N.BC.BlockHeight(), w.stage())
		}
		before := w.progress()
		if before.stage == "headers" && before.hh == w.b.N.BC.BlockHeight() && w.srv.stateSync.GetStateSyncPoint() == before.hh {
			// The source stands exactly at the sync point: header P+1 does not exist yet. The network moves on.
			w.o.Label("source-exactly-at-sync-point")
			if _, _, err := w.b.BuildBlock(ck.BlockSpec{TimeD: 1000, Nonce: uint64(round)}); err != nil {
				return fmt.Errorf("extra block: %v", err)
			}
		}
		// one request per round: a ping (updates the peer's height, then requestBlocksOrHeaders) or a protocol tick
		if round%2 == 0 {
			if err := w.ping(true); err != nil {
				return err
			}
		} else if err := w.tick(w.atSync); err != nil {
			return err
		}
		for len(w.reqQ) > 0 {
			if err := w.deliverReq(0, len(w.reqQ)); err != nil {
				return err
			}
		}
		conn := w.atSync
		for len(w.respQ) > 0 && conn == w.atSync {
			b := w.respQ[0]
			w.respQ = w.respQ[1:]
			herr, derr := w.toSync(w.atSync, b)
			if derr != nil {
				return derr
			}
			// An answer that arrives after its stage is over ("headers were not requested", "MPT nodes were not
			// requested") makes the handler fail and the server drop the honest peer; it reconnects.
			if err := w.handleDrop(herr, "source"); err != nil {
				return err
			}
		}
		w.settle(400 * time.Millisecond)
		if after := w.progress(); after != before {
			stall = 0
			continue
		}
		stall++
		// getRequestBlocksPayload asks for a RANDOM 500-aligned offset once lastRequested* ran >= 1500 ahead of the
		// chain (possible after lost answers on a chain > 1500 ahead); for headers only offset 0 connects, the other
		// answers are rejected and the peer is dropped. Progress is then a matter of luck (1 in 4 per request), so
		// the bound is wide there: (3/4)^80 is negligible.
		limit := 3
		if w.b.N.BC.BlockHeight() > min(before.hh, max(before.bh, before.mh))+1000 {
			limit = 80
			w.o.Label("random-offset-requests-possible")
		}
		if stall >= limit {
			lq, capLeft := w.srv.bQueue.LastQueued()
			slq, scap := w.srv.bSyncQueue.LastQueued()
			if os.Getenv("C20_NET_TIMING") != "" {
				buf := make([]byte, 1<<20)
				buf = buf[:runtime.Stack(buf, true)]
				for _, g := range strings.Split(string(buf), "\n\n") {
					if strings.Contains(g, "bqueue.(*Queue") || strings.Contains(g, "notificationDispatcher") || strings.Contains(g, "relayBlocksLoop") {
						fmt.Println("STALL-GOROUTINE", g)
					}
				}
			}
			return fmt.Errorf("stall: %d clean rounds (ping or tick, every request delivered to the source, every answer delivered in order) without progress: block height %d of %d, header height %d, stage %s, sync point %d, module block height %d, bQueue (lastQ %d, %d queued), bSyncQueue (lastQ %d, %d queued); last drop: %s",
				stall, w.n.BC.BlockHeight(), w.b.N.BC.BlockHeight(), w.n.BC.HeaderHeight(), w.stage(), w.srv.stateSync.GetStateSyncPoint(), before.mh, lq, w.srv.bQueue.Cap()-capLeft, slq, w.srv.bSyncQueue.Cap()-scap, w.lastDrop)
		}
	}
	return nil
}

func c20CheckCase(c c20Case, o *vt.Obs) error {
	defer c20Time("total")()
	if len(c.Blocks) == 0 {
		return nil
	}
	b, err := ck.NewBuilder(c.Chain)
	if err != nil {
		return fmt.Errorf("builder: %v", err)
	}
	defer b.Close()
	if _, err := b.Bootstrap(); err != nil {
		return fmt.Errorf("bootstrap: %v", err)
	}
	for i := 0; i < c.Filler; i++ {
		if _, _, err := b.BuildBlock(ck.BlockSpec{TimeD: 1000, Nonce: uint64(i)}); err != nil {
			return fmt.Errorf("filler block: %v", err)
		}
	}
	w := &c20World{c: c, o: o, b: b, panics: make(chan string, 4), forged: map[util.Uint256]string{}}
	w.stats.stages = map[string]bool{}
	if err := w.grow(min(max(c.Init, 0), len(c.Blocks))); err != nil {
		return err
	}
	if w.src, err = w.newServer(b.N.BC); err != nil {
		return fmt.Errorf("source server: %v", err)
	}
	defer func() {
		if b.Excluded > 0 { // see ck.KnownOracleOrigTx
			o.Excluded()
			o.Label("excluded/" + ck.KnownOracleOrigTx)
		}
	}()
	if w.n, err = ck.NewNode(c.Chain, c.Node, nil); err != nil {
		return fmt.Errorf("syncing node: %v", err)
	}
	defer w.n.Close()
	if err := w.startSync(); err != nil {
		return err
	}
	stopped := false
	defer func() {
		if !stopped {
			w.stopSync()
		}
	}()
	if err := w.connect(); err != nil {
		return err
	}
	for i, e := range c.Events {
		if err := w.event(e); err != nil {
			return fmt.Errorf("event %d (%s): %w", i, e.K, err)
		}
		if err := w.checkPanics(); err != nil {
			return err
		}
	}
	// the source finishes its chain, then everything is delivered faithfully
	if err := w.grow(len(c.Blocks)); err != nil {
		return err
	}
	w.reqQ, w.respQ = nil, nil
	if err := w.cleanRounds(); err != nil {
		return err
	}
	w.settle(50 * time.Millisecond)
	if err := w.checkPanics(); err != nil {
		return err
	}

	// ---- oracle: the syncing node equals the source ----
	sbc, abc := w.n.BC, b.N.BC
	top := abc.BlockHeight()
	if h := sbc.BlockHeight(); h != top {
		return fmt.Errorf("syncing node at height %d, source at %d", h, top)
	}
	for i := uint32(0); i <= top; i++ {
		if sh, ah := sbc.GetHeaderHash(i), abc.GetHeaderHash(i); sh != ah {
			return fmt.Errorf("hash of block %d: syncing node %s, source %s", i, sh.StringLE(), ah.StringLE())
		}
	}
	if diff := ck.Diff(ck.FullDump(abc, nil), ck.FullDump(sbc, nil)); diff != "" {
		return fmt.Errorf("final state at height %d differs (source vs syncing node): %s", top, diff)
	}
	// every block the syncing node stores is the source's block, witness included (the hash does not cover it)
	for i := uint32(1); i <= top; i++ {
		sb, err := sbc.GetBlock(sbc.GetHeaderHash(i))
		if err != nil {
			continue // below the state sync window
		}
		ab, err := abc.GetBlock(abc.GetHeaderHash(i))
		if err != nil {
			return fmt.Errorf("source has no block %d: %v", i, err)
		}
		if !bytes.Equal(sb.Script.InvocationScript, ab.Script.InvocationScript) || !bytes.Equal(sb.Script.VerificationScript, ab.Script.VerificationScript) {
			return fmt.Errorf("block %d stored by the syncing node carries a witness (%x) that differs from the one of the source's block (%x)", i, sb.Script.InvocationScript, ab.Script.InvocationScript)
		}
	}
	for h, what := range w.forged {
		if sbc.HasBlock(h) {
			return fmt.Errorf("forged %s (hash %s) is known to the syncing node as a block", what, h.StringLE())
		}
		if _, err := sbc.GetHeader(h); err == nil {
			return fmt.Errorf("forged %s (hash %s) is stored by the syncing node", what, h.StringLE())
		}
	}
	// ---- serving: what the source server answers to arbitrary requests ----
	for i, p := range c.Probes {
		if err := w.probe(p); err != nil {
			return fmt.Errorf("probe %d (%s start %d count %d): %w", i, p.K, p.Start, p.Count, err)
		}
	}
	stopped = true
	w.stopSync()
	// every block reported once, in index order (per run of the node)
	w.appMu.Lock()
	applied := append([]uint32{}, w.applied...)
	w.appMu.Unlock()
	seen := map[uint32]bool{}
	for i, idx := range applied {
		if seen[idx] {
			return fmt.Errorf("block %d was applied twice (order of applications: %v)", idx, applied[max(0, i-5):i+1])
		}
		seen[idx] = true
		if i > 0 && idx != applied[i-1]+1 {
			return fmt.Errorf("block %d applied right after block %d (applications: %v)", idx, applied[i-1], applied[max(0, i-6):min(len(applied), i+3)])
		}
	}

	// ---- classification ----
	if c.StateSync {
		o.Label("variant:statesync")
	} else {
		o.Label("variant:blocks")
	}
	for st := range w.stats.stages {
		o.Label("stage:" + st)
	}
	if w.stats.drops > 0 {
		o.Label("dropped-answers")
	}
	if w.stats.dups > 0 {
		o.Label("duplicated-answers")
	}
	if w.stats.reorder > 0 {
		o.Label("reordered-answers")
	}
	if w.stats.discs > 0 {
		o.Label("disconnect")
	}
	if w.stats.restarts > 0 {
		o.Label("restart")
	}
	if w.stats.invs > 0 {
		o.Label("inv")
	}
	if w.stats.liarRejected > 0 {
		o.Label("liar-rejected")
	}
	if c.Filler >= 1900 {
		o.Label("chain>2000")
	} else if c.Filler > 0 {
		o.Label("chain>500")
	}
	o.Units(len(c.Events) + len(c.Probes) + len(applied))
	did := w.stats.stages["state"] && w.stats.stages["blocks"]
	if (w.stats.drops > 0 || w.stats.dups > 0) && w.stats.reorder > 0 && (!c.StateSync || did) && (w.stats.discs+w.stats.restarts+w.stats.liarMsgs > 0) {
		o.NonTrivial()
	}
	return nil
}

// ---- serving probes ---------------------------------------------------------------------------------------------------

func (w *c20World) ask(m *Message) ([]*Message, error, error) {
	b, err := m.Bytes()
	if err != nil {
		return nil, nil, nil // not encodable: nothing a peer could send
	}
	dm, err := c20Decode(b, w.srih())
	if err != nil {
		return nil, nil, nil // a receiver would not get past decoding
	}
	p := c20NewPeer("prober", 50000, 0, true, w.srih())
	w.src.lock.Lock()
	w.src.peers[p] = true
	w.src.lock.Unlock()
	herr := w.src.handleMessage(p, dm)
	w.unregister(w.src, p)
	var out []*Message
	for _, rb := range p.take() {
		rm, err := c20Decode(rb, w.srih())
		if err != nil {
			return nil, nil, fmt.Errorf("answer does not decode: %v", err)
		}
		out = append(out, rm)
	}
	return out, herr, nil
}

func (w *c20World) probe(p c20Probe) error {
	bc := w.b.N.BC
	top := bc.BlockHeight()
	limit := func(cnt, lim int) int {
		if cnt < 0 || cnt > lim {
			return lim
		}
		return cnt
	}
	switch p.K {
	case "byindex":
		out, herr, err := w.ask(NewMessage(CMDGetBlockByIndex, payload.NewGetBlockByIndex(uint32(p.Start), int16(p.Count))))
		if err != nil || herr != nil {
			return fmt.Errorf("handler error %v / %v", herr, err)
		}
		var want []uint32
		for i := p.Start; i < p.Start+limit(p.Count, payload.MaxHashesCount) && uint32(i) <= top; i++ {
			want = append(want, uint32(i))
		}
		if len(out) != len(want) {
			return fmt.Errorf("%d blocks answered, expected %d (chain height %d)", len(out), len(want), top)
		}
		for i, m := range out {
			blk, ok := m.Payload.(*block.Block)
			if !ok || m.Command != CMDBlock || blk.Index != want[i] || blk.Hash() != bc.GetHeaderHash(want[i]) {
				return fmt.Errorf("answer %d is %s, expected block %d", i, m.Command, want[i])
			}
		}
		if len(want) >= payload.MaxHashesCount {
			w.o.Label("probe:byindex-at-limit")
		}
	case "headers":
		out, herr, err := w.ask(NewMessage(CMDGetHeaders, payload.NewGetBlockByIndex(uint32(p.Start), int16(p.Count))))
		if err != nil || herr != nil {
			return fmt.Errorf("handler error %v / %v", herr, err)
		}
		var want []uint32
		for i := p.Start; i < p.Start+limit(p.Count, payload.MaxHeadersAllowed) && uint32(i) <= top; i++ {
			want = append(want, uint32(i))
		}
		if len(want) == 0 {
			if len(out) != 0 {
				return fmt.Errorf("%d messages answered to a request beyond the chain", len(out))
			}
			return nil
		}
		if len(out) != 1 || out[0].Command != CMDHeaders {
			return fmt.Errorf("%d messages answered, expected one headers message", len(out))
		}
		hs := out[0].Payload.(*payload.Headers).Hdrs
		if len(hs) != len(want) {
			return fmt.Errorf("%d headers answered, expected %d (chain height %d)", len(hs), len(want), top)
		}
		for i, h := range hs {
			if h.Index != want[i] || h.Hash() != bc.GetHeaderHash(want[i]) {
				return fmt.Errorf("header %d of the answer has index %d, expected %d", i, h.Index, want[i])
			}
		}
		if len(want) >= payload.MaxHeadersAllowed {
			w.o.Label("probe:headers-at-limit")
		}
	case "getblocks":
		start := uint32(p.Start) % (top + 1)
		out, herr, err := w.ask(NewMessage(CMDGetBlocks, payload.NewGetBlocks(bc.GetHeaderHash(start), int16(p.Count))))
		if err != nil || herr != nil {
			return fmt.Errorf("handler error %v / %v", herr, err)
		}
		var want []util.Uint256
		for i := start + 1; i <= start+uint32(limit(p.Count, payload.MaxHashesCount)) && i <= top; i++ {
			want = append(want, bc.GetHeaderHash(i))
		}
		if len(want) == 0 {
			if len(out) != 0 {
				return fmt.Errorf("%d messages answered, expected none", len(out))
			}
			return nil
		}
		if len(out) != 1 || out[0].Command != CMDInv {
			return fmt.Errorf("%d messages answered, expected one inv", len(out))
		}
		got := out[0].Payload.(*payload.Inventory).Hashes
		if len(got) != len(want) {
			return fmt.Errorf("%d hashes answered after block %d, expected %d (chain height %d)", len(got), start, len(want), top)
		}
		for i := range got {
			if got[i] != want[i] {
				return fmt.Errorf("hash %d of the answer is not the hash of block %d", i, start+1+uint32(i))
			}
		}
	case "getdata":
		var hs []util.Uint256
		var wantBlocks, wantMissing []util.Uint256
		for _, s := range p.Sel {
			if s < 0 {
				h := util.Uint256{0xde, 0xad, byte(-s), byte(p.Start)}
				hs = append(hs, h)
				wantMissing = append(wantMissing, h)
				continue
			}
			h := bc.GetHeaderHash(uint32(s+p.Start) % (top + 1))
			hs = append(hs, h)
			wantBlocks = append(wantBlocks, h)
		}
		out, herr, err := w.ask(NewMessage(CMDGetData, payload.NewInventory(payload.BlockType, hs)))
		if err != nil || herr != nil {
			return fmt.Errorf("handler error %v / %v", herr, err)
		}
		var gotBlocks, gotMissing []util.Uint256
		for _, m := range out {
			switch m.Command {
			case CMDBlock:
				gotBlocks = append(gotBlocks, m.Payload.(*block.Block).Hash())
			case CMDNotFound:
				gotMissing = append(gotMissing, m.Payload.(*payload.Inventory).Hashes...)
			default:
				return fmt.Errorf("unexpected %s in the answer", m.Command)
			}
		}
		if fmt.Sprint(gotBlocks) != fmt.Sprint(wantBlocks) || fmt.Sprint(gotMissing) != fmt.Sprint(wantMissing) {
			return fmt.Errorf("answered blocks %v / not found %v, expected %v / %v", gotBlocks, gotMissing, wantBlocks, wantMissing)
		}
	case "mpt":
		root := bc.GetStateModule().CurrentLocalStateRoot()
		if sr, err := bc.GetStateModule().GetStateRoot(uint32(p.Start) % (top + 1)); err == nil && p.Count > 0 {
			root = sr.Root
		}
		var all []util.Uint256
		_ = w.src.stateSync.Traverse(root, func(n mpt.Node, _ []byte) bool {
			all = append(all, n.Hash())
			return len(all) >= 200
		})
		var hs []util.Uint256
		unknown := false
		for _, s := range p.Sel {
			if s < 0 {
				hs = append(hs, util.Uint256{0xbe, 0xef, byte(-s)})
				unknown = true
			} else if len(all) > 0 {
				hs = append(hs, all[s%len(all)])
			}
		}
		if len(hs) == 0 {
			return nil
		}
		out, herr, err := w.ask(NewMessage(CMDGetMPTData, payload.NewMPTInventory(hs)))
		if err != nil {
			return err
		}
		if !w.c.Chain.StateExchange {
			if herr == nil || len(out) != 0 {
				return fmt.Errorf("getmptdata answered (%d messages, error %v) although P2PStateExchangeExtensions are off", len(out), herr)
			}
			return nil
		}
		// expected: per requested hash its subtree in traversal order, no node twice; an unknown hash aborts with an error
		var want [][]byte
		added := map[util.Uint256]bool{}
		var wantErr bool
		for _, h := range hs {
			err := w.src.stateSync.Traverse(h, func(n mpt.Node, nb []byte) bool {
				if !added[n.Hash()] {
					added[n.Hash()] = true
					want = append(want, bytes.Clone(nb))
				}
				return false
			})
			if err != nil {
				wantErr = true
				break
			}
		}
		if wantErr != (herr != nil) {
			return fmt.Errorf("handler error %v, expected an error: %v (unknown hash requested: %v)", herr, wantErr, unknown)
		}
		if wantErr {
			if len(out) != 0 {
				return fmt.Errorf("%d messages answered although the request failed", len(out))
			}
			return nil
		}
		if len(out) != 1 || out[0].Command != CMDMPTData {
			return fmt.Errorf("%d messages answered, expected one mptdata", len(out))
		}
		got := out[0].Payload.(*payload.MPTData).Nodes
		if len(got) != len(want) {
			return fmt.Errorf("%d nodes answered for %d requested hashes, expected %d", len(got), len(hs), len(want))
		}
		for i := range got {
			if !bytes.Equal(got[i], want[i]) {
				return fmt.Errorf("node %d of the answer differs from node %d of the requested subtrees", i, i)
			}
		}
		w.o.Label("probe:mpt")
	}
	return nil
}
