#!/usr/bin/env python3
"""Regenerates MANIFEST.json from checks.json + manifest_meta.json (claimed checks) so that it always validates."""
import json, os
ROOT = os.path.dirname(os.path.abspath(__file__))
cfg = json.load(open(os.path.join(ROOT, "checks.json")))
meta = json.load(open(os.path.join(ROOT, "manifest_meta.json")))
props = [json.loads(l) for l in open(os.path.join(ROOT, "properties.jsonl"))]
checks, na = [], []
for p in props:
    pid = p["id"]
    if pid in cfg and pid in meta["checks"]:
        m = meta["checks"][pid]
        checks.append({
            "property_id": pid,
            "quick_cmd": "./run %s quick" % pid,
            "thorough_cmd": "./run %s thorough" % pid,
            "evidence_file": "/verif/evidence/%s.json" % pid,
            "replay_cmd_template": "./run %s --replay {path}" % pid,
            "engine": "rapid-harness",
            "level_claimed": {"category": cfg[pid]["level"], "text": m["text"], "design_ref": m.get("design_ref", "DESIGN.md §3 " + pid)},
            "level_note": m["note"],
            "technique": m["technique"],
        })
    else:
        na.append({"property_id": pid, "reason": meta["not_applicable"].get(pid, "check not built yet in this session (planned, see DESIGN.md §3 %s); not claimed until it runs green" % pid)})
man = {
    "version": 1,
    "setup_cmd": "./run --setup",
    "hooks": {
        "guard": "verif",
        "enable": "go build tag: -tags verif (files pkg/core/verif_hooks.go, pkg/vm/verif_hooks.go)",
        "baseline_off_cmd": meta["baseline_off_cmd"],
        "source_commits": meta["hook_commits"],
        "add_only": True,
    },
    "engines": [{"name": "rapid-harness", "path": "/verif/harness", "serves_properties": [c["property_id"] for c in checks],
                 "kind_free_text": "Go module with one package per property: rapid generators -> JSON case -> pure check(case); driver ./run shards, merges statistics into evidence, replays saved cases; native go fuzzing in thorough tiers"}],
    "checks": checks,
    "notes": meta["notes"],
    "not_applicable": na,
}
json.dump(man, open(os.path.join(ROOT, "MANIFEST.json"), "w"), indent=1)
print("claimed:", [c["property_id"] for c in checks])
