#!/usr/bin/env python3
"""Validate MANIFEST.json and evidence/*.json against the given schemas (uses the tooling venv's jsonschema)."""
import json, sys, glob, jsonschema
ok = True
def v(path, schema):
    global ok
    try:
        jsonschema.validate(json.load(open(path)), json.load(open(schema)))
        print("valid", path)
    except Exception as e:
        ok = False
        print("INVALID", path, str(e)[:300])
v("/verif/MANIFEST.json", "/root/.vp/MANIFEST.schema.json")
for p in sorted(glob.glob("/verif/evidence/*.json")):
    v(p, "/root/.vp/EVIDENCE.schema.json")
sys.exit(0 if ok else 1)
