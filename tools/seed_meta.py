#!/usr/bin/env python3
"""tools/seed_meta.py <ID-mN> <round> <caught|missed> <detection text> [strengthening text] - turns agent_meta.json into meta.json."""
import json, os, sys
sid, rnd, first, det = sys.argv[1], int(sys.argv[2]), sys.argv[3], sys.argv[4]
d = "/verif/seeded/" + sid
am = json.load(open(d + "/agent_meta.json"))
meta = {"property": sid.split("-")[0], "round": rnd, "title": am.get("title"), "what_breaks": am.get("what_breaks"),
        "needs_to_manifest": am.get("needs_to_manifest"),
        "confirmed": "tools/confirm_seed.sh in scratch worktree /var/tmp/mut/wt: patch applies, builds, named existing packages pass, demo fails with / passes without the change",
        "first_result": first, "detection": det}
if len(sys.argv) > 5:
    meta["strengthening"] = sys.argv[5]
meta["agent_meta"] = am
json.dump(meta, open(d + "/meta.json", "w"), indent=1)
os.remove(d + "/agent_meta.json")
if os.path.exists(d + "/.detect.log"):
    os.remove(d + "/.detect.log")
