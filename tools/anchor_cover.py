#!/usr/bin/env python3
"""anchor_cover.py <ID> [checks] — statement coverage of the files a property is anchored in, as reached by its quick check.
Development aid (not a registered command): shows generator blind spots. Output: per anchored file the functions below 70 %."""
import json, os, re, subprocess, sys
pid = sys.argv[1]; checks = sys.argv[2] if len(sys.argv) > 2 else None
ROOT = "/verif"; W = "/var/tmp/cov"; os.makedirs(W, exist_ok=True)
props = {json.loads(l)["id"]: json.loads(l) for l in open(ROOT + "/properties.jsonl")}
cfg = json.load(open(ROOT + "/checks.json"))[pid]
files = props[pid]["anchors"]["files"]
pkgs = sorted({"github.com/nspcc-dev/neo-go/" + os.path.dirname(f) for f in files})
part = cfg if "pkg" in cfg else [p for p in cfg.get("parts", []) if "pkg" in p][0]
env = dict(os.environ, GOFLAGS="-mod=mod", GOPROXY="off", VERIF_ROOT=ROOT, VERIF_TIER="quick", VERIF_SHARD="0", VERIF_NSHARDS="1",
           VERIF_FAILDIR=W + "/fail", VERIF_STATS=W + "/stats.json", VERIF_SEED="1",
           VERIF_CHECKS=str(checks or cfg["quick"]["checks"]))
os.makedirs(W + "/fail", exist_ok=True)
b = f"{W}/{pid}.test"
subprocess.check_call(["go", "test", "-c", "-tags", "verif", "-vet=off", "-cover", "-coverpkg=" + ",".join(pkgs), "-o", b, "./" + part["pkg"] + "/"], cwd=ROOT + "/harness", env=env)
prof = f"{W}/{pid}.out"
subprocess.call([b, "-test.run", "^TestProp$", "-test.timeout", "1500s", "-test.coverprofile", prof, "-rapid.nofailfile", "-rapid.seed", "12345"],
                cwd=ROOT + "/harness/" + part["pkg"], env=env, stdout=open(W + "/run.log", "w"), stderr=subprocess.STDOUT)
out = subprocess.check_output(["go", "tool", "cover", "-func", prof], cwd=ROOT + "/harness", env=env, text=True)
want = {"github.com/nspcc-dev/neo-go/" + f for f in files}
for l in out.splitlines():
    m = re.match(r"(\S+):(\d+):\s+(\S+)\s+([\d.]+)%", l)
    if m and m.group(1) in want and float(m.group(4)) < 70:
        print("%-60s %-40s %5s%%" % (m.group(1).replace("github.com/nspcc-dev/neo-go/", "") + ":" + m.group(2), m.group(3), m.group(4)))
print("profile:", prof, "(go tool cover -html)")
