#!/bin/bash
# tools/mutrun.sh <patch.diff> <ID> [quick|thorough]  — run one property's check against a MUTATED scratch copy of /repo
# without touching /repo (used while other builders work against /repo). Exit code = the check's exit code.
# Uses a persistent scratch worktree (/var/tmp/mutwt) so the Go build cache stays warm; not safe to run concurrently.
set -u
PATCH=$(readlink -f "$1"); ID=$2; TIER=${3:-quick}
M=/var/tmp/mut
mkdir -p $M
if [ ! -d $M/wt ]; then git -C /repo worktree add --detach $M/wt HEAD -q || exit 2; fi
git -C $M/wt checkout -q --detach $(git -C /repo rev-parse HEAD) && git -C $M/wt checkout -q -- . && git -C $M/wt clean -fdq
git -C $M/wt apply "$PATCH" || { echo "patch does not apply"; exit 2; }
rsync -a --delete --exclude .git --exclude bin --exclude .work --exclude 'replays/*/fail-*' --exclude 'replays/*/crash-*' --exclude evidence /verif/ $M/verif/
sed -i "s#=> /repo#=> $M/wt#" $M/verif/harness/go.mod
cd $M/verif && VERIF_REPO=$M/wt VERIF_SEED=${VERIF_SEED:-1} ./run $ID $TIER 2>&1 | tail -${MUT_TAIL:-8}
rc=${PIPESTATUS[0]}
git -C $M/wt checkout -q -- . ; git -C $M/wt clean -fdq
exit $rc
