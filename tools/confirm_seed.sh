#!/bin/bash
# tools/confirm_seed.sh <seed-out-dir> <pkg-dir-for-demo> <TestRegex> <pkgs-to-test...>
# Confirms a seeded change in the scratch worktree /var/tmp/mut/wt: applies, builds, existing tests of the given
# packages pass, the demo FAILS with the change and PASSES without it.
set -u
D=$(readlink -f $1); PKG=$2; RE=$3; shift 3; TESTPK="$@"
export GOFLAGS=-mod=mod GOPROXY=off
M=/var/tmp/mut; mkdir -p $M
[ -d $M/wt ] || git -C /repo worktree add --detach $M/wt HEAD -q
git -C $M/wt checkout -q --detach $(git -C /repo rev-parse HEAD); git -C $M/wt checkout -q -- .; git -C $M/wt clean -fdq
cd $M/wt
git apply $D/patch.diff || { echo "RESULT: patch does not apply"; exit 2; }
go build ./... >/dev/null 2>&1 || { echo "RESULT: does not build"; exit 2; }
ex=$(go test -count=1 -vet=off $TESTPK 2>&1 | grep -E "^(FAIL|---)" | grep -v "TestUT" | head -5)
cp $D/demo_test.go $PKG/zz_demo_test.go
with=$(go test -count=1 -vet=off -run "$RE" ./$PKG/ 2>&1 | tail -1)
git checkout -q -- .
without=$(go test -count=1 -vet=off -run "$RE" ./$PKG/ 2>&1 | tail -1)
rm -f $PKG/zz_demo_test.go; git clean -fdq
echo "RESULT existing-tests-failures=[${ex}] demo-with-change=[$with] demo-without=[$without]"
