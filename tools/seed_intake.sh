#!/bin/bash
# tools/seed_intake.sh <PROP> <agent-out-subdir> <mN> <pkg-dir-for-demo> <TestRegex> <pkgs-to-test...>
# Copies an agent's deliverable into seeded/<PROP>-<mN>/, confirms it (tools/confirm_seed.sh) and runs the property's quick check
# against it (tools/mutrun.sh). Prints CONFIRM and DETECT lines.
set -u
P=$1; SRC=$2; MN=$3; PKG=$4; RE=$5; shift 5
D=/verif/seeded/$P-$MN
mkdir -p $D
cp $SRC/patch.diff $SRC/demo_test.go $D/
cp $SRC/meta.json $D/agent_meta.json
echo "CONFIRM $P-$MN: $(/verif/tools/confirm_seed.sh $D $PKG "$RE" "$@" 2>&1 | tail -1)"
MUT_TAIL=6 /verif/tools/mutrun.sh $D/patch.diff $P quick > $D/.detect.log 2>&1
rc=$?
echo "DETECT $P-$MN rc=$rc: $(grep -c VIOLATION $D/.detect.log) violation lines; $(tail -3 $D/.detect.log | cut -c1-300)"
