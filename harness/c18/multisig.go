package c18

import (
	"bytes"
	"crypto/elliptic"
	"crypto/sha256"
	"fmt"
	"os"
	"runtime"
	"sync"
	"sync/atomic"
	"time"

	"github.com/nspcc-dev/neo-go/pkg/crypto/keys"
	"github.com/nspcc-dev/neo-go/pkg/vm"
	"pgregory.net/rapid"
	"verifharness/vt"
)

// SigSpec describes one element of the signature list.
//
//	ok        valid signature of the message by pool key Signer
//	othermsg  valid signature of ANOTHER message by pool key Signer
//	outsider  valid signature of the message by a key that is not in the pool
//	flip      signature of kind ok with bit Arg inverted
//	badlen    first Arg bytes of (signature of kind ok || itself): 0, 1, 63, 65, 128 bytes (Verify documents false for len != 64)
//	zero      64 zero bytes (r = s = 0)
//	highr     r = group order, s from a valid signature
//	rand      64 pseudo-random bytes derived from Arg
type SigSpec struct {
	Kind   string `json:"kind"`
	Signer int    `json:"signer"`
	Arg    int    `json:"arg"`
}

// MultisigCase: Keys are pool indices (pool of 3, so repeats are the norm), Sigs the signature list (m <= n),
// evaluated Reps times under each GOMAXPROCS value of Procs with Noise spinning goroutines.
type MultisigCase struct {
	Msg   vt.Bytes  `json:"msg"`
	Keys  []int     `json:"keys"`
	Sigs  []SigSpec `json:"sigs"`
	Procs []int     `json:"procs"`
	Reps  int       `json:"reps"`
	Noise int       `json:"noise"`
	// BadKeys: positions of the key list holding bytes that are NOT a public key (the system call hands the key list to
	// CheckMultisigPar undecoded, a script can put anything there). Kind: 0 empty, 1 32 bytes, 2 prefix 04 on 33 bytes,
	// 3 a 33-byte string with a good prefix whose x is not on the curve, 4 34 bytes.
	BadKeys []BadKey `json:"bad_keys,omitempty"`
}

type BadKey struct {
	Pos  int `json:"pos"`
	Kind int `json:"kind"`
}

func badKeyBytes(kind int, good []byte) []byte {
	switch ((kind % 5) + 5) % 5 {
	case 0:
		return []byte{}
	case 1:
		return bytes.Clone(good[:32])
	case 2:
		return append([]byte{4}, good[1:]...)
	case 3:
		// x = 5 has no point on P-256 with either prefix? keep searching from a fixed start: first x without a square root
		for x := byte(1); ; x++ {
			b := make([]byte, 33)
			b[0], b[32] = 2, x
			if _, err := keys.NewPublicKeyFromBytes(b, elliptic.P256()); err != nil {
				return b
			}
		}
	default:
		return append(bytes.Clone(good), 0)
	}
}

const poolSize = 3

var (
	poolPriv [poolSize + 1]*keys.PrivateKey // last one is the outsider
	poolPub  [poolSize + 1][]byte
)

func init() {
	for i := range poolPriv {
		seed := sha256.Sum256([]byte(fmt.Sprintf("c18 multisig pool key %d", i)))
		p, err := privOf(curveR1, scalarOf(curveR1, seed[:]))
		if err != nil {
			panic(err)
		}
		poolPriv[i] = p
		poolPub[i] = p.PublicKey().Bytes()
	}
}

var badKinds = []string{"othermsg", "outsider", "flip", "badlen", "zero", "highr", "rand"}

func genMultisigCase(t *rapid.T) MultisigCase {
	c := MultisigCase{Msg: genMsg(t, "msg")}
	n := rapid.SampledFrom([]int{1, 2, 3, 3, 4, 4, 5, 5, 6, 6, 7, 7, 8, 8}).Draw(t, "n")
	distinctBias := rapid.IntRange(0, 3).Draw(t, "distinct") == 0
	for i := 0; i < n; i++ {
		k := rapid.IntRange(0, poolSize-1).Draw(t, "key")
		if distinctBias && i < poolSize {
			k = i
		}
		c.Keys = append(c.Keys, k)
	}
	m := rapid.IntRange(1, n).Draw(t, "m")
	if m < 3 && n >= 3 && rapid.IntRange(0, 2).Draw(t, "mbig") != 0 {
		m = rapid.IntRange(3, n).Draw(t, "m3")
	}
	// start from an acceptable list: signatures for a strictly increasing choice of key positions
	pos := rapid.Permutation(seq(n)).Draw(t, "positions")[:m]
	sortInts(pos)
	for _, p := range pos {
		c.Sigs = append(c.Sigs, SigSpec{Kind: "ok", Signer: c.Keys[p]})
	}
	// then perturb
	for k := rapid.SampledFrom([]int{0, 0, 1, 1, 1, 2, 3}).Draw(t, "nperturb"); k > 0; k-- {
		i := rapid.IntRange(0, m-1).Draw(t, "pi")
		if m >= 3 && rapid.Bool().Draw(t, "pmid") {
			i = rapid.IntRange(1, m-2).Draw(t, "pim")
		}
		switch rapid.IntRange(0, 3).Draw(t, "pkind") {
		case 0: // swap two signatures
			j := rapid.IntRange(0, m-1).Draw(t, "pj")
			c.Sigs[i], c.Sigs[j] = c.Sigs[j], c.Sigs[i]
		case 1: // re-sign with another pool key
			c.Sigs[i] = SigSpec{Kind: "ok", Signer: rapid.IntRange(0, poolSize-1).Draw(t, "ps")}
		default: // make it invalid
			c.Sigs[i] = SigSpec{
				Kind:   rapid.SampledFrom(badKinds).Draw(t, "bad"),
				Signer: rapid.IntRange(0, poolSize-1).Draw(t, "bs"),
				Arg:    rapid.IntRange(0, 511).Draw(t, "barg"),
			}
			if c.Sigs[i].Kind == "badlen" {
				c.Sigs[i].Arg = rapid.SampledFrom([]int{0, 1, 63, 65, 128}).Draw(t, "blen")
			}
		}
	}
	if rapid.IntRange(0, 3).Draw(t, "withbad") == 0 {
		for k := rapid.IntRange(1, 2).Draw(t, "nbad"); k > 0; k-- {
			c.BadKeys = append(c.BadKeys, BadKey{Pos: rapid.IntRange(0, n-1).Draw(t, "badpos"), Kind: rapid.IntRange(0, 4).Draw(t, "badkind")})
		}
	}
	c.Procs = rapid.SliceOfNDistinct(rapid.SampledFrom([]int{1, 2, 3, 4, 8, 16}), 2, 3, func(i int) int { return i }).Draw(t, "procs")
	c.Reps = rapid.IntRange(1, 3).Draw(t, "reps")
	c.Noise = rapid.SampledFrom([]int{0, 0, 1, 2, 4, 8}).Draw(t, "noise")
	return c
}

func seq(n int) []int {
	s := make([]int, n)
	for i := range s {
		s[i] = i
	}
	return s
}

func sortInts(a []int) {
	for i := 1; i < len(a); i++ {
		for j := i; j > 0 && a[j] < a[j-1]; j-- {
			a[j], a[j-1] = a[j-1], a[j]
		}
	}
}

// buildSig materialises a SigSpec; valid reports whether it is a valid signature of digest under pool key Signer.
func buildSig(s SigSpec, msg []byte) (sig []byte, valid bool, err error) {
	signer := ((s.Signer % poolSize) + poolSize) % poolSize
	good := poolPriv[signer].Sign(msg)
	switch s.Kind {
	case "ok":
		return good, true, nil
	case "othermsg":
		return poolPriv[signer].Sign(append(bytes.Clone(msg), 0x01)), false, nil
	case "outsider":
		return poolPriv[poolSize].Sign(msg), false, nil
	case "flip":
		return flipBit(good, s.Arg), false, nil
	case "badlen":
		l := s.Arg
		if l < 0 || l > 128 || l == 64 {
			l = 63
		}
		return append(bytes.Clone(good), good...)[:l], false, nil
	case "zero":
		return make([]byte, 64), false, nil
	case "highr":
		b := bytes.Clone(good)
		elliptic.P256().Params().N.FillBytes(b[:32])
		return b, false, nil
	case "rand":
		h1 := sha256.Sum256([]byte(fmt.Sprintf("rand sig %d", s.Arg)))
		h2 := sha256.Sum256(h1[:])
		return append(h1[:], h2[:]...), false, nil
	}
	return nil, false, fmt.Errorf("case: unknown signature kind %q", s.Kind)
}

// seqMatch is the sequential order-preserving matcher of the property text: signatures are consumed in order, each must
// verify under a key at a later position than the key used by the previous one, every key is used at most once.
func seqMatch(v [][]bool, m, n int) bool {
	j := 0
	for i := 0; i < m; i++ {
		for j < n && !v[i][j] {
			j++
		}
		if j == n {
			return false
		}
		j++
	}
	return true
}

// existsMatch decides the same question by exhaustive search (an oracle for the oracle).
func existsMatch(v [][]bool, i, j, m, n int) bool {
	if i == m {
		return true
	}
	for ; j < n; j++ {
		if v[i][j] && existsMatch(v, i+1, j+1, m, n) {
			return true
		}
	}
	return false
}

func checkMultisigCase(c MultisigCase, o *vt.Obs) error {
	n, m := len(c.Keys), len(c.Sigs)
	// preconditions of the only production caller (ECDSASecp256r1CheckMultisig): 1 <= m <= n (the keys arrive undecoded)
	if n < 1 || m < 1 || m > n || n > 16 {
		return fmt.Errorf("case: need 1 <= m <= n <= 16, got m=%d n=%d", m, n)
	}
	digest := sha256.Sum256(c.Msg)
	pkeys := make([][]byte, n)
	for j, k := range c.Keys {
		pkeys[j] = bytes.Clone(poolPub[((k%poolSize)+poolSize)%poolSize])
	}
	bad := make([]bool, n)
	for _, b := range c.BadKeys {
		if b.Pos >= 0 && b.Pos < n {
			pkeys[b.Pos] = badKeyBytes(b.Kind, poolPub[((c.Keys[b.Pos]%poolSize)+poolSize)%poolSize])
			bad[b.Pos] = true
		}
	}
	baseGoroutines := runtime.NumGoroutine()
	sigs := make([][]byte, m)
	v := make([][]bool, m)
	invalidMiddle, allIndividuallyMatchable := false, true
	for i, s := range c.Sigs {
		sig, valid, err := buildSig(s, c.Msg)
		if err != nil {
			return err
		}
		sigs[i] = sig
		v[i] = make([]bool, n)
		any := false
		for j, k := range c.Keys {
			v[i][j] = valid && !bad[j] && ((s.Signer%poolSize)+poolSize)%poolSize == ((k%poolSize)+poolSize)%poolSize
			any = any || v[i][j]
		}
		if !any {
			allIndividuallyMatchable = false
			if i > 0 && i < m-1 {
				invalidMiddle = true
			}
		}
	}
	want := seqMatch(v, m, n)
	if ex := existsMatch(v, 0, 0, m, n); ex != want {
		return fmt.Errorf("oracle self-check: greedy matcher says %v, exhaustive search says %v", want, ex)
	}
	keysCopy := make([][]byte, n)
	for i := range pkeys {
		keysCopy[i] = bytes.Clone(pkeys[i])
	}
	sigsCopy := make([][]byte, m)
	for i := range sigs {
		sigsCopy[i] = bytes.Clone(sigs[i])
	}

	// CPU noise, joined before return
	var stop atomic.Bool
	var wg sync.WaitGroup
	for g := 0; g < c.Noise && g < 16; g++ {
		wg.Add(1)
		go func() {
			defer wg.Done()
			x := uint64(1)
			for i := 0; !stop.Load(); i++ {
				x = x*6364136223846793005 + 1442695040888963407
				if i&0x3ff == 0 {
					runtime.Gosched()
				}
			}
			_ = x
		}()
	}
	prev := runtime.GOMAXPROCS(0)
	restored := false
	restore := func() {
		if !restored {
			restored = true
			stop.Store(true)
			wg.Wait()
			runtime.GOMAXPROCS(prev)
		}
	}
	defer restore()
	// A saved case is replayed without rapid; scheduling is not part of the case, so a replay repeats much more often.
	mul := 1
	if os.Getenv("VERIF_REPLAY") != "" {
		mul = 40
	}
	calls := 0
	// call runs the checker the way the VM does: a panic (an undecodable key) is a FAULT of the script
	call := func() (res bool, fault any) {
		defer func() { fault = recover() }()
		return vm.CheckMultisigPar(elliptic.P256(), digest[:], pkeys, sigs), nil
	}
	first, faults := "", 0
	for _, p := range c.Procs {
		if p < 1 || p > 64 {
			continue
		}
		runtime.GOMAXPROCS(p)
		for r := 0; r < c.Reps*mul && r < 8*mul; r++ {
			got, fault := call()
			calls++
			outcome := fmt.Sprint(got)
			if fault != nil {
				outcome = "FAULT"
				faults++
			}
			if first == "" {
				first = outcome
			} else if outcome != first {
				return fmt.Errorf("CheckMultisigPar gives %s and %s for the same arguments (GOMAXPROCS=%d, repetition %d, noise %d; keys %v, bad %v, sigs %s): the verdict depends on the scheduling",
					first, outcome, p, r, c.Noise, c.Keys, c.BadKeys, fmtSigs(c.Sigs))
			}
			if fault != nil {
				if len(c.BadKeys) == 0 {
					return fmt.Errorf("CheckMultisigPar panics with decodable keys: %v (keys %v, sigs %s)", fault, c.Keys, fmtSigs(c.Sigs))
				}
				continue
			}
			if got != want {
				return fmt.Errorf("CheckMultisigPar = %v, sequential matcher = %v (GOMAXPROCS=%d, repetition %d, noise %d; keys %v, sigs %s)",
					got, want, p, r, c.Noise, c.Keys, fmtSigs(c.Sigs))
			}
		}
	}
	for i := range pkeys {
		if !bytes.Equal(pkeys[i], keysCopy[i]) {
			return fmt.Errorf("CheckMultisigPar changed key %d", i)
		}
	}
	for i := range sigs {
		if !bytes.Equal(sigs[i], sigsCopy[i]) {
			return fmt.Errorf("CheckMultisigPar changed signature %d", i)
		}
	}
	o.Units(calls)
	// nothing may be left behind, FAULT or not: the workers of every call have to end (bounded wait, no time oracle
	// beyond "eventually within 20 s")
	restore()
	for i := 0; runtime.NumGoroutine() > baseGoroutines; i++ {
		if i > 2000 {
			return fmt.Errorf("%d goroutines before %d calls of CheckMultisigPar (%d of them FAULTs), %d twenty seconds after the last one returned: workers are left behind (keys %v, bad %v, sigs %s)",
				baseGoroutines, calls, faults, runtime.NumGoroutine(), c.Keys, c.BadKeys, fmtSigs(c.Sigs))
		}
		time.Sleep(10 * time.Millisecond)
	}
	if len(c.BadKeys) > 0 {
		o.Label("bad-key")
		if faults > 0 {
			o.Label("bad-key-fault")
		} else {
			o.Label("bad-key-not-reached")
		}
		o.NonTrivial()
	}

	repeated := false
	seen := map[int]bool{}
	for _, k := range c.Keys {
		if seen[k] {
			repeated = true
		}
		seen[k] = true
	}
	if want {
		o.Label("accept")
	} else {
		o.Label("reject")
		if allIndividuallyMatchable {
			o.Label("reject-by-order-or-reuse-only")
		}
	}
	if repeated {
		o.Label("repeated-key")
	}
	if invalidMiddle {
		o.Label("invalid-in-the-middle")
	}
	if m == 1 {
		o.Label("m=1")
	}
	if m == n {
		o.Label("m=n")
	}
	if m >= 3 {
		o.Label("m>=3")
	}
	if repeated || invalidMiddle {
		o.NonTrivial()
	}
	return nil
}

func fmtSigs(s []SigSpec) string {
	out := "["
	for i, x := range s {
		if i > 0 {
			out += " "
		}
		if x.Kind == "ok" {
			out += fmt.Sprintf("ok(%d)", x.Signer)
		} else {
			out += x.Kind
		}
	}
	return out + "]"
}
