package c18

import (
	"testing"

	"verifharness/vt"
)

// Byte-level fuzz targets (thorough tier, `go test -fuzz`): each builds a Case from the fuzz input and calls the same
// pure check as the generated tier, so a crasher converts directly into a replayable Case.

func FuzzBigintFromBytes(f *testing.F) {
	for _, s := range [][]byte{{}, {0}, {0xff}, {0x80}, {0x7f, 0xff}, {0x80, 0x00}, {0, 0, 0, 0, 0, 0, 0, 0, 0x80}} {
		f.Add(s, false, 0)
	}
	f.Fuzz(func(t *testing.T, raw []byte, neg bool, pad int) {
		if len(raw) > 64 {
			raw = raw[:64]
		}
		c := BigintCase{Mag: vt.Bytes(raw), Neg: neg, Pad: ((pad % 41) + 41) % 41, Raw: vt.Bytes(append([]byte{}, raw...)), BufCap: len(raw), BufLen: len(raw) / 2}
		if err := checkBigintCase(c, &vt.Obs{}); err != nil {
			t.Fatal(err)
		}
	})
}

func FuzzPublicKeyDecode(f *testing.F) {
	f.Add([]byte{0}, false)
	f.Add(append([]byte{2}, make([]byte, 32)...), true)
	f.Add(append([]byte{4}, make([]byte, 64)...), false)
	f.Fuzz(func(t *testing.T, raw []byte, k1 bool) {
		if len(raw) > 80 {
			raw = raw[:80]
		}
		c := PubCase{Curve: curveR1, Key: make([]byte, 32), Raw: vt.Bytes(raw)}
		if k1 {
			c.Curve = curveK1
		}
		if err := checkPubCase(c, &vt.Obs{}); err != nil {
			t.Fatal(err)
		}
	})
}

func FuzzBase58Check(f *testing.F) {
	f.Add([]byte{0, 0, 1}, 3, 5)
	f.Add([]byte{0x35}, 0, 1)
	f.Fuzz(func(t *testing.T, data []byte, pos, sub int) {
		if len(data) > 128 {
			data = data[:128]
		}
		abs := func(x int) int {
			if x < 0 {
				x = -(x + 1)
			}
			return x
		}
		c := Base58Case{Data: vt.Bytes(data), Pos: abs(pos), Sub: 1 + abs(sub)%57, Junk: "0"}
		if err := checkBase58Case(c, &vt.Obs{}); err != nil {
			t.Fatal(err)
		}
	})
}

func FuzzDecimal(f *testing.F) {
	f.Add("-12345", 3, "0.5", 8)
	f.Add("0", 0, "-0.5", 8)
	f.Fuzz(func(t *testing.T, v string, prec int, in string, inPrec int) {
		if prec < 0 || prec > 40 || inPrec < 0 || inPrec > 40 || len(v) > 90 || len(in) > 90 {
			t.Skip()
		}
		if _, ok := refDecParse(v, 0); !ok {
			t.Skip()
		}
		if !decRe.MatchString(in) { // outside of the documented grammar nothing is asserted
			in = "0"
		}
		if vt.Known(kfFracOver64) && prec > 19 {
			prec = 19
		}
		if err := checkDecimalCase(DecimalCase{V: v, Prec: prec, In: in, InPrec: inPrec}, &vt.Obs{}); err != nil {
			t.Fatal(err)
		}
	})
}
