package c18

import (
	"bytes"
	"crypto/aes"
	"encoding/hex"
	"encoding/json"
	"fmt"
	"math/big"
	"sort"
	"strings"

	"github.com/nspcc-dev/neo-go/pkg/crypto/keys"
	"github.com/nspcc-dev/neo-go/pkg/io"
	"golang.org/x/crypto/scrypt"
	"golang.org/x/text/unicode/norm"
	"pgregory.net/rapid"
	"verifharness/vt"
)

// ---- public key codec -------------------------------------------------------------------------------------

// PubCase: round trips of the public key of Key, then one hostile encoding Raw that must be accepted exactly when
// SEC1 says it is a valid finite point of the curve.
type PubCase struct {
	Curve string     `json:"curve"`
	Key   vt.Bytes   `json:"key"`
	Raw   vt.Bytes   `json:"raw"`
	More  []vt.Bytes `json:"more"` // further key seeds for the list laws (Cmp, sort, Unique, list codec)
}

func genPubCase(t *rapid.T) PubCase {
	c := PubCase{Curve: genCurve(t)}
	c.Key = genKeySeed(t, c.Curve, "key")
	p := curveOf(c.Curve).Params().P
	d := scalarOf(c.Curve, c.Key)
	x, y := curveOf(c.Curve).ScalarBaseMult(d.FillBytes(make([]byte, 32)))
	xb, yb := x.FillBytes(make([]byte, 32)), y.FillBytes(make([]byte, 32))
	cat := func(prefix byte, parts ...[]byte) vt.Bytes {
		r := vt.Bytes{prefix}
		for _, p := range parts {
			r = append(r, p...)
		}
		return r
	}
	switch rapid.IntRange(0, 11).Draw(t, "rawkind") {
	case 0: // infinity
		c.Raw = vt.Bytes{0}
	case 1: // bad prefix on an otherwise valid encoding
		pf := rapid.SampledFrom([]byte{1, 5, 6, 7, 0x80, 0xff}).Draw(t, "pfx")
		if rapid.Bool().Draw(t, "pfxlong") {
			c.Raw = cat(pf, xb, yb)
		} else {
			c.Raw = cat(pf, xb)
		}
	case 2: // uncompressed, one bit of Y or X flipped => off curve
		raw := cat(4, xb, yb)
		c.Raw = flipBit(raw[1:], rapid.IntRange(0, 511).Draw(t, "bit"))
		c.Raw = append(vt.Bytes{4}, c.Raw...)
	case 3: // compressed with an arbitrary X: about half have no square root
		c.Raw = cat(byte(2+rapid.IntRange(0, 1).Draw(t, "par")), rapid.SliceOfN(rapid.Byte(), 32, 32).Draw(t, "x"))
	case 4: // compressed X just around the field prime (X >= P must be rejected even if X mod P is on the curve)
		off := int64(rapid.IntRange(-3, 40).Draw(t, "off"))
		xx := new(big.Int).Add(p, big.NewInt(off))
		c.Raw = cat(byte(2+rapid.IntRange(0, 1).Draw(t, "par")), xx.FillBytes(make([]byte, 32)))
	case 5: // uncompressed with X+P or Y+P (same residue, not canonical) when it still fits 32 bytes, else Y := P-Y-ish garbage
		xx := new(big.Int).Add(x, p)
		yy := new(big.Int).Add(y, p)
		if xx.BitLen() <= 256 && rapid.Bool().Draw(t, "which") {
			c.Raw = cat(4, xx.FillBytes(make([]byte, 32)), yb)
		} else if yy.BitLen() <= 256 {
			c.Raw = cat(4, xb, yy.FillBytes(make([]byte, 32)))
		} else {
			c.Raw = cat(4, xb, new(big.Int).Sub(p, y).FillBytes(make([]byte, 32))) // the negated point: valid
		}
	case 6: // truncated / extended
		full := cat(byte(2+y.Bit(0)), xb)
		if rapid.Bool().Draw(t, "unc") {
			full = cat(4, xb, yb)
		}
		n := rapid.IntRange(0, len(full)+2).Draw(t, "len")
		for len(full) < n {
			full = append(full, 0)
		}
		c.Raw = full[:n]
	case 7: // compressed with the other parity: valid, decodes to the negated point
		c.Raw = cat(byte(3-y.Bit(0)), xb)
	case 8: // small X values
		c.Raw = cat(byte(2+rapid.IntRange(0, 1).Draw(t, "par")), big.NewInt(int64(rapid.IntRange(0, 20).Draw(t, "sx"))).FillBytes(make([]byte, 32)))
	default: // valid encodings
		if rapid.Bool().Draw(t, "unc") {
			c.Raw = cat(4, xb, yb)
		} else {
			c.Raw = cat(byte(2+y.Bit(0)), xb)
		}
	}
	nm := rapid.IntRange(0, 5).Draw(t, "nmore")
	for i := 0; i < nm; i++ {
		if rapid.IntRange(0, 2).Draw(t, "dup") == 0 {
			c.More = append(c.More, c.Key)
		} else {
			c.More = append(c.More, genKeySeed(t, c.Curve, "more"))
		}
	}
	return c
}

// refDecodePoint is the SEC1 2.3.4 octet-string-to-point conversion restricted to finite points, written with math/big.
// ok=false means "must be rejected".
func refDecodePoint(curve string, raw []byte) (x, y *big.Int, ok bool) {
	p := curveOf(curve).Params().P
	if len(raw) == 0 {
		return nil, nil, false
	}
	switch raw[0] {
	case 2, 3:
		if len(raw) != 33 {
			return nil, nil, false
		}
		x = new(big.Int).SetBytes(raw[1:])
		if x.Cmp(p) >= 0 {
			return nil, nil, false
		}
		y = new(big.Int).ModSqrt(rhs(curve, x), p)
		if y == nil {
			return nil, nil, false
		}
		if y.Bit(0) != uint(raw[0]&1) {
			y.Sub(p, y)
		}
		if y.Bit(0) != uint(raw[0]&1) { // y == 0 with odd parity requested
			return nil, nil, false
		}
		return x, y, true
	case 4:
		if len(raw) != 65 {
			return nil, nil, false
		}
		x = new(big.Int).SetBytes(raw[1:33])
		y = new(big.Int).SetBytes(raw[33:])
		return x, y, onCurve(curve, x, y)
	}
	return nil, nil, false
}

func checkPubCase(c PubCase, o *vt.Obs) error {
	cv := curveOf(c.Curve)
	d := scalarOf(c.Curve, c.Key)
	priv, err := privOf(c.Curve, d)
	if err != nil {
		return fmt.Errorf("key construction: %v", err)
	}
	pub := priv.PublicKey()
	// the public key is d*G by an independent path (crypto/elliptic resp. decred) and lies on the curve
	ex, ey := cv.ScalarBaseMult(d.FillBytes(make([]byte, 32)))
	if pub.X.Cmp(ex) != 0 || pub.Y.Cmp(ey) != 0 || !onCurve(c.Curve, pub.X, pub.Y) {
		return fmt.Errorf("public key of %x is (%x,%x), want (%x,%x)", d, pub.X, pub.Y, ex, ey)
	}
	xb, yb := ex.FillBytes(make([]byte, 32)), ey.FillBytes(make([]byte, 32))
	wantC := append([]byte{byte(2 + ey.Bit(0))}, xb...)
	wantU := append(append([]byte{4}, xb...), yb...)
	if err := eqBytes("Bytes()", pub.Bytes(), wantC); err != nil {
		return err
	}
	if err := eqBytes("UncompressedBytes()", pub.UncompressedBytes(), wantU); err != nil {
		return err
	}
	same := func(what string, k *keys.PublicKey, err error) error {
		if err != nil {
			return fmt.Errorf("%s: %v", what, err)
		}
		if k.X.Cmp(ex) != 0 || k.Y.Cmp(ey) != 0 {
			return fmt.Errorf("%s gives (%x,%x), want (%x,%x)", what, k.X, k.Y, ex, ey)
		}
		if !k.Equal(pub) || k.Cmp(pub) != 0 {
			return fmt.Errorf("%s: decoded key not Equal to the original", what)
		}
		return nil
	}
	k, err := keys.NewPublicKeyFromBytes(wantC, cv)
	if err := same("NewPublicKeyFromBytes(compressed)", k, err); err != nil {
		return err
	}
	k, err = keys.NewPublicKeyFromBytes(wantU, cv)
	if err := same("NewPublicKeyFromBytes(uncompressed)", k, err); err != nil {
		return err
	}
	// DecodeBytes on a fresh object bypasses the key cache
	k = &keys.PublicKey{Curve: cv}
	if err := same("DecodeBytes(compressed)", k, k.DecodeBytes(wantC)); err != nil {
		return err
	}
	k = &keys.PublicKey{Curve: cv}
	if err := same("DecodeBytes(uncompressed)", k, k.DecodeBytes(wantU)); err != nil {
		return err
	}
	if s := pub.StringCompressed(); s != hex.EncodeToString(wantC) {
		return fmt.Errorf("StringCompressed() = %s, want %x", s, wantC)
	}
	// binary (io.Serializable) round trip, followed by a sentinel byte that must stay unread
	w := io.NewBufBinWriter()
	pub.EncodeBinary(w.BinWriter)
	w.WriteB(0xa5)
	if w.Err != nil {
		return fmt.Errorf("EncodeBinary: %v", w.Err)
	}
	wb := w.Bytes() // drains the writer: call once
	if err := eqBytes("EncodeBinary", wb, append(bytes.Clone(wantC), 0xa5)); err != nil {
		return err
	}
	r := io.NewBinReaderFromBuf(wb)
	k = &keys.PublicKey{Curve: cv}
	k.DecodeBinary(r)
	if err := same("DecodeBinary", k, r.Err); err != nil {
		return err
	}
	if r.ReadB() != 0xa5 || r.Err != nil {
		return fmt.Errorf("DecodeBinary consumed a wrong number of bytes")
	}
	// JSON
	js, err := json.Marshal(pub)
	if err != nil {
		return fmt.Errorf("MarshalJSON: %v", err)
	}
	if string(js) != `"`+hex.EncodeToString(wantC)+`"` {
		return fmt.Errorf("MarshalJSON = %s, want quoted %x", js, wantC)
	}
	k = &keys.PublicKey{Curve: cv}
	if err := same("UnmarshalJSON(MarshalJSON)", k, json.Unmarshal(js, k)); err != nil {
		return err
	}
	if c.Curve == curveR1 {
		k, err = keys.NewPublicKeyFromString(hex.EncodeToString(wantC))
		if err := same("NewPublicKeyFromString(StringCompressed)", k, err); err != nil {
			return err
		}
		k = new(keys.PublicKey) // documented default curve: secp256r1
		if err := same("UnmarshalJSON on a zero key", k, json.Unmarshal(js, k)); err != nil {
			return err
		}
	}
	o.Units(9)

	// hostile encoding
	wx, wy, wok := refDecodePoint(c.Curve, c.Raw)
	for pass := 0; pass < 2; pass++ { // second pass goes through the key cache for accepted encodings
		k, err = keys.NewPublicKeyFromBytes(c.Raw, cv)
		switch {
		case wok && err != nil:
			return fmt.Errorf("valid encoding %x rejected: %v", c.Raw, err)
		case !wok && err == nil:
			return fmt.Errorf("invalid encoding %x accepted as (%x,%x)", c.Raw, k.X, k.Y)
		case wok && (k.X.Cmp(wx) != 0 || k.Y.Cmp(wy) != 0):
			return fmt.Errorf("encoding %x decodes to (%x,%x), want (%x,%x)", c.Raw, k.X, k.Y, wx, wy)
		}
	}
	if wok {
		// canonical re-encoding of what was decoded
		want := append([]byte{byte(2 + wy.Bit(0))}, wx.FillBytes(make([]byte, 32))...)
		if err := eqBytes("re-encoding of decoded Raw", k.Bytes(), want); err != nil {
			return err
		}
		o.Label("raw-accepted")
	} else {
		o.Label("raw-rejected")
		// a rejected JSON / binary form as well
		kk := &keys.PublicKey{Curve: cv}
		if json.Unmarshal([]byte(`"`+hex.EncodeToString(c.Raw)+`"`), kk) == nil {
			return fmt.Errorf("UnmarshalJSON accepts invalid encoding %x", c.Raw)
		}
	}

	// list laws
	if len(c.More) > 0 {
		var list keys.PublicKeys
		var ref [][2]*big.Int
		for _, seed := range append([]vt.Bytes{c.Key}, c.More...) {
			dd := scalarOf(c.Curve, seed)
			pk, err := privOf(c.Curve, dd)
			if err != nil {
				return err
			}
			list = append(list, pk.PublicKey())
			x, y := cv.ScalarBaseMult(dd.FillBytes(make([]byte, 32)))
			ref = append(ref, [2]*big.Int{x, y})
		}
		cmp := func(a, b [2]*big.Int) int {
			if r := a[0].Cmp(b[0]); r != 0 {
				return r
			}
			return a[1].Cmp(b[1])
		}
		for i := range list {
			for j := range list {
				if got, want := list[i].Cmp(list[j]), cmp(ref[i], ref[j]); got != want {
					return fmt.Errorf("Cmp(key %d, key %d) = %d, want %d (order by X then Y)", i, j, got, want)
				}
			}
		}
		// Unique: first occurrences, in order
		var wantU [][2]*big.Int
		for _, e := range ref {
			dup := false
			for _, u := range wantU {
				if cmp(e, u) == 0 {
					dup = true
				}
			}
			if !dup {
				wantU = append(wantU, e)
			}
		}
		gotU := list.Unique()
		if len(gotU) != len(wantU) {
			return fmt.Errorf("Unique() returns %d keys, want %d", len(gotU), len(wantU))
		}
		for i := range gotU {
			if gotU[i].X.Cmp(wantU[i][0]) != 0 || gotU[i].Y.Cmp(wantU[i][1]) != 0 {
				return fmt.Errorf("Unique()[%d] is not the %d-th distinct key in order of first occurrence", i, i)
			}
		}
		if len(gotU) < len(list) {
			o.Label("list-with-duplicates")
		}
		sorted := list.Copy()
		sort.Sort(sorted)
		sort.Slice(ref, func(i, j int) bool { return cmp(ref[i], ref[j]) < 0 })
		for i := range sorted {
			if sorted[i].X.Cmp(ref[i][0]) != 0 || sorted[i].Y.Cmp(ref[i][1]) != 0 {
				return fmt.Errorf("sort.Sort(PublicKeys): position %d differs from the (X,Y)-sorted reference", i)
			}
		}
		if c.Curve == curveR1 { // the list codec decodes with the default curve
			enc := list.Bytes()
			var back keys.PublicKeys
			if err := back.DecodeBytes(enc); err != nil {
				return fmt.Errorf("PublicKeys.DecodeBytes(Bytes()): %v", err)
			}
			if len(back) != len(list) {
				return fmt.Errorf("PublicKeys round trip: %d keys, want %d", len(back), len(list))
			}
			for i := range back {
				if !back[i].Equal(list[i]) {
					return fmt.Errorf("PublicKeys round trip: key %d differs", i)
				}
			}
			var strs []string
			for _, k := range list {
				strs = append(strs, k.StringCompressed())
			}
			fromS, err := keys.NewPublicKeysFromStrings(strs)
			if err != nil || len(fromS) != len(list) {
				return fmt.Errorf("NewPublicKeysFromStrings: %v (%d keys)", err, len(fromS))
			}
			for i := range fromS {
				if !fromS[i].Equal(list[i]) {
					return fmt.Errorf("NewPublicKeysFromStrings: key %d differs", i)
				}
			}
		}
		o.Units(len(list))
	}
	o.Label(c.Curve)
	if xb[0] == 0 || yb[0] == 0 {
		o.Label("coordinate-with-leading-zero")
	}
	o.NonTrivial()
	return nil
}

// ---- WIF ---------------------------------------------------------------------------------------------------------

// WIFCase: encode Key with Version/Compressed, decode, tamper.
type WIFCase struct {
	Key        vt.Bytes `json:"key"`
	Version    byte     `json:"version"`
	Compressed bool     `json:"compressed"`
	Other      byte     `json:"other_version"`
	Pos        int      `json:"pos"` // character to replace
	Sub        int      `json:"sub"` // by which alphabet character (relative)
}

func genWIFCase(t *rapid.T) WIFCase {
	return WIFCase{
		Key:        genKeySeed(t, curveR1, "key"),
		Version:    rapid.SampledFrom([]byte{0x80, 0x80, 0x80, 0x00, 0x01, 0xef, 0xff}).Draw(t, "version"),
		Compressed: rapid.IntRange(0, 3).Draw(t, "compressed") != 0,
		Other:      rapid.SampledFrom([]byte{0x80, 0x81, 0x7f, 0x01}).Draw(t, "other"),
		Pos:        rapid.IntRange(0, 60).Draw(t, "pos"),
		Sub:        rapid.IntRange(1, 57).Draw(t, "sub"),
	}
}

func checkWIFCase(c WIFCase, o *vt.Obs) error {
	d := scalarOf(curveR1, c.Key)
	kb := d.FillBytes(make([]byte, 32))
	eff := c.Version
	if eff == 0 {
		eff = keys.WIFVersion // documented: "Default to 0x80"
	}
	payload := append([]byte{eff}, kb...)
	if c.Compressed {
		payload = append(payload, 1)
	}
	want := refBase58Check(payload)
	s, err := keys.WIFEncode(bytes.Clone(kb), c.Version, c.Compressed)
	if err != nil {
		return fmt.Errorf("WIFEncode: %v", err)
	}
	if s != want {
		return fmt.Errorf("WIFEncode = %s, want %s", s, want)
	}
	w, err := keys.WIFDecode(s, c.Version)
	if err != nil {
		return fmt.Errorf("WIFDecode(WIFEncode): %v", err)
	}
	if !bytes.Equal(w.PrivateKey.Bytes(), kb) || w.PrivateKey.D.Cmp(d) != 0 {
		return fmt.Errorf("WIF round trip gives key %x, want %x", w.PrivateKey.Bytes(), kb)
	}
	if w.Compressed != c.Compressed || w.Version != eff || w.S != s {
		return fmt.Errorf("WIF round trip gives compressed=%v version=%#x S=%s, want %v %#x %s", w.Compressed, w.Version, w.S, c.Compressed, eff, s)
	}
	ex, ey := curveOf(curveR1).ScalarBaseMult(kb)
	if w.PrivateKey.X.Cmp(ex) != 0 || w.PrivateKey.Y.Cmp(ey) != 0 {
		return fmt.Errorf("decoded WIF key carries a wrong public key")
	}
	if c.Other != eff {
		if _, err := keys.WIFDecode(s, c.Other); err == nil {
			return fmt.Errorf("WIF of version %#x decodes under version %#x", eff, c.Other)
		}
	}
	// key object flavour: always version 0x80, compressed
	priv, err := keys.NewPrivateKeyFromBytes(bytes.Clone(kb))
	if err != nil {
		return err
	}
	ws := priv.WIF()
	if wantS := refBase58Check(append(append([]byte{0x80}, kb...), 1)); ws != wantS {
		return fmt.Errorf("PrivateKey.WIF() = %s, want %s", ws, wantS)
	}
	back, err := keys.NewPrivateKeyFromWIF(ws)
	if err != nil || back.D.Cmp(d) != 0 {
		return fmt.Errorf("NewPrivateKeyFromWIF(WIF()) = %v, %v; want %x", back, err, d)
	}
	if priv.D.Cmp(d) != 0 || !bytes.Equal(priv.Bytes(), kb) {
		return fmt.Errorf("WIF() damaged the key")
	}
	hx, err := keys.NewPrivateKeyFromHex(priv.String())
	if err != nil || hx.D.Cmp(d) != 0 {
		return fmt.Errorf("NewPrivateKeyFromHex(String()) = %v, %v; want %x", hx, err, d)
	}
	// tampering: one character replaced by another alphabet character
	pos := c.Pos % len(s)
	idx := strings.IndexByte(b58Alphabet, s[pos])
	alt := s[:pos] + string(b58Alphabet[(idx+c.Sub)%58]) + s[pos+1:]
	if _, err := keys.WIFDecode(alt, c.Version); err == nil {
		return fmt.Errorf("tampered WIF %s (from %s) accepted", alt, s)
	}
	// wrong key length is an error
	if _, err := keys.WIFEncode(kb[:31], c.Version, c.Compressed); err == nil {
		return fmt.Errorf("WIFEncode accepts a 31-byte key")
	}
	// compression flag other than 1
	bad := refBase58Check(append(append([]byte{eff}, kb...), 2))
	if _, err := keys.WIFDecode(bad, c.Version); err == nil {
		return fmt.Errorf("WIF with compression flag 2 accepted")
	}
	o.Labelf("compressed=%v", c.Compressed)
	if kb[0] == 0 {
		o.Label("key-with-leading-zero")
	}
	o.NonTrivial()
	o.Units(8)
	return nil
}

// ---- NEP-2 --------------------------------------------------------------------------------------------------------

// NEP2Case: encrypt Key under Pass, decrypt with Pass, with an NFC-equivalent spelling and with wrong inputs.
type NEP2Case struct {
	Key   vt.Bytes `json:"key"`
	Pass  string   `json:"pass"`
	Wrong string   `json:"wrong"`
	N     int      `json:"n"`
	R     int      `json:"r"`
	P     int      `json:"p"`
	Pos   int      `json:"pos"`
	Sub   int      `json:"sub"`
}

var passAtoms = []string{"a", "B", "1", " ", "\u00e9", "e\u0301", "\u00c5", "A\u030a", "\u212b", "\u043f\u0430\u0440\u043e\u043b\u044c", "\u5bc6", "\U0001f511", "x", "Satoshi"}

func genPass(t *rapid.T, label string) string {
	n := rapid.IntRange(0, 5).Draw(t, label+"_n")
	var sb strings.Builder
	for i := 0; i < n; i++ {
		sb.WriteString(rapid.SampledFrom(passAtoms).Draw(t, label+"_a"))
	}
	return sb.String()
}

func genNEP2Case(t *rapid.T) NEP2Case {
	c := NEP2Case{Key: genKeySeed(t, curveR1, "key"), Pass: genPass(t, "pass"), Wrong: genPass(t, "wrong")}
	c.N = rapid.SampledFrom([]int{2, 4, 16}).Draw(t, "N")
	c.R = rapid.SampledFrom([]int{1, 2}).Draw(t, "R")
	c.P = rapid.SampledFrom([]int{1, 2}).Draw(t, "P")
	c.Pos = rapid.IntRange(0, 57).Draw(t, "pos")
	c.Sub = rapid.IntRange(1, 57).Draw(t, "sub")
	return c
}

func genNEP2DefaultCase(t *rapid.T) NEP2Case {
	c := genNEP2Case(t)
	sp := keys.NEP2ScryptParams()
	c.N, c.R, c.P = sp.N, sp.R, sp.P
	return c
}

// refNEP2 is NEP-2 (non-EC-multiply mode) written from the standard.
func refNEP2(kb []byte, address, pass string, n, r, p int) (string, error) {
	ah := sha256d([]byte(address))
	dk, err := scrypt.Key(norm.NFC.Bytes([]byte(pass)), ah[:4], n, r, p, 64)
	if err != nil {
		return "", err
	}
	x := make([]byte, 32)
	for i := range x {
		x[i] = kb[i] ^ dk[i]
	}
	blk, err := aes.NewCipher(dk[32:])
	if err != nil {
		return "", err
	}
	enc := make([]byte, 32)
	blk.Encrypt(enc[:16], x[:16])
	blk.Encrypt(enc[16:], x[16:])
	out := append([]byte{0x01, 0x42, 0xe0}, ah[:4]...)
	return refBase58Check(append(out, enc...)), nil
}

func checkNEP2Case(c NEP2Case, o *vt.Obs) error {
	d := scalarOf(curveR1, c.Key)
	kb := d.FillBytes(make([]byte, 32))
	priv, err := keys.NewPrivateKeyFromBytes(bytes.Clone(kb))
	if err != nil {
		return err
	}
	sp := keys.ScryptParams{N: c.N, R: c.R, P: c.P}
	enc, err := keys.NEP2Encrypt(priv, c.Pass, sp)
	if err != nil {
		return fmt.Errorf("NEP2Encrypt: %v", err)
	}
	if len(enc) != 58 || !strings.HasPrefix(enc, "6P") {
		return fmt.Errorf("NEP2Encrypt gives %q: not a 58-character 6P... string", enc)
	}
	want, err := refNEP2(kb, priv.Address(), c.Pass, c.N, c.R, c.P)
	if err != nil {
		return fmt.Errorf("reference NEP-2: %v", err)
	}
	if enc != want {
		return fmt.Errorf("NEP2Encrypt = %s, the standard gives %s", enc, want)
	}
	if priv.D.Cmp(d) != 0 {
		return fmt.Errorf("NEP2Encrypt damaged the key")
	}
	back, err := keys.NEP2Decrypt(enc, c.Pass, sp)
	if err != nil {
		return fmt.Errorf("NEP2Decrypt with the right passphrase: %v", err)
	}
	if back.D.Cmp(d) != 0 || !bytes.Equal(back.Bytes(), kb) {
		return fmt.Errorf("NEP-2 round trip gives key %x, want %x", back.Bytes(), kb)
	}
	// canonically equivalent spelling of the same passphrase (NEP-2: passphrases are NFC-normalised)
	if alt := norm.NFD.String(c.Pass); alt != c.Pass {
		b2, err := keys.NEP2Decrypt(enc, alt, sp)
		if err != nil || b2.D.Cmp(d) != 0 {
			return fmt.Errorf("NEP2Decrypt with the NFD spelling of the passphrase fails: %v", err)
		}
		o.Label("nfd-spelling")
	}
	// wrong passphrase
	if norm.NFC.String(c.Wrong) != norm.NFC.String(c.Pass) {
		if k, err := keys.NEP2Decrypt(enc, c.Wrong, sp); err == nil {
			return fmt.Errorf("NEP2Decrypt with wrong passphrase %q (right one %q) returns key %x", c.Wrong, c.Pass, k.Bytes())
		}
		o.Label("wrong-pass")
	}
	if k, err := keys.NEP2Decrypt(enc, c.Pass+"x", sp); err == nil {
		return fmt.Errorf("NEP2Decrypt with passphrase+\"x\" returns key %x", k.Bytes())
	}
	// wrong KDF cost
	if c.N < 1024 {
		if k, err := keys.NEP2Decrypt(enc, c.Pass, keys.ScryptParams{N: c.N * 2, R: c.R, P: c.P}); err == nil {
			return fmt.Errorf("NEP2Decrypt with other scrypt parameters returns key %x", k.Bytes())
		}
		// tampered string
		pos := c.Pos % len(enc)
		idx := strings.IndexByte(b58Alphabet, enc[pos])
		alt := enc[:pos] + string(b58Alphabet[(idx+c.Sub)%58]) + enc[pos+1:]
		if _, err := keys.NEP2Decrypt(alt, c.Pass, sp); err == nil {
			return fmt.Errorf("tampered NEP-2 string %s accepted", alt)
		}
	}
	if c.N >= 1024 {
		o.Label("default-scrypt")
	} else {
		o.Label("light-scrypt")
	}
	if c.Pass == "" {
		o.Label("empty-pass")
	}
	o.NonTrivial()
	o.Units(5)
	return nil
}
