// Package c18 checks property C18: keys, signatures, addresses and number encodings obey their algebra.
//
// One vt.Register'd check per law; every check is generator -> JSON Case -> pure check.
// Oracles are written here from the specifications (RFC 6979, SEC1, Base58Check, two's complement,
// NEP-2, Neo's Merkle tree) and use only the Go standard library, golang.org/x/crypto and, for the
// secp256k1 curve arithmetic, github.com/decred/dcrd/dcrec/secp256k1 (a dependency of the code under test
// that is not part of it).
package c18

import (
	"bytes"
	"crypto/ecdsa"
	"crypto/elliptic"
	"crypto/sha256"
	"fmt"
	"math/big"

	"github.com/decred/dcrd/dcrec/secp256k1/v4"
	"github.com/nspcc-dev/neo-go/pkg/crypto/keys"
	"pgregory.net/rapid"
	"verifharness/vt"
)

// Known-finding keys (see known_findings.json). A listed key makes the generator/check skip exactly that shape.
const (
	kfNegFraction   = "fixedn-negative-fraction-sign"     // -1 < value < 0 loses its sign in ToString/FromString/Fixed8FromString
	kfFixed8Min     = "fixed8-minint64-string"            // Fixed8(MinInt64).String() == "--92233720368"
	kfFracOver64    = "fixedn-tostring-fraction-over-64b" // ToString prints a wrong fraction when it needs more than 64 bits (precision >= 20)
	kfSigMalleable  = "signature-malleability-high-s"     // (r, N-s) verifies whenever (r, s) does: no low-S rule
	kfAddressLength = "address-decode-length"             // StringToUint160 panics on / accepts Base58Check payloads whose length is not 21
	// the scalar 0 is accepted as a private key (an existing test requires it)
	kfZeroScalar = "private-key-zero-scalar-accepted"
	// NewPublicKeyFromBytes hands out its cache entry (an existing test requires the same pointer)
	kfPubCache = "public-key-cache-entry-handed-out"
	// CreateMultiSigRedeemScript limits m, not the number of keys (an existing test builds its input that way)
	kfMultisigKeyLimit = "multisig-builder-limits-m-not-key-count"
)

func init() {
	vt.PropertyID = "C18"
	// crypto laws (0.2-8 ms per case; nep2_default ~2 s per case: scrypt with the NEP-2 cost parameters, six times)
	vt.Register("sign_verify", 0.30, genSigCase, checkSigCase)
	vt.Register("rfc6979", 0.15, genDetCase, checkDetCase)
	vt.Register("pubkey_codec", 0.20, genPubCase, checkPubCase)
	vt.Register("wif", 0.10, genWIFCase, checkWIFCase)
	vt.Register("nep2", 0.10, genNEP2Case, checkNEP2Case)
	vt.Register("nep2_default", 0.0003, genNEP2DefaultCase, checkNEP2Case)
	vt.Register("multisig_par", 0.15, genMultisigCase, checkMultisigCase)
	vt.Register("script_builders", 0.10, genScriptCase, checkScriptCase)
	// codec laws (15-90 us per case)
	vt.Register("address", 2.0, genAddressCase, checkAddressCase)
	vt.Register("base58", 4.0, genBase58Case, checkBase58Case)
	vt.Register("uint160_256", 2.0, genUintCase, checkUintCase)
	vt.Register("fixed8", 5.0, genFixed8Case, checkFixed8Case)
	vt.Register("decimal", 5.0, genDecimalCase, checkDecimalCase)
	vt.Register("bigint", 10.0, genBigintCase, checkBigintCase)
	vt.Register("emit_int", 3.0, genEmitIntCase, checkEmitIntCase)
	vt.Register("emit_any", 1.5, genEmitAnyCase, checkEmitAnyCase)
	vt.Register("merkle", 1.0, genMerkleCase, checkMerkleCase)
}

// ---- curves and keys ---------------------------------------------------------------------------------

const (
	curveR1 = "r1" // secp256r1 = NIST P-256, Neo's native curve
	curveK1 = "k1" // secp256k1 (Koblitz), reachable through CryptoLib.verifyWithECDsa
)

func curveOf(name string) elliptic.Curve {
	if name == curveK1 {
		return secp256k1.S256()
	}
	return elliptic.P256()
}

// curveA returns the coefficient a of y^2 = x^3 + a*x + b.
func curveA(name string) *big.Int {
	if name == curveK1 {
		return big.NewInt(0)
	}
	return big.NewInt(-3)
}

// onCurve is an independent curve-membership predicate (math/big only).
func onCurve(name string, x, y *big.Int) bool {
	p := curveOf(name).Params()
	if x.Sign() < 0 || y.Sign() < 0 || x.Cmp(p.P) >= 0 || y.Cmp(p.P) >= 0 {
		return false
	}
	return new(big.Int).Exp(y, big.NewInt(2), p.P).Cmp(rhs(name, x)) == 0
}

// rhs computes x^3 + a*x + b mod p.
func rhs(name string, x *big.Int) *big.Int {
	p := curveOf(name).Params()
	r := new(big.Int).Exp(x, big.NewInt(3), p.P)
	r.Add(r, new(big.Int).Mul(curveA(name), x))
	r.Add(r, p.B)
	return r.Mod(r, p.P)
}

// scalarOf maps 32 arbitrary bytes to a valid private scalar in [1, N-1] (total, so that shrunk cases stay valid).
func scalarOf(curve string, seed []byte) *big.Int {
	n := curveOf(curve).Params().N
	d := new(big.Int).SetBytes(seed)
	d.Mod(d, new(big.Int).Sub(n, big.NewInt(1)))
	return d.Add(d, big.NewInt(1))
}

// privOf builds the key object of the code under test for a scalar. For P-256 the public constructor is used;
// there is no deterministic constructor for secp256k1 keys, so the exported struct is filled directly
// (this is what NewSecp256k1PrivateKey produces, with a chosen scalar instead of a random one).
func privOf(curve string, d *big.Int) (*keys.PrivateKey, error) {
	b := make([]byte, 32)
	d.FillBytes(b)
	if curve == curveR1 {
		return keys.NewPrivateKeyFromBytes(b)
	}
	c := curveOf(curve)
	x, y := c.ScalarBaseMult(b)
	return &keys.PrivateKey{PrivateKey: ecdsa.PrivateKey{PublicKey: ecdsa.PublicKey{Curve: c, X: x, Y: y}, D: new(big.Int).Set(d)}}, nil
}

// edgeScalars are small / extreme scalars plus the first scalars whose public key has a leading zero byte in X or in Y
// (fixed-width encoders are wrong exactly there).
var edgeScalars = map[string][]*big.Int{}

func init() {
	for _, cn := range []string{curveR1, curveK1} {
		c := curveOf(cn)
		n := c.Params().N
		l := []*big.Int{big.NewInt(1), big.NewInt(2), new(big.Int).Sub(n, big.NewInt(1)), new(big.Int).Sub(n, big.NewInt(2))}
		lim := new(big.Int).Lsh(big.NewInt(1), 248)
		var gotX, gotY bool
		for i := int64(3); i < 3000 && !(gotX && gotY); i++ {
			k := big.NewInt(i)
			b := make([]byte, 32)
			k.FillBytes(b)
			x, y := c.ScalarBaseMult(b)
			if !gotX && x.Cmp(lim) < 0 {
				gotX = true
				l = append(l, k)
			} else if !gotY && y.Cmp(lim) < 0 {
				gotY = true
				l = append(l, k)
			}
		}
		edgeScalars[cn] = l
	}
}

// genKeySeed draws 32 bytes that scalarOf turns into a private scalar; one time in five it is an edge scalar.
func genKeySeed(t *rapid.T, curve, label string) vt.Bytes {
	if rapid.IntRange(0, 4).Draw(t, label+"_edge") == 0 {
		es := edgeScalars[curve]
		d := es[rapid.IntRange(0, len(es)-1).Draw(t, label+"_which")]
		// invert scalarOf: seed = d-1
		b := make([]byte, 32)
		new(big.Int).Sub(d, big.NewInt(1)).FillBytes(b)
		return b
	}
	return rapid.SliceOfN(rapid.Byte(), 32, 32).Draw(t, label)
}

func genCurve(t *rapid.T) string {
	return rapid.SampledFrom([]string{curveR1, curveR1, curveR1, curveK1}).Draw(t, "curve")
}

var msgAlphabet = []byte{0x00, 0x01, 0x7f, 0x80, 0xff, 'a'}

func genMsg(t *rapid.T, label string) vt.Bytes {
	if rapid.IntRange(0, 3).Draw(t, label+"_small") == 0 {
		n := rapid.IntRange(0, 3).Draw(t, label+"_n")
		b := make([]byte, n)
		for i := range b {
			b[i] = rapid.SampledFrom(msgAlphabet).Draw(t, label+"_b")
		}
		return b
	}
	return rapid.SliceOfN(rapid.Byte(), 0, 80).Draw(t, label)
}

// ---- independent Base58 / Base58Check ---------------------------------------------------------------

const b58Alphabet = "123456789ABCDEFGHJKLMNPQRSTUVWXYZabcdefghijkmnopqrstuvwxyz"

func refBase58(b []byte) string {
	zeros := 0
	for zeros < len(b) && b[zeros] == 0 {
		zeros++
	}
	n := new(big.Int).SetBytes(b)
	radix := big.NewInt(58)
	var out []byte
	m := new(big.Int)
	for n.Sign() > 0 {
		n.DivMod(n, radix, m)
		out = append(out, b58Alphabet[m.Int64()])
	}
	for i := 0; i < zeros; i++ {
		out = append(out, '1')
	}
	for i, j := 0, len(out)-1; i < j; i, j = i+1, j-1 {
		out[i], out[j] = out[j], out[i]
	}
	return string(out)
}

func sha256d(b []byte) [32]byte {
	h := sha256.Sum256(b)
	return sha256.Sum256(h[:])
}

func refBase58Check(b []byte) string {
	c := sha256d(b)
	return refBase58(append(append([]byte{}, b...), c[:4]...))
}

// ---- small helpers -----------------------------------------------------------------------------------

func reversed(b []byte) []byte {
	r := make([]byte, len(b))
	for i := range b {
		r[len(b)-1-i] = b[i]
	}
	return r
}

func eqBytes(what string, got, want []byte) error {
	if !bytes.Equal(got, want) {
		return fmt.Errorf("%s = %x, want %x", what, got, want)
	}
	return nil
}

// flipBit returns a copy of b with one bit inverted (bit index modulo the size).
func flipBit(b []byte, bit int) []byte {
	c := bytes.Clone(b)
	if len(c) == 0 {
		return c
	}
	bit %= 8 * len(c)
	c[bit/8] ^= 1 << (bit % 8)
	return c
}

// mustPanic reports whether f panics.
func panics(f func()) (p bool) {
	defer func() {
		if recover() != nil {
			p = true
		}
	}()
	f()
	return false
}
