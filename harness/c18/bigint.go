package c18

import (
	"bytes"
	"fmt"
	"math/big"

	"github.com/nspcc-dev/neo-go/pkg/encoding/bigint"
	"pgregory.net/rapid"
	"verifharness/vt"
)

// BigintCase: the integer is (Neg ? -1 : 1) * Mag (big-endian magnitude); Pad sign-extension bytes are appended for the
// padded-decode clause; Raw is an arbitrary little-endian two's-complement string for the decode-first clause;
// BufLen/BufCap shape the buffer handed to ToPreallocatedBytes.
type BigintCase struct {
	Mag    vt.Bytes `json:"mag"`
	Neg    bool     `json:"neg"`
	Pad    int      `json:"pad"`
	Raw    vt.Bytes `json:"raw"`
	BufLen int      `json:"buf_len"`
	BufCap int      `json:"buf_cap"`
	Class  string   `json:"class"` // how the generator built Mag (informational)
}

func genBigintCase(t *rapid.T) BigintCase {
	c := BigintCase{Neg: rapid.Bool().Draw(t, "neg")}
	var m *big.Int
	switch rapid.IntRange(0, 5).Draw(t, "kind") {
	case 0, 1: // 2^(8k) + d and 2^(8k-1) + d, the length boundaries of the unsigned resp. signed encodings
		k := rapid.IntRange(0, 32).Draw(t, "k")
		sh := uint(8 * k)
		if rapid.Bool().Draw(t, "signbit") && k > 0 {
			sh--
			c.Class = "2^(8k-1)+d"
		} else {
			c.Class = "2^(8k)+d"
		}
		m = new(big.Int).Lsh(big.NewInt(1), sh)
		m.Add(m, big.NewInt(int64(rapid.IntRange(-2, 2).Draw(t, "d"))))
		if m.Sign() < 0 {
			m.Neg(m)
		}
	case 2: // small
		m = big.NewInt(int64(rapid.IntRange(0, 300).Draw(t, "small")))
		c.Class = "small"
	case 3: // bytes from a hostile alphabet
		n := rapid.IntRange(0, 33).Draw(t, "n")
		b := make([]byte, n)
		for i := range b {
			b[i] = rapid.SampledFrom([]byte{0x00, 0x01, 0x7f, 0x80, 0xff, 0xfe}).Draw(t, "ab")
		}
		m = new(big.Int).SetBytes(b)
		c.Class = "alphabet"
	default:
		m = new(big.Int).SetBytes(rapid.SliceOfN(rapid.Byte(), 0, 32).Draw(t, "mag"))
		c.Class = "random"
	}
	c.Mag = m.Bytes()
	c.Pad = rapid.SampledFrom([]int{0, 1, 1, 2, 7, 8, 9, 31, 40}).Draw(t, "pad")
	// decode-first input
	n := rapid.IntRange(0, 34).Draw(t, "rawn")
	raw := make([]byte, n)
	for i := range raw {
		if rapid.IntRange(0, 2).Draw(t, "rawk") == 0 {
			raw[i] = rapid.Byte().Draw(t, "rb")
		} else {
			raw[i] = rapid.SampledFrom([]byte{0x00, 0x7f, 0x80, 0xff}).Draw(t, "rab")
		}
	}
	c.Raw = raw
	c.BufCap = rapid.IntRange(0, 40).Draw(t, "cap")
	c.BufLen = rapid.IntRange(0, c.BufCap).Draw(t, "len")
	return c
}

// refMinLen is the number of bytes of the shortest two's-complement encoding of n (0 for zero).
func refMinLen(n *big.Int) int {
	if n.Sign() == 0 {
		return 0
	}
	for l := 1; ; l++ {
		lim := new(big.Int).Lsh(big.NewInt(1), uint(8*l-1)) // 2^(8l-1)
		if n.Cmp(lim) < 0 && n.Cmp(new(big.Int).Neg(lim)) >= 0 {
			return l
		}
	}
}

// refEncode is the minimal little-endian two's-complement encoding: n mod 2^(8l) written in l bytes.
func refEncode(n *big.Int) []byte {
	l := refMinLen(n)
	if l == 0 {
		return []byte{}
	}
	mod := new(big.Int).Lsh(big.NewInt(1), uint(8*l))
	u := new(big.Int).Mod(n, mod) // Go's Mod is Euclidean: 0 <= u < mod
	return reversed(u.FillBytes(make([]byte, l)))
}

// refDecode interprets little-endian two's-complement bytes.
func refDecode(b []byte) *big.Int {
	if len(b) == 0 {
		return new(big.Int)
	}
	u := new(big.Int).SetBytes(reversed(b))
	if b[len(b)-1]&0x80 != 0 {
		u.Sub(u, new(big.Int).Lsh(big.NewInt(1), uint(8*len(b))))
	}
	return u
}

func checkBigintCase(c BigintCase, o *vt.Obs) error {
	n := new(big.Int).SetBytes(c.Mag)
	if c.Neg {
		n.Neg(n)
	}
	keep := new(big.Int).Set(n)
	want := refEncode(n)

	enc := bigint.ToBytes(n)
	if n.Cmp(keep) != 0 || n.String() != keep.String() {
		return fmt.Errorf("ToBytes(%s) changed its argument to %s", keep, n)
	}
	if !bytes.Equal(enc, want) {
		return fmt.Errorf("ToBytes(%s) = %x, the minimal two's-complement LE form is %x", keep, enc, want)
	}
	// minimality stated on the bytes themselves
	if l := len(enc); l >= 2 {
		if (enc[l-1] == 0x00 && enc[l-2]&0x80 == 0) || (enc[l-1] == 0xff && enc[l-2]&0x80 != 0) {
			return fmt.Errorf("ToBytes(%s) = %x carries a redundant sign byte", keep, enc)
		}
	} else if l == 1 && enc[0] == 0 {
		return fmt.Errorf("ToBytes(0-like %s) = 00, zero is documented to be the empty string", keep)
	}
	in := bytes.Clone(enc)
	back := bigint.FromBytes(in)
	if !bytes.Equal(in, enc) {
		return fmt.Errorf("FromBytes mutated its input %x -> %x", enc, in)
	}
	if back.Cmp(keep) != 0 {
		return fmt.Errorf("FromBytes(ToBytes(%s) = %x) = %s", keep, enc, back)
	}
	// sign-extended (padded) input decodes to the same value
	if c.Pad > 0 {
		ext := byte(0x00)
		if keep.Sign() < 0 {
			ext = 0xff
		}
		padded := append(bytes.Clone(enc), bytes.Repeat([]byte{ext}, c.Pad)...)
		pin := bytes.Clone(padded)
		got := bigint.FromBytes(pin)
		if !bytes.Equal(pin, padded) {
			return fmt.Errorf("FromBytes mutated its input %x -> %x", padded, pin)
		}
		if got.Cmp(keep) != 0 {
			return fmt.Errorf("FromBytes(%x) (value %s padded by %d bytes) = %s", padded, keep, c.Pad, got)
		}
	}
	// ToPreallocatedBytes with a short / exact / long buffer holding garbage
	buf := bytes.Repeat([]byte{0xa5}, c.BufCap)[:c.BufLen]
	pre := bigint.ToPreallocatedBytes(n, buf)
	if n.Cmp(keep) != 0 {
		return fmt.Errorf("ToPreallocatedBytes(%s) changed its argument to %s", keep, n)
	}
	if !bytes.Equal(pre, want) {
		return fmt.Errorf("ToPreallocatedBytes(%s, buf len %d cap %d) = %x, want %x", keep, c.BufLen, c.BufCap, pre, want)
	}
	// decode first: arbitrary bytes -> value -> canonical bytes
	rin := bytes.Clone(c.Raw)
	if rin == nil {
		rin = []byte{}
	}
	rv := bigint.FromBytes(rin)
	if !bytes.Equal(rin, c.Raw) {
		return fmt.Errorf("FromBytes mutated its input %x -> %x", c.Raw, rin)
	}
	if wantV := refDecode(c.Raw); rv.Cmp(wantV) != 0 {
		return fmt.Errorf("FromBytes(%x) = %s, two's complement gives %s", c.Raw, rv, wantV)
	}
	if re := bigint.ToBytes(rv); !bytes.Equal(re, refEncode(rv)) {
		return fmt.Errorf("ToBytes(FromBytes(%x)) = %x, want %x", c.Raw, re, refEncode(rv))
	}
	o.Units(4)

	// classes: distance of |n| resp. n to a length boundary
	if nearBoundary(keep) {
		o.Label("within-1-of-length-boundary")
		o.NonTrivial()
	}
	if keep.Sign() < 0 {
		o.Label("negative")
	}
	o.Labelf("len=%d", len(want))
	if len(c.Raw) > len(refEncode(refDecode(c.Raw))) {
		o.Label("raw-padded")
	}
	switch {
	case c.BufCap < len(want):
		o.Label("buf-short")
	case c.BufCap == len(want):
		o.Label("buf-exact")
	default:
		o.Label("buf-long")
	}
	return nil
}

// nearBoundary: the encoding length of n-1, n or n+1 differs, or |n| is within 1 of a power 2^(8k).
func nearBoundary(n *big.Int) bool {
	one := big.NewInt(1)
	l := refMinLen(n)
	if refMinLen(new(big.Int).Add(n, one)) != l || refMinLen(new(big.Int).Sub(n, one)) != l {
		return true
	}
	a := new(big.Int).Abs(n)
	for _, d := range []int64{-1, 0, 1} {
		x := new(big.Int).Add(a, big.NewInt(d))
		if x.Sign() > 0 && x.BitLen()%8 == 1 && x.TrailingZeroBits() == uint(x.BitLen()-1) {
			return true
		}
	}
	return false
}
