package c18

import (
	"crypto/sha256"
	"encoding/hex"
	"math/big"
	"testing"
)

// TestOracles pins the independent reference implementations to published vectors (no code under test involved).
func TestOracles(t *testing.T) {
	// RFC 6979 A.2.5, P-256 / SHA-256
	d, _ := new(big.Int).SetString("C9AFA9D845BA75166B5C215767B1D6934E50C3DB36E89B127B8A622B120F6721", 16)
	for _, v := range []struct{ msg, r, s string }{
		{"sample", "EFD48B2AACB6A8FD1140DD9CD45E81D69D2C877B56AAF991C34D0EA84EAF3716", "F7CB1C942D657C41D436C7A1B6E29F65F3E900DBB9AFF4064DC4AB2F843ACDA8"},
		{"test", "F1ABB023518351CD71D881567B1EA663ED3EFCF6C5132B354F28D3B0B7D38367", "019F4113742A2B14BD25926B49C649155F267E60D3814B4C0CC84250E46F0083"},
	} {
		h := sha256.Sum256([]byte(v.msg))
		r, s, _ := rfc6979Sign(curveR1, d, h[:])
		wr, _ := new(big.Int).SetString(v.r, 16)
		ws, _ := new(big.Int).SetString(v.s, 16)
		if r.Cmp(wr) != 0 || s.Cmp(ws) != 0 {
			t.Fatalf("rfc6979Sign(%q) = %x,%x", v.msg, r, s)
		}
	}
	// secp256k1 vector widely used (bitcoin-core / trezor): key 1, message "Satoshi Nakamoto"
	h := sha256.Sum256([]byte("Satoshi Nakamoto"))
	r, s, _ := rfc6979Sign(curveK1, big.NewInt(1), h[:])
	// published signature is low-S normalised; accept s or n-s
	wr, _ := new(big.Int).SetString("934b1ea10a4b3c1757e2b0c017d0b6143ce3c9a7e6a4a49860d7a6ab210ee3d8", 16)
	ws, _ := new(big.Int).SetString("2442ce9d2b916064108014783e923ec36b49743e2ffa1c4496f01a512aafd9e5", 16)
	ns := new(big.Int).Sub(curveOf(curveK1).Params().N, ws)
	if r.Cmp(wr) != 0 || (s.Cmp(ws) != 0 && s.Cmp(ns) != 0) {
		t.Fatalf("rfc6979Sign k1 = %x,%x", r, s)
	}
	// Base58 / Base58Check
	if got := refBase58([]byte("Hello World!")); got != "2NEpo7TZRRrLZSi2U" {
		t.Fatalf("refBase58 = %s", got)
	}
	b, _ := hex.DecodeString("0000287fb4cd")
	if got := refBase58(b); got != "11233QC4" {
		t.Fatalf("refBase58 zeros = %s", got)
	}
	// bitcoin wiki WIF example
	k, _ := hex.DecodeString("800C28FCA386C7A227600B2FE50B7CAE11EC86D3BF1FBE471BE89827E19D72AA1D")
	if got := refBase58Check(k); got != "5HueCGU8rMjxEXxiPuD5BDku4MkFqeZyd4dZ1jvhTVqvbTLvyTJ" {
		t.Fatalf("refBase58Check = %s", got)
	}
	// two's complement
	for _, v := range []struct {
		n   int64
		hex string
	}{{0, ""}, {1, "01"}, {-1, "ff"}, {127, "7f"}, {128, "8000"}, {-128, "80"}, {-129, "7fff"}, {255, "ff00"}, {256, "0001"}, {-256, "00ff"}, {-32768, "0080"}, {32768, "008000"}} {
		if got := hex.EncodeToString(refEncode(big.NewInt(v.n))); got != v.hex {
			t.Fatalf("refEncode(%d) = %s, want %s", v.n, got, v.hex)
		}
		raw, _ := hex.DecodeString(v.hex)
		if got := refDecode(raw); got.Int64() != v.n {
			t.Fatalf("refDecode(%s) = %s", v.hex, got)
		}
	}
	// decimals
	if s := refDecString(big.NewInt(-12345), 3); s != "-12.345" {
		t.Fatal(s)
	}
	if s := refDecString(big.NewInt(-5), 1); s != "-0.5" {
		t.Fatal(s)
	}
	if s := refDecString(big.NewInt(1500), 3); s != "1.5" {
		t.Fatal(s)
	}
	if v, ok := refDecParse("-0.05", 3); !ok || v.Int64() != -50 {
		t.Fatal(v, ok)
	}
	if _, ok := refDecParse("1.2345", 3); ok {
		t.Fatal("extra digits accepted")
	}
	// NEP-2 test vector of the standard (no compression flag difference: NEP-2 always uses compressed keys)
	// Merkle: root of [a] is a; of [a,b] is H(a||b)
	a, bb := leaf(1), leaf(2)
	if refMerkle([][32]byte{a}) != a {
		t.Fatal("merkle single")
	}
	cat := append(append([]byte{}, a[:]...), bb[:]...)
	if refMerkle([][32]byte{a, bb}) != sha256d(cat) {
		t.Fatal("merkle pair")
	}
	if refMerkle([][32]byte{a, bb, a}) != refMerkle([][32]byte{a, bb, a, a}) {
		t.Fatal("merkle odd duplication")
	}
}
