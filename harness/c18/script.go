package c18

import (
	"bytes"
	"crypto/sha256"
	"errors"
	"fmt"
	"math/big"
	"sort"

	"github.com/nspcc-dev/neo-go/pkg/crypto/hash"
	"github.com/nspcc-dev/neo-go/pkg/crypto/keys"
	"github.com/nspcc-dev/neo-go/pkg/encoding/address"
	"github.com/nspcc-dev/neo-go/pkg/io"
	"github.com/nspcc-dev/neo-go/pkg/smartcontract"
	"github.com/nspcc-dev/neo-go/pkg/smartcontract/scparser"
	"github.com/nspcc-dev/neo-go/pkg/util"
	"github.com/nspcc-dev/neo-go/pkg/vm"
	"github.com/nspcc-dev/neo-go/pkg/vm/emit"
	"github.com/nspcc-dev/neo-go/pkg/vm/opcode"
	"github.com/nspcc-dev/neo-go/pkg/vm/stackitem"
	"golang.org/x/crypto/ripemd160" //nolint:staticcheck // independent implementation on purpose
	"pgregory.net/rapid"
	"verifharness/vt"
)

// Numeric opcode values of the Neo N3 VM specification (not taken from the opcode package on purpose).
const (
	opPUSHINT8  = 0x00
	opPUSHT     = 0x08
	opPUSHF     = 0x09
	opPUSHNULL  = 0x0b
	opPUSHDATA1 = 0x0c
	opPUSHM1    = 0x0f
	opPUSH0     = 0x10
	opSYSCALL   = 0x41
)

func interopID(name string) []byte {
	h := sha256.Sum256([]byte(name))
	return h[:4]
}

// refPushSmall is the N3 encoding of small non-negative integers as used in standard contracts.
func refPushSmall(v int) []byte {
	if v >= 0 && v <= 16 {
		return []byte{byte(opPUSH0 + v)}
	}
	if v < 128 {
		return []byte{opPUSHINT8, byte(v)}
	}
	return []byte{opPUSHINT8 + 1, byte(v), byte(v >> 8)}
}

func refHash160(b []byte) []byte {
	h := sha256.Sum256(b)
	r := ripemd160.New()
	r.Write(h[:])
	return r.Sum(nil)
}

// ---- standard contracts: builders <-> parsers --------------------------------------------------------------

// ScriptCase: m-of-n multisig over the keys of Seeds (duplicates possible), the signature contract of Seeds[0],
// and one byte-level mutation of the multisig script for the "parsers are total" clause.
type ScriptCase struct {
	M     int        `json:"m"`
	Seeds []vt.Bytes `json:"seeds"`
	MutAt int        `json:"mut_at"`
	MutBy byte       `json:"mut_by"`
	Trunc int        `json:"trunc"`
}

func genScriptCase(t *rapid.T) ScriptCase {
	n := rapid.SampledFrom([]int{1, 1, 2, 3, 4, 7, 15, 16, 17, 21}).Draw(t, "n")
	c := ScriptCase{}
	for i := 0; i < n; i++ {
		if i > 0 && rapid.IntRange(0, 5).Draw(t, "dup") == 0 {
			c.Seeds = append(c.Seeds, c.Seeds[rapid.IntRange(0, i-1).Draw(t, "dupof")])
		} else {
			c.Seeds = append(c.Seeds, genKeySeed(t, curveR1, "seed"))
		}
	}
	switch rapid.IntRange(0, 5).Draw(t, "mkind") {
	case 0:
		c.M = rapid.SampledFrom([]int{0, -1, n + 1, 1025}).Draw(t, "badm")
	case 1:
		c.M = n
	default:
		c.M = rapid.IntRange(1, n).Draw(t, "m")
	}
	c.MutAt = rapid.IntRange(0, 800).Draw(t, "mutat")
	c.MutBy = byte(rapid.IntRange(1, 255).Draw(t, "mutby"))
	c.Trunc = rapid.IntRange(0, 800).Draw(t, "trunc")
	return c
}

func checkScriptCase(c ScriptCase, o *vt.Obs) error {
	if address.Prefix != address.NEO3Prefix {
		return fmt.Errorf("address.Prefix is %#x at the start of the check", address.Prefix)
	}
	n := len(c.Seeds)
	if n == 0 {
		return fmt.Errorf("case: no keys")
	}
	type pt struct {
		x, y *big.Int
		enc  []byte
	}
	var pubs keys.PublicKeys
	var ref []pt
	for _, s := range c.Seeds {
		d := scalarOf(curveR1, s)
		priv, err := privOf(curveR1, d)
		if err != nil {
			return err
		}
		pubs = append(pubs, priv.PublicKey())
		x, y := curveOf(curveR1).ScalarBaseMult(d.FillBytes(make([]byte, 32)))
		ref = append(ref, pt{x, y, append([]byte{byte(2 + y.Bit(0))}, x.FillBytes(make([]byte, 32))...)})
	}
	first := ref[0]
	firstPub := pubs[0]
	sort.SliceStable(ref, func(i, j int) bool {
		if r := ref[i].x.Cmp(ref[j].x); r != 0 {
			return r < 0
		}
		return ref[i].y.Cmp(ref[j].y) < 0
	})

	script, err := smartcontract.CreateMultiSigRedeemScript(c.M, pubs)
	if c.M < 1 || c.M > n {
		if err == nil {
			return fmt.Errorf("CreateMultiSigRedeemScript(m=%d, n=%d) succeeds", c.M, n)
		}
		o.Label("bad-m")
	} else {
		if err != nil {
			return fmt.Errorf("CreateMultiSigRedeemScript(m=%d, n=%d): %v", c.M, n, err)
		}
		// The counts are integer pushes. The N3 reference pushes 16 as PUSH16; emit.Int (not documented either way)
		// writes PUSHINT8 16. Both push the same value and both parse, so both spellings are accepted here and the
		// case is labelled (interoperability observation, not part of the property).
		build := func(alt16 bool) []byte {
			push := func(v int) []byte {
				if v == 16 && alt16 {
					return []byte{opPUSHINT8, 16}
				}
				return refPushSmall(v)
			}
			want := push(c.M)
			for _, p := range ref {
				want = append(want, opPUSHDATA1, 33)
				want = append(want, p.enc...)
			}
			want = append(want, push(n)...)
			want = append(want, opSYSCALL)
			return append(want, interopID("System.Crypto.CheckMultisig")...)
		}
		if want := build(false); !bytes.Equal(script, want) {
			if (c.M == 16 || n == 16) && bytes.Equal(script, build(true)) {
				o.Label("count==16 pushed as PUSHINT8, reference uses PUSH16")
			} else {
				return fmt.Errorf("CreateMultiSigRedeemScript(m=%d, n=%d) = %x, the standard N3 contract is %x", c.M, n, script, want)
			}
		}
		// documented: the passed key list is sorted in place
		for i := range pubs {
			if pubs[i].X.Cmp(ref[i].x) != 0 || pubs[i].Y.Cmp(ref[i].y) != 0 {
				return fmt.Errorf("CreateMultiSigRedeemScript left the key list unsorted at position %d", i)
			}
		}
		keep := bytes.Clone(script)
		gm, gkeys, ok := scparser.ParseMultiSigContract(script)
		if !ok {
			return fmt.Errorf("ParseMultiSigContract rejects the script built for m=%d n=%d: %x", c.M, n, script)
		}
		if gm != c.M || len(gkeys) != n {
			return fmt.Errorf("ParseMultiSigContract gives m=%d n=%d, want m=%d n=%d", gm, len(gkeys), c.M, n)
		}
		for i := range gkeys {
			if !bytes.Equal(gkeys[i], ref[i].enc) {
				return fmt.Errorf("ParseMultiSigContract key %d = %x, want %x", i, gkeys[i], ref[i].enc)
			}
		}
		if !bytes.Equal(script, keep) {
			return fmt.Errorf("ParseMultiSigContract changed the script")
		}
		if !scparser.IsMultiSigContract(script) || scparser.IsSignatureContract(script) || !scparser.IsStandardContract(script) {
			return fmt.Errorf("Is*Contract misclassify the multisig script (m=%d n=%d)", c.M, n)
		}
		if got := hash.Hash160(script); !bytes.Equal(got.BytesBE(), refHash160(script)) {
			return fmt.Errorf("Hash160(script) = %x, want %x", got.BytesBE(), refHash160(script))
		}
		// same set of keys in another order => same script
		rev := make(keys.PublicKeys, n)
		for i := range pubs {
			rev[n-1-i] = pubs[i]
		}
		s2, err := smartcontract.CreateMultiSigRedeemScript(c.M, rev)
		if err != nil || !bytes.Equal(s2, script) {
			return fmt.Errorf("CreateMultiSigRedeemScript depends on the order of the keys: %x vs %x (%v)", s2, script, err)
		}
		// parsers are total on damaged scripts (a panic is caught by vt and reported)
		mut := bytes.Clone(script)
		mut[c.MutAt%len(mut)] ^= c.MutBy
		for _, sc := range [][]byte{mut, script[:c.Trunc%len(script)], append(bytes.Clone(script), c.MutBy)} {
			_, _, _ = scparser.ParseMultiSigContract(sc)
			_, _ = scparser.ParseSignatureContract(sc)
			_ = scparser.IsStandardContract(sc)
		}
		if _, _, ok := scparser.ParseMultiSigContract(append(bytes.Clone(script), c.MutBy)); ok {
			return fmt.Errorf("ParseMultiSigContract accepts the script with a trailing byte %#x", c.MutBy)
		}
		if _, _, ok := scparser.ParseMultiSigContract(script[:len(script)-1]); ok {
			return fmt.Errorf("ParseMultiSigContract accepts the script without its last byte")
		}
		if n > 16 || c.M > 16 {
			o.Label("count>16 (PUSHINT8)")
		}
		if len(pubs.Unique()) < n {
			o.Label("duplicate-keys")
		}
		o.NonTrivial()
	}

	// signature contract of the first key
	wantSig := append([]byte{opPUSHDATA1, 33}, first.enc...)
	wantSig = append(wantSig, opSYSCALL)
	wantSig = append(wantSig, interopID("System.Crypto.CheckSig")...)
	vs := firstPub.GetVerificationScript()
	if !bytes.Equal(vs, wantSig) {
		return fmt.Errorf("GetVerificationScript = %x, the standard N3 contract is %x", vs, wantSig)
	}
	w := io.NewBufBinWriter()
	emit.CheckSig(w.BinWriter, firstPub.Bytes())
	werr := w.Err
	if wb := w.Bytes(); werr != nil || !bytes.Equal(wb, wantSig) {
		return fmt.Errorf("emit.CheckSig = %x (%v), want %x", wb, werr, wantSig)
	}
	pk, ok := scparser.ParseSignatureContract(vs)
	if !ok || !bytes.Equal(pk, first.enc) {
		return fmt.Errorf("ParseSignatureContract = %x, %v; want %x", pk, ok, first.enc)
	}
	if !scparser.IsSignatureContract(vs) || scparser.IsMultiSigContract(vs) || !scparser.IsStandardContract(vs) {
		return fmt.Errorf("Is*Contract misclassify the signature script")
	}
	h160 := refHash160(wantSig)
	if got := firstPub.GetScriptHash(); !bytes.Equal(got.BytesBE(), h160) {
		return fmt.Errorf("GetScriptHash = %x, want %x", got.BytesBE(), h160)
	}
	if got, want := firstPub.Address(), refBase58Check(append([]byte{address.NEO3Prefix}, h160...)); got != want {
		return fmt.Errorf("Address() = %s, want %s", got, want)
	}
	back, err := address.StringToUint160(firstPub.Address())
	if err != nil || !bytes.Equal(back.BytesBE(), h160) {
		return fmt.Errorf("StringToUint160(Address()) = %x, %v", back.BytesBE(), err)
	}
	mutS := bytes.Clone(vs)
	mutS[c.MutAt%len(mutS)] ^= c.MutBy
	if at := c.MutAt % len(mutS); at < 2 || at >= 35 { // damage outside of the key bytes
		if _, ok := scparser.ParseSignatureContract(mutS); ok {
			return fmt.Errorf("ParseSignatureContract accepts %x (byte %d damaged)", mutS, at)
		}
	}
	for _, sc := range [][]byte{vs[:39], append(bytes.Clone(vs), 0x40)} {
		if _, ok := scparser.ParseSignatureContract(sc); ok {
			return fmt.Errorf("ParseSignatureContract accepts a %d-byte script", len(sc))
		}
	}
	o.Labelf("n=%d", n)
	o.Units(2)
	return nil
}

// ---- emit.Int / emit.BigInt <-> VM --------------------------------------------------------------------------

// EmitIntCase: the integer (Neg ? -1 : 1) * Mag pushed through Via ("Int" needs an int64, else BigInt is used).
type EmitIntCase struct {
	Mag vt.Bytes `json:"mag"`
	Neg bool     `json:"neg"`
	Via string   `json:"via"`
}

func genEmitIntCase(t *rapid.T) EmitIntCase {
	b := genBigintCase(t)
	return EmitIntCase{Mag: b.Mag, Neg: b.Neg, Via: rapid.SampledFrom([]string{"Int", "BigInt", "Any"}).Draw(t, "via")}
}

var (
	minVMInt = new(big.Int).Neg(new(big.Int).Lsh(big.NewInt(1), 255))
	maxVMInt = new(big.Int).Sub(new(big.Int).Lsh(big.NewInt(1), 255), big.NewInt(1))
)

func runScript(script []byte) (*vm.VM, error) {
	v := vm.New()
	v.LoadScript(script)
	if err := v.Run(); err != nil {
		return nil, err
	}
	return v, nil
}

func checkEmitIntCase(c EmitIntCase, o *vt.Obs) error {
	n := new(big.Int).SetBytes(c.Mag)
	if c.Neg {
		n.Neg(n)
	}
	keep := new(big.Int).Set(n)
	w := io.NewBufBinWriter()
	via := c.Via
	if via == "Int" && !n.IsInt64() {
		via = "BigInt"
	}
	switch via {
	case "Int":
		emit.Int(w.BinWriter, n.Int64())
	case "Any":
		emit.Any(w.BinWriter, n)
	default:
		emit.BigInt(w.BinWriter, n)
	}
	if n.Cmp(keep) != 0 {
		return fmt.Errorf("emit.%s changed its argument", via)
	}
	inRange := n.Cmp(minVMInt) >= 0 && n.Cmp(maxVMInt) <= 0
	if !inRange {
		if w.Err == nil {
			return fmt.Errorf("emit.%s(%s) succeeds for an integer outside of the 256-bit VM range: %x", via, keep, w.Bytes())
		}
		o.Label("out-of-range")
		return nil
	}
	if w.Err != nil {
		return fmt.Errorf("emit.%s(%s): %v", via, keep, w.Err)
	}
	script := w.Bytes()
	// shape: exactly one push instruction
	ctx := scparser.NewContext(script, 0)
	op, param, err := ctx.Next()
	if err != nil {
		return fmt.Errorf("emit.%s(%s) = %x does not parse: %v", via, keep, script, err)
	}
	if ctx.NextIP() != len(script) {
		return fmt.Errorf("emit.%s(%s) = %x is more than one instruction", via, keep, script)
	}
	switch {
	case byte(op) >= opPUSHM1 && byte(op) <= opPUSH0+16:
		if len(param) != 0 || big.NewInt(int64(op)-opPUSH0).Cmp(keep) != 0 {
			return fmt.Errorf("emit.%s(%s) = %x", via, keep, script)
		}
		o.Label("push-const")
	case byte(op) <= opPUSHINT8+5:
		if len(param) != 1<<uint(op) {
			return fmt.Errorf("emit.%s(%s) = %x: parameter of %d bytes for opcode %#x", via, keep, script, len(param), byte(op))
		}
		if got := refDecode(param); got.Cmp(keep) != 0 {
			return fmt.Errorf("emit.%s(%s) = %x encodes %s", via, keep, script, got)
		}
		o.Labelf("pushint%d", 8<<uint(op))
	default:
		return fmt.Errorf("emit.%s(%s) = %x is not an integer push", via, keep, script)
	}
	bi, err := scparser.GetBigIntFromInstr(scparser.Instruction{Op: op, Param: param})
	if err != nil || bi.Cmp(keep) != 0 {
		return fmt.Errorf("GetBigIntFromInstr(emit.%s(%s)) = %v, %v", via, keep, bi, err)
	}
	if keep.IsInt64() {
		i64, err := scparser.GetInt64FromInstr(scparser.Instruction{Op: op, Param: param})
		if err != nil || i64 != keep.Int64() {
			return fmt.Errorf("GetInt64FromInstr(emit.%s(%s)) = %d, %v", via, keep, i64, err)
		}
	}
	// The same integer in every WIDER spelling (scripts made by other tools are not minimal): the operand sign-extended
	// to 2, 4, 8, 16, 32 bytes is the same number for the VM and has to be the same number for the static parsers.
	if keep.BitLen() < 256 {
		min := refBigintBytes(keep)
		ext := byte(0)
		if keep.Sign() < 0 {
			ext = 0xff
		}
		for k, w := range []int{1, 2, 4, 8, 16, 32} {
			if w < len(min) {
				continue
			}
			wide := append([]byte{}, min...)
			for len(wide) < w {
				wide = append(wide, ext)
			}
			wop := opcode.Opcode(opPUSHINT8 + byte(k))
			if b, err := scparser.GetBigIntFromInstr(scparser.Instruction{Op: wop, Param: wide}); err != nil || b.Cmp(keep) != 0 {
				return fmt.Errorf("GetBigIntFromInstr(%s %x) = %v, %v; the operand is %s", wop, wide, b, err, keep)
			}
			if keep.IsInt64() {
				if i, err := scparser.GetInt64FromInstr(scparser.Instruction{Op: wop, Param: wide}); err != nil || i != keep.Int64() {
					return fmt.Errorf("GetInt64FromInstr(%s %x) = %d, %v; the operand is %s (GetBigIntFromInstr and the VM read it so)", wop, wide, i, err, keep)
				}
			}
			wv, err := runScript(append([]byte{byte(wop)}, wide...))
			if err != nil || wv.Estack().Len() != 1 || wv.Estack().Peek(0).BigInt().Cmp(keep) != 0 {
				return fmt.Errorf("VM on %s %x: %v (the operand is %s)", wop, wide, err, keep)
			}
		}
		o.Label("wider-spellings")
	}
	v, err := runScript(script)
	if err != nil {
		return fmt.Errorf("VM fails on emit.%s(%s) = %x: %v", via, keep, script, err)
	}
	if v.Estack().Len() != 1 {
		return fmt.Errorf("VM stack has %d items after emit.%s(%s)", v.Estack().Len(), via, keep)
	}
	it := v.Estack().Pop().Item()
	if it.Type() != stackitem.IntegerT {
		return fmt.Errorf("VM pushes %s for emit.%s(%s)", it.Type(), via, keep)
	}
	if got := it.Value().(*big.Int); got.Cmp(keep) != 0 {
		return fmt.Errorf("VM pushes %s for emit.%s(%s) = %x", got, via, keep, script)
	}
	if nearBoundary(keep) {
		o.Label("within-1-of-length-boundary")
		o.NonTrivial()
	}
	o.Label("via-" + via)
	return nil
}

// ---- emit.Any / Array / Bytes / String / Bool <-> VM and static parser ------------------------------------------

// Val is a JSON-able description of a Go value accepted by emit.Any.
type Val struct {
	T string   `json:"t"`           // int big bytes str bool null arr u160 u256 pu160nil unsupported
	W string   `json:"w,omitempty"` // Go type for T=int
	I int64    `json:"i,omitempty"`
	B vt.Bytes `json:"b,omitempty"` // bytes / magnitude / hash seed / string bytes
	N int      `json:"n,omitempty"` // target length for T=bytes (content = B repeated)
	X bool     `json:"x,omitempty"` // bool value / sign of big
	L []Val    `json:"l,omitempty"`
}

// EmitAnyCase: Top is emitted with emit.Any when AsArray is false, else emit.Array(Top.L...).
type EmitAnyCase struct {
	Top     Val  `json:"top"`
	AsArray bool `json:"as_array"`
}

var intTypes = []string{"int64", "int32", "int16", "int8", "int", "uint64", "uint32", "uint16", "uint8", "uint"}

func genVal(t *rapid.T, depth int) Val {
	kinds := []string{"int", "int", "big", "bytes", "bytes", "str", "bool", "null", "u160", "u256", "pu160nil"}
	if depth < 3 {
		kinds = append(kinds, "arr", "arr")
	}
	v := Val{T: rapid.SampledFrom(kinds).Draw(t, "t")}
	switch v.T {
	case "int":
		v.W = rapid.SampledFrom(intTypes).Draw(t, "w")
		switch rapid.IntRange(0, 3).Draw(t, "ik") {
		case 0:
			v.I = int64(rapid.IntRange(-2, 17).Draw(t, "ismall"))
		case 1:
			sh := uint(rapid.IntRange(0, 63).Draw(t, "ish"))
			v.I = int64(uint64(1)<<sh) + int64(rapid.IntRange(-1, 1).Draw(t, "id"))
			if rapid.Bool().Draw(t, "ineg") {
				v.I = -v.I
			}
		default:
			v.I = rapid.Int64().Draw(t, "i")
		}
	case "big":
		v.B = rapid.SliceOfN(rapid.Byte(), 0, 31).Draw(t, "mag")
		v.X = rapid.Bool().Draw(t, "neg")
	case "bytes":
		v.B = rapid.SliceOfN(rapid.Byte(), 1, 4).Draw(t, "pat")
		if rapid.IntRange(0, 15).Draw(t, "huge") == 0 && depth <= 1 {
			v.N = rapid.SampledFrom([]int{65535, 65536, 65537, 70000}).Draw(t, "nh")
		} else {
			v.N = rapid.SampledFrom([]int{0, 1, 2, 20, 32, 33, 64, 75, 76, 255, 256, 257, 1000}).Draw(t, "n")
		}
	case "str":
		v.B = []byte(rapid.SampledFrom([]string{"", "a", "transfer", "балансOf", "\x00", "\xff\xfe", "long long long long long string"}).Draw(t, "s"))
	case "bool":
		v.X = rapid.Bool().Draw(t, "x")
	case "u160":
		v.B = genHashBytes(t, 20, "h160")
	case "u256":
		v.B = genHashBytes(t, 32, "h256")
	case "arr":
		n := rapid.IntRange(0, 5).Draw(t, "alen")
		v.L = []Val{}
		for i := 0; i < n; i++ {
			v.L = append(v.L, genVal(t, depth+1))
		}
	}
	return v
}

func genEmitAnyCase(t *rapid.T) EmitAnyCase {
	c := EmitAnyCase{AsArray: rapid.Bool().Draw(t, "asarray")}
	if c.AsArray {
		c.Top = Val{T: "arr", L: []Val{}}
		n := rapid.IntRange(0, 6).Draw(t, "n")
		for i := 0; i < n; i++ {
			c.Top.L = append(c.Top.L, genVal(t, 1))
		}
	} else {
		c.Top = genVal(t, 0)
		if rapid.IntRange(0, 30).Draw(t, "unsupported") == 0 {
			c.Top = Val{T: "unsupported"}
		}
	}
	return c
}

// expected is the reference meaning of a Val.
type expected struct {
	kind  string // int bytes bool null arr
	n     *big.Int
	b     []byte
	x     bool
	items []expected
}

// materialise returns the Go value handed to emit and what the VM must hold afterwards.
func materialise(v Val) (any, expected, error) {
	switch v.T {
	case "int":
		var g any
		var n *big.Int
		switch v.W {
		case "int64":
			g, n = v.I, big.NewInt(v.I)
		case "int32":
			g, n = int32(v.I), big.NewInt(int64(int32(v.I)))
		case "int16":
			g, n = int16(v.I), big.NewInt(int64(int16(v.I)))
		case "int8":
			g, n = int8(v.I), big.NewInt(int64(int8(v.I)))
		case "int":
			g, n = int(v.I), big.NewInt(int64(int(v.I)))
		case "uint64":
			g, n = uint64(v.I), new(big.Int).SetUint64(uint64(v.I))
		case "uint32":
			g, n = uint32(v.I), new(big.Int).SetUint64(uint64(uint32(v.I)))
		case "uint16":
			g, n = uint16(v.I), new(big.Int).SetUint64(uint64(uint16(v.I)))
		case "uint8":
			g, n = uint8(v.I), new(big.Int).SetUint64(uint64(uint8(v.I)))
		case "uint":
			g, n = uint(v.I), new(big.Int).SetUint64(uint64(uint(v.I)))
		default:
			return nil, expected{}, fmt.Errorf("case: unknown int type %q", v.W)
		}
		return g, expected{kind: "int", n: n}, nil
	case "big":
		n := new(big.Int).SetBytes(v.B)
		if v.X {
			n.Neg(n)
		}
		return new(big.Int).Set(n), expected{kind: "int", n: n}, nil
	case "bytes":
		if v.N < 0 || v.N > 100000 {
			return nil, expected{}, fmt.Errorf("case: bad length")
		}
		b := make([]byte, v.N)
		for i := range b {
			if len(v.B) > 0 {
				b[i] = v.B[i%len(v.B)] + byte(i/251)
			}
		}
		return bytes.Clone(b), expected{kind: "bytes", b: b}, nil
	case "str":
		return string(v.B), expected{kind: "bytes", b: bytes.Clone(v.B)}, nil
	case "bool":
		return v.X, expected{kind: "bool", x: v.X}, nil
	case "null":
		return nil, expected{kind: "null"}, nil
	case "pu160nil":
		return (*util.Uint160)(nil), expected{kind: "null"}, nil
	case "u160":
		u, err := util.Uint160DecodeBytesBE(v.B)
		if err != nil {
			return nil, expected{}, err
		}
		if len(v.B) > 0 && v.B[0]&1 == 1 {
			return &u, expected{kind: "bytes", b: bytes.Clone(v.B)}, nil
		}
		return u, expected{kind: "bytes", b: bytes.Clone(v.B)}, nil
	case "u256":
		u, err := util.Uint256DecodeBytesBE(v.B)
		if err != nil {
			return nil, expected{}, err
		}
		if len(v.B) > 0 && v.B[0]&1 == 1 {
			return &u, expected{kind: "bytes", b: bytes.Clone(v.B)}, nil
		}
		return u, expected{kind: "bytes", b: bytes.Clone(v.B)}, nil
	case "arr":
		l := make([]any, 0, len(v.L))
		e := expected{kind: "arr", items: []expected{}}
		for _, x := range v.L {
			g, ex, err := materialise(x)
			if err != nil {
				return nil, expected{}, err
			}
			l = append(l, g)
			e.items = append(e.items, ex)
		}
		return l, e, nil
	}
	return nil, expected{}, fmt.Errorf("case: unknown value type %q", v.T)
}

func cmpItem(path string, it stackitem.Item, e expected) error {
	switch e.kind {
	case "int":
		if it.Type() != stackitem.IntegerT {
			return fmt.Errorf("%s: VM holds %s, want Integer %s", path, it.Type(), e.n)
		}
		if got := it.Value().(*big.Int); got.Cmp(e.n) != 0 {
			return fmt.Errorf("%s: VM holds %s, want %s", path, got, e.n)
		}
	case "bytes":
		if it.Type() != stackitem.ByteArrayT {
			return fmt.Errorf("%s: VM holds %s, want ByteString of %d bytes", path, it.Type(), len(e.b))
		}
		if got := it.Value().([]byte); !bytes.Equal(got, e.b) {
			return fmt.Errorf("%s: VM holds %d bytes %x.., want %d bytes %x..", path, len(got), head(got), len(e.b), head(e.b))
		}
	case "bool":
		if it.Type() != stackitem.BooleanT || it.Value().(bool) != e.x {
			return fmt.Errorf("%s: VM holds %s %v, want Boolean %v", path, it.Type(), it.Value(), e.x)
		}
	case "null":
		if it.Type() != stackitem.AnyT || it.Value() != nil {
			return fmt.Errorf("%s: VM holds %s, want Null", path, it.Type())
		}
	case "arr":
		if it.Type() != stackitem.ArrayT {
			return fmt.Errorf("%s: VM holds %s, want Array of %d", path, it.Type(), len(e.items))
		}
		arr := it.Value().([]stackitem.Item)
		if len(arr) != len(e.items) {
			return fmt.Errorf("%s: VM holds Array of %d, want %d", path, len(arr), len(e.items))
		}
		for i := range arr {
			if err := cmpItem(fmt.Sprintf("%s[%d]", path, i), arr[i], e.items[i]); err != nil {
				return err
			}
		}
	}
	return nil
}

func cmpPushed(path string, p scparser.PushedItem, e expected) error {
	switch e.kind {
	case "int":
		got, err := scparser.GetBigIntFromInstr(p.Instruction)
		if err != nil || p.IsNested() || got.Cmp(e.n) != 0 {
			return fmt.Errorf("%s: static parser gives %v (%v), want integer %s", path, got, err, e.n)
		}
	case "bytes":
		got, err := scparser.GetBytesFromInstr(p.Instruction)
		if err != nil || p.IsNested() || !bytes.Equal(got, e.b) {
			return fmt.Errorf("%s: static parser gives %d bytes (%v), want %d bytes", path, len(got), err, len(e.b))
		}
	case "bool":
		got, err := scparser.GetBoolFromInstr(p.Instruction)
		if err != nil || p.IsNested() || got != e.x {
			return fmt.Errorf("%s: static parser gives %v (%v), want bool %v", path, got, err, e.x)
		}
	case "null":
		if !p.IsNull() {
			return fmt.Errorf("%s: static parser gives %s, want PUSHNULL", path, p.Op)
		}
	case "arr":
		if !p.IsList() || len(p.List) != len(e.items) {
			return fmt.Errorf("%s: static parser gives list=%v of %d, want list of %d", path, p.IsList(), len(p.List), len(e.items))
		}
		for i := range p.List {
			if err := cmpPushed(fmt.Sprintf("%s[%d]", path, i), p.List[i], e.items[i]); err != nil {
				return err
			}
		}
	}
	return nil
}

func head(b []byte) []byte {
	if len(b) > 8 {
		return b[:8]
	}
	return b
}

type unsupportedT struct{ A float64 }

func checkEmitAnyCase(c EmitAnyCase, o *vt.Obs) error {
	w := io.NewBufBinWriter()
	if c.Top.T == "unsupported" {
		emit.Any(w.BinWriter, unsupportedT{1.5})
		if !errors.Is(w.Err, errors.ErrUnsupported) {
			return fmt.Errorf("emit.Any(struct) gives error %v, documented is errors.ErrUnsupported", w.Err)
		}
		w = io.NewBufBinWriter()
		emit.Array(w.BinWriter, int64(1), 2.5)
		if !errors.Is(w.Err, errors.ErrUnsupported) {
			return fmt.Errorf("emit.Array(1, 2.5) gives error %v, documented is errors.ErrUnsupported", w.Err)
		}
		o.Label("unsupported")
		return nil
	}
	g, e, err := materialise(c.Top)
	if err != nil {
		return err
	}
	if c.AsArray {
		emit.Array(w.BinWriter, g.([]any)...)
	} else {
		emit.Any(w.BinWriter, g)
	}
	if w.Err != nil {
		return fmt.Errorf("emit: %v", w.Err)
	}
	script := w.Bytes()
	v, err := runScript(script)
	if err != nil {
		return fmt.Errorf("VM fails on the emitted script %x..: %v", head(script), err)
	}
	if v.Estack().Len() != 1 {
		return fmt.Errorf("VM stack has %d items after the emitted script", v.Estack().Len())
	}
	if err := cmpItem("top", v.Estack().Pop().Item(), e); err != nil {
		return err
	}
	items, err := scparser.ParseSomething(script, true)
	if err != nil {
		return fmt.Errorf("ParseSomething on the emitted script: %v", err)
	}
	if len(items) != 1 {
		return fmt.Errorf("ParseSomething gives %d items, want 1", len(items))
	}
	if err := cmpPushed("top", items[0], e); err != nil {
		return err
	}
	// typed leaf emitters agree with Any
	switch e.kind {
	case "bytes":
		w2 := io.NewBufBinWriter()
		if c.Top.T == "str" {
			emit.String(w2.BinWriter, string(e.b))
		} else {
			emit.Bytes(w2.BinWriter, e.b)
		}
		if !bytes.Equal(w2.Bytes(), script) {
			return fmt.Errorf("emit.Bytes/String differs from emit.Any for %d bytes", len(e.b))
		}
		// PUSHDATA1/2/4 header written from the specification
		var hdr []byte
		switch l := len(e.b); {
		case l < 0x100:
			hdr = []byte{opPUSHDATA1, byte(l)}
		case l < 0x10000:
			hdr = []byte{opPUSHDATA1 + 1, byte(l), byte(l >> 8)}
		default:
			hdr = []byte{opPUSHDATA1 + 2, byte(l), byte(l >> 8), byte(l >> 16), byte(l >> 24)}
		}
		if !bytes.Equal(script, append(hdr, e.b...)) {
			return fmt.Errorf("emit.Bytes of %d bytes starts with %x, want header %x", len(e.b), head(script), hdr)
		}
		o.Labelf("pushdata%d", len(hdr)-1)
	case "bool":
		w2 := io.NewBufBinWriter()
		emit.Bool(w2.BinWriter, e.x)
		want := byte(opPUSHF)
		if e.x {
			want = opPUSHT
		}
		if !bytes.Equal(w2.Bytes(), script) || len(script) != 1 || script[0] != want {
			return fmt.Errorf("emit.Bool(%v) = %x, want %02x", e.x, w2.Bytes(), want)
		}
	}
	depth, leaves := shape(e)
	o.Labelf("depth=%d", depth)
	o.Units(leaves)
	if depth >= 2 || leaves >= 3 {
		o.NonTrivial()
	}
	o.Label("top-" + c.Top.T)
	return nil
}

func shape(e expected) (depth, leaves int) {
	if e.kind != "arr" {
		return 0, 1
	}
	d := 0
	for _, x := range e.items {
		dd, l := shape(x)
		if dd > d {
			d = dd
		}
		leaves += l
	}
	return d + 1, leaves
}
