package c18

import (
	"bytes"
	"encoding/json"
	"fmt"
	"math/big"
	"sync"

	"github.com/nspcc-dev/neo-go/pkg/crypto/hash"
	"github.com/nspcc-dev/neo-go/pkg/crypto/keys"
	"github.com/nspcc-dev/neo-go/pkg/encoding/bigint"
	"github.com/nspcc-dev/neo-go/pkg/smartcontract"
	"github.com/nspcc-dev/neo-go/pkg/smartcontract/scparser"
	"pgregory.net/rapid"
	"verifharness/vt"
)

// ---- private key import: every 32-byte string -------------------------------------------------------------------
//
// The other key checks only use scalars in [1, N-1] (scalarOf). Import takes ANY 32 bytes (WIF, NEP-2, hex, raw):
// "signing then verifying succeeds for every key" and "private keys decode back to exactly what was encoded", so a
// string that is not a private key of the curve (0, or >= the group order N) has to be refused, and whatever is
// accepted must be usable and must export to the very bytes it was imported from.

type PrivRangeCase struct {
	Raw vt.Bytes `json:"raw"`
	Msg vt.Bytes `json:"msg"`
}

func genPrivRangeCase(t *rapid.T) PrivRangeCase {
	n := curveOf(curveR1).Params().N
	var d *big.Int
	switch rapid.IntRange(0, 7).Draw(t, "kind") {
	case 0:
		d = big.NewInt(int64(rapid.IntRange(0, 2).Draw(t, "small")))
	case 1, 2:
		d = new(big.Int).Add(n, big.NewInt(int64(rapid.IntRange(-2, 3).Draw(t, "around_n"))))
	case 3:
		d = new(big.Int).Sub(new(big.Int).Lsh(big.NewInt(1), 256), big.NewInt(int64(rapid.IntRange(1, 3).Draw(t, "top"))))
	case 4:
		d = new(big.Int).Add(n, new(big.Int).SetBytes(rapid.SliceOfN(rapid.Byte(), 1, 8).Draw(t, "above")))
	default:
		d = new(big.Int).SetBytes(rapid.SliceOfN(rapid.Byte(), 32, 32).Draw(t, "rnd"))
	}
	return PrivRangeCase{Raw: d.FillBytes(make([]byte, 32)), Msg: genMsg(t, "msg")}
}

func checkPrivRangeCase(c PrivRangeCase, o *vt.Obs) error {
	if len(c.Raw) != 32 {
		return nil
	}
	n := curveOf(curveR1).Params().N
	d := new(big.Int).SetBytes(c.Raw)
	valid := d.Sign() > 0 && d.Cmp(n) < 0
	o.Units(1)
	if d.Sign() == 0 && vt.Known(kfZeroScalar) {
		o.Excluded()
		o.Label("excl:" + kfZeroScalar)
		return nil
	}
	type importer struct {
		name string
		f    func() (*keys.PrivateKey, error)
	}
	wif := refBase58Check(append(append([]byte{0x80}, c.Raw...), 1))
	for _, im := range []importer{
		{"NewPrivateKeyFromBytes", func() (*keys.PrivateKey, error) { return keys.NewPrivateKeyFromBytes(bytes.Clone(c.Raw)) }},
		{"NewPrivateKeyFromHex", func() (*keys.PrivateKey, error) { return keys.NewPrivateKeyFromHex(fmt.Sprintf("%x", []byte(c.Raw))) }},
		{"NewPrivateKeyFromWIF", func() (*keys.PrivateKey, error) { return keys.NewPrivateKeyFromWIF(wif) }},
	} {
		k, err := im.f()
		if err != nil {
			if valid {
				return fmt.Errorf("%s refuses the valid private scalar %x: %v", im.name, []byte(c.Raw), err)
			}
			continue
		}
		what := "a scalar of the curve"
		if !valid {
			what = "NOT a private key of the curve (0 or >= the group order)"
		}
		if !bytes.Equal(k.Bytes(), c.Raw) {
			return fmt.Errorf("%s(%x) [%s] is accepted and exports as %x: private keys decode back to exactly what was encoded", im.name, []byte(c.Raw), what, k.Bytes())
		}
		sig := k.Sign(c.Msg)
		if !k.PublicKey().Verify(sig, hash.Sha256(c.Msg).BytesBE()) {
			return fmt.Errorf("%s(%x) [%s] is accepted, signs, and its own public key does not verify the signature", im.name, []byte(c.Raw), what)
		}
		pb := k.PublicKey().Bytes()
		back, err := keys.NewPublicKeyFromBytes(pb, curveOf(curveR1))
		if err != nil || !back.Equal(k.PublicKey()) {
			return fmt.Errorf("%s(%x) [%s] is accepted, its public key %x does not decode back to itself (%v)", im.name, []byte(c.Raw), what, pb, err)
		}
		if !valid {
			return fmt.Errorf("%s accepts %x, which is %s", im.name, []byte(c.Raw), what)
		}
	}
	if valid {
		o.Label("valid-scalar")
	} else {
		o.Label("out-of-range-scalar")
		o.NonTrivial()
	}
	return nil
}

// ---- public key decoding must not depend on what was decoded before -----------------------------------------------
//
// NewPublicKeyFromBytes keeps decoded keys in a cache. A key object handed out to a caller belongs to the caller: if
// the caller decodes something else INTO it (every public decoder of PublicKey works on the receiver; encoding/json
// reuses the elements of an existing list), later decodings of the first key's bytes must still give the first key.

type PubCacheCase struct {
	A  vt.Bytes `json:"a"`
	B  vt.Bytes `json:"b"`
	Op string   `json:"op"` // json-list | decode-bytes | unmarshal-json | decode-binary
}

func genPubCacheCase(t *rapid.T) PubCacheCase {
	return PubCacheCase{A: genKeySeed(t, curveR1, "a"), B: genKeySeed(t, curveR1, "b"),
		Op: rapid.SampledFrom([]string{"json-list", "decode-bytes", "unmarshal-json", "decode-binary"}).Draw(t, "op")}
}

// strictPubCache switches the exclusion of the listed finding off (probe).
var strictPubCache bool

func checkPubCacheCase(c PubCacheCase, o *vt.Obs) error {
	da, db := scalarOf(curveR1, c.A), scalarOf(curveR1, c.B)
	if da.Cmp(db) == 0 {
		return nil
	}
	if !strictPubCache && vt.Known(kfPubCache) {
		// listed finding: the reuse is not performed at all (it would poison the process-wide key cache for the
		// other sub-checks); counted
		o.Excluded()
		o.Label("excl:" + kfPubCache)
		return nil
	}
	enc := func(d *big.Int) []byte {
		x, y := curveOf(curveR1).ScalarBaseMult(d.FillBytes(make([]byte, 32)))
		return append([]byte{byte(2 + y.Bit(0))}, x.FillBytes(make([]byte, 32))...)
	}
	ea, eb := enc(da), enc(db)
	ka, err := keys.NewPublicKeyFromBytes(bytes.Clone(ea), curveOf(curveR1))
	if err != nil {
		return err
	}
	o.Units(1)
	switch c.Op {
	case "json-list":
		list := keys.PublicKeys{ka}
		if err := json.Unmarshal([]byte(fmt.Sprintf(`["%x"]`, eb)), &list); err != nil {
			return err
		}
	case "decode-bytes":
		if err := ka.DecodeBytes(bytes.Clone(eb)); err != nil {
			return err
		}
	case "unmarshal-json":
		if err := ka.UnmarshalJSON([]byte(fmt.Sprintf(`"%x"`, eb))); err != nil {
			return err
		}
	case "decode-binary":
		if err := ka.DecodeBytes(bytes.Clone(eb)); err != nil {
			return err
		}
	default:
		return nil
	}
	again, err := keys.NewPublicKeyFromBytes(bytes.Clone(ea), curveOf(curveR1))
	if err != nil {
		return err
	}
	if !bytes.Equal(again.Bytes(), ea) {
		return fmt.Errorf("after a key object obtained from NewPublicKeyFromBytes(%x) was reused by its owner to decode %x (%s), NewPublicKeyFromBytes(%x) returns the key %x", ea, eb, c.Op, ea, again.Bytes())
	}
	o.Label("op/" + c.Op)
	o.NonTrivial()
	return nil
}

// ---- VM integer encoder on a value shared between goroutines (STRESS with respect to scheduling) ------------------
//
// An encoder reads its argument. bigint.ToBytes / ToPreallocatedBytes of ONE *big.Int called from several goroutines
// (a balance kept in a native cache, a stack item shared by two VMs) must give the canonical encoding every time and
// leave the value as it was. The clause is schedule-independent; whether a defect shows depends on the scheduler.

type BigSharedCase struct {
	Mag   vt.Bytes `json:"mag"`
	Neg   bool     `json:"neg"`
	Procs int      `json:"procs"`
	Iters int      `json:"iters"`
}

func genBigSharedCase(t *rapid.T) BigSharedCase {
	return BigSharedCase{
		Mag:   rapid.SliceOfN(rapid.Byte(), 9, 32).Draw(t, "mag"),
		Neg:   rapid.IntRange(0, 3).Draw(t, "neg") != 0,
		Procs: rapid.IntRange(2, 4).Draw(t, "procs"),
		Iters: rapid.SampledFrom([]int{200, 1000, 3000}).Draw(t, "iters"),
	}
}

func checkBigSharedCase(c BigSharedCase, o *vt.Obs) error {
	if c.Procs < 2 || c.Procs > 8 || c.Iters < 1 || c.Iters > 10000 || len(c.Mag) > 32 {
		return nil
	}
	v := new(big.Int).SetBytes(c.Mag)
	if c.Neg {
		v.Neg(v)
	}
	if v.BitLen() > 255 {
		return nil
	}
	orig := new(big.Int).Set(v)
	want := refBigintBytes(orig)
	var (
		wg    sync.WaitGroup
		mu    sync.Mutex
		first error
	)
	start := make(chan struct{})
	for g := 0; g < c.Procs; g++ {
		wg.Add(1)
		go func(g int) {
			defer wg.Done()
			<-start
			buf := make([]byte, 0, 40)
			for i := 0; i < c.Iters; i++ {
				var got []byte
				if (i+g)%2 == 0 {
					got = bigint.ToBytes(v)
				} else {
					got = bigint.ToPreallocatedBytes(v, buf[:0])
				}
				if !bytes.Equal(got, want) {
					mu.Lock()
					if first == nil {
						first = fmt.Errorf("%d goroutines encoding the same big.Int %s: one call returned %x, the encoding is %x", c.Procs, orig, got, want)
					}
					mu.Unlock()
					return
				}
			}
		}(g)
	}
	close(start)
	wg.Wait()
	o.Units(c.Procs * c.Iters)
	if first != nil {
		return first
	}
	if v.Cmp(orig) != 0 {
		return fmt.Errorf("%d goroutines encoding the same big.Int: the value changed from %s to %s", c.Procs, orig, v)
	}
	if c.Neg {
		o.Label("negative-shared")
		o.NonTrivial()
	}
	return nil
}

// refBigintBytes: minimal two's complement, little endian (independent of the code under test).
func refBigintBytes(v *big.Int) []byte {
	if v.Sign() == 0 {
		return []byte{}
	}
	for n := 1; ; n++ {
		lim := new(big.Int).Lsh(big.NewInt(1), uint(8*n-1))
		if v.Cmp(lim) < 0 && v.Cmp(new(big.Int).Neg(lim)) >= 0 {
			t := new(big.Int).Set(v)
			if t.Sign() < 0 {
				t.Add(t, new(big.Int).Lsh(big.NewInt(1), uint(8*n)))
			}
			be := t.FillBytes(make([]byte, n))
			for i, j := 0, n-1; i < j; i, j = i+1, j-1 {
				be[i], be[j] = be[j], be[i]
			}
			return be
		}
	}
}

// ---- multisig contract: builder and parser agree on what a standard contract is ----------------------------------

type MultisigShapeCase struct {
	N       int `json:"n"`       // number of keys (big values aim at the 1024 limit)
	M       int `json:"m"`       //
	LongAt  int `json:"long_at"` // position of a "key" of LongLen bytes in a hand-made script (small n only), -1: none
	LongLen int `json:"long_len"`
	// WideCount > 0 (small n only, instead of the odd key): one count is pushed by a wider instruction than the builder
	// ever uses for it: odd - the signature count, even - the key count; (WideCount-1)/2: PUSHINT32, 64, 128, 256.
	WideCount int      `json:"wide_count,omitempty"`
	Seed      vt.Bytes `json:"seed"`
}

func genMultisigShapeCase(t *rapid.T) MultisigShapeCase {
	c := MultisigShapeCase{LongAt: -1, Seed: genKeySeed(t, curveR1, "seed")}
	if rapid.Bool().Draw(t, "big") {
		c.N = rapid.SampledFrom([]int{1023, 1024, 1025, 1026, 1100}).Draw(t, "bign")
		c.M = rapid.SampledFrom([]int{1, 3, c.N}).Draw(t, "bigm")
		return c
	}
	c.N = rapid.IntRange(1, 5).Draw(t, "n")
	c.M = rapid.IntRange(1, c.N).Draw(t, "m")
	c.LongAt = rapid.IntRange(0, c.N-1).Draw(t, "long_at")
	c.LongLen = rapid.SampledFrom([]int{32, 34, 35, 36, 40, 64, 65, 75}).Draw(t, "long_len")
	if rapid.IntRange(0, 2).Draw(t, "wide") == 0 {
		c.WideCount = rapid.IntRange(1, 8).Draw(t, "wide_count")
	}
	return c
}

func checkMultisigShapeCase(c MultisigShapeCase, o *vt.Obs) error {
	if c.N < 1 || c.N > 1200 || len(c.Seed) != 32 {
		return nil
	}
	base := scalarOf(curveR1, c.Seed)
	o.Units(1)
	if c.LongAt < 0 {
		// many keys: consecutive scalars (cheap, distinct)
		var pubs keys.PublicKeys
		gx, gy := curveOf(curveR1).ScalarBaseMult(base.FillBytes(make([]byte, 32)))
		x, y := new(big.Int).Set(gx), new(big.Int).Set(gy)
		bx, by := curveOf(curveR1).Params().Gx, curveOf(curveR1).Params().Gy
		for i := 0; i < c.N; i++ {
			enc := append([]byte{byte(2 + y.Bit(0))}, x.FillBytes(make([]byte, 32))...)
			p, err := keys.NewPublicKeyFromBytes(enc, curveOf(curveR1))
			if err != nil {
				return fmt.Errorf("harness: key %d: %v", i, err)
			}
			pubs = append(pubs, p)
			x, y = curveOf(curveR1).Add(x, y, bx, by)
		}
		if c.N > 1024 && vt.Known(kfMultisigKeyLimit) {
			o.Excluded()
			o.Label("excl:" + kfMultisigKeyLimit)
			return nil
		}
		script, err := smartcontract.CreateMultiSigRedeemScript(c.M, pubs)
		o.Labelf("many-keys n=%d", c.N)
		if err != nil {
			if c.N <= 1024 && c.M >= 1 && c.M <= c.N {
				return fmt.Errorf("CreateMultiSigRedeemScript(m=%d, %d keys) fails: %v", c.M, c.N, err)
			}
			o.NonTrivial()
			return nil
		}
		gm, gk, ok := scparser.ParseMultiSigContract(script)
		if !ok || gm != c.M || len(gk) != c.N {
			return fmt.Errorf("CreateMultiSigRedeemScript(m=%d, %d keys) returns a script that ParseMultiSigContract does not read back (ok=%v m=%d keys=%d): builder and parser disagree on the key limit", c.M, c.N, ok, gm, len(gk))
		}
		o.NonTrivial()
		return nil
	}
	// a hand-made script of the multisig shape with one "key" of another length
	wide := func(v int) []byte {
		i := (c.WideCount - 1) / 2 % 4
		b := make([]byte, 1+(4<<uint(i)))
		b[0] = byte(opPUSHINT8 + 2 + i)
		b[1] = byte(v)
		return b
	}
	var script []byte
	if c.WideCount > 0 && c.WideCount%2 == 1 {
		script = append(script, wide(c.M)...)
	} else {
		script = append(script, refPushSmall(c.M)...)
	}
	for i := 0; i < c.N; i++ {
		d := new(big.Int).Add(base, big.NewInt(int64(i)))
		d.Mod(d, curveOf(curveR1).Params().N)
		if d.Sign() == 0 {
			d.SetInt64(1)
		}
		x, y := curveOf(curveR1).ScalarBaseMult(d.FillBytes(make([]byte, 32)))
		enc := append([]byte{byte(2 + y.Bit(0))}, x.FillBytes(make([]byte, 32))...)
		if i == c.LongAt && c.WideCount == 0 {
			for len(enc) < c.LongLen {
				enc = append(enc, byte(len(enc)))
			}
			enc = enc[:c.LongLen]
		}
		script = append(script, opPUSHDATA1, byte(len(enc)))
		script = append(script, enc...)
	}
	if c.WideCount > 0 && c.WideCount%2 == 0 {
		script = append(script, wide(c.N)...)
	} else {
		script = append(script, refPushSmall(c.N)...)
	}
	script = append(script, opSYSCALL)
	script = append(script, interopID("System.Crypto.CheckMultisig")...)
	if c.WideCount > 0 {
		// same numbers for the VM, a spelling the builder never produces (and the fee calculator does not price)
		o.Labelf("wide-count-push %x", wide(1)[0])
		if m, ks, ok := scparser.ParseMultiSigContract(script); ok {
			return fmt.Errorf("ParseMultiSigContract accepts a script whose %s count is pushed by opcode %#x (m=%d, %d keys): CreateMultiSigRedeemScript pushes counts with PUSH1..PUSH16, PUSHINT8 or PUSHINT16 only, fee.Calculate prices those", map[bool]string{true: "signature", false: "key"}[c.WideCount%2 == 1], wide(1)[0], m, len(ks))
		}
		if scparser.IsMultiSigContract(script) || scparser.IsStandardContract(script) {
			return fmt.Errorf("Is*Contract classify a script with a wide count push as standard")
		}
		o.NonTrivial()
		return nil
	}
	o.Labelf("odd-key-length %d", c.LongLen)
	if m, ks, ok := scparser.ParseMultiSigContract(script); ok {
		return fmt.Errorf("ParseMultiSigContract accepts a script whose key %d is %d bytes long (m=%d, %d keys, key %x): a standard multisig contract holds 33-byte keys only (CreateMultiSigRedeemScript cannot produce this script)", c.LongAt, c.LongLen, m, len(ks), ks[c.LongAt])
	}
	if scparser.IsMultiSigContract(script) || scparser.IsStandardContract(script) {
		return fmt.Errorf("Is*Contract classify a script with a %d-byte key as standard", c.LongLen)
	}
	o.NonTrivial()
	return nil
}

func init() {
	vt.Register("privkey_range", 0.05, genPrivRangeCase, checkPrivRangeCase)
	vt.Register("pubkey_cache", 0.05, genPubCacheCase, checkPubCacheCase)
	vt.Register("bigint_shared", 0.004, genBigSharedCase, checkBigSharedCase)
	vt.Register("multisig_shape", 0.02, genMultisigShapeCase, checkMultisigShapeCase)
}
