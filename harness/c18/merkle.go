package c18

import (
	"crypto/sha256"
	"fmt"

	"github.com/nspcc-dev/neo-go/pkg/crypto/hash"
	"github.com/nspcc-dev/neo-go/pkg/util"
	"pgregory.net/rapid"
	"verifharness/vt"
)

// MerkleCase: the hash list is leaf(Idx[0]), leaf(Idx[1]), ... with leaf(i) = sha256("c18 leaf" || i); a small index alphabet
// makes equal neighbours (and the classic duplicate-last-element coincidences) frequent.
type MerkleCase struct {
	Idx []int `json:"idx"`
}

func genMerkleCase(t *rapid.T) MerkleCase {
	n := rapid.IntRange(1, 70).Draw(t, "n")
	switch rapid.IntRange(0, 19).Draw(t, "empty") {
	case 0, 1:
		n = 0
	case 2, 3:
		// block-sized lists (MaxTransactionsPerBlock is 512 on the public networks, the format allows 65535): around the
		// powers of two, where the shape of the tree changes
		n = rapid.SampledFrom([]int{128, 256, 512, 1024, 2048}).Draw(t, "pow") + rapid.IntRange(-3, 3).Draw(t, "off")
	case 4:
		n = rapid.IntRange(71, 5000).Draw(t, "big")
	}
	alpha := rapid.SampledFrom([]int{2, 4, 1000}).Draw(t, "alphabet")
	c := MerkleCase{Idx: []int{}}
	for i := 0; i < n; i++ {
		c.Idx = append(c.Idx, rapid.IntRange(0, alpha-1).Draw(t, "i"))
	}
	return c
}

func leaf(i int) util.Uint256 {
	return util.Uint256(sha256.Sum256([]byte(fmt.Sprintf("c18 leaf %d", i))))
}

// refMerkle is the recursive definition: the root of one hash is the hash itself; otherwise hash neighbours pairwise with
// double SHA-256 of the 64-byte concatenation, the last one paired with itself at odd length, and recurse.
func refMerkle(l [][32]byte) [32]byte {
	if len(l) == 1 {
		return l[0]
	}
	var up [][32]byte
	for i := 0; i < len(l); i += 2 {
		r := l[i]
		if i+1 < len(l) {
			r = l[i+1]
		}
		up = append(up, sha256d(append(append([]byte{}, l[i][:]...), r[:]...)))
	}
	return refMerkle(up)
}

func checkMerkleCase(c MerkleCase, o *vt.Obs) error {
	n := len(c.Idx)
	if n > 70000 {
		return fmt.Errorf("case: too many hashes")
	}
	list := make([]util.Uint256, n)
	ref := make([][32]byte, n)
	for i, x := range c.Idx {
		list[i] = leaf(x)
		ref[i] = list[i]
	}
	if n == 0 {
		if _, err := hash.NewMerkleTree(list); err == nil {
			return fmt.Errorf("NewMerkleTree of an empty list succeeds")
		}
		if _, err := hash.NewMerkleTree(nil); err == nil {
			return fmt.Errorf("NewMerkleTree(nil) succeeds")
		}
		_ = hash.CalcMerkleRoot(list) // must not panic
		o.Label("empty")
		return nil
	}
	want := util.Uint256(refMerkle(ref))
	forTree := append([]util.Uint256{}, list...)
	tree, err := hash.NewMerkleTree(forTree)
	if err != nil {
		return fmt.Errorf("NewMerkleTree of %d hashes: %v", n, err)
	}
	if got := tree.Root(); got != want {
		return fmt.Errorf("NewMerkleTree(%d hashes).Root() = %s, the recursive definition gives %s", n, got.StringBE(), want.StringBE())
	}
	for i := range forTree {
		if forTree[i] != list[i] {
			return fmt.Errorf("NewMerkleTree changed element %d of its input", i)
		}
	}
	// CalcMerkleRoot documents that it uses its argument as scratch space: hand it a copy
	scratch := append([]util.Uint256{}, list...)
	if got := hash.CalcMerkleRoot(scratch); got != want {
		return fmt.Errorf("CalcMerkleRoot(%d hashes) = %s, the recursive definition gives %s", n, got.StringBE(), want.StringBE())
	}
	// a scratch slice with spare capacity must not be written beyond its length
	big := make([]util.Uint256, n+2)
	copy(big, list)
	sentinel := leaf(-1)
	big[n], big[n+1] = sentinel, sentinel
	if got := hash.CalcMerkleRoot(big[:n]); got != want {
		return fmt.Errorf("CalcMerkleRoot on a slice with spare capacity = %s, want %s", got.StringBE(), want.StringBE())
	}
	if big[n] != sentinel || big[n+1] != sentinel {
		return fmt.Errorf("CalcMerkleRoot wrote beyond the length of its argument")
	}
	odd, lv := false, n
	for lv > 1 {
		if lv%2 == 1 {
			odd = true
		}
		lv = (lv + 1) / 2
	}
	if odd {
		o.Label("odd-length-level")
		o.NonTrivial()
	} else {
		o.Label("power-of-two")
	}
	if n == 1 {
		o.Label("single")
	}
	for i := 1; i < n; i++ {
		if c.Idx[i] == c.Idx[i-1] {
			o.Label("equal-neighbours")
			break
		}
	}
	if n < 70 {
		o.Labelf("n=%d..%d", n/10*10, n/10*10+9)
	} else {
		o.Label("n>=70")
		if n >= 255 {
			o.Label("n>=255")
		}
	}
	return nil
}
