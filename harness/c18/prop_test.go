package c18

import (
	"testing"

	"verifharness/vt"
)

func TestProp(t *testing.T) {
	probeKnownFindings(t)
	vt.RunAll(t, 6000)
}

func TestReplay(t *testing.T) { vt.ReplayAll(t) }
