package c18

import (
	"bytes"
	"crypto/sha256"
	"fmt"
	"math"
	"math/big"
	"testing"

	"github.com/nspcc-dev/neo-go/pkg/crypto/keys"
	"github.com/nspcc-dev/neo-go/pkg/encoding/address"
	"github.com/nspcc-dev/neo-go/pkg/encoding/fixedn"
	"github.com/nspcc-dev/neo-go/pkg/smartcontract"
	"github.com/nspcc-dev/neo-go/pkg/smartcontract/scparser"
	"verifharness/vt"
)

// finding is a deterministic minimal reproduction of one genuine defect seen by the checks of this package.
// repro returns a description when the defect is present in the tree under test, "" when it is not.
type finding struct {
	key   string
	repro func() string
}

var findingProbes = []finding{
	{kfNegFraction, func() string {
		var out string
		if s := fixedn.ToString(big.NewInt(-1), 1); s != "-0.1" {
			out += fmt.Sprintf("fixedn.ToString(-1, 1) = %q (want \"-0.1\"); ", s)
		}
		if v, err := fixedn.FromString("-0.5", 8); err == nil && v.Sign() > 0 {
			out += fmt.Sprintf("fixedn.FromString(\"-0.5\", 8) = %s (want -50000000); ", v)
		}
		if f, err := fixedn.Fixed8FromString(fixedn.Fixed8(-1).String()); err == nil && f != -1 {
			out += fmt.Sprintf("Fixed8FromString(Fixed8(-1).String() = %q) = %d; ", fixedn.Fixed8(-1).String(), int64(f))
		}
		return out
	}},
	{kfFixed8Min, func() string {
		if s := fixedn.Fixed8(math.MinInt64).String(); s != "-92233720368.54775808" {
			return fmt.Sprintf("Fixed8(MinInt64).String() = %q (want \"-92233720368.54775808\")", s)
		}
		return ""
	}},
	{kfFracOver64, func() string {
		v, _ := new(big.Int).SetString("120000000000000000000000000", 10) // 1.2 at precision 26
		if s := fixedn.ToString(v, 26); s != "1.2" {
			return fmt.Sprintf("fixedn.ToString(12*10^25, 26) = %q (want \"1.2\")", s)
		}
		return ""
	}},
	{kfSigMalleable, func() string {
		priv, err := privOf("p256", big.NewInt(0x1234567))
		if err != nil {
			return ""
		}
		digest := sha256.Sum256([]byte("verif"))
		sig := priv.SignHash(digest)
		alt := append([]byte{}, sig...)
		new(big.Int).Sub(curveOf("p256").Params().N, new(big.Int).SetBytes(sig[32:])).FillBytes(alt[32:])
		if priv.PublicKey().Verify(alt, digest[:]) {
			return "PublicKey.Verify accepts the altered signature (r, N-s) of every valid (r, s): ECDSA malleability, no low-S rule (consensus behaviour shared with the reference node)"
		}
		return ""
	}},
	{kfZeroScalar, func() string {
		k, err := keys.NewPrivateKeyFromBytes(make([]byte, 32))
		if err != nil {
			return ""
		}
		digest := sha256.Sum256([]byte("verif"))
		if !k.PublicKey().Verify(k.SignHash(digest), digest[:]) {
			return "NewPrivateKeyFromBytes (WIF, hex, NEP-2) accepts the scalar 0: the key signs, nothing it signs verifies, its public key (0,0) is encoded as 02 00..00, which decodes to another point (the existing test TestBadWIFDecode requires the WIF of the zero key to decode, so the repair that refuses scalars >= N could not include 0)"
		}
		return ""
	}},
	{kfPubCache, func() string {
		// keys nobody else uses (scalars 2^200+1 / +2), and the cache entry is put right again afterwards
		a := new(big.Int).Add(new(big.Int).Lsh(big.NewInt(1), 200), big.NewInt(1))
		b := new(big.Int).Add(a, big.NewInt(1))
		enc := func(d *big.Int) []byte {
			x, y := curveOf(curveR1).ScalarBaseMult(d.FillBytes(make([]byte, 32)))
			return append([]byte{byte(2 + y.Bit(0))}, x.FillBytes(make([]byte, 32))...)
		}
		ea, eb := enc(a), enc(b)
		ka, err := keys.NewPublicKeyFromBytes(ea, curveOf(curveR1))
		if err != nil {
			return ""
		}
		if err := ka.DecodeBytes(eb); err != nil {
			return ""
		}
		again, err := keys.NewPublicKeyFromBytes(ea, curveOf(curveR1))
		poisoned := err == nil && !bytes.Equal(again.Bytes(), ea)
		_ = ka.DecodeBytes(ea) // restore the shared entry
		if poisoned {
			return "after the owner of a key obtained from NewPublicKeyFromBytes(A) decoded key B into it (DecodeBytes), NewPublicKeyFromBytes(A) returns B: the cache entry is the object handed out (the repair breaks the existing test TestNewPublicKeyFromBytes, which requires a cached access to return the same pointer)"
		}
		return ""
	}},
	{kfMultisigKeyLimit, func() string {
		var pubs keys.PublicKeys
		x, y := curveOf(curveR1).Params().Gx, curveOf(curveR1).Params().Gy
		for i := 0; i < 1025; i++ {
			p, err := keys.NewPublicKeyFromBytes(append([]byte{byte(2 + y.Bit(0))}, x.FillBytes(make([]byte, 32))...), curveOf(curveR1))
			if err != nil {
				return ""
			}
			pubs = append(pubs, p)
			x, y = curveOf(curveR1).Add(x, y, curveOf(curveR1).Params().Gx, curveOf(curveR1).Params().Gy)
		}
		script, err := smartcontract.CreateMultiSigRedeemScript(1, pubs)
		if err != nil {
			return ""
		}
		if _, _, ok := scparser.ParseMultiSigContract(script); !ok {
			return "CreateMultiSigRedeemScript(1, 1025 keys) returns a script although the limit is 1024 KEYS (it tests m): ParseMultiSigContract and the VM refuse it (the existing test TestIsMultiSigContract/too_many_keys builds its input with this call, so the one-line repair breaks the unedited suite)"
		}
		return ""
	}},
	{kfAddressLength, func() (out string) {
		defer func() {
			if r := recover(); r != nil {
				out = fmt.Sprintf("address.StringToUint160(%q) (Base58Check of the single byte 0x35) panics: %v", refBase58Check([]byte{address.NEO3Prefix}), r)
			}
		}()
		long := append([]byte{address.NEO3Prefix}, make([]byte, 25)...)
		if _, err := address.StringToUint160(refBase58Check(long)); err == nil {
			out = "address.StringToUint160 accepts a Base58Check string with a 26-byte payload; "
		}
		if _, err := address.StringToUint160(refBase58Check([]byte{address.NEO3Prefix})); err == nil {
			out += "address.StringToUint160 accepts a 1-byte payload"
		}
		return out
	}},
}

// probeKnownFindings re-confirms every finding listed as "known" (DESIGN 1.4) and prints the KNOWN-FINDING line;
// unlisted findings are left to the property checks, which report them as violations.
func probeKnownFindings(t *testing.T) {
	for _, f := range findingProbes {
		what := f.repro()
		switch {
		case what != "" && vt.Known(f.key):
			vt.KnownFinding(f.key, what)
		case what == "" && vt.Known(f.key):
			t.Logf("finding %s is listed as known but does not reproduce any more: its exclusion hides nothing, remove the entry", f.key)
		}
	}
}
