package c18

import (
	"bytes"
	"encoding/hex"
	"encoding/json"
	"fmt"
	"math"
	"math/big"
	"regexp"
	"strings"

	"github.com/nspcc-dev/neo-go/pkg/encoding/address"
	"github.com/nspcc-dev/neo-go/pkg/encoding/base58"
	"github.com/nspcc-dev/neo-go/pkg/encoding/fixedn"
	"github.com/nspcc-dev/neo-go/pkg/io"
	"github.com/nspcc-dev/neo-go/pkg/util"
	"pgregory.net/rapid"
	"verifharness/vt"
)

// ---- address <-> script hash ----------------------------------------------------------------------------------

// AddressCase: encode Hash under Prefix, decode, decode under Other, tamper, and decode a Base58Check string whose
// payload has Len bytes instead of 21.
type AddressCase struct {
	Hash   vt.Bytes `json:"hash"`
	Prefix byte     `json:"prefix"`
	Other  byte     `json:"other"`
	Pos    int      `json:"pos"`
	Sub    int      `json:"sub"`
	Len    int      `json:"len"`
}

func genHashBytes(t *rapid.T, n int, label string) vt.Bytes {
	switch rapid.IntRange(0, 11).Draw(t, label+"_kind") {
	case 0:
		return make([]byte, n)
	case 1:
		return bytes.Repeat([]byte{0xff}, n)
	case 2, 3, 4: // leading zero bytes
		b := rapid.SliceOfN(rapid.Byte(), n, n).Draw(t, label)
		z := rapid.IntRange(1, n).Draw(t, label+"_z")
		for i := 0; i < z; i++ {
			b[i] = 0
		}
		return b
	default:
		return rapid.SliceOfN(rapid.Byte(), n, n).Draw(t, label)
	}
}

func genAddressCase(t *rapid.T) AddressCase {
	c := AddressCase{
		Hash:   genHashBytes(t, 20, "hash"),
		Prefix: rapid.SampledFrom([]byte{address.NEO3Prefix, address.NEO3Prefix, address.NEO3Prefix, address.NEO2Prefix, 0x00, 0xff, 0x42}).Draw(t, "prefix"),
		Other:  rapid.SampledFrom([]byte{address.NEO3Prefix, address.NEO2Prefix, 0x00, 0x36}).Draw(t, "other"),
		Pos:    rapid.IntRange(0, 40).Draw(t, "pos"),
		Sub:    rapid.IntRange(1, 57).Draw(t, "sub"),
		Len:    21,
	}
	if !vt.Known(kfAddressLength) && rapid.IntRange(0, 3).Draw(t, "badlen") == 0 {
		c.Len = rapid.SampledFrom([]int{1, 2, 5, 9, 11, 17, 20, 22, 25, 33, 40}).Draw(t, "len")
	}
	return c
}

func checkAddressCase(c AddressCase, o *vt.Obs) (err error) {
	saved := address.Prefix
	defer func() { address.Prefix = saved }()
	address.Prefix = c.Prefix

	u, err := util.Uint160DecodeBytesBE(c.Hash)
	if err != nil {
		return fmt.Errorf("Uint160DecodeBytesBE: %v", err)
	}
	s := address.Uint160ToString(u)
	if want := refBase58Check(append([]byte{c.Prefix}, c.Hash...)); s != want {
		return fmt.Errorf("Uint160ToString(%x) under prefix %#x = %s, Base58Check gives %s", c.Hash, c.Prefix, s, want)
	}
	back, err := address.StringToUint160(s)
	if err != nil {
		return fmt.Errorf("StringToUint160(Uint160ToString(%x)): %v", c.Hash, err)
	}
	if back != u {
		return fmt.Errorf("address round trip gives %x, want %x", back.BytesBE(), c.Hash)
	}
	if c.Other != c.Prefix {
		address.Prefix = c.Other
		if got, err := address.StringToUint160(s); err == nil {
			return fmt.Errorf("address %s of prefix %#x decodes under prefix %#x to %x", s, c.Prefix, c.Other, got.BytesBE())
		}
		address.Prefix = c.Prefix
		o.Label("other-prefix")
	}
	pos := c.Pos % len(s)
	idx := strings.IndexByte(b58Alphabet, s[pos])
	alt := s[:pos] + string(b58Alphabet[(idx+c.Sub)%58]) + s[pos+1:]
	if got, err := address.StringToUint160(alt); err == nil {
		return fmt.Errorf("tampered address %s (from %s) decodes to %x", alt, s, got.BytesBE())
	}
	if c.Len != 21 {
		if vt.Known(kfAddressLength) {
			o.Excluded()
		} else {
			// A string with a valid checksum whose payload is not prefix + 20 bytes is not an address: the contract of
			// StringToUint160 ("attempts to decode ... into a Uint160", error result) is an error, not a panic and not a hash.
			payload := []byte{c.Prefix}
			for i := 1; i < c.Len; i++ {
				payload = append(payload, c.Hash[(i-1)%20]^byte(i/20))
			}
			bad := refBase58Check(payload)
			if got, err := address.StringToUint160(bad); err == nil {
				return fmt.Errorf("Base58Check string %s with a %d-byte payload decodes as address to %x", bad, c.Len, got.BytesBE())
			}
			o.Label("bad-payload-length")
		}
	}
	o.Labelf("prefix=%#x", c.Prefix)
	if c.Hash[0] == 0 {
		o.Label("hash-with-leading-zero")
	}
	o.NonTrivial()
	return nil
}

// ---- Base58Check ------------------------------------------------------------------------------------------------

// Base58Case: payload = Zeros zero bytes followed by Data (possibly empty: the format has no minimum length).
type Base58Case struct {
	Zeros int      `json:"zeros"`
	Data  vt.Bytes `json:"data"`
	Pos   int      `json:"pos"`
	Sub   int      `json:"sub"`
	Junk  string   `json:"junk"`
}

func genBase58Case(t *rapid.T) Base58Case {
	c := Base58Case{
		Zeros: rapid.SampledFrom([]int{0, 0, 0, 1, 2, 3, 7}).Draw(t, "zeros"),
		Pos:   rapid.IntRange(0, 200).Draw(t, "pos"),
		Sub:   rapid.IntRange(1, 57).Draw(t, "sub"),
		Junk:  rapid.SampledFrom([]string{"0", "O", "I", "l", " ", "\n", "+", "/", "\x00", "\x80", "é"}).Draw(t, "junk"),
	}
	switch rapid.IntRange(0, 4).Draw(t, "kind") {
	case 0:
		c.Data = rapid.SliceOfN(rapid.SampledFrom([]byte{0, 1, 57, 58, 0xff}), 0, 6).Draw(t, "small")
	case 1:
		c.Data = rapid.SliceOfN(rapid.Byte(), 20, 40).Draw(t, "mid")
	default:
		c.Data = rapid.SliceOfN(rapid.Byte(), 0, 70).Draw(t, "data")
	}
	return c
}

func checkBase58Case(c Base58Case, o *vt.Obs) error {
	b := append(make([]byte, c.Zeros), c.Data...)
	if len(b) == 0 {
		o.Label("empty-payload")
	}
	// the argument is a sub-slice of a larger buffer: the encoder must not write behind it
	buf := append(bytes.Clone(b), 0xa5, 0xa5, 0xa5, 0xa5, 0xa5, 0xa5)
	arg := buf[:len(b)]
	s := base58.CheckEncode(arg)
	if !bytes.Equal(arg, b) {
		return fmt.Errorf("CheckEncode mutated its input: %x -> %x", b, arg)
	}
	if !bytes.Equal(buf[len(b):], []byte{0xa5, 0xa5, 0xa5, 0xa5, 0xa5, 0xa5}) {
		return fmt.Errorf("CheckEncode(%x) wrote behind its argument (spare capacity of the caller's buffer): %x", b, buf[len(b):])
	}
	if want := refBase58Check(b); s != want {
		return fmt.Errorf("CheckEncode(%x) = %q, Base58Check gives %q", b, s, want)
	}
	lz := 0
	for lz < len(b) && b[lz] == 0 {
		lz++
	}
	l1 := 0
	for l1 < len(s) && s[l1] == '1' {
		l1++
	}
	if l1 != lz {
		return fmt.Errorf("CheckEncode(%x): %d leading '1' for %d leading zero bytes", b, l1, lz)
	}
	back, err := base58.CheckDecode(s)
	if err != nil {
		return fmt.Errorf("CheckDecode(CheckEncode(%x)): %v", b, err)
	}
	if !bytes.Equal(back, b) {
		return fmt.Errorf("Base58Check round trip of %x gives %x", b, back)
	}
	// altered strings
	pos := c.Pos % len(s)
	idx := strings.IndexByte(b58Alphabet, s[pos])
	alts := []string{
		s[:pos] + string(b58Alphabet[(idx+c.Sub)%58]) + s[pos+1:], // substituted character
		"1" + s,                      // one more leading zero byte
		s[:pos] + c.Junk + s[pos:],   // character outside the alphabet
		s[:pos] + s[pos+1:],          // dropped character
		s + string(b58Alphabet[idx]), // appended character
	}
	if lz > 0 {
		alts = append(alts, s[1:]) // one leading zero byte less
	}
	for i, alt := range alts {
		if got, err := base58.CheckDecode(alt); err == nil {
			return fmt.Errorf("altered string #%d %q (from %q) decodes to %x", i, alt, s, got)
		}
	}
	// too short for a checksum
	for _, short := range []string{"", "1", "2g", "1111", "3yQ", "3QJmn"} {
		if got, err := base58.CheckDecode(short); err == nil {
			return fmt.Errorf("CheckDecode(%q) = %x without error", short, got)
		}
	}
	o.Units(len(alts) + 1)
	if lz > 0 {
		o.Labelf("leading-zeros")
		o.NonTrivial()
	} else {
		o.Label("no-leading-zero")
	}
	if lz == len(b) {
		o.Label("all-zero-payload")
	}
	return nil
}

// ---- Uint160 / Uint256 ----------------------------------------------------------------------------------------

// UintCase: B[:20] is the 160-bit value, B the 256-bit value; Bad is a malformed string / length for the rejection clauses.
type UintCase struct {
	B     vt.Bytes `json:"b"`
	C     vt.Bytes `json:"c"` // second value for comparisons
	BadN  int      `json:"bad_n"`
	BadCh string   `json:"bad_ch"`
	Pos   int      `json:"pos"`
}

func genUintCase(t *rapid.T) UintCase {
	c := UintCase{B: genHashBytes(t, 32, "b")}
	if rapid.IntRange(0, 2).Draw(t, "near") == 0 {
		c.C = flipBit(c.B, rapid.IntRange(0, 255).Draw(t, "cbit"))
	} else {
		c.C = genHashBytes(t, 32, "c")
	}
	c.BadN = rapid.SampledFrom([]int{0, 1, 19, 21, 31, 33, 64}).Draw(t, "badn")
	c.BadCh = rapid.SampledFrom([]string{"g", "G", " ", "x", "-", "\x00", "é"}).Draw(t, "badch")
	c.Pos = rapid.IntRange(0, 63).Draw(t, "pos")
	return c
}

func checkUintCase(c UintCase, o *vt.Obs) error {
	if len(c.B) != 32 || len(c.C) != 32 {
		return fmt.Errorf("case: need 32 bytes")
	}
	// ---------------- Uint256
	{
		be := bytes.Clone(c.B)
		le := reversed(be)
		u, err := util.Uint256DecodeBytesBE(be)
		if err != nil {
			return fmt.Errorf("Uint256DecodeBytesBE: %v", err)
		}
		in := bytes.Clone(le)
		ul, err := util.Uint256DecodeBytesLE(in)
		if err != nil {
			return fmt.Errorf("Uint256DecodeBytesLE: %v", err)
		}
		if !bytes.Equal(in, le) {
			return fmt.Errorf("Uint256DecodeBytesLE mutated its input")
		}
		if u != ul || !u.Equals(ul) {
			return fmt.Errorf("Uint256: DecodeBytesBE(b) != DecodeBytesLE(reverse(b)) for %x", be)
		}
		if err := eqBytes("Uint256.BytesBE", u.BytesBE(), be); err != nil {
			return err
		}
		if err := eqBytes("Uint256.BytesLE", u.BytesLE(), le); err != nil {
			return err
		}
		if err := eqBytes("Uint256.BytesBE after BytesLE", u.BytesBE(), be); err != nil {
			return err
		}
		if u.StringBE() != hex.EncodeToString(be) || u.String() != u.StringBE() || u.StringLE() != hex.EncodeToString(le) {
			return fmt.Errorf("Uint256 strings: BE %s LE %s String %s for %x", u.StringBE(), u.StringLE(), u.String(), be)
		}
		if v, err := util.Uint256DecodeStringBE(u.StringBE()); err != nil || v != u {
			return fmt.Errorf("Uint256DecodeStringBE(StringBE) = %x, %v", v.BytesBE(), err)
		}
		if v, err := util.Uint256DecodeStringLE(u.StringLE()); err != nil || v != u {
			return fmt.Errorf("Uint256DecodeStringLE(StringLE) = %x, %v", v.BytesBE(), err)
		}
		if v, err := util.Uint256DecodeStringBE(strings.ToUpper(u.StringBE())); err != nil || v != u {
			return fmt.Errorf("Uint256DecodeStringBE(upper case) = %x, %v", v.BytesBE(), err)
		}
		if r := u.Reverse(); !bytes.Equal(r.BytesBE(), le) || r.Reverse() != u {
			return fmt.Errorf("Uint256.Reverse: %x", r.BytesBE())
		}
		js, err := json.Marshal(u)
		if err != nil || string(js) != `"0x`+hex.EncodeToString(le)+`"` {
			return fmt.Errorf("Uint256.MarshalJSON = %s, %v", js, err)
		}
		var v util.Uint256
		if err := json.Unmarshal(js, &v); err != nil || v != u {
			return fmt.Errorf("Uint256 JSON round trip = %x, %v", v.BytesBE(), err)
		}
		v = util.Uint256{}
		if err := json.Unmarshal([]byte(`"`+hex.EncodeToString(le)+`"`), &v); err != nil || v != u {
			return fmt.Errorf("Uint256 JSON without 0x = %x, %v", v.BytesBE(), err)
		}
		w := io.NewBufBinWriter()
		u.EncodeBinary(w.BinWriter)
		if err := eqBytes("Uint256.EncodeBinary", w.Bytes(), be); err != nil {
			return err
		}
		v = util.Uint256{}
		r := io.NewBinReaderFromBuf(be)
		v.DecodeBinary(r)
		if r.Err != nil || v != u {
			return fmt.Errorf("Uint256.DecodeBinary = %x, %v", v.BytesBE(), r.Err)
		}
		u2, _ := util.Uint256DecodeBytesBE(c.C)
		if got, want := u.Compare(u2), bytes.Compare(c.B, c.C); got != want {
			return fmt.Errorf("Uint256.Compare = %d, want %d", got, want)
		}
		// rejections
		if c.BadN != 32 {
			bad := make([]byte, c.BadN)
			if _, err := util.Uint256DecodeBytesBE(bad); err == nil {
				return fmt.Errorf("Uint256DecodeBytesBE accepts %d bytes", c.BadN)
			}
			if _, err := util.Uint256DecodeBytesLE(bad); err == nil {
				return fmt.Errorf("Uint256DecodeBytesLE accepts %d bytes", c.BadN)
			}
			hs := hex.EncodeToString(bad)
			if _, err := util.Uint256DecodeStringBE(hs); err == nil {
				return fmt.Errorf("Uint256DecodeStringBE accepts %d characters", len(hs))
			}
			if _, err := util.Uint256DecodeStringLE(hs); err == nil {
				return fmt.Errorf("Uint256DecodeStringLE accepts %d characters", len(hs))
			}
		}
		hs := u.StringBE()
		p := c.Pos % 64
		for _, bad := range []string{hs[:p] + c.BadCh + hs[p+1:], hs[:63], hs + "0"} {
			if len(bad) == 64 && !strings.ContainsAny(bad, "gGx- \x00\xc3") {
				continue
			}
			if v, err := util.Uint256DecodeStringBE(bad); err == nil {
				return fmt.Errorf("Uint256DecodeStringBE(%q) = %x without error", bad, v.BytesBE())
			}
			if v, err := util.Uint256DecodeStringLE(bad); err == nil {
				return fmt.Errorf("Uint256DecodeStringLE(%q) = %x without error", bad, v.BytesBE())
			}
			if err := json.Unmarshal([]byte(`"0x`+strings.ReplaceAll(bad, "\x00", "?")+`"`), &v); err == nil {
				return fmt.Errorf("Uint256.UnmarshalJSON(%q) without error", bad)
			}
		}
	}
	// ---------------- Uint160
	{
		be := bytes.Clone(c.B[:20])
		le := reversed(be)
		u, err := util.Uint160DecodeBytesBE(be)
		if err != nil {
			return fmt.Errorf("Uint160DecodeBytesBE: %v", err)
		}
		in := bytes.Clone(le)
		ul, err := util.Uint160DecodeBytesLE(in)
		if err != nil {
			return fmt.Errorf("Uint160DecodeBytesLE: %v", err)
		}
		if !bytes.Equal(in, le) {
			return fmt.Errorf("Uint160DecodeBytesLE mutated its input")
		}
		if u != ul || !u.Equals(ul) {
			return fmt.Errorf("Uint160: DecodeBytesBE(b) != DecodeBytesLE(reverse(b)) for %x", be)
		}
		if err := eqBytes("Uint160.BytesBE", u.BytesBE(), be); err != nil {
			return err
		}
		if err := eqBytes("Uint160.BytesLE", u.BytesLE(), le); err != nil {
			return err
		}
		if err := eqBytes("Uint160.BytesBE after BytesLE", u.BytesBE(), be); err != nil {
			return err
		}
		if u.StringBE() != hex.EncodeToString(be) || u.String() != u.StringBE() || u.StringLE() != hex.EncodeToString(le) {
			return fmt.Errorf("Uint160 strings: BE %s LE %s String %s for %x", u.StringBE(), u.StringLE(), u.String(), be)
		}
		if v, err := util.Uint160DecodeStringBE(u.StringBE()); err != nil || v != u {
			return fmt.Errorf("Uint160DecodeStringBE(StringBE) = %x, %v", v.BytesBE(), err)
		}
		if v, err := util.Uint160DecodeStringLE(u.StringLE()); err != nil || v != u {
			return fmt.Errorf("Uint160DecodeStringLE(StringLE) = %x, %v", v.BytesBE(), err)
		}
		if r := u.Reverse(); !bytes.Equal(r.BytesBE(), le) || r.Reverse() != u {
			return fmt.Errorf("Uint160.Reverse: %x", r.BytesBE())
		}
		js, err := json.Marshal(u)
		if err != nil || string(js) != `"0x`+hex.EncodeToString(le)+`"` {
			return fmt.Errorf("Uint160.MarshalJSON = %s, %v", js, err)
		}
		var v util.Uint160
		if err := json.Unmarshal(js, &v); err != nil || v != u {
			return fmt.Errorf("Uint160 JSON round trip = %x, %v", v.BytesBE(), err)
		}
		v = util.Uint160{}
		if err := json.Unmarshal([]byte(`"`+hex.EncodeToString(le)+`"`), &v); err != nil || v != u {
			return fmt.Errorf("Uint160 JSON without 0x = %x, %v", v.BytesBE(), err)
		}
		w := io.NewBufBinWriter()
		u.EncodeBinary(w.BinWriter)
		if err := eqBytes("Uint160.EncodeBinary", w.Bytes(), be); err != nil {
			return err
		}
		v = util.Uint160{}
		r := io.NewBinReaderFromBuf(be)
		v.DecodeBinary(r)
		if r.Err != nil || v != u {
			return fmt.Errorf("Uint160.DecodeBinary = %x, %v", v.BytesBE(), r.Err)
		}
		u2, _ := util.Uint160DecodeBytesBE(c.C[:20])
		want := bytes.Compare(c.B[:20], c.C[:20])
		if got := u.Compare(u2); got != want {
			return fmt.Errorf("Uint160.Compare = %d, want %d", got, want)
		}
		if got := u.Less(u2); got != (want < 0) {
			return fmt.Errorf("Uint160.Less = %v, want %v", got, want < 0)
		}
		if c.BadN != 20 {
			bad := make([]byte, c.BadN)
			if _, err := util.Uint160DecodeBytesBE(bad); err == nil {
				return fmt.Errorf("Uint160DecodeBytesBE accepts %d bytes", c.BadN)
			}
			if _, err := util.Uint160DecodeBytesLE(bad); err == nil {
				return fmt.Errorf("Uint160DecodeBytesLE accepts %d bytes", c.BadN)
			}
			hs := hex.EncodeToString(bad)
			if _, err := util.Uint160DecodeStringBE(hs); err == nil {
				return fmt.Errorf("Uint160DecodeStringBE accepts %d characters", len(hs))
			}
			if _, err := util.Uint160DecodeStringLE(hs); err == nil {
				return fmt.Errorf("Uint160DecodeStringLE accepts %d characters", len(hs))
			}
		}
		hs := u.StringBE()
		p := c.Pos % 40
		for _, bad := range []string{hs[:p] + c.BadCh + hs[p+1:], hs[:39], hs + "0"} {
			if len(bad) == 40 && !strings.ContainsAny(bad, "gGx- \x00\xc3") {
				continue
			}
			if v, err := util.Uint160DecodeStringBE(bad); err == nil {
				return fmt.Errorf("Uint160DecodeStringBE(%q) = %x without error", bad, v.BytesBE())
			}
			if v, err := util.Uint160DecodeStringLE(bad); err == nil {
				return fmt.Errorf("Uint160DecodeStringLE(%q) = %x without error", bad, v.BytesBE())
			}
		}
	}
	if c.B[0] == 0 || c.B[31] == 0 || c.B[19] == 0 {
		o.Label("zero-edge-byte")
	}
	if bytes.Equal(c.B, reversed(c.B)) {
		o.Label("palindrome")
	} else {
		o.NonTrivial() // byte order is observable
	}
	o.Units(2)
	return nil
}

// ---- reference decimal printer / parser --------------------------------------------------------------------

func pow10big(n int) *big.Int {
	return new(big.Int).Exp(big.NewInt(10), big.NewInt(int64(n)), nil)
}

// refDecString prints v * 10^-prec: optional '-', integer part, and the fraction without trailing zeros when non-zero.
func refDecString(v *big.Int, prec int) string {
	a := new(big.Int).Abs(v)
	ip, fp := new(big.Int).QuoRem(a, pow10big(prec), new(big.Int))
	s := ip.String()
	if fp.Sign() != 0 {
		f := fp.String()
		f = strings.Repeat("0", prec-len(f)) + f
		s += "." + strings.TrimRight(f, "0")
	}
	if v.Sign() < 0 {
		s = "-" + s
	}
	return s
}

var decRe = regexp.MustCompile(`^(-?)([0-9]+)(?:\.([0-9]+))?$`)

// refDecParse parses the grammar -?digits(.digits)?; more fraction digits than prec is an error (ok=false).
func refDecParse(s string, prec int) (*big.Int, bool) {
	m := decRe.FindStringSubmatch(s)
	if m == nil {
		return nil, false
	}
	if len(m[3]) > prec {
		return nil, false
	}
	v, _ := new(big.Int).SetString(m[2], 10)
	v.Mul(v, pow10big(prec))
	if m[3] != "" {
		f, _ := new(big.Int).SetString(m[3], 10)
		v.Add(v, f.Mul(f, pow10big(prec-len(m[3]))))
	}
	if m[1] == "-" {
		v.Neg(v)
	}
	return v, true
}

// negFraction: strictly between -1 and 0 in units of 10^-prec (shape of known finding kfNegFraction).
func negFraction(v *big.Int, prec int) bool {
	return v.Sign() < 0 && new(big.Int).Abs(v).Cmp(pow10big(prec)) < 0
}

// fracOver64: the fraction digits of v at this precision, read as an integer, need more than 64 bits (shape of kfFracOver64).
func fracOver64(v *big.Int, prec int) bool {
	if prec < 20 {
		return false
	}
	_, fp := new(big.Int).QuoRem(new(big.Int).Abs(v), pow10big(prec), new(big.Int))
	return fp.BitLen() > 64
}

func genDecimalText(t *rapid.T, maxInt, maxFrac int) string {
	var sb strings.Builder
	if rapid.IntRange(0, 2).Draw(t, "neg") == 0 {
		sb.WriteByte('-')
	}
	ni := rapid.IntRange(1, maxInt).Draw(t, "ni")
	if rapid.IntRange(0, 3).Draw(t, "zeroint") == 0 {
		ni = 1
		sb.WriteByte('0')
	} else {
		for i := 0; i < ni; i++ {
			sb.WriteByte(byte('0' + rapid.IntRange(0, 9).Draw(t, "id")))
		}
	}
	nf := rapid.IntRange(0, maxFrac).Draw(t, "nf")
	if nf > 0 {
		sb.WriteByte('.')
		for i := 0; i < nf; i++ {
			d := rapid.IntRange(0, 9).Draw(t, "fd")
			if rapid.IntRange(0, 2).Draw(t, "fz") == 0 {
				d = 0
			}
			sb.WriteByte(byte('0' + d))
		}
	}
	return sb.String()
}

// ---- Fixed8 -----------------------------------------------------------------------------------------------------

// Fixed8Case: V is printed and parsed back; In is parsed and compared with the reference parser.
type Fixed8Case struct {
	V  int64  `json:"v"`
	In string `json:"in"`
}

func genFixed8Case(t *rapid.T) Fixed8Case {
	var v int64
	switch rapid.IntRange(0, 7).Draw(t, "kind") {
	case 0:
		v = int64(rapid.IntRange(-1000, 1000).Draw(t, "small"))
	case 1: // around multiples of 10^8
		v = int64(rapid.IntRange(-50, 50).Draw(t, "mul"))*100000000 + int64(rapid.IntRange(-2, 2).Draw(t, "d"))
	case 2: // edges of int64
		if rapid.Bool().Draw(t, "top") {
			v = math.MaxInt64 - int64(rapid.IntRange(0, 300000000).Draw(t, "k"))
		} else {
			v = math.MinInt64 + int64(rapid.IntRange(0, 300000000).Draw(t, "k"))
		}
	case 3: // few significant digits, many zeros
		v = int64(rapid.IntRange(-99, 99).Draw(t, "m"))
		for i := rapid.IntRange(0, 16).Draw(t, "e"); i > 0; i-- {
			v *= 10
		}
	case 4: // fraction only
		v = int64(rapid.IntRange(-99999999, 99999999).Draw(t, "frac"))
	default:
		v = rapid.Int64().Draw(t, "any")
	}
	in := genDecimalText(t, 13, 10)
	if rapid.IntRange(0, 5).Draw(t, "edge_in") == 0 {
		// texts around the ends of the 64-bit range and around 2^64 (where a truncating conversion wraps to small values)
		in = rapid.SampledFrom([]string{
			"92233720368.54775807", "92233720368.54775808", "-92233720368.54775808", "-92233720368.54775809",
			"92233720369", "-92233720369", "184467440737.09551616", "184467440737.09551617", "-184467440737.09551616",
			"92233720368", "-92233720368", "922337203685", "1844674407370.9551616",
		}).Draw(t, "edge")
	}
	return Fixed8Case{V: v, In: in}
}

func checkFixed8Case(c Fixed8Case, o *vt.Obs) error {
	f := fixedn.Fixed8(c.V)
	bv := big.NewInt(c.V)
	want := refDecString(bv, 8)
	skipPrint := false
	if c.V == math.MinInt64 && vt.Known(kfFixed8Min) {
		skipPrint = true
		o.Excluded()
	}
	if !skipPrint {
		s := f.String()
		if s != want {
			return fmt.Errorf("Fixed8(%d).String() = %q, want %q", c.V, s, want)
		}
		js, err := json.Marshal(f)
		if err != nil || string(js) != `"`+want+`"` {
			return fmt.Errorf("Fixed8(%d).MarshalJSON = %s, %v", c.V, js, err)
		}
	}
	if negFraction(bv, 8) && vt.Known(kfNegFraction) {
		o.Excluded()
	} else {
		back, err := fixedn.Fixed8FromString(want)
		if err != nil {
			return fmt.Errorf("Fixed8FromString(%q): %v", want, err)
		}
		if int64(back) != c.V {
			return fmt.Errorf("Fixed8 %d prints as %q which parses back to %d", c.V, want, int64(back))
		}
		for _, js := range []string{`"` + want + `"`, want} {
			var g fixedn.Fixed8
			if err := json.Unmarshal([]byte(js), &g); err != nil || int64(g) != c.V {
				return fmt.Errorf("Fixed8 JSON %s parses to %d, %v; want %d", js, int64(g), err, c.V)
			}
		}
	}
	// documented identity f = IntegralValue + FractionalValue (same sign)
	if got := f.IntegralValue()*100000000 + int64(f.FractionalValue()); got != c.V {
		return fmt.Errorf("Fixed8(%d): IntegralValue %d and FractionalValue %d do not add up", c.V, f.IntegralValue(), f.FractionalValue())
	}
	if (c.V < 0 && f.FractionalValue() > 0) || (c.V > 0 && f.FractionalValue() < 0) {
		return fmt.Errorf("Fixed8(%d): FractionalValue %d has the wrong sign", c.V, f.FractionalValue())
	}
	w := io.NewBufBinWriter()
	f.EncodeBinary(w.BinWriter)
	var g fixedn.Fixed8
	wb := w.Bytes() // drains the writer: call once
	r := io.NewBinReaderFromBuf(wb)
	g.DecodeBinary(r)
	if r.Err != nil || g != f || len(wb) != 8 {
		return fmt.Errorf("Fixed8(%d) binary round trip gives %d (%x)", c.V, int64(g), wb)
	}
	// parse direction
	pv, ok := refDecParse(c.In, 8)
	if ok && negFractionText(c.In) && vt.Known(kfNegFraction) {
		o.Excluded()
	} else {
		got, err := fixedn.Fixed8FromString(c.In)
		switch {
		case !ok && err == nil:
			return fmt.Errorf("Fixed8FromString(%q) = %d, want an error (more than 8 fraction digits)", c.In, int64(got))
		case ok && pv.IsInt64() && err != nil:
			return fmt.Errorf("Fixed8FromString(%q): %v, want %s", c.In, err, pv)
		case ok && pv.IsInt64() && int64(got) != pv.Int64():
			return fmt.Errorf("Fixed8FromString(%q) = %d, want %s", c.In, int64(got), pv)
		case ok && !pv.IsInt64() && err == nil:
			// the text is a decimal no Fixed8 can hold: whatever is returned does not print back to it
			return fmt.Errorf("Fixed8FromString(%q) = %d without an error, the value %s does not fit in 64 bits", c.In, int64(got), pv)
		}
		if ok && !pv.IsInt64() {
			o.Label("in-out-of-range")
		}
	}
	if !ok {
		o.Label("in-too-many-digits")
	}
	switch {
	case c.V == math.MinInt64:
		o.Label("minint64")
	case negFraction(bv, 8):
		o.Label("negative-fraction")
	case c.V < 0:
		o.Label("negative")
	}
	if c.V%100000000 != 0 {
		o.NonTrivial()
		o.Label("has-fraction")
	}
	return nil
}

// negFractionText: a text of the grammar with a '-' sign, zero integer part and non-zero fraction.
func negFractionText(s string) bool {
	m := decRe.FindStringSubmatch(s)
	return m != nil && m[1] == "-" && strings.Trim(m[2], "0") == "" && strings.Trim(m[3], "0") != ""
}

// ---- arbitrary precision decimal ----------------------------------------------------------------------------

// DecimalCase: V (decimal integer text) scaled by 10^-Prec is printed and parsed back; In is parsed with InPrec.
type DecimalCase struct {
	V      string `json:"v"`
	Prec   int    `json:"prec"`
	In     string `json:"in"`
	InPrec int    `json:"in_prec"`
}

func genDecimalCase(t *rapid.T) DecimalCase {
	c := DecimalCase{}
	c.Prec = rapid.SampledFrom([]int{0, 0, 1, 2, 3, 8, 8, 8, 9, 15, 16, 17, 18, 19, 20, 24, 30}).Draw(t, "prec")
	if vt.Known(kfFracOver64) && c.Prec > 19 {
		c.Prec = 19
	}
	var v *big.Int
	switch rapid.IntRange(0, 6).Draw(t, "kind") {
	case 0:
		v = big.NewInt(int64(rapid.IntRange(-1000, 1000).Draw(t, "small")))
	case 1: // around multiples of the unit
		v = new(big.Int).Mul(big.NewInt(int64(rapid.IntRange(-20, 20).Draw(t, "mul"))), pow10big(c.Prec))
		v.Add(v, big.NewInt(int64(rapid.IntRange(-2, 2).Draw(t, "d"))))
	case 2: // few digits times a power of ten
		v = new(big.Int).Mul(big.NewInt(int64(rapid.IntRange(-99, 99).Draw(t, "m"))), pow10big(rapid.IntRange(0, 40).Draw(t, "e")))
	case 3: // pure fraction
		b := rapid.SliceOfN(rapid.Byte(), 1, 13).Draw(t, "fracb")
		v = new(big.Int).SetBytes(b)
		v.Mod(v, pow10big(c.Prec))
		if rapid.Bool().Draw(t, "fneg") {
			v.Neg(v)
		}
	default:
		b := rapid.SliceOfN(rapid.Byte(), 0, 32).Draw(t, "mag")
		v = new(big.Int).SetBytes(b)
		if rapid.Bool().Draw(t, "neg") {
			v.Neg(v)
		}
	}
	c.V = v.String()
	c.InPrec = rapid.SampledFrom([]int{0, 1, 2, 8, 8, 16, 18}).Draw(t, "inprec")
	c.In = genDecimalText(t, 30, c.InPrec+2)
	return c
}

func checkDecimalCase(c DecimalCase, o *vt.Obs) error {
	v, ok := new(big.Int).SetString(c.V, 10)
	if !ok || c.Prec < 0 || c.Prec > 60 {
		return fmt.Errorf("case: bad value %q / precision %d", c.V, c.Prec)
	}
	keep := new(big.Int).Set(v)
	want := refDecString(v, c.Prec)
	fracWide := fracOver64(v, c.Prec)
	excl := (negFraction(v, c.Prec) && vt.Known(kfNegFraction)) || (fracWide && vt.Known(kfFracOver64))
	if excl {
		o.Excluded()
	} else {
		s := fixedn.ToString(v, c.Prec)
		if v.Cmp(keep) != 0 {
			return fmt.Errorf("ToString changed its argument")
		}
		if s != want {
			return fmt.Errorf("ToString(%s, %d) = %q, want %q", c.V, c.Prec, s, want)
		}
		back, err := fixedn.FromString(s, c.Prec)
		if err != nil {
			return fmt.Errorf("FromString(ToString(%s, %d) = %q): %v", c.V, c.Prec, s, err)
		}
		if back.Cmp(v) != 0 {
			return fmt.Errorf("decimal %s (precision %d) prints as %q which parses back to %s", c.V, c.Prec, s, back)
		}
	}
	// parse direction
	pv, pok := refDecParse(c.In, c.InPrec)
	if pok && negFractionText(c.In) && vt.Known(kfNegFraction) {
		o.Excluded()
	} else {
		got, err := fixedn.FromString(c.In, c.InPrec)
		switch {
		case !pok && err == nil:
			return fmt.Errorf("FromString(%q, %d) = %s, want an error (too many fraction digits)", c.In, c.InPrec, got)
		case pok && err != nil:
			return fmt.Errorf("FromString(%q, %d): %v, want %s", c.In, c.InPrec, err, pv)
		case pok && got.Cmp(pv) != 0:
			return fmt.Errorf("FromString(%q, %d) = %s, want %s", c.In, c.InPrec, got, pv)
		}
		if pok {
			// canonical print of what was parsed parses to the same value
			skip := (negFraction(pv, c.InPrec) && vt.Known(kfNegFraction)) || (fracOver64(pv, c.InPrec) && vt.Known(kfFracOver64))
			if s2 := fixedn.ToString(got, c.InPrec); !skip && s2 != refDecString(pv, c.InPrec) {
				return fmt.Errorf("ToString(FromString(%q, %d)) = %q, want %q", c.In, c.InPrec, s2, refDecString(pv, c.InPrec))
			}
		}
	}
	if !pok {
		o.Label("in-too-many-digits")
	}
	switch {
	case negFraction(v, c.Prec):
		o.Label("negative-fraction")
	case v.Sign() < 0:
		o.Label("negative")
	}
	if fracWide {
		o.Label("fraction-over-64-bits")
	}
	o.Labelf("prec=%d", c.Prec)
	if strings.Contains(want, ".") {
		o.NonTrivial()
		o.Label("has-fraction")
	}
	return nil
}
