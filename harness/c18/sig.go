package c18

import (
	"bytes"
	"crypto/ecdsa"
	"crypto/hmac"
	"crypto/sha256"
	"encoding/binary"
	"fmt"
	"math/big"

	"github.com/decred/dcrd/dcrec/secp256k1/v4"
	dcrecdsa "github.com/decred/dcrd/dcrec/secp256k1/v4/ecdsa"
	"github.com/nspcc-dev/neo-go/pkg/crypto/keys"
	"github.com/nspcc-dev/neo-go/pkg/util"
	"pgregory.net/rapid"
	"verifharness/vt"
)

// ---- sign / verify -------------------------------------------------------------------------------------

// SigCase: sign Msg with Key, verify; then verify with Other, with Msg2 and with bit-flipped / resized signatures.
type SigCase struct {
	Curve string   `json:"curve"`
	Key   vt.Bytes `json:"key"`
	Other vt.Bytes `json:"other"`
	Msg   vt.Bytes `json:"msg"`
	Msg2  vt.Bytes `json:"msg2"`
	Net   uint32   `json:"net"`
	Bits  []int    `json:"bits"` // bit positions (0..511) of the 64-byte signature to flip, one at a time
}

func genSigCase(t *rapid.T) SigCase {
	c := SigCase{Curve: genCurve(t)}
	c.Key = genKeySeed(t, c.Curve, "key")
	c.Other = genKeySeed(t, c.Curve, "other")
	c.Msg = genMsg(t, "msg")
	switch rapid.IntRange(0, 3).Draw(t, "msg2kind") {
	case 0: // one bit away from msg
		if len(c.Msg) > 0 {
			c.Msg2 = flipBit(c.Msg, rapid.IntRange(0, 8*len(c.Msg)-1).Draw(t, "msg2bit"))
		} else {
			c.Msg2 = vt.Bytes{0}
		}
	case 1: // msg with a zero byte appended
		c.Msg2 = append(append(vt.Bytes{}, c.Msg...), 0)
	default:
		c.Msg2 = genMsg(t, "msg2")
	}
	c.Net = rapid.SampledFrom([]uint32{0, 1, 860833102, 894710606, 0xffffffff}).Draw(t, "net")
	c.Bits = rapid.SliceOfN(rapid.IntRange(0, 511), 4, 12).Draw(t, "bits")
	return c
}

// hashable is the smallest hash.Hashable.
type hashable util.Uint256

func (h hashable) Hash() util.Uint256 { return util.Uint256(h) }

// indepVerify verifies (r,s) with a verifier that is not the one under test: crypto/ecdsa for P-256 called directly
// on big integers, decred's ecdsa for secp256k1.
func indepVerify(curve string, x, y *big.Int, digest []byte, sig []byte) bool {
	r := new(big.Int).SetBytes(sig[:32])
	s := new(big.Int).SetBytes(sig[32:])
	if curve == curveR1 {
		return ecdsa.Verify(&ecdsa.PublicKey{Curve: curveOf(curve), X: x, Y: y}, digest, r, s)
	}
	var fx, fy secp256k1.FieldVal
	fx.SetByteSlice(x.FillBytes(make([]byte, 32)))
	fy.SetByteSlice(y.FillBytes(make([]byte, 32)))
	var rs, ss secp256k1.ModNScalar
	if rs.SetByteSlice(sig[:32]) || ss.SetByteSlice(sig[32:]) {
		return false
	}
	return dcrecdsa.NewSignature(&rs, &ss).Verify(digest, secp256k1.NewPublicKey(&fx, &fy))
}

func checkSigCase(c SigCase, o *vt.Obs) error {
	d := scalarOf(c.Curve, c.Key)
	priv, err := privOf(c.Curve, d)
	if err != nil {
		return fmt.Errorf("key construction: %v", err)
	}
	pub := priv.PublicKey()
	digest := sha256.Sum256(c.Msg)

	sig := priv.Sign(c.Msg)
	if len(sig) != keys.SignatureLen {
		return fmt.Errorf("Sign returns %d bytes, want %d", len(sig), keys.SignatureLen)
	}
	if sh := priv.SignHash(digest); !bytes.Equal(sh, sig) {
		return fmt.Errorf("Sign(msg) = %x differs from SignHash(sha256(msg)) = %x", sig, sh)
	}
	if !pub.Verify(sig, digest[:]) {
		return fmt.Errorf("Verify(Sign(msg)) is false (d=%x msg=%x sig=%x)", d, c.Msg, sig)
	}
	// the signature is a valid ECDSA signature for an independent verifier
	if !indepVerify(c.Curve, pub.X, pub.Y, digest[:], sig) {
		return fmt.Errorf("independent verifier rejects Sign(msg) (d=%x sig=%x)", d, sig)
	}
	// the key decoded from its own encoding verifies as well
	pub2, err := keys.NewPublicKeyFromBytes(pub.Bytes(), curveOf(c.Curve))
	if err != nil {
		return fmt.Errorf("NewPublicKeyFromBytes(pub.Bytes()): %v", err)
	}
	if !pub2.Verify(sig, digest[:]) {
		return fmt.Errorf("key decoded from compressed bytes rejects the signature")
	}
	// Hashable flavour
	hh := hashable(sha256.Sum256(c.Msg2))
	hsig := priv.SignHashable(c.Net, hh)
	if !pub.VerifyHashable(hsig, c.Net, hh) {
		return fmt.Errorf("VerifyHashable(SignHashable) is false")
	}
	// independent form of the signed data: sha256(LE32(net) || hash)
	sd := make([]byte, 36)
	binary.LittleEndian.PutUint32(sd, c.Net)
	copy(sd[4:], hh[:])
	sdd := sha256.Sum256(sd)
	if !pub.Verify(hsig, sdd[:]) {
		return fmt.Errorf("SignHashable does not sign sha256(LE32(net)||hash)")
	}
	if pub.VerifyHashable(hsig, c.Net+1, hh) {
		return fmt.Errorf("VerifyHashable accepts the signature for another network magic")
	}
	o.Units(6)

	// another key
	if d2 := scalarOf(c.Curve, c.Other); d2.Cmp(d) != 0 {
		priv2, err := privOf(c.Curve, d2)
		if err != nil {
			return fmt.Errorf("key construction: %v", err)
		}
		if priv2.PublicKey().Verify(sig, digest[:]) {
			return fmt.Errorf("signature of key %x verifies under key %x", d, d2)
		}
		o.Label("other-key")
		o.Units(1)
	}
	// another message
	if !bytes.Equal(c.Msg, c.Msg2) {
		dg2 := sha256.Sum256(c.Msg2)
		if pub.Verify(sig, dg2[:]) {
			return fmt.Errorf("signature of %x verifies for message %x", c.Msg, c.Msg2)
		}
		o.Label("other-msg")
		o.Units(1)
	}
	// every sampled single-bit alteration
	for _, bit := range c.Bits {
		alt := flipBit(sig, bit)
		if pub.Verify(alt, digest[:]) {
			return fmt.Errorf("signature with bit %d flipped still verifies (sig=%x)", bit%512, sig)
		}
		o.Units(1)
	}
	// the complementary signature (r, N-s): an ALTERED signature by the letter of the property. ECDSA without a low-S
	// rule accepts it by construction (listed finding, consensus rule shared with the reference node).
	{
		n := curveOf(c.Curve).Params().N
		s2 := new(big.Int).Sub(n, new(big.Int).SetBytes(sig[32:]))
		alt := bytes.Clone(sig)
		s2.FillBytes(alt[32:])
		if !bytes.Equal(alt, sig) && pub.Verify(alt, digest[:]) {
			if !vt.Known(kfSigMalleable) {
				return fmt.Errorf("altered signature (r, N-s) verifies (sig=%x alt=%x)", sig, alt)
			}
			o.Excluded()
		}
	}
	// documented: a signature that is not 64 bytes long is rejected
	pad := func(k int) []byte { // k zero bytes in front of each half: the same two numbers in a longer encoding
		z := make([]byte, k)
		return append(append(append(bytes.Clone(z), sig[:32]...), z...), sig[32:]...)
	}
	alts := [][]byte{sig[:63], append(bytes.Clone(sig), 0), sig[1:], {}, nil, pad(1), pad(2), pad(32), append(bytes.Clone(sig), sig...)}
	if sig[0] == 0 && sig[32] == 0 { // the same two numbers in a shorter encoding
		alts = append(alts, append(bytes.Clone(sig[1:32]), sig[33:]...))
	}
	for _, alt := range alts {
		if pub.Verify(alt, digest[:]) {
			return fmt.Errorf("signature of length %d verifies (%x; the 64-byte signature is %x)", len(alt), alt, sig)
		}
	}
	if sig[0] == 0 || sig[32] == 0 {
		o.Label("leading-zero-r-or-s")
	}
	o.Label(c.Curve)
	o.NonTrivial()
	return nil
}

// ---- RFC 6979 -----------------------------------------------------------------------------------------

// DetCase: deterministic signature of Msg under Key.
type DetCase struct {
	Curve string   `json:"curve"`
	Key   vt.Bytes `json:"key"`
	Msg   vt.Bytes `json:"msg"`
}

func genDetCase(t *rapid.T) DetCase {
	c := DetCase{Curve: genCurve(t)}
	c.Key = genKeySeed(t, c.Curve, "key")
	c.Msg = genMsg(t, "msg")
	return c
}

// rfc6979Sign is an independent implementation of RFC 6979 section 3.2 (HMAC-SHA256, qlen = hlen = 256) followed by
// textbook ECDSA: r = (k*G).x mod n, s = k^-1 (e + r d) mod n. No low-S normalisation (private_key.go documents none).
func rfc6979Sign(curve string, d *big.Int, digest []byte) (r, s *big.Int, rounds int) {
	c := curveOf(curve)
	n := c.Params().N
	x := d.FillBytes(make([]byte, 32))
	// bits2octets(h1): bits2int (qlen == hlen, nothing to shift), reduced mod n once
	z := new(big.Int).SetBytes(digest)
	e := new(big.Int).Set(z)
	if z.Cmp(n) >= 0 {
		z.Sub(z, n)
	}
	h1 := z.FillBytes(make([]byte, 32))
	mac := func(key []byte, parts ...[]byte) []byte {
		m := hmac.New(sha256.New, key)
		for _, p := range parts {
			m.Write(p)
		}
		return m.Sum(nil)
	}
	v := bytes.Repeat([]byte{0x01}, 32)
	k := make([]byte, 32)
	k = mac(k, v, []byte{0x00}, x, h1)
	v = mac(k, v)
	k = mac(k, v, []byte{0x01}, x, h1)
	v = mac(k, v)
	for {
		rounds++
		v = mac(k, v)
		cand := new(big.Int).SetBytes(v)
		if cand.Sign() > 0 && cand.Cmp(n) < 0 {
			rx, _ := c.ScalarBaseMult(cand.FillBytes(make([]byte, 32)))
			r = new(big.Int).Mod(rx, n)
			if r.Sign() != 0 {
				s = new(big.Int).Mul(r, d)
				s.Add(s, e)
				s.Mul(s, new(big.Int).ModInverse(cand, n))
				s.Mod(s, n)
				if s.Sign() != 0 {
					return r, s, rounds
				}
			}
		}
		k = mac(k, v, []byte{0x00})
		v = mac(k, v)
	}
}

func checkDetCase(c DetCase, o *vt.Obs) error {
	d := scalarOf(c.Curve, c.Key)
	priv, err := privOf(c.Curve, d)
	if err != nil {
		return fmt.Errorf("key construction: %v", err)
	}
	s1 := priv.Sign(c.Msg)
	s2 := priv.Sign(c.Msg)
	if !bytes.Equal(s1, s2) {
		return fmt.Errorf("two signatures of the same (key,msg) differ: %x vs %x", s1, s2)
	}
	privB, _ := privOf(c.Curve, d)
	if s3 := privB.Sign(c.Msg); !bytes.Equal(s1, s3) {
		return fmt.Errorf("a second key object of the same scalar signs differently: %x vs %x", s1, s3)
	}
	digest := sha256.Sum256(c.Msg)
	r, s, rounds := rfc6979Sign(c.Curve, d, digest[:])
	want := make([]byte, 64)
	r.FillBytes(want[:32])
	s.FillBytes(want[32:])
	if !bytes.Equal(s1, want) {
		return fmt.Errorf("signature %x differs from the RFC 6979 signature %x (d=%x msg=%x)", s1, want, d, c.Msg)
	}
	if priv.D.Cmp(d) != 0 {
		return fmt.Errorf("signing changed the private scalar")
	}
	o.Label(c.Curve)
	if rounds > 1 {
		o.Label("nonce-retry")
	}
	if new(big.Int).SetBytes(digest[:]).Cmp(curveOf(c.Curve).Params().N) >= 0 {
		o.Label("digest>=n")
	}
	o.NonTrivial()
	return nil
}
