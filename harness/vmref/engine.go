package vmref

import (
	"bytes"
	"fmt"
	"math/big"

	"github.com/nspcc-dev/neo-go/pkg/vm/opcode"
)

// State is the outcome of a run.
type State int

// Outcomes. Uncertain means "this specification declines to predict" (excluded class, see Why).
const (
	Halt State = iota
	Fault
	Uncertain
)

func (s State) String() string { return [...]string{"HALT", "FAULT", "UNCERTAIN"}[s] }

// Result of a run.
type Result struct {
	State State
	Stack []*Item // result stack, index 0 = bottom (only for Halt)
	Why   string  // fault reason or uncertainty tag
	Steps int
	// Tags are events seen on the way (used for class labels), e.g. "exc-cross-call", "int-overflow",
	// and "dev:..." tags: behaviours where this specification is confident about the reference semantics but knows the
	// code under test to be stricter; the caller decides what to do with those.
	Tags map[string]int
}

type fault struct{ msg string }     // uncatchable VM fault
type catchable struct{ msg string } // engine exception that TRY can catch (message text not specified here)
type unsure struct{ tag string }    // outside the domain this specification is confident about
func failf(f string, a ...any)      { panic(fault{fmt.Sprintf(f, a...)}) }
func unsureIf(c bool, tag string) {
	if c {
		panic(unsure{tag})
	}
}

const (
	stTry = iota
	stCatch
	stFinally
)

type tryCtx struct {
	catchP, finallyP, endP int
	state                  int
}

func (t *tryCtx) hasCatch() bool   { return t.catchP >= 0 }
func (t *tryCtx) hasFinally() bool { return t.finallyP >= 0 }

// shared is what contexts created by CALL share with their creator (reference: ExecutionContext.SharedStates).
type shared struct {
	stack  []*Item // evaluation stack, top = last
	static []*Item // nil = not initialised
}

type frame struct {
	sh     *shared
	ip     int
	locals []*Item
	args   []*Item
	try    []*tryCtx
}

type engine struct {
	script   []byte
	frames   []*frame
	result   []*Item
	uncaught *Item
	halted   bool
	jumping  bool
	tags     map[string]int
	gen      uint64
}

func (e *engine) tag(t string) { e.tags[t]++ }

// Run executes script like ExecutionEngine.LoadScript(script) + Execute() and returns the outcome.
// maxSteps bounds the number of instructions (exceeding it gives Uncertain/"step-budget").
func Run(script []byte, maxSteps int) (res Result) {
	e := &engine{script: script, tags: map[string]int{}}
	e.frames = []*frame{{sh: &shared{}}}
	res.Tags = e.tags
	defer func() {
		if r := recover(); r != nil {
			switch x := r.(type) {
			case fault:
				res.State, res.Why = Fault, x.msg
			case unsure:
				res.State, res.Why = Uncertain, x.tag
			default:
				panic(r)
			}
		}
	}()
	for !e.halted {
		if res.Steps >= maxSteps {
			panic(unsure{"step-budget"})
		}
		res.Steps++
		e.step()
	}
	res.State = Halt
	res.Stack = e.result
	return res
}

func (e *engine) cur() *frame { return e.frames[len(e.frames)-1] }

// ---- evaluation stack -----------------------------------------------------------------------------

func (e *engine) push(it *Item) { s := e.cur().sh; s.stack = append(s.stack, it) }
func (e *engine) depth() int    { return len(e.cur().sh.stack) }

func (e *engine) pop() *Item {
	s := e.cur().sh
	if len(s.stack) == 0 {
		failf("pop from empty stack")
	}
	it := s.stack[len(s.stack)-1]
	s.stack = s.stack[:len(s.stack)-1]
	return it
}

func (e *engine) peek(n int) *Item {
	s := e.cur().sh
	if n < 0 || n >= len(s.stack) {
		failf("peek(%d) with %d items", n, len(s.stack))
	}
	return s.stack[len(s.stack)-1-n]
}

func (e *engine) removeAt(n int) *Item {
	s := e.cur().sh
	if n < 0 || n >= len(s.stack) {
		failf("remove(%d) with %d items", n, len(s.stack))
	}
	i := len(s.stack) - 1 - n
	it := s.stack[i]
	s.stack = append(s.stack[:i], s.stack[i+1:]...)
	return it
}

// insertAt inserts so that the item ends up n positions below the new top (reference: EvaluationStack.Insert).
func (e *engine) insertAt(n int, it *Item) {
	s := e.cur().sh
	if n > len(s.stack) {
		failf("insert(%d) with %d items", n, len(s.stack))
	}
	i := len(s.stack) - n
	s.stack = append(s.stack, nil)
	copy(s.stack[i+1:], s.stack[i:])
	s.stack[i] = it
}

func (e *engine) reverseTop(n int) {
	s := e.cur().sh
	if n < 0 || n > len(s.stack) {
		failf("reverse(%d) with %d items", n, len(s.stack))
	}
	if n <= 1 {
		return
	}
	part := s.stack[len(s.stack)-n:]
	for i, j := 0, len(part)-1; i < j; i, j = i+1, j-1 {
		part[i], part[j] = part[j], part[i]
	}
}

// ---- conversions (StackItem.GetInteger / GetBoolean / GetSpan) --------------------------------------------------

func getInteger(it *Item) *big.Int {
	switch it.K {
	case Integer:
		return it.Int
	case Boolean:
		if it.Bool {
			return big.NewInt(1)
		}
		return big.NewInt(0)
	case ByteString:
		if len(it.Bytes) > IntegerMaxSize {
			failf("ByteString of %d bytes as integer", len(it.Bytes))
		}
		return BytesToInt(it.Bytes)
	case Opaque:
		panic(unsure{"engine-message-inspected"})
	}
	failf("kind %d has no integer value", it.K)
	return nil
}

func getBoolean(it *Item) bool {
	switch it.K {
	case Null:
		return false
	case Boolean:
		return it.Bool
	case Integer:
		return it.Int.Sign() != 0
	case ByteString:
		if len(it.Bytes) > IntegerMaxSize {
			failf("ByteString of %d bytes as boolean", len(it.Bytes))
		}
		for _, b := range it.Bytes {
			if b != 0 {
				return true
			}
		}
		return false
	case Opaque:
		panic(unsure{"engine-message-inspected"})
	}
	return true // Buffer, Array, Struct, Map, Pointer
}

func getSpan(it *Item) []byte {
	switch it.K {
	case ByteString, Buffer:
		return it.Bytes
	case Integer:
		return IntToBytes(it.Int)
	case Boolean:
		if it.Bool {
			return []byte{1}
		}
		return []byte{0}
	case Opaque:
		panic(unsure{"engine-message-inspected"})
	}
	failf("kind %d has no span", it.K)
	return nil
}

func toInt32(v *big.Int) int {
	if !v.IsInt64() {
		failf("integer does not fit int32")
	}
	n := v.Int64()
	if n < -(1<<31) || n > (1<<31)-1 {
		failf("integer does not fit int32")
	}
	return int(n)
}

func (e *engine) popInt() *big.Int { return getInteger(e.pop()) }
func (e *engine) popInt32() int    { return toInt32(getInteger(e.pop())) }
func (e *engine) popBool() bool    { return getBoolean(e.pop()) }

func (e *engine) pushInt(v *big.Int) {
	if !FitsInt256(v) {
		e.tag("int-overflow")
		failf("integer result does not fit 32 bytes")
	}
	e.push(newInt(v))
}
func (e *engine) pushSmall(n int) { e.push(newInt(big.NewInt(int64(n)))) }
func (e *engine) pushBool(b bool) { e.push(newBool(b)) }

func (e *engine) popPrimitive() *Item {
	it := e.pop()
	unsureIf(it.K == Opaque, "engine-message-inspected")
	if !it.isPrimitive() {
		failf("primitive type expected")
	}
	return it
}

func primSize(it *Item) int {
	switch it.K {
	case Boolean:
		return 1
	case Integer:
		return len(IntToBytes(it.Int))
	}
	return len(it.Bytes)
}

// ---- equality (StackItem.Equals(other, limits)) --------------------------------------------------------------------

func bsEquals(a, other *Item, limit *int) bool {
	if len(a.Bytes) > *limit || *limit == 0 {
		failf("operand exceeds the maximum comparable size")
	}
	compared := 1
	defer func() { *limit -= compared }()
	unsureIf(other.K == Opaque, "engine-message-inspected")
	if other.K != ByteString {
		return false
	}
	if l := max(len(a.Bytes), len(other.Bytes)); l > compared {
		compared = l
	}
	if a == other {
		return true
	}
	if len(other.Bytes) > *limit {
		failf("operand exceeds the maximum comparable size")
	}
	return bytes.Equal(a.Bytes, other.Bytes)
}

func plainEquals(a, b *Item) bool { // StackItem.Equals(other) without limits, non-ByteString non-Struct receivers
	unsureIf(a.K == Opaque || b.K == Opaque, "engine-message-inspected")
	switch a.K {
	case Null:
		return b.K == Null
	case Boolean:
		return b.K == Boolean && a.Bool == b.Bool
	case Integer:
		return b.K == Integer && a.Int.Cmp(b.Int) == 0
	case ByteString:
		return b.K == ByteString && bytes.Equal(a.Bytes, b.Bytes)
	case Pointer:
		return b.K == Pointer && a.Pos == b.Pos
	}
	return a == b // Buffer, Array, Map (and Struct when reached through here: reference)
}

// eqOutcome is the outcome of a struct comparison: a boolean, or a fault (budget exceeded).
type eqOutcome struct {
	eq    bool
	fault string
}

func outcomeOf(f func() bool) (out eqOutcome) {
	defer func() {
		if r := recover(); r != nil {
			ft, ok := r.(fault)
			if !ok {
				panic(r)
			}
			out = eqOutcome{fault: ft.msg}
		}
	}()
	return eqOutcome{eq: f()}
}

// specStructEquals is Struct.Equals(other, limits) of the reference, literally: two explicit stacks (so the LAST field is
// compared first), one item budget of MaxStackSize pops that includes the root pair, one byte budget of MaxComparableSize
// for the whole comparison that is charged 1 for every non-ByteString pair (the root included) and max(len) for every
// ByteString pair (also when both sides are the same object: the identity shortcut comes after the charge).
// It also returns what is left of both budgets.
func specStructEquals(x, other *Item) (out eqOutcome, sizeLeft, countLeft int) {
	count := MaxStackSize
	size := MaxComparableSize
	out = outcomeOf(func() bool {
		s1, s2 := []*Item{x}, []*Item{other}
		for len(s1) > 0 {
			if count == 0 {
				failf("too many struct items to compare")
			}
			count--
			a, b := s1[len(s1)-1], s2[len(s2)-1]
			s1, s2 = s1[:len(s1)-1], s2[:len(s2)-1]
			unsureIf(a.K == Opaque || b.K == Opaque, "engine-message-inspected")
			if a.K == ByteString {
				if !bsEquals(a, b, &size) {
					return false
				}
				continue
			}
			if size == 0 {
				failf("operand exceeds the maximum comparable size")
			}
			size--
			if a.K == Struct {
				if a == b {
					continue
				}
				if b.K != Struct || len(a.Elems) != len(b.Elems) {
					return false
				}
				s1 = append(s1, a.Elems...)
				s2 = append(s2, b.Elems...)
			} else if !plainEquals(a, b) {
				return false
			}
		}
		return true
	})
	return out, size, count
}

// altStructEquals evaluates the same comparison with a different bookkeeping. It is NEVER used as an expected result: it
// only delimits the known-deviation classes "dev:struct-equals-*" (cases where the code under test is known to keep its
// books differently from the reference, reported as candidate defects), so that everything outside them is compared
// exactly. goAccounting=false: the reference budgets, but fields visited first-to-last (recursive). goAccounting=true:
// additionally the root pair is free, the byte budget restarts for every nested struct, and the item budget allows
// MaxStackSize-2 field visits.
func altStructEquals(x, other *Item, goAccounting bool) eqOutcome {
	count := MaxStackSize
	if goAccounting {
		count = MaxStackSize - 1
	}
	var walk func(a, b *Item, size *int) bool
	walk = func(a, b *Item, size *int) bool { // a, b structs
		if a == b {
			return true
		}
		if len(a.Elems) != len(b.Elems) {
			return false
		}
		if goAccounting {
			fresh := MaxComparableSize
			size = &fresh
		}
		for j := range a.Elems {
			ca, cb := a.Elems[j], b.Elems[j]
			if goAccounting {
				count--
				if count == 0 {
					failf("too many struct items to compare")
				}
			} else {
				if count == 0 {
					failf("too many struct items to compare")
				}
				count--
			}
			unsureIf(ca.K == Opaque || cb.K == Opaque, "engine-message-inspected")
			if ca.K == ByteString {
				if !bsEquals(ca, cb, size) {
					return false
				}
				continue
			}
			if *size == 0 {
				failf("operand exceeds the maximum comparable size")
			}
			*size--
			if ca.K == Struct {
				if cb.K != Struct {
					return false
				}
				if !walk(ca, cb, size) {
					return false
				}
			} else if !plainEquals(ca, cb) {
				return false
			}
		}
		return true
	}
	return outcomeOf(func() bool {
		size := MaxComparableSize
		if !goAccounting {
			count-- // the root pair
			size--
		}
		return walk(x, other, &size)
	})
}

func (e *engine) structEquals(x, other *Item) bool {
	if other.K != Struct {
		return false
	}
	spec, sizeLeft, countLeft := specStructEquals(x, other)
	differs := func(a, b eqOutcome) bool {
		return (a.fault == "") != (b.fault == "") || (a.fault == "" && a.eq != b.eq)
	}
	if differs(altStructEquals(x, other, true), spec) {
		if differs(altStructEquals(x, other, false), spec) {
			e.tag("dev:struct-equals-traversal-order")
		} else {
			e.tag("dev:struct-equals-budget-accounting")
		}
	}
	switch {
	case spec.fault != "":
		e.tag("struct-eq-budget-fault")
		failf("%s", spec.fault)
	case sizeLeft <= 2 || countLeft <= 2:
		e.tag("struct-eq-halt-at-budget-edge")
	case sizeLeft < MaxComparableSize/2 || countLeft < MaxStackSize/2:
		e.tag("struct-eq-halt-past-half-budget")
	}
	return spec.eq
}

func (e *engine) itemEquals(x1, x2 *Item) bool {
	unsureIf(x1.K == Opaque || x2.K == Opaque, "engine-message-inspected")
	switch x1.K {
	case ByteString:
		limit := MaxComparableSize
		return bsEquals(x1, x2, &limit)
	case Struct:
		return e.structEquals(x1, x2)
	}
	return plainEquals(x1, x2)
}

// cloneStruct is Struct.Clone(limits): nested structs are copied, everything else is shared.
func cloneStruct(s *Item) *Item {
	count := MaxStackSize - 1
	result := newStruct(nil)
	queue := []*Item{s, result}
	for len(queue) > 0 {
		a, b := queue[0], queue[1]
		queue = queue[2:]
		for _, it := range a.Elems {
			count--
			if count < 0 {
				failf("beyond struct subitem clone limits")
			}
			if it.K == Struct {
				sa := newStruct(nil)
				b.Elems = append(b.Elems, sa)
				queue = append(queue, it, sa)
			} else {
				b.Elems = append(b.Elems, it)
			}
		}
	}
	return result
}

// ---- maps ----------------------------------------------------------------------------------------------------------------

func keyEquals(a, b *Item) bool {
	if a.K != b.K {
		return false
	}
	switch a.K {
	case Boolean:
		return a.Bool == b.Bool
	case Integer:
		return a.Int.Cmp(b.Int) == 0
	}
	return bytes.Equal(a.Bytes, b.Bytes)
}

func checkKeySize(k *Item) {
	if primSize(k) > MapMaxKeySize {
		failf("map key too long")
	}
}

func mapFind(m, k *Item) int {
	checkKeySize(k)
	for i, x := range m.Keys {
		if keyEquals(x, k) {
			return i
		}
	}
	return -1
}

func mapSet(m, k, v *Item) {
	if i := mapFind(m, k); i >= 0 {
		m.Elems[i] = v
		return
	}
	m.Keys = append(m.Keys, k)
	m.Elems = append(m.Elems, v)
}

// ---- reference counting (ReferenceCounter.Count after CheckZeroReferred) ---------------------------------------

// refCount = number of stack references (evaluation stacks, result stack, slots) + number of child references held by
// every compound item reachable from them (each compound counted once; a map entry holds two references).
func (e *engine) refCount() int {
	e.gen++
	n := 0
	var visit func(it *Item)
	visit = func(it *Item) {
		if !it.isCompound() || it.mark == e.gen {
			return
		}
		it.mark = e.gen
		n += len(it.Elems) + len(it.Keys)
		for _, c := range it.Elems {
			visit(c)
		}
	}
	root := func(l []*Item) {
		n += len(l)
		for _, it := range l {
			visit(it)
		}
	}
	seen := map[*shared]bool{}
	for _, f := range e.frames {
		if !seen[f.sh] {
			seen[f.sh] = true
			root(f.sh.stack)
			root(f.sh.static)
		}
		root(f.locals)
		root(f.args)
	}
	root(e.result)
	return n
}

// ---- instruction decoding (reference: Instruction constructor, OperandSizePrefix / OperandSize tables) ----------------

func operandSize(op opcode.Opcode) (prefix, size int) {
	switch op {
	case opcode.PUSHINT8:
		return 0, 1
	case opcode.PUSHINT16:
		return 0, 2
	case opcode.PUSHINT32:
		return 0, 4
	case opcode.PUSHINT64:
		return 0, 8
	case opcode.PUSHINT128:
		return 0, 16
	case opcode.PUSHINT256:
		return 0, 32
	case opcode.PUSHA:
		return 0, 4
	case opcode.PUSHDATA1:
		return 1, 0
	case opcode.PUSHDATA2:
		return 2, 0
	case opcode.PUSHDATA4:
		return 4, 0
	case opcode.JMP, opcode.JMPIF, opcode.JMPIFNOT, opcode.JMPEQ, opcode.JMPNE, opcode.JMPGT, opcode.JMPGE,
		opcode.JMPLT, opcode.JMPLE, opcode.CALL, opcode.ENDTRY:
		return 0, 1
	case opcode.JMPL, opcode.JMPIFL, opcode.JMPIFNOTL, opcode.JMPEQL, opcode.JMPNEL, opcode.JMPGTL, opcode.JMPGEL,
		opcode.JMPLTL, opcode.JMPLEL, opcode.CALLL, opcode.ENDTRYL, opcode.SYSCALL:
		return 0, 4
	case opcode.CALLT, opcode.TRY, opcode.INITSLOT:
		return 0, 2
	case opcode.TRYL:
		return 0, 8
	case opcode.INITSSLOT, opcode.LDSFLD, opcode.STSFLD, opcode.LDLOC, opcode.STLOC, opcode.LDARG, opcode.STARG,
		opcode.NEWARRAYT, opcode.ISTYPE, opcode.CONVERT:
		return 0, 1
	}
	return 0, 0
}

func le(b []byte) int64 { // unsigned little endian
	var v int64
	for i := len(b) - 1; i >= 0; i-- {
		v = v<<8 | int64(b[i])
	}
	return v
}

func sle(b []byte) int { // signed little endian, 1..4 bytes
	v := le(b)
	bits := uint(8 * len(b))
	if v&(1<<(bits-1)) != 0 {
		v -= 1 << bits
	}
	return int(v)
}

// decode returns opcode, operand and total instruction size at ip (ip < len(script)).
func (e *engine) decode(ip int) (opcode.Opcode, []byte, int) {
	s := e.script
	op := opcode.Opcode(s[ip])
	prefix, size := operandSize(op)
	p := ip + 1
	if prefix > 0 {
		if p+prefix > len(s) {
			failf("operand size prefix out of bounds")
		}
		n := le(s[p : p+prefix])
		unsureIf(n > 0x7fffffff, "pushdata4-negative-length")
		size = int(n)
		p += prefix
	}
	if p+size > len(s) {
		failf("instruction out of bounds")
	}
	return op, s[p : p+size], 1 + prefix + size
}

// ---- control transfer ---------------------------------------------------------------------------------------------------------

// setIP models the ExecutionContext.InstructionPointer setter (0..Length allowed); position == Length (an implicit RET) is
// kept out of the domain because ExecuteJump's bound changed between reference versions.
func (e *engine) setIP(f *frame, pos int) {
	if pos < 0 || pos > len(e.script) {
		failf("position %d out of range", pos)
	}
	unsureIf(pos == len(e.script), "target==script-length")
	f.ip = pos
}

func (e *engine) jump(f *frame, pos int) {
	e.setIP(f, pos)
	e.jumping = true
}

func (e *engine) offsetOK(pos int) bool { return pos >= 0 && pos <= len(e.script) }

func (e *engine) call(pos int) {
	if len(e.frames) >= MaxInvocationStackSize {
		failf("invocation stack overflow")
	}
	nf := &frame{sh: e.cur().sh}
	e.setIP(nf, pos)
	e.frames = append(e.frames, nf)
}

func (e *engine) anyTry() bool {
	for _, f := range e.frames {
		if len(f.try) > 0 {
			return true
		}
	}
	return false
}

// executeThrow is JumpTable.ExecuteThrow.
func (e *engine) executeThrow(ex *Item) {
	e.uncaught = ex
	pop := 0
	for i := len(e.frames) - 1; i >= 0; i-- {
		fr := e.frames[i]
		for len(fr.try) > 0 {
			t := fr.try[len(fr.try)-1]
			if t.state == stFinally || (t.state == stCatch && !t.hasFinally()) {
				fr.try = fr.try[:len(fr.try)-1]
				continue
			}
			if pop > 0 {
				e.tag("exc-cross-call")
				e.frames = e.frames[:len(e.frames)-pop]
			}
			if t.state == stTry && t.hasCatch() {
				t.state = stCatch
				e.push(e.uncaught)
				e.setIP(fr, t.catchP)
				e.uncaught = nil
				e.tag("exc-caught")
			} else {
				t.state = stFinally
				e.setIP(fr, t.finallyP)
				e.tag("exc-finally")
			}
			e.jumping = true
			return
		}
		pop++
	}
	e.tag("exc-unhandled")
	failf("unhandled exception")
}

// ---- one instruction (ExecutionEngine.ExecuteNext) ---------------------------------------------------------------------

func (e *engine) step() {
	f := e.cur()
	op, arg, size := opcode.RET, []byte(nil), 0
	if f.ip < len(e.script) {
		op, arg, size = e.decode(f.ip)
	}
	e.jumping = false
	engineException := false
	func() {
		defer func() {
			if r := recover(); r != nil {
				if _, ok := r.(catchable); !ok {
					panic(r)
				}
				engineException = true
			}
		}()
		e.exec(f, op, arg)
	}()
	if engineException {
		// reference: catch (CatchableException ex) when (Limits.CatchEngineExceptions) => ExecuteThrow(ex.Message)
		e.tag("engine-catchable")
		e.executeThrow(&Item{K: Opaque})
	}
	// PostExecuteInstruction
	if e.refCount() > MaxStackSize {
		e.tag("stack-overflow")
		failf("MaxStackSize exceeded")
	}
	if !e.jumping {
		f.ip += size
	}
}

func (e *engine) slotLoad(slot []*Item, i int) {
	if slot == nil {
		failf("slot not initialised")
	}
	if i < 0 || i >= len(slot) {
		failf("slot index %d out of range", i)
	}
	e.push(slot[i])
}

func (e *engine) slotStore(slot []*Item, i int) {
	if slot == nil {
		failf("slot not initialised")
	}
	if i < 0 || i >= len(slot) {
		failf("slot index %d out of range", i)
	}
	slot[i] = e.pop()
}

func nulls(n int) []*Item {
	l := make([]*Item, n)
	for i := range l {
		l[i] = theNull
	}
	return l
}

func (e *engine) exec(f *frame, op opcode.Opcode, arg []byte) {
	switch {
	case op <= opcode.PUSHINT256:
		e.push(newInt(BytesToInt(arg)))
		return
	case op >= opcode.PUSHM1 && op <= opcode.PUSH16:
		e.pushSmall(int(op) - int(opcode.PUSH0))
		return
	case op >= opcode.LDSFLD0 && op <= opcode.LDSFLD6:
		e.slotLoad(f.sh.static, int(op-opcode.LDSFLD0))
		return
	case op >= opcode.STSFLD0 && op <= opcode.STSFLD6:
		e.slotStore(f.sh.static, int(op-opcode.STSFLD0))
		return
	case op >= opcode.LDLOC0 && op <= opcode.LDLOC6:
		e.slotLoad(f.locals, int(op-opcode.LDLOC0))
		return
	case op >= opcode.STLOC0 && op <= opcode.STLOC6:
		e.slotStore(f.locals, int(op-opcode.STLOC0))
		return
	case op >= opcode.LDARG0 && op <= opcode.LDARG6:
		e.slotLoad(f.args, int(op-opcode.LDARG0))
		return
	case op >= opcode.STARG0 && op <= opcode.STARG6:
		e.slotStore(f.args, int(op-opcode.STARG0))
		return
	}

	switch op {
	// ---- constants
	case opcode.PUSHT:
		e.pushBool(true)
	case opcode.PUSHF:
		e.pushBool(false)
	case opcode.PUSHA:
		pos := f.ip + sle(arg)
		if pos < 0 || pos > len(e.script) {
			failf("PUSHA position out of range")
		}
		e.push(&Item{K: Pointer, Pos: pos})
	case opcode.PUSHNULL:
		e.push(theNull)
	case opcode.PUSHDATA1, opcode.PUSHDATA2, opcode.PUSHDATA4:
		if len(arg) > MaxItemSize {
			failf("item too large")
		}
		e.push(newBytes(arg))

	// ---- flow control
	case opcode.NOP:
	case opcode.JMP, opcode.JMPL:
		e.jump(f, f.ip+sle(arg))
	case opcode.JMPIF, opcode.JMPIFL, opcode.JMPIFNOT, opcode.JMPIFNOTL:
		c := e.popBool()
		if op == opcode.JMPIFNOT || op == opcode.JMPIFNOTL {
			c = !c
		}
		e.condJump(f, c, arg)
	case opcode.JMPEQ, opcode.JMPEQL, opcode.JMPNE, opcode.JMPNEL, opcode.JMPGT, opcode.JMPGTL, opcode.JMPGE, opcode.JMPGEL,
		opcode.JMPLT, opcode.JMPLTL, opcode.JMPLE, opcode.JMPLEL:
		x2 := e.popInt()
		x1 := e.popInt()
		cmp := x1.Cmp(x2)
		var c bool
		switch op {
		case opcode.JMPEQ, opcode.JMPEQL:
			c = cmp == 0
		case opcode.JMPNE, opcode.JMPNEL:
			c = cmp != 0
		case opcode.JMPGT, opcode.JMPGTL:
			c = cmp > 0
		case opcode.JMPGE, opcode.JMPGEL:
			c = cmp >= 0
		case opcode.JMPLT, opcode.JMPLTL:
			c = cmp < 0
		default:
			c = cmp <= 0
		}
		e.condJump(f, c, arg)
	case opcode.CALL, opcode.CALLL:
		e.call(f.ip + sle(arg))
	case opcode.CALLA:
		p := e.pop()
		unsureIf(p.K == Opaque, "engine-message-inspected")
		if p.K != Pointer {
			failf("CALLA needs a pointer")
		}
		e.call(p.Pos)
	case opcode.CALLT, opcode.SYSCALL:
		panic(unsure{"external-effect-instruction"})
	case opcode.ABORT:
		failf("ABORT")
	case opcode.ABORTMSG:
		e.pop()
		failf("ABORTMSG")
	case opcode.ASSERT:
		if !e.popBool() {
			failf("ASSERT failed")
		}
	case opcode.ASSERTMSG:
		msg := e.pop()
		unsureIf(msg.K == Null, "assertmsg-null-message")
		if !ValidUTF8(getSpan(msg)) {
			failf("message is not UTF-8")
		}
		if !e.popBool() {
			failf("ASSERTMSG failed")
		}
	case opcode.THROW:
		e.executeThrow(e.pop())
	case opcode.TRY, opcode.TRYL:
		h := len(arg) / 2
		co, fo := sle(arg[:h]), sle(arg[h:])
		if co == 0 && fo == 0 {
			failf("TRY without catch and finally")
		}
		if len(f.try) >= MaxTryNestingDepth {
			failf("MaxTryNestingDepth exceeded")
		}
		t := &tryCtx{catchP: -1, finallyP: -1, endP: -1}
		if co != 0 {
			t.catchP = f.ip + co
			if !e.offsetOK(t.catchP) {
				e.tag("dev:try-offset-validated-eagerly")
			}
		}
		if fo != 0 {
			t.finallyP = f.ip + fo
			if !e.offsetOK(t.finallyP) {
				e.tag("dev:try-offset-validated-eagerly")
			}
		}
		f.try = append(f.try, t)
	case opcode.ENDTRY, opcode.ENDTRYL:
		if len(f.try) == 0 {
			failf("ENDTRY without TRY")
		}
		t := f.try[len(f.try)-1]
		if t.state == stFinally {
			failf("ENDTRY in FINALLY")
		}
		end := f.ip + sle(arg)
		if t.hasFinally() {
			t.state = stFinally
			t.endP = end
			if !e.offsetOK(end) {
				e.tag("dev:endtry-offset-validated-eagerly")
			}
			e.jump(f, t.finallyP)
		} else {
			f.try = f.try[:len(f.try)-1]
			e.jump(f, end)
		}
	case opcode.ENDFINALLY:
		// The reference pops the current try context whatever its state and then rethrows a pending exception;
		// only the well-formed situation (top context in FINALLY state) is inside the domain when an exception is pending.
		if e.uncaught != nil {
			unsureIf(len(f.try) == 0 || f.try[len(f.try)-1].state != stFinally, "endfinally-outside-finally-with-pending-exception")
		}
		if len(f.try) == 0 {
			failf("ENDFINALLY without TRY")
		}
		t := f.try[len(f.try)-1]
		f.try = f.try[:len(f.try)-1]
		if e.uncaught == nil {
			e.jump(f, t.endP)
		} else {
			e.executeThrow(e.uncaught)
		}
	case opcode.RET:
		e.frames = e.frames[:len(e.frames)-1]
		if len(e.frames) == 0 {
			e.result = append(e.result, f.sh.stack...)
			f.sh.stack = nil
			e.halted = true
		}
		e.jumping = true

	// ---- stack
	case opcode.DEPTH:
		e.pushSmall(e.depth())
	case opcode.DROP:
		e.pop()
	case opcode.NIP:
		e.removeAt(1)
	case opcode.XDROP:
		n := e.popInt32()
		if n < 0 {
			failf("negative index")
		}
		e.removeAt(n)
	case opcode.CLEAR:
		f.sh.stack = f.sh.stack[:0]
	case opcode.DUP:
		e.push(e.peek(0))
	case opcode.OVER:
		e.push(e.peek(1))
	case opcode.PICK:
		n := e.popInt32()
		if n < 0 {
			failf("negative index")
		}
		e.push(e.peek(n))
	case opcode.TUCK:
		e.insertAt(2, e.peek(0))
	case opcode.SWAP:
		e.push(e.removeAt(1))
	case opcode.ROT:
		e.push(e.removeAt(2))
	case opcode.ROLL:
		n := e.popInt32()
		if n < 0 {
			failf("negative index")
		}
		if n == 0 {
			if e.depth() == 0 {
				// reference: `if (n == 0) return;` before touching the stack
				e.tag("dev:roll0-on-empty-stack")
			}
			return
		}
		e.push(e.removeAt(n))
	case opcode.REVERSE3:
		e.reverseTop(3)
	case opcode.REVERSE4:
		e.reverseTop(4)
	case opcode.REVERSEN:
		e.reverseTop(e.popInt32())

	// ---- slots
	case opcode.INITSSLOT:
		if f.sh.static != nil {
			failf("INITSSLOT twice")
		}
		if arg[0] == 0 {
			failf("INITSSLOT 0")
		}
		f.sh.static = nulls(int(arg[0]))
	case opcode.INITSLOT:
		if f.locals != nil || f.args != nil {
			failf("INITSLOT twice")
		}
		if arg[0] == 0 && arg[1] == 0 {
			failf("INITSLOT 0 0")
		}
		if arg[0] > 0 {
			f.locals = nulls(int(arg[0]))
		}
		if arg[1] > 0 {
			a := make([]*Item, int(arg[1]))
			for i := range a {
				a[i] = theNull
			}
			for i := range a {
				a[i] = e.pop()
			}
			f.args = a
		}
	case opcode.LDSFLD:
		e.slotLoad(f.sh.static, int(arg[0]))
	case opcode.STSFLD:
		e.slotStore(f.sh.static, int(arg[0]))
	case opcode.LDLOC:
		e.slotLoad(f.locals, int(arg[0]))
	case opcode.STLOC:
		e.slotStore(f.locals, int(arg[0]))
	case opcode.LDARG:
		e.slotLoad(f.args, int(arg[0]))
	case opcode.STARG:
		e.slotStore(f.args, int(arg[0]))

	// ---- splice
	case opcode.NEWBUFFER:
		n := e.popInt32()
		if n < 0 || n > MaxItemSize {
			failf("bad buffer size")
		}
		e.push(newBuffer(make([]byte, n)))
	case opcode.MEMCPY:
		count := e.popInt32()
		if count < 0 {
			failf("negative count")
		}
		si := e.popInt32()
		if si < 0 {
			failf("negative source index")
		}
		src := getSpan(e.pop())
		if si+count > len(src) {
			failf("source range")
		}
		di := e.popInt32()
		if di < 0 {
			failf("negative destination index")
		}
		dst := e.pop()
		unsureIf(dst.K == Opaque, "engine-message-inspected")
		if dst.K != Buffer {
			failf("destination is not a buffer")
		}
		if di+count > len(dst.Bytes) {
			failf("destination range")
		}
		tmp := append([]byte(nil), src[si:si+count]...) // memmove semantics
		copy(dst.Bytes[di:], tmp)
	case opcode.CAT:
		x2 := getSpan(e.pop())
		x1 := getSpan(e.pop())
		if len(x1)+len(x2) > MaxItemSize {
			failf("item too large")
		}
		r := make([]byte, 0, len(x1)+len(x2))
		r = append(append(r, x1...), x2...)
		e.push(newBuffer(r))
	case opcode.SUBSTR:
		count := e.popInt32()
		if count < 0 {
			failf("negative count")
		}
		index := e.popInt32()
		if index < 0 {
			failf("negative index")
		}
		x := getSpan(e.pop())
		if index+count > len(x) {
			failf("range")
		}
		e.push(newBuffer(append([]byte{}, x[index:index+count]...)))
	case opcode.LEFT:
		count := e.popInt32()
		if count < 0 {
			failf("negative count")
		}
		x := getSpan(e.pop())
		if count > len(x) {
			failf("range")
		}
		e.push(newBuffer(append([]byte{}, x[:count]...)))
	case opcode.RIGHT:
		count := e.popInt32()
		if count < 0 {
			failf("negative count")
		}
		x := getSpan(e.pop())
		if count > len(x) {
			failf("range")
		}
		e.push(newBuffer(append([]byte{}, x[len(x)-count:]...)))

	// ---- bitwise
	case opcode.INVERT:
		x := e.popInt()
		r := new(big.Int).Neg(x)
		e.pushInt(r.Sub(r, big1)) // ~x = -x - 1
	case opcode.AND:
		x2, x1 := e.popInt(), e.popInt()
		e.pushInt(Bitwise(x1, x2, func(a, b byte) byte { return a & b }))
	case opcode.OR:
		x2, x1 := e.popInt(), e.popInt()
		e.pushInt(Bitwise(x1, x2, func(a, b byte) byte { return a | b }))
	case opcode.XOR:
		x2, x1 := e.popInt(), e.popInt()
		e.pushInt(Bitwise(x1, x2, func(a, b byte) byte { return a ^ b }))
	case opcode.EQUAL, opcode.NOTEQUAL:
		x2 := e.pop()
		x1 := e.pop()
		e.pushBool(e.itemEquals(x1, x2) == (op == opcode.EQUAL))

	// ---- arithmetic
	case opcode.SIGN:
		e.pushSmall(e.popInt().Sign())
	case opcode.ABS:
		e.pushInt(absOf(e.popInt()))
	case opcode.NEGATE:
		e.pushInt(new(big.Int).Neg(e.popInt()))
	case opcode.INC:
		e.pushInt(new(big.Int).Add(e.popInt(), big1))
	case opcode.DEC:
		e.pushInt(new(big.Int).Sub(e.popInt(), big1))
	case opcode.ADD:
		x2, x1 := e.popInt(), e.popInt()
		e.pushInt(new(big.Int).Add(x1, x2))
	case opcode.SUB:
		x2, x1 := e.popInt(), e.popInt()
		e.pushInt(new(big.Int).Sub(x1, x2))
	case opcode.MUL:
		x2, x1 := e.popInt(), e.popInt()
		e.pushInt(new(big.Int).Mul(x1, x2))
	case opcode.DIV:
		x2, x1 := e.popInt(), e.popInt()
		if x2.Sign() == 0 {
			failf("division by zero")
		}
		e.pushInt(TruncDiv(x1, x2))
	case opcode.MOD:
		x2, x1 := e.popInt(), e.popInt()
		if x2.Sign() == 0 {
			failf("division by zero")
		}
		e.pushInt(TruncRem(x1, x2))
	case opcode.POW:
		exp := e.popInt32()
		if exp < 0 || exp > MaxShift {
			failf("bad exponent")
		}
		x := e.popInt()
		r, ok := Pow(x, exp)
		if !ok {
			e.tag("int-overflow")
			failf("integer result does not fit 32 bytes")
		}
		e.pushInt(r)
	case opcode.SQRT:
		x := e.popInt()
		if x.Sign() < 0 {
			failf("sqrt of negative")
		}
		e.pushInt(Sqrt(x))
	case opcode.MODMUL:
		m := e.popInt()
		x2, x1 := e.popInt(), e.popInt()
		if m.Sign() == 0 {
			failf("division by zero")
		}
		e.pushInt(TruncRem(new(big.Int).Mul(x1, x2), m))
	case opcode.MODPOW:
		m := e.popInt()
		exp := e.popInt()
		v := e.popInt()
		if exp.Cmp(big.NewInt(-1)) == 0 {
			r, ok := ModInverse(v, m)
			if !ok {
				failf("no modular inverse")
			}
			e.pushInt(r)
			return
		}
		if exp.Sign() < 0 {
			failf("negative exponent")
		}
		if m.Sign() == 0 {
			failf("division by zero")
		}
		e.pushInt(ModPow(v, exp, m))
	case opcode.SHL, opcode.SHR:
		shift := e.popInt32()
		if shift < 0 || shift > MaxShift {
			failf("bad shift")
		}
		if shift == 0 {
			// reference: `if (shift == 0) return;` leaves the operand untouched (whatever it is); the Go VM's
			// default hardfork set converts it. Only the case where both coincide is inside the domain.
			unsureIf(e.depth() == 0 || e.peek(0).K != Integer, "shift-by-zero-of-non-integer")
			return
		}
		x := e.popInt()
		if op == opcode.SHL {
			e.pushInt(ShiftLeft(x, shift))
		} else {
			e.pushInt(ShiftRight(x, shift))
		}
	case opcode.NOT:
		e.pushBool(!e.popBool())
	case opcode.BOOLAND:
		x2, x1 := e.popBool(), e.popBool()
		e.pushBool(x1 && x2)
	case opcode.BOOLOR:
		x2, x1 := e.popBool(), e.popBool()
		e.pushBool(x1 || x2)
	case opcode.NZ:
		e.pushBool(e.popInt().Sign() != 0)
	case opcode.NUMEQUAL:
		x2, x1 := e.popInt(), e.popInt()
		e.pushBool(x1.Cmp(x2) == 0)
	case opcode.NUMNOTEQUAL:
		x2, x1 := e.popInt(), e.popInt()
		e.pushBool(x1.Cmp(x2) != 0)
	case opcode.LT, opcode.LE, opcode.GT, opcode.GE:
		x2 := e.pop()
		x1 := e.pop()
		unsureIf(x1.K == Opaque || x2.K == Opaque, "engine-message-inspected")
		if x1.K == Null || x2.K == Null {
			e.pushBool(false)
			return
		}
		cmp := getInteger(x1).Cmp(getInteger(x2))
		switch op {
		case opcode.LT:
			e.pushBool(cmp < 0)
		case opcode.LE:
			e.pushBool(cmp <= 0)
		case opcode.GT:
			e.pushBool(cmp > 0)
		default:
			e.pushBool(cmp >= 0)
		}
	case opcode.MIN:
		x2, x1 := e.popInt(), e.popInt()
		if x1.Cmp(x2) <= 0 {
			e.pushInt(x1)
		} else {
			e.pushInt(x2)
		}
	case opcode.MAX:
		x2, x1 := e.popInt(), e.popInt()
		if x1.Cmp(x2) >= 0 {
			e.pushInt(x1)
		} else {
			e.pushInt(x2)
		}
	case opcode.WITHIN:
		b := e.popInt()
		a := e.popInt()
		x := e.popInt()
		e.pushBool(a.Cmp(x) <= 0 && x.Cmp(b) < 0)

	// ---- compound
	case opcode.PACKMAP:
		size := e.popInt32()
		if size < 0 || size*2 > e.depth() {
			failf("bad PACKMAP size")
		}
		m := newMap()
		for i := 0; i < size; i++ {
			k := e.popPrimitive()
			v := e.pop()
			mapSet(m, k, v)
		}
		e.push(m)
	case opcode.PACKSTRUCT, opcode.PACK:
		size := e.popInt32()
		if size < 0 || size > e.depth() {
			failf("bad PACK size")
		}
		items := make([]*Item, 0, size)
		for i := 0; i < size; i++ {
			items = append(items, e.pop())
		}
		if op == opcode.PACK {
			e.push(newArray(items))
		} else {
			e.push(newStruct(items))
		}
	case opcode.UNPACK:
		c := e.pop()
		unsureIf(c.K == Opaque, "engine-message-inspected")
		switch c.K {
		case Map:
			for i := len(c.Keys) - 1; i >= 0; i-- {
				e.push(c.Elems[i])
				e.push(c.Keys[i])
			}
			e.pushSmall(len(c.Keys))
		case Array, Struct:
			for i := len(c.Elems) - 1; i >= 0; i-- {
				e.push(c.Elems[i])
			}
			e.pushSmall(len(c.Elems))
		default:
			failf("UNPACK needs a compound item")
		}
	case opcode.NEWARRAY0:
		e.push(newArray(nil))
	case opcode.NEWARRAY, opcode.NEWARRAYT, opcode.NEWSTRUCT:
		n := e.popInt32()
		if n < 0 || n > MaxStackSize {
			failf("bad element count")
		}
		fill := theNull
		if op == opcode.NEWARRAYT {
			if !definedType(arg[0]) {
				failf("undefined type")
			}
			switch arg[0] {
			case TBoolean:
				fill = newBool(false)
			case TInteger:
				fill = newInt(big.NewInt(0))
			case TByteString:
				fill = newBytes([]byte{})
			}
		}
		items := make([]*Item, n)
		for i := range items {
			items[i] = fill
		}
		if op == opcode.NEWSTRUCT {
			e.push(newStruct(items))
		} else {
			e.push(newArray(items))
		}
	case opcode.NEWSTRUCT0:
		e.push(newStruct(nil))
	case opcode.NEWMAP:
		e.push(newMap())
	case opcode.SIZE:
		x := e.pop()
		unsureIf(x.K == Opaque, "engine-message-inspected")
		switch {
		case x.K == Map:
			e.pushSmall(len(x.Keys))
		case x.K == Array || x.K == Struct:
			e.pushSmall(len(x.Elems))
		case x.isPrimitive():
			e.pushSmall(primSize(x))
		case x.K == Buffer:
			e.pushSmall(len(x.Bytes))
		default:
			failf("SIZE of unsupported type")
		}
	case opcode.HASKEY:
		key := e.popPrimitive()
		x := e.pop()
		unsureIf(x.K == Opaque, "engine-message-inspected")
		switch x.K {
		case Array, Struct, Buffer, ByteString:
			index := toInt32(getInteger(key))
			if index < 0 {
				failf("negative index")
			}
			// The Go VM's latest hardfork additionally rejects indexes >= MaxItemSize; not established for the reference.
			unsureIf(index >= MaxItemSize, "haskey-index>=MaxItemSize")
			n := len(x.Elems)
			if x.K == Buffer || x.K == ByteString {
				n = len(x.Bytes)
			}
			e.pushBool(index < n)
		case Map:
			e.pushBool(mapFind(x, key) >= 0)
		default:
			failf("HASKEY on unsupported type")
		}
	case opcode.KEYS:
		m := e.pop()
		unsureIf(m.K == Opaque, "engine-message-inspected")
		if m.K != Map {
			failf("KEYS needs a map")
		}
		e.push(newArray(append([]*Item{}, m.Keys...)))
	case opcode.VALUES:
		x := e.pop()
		unsureIf(x.K == Opaque, "engine-message-inspected")
		if !x.isCompound() {
			failf("VALUES needs a compound item")
		}
		out := make([]*Item, 0, len(x.Elems))
		for _, it := range x.Elems {
			if it.K == Struct {
				out = append(out, cloneStruct(it))
			} else {
				out = append(out, it)
			}
		}
		e.push(newArray(out))
	case opcode.PICKITEM:
		key := e.popPrimitive()
		x := e.pop()
		unsureIf(x.K == Opaque, "engine-message-inspected")
		switch x.K {
		case Array, Struct:
			index := toInt32(getInteger(key))
			if index < 0 || index >= len(x.Elems) {
				panic(catchable{"index out of range"})
			}
			e.push(x.Elems[index])
		case Map:
			i := mapFind(x, key)
			if i < 0 {
				panic(catchable{"key not found"})
			}
			e.push(x.Elems[i])
		case Boolean, Integer, ByteString, Buffer:
			b := getSpan(x)
			index := toInt32(getInteger(key))
			if index < 0 || index >= len(b) {
				panic(catchable{"index out of range"})
			}
			e.pushSmall(int(b[index]))
		default:
			failf("PICKITEM on unsupported type")
		}
	case opcode.APPEND:
		it := e.pop()
		arr := e.pop()
		unsureIf(arr.K == Opaque, "engine-message-inspected")
		if arr.K != Array && arr.K != Struct {
			failf("APPEND needs an array")
		}
		if it.K == Struct {
			it = cloneStruct(it)
		}
		arr.Elems = append(arr.Elems, it)
	case opcode.SETITEM:
		value := e.pop()
		if value.K == Struct {
			value = cloneStruct(value)
		}
		key := e.popPrimitive()
		x := e.pop()
		unsureIf(x.K == Opaque, "engine-message-inspected")
		switch x.K {
		case Array, Struct:
			index := toInt32(getInteger(key))
			if index < 0 || index >= len(x.Elems) {
				e.rangeErrorOfUnknownCatchability()
			}
			x.Elems[index] = value
		case Map:
			mapSet(x, key, value)
		case Buffer:
			index := toInt32(getInteger(key))
			if index < 0 || index >= len(x.Bytes) {
				e.rangeErrorOfUnknownCatchability()
			}
			unsureIf(value.K == Opaque, "engine-message-inspected")
			if !value.isPrimitive() {
				failf("buffer element must be primitive")
			}
			b := toInt32(getInteger(value))
			if b < -128 || b > 255 {
				failf("not a byte")
			}
			x.Bytes[index] = byte(b & 0xff)
		default:
			failf("SETITEM on unsupported type")
		}
	case opcode.REVERSEITEMS:
		x := e.pop()
		unsureIf(x.K == Opaque, "engine-message-inspected")
		switch x.K {
		case Array, Struct:
			for i, j := 0, len(x.Elems)-1; i < j; i, j = i+1, j-1 {
				x.Elems[i], x.Elems[j] = x.Elems[j], x.Elems[i]
			}
		case Buffer:
			for i, j := 0, len(x.Bytes)-1; i < j; i, j = i+1, j-1 {
				x.Bytes[i], x.Bytes[j] = x.Bytes[j], x.Bytes[i]
			}
		default:
			failf("REVERSEITEMS on unsupported type")
		}
	case opcode.REMOVE:
		key := e.popPrimitive()
		x := e.pop()
		unsureIf(x.K == Opaque, "engine-message-inspected")
		switch x.K {
		case Array, Struct:
			index := toInt32(getInteger(key))
			if index < 0 || index >= len(x.Elems) {
				failf("index out of range")
			}
			x.Elems = append(x.Elems[:index:index], x.Elems[index+1:]...)
		case Map:
			if i := mapFind(x, key); i >= 0 {
				x.Keys = append(x.Keys[:i:i], x.Keys[i+1:]...)
				x.Elems = append(x.Elems[:i:i], x.Elems[i+1:]...)
			}
		default:
			failf("REMOVE on unsupported type")
		}
	case opcode.CLEARITEMS:
		x := e.pop()
		unsureIf(x.K == Opaque, "engine-message-inspected")
		if !x.isCompound() {
			failf("CLEARITEMS needs a compound item")
		}
		x.Elems, x.Keys = nil, nil
	case opcode.POPITEM:
		x := e.pop()
		unsureIf(x.K == Opaque, "engine-message-inspected")
		if x.K != Array && x.K != Struct {
			failf("POPITEM needs an array")
		}
		if len(x.Elems) == 0 {
			failf("POPITEM on empty array")
		}
		e.push(x.Elems[len(x.Elems)-1])
		x.Elems = x.Elems[:len(x.Elems)-1]

	// ---- types
	case opcode.ISNULL:
		e.pushBool(e.pop().K == Null)
	case opcode.ISTYPE:
		x := e.pop()
		if arg[0] == TAny || !definedType(arg[0]) {
			failf("bad type")
		}
		e.pushBool(typeCode(x.K) == arg[0])
	case opcode.CONVERT:
		x := e.pop()
		e.push(convert(x, arg[0]))

	default:
		failf("invalid opcode %02x", byte(op))
	}
}

// condJump: the reference computes and validates the target only when the jump is taken.
func (e *engine) condJump(f *frame, cond bool, arg []byte) {
	pos := f.ip + sle(arg)
	if cond {
		e.jump(f, pos)
		return
	}
	if !e.offsetOK(pos) {
		e.tag("dev:untaken-jump-offset-validated")
	}
}

// rangeErrorOfUnknownCatchability: SETITEM index errors are FAULTs unless a TRY is active, where this specification
// does not know whether the reference lets them be caught.
func (e *engine) rangeErrorOfUnknownCatchability() {
	unsureIf(e.anyTry(), "setitem-range-error-inside-try")
	failf("index out of range")
}

// convert is StackItem.ConvertTo.
func convert(x *Item, t byte) *Item {
	unsureIf(x.K == Opaque, "engine-message-inspected")
	if x.K == Null {
		if t == TAny || !definedType(t) {
			failf("Null cannot be converted to %02x", t)
		}
		return x
	}
	if typeCode(x.K) == t {
		return x
	}
	switch x.K {
	case Boolean, Integer, ByteString:
		switch t {
		case TInteger:
			v := getInteger(x)
			if !FitsInt256(v) {
				failf("integer too large")
			}
			return newInt(v)
		case TByteString:
			return newBytes(append([]byte{}, getSpan(x)...))
		case TBuffer:
			return newBuffer(append([]byte{}, getSpan(x)...))
		case TBoolean:
			return newBool(getBoolean(x))
		}
	case Buffer:
		switch t {
		case TInteger:
			if len(x.Bytes) > IntegerMaxSize {
				failf("buffer too long for integer")
			}
			return newInt(BytesToInt(x.Bytes))
		case TByteString:
			return newBytes(append([]byte{}, x.Bytes...))
		case TBoolean:
			return newBool(true)
		}
	case Array:
		switch t {
		case TStruct:
			return newStruct(append([]*Item{}, x.Elems...))
		case TBoolean:
			return newBool(true)
		}
	case Struct:
		switch t {
		case TArray:
			return newArray(append([]*Item{}, x.Elems...))
		case TBoolean:
			return newBool(true)
		}
	case Map, Pointer:
		if t == TBoolean {
			return newBool(true)
		}
	}
	failf("invalid cast to %02x", t)
	return nil
}
