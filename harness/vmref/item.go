package vmref

import (
	"bytes"
	"fmt"
	"math/big"
	"strings"
)

// Kind is the stack item type.
type Kind uint8

// Item kinds. Opaque stands for "a ByteString whose content this specification does not pin down" (the message text
// of an engine-generated catchable exception); any instruction that would look into it makes the run Uncertain.
const (
	Null Kind = iota
	Boolean
	Integer
	ByteString
	Buffer
	Array
	Struct
	Map
	Pointer
	Opaque
)

// Type codes of StackItemType.
const (
	TAny        = 0x00
	TPointer    = 0x10
	TBoolean    = 0x20
	TInteger    = 0x21
	TByteString = 0x28
	TBuffer     = 0x30
	TArray      = 0x40
	TStruct     = 0x41
	TMap        = 0x48
	TInterop    = 0x60
)

// Item is a stack item; pointer identity is reference identity.
type Item struct {
	K     Kind
	Bool  bool
	Int   *big.Int
	Bytes []byte  // ByteString (never mutated) or Buffer (mutable)
	Elems []*Item // Array / Struct elements, Map values
	Keys  []*Item // Map keys (parallel to Elems), insertion ordered
	Pos   int     // Pointer position
	mark  uint64
}

func typeCode(k Kind) byte {
	switch k {
	case Null:
		return TAny
	case Boolean:
		return TBoolean
	case Integer:
		return TInteger
	case ByteString, Opaque:
		return TByteString
	case Buffer:
		return TBuffer
	case Array:
		return TArray
	case Struct:
		return TStruct
	case Map:
		return TMap
	case Pointer:
		return TPointer
	}
	panic("vmref: kind")
}

func definedType(t byte) bool {
	switch t {
	case TAny, TPointer, TBoolean, TInteger, TByteString, TBuffer, TArray, TStruct, TMap, TInterop:
		return true
	}
	return false
}

var theNull = &Item{K: Null}

func newInt(v *big.Int) *Item   { return &Item{K: Integer, Int: v} }
func newBool(b bool) *Item      { return &Item{K: Boolean, Bool: b} }
func newBytes(b []byte) *Item   { return &Item{K: ByteString, Bytes: b} }
func newBuffer(b []byte) *Item  { return &Item{K: Buffer, Bytes: b} }
func newArray(e []*Item) *Item  { return &Item{K: Array, Elems: e} }
func newStruct(e []*Item) *Item { return &Item{K: Struct, Elems: e} }
func newMap() *Item             { return &Item{K: Map} }

func (it *Item) isCompound() bool { return it.K == Array || it.K == Struct || it.K == Map }
func (it *Item) isPrimitive() bool {
	return it.K == Boolean || it.K == Integer || it.K == ByteString
}

// Describe renders a result stack (index 0 = bottom) canonically. Compound items and Buffers (the items with
// observable identity) are numbered in first-visit order; a later occurrence is printed as a back reference "@n", so
// that equality of descriptions means equal values, types, structure AND aliasing. With sharing=false back references
// are only used to cut cycles (items on the current path), so aliasing is not part of the description; that form is
// bounded by maxNodes and returns ok=false when the bound is hit.
func Describe(stack []*Item, sharing bool, maxNodes int) (string, bool) {
	d := &describer[*Item]{sharing: sharing, max: maxNodes, ids: map[*Item]int{}, onPath: map[*Item]bool{}}
	d.view = func(it *Item) View[*Item] {
		v := View[*Item]{}
		switch it.K {
		case Null:
			v.Kind = 'N'
		case Boolean:
			v.Kind = 'B'
			v.Bool = it.Bool
		case Integer:
			v.Kind = 'I'
			v.Int = it.Int
		case ByteString:
			v.Kind = 'S'
			v.Bytes = it.Bytes
		case Opaque:
			v.Kind = 'O'
		case Buffer:
			v.Kind = 'U'
			v.Bytes = it.Bytes
		case Array:
			v.Kind = 'A'
			v.Elems = it.Elems
		case Struct:
			v.Kind = 'T'
			v.Elems = it.Elems
		case Map:
			v.Kind = 'M'
			v.Elems = it.Elems
			v.Keys = it.Keys
		case Pointer:
			v.Kind = 'P'
			v.Pos = it.Pos
		}
		return v
	}
	return d.run(stack)
}

// View is a neutral one-level view of an item of any implementation, used to print both the reference's and the real
// VM's results with the same printer (DescribeWith).
type View[T comparable] struct {
	Kind  byte // N B I S O U A T M P ?  (O = opaque ByteString, ? = unknown)
	Bool  bool
	Int   *big.Int
	Bytes []byte
	Elems []T
	Keys  []T
	Pos   int
}

type describer[T comparable] struct {
	sharing bool
	max     int
	n       int
	over    bool
	ids     map[T]int
	onPath  map[T]bool
	view    func(T) View[T]
	sb      strings.Builder
}

// DescribeWith is Describe for a foreign item type.
func DescribeWith[T comparable](stack []T, view func(T) View[T], sharing bool, maxNodes int) (string, bool) {
	d := &describer[T]{sharing: sharing, max: maxNodes, ids: map[T]int{}, onPath: map[T]bool{}, view: view}
	return d.run(stack)
}

func (d *describer[T]) run(stack []T) (string, bool) {
	d.sb.WriteByte('[')
	for i, it := range stack {
		if i > 0 {
			d.sb.WriteByte(' ')
		}
		d.item(it)
	}
	d.sb.WriteByte(']')
	return d.sb.String(), !d.over
}

func (d *describer[T]) item(it T) {
	d.n++
	if d.max > 0 && d.n > d.max {
		d.over = true
		return
	}
	v := d.view(it)
	switch v.Kind {
	case 'N':
		d.sb.WriteString("Null")
	case 'B':
		fmt.Fprintf(&d.sb, "Bool:%v", v.Bool)
	case 'I':
		fmt.Fprintf(&d.sb, "Int:%s", v.Int.String())
	case 'S':
		d.bytes("Str", v.Bytes)
	case 'O':
		d.sb.WriteString("Str:<engine-message>")
	case 'P':
		fmt.Fprintf(&d.sb, "Ptr:%d", v.Pos)
	case 'U', 'A', 'T', 'M':
		if d.sharing {
			if id, ok := d.ids[it]; ok {
				fmt.Fprintf(&d.sb, "@%d", id)
				return
			}
			d.ids[it] = len(d.ids)
		} else if v.Kind != 'U' {
			if d.onPath[it] {
				d.sb.WriteString("<cycle>")
				return
			}
			d.onPath[it] = true
			defer delete(d.onPath, it)
		}
		switch v.Kind {
		case 'U':
			d.bytes("Buf", v.Bytes)
		case 'A', 'T':
			if v.Kind == 'A' {
				d.sb.WriteString("Arr(")
			} else {
				d.sb.WriteString("Struct(")
			}
			for i, e := range v.Elems {
				if i > 0 {
					d.sb.WriteByte(' ')
				}
				d.item(e)
			}
			d.sb.WriteByte(')')
		case 'M':
			d.sb.WriteString("Map(")
			for i := range v.Elems {
				if i > 0 {
					d.sb.WriteByte(' ')
				}
				d.item(v.Keys[i])
				d.sb.WriteString("=>")
				d.item(v.Elems[i])
			}
			d.sb.WriteByte(')')
		}
	default:
		fmt.Fprintf(&d.sb, "?%c", v.Kind)
	}
}

func (d *describer[T]) bytes(tag string, b []byte) {
	if len(b) <= 80 {
		fmt.Fprintf(&d.sb, "%s:%x", tag, b)
		return
	}
	// long strings: length + a cheap exact fingerprint (FNV-1a 64) + head
	var h uint64 = 0xcbf29ce484222325
	for _, c := range b {
		h ^= uint64(c)
		h *= 0x100000001b3
	}
	fmt.Fprintf(&d.sb, "%s:len=%d,fnv=%016x,head=%x", tag, len(b), h, b[:16])
}

// Compare walks the reference result and a foreign result stack (both bottom first) in parallel and returns a
// description of the first difference. Values and types must agree exactly; an Opaque reference item accepts any
// ByteString. With sharing=true the aliasing pattern of items with identity (Buffer, Array, Struct, Map) must be the
// same on both sides (first-visit numbering must coincide); with sharing=false only the (possibly cyclic) structure is
// compared (bisimulation with memoised pairs).
func Compare[T comparable](ref []*Item, real []T, view func(T) View[T], sharing bool) error {
	if len(ref) != len(real) {
		return fmt.Errorf("stack depth: reference %d, real %d", len(ref), len(real))
	}
	c := &comparer[T]{view: view, sharing: sharing, refIDs: map[*Item]int{}, realIDs: map[T]int{}, pairs: map[pairKey[T]]bool{}}
	for i := range ref {
		if err := c.item(ref[i], real[i], fmt.Sprintf("stack[%d]", i)); err != nil {
			return err
		}
	}
	return nil
}

type pairKey[T comparable] struct {
	a *Item
	b T
}

type comparer[T comparable] struct {
	view    func(T) View[T]
	sharing bool
	refIDs  map[*Item]int
	realIDs map[T]int
	pairs   map[pairKey[T]]bool
}

var kindNames = map[byte]string{'N': "Null", 'B': "Boolean", 'I': "Integer", 'S': "ByteString", 'U': "Buffer", 'A': "Array",
	'T': "Struct", 'M': "Map", 'P': "Pointer", '?': "unknown"}

func refKindByte(k Kind) byte {
	return [...]byte{'N', 'B', 'I', 'S', 'U', 'A', 'T', 'M', 'P', 'S'}[k]
}

func (c *comparer[T]) item(a *Item, b T, path string) error {
	v := c.view(b)
	if refKindByte(a.K) != v.Kind {
		return fmt.Errorf("%s: reference has %s, real has %s", path, kindNames[refKindByte(a.K)], kindNames[v.Kind])
	}
	switch a.K {
	case Null, Opaque:
		return nil
	case Boolean:
		if a.Bool != v.Bool {
			return fmt.Errorf("%s: Boolean reference %v, real %v", path, a.Bool, v.Bool)
		}
		return nil
	case Integer:
		if a.Int.Cmp(v.Int) != 0 {
			return fmt.Errorf("%s: Integer reference %s, real %s", path, a.Int, v.Int)
		}
		return nil
	case ByteString:
		if !bytes.Equal(a.Bytes, v.Bytes) {
			return fmt.Errorf("%s: ByteString reference %s, real %s", path, shortHex(a.Bytes), shortHex(v.Bytes))
		}
		return nil
	case Pointer:
		if a.Pos != v.Pos {
			return fmt.Errorf("%s: Pointer reference %d, real %d", path, a.Pos, v.Pos)
		}
		return nil
	}
	// items with identity
	ia, seenA := c.refIDs[a]
	ib, seenB := c.realIDs[b]
	if c.sharing {
		if seenA != seenB || (seenA && ia != ib) {
			return fmt.Errorf("%s: aliasing differs (reference item seen before: %v #%d, real item seen before: %v #%d)", path, seenA, ia, seenB, ib)
		}
	}
	if !seenA {
		c.refIDs[a] = len(c.refIDs)
	}
	if !seenB {
		c.realIDs[b] = len(c.realIDs)
	}
	pk := pairKey[T]{a, b}
	if c.pairs[pk] {
		return nil
	}
	c.pairs[pk] = true
	switch a.K {
	case Buffer:
		if !bytes.Equal(a.Bytes, v.Bytes) {
			return fmt.Errorf("%s: Buffer reference %s, real %s", path, shortHex(a.Bytes), shortHex(v.Bytes))
		}
	case Array, Struct:
		if len(a.Elems) != len(v.Elems) {
			return fmt.Errorf("%s: %s length reference %d, real %d", path, kindNames[v.Kind], len(a.Elems), len(v.Elems))
		}
		for i := range a.Elems {
			if err := c.item(a.Elems[i], v.Elems[i], fmt.Sprintf("%s[%d]", path, i)); err != nil {
				return err
			}
		}
	case Map:
		if len(a.Keys) != len(v.Keys) {
			return fmt.Errorf("%s: Map size reference %d, real %d", path, len(a.Keys), len(v.Keys))
		}
		for i := range a.Keys {
			if err := c.item(a.Keys[i], v.Keys[i], fmt.Sprintf("%s.key#%d", path, i)); err != nil {
				return err
			}
			if err := c.item(a.Elems[i], v.Elems[i], fmt.Sprintf("%s.value#%d", path, i)); err != nil {
				return err
			}
		}
	}
	return nil
}

func shortHex(b []byte) string {
	if len(b) <= 48 {
		return fmt.Sprintf("%x", b)
	}
	return fmt.Sprintf("%x...(%d bytes)", b[:48], len(b))
}
