// Package vmref is an independent executable specification of the effect-free part of NeoVM (N3),
// written from the reference (C#) neo-vm semantics: ExecutionEngine.ExecuteNext, JumpTable.*, the
// StackItem type hierarchy and ExecutionEngineLimits.Default. It shares no code with pkg/vm,
// pkg/vm/stackitem or pkg/encoding/bigint (only the numeric opcode constants of pkg/vm/opcode are imported).
//
// Integers are unbounded (math/big is used only for +, -, *, comparison and division of NON-NEGATIVE
// operands); truncated division, floor shifts, integer square root, modular inverse, modular power,
// two's-complement conversion and the "fits in 32 bytes" check are defined here from first principles.
//
// Where the specified behaviour could not be established with confidence independently of the Go VM, the
// interpreter stops with state Uncertain and a tag instead of guessing (see the `unsure` call sites).
package vmref

import "math/big"

// Limits: values of the reference implementation's ExecutionEngineLimits.Default, Integer.MaxSize and
// Map.MaxKeySize (neo-vm, C#). They are asserted to be equal to the Go VM's constants by the c13 package.
const (
	MaxShift               = 256
	MaxStackSize           = 2 * 1024
	MaxItemSize            = 65535 * 2 // ushort.MaxValue * 2
	MaxComparableSize      = 65536
	MaxInvocationStackSize = 1024
	MaxTryNestingDepth     = 16
	IntegerMaxSize         = 32
	MapMaxKeySize          = 64
)

var (
	big0 = big.NewInt(0)
	big1 = big.NewInt(1)
	big2 = big.NewInt(2)
	// pow2[i] = 2^i built by repeated doubling.
	pow2 = func() []*big.Int {
		t := make([]*big.Int, 600)
		t[0] = big.NewInt(1)
		for i := 1; i < len(t); i++ {
			t[i] = new(big.Int).Add(t[i-1], t[i-1])
		}
		return t
	}()
	minInt256 = new(big.Int).Neg(pow2[255])
	maxInt256 = new(big.Int).Sub(pow2[255], big1)
)

// FitsInt256 is the explicit range check applied to every produced Integer:
// a value has a two's-complement encoding of at most 32 bytes iff -2^255 <= v <= 2^255-1.
func FitsInt256(v *big.Int) bool {
	return v.Cmp(minInt256) >= 0 && v.Cmp(maxInt256) <= 0
}

func absOf(v *big.Int) *big.Int {
	if v.Sign() < 0 {
		return new(big.Int).Neg(v)
	}
	return new(big.Int).Set(v)
}

// divModNonNeg divides non-negative a by positive b (all division conventions agree there).
func divModNonNeg(a, b *big.Int) (*big.Int, *big.Int) {
	if a.Sign() < 0 || b.Sign() <= 0 {
		panic("vmref: divModNonNeg precondition")
	}
	q, r := new(big.Int), new(big.Int)
	q.DivMod(a, b, r)
	return q, r
}

// TruncDiv is the quotient rounded toward zero (b != 0).
func TruncDiv(a, b *big.Int) *big.Int {
	q, _ := divModNonNeg(absOf(a), absOf(b))
	if a.Sign()*b.Sign() < 0 {
		q.Neg(q)
	}
	return q
}

// TruncRem is the remainder of truncated division: it has the sign of the dividend (b != 0).
func TruncRem(a, b *big.Int) *big.Int {
	_, r := divModNonNeg(absOf(a), absOf(b))
	if a.Sign() < 0 {
		r.Neg(r)
	}
	return r
}

// ShiftLeft is x * 2^n.
func ShiftLeft(x *big.Int, n int) *big.Int {
	return new(big.Int).Mul(x, pow2[n])
}

// ShiftRight is floor(x / 2^n) (arithmetic shift).
func ShiftRight(x *big.Int, n int) *big.Int {
	d := pow2[n]
	if x.Sign() >= 0 {
		q, _ := divModNonNeg(x, d)
		return q
	}
	// floor(-a/d) = -ceil(a/d) = -((a + d - 1) div d)
	a := absOf(x)
	a.Add(a, d)
	a.Sub(a, big1)
	q, _ := divModNonNeg(a, d)
	return q.Neg(q)
}

// Pow computes x^n for 0 <= n by repeated multiplication; ok=false as soon as the magnitude certainly leaves
// the 256-bit range for good (|x| >= 2 and an intermediate magnitude above 2^256).
func Pow(x *big.Int, n int) (res *big.Int, ok bool) {
	res = big.NewInt(1)
	small := absOf(x).Cmp(big1) <= 0 // 0, 1, -1 never grow
	for i := 0; i < n; i++ {
		res.Mul(res, x)
		if !small && absOf(res).Cmp(pow2[256]) > 0 {
			return nil, false
		}
	}
	return res, true
}

// Sqrt is floor(sqrt(x)) for x >= 0 by bisection, verified.
func Sqrt(x *big.Int) *big.Int {
	if x.Sign() < 0 {
		panic("vmref: sqrt of negative")
	}
	lo := big.NewInt(0)
	hi := new(big.Int).Add(x, big1) // lo^2 <= x < hi^2
	for {
		d := new(big.Int).Sub(hi, lo)
		if d.Cmp(big1) <= 0 {
			break
		}
		mid, _ := divModNonNeg(new(big.Int).Add(lo, hi), big2)
		if new(big.Int).Mul(mid, mid).Cmp(x) <= 0 {
			lo = mid
		} else {
			hi = mid
		}
	}
	r1 := new(big.Int).Add(lo, big1)
	if new(big.Int).Mul(lo, lo).Cmp(x) > 0 || new(big.Int).Mul(r1, r1).Cmp(x) <= 0 {
		panic("vmref: sqrt verification failed")
	}
	return lo
}

// ModInverse follows the reference Utility.ModInverse: value > 0, modulus >= 2, gcd 1, result in [0, modulus).
func ModInverse(value, modulus *big.Int) (*big.Int, bool) {
	if value.Sign() <= 0 || modulus.Cmp(big2) < 0 {
		return nil, false
	}
	// extended Euclid on (modulus, value): invariant old_s*value == old_r (mod modulus), s*value == r (mod modulus)
	r, oldR := new(big.Int).Set(value), new(big.Int).Set(modulus)
	s, oldS := big.NewInt(1), big.NewInt(0)
	for r.Sign() > 0 {
		q, rem := divModNonNeg(oldR, r)
		oldR, r = r, rem
		ns := new(big.Int).Sub(oldS, new(big.Int).Mul(q, s))
		oldS, s = s, ns
	}
	if oldR.Cmp(big1) != 0 {
		return nil, false
	}
	res := TruncRem(oldS, modulus)
	if res.Sign() < 0 {
		res.Add(res, modulus)
	}
	if TruncRem(new(big.Int).Mul(value, res), modulus).Cmp(big1) != 0 {
		return nil, false
	}
	return res, true
}

// ModPow is TruncRem(value^exponent, modulus) for exponent >= 0 and modulus != 0, computed by square-and-multiply on
// magnitudes: |v^e| mod |m| = (|v| mod |m|)^e mod |m|, and the sign of v^e is negative iff v < 0 and e is odd.
func ModPow(value, exponent, modulus *big.Int) *big.Int {
	m := absOf(modulus)
	_, b := divModNonNeg(absOf(value), m)
	_, res := divModNonNeg(big.NewInt(1), m) // 1 mod m (0 when m == 1)
	e := new(big.Int).Set(exponent)
	odd := false
	first := true
	for e.Sign() > 0 {
		q, bit := divModNonNeg(e, big2)
		if bit.Sign() != 0 {
			if first {
				odd = true
			}
			_, res = divModNonNeg(new(big.Int).Mul(res, b), m)
		}
		first = false
		_, b = divModNonNeg(new(big.Int).Mul(b, b), m)
		e = q
	}
	if value.Sign() < 0 && odd {
		res.Neg(res)
	}
	return res
}

// IntToBytes is the minimal little-endian two's-complement encoding (zero is the empty string).
func IntToBytes(v *big.Int) []byte {
	if v.Sign() == 0 {
		return []byte{}
	}
	n := 1
	for {
		// n bytes hold [-2^(8n-1), 2^(8n-1)-1]
		lo := new(big.Int).Neg(pow2[8*n-1])
		hi := new(big.Int).Sub(pow2[8*n-1], big1)
		if v.Cmp(lo) >= 0 && v.Cmp(hi) <= 0 {
			break
		}
		n++
	}
	u := new(big.Int).Set(v)
	if u.Sign() < 0 {
		u.Add(u, pow2[8*n])
	}
	be := u.Bytes() // magnitude, big-endian
	out := make([]byte, n)
	for i := 0; i < len(be); i++ {
		out[i] = be[len(be)-1-i]
	}
	return out
}

// BytesToInt decodes a little-endian two's-complement byte string (empty is zero).
func BytesToInt(b []byte) *big.Int {
	n := len(b)
	if n == 0 {
		return big.NewInt(0)
	}
	u := new(big.Int)
	for i := n - 1; i >= 0; i-- {
		u.Mul(u, pow2[8])
		u.Add(u, big.NewInt(int64(b[i])))
	}
	if b[n-1]&0x80 != 0 {
		if 8*n >= len(pow2) {
			panic("vmref: BytesToInt operand too long")
		}
		u.Sub(u, pow2[8*n])
	}
	return u
}

// toFixed returns the w-byte little-endian two's-complement form of v (v must fit).
func toFixed(v *big.Int, w int) []byte {
	u := new(big.Int).Set(v)
	if u.Sign() < 0 {
		u.Add(u, pow2[8*w])
	}
	be := u.Bytes()
	out := make([]byte, w)
	for i := 0; i < len(be); i++ {
		out[i] = be[len(be)-1-i]
	}
	return out
}

// Bitwise applies op bytewise on the sign-extended two's-complement forms (33 bytes are enough for 256-bit operands).
func Bitwise(a, b *big.Int, op func(x, y byte) byte) *big.Int {
	const w = 40
	fa, fb := toFixed(a, w), toFixed(b, w)
	out := make([]byte, w)
	for i := range out {
		out[i] = op(fa[i], fb[i])
	}
	return BytesToInt(out)
}

// ValidUTF8 is a strict UTF-8 validator written from the Unicode well-formed byte sequence table (no overlongs,
// no surrogates, max U+10FFFF).
func ValidUTF8(b []byte) bool {
	i := 0
	for i < len(b) {
		c := b[i]
		switch {
		case c <= 0x7f:
			i++
		case c >= 0xc2 && c <= 0xdf:
			if i+1 >= len(b) || !cont(b[i+1], 0x80, 0xbf) {
				return false
			}
			i += 2
		case c >= 0xe0 && c <= 0xef:
			if i+2 >= len(b) {
				return false
			}
			lo, hi := byte(0x80), byte(0xbf)
			if c == 0xe0 {
				lo = 0xa0
			} else if c == 0xed {
				hi = 0x9f
			}
			if !cont(b[i+1], lo, hi) || !cont(b[i+2], 0x80, 0xbf) {
				return false
			}
			i += 3
		case c >= 0xf0 && c <= 0xf4:
			if i+3 >= len(b) {
				return false
			}
			lo, hi := byte(0x80), byte(0xbf)
			if c == 0xf0 {
				lo = 0x90
			} else if c == 0xf4 {
				hi = 0x8f
			}
			if !cont(b[i+1], lo, hi) || !cont(b[i+2], 0x80, 0xbf) || !cont(b[i+3], 0x80, 0xbf) {
				return false
			}
			i += 4
		default:
			return false
		}
	}
	return true
}

func cont(c, lo, hi byte) bool { return c >= lo && c <= hi }
