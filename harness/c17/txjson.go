package c17

import (
	"encoding/json"
	"fmt"

	"github.com/nspcc-dev/neo-go/pkg/core/transaction"
	"github.com/nspcc-dev/neo-go/pkg/util"
	"pgregory.net/rapid"
	"verifharness/vt"
)

// TxJSONCase: a transaction value that steps over one limit of the binary format (the binary decoder refuses its
// encoding), written as JSON the way MarshalJSON writes it (hash and size of that very value). "Decoding ... either fails
// with an error or gives a value whose re-encoding decodes to the same value": the JSON decoder refuses it, or the value it
// returns survives the binary path (RPC clients read transactions from JSON and send them in binary).
type TxJSONCase struct {
	Edit  string `json:"edit"`
	N     int    `json:"n"`
	Nonce uint32 `json:"nonce"`
}

// keyTxJSONWitnessCount: see known_findings.json.
const keyTxJSONWitnessCount = "tx-json-witness-count-unchecked"

var txJSONEdits = []string{"none", "extra-witness", "missing-witness", "signers", "allowed-contracts", "allowed-groups", "rules", "script-length",
	"oracle-code-with-result", "attributes", "invocation-length", "verification-length"}

func genTxJSONCase(t *rapid.T) TxJSONCase {
	return TxJSONCase{Edit: rapid.SampledFrom(txJSONEdits).Draw(t, "edit"), N: rapid.IntRange(0, 3).Draw(t, "n"), Nonce: rapid.Uint32().Draw(t, "nonce")}
}

func checkTxJSONCase(c TxJSONCase, o *vt.Obs) error {
	if c.N < 0 || c.N > 8 {
		return nil
	}
	tx := transaction.New([]byte{0x11, 0x40}, 1)
	tx.Nonce, tx.NetworkFee, tx.ValidUntilBlock = c.Nonce, 2, 100
	tx.Signers = []transaction.Signer{{Account: util.Uint160{1}, Scopes: transaction.CalledByEntry}}
	tx.Scripts = []transaction.Witness{{InvocationScript: []byte{1}, VerificationScript: []byte{2}}}
	over := func(limit int) int { return limit + 1 + c.N }
	switch c.Edit {
	case "none":
	case "extra-witness":
		tx.Scripts = append(tx.Scripts, transaction.Witness{InvocationScript: []byte{}, VerificationScript: []byte{}})
	case "missing-witness":
		tx.Signers = append(tx.Signers, transaction.Signer{Account: util.Uint160{2}, Scopes: transaction.None})
	case "signers":
		tx.Signers, tx.Scripts = nil, nil
		for i := 0; i < over(transaction.MaxAttributes); i++ {
			tx.Signers = append(tx.Signers, transaction.Signer{Account: util.Uint160{byte(i + 1)}, Scopes: transaction.None})
			tx.Scripts = append(tx.Scripts, transaction.Witness{InvocationScript: []byte{}, VerificationScript: []byte{}})
		}
	case "allowed-contracts":
		tx.Signers[0].Scopes = transaction.CustomContracts
		for i := 0; i < over(transaction.MaxAttributes); i++ {
			tx.Signers[0].AllowedContracts = append(tx.Signers[0].AllowedContracts, util.Uint160{byte(i + 1)})
		}
	case "allowed-groups":
		tx.Signers[0].Scopes = transaction.CustomGroups
		for i := 0; i < over(transaction.MaxAttributes); i++ {
			tx.Signers[0].AllowedGroups = append(tx.Signers[0].AllowedGroups, recoveryValidators[i%len(recoveryValidators)])
		}
	case "rules":
		tx.Signers[0].Scopes = transaction.Rules
		for i := 0; i < over(transaction.MaxAttributes); i++ {
			b := transaction.ConditionBoolean(i%2 == 0)
			tx.Signers[0].Rules = append(tx.Signers[0].Rules, transaction.WitnessRule{Action: transaction.WitnessAllow, Condition: &b})
		}
	case "script-length":
		tx.Script = make([]byte, over(transaction.MaxScriptLength))
	case "oracle-code-with-result":
		tx.Attributes = []transaction.Attribute{{Type: transaction.OracleResponseT, Value: &transaction.OracleResponse{ID: 1, Code: transaction.Timeout, Result: []byte{1, 2, 3}}}}
	case "attributes":
		for i := 0; i < over(transaction.MaxAttributes); i++ {
			tx.Attributes = append(tx.Attributes, transaction.Attribute{Type: transaction.ConflictsT, Value: &transaction.Conflicts{Hash: util.Uint256{byte(i + 1)}}})
		}
	case "invocation-length":
		tx.Scripts[0].InvocationScript = make([]byte, over(transaction.MaxInvocationScript))
	case "verification-length":
		tx.Scripts[0].VerificationScript = make([]byte, over(transaction.MaxVerificationScript))
	default:
		return nil
	}
	o.Units(1)
	o.Label("edit/" + c.Edit)
	raw, err := json.Marshal(tx)
	if err != nil {
		o.Label("json-marshal-refuses")
		return nil
	}
	_, binErr := transaction.NewTransactionFromBytes(tx.Bytes())
	got := new(transaction.Transaction)
	if err := json.Unmarshal(raw, got); err != nil {
		if c.Edit == "none" {
			return fmt.Errorf("JSON of a plain valid transaction is refused: %v", err)
		}
		o.Label("json-refuses")
		o.NonTrivial()
		return nil
	}
	back, err := transaction.NewTransactionFromBytes(got.Bytes())
	if err != nil && (c.Edit == "extra-witness" || c.Edit == "missing-witness") && vt.Known(keyTxJSONWitnessCount) {
		if onExcluded != nil {
			onExcluded(keyTxJSONWitnessCount)
		}
		o.Excluded()
		o.Label("excl:" + keyTxJSONWitnessCount)
		return nil
	}
	if err != nil {
		return fmt.Errorf("edit %q: Transaction.UnmarshalJSON accepts a transaction (hash %s, size %d) whose own binary encoding is refused by the binary decoder: %v (binary decoder on the in-memory value: %v)",
			c.Edit, got.Hash().StringLE(), got.Size(), err, binErr)
	}
	if back.Hash() != got.Hash() || back.Size() != got.Size() {
		return fmt.Errorf("edit %q: JSON-decoded transaction %s/%d re-encodes to %s/%d", c.Edit, got.Hash().StringLE(), got.Size(), back.Hash().StringLE(), back.Size())
	}
	if c.Edit != "none" {
		o.NonTrivial()
	}
	return nil
}

func init() {
	vt.Register("txjson", 0.01, genTxJSONCase, checkTxJSONCase)
}
