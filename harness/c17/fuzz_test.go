package c17

import (
	"testing"

	"verifharness/vt"
)

// Native fuzz targets: the same oracle as the "bytes" check (oracleBytes), driven by go test -fuzz on raw input.
// Seeds: canonical encodings of values built from fixed tapes, their hostile variants, and hostile constants.

func seedTapes() [][]uint32 {
	var res [][]uint32
	s := uint32(2463534242)
	for i := 0; i < 12; i++ {
		tp := make([]uint32, 40+i*15)
		for j := range tp {
			s ^= s << 13
			s ^= s >> 17
			s ^= s << 5
			tp[j] = s
		}
		res = append(res, tp)
	}
	res = append(res, nil)
	return res
}

func fuzzKinds(f *testing.F, names ...string) {
	dict := binDict
	if kindBy[names[0]].text {
		dict = textDict
	}
	for _, c := range dict {
		f.Add(c)
	}
	for _, n := range names {
		k := kindBy[n]
		for _, tp := range seedTapes() {
			v := k.build(newTape(tp))
			if e, segs, err := safeEnc(k, v); err == nil && len(e) < 1<<16 {
				f.Add(e)
				// one hostile variant per seed: first varint widened, first bool made non-canonical
				ms := &mutState{b: e, segs: segs}
				ms.apply(k, Mut{Op: "varint", Pos: int(tp2(tp)), Arg: 1})
				ms.apply(k, Mut{Op: "bool", Pos: int(tp2(tp)), Arg: 5})
				f.Add(ms.b)
			}
		}
	}
	f.Fuzz(func(t *testing.T, data []byte) {
		if len(data) > 1<<16 {
			return
		}
		for _, n := range names {
			if err := oracleBytes(kindBy[n], data, "", "fuzz", &vt.Obs{}); err != nil {
				t.Fatalf("C17/%s: %v", n, err)
			}
		}
	})
}

func tp2(tp []uint32) uint32 {
	if len(tp) > 2 {
		return tp[2] % 4096
	}
	return 0
}

func FuzzTx(f *testing.F) { fuzzKinds(f, "tx-raw", "tx", "tx-hashable", "signer", "rule") }
func FuzzBlock(f *testing.F) {
	fuzzKinds(f, "block", "block-sr", "header", "header-sr", "block-trimmed")
}
func FuzzMessage(f *testing.F)       { fuzzKinds(f, "msg", "msg-sr") }
func FuzzStackItem(f *testing.F)     { fuzzKinds(f, "item", "item-protected", "notification", "aer") }
func FuzzStackItemJSON(f *testing.F) { fuzzKinds(f, "item-json", "item-jsont") }
func FuzzManifestJSON(f *testing.F)  { fuzzKinds(f, "manifest-json") }
func FuzzNEF(f *testing.F)           { fuzzKinds(f, "nef") }
func FuzzMPTNode(f *testing.F)       { fuzzKinds(f, "mptnode", "mptroot", "mptdata", "proofwithkey") }
func FuzzExtensible(f *testing.F) {
	fuzzKinds(f, "extensible", "consensus", "consensus-sr", "notaryreq")
}
func FuzzPayloads(f *testing.F) {
	fuzzKinds(f, "version", "addr", "inv", "mptinv", "getblocks", "getblockbyindex", "headers", "merkleblock", "ping", "capabilities")
}
