// Package c17 checks property C17: wire formats round-trip and identity depends on content only.
//
// Discipline: the rapid generator only draws a "tape" of numbers (plus mutation recipes); every value is
// built deterministically from the tape by the builders in this package, so a Case is plain JSON data and
// replays without rapid.
package c17

import (
	"bytes"
	"encoding/hex"
	"encoding/json"
	"fmt"
	"math/big"
	"reflect"
	"sort"
	"strings"

	"github.com/nspcc-dev/neo-go/pkg/crypto/keys"
	"github.com/nspcc-dev/neo-go/pkg/smartcontract/manifest"
	"github.com/nspcc-dev/neo-go/pkg/util"
	"github.com/nspcc-dev/neo-go/pkg/vm/stackitem"
)

// tape is a finite sequence of drawn numbers consumed by the value builders; an exhausted tape yields zeros
// (every builder puts its simplest alternative at index 0, so shrinking the tape shrinks the value).
type tape struct {
	d []uint32
	i int
	// hostile is set by the bytes check only: builders may then exceed limits that encoders do not enforce
	// (condition nesting), which gives encodings a decoder has to refuse.
	hostile bool
}

func newTape(d []uint32) *tape { return &tape{d: d} }

// mix is a bijection on uint32 with mix(0)=0: rapid's integers are biased towards small numbers, mixing makes
// "x % n" close to uniform while keeping 0 -> 0 for shrinking.
func mix(x uint32) uint32 {
	x ^= x >> 16
	x *= 0x7feb352d
	x ^= x >> 15
	x *= 0x846ca68b
	x ^= x >> 16
	return x
}

func (t *tape) raw() uint32 {
	if t.i < len(t.d) {
		v := t.d[t.i]
		t.i++
		return mix(v)
	}
	return 0
}

// n returns a number in [0,n).
func (t *tape) n(n int) int {
	if n <= 1 {
		_ = t.raw()
		return 0
	}
	return int(t.raw() % uint32(n))
}

func (t *tape) rng(lo, hi int) int { return lo + t.n(hi-lo+1) }
func (t *tape) bool() bool         { return t.n(2) == 1 }
func (t *tape) u8() byte           { return byte(t.raw()) }
func (t *tape) u16() uint16        { return uint16(t.raw()) }

// chance returns true with probability 1/k.
func (t *tape) chance(k int) bool { return t.n(k) == k-1 }

func (t *tape) u32() uint32 {
	switch t.n(6) {
	case 0:
		return 0
	case 1:
		return uint32(t.n(300))
	case 2:
		return 0xffffffff
	case 3:
		return 0x7fffffff + uint32(t.n(3))
	default:
		return t.raw()
	}
}

func (t *tape) u64() uint64 {
	switch t.n(6) {
	case 0:
		return 0
	case 1:
		return uint64(t.n(300))
	case 2:
		return 0xffffffffffffffff
	case 3:
		return 0x7fffffffffffffff + uint64(t.n(3))
	default:
		return uint64(t.raw())<<32 | uint64(t.raw())
	}
}

// fill produces n bytes cheaply (one draw): a repeating pattern with a drawn seed.
func (t *tape) fill(n int) []byte {
	b := make([]byte, n)
	s := t.raw()
	for i := range b {
		s = s*1664525 + 1013904223
		b[i] = byte(s >> 24)
	}
	return b
}

// blob returns a byte string whose length is drawn from classes that hit varint boundaries; max caps it.
func (t *tape) blob(max int) []byte {
	var n int
	switch t.n(12) {
	case 0:
		n = 0
	case 1, 2, 3, 4:
		n = t.rng(1, 6)
	case 5, 6:
		n = t.rng(7, 40)
	case 7:
		n = 0xfc
	case 8:
		n = 0xfd
	case 9:
		n = t.rng(0xfe, 600)
	case 10:
		n = max
	default:
		n = t.rng(0, 80)
	}
	if n > max {
		n = max
	}
	return t.fill(n)
}

// smallBlob is blob without the big classes.
func (t *tape) smallBlob(max int) []byte {
	n := t.n(8)
	if n > max {
		n = max
	}
	return t.fill(n)
}

func (t *tape) u160() util.Uint160 {
	var u util.Uint160
	if t.n(8) == 0 {
		return u
	}
	copy(u[:], t.fill(20))
	return u
}

func (t *tape) u256() util.Uint256 {
	var u util.Uint256
	if t.n(8) == 0 {
		return u
	}
	copy(u[:], t.fill(32))
	return u
}

var identAlphabet = []string{"a", "b", "transfer", "balanceOf", "x1", "onNEP17Payment", "ü", "名", "a+b", "q\"uote", "sp ace", "_under", "verify", "Z"}

// ident returns a short non-empty valid UTF-8 string; distinct indices give distinct strings.
func (t *tape) ident() string { return identAlphabet[t.n(len(identAlphabet))] }

// text returns a (possibly empty) valid UTF-8 string.
func (t *tape) text(max int) string {
	n := t.n(5)
	var sb strings.Builder
	for i := 0; i < n; i++ {
		sb.WriteString(t.ident())
	}
	s := sb.String()
	for len(s) > max {
		s = s[:len(s)-1]
		for len(s) > 0 && !isRuneStart(s) {
			s = s[:len(s)-1]
		}
	}
	return s
}

func isRuneStart(s string) bool {
	// true when s does not end in the middle of a multi-byte rune
	for i := len(s) - 1; i >= 0 && i >= len(s)-4; i-- {
		c := s[i]
		if c < 0x80 {
			return i == len(s)-1
		}
		if c >= 0xc0 {
			want := 2
			if c >= 0xf0 {
				want = 4
			} else if c >= 0xe0 {
				want = 3
			}
			return len(s)-i == want
		}
	}
	return len(s) == 0
}

// ---- fixed key material -------------------------------------------------------------------------------

var pubKeys = func() []*keys.PublicKey {
	var res []*keys.PublicKey
	for i := 1; i <= 20; i++ {
		b := make([]byte, 32)
		b[31] = byte(i)
		b[0] = 0x11
		p, err := keys.NewPrivateKeyFromBytes(b)
		if err != nil {
			panic(err)
		}
		res = append(res, p.PublicKey())
	}
	return res
}()

func (t *tape) pub() *keys.PublicKey { return pubKeys[t.n(len(pubKeys))] }

// ---- structural dump (field-wise comparison that ignores caches) --------------------------------------------

var (
	typBigInt   = reflect.TypeOf((*big.Int)(nil))
	typPubKey   = reflect.TypeOf(keys.PublicKey{})
	typItem     = reflect.TypeOf((*stackitem.Item)(nil)).Elem()
	typRawMsg   = reflect.TypeOf(json.RawMessage(nil))
	typWildStr  = reflect.TypeOf(manifest.WildStrings{})
	typWildDesc = reflect.TypeOf(manifest.WildPermissionDescs{})
)

// dump renders the exported content of v canonically: nil and empty slices are the same, unexported
// (cache) fields are skipped, maps are sorted, big integers / keys / stack items are printed by value.
func dump(v any) string {
	var sb strings.Builder
	dumpValue(&sb, reflect.ValueOf(v), 0)
	return sb.String()
}

func dumpValue(sb *strings.Builder, v reflect.Value, depth int) {
	if depth > 4000 {
		sb.WriteString("<deep>")
		return
	}
	if !v.IsValid() {
		sb.WriteString("nil")
		return
	}
	t := v.Type()
	switch {
	case t == typBigInt:
		if v.IsNil() {
			sb.WriteString("nil")
		} else {
			sb.WriteString(v.Interface().(*big.Int).String())
		}
		return
	case t.ConvertibleTo(typPubKey) && t.Kind() == reflect.Struct:
		pk := v.Convert(typPubKey).Interface().(keys.PublicKey)
		if pk.X == nil || pk.Y == nil {
			sb.WriteString("pub(nil)")
		} else {
			sb.WriteString("pub(" + hex.EncodeToString((&pk).Bytes()) + ")")
		}
		return
	case t == typRawMsg:
		var buf bytes.Buffer
		raw := v.Bytes()
		if len(raw) == 0 {
			sb.WriteString("raw(null)") // an absent raw JSON value and an explicit null are the same thing
		} else if json.Compact(&buf, raw) == nil {
			sb.WriteString("raw(" + buf.String() + ")")
		} else {
			sb.WriteString("raw!(" + string(raw) + ")")
		}
		return
	case t == typWildStr:
		ws := v.Interface().(manifest.WildStrings)
		if ws.IsWildcard() {
			sb.WriteString("*")
		} else {
			fmt.Fprintf(sb, "%q", ws.Value)
		}
		return
	case t == typWildDesc:
		wd := v.Interface().(manifest.WildPermissionDescs)
		if wd.IsWildcard() {
			sb.WriteString("*")
		} else {
			dumpValue(sb, reflect.ValueOf(wd.Value), depth+1)
		}
		return
	}
	if t.Implements(typItem) && (t.Kind() == reflect.Interface || t.Kind() == reflect.Pointer || t.Kind() == reflect.Bool || t.Kind() == reflect.Struct) {
		if (t.Kind() == reflect.Interface || t.Kind() == reflect.Pointer) && v.IsNil() {
			sb.WriteString("item(nil)")
			return
		}
		sb.WriteString(dumpItem(v.Interface().(stackitem.Item)))
		return
	}
	switch t.Kind() {
	case reflect.Pointer:
		if v.IsNil() {
			sb.WriteString("nil")
			return
		}
		dumpValue(sb, v.Elem(), depth+1)
	case reflect.Interface:
		if v.IsNil() {
			sb.WriteString("nil")
			return
		}
		e := v.Elem()
		et := e.Type()
		for et.Kind() == reflect.Pointer {
			et = et.Elem()
		}
		sb.WriteString(et.Name())
		sb.WriteByte(':')
		dumpValue(sb, e, depth+1)
	case reflect.Struct:
		sb.WriteByte('{')
		for i := 0; i < t.NumField(); i++ {
			f := t.Field(i)
			if !f.IsExported() {
				continue
			}
			sb.WriteString(f.Name)
			sb.WriteByte('=')
			dumpValue(sb, v.Field(i), depth+1)
			sb.WriteByte(' ')
		}
		sb.WriteByte('}')
	case reflect.Slice, reflect.Array:
		if t.Elem().Kind() == reflect.Uint8 {
			n := v.Len()
			b := make([]byte, n)
			for i := 0; i < n; i++ {
				b[i] = byte(v.Index(i).Uint())
			}
			sb.WriteString("x'" + hex.EncodeToString(b) + "'")
			return
		}
		sb.WriteByte('[')
		for i := 0; i < v.Len(); i++ {
			if i > 0 {
				sb.WriteByte(' ')
			}
			dumpValue(sb, v.Index(i), depth+1)
		}
		sb.WriteByte(']')
	case reflect.Map:
		type kv struct{ k, v string }
		var kvs []kv
		it := v.MapRange()
		for it.Next() {
			var ks, vs strings.Builder
			dumpValue(&ks, it.Key(), depth+1)
			dumpValue(&vs, it.Value(), depth+1)
			kvs = append(kvs, kv{ks.String(), vs.String()})
		}
		sort.Slice(kvs, func(i, j int) bool { return kvs[i].k < kvs[j].k })
		sb.WriteString("map[")
		for _, e := range kvs {
			sb.WriteString(e.k + ":" + e.v + " ")
		}
		sb.WriteByte(']')
	case reflect.String:
		fmt.Fprintf(sb, "%q", v.String())
	case reflect.Bool:
		fmt.Fprintf(sb, "%v", v.Bool())
	case reflect.Int, reflect.Int8, reflect.Int16, reflect.Int32, reflect.Int64:
		fmt.Fprintf(sb, "%d", v.Int())
	case reflect.Uint, reflect.Uint8, reflect.Uint16, reflect.Uint32, reflect.Uint64, reflect.Uintptr:
		fmt.Fprintf(sb, "%d", v.Uint())
	default:
		fmt.Fprintf(sb, "<%s>", t.Kind())
	}
}

// dumpItem prints a stack item by type and value; identity (sharing) is ignored, Interop values and the
// script of a Pointer are not part of any wire form and are left out.
func dumpItem(it stackitem.Item) string {
	var sb strings.Builder
	dumpItemTo(&sb, it, 0)
	return sb.String()
}

func dumpItemTo(sb *strings.Builder, it stackitem.Item, depth int) {
	if depth > 3000 {
		sb.WriteString("<deep>")
		return
	}
	switch v := it.(type) {
	case nil:
		sb.WriteString("Invalid")
	case stackitem.Null:
		sb.WriteString("Null")
	case stackitem.Bool:
		fmt.Fprintf(sb, "Bool(%v)", bool(v))
	case *stackitem.BigInteger:
		sb.WriteString("Int(" + v.Big().String() + ")")
	case *stackitem.ByteArray:
		sb.WriteString("Bytes(" + hex.EncodeToString(v.Value().([]byte)) + ")")
	case *stackitem.Buffer:
		sb.WriteString("Buffer(" + hex.EncodeToString(v.Value().([]byte)) + ")")
	case *stackitem.Array:
		sb.WriteString("Array[")
		for i, e := range v.Value().([]stackitem.Item) {
			if i > 0 {
				sb.WriteByte(',')
			}
			dumpItemTo(sb, e, depth+1)
		}
		sb.WriteByte(']')
	case *stackitem.Struct:
		sb.WriteString("Struct[")
		for i, e := range v.Value().([]stackitem.Item) {
			if i > 0 {
				sb.WriteByte(',')
			}
			dumpItemTo(sb, e, depth+1)
		}
		sb.WriteByte(']')
	case *stackitem.Map:
		sb.WriteString("Map[")
		for i, e := range v.Value().([]stackitem.MapElement) {
			if i > 0 {
				sb.WriteByte(',')
			}
			dumpItemTo(sb, e.Key, depth+1)
			sb.WriteString("=>")
			dumpItemTo(sb, e.Value, depth+1)
		}
		sb.WriteByte(']')
	case *stackitem.Interop:
		sb.WriteString("Interop")
	case *stackitem.Pointer:
		fmt.Fprintf(sb, "Pointer(%d)", v.Position())
	default:
		fmt.Fprintf(sb, "?%T", it)
	}
}

func short(s string) string {
	if len(s) > 600 {
		return s[:300] + " ... " + s[len(s)-250:]
	}
	return s
}

// firstDiff describes where two dumps start to differ.
func firstDiff(a, b string) string {
	i := 0
	for i < len(a) && i < len(b) && a[i] == b[i] {
		i++
	}
	lo := i - 60
	if lo < 0 {
		lo = 0
	}
	ha, hb := i+80, i+80
	if ha > len(a) {
		ha = len(a)
	}
	if hb > len(b) {
		hb = len(b)
	}
	return fmt.Sprintf("at %d: ...%s  VS  ...%s", i, a[lo:ha], b[lo:hb])
}
