package c17

import (
	"bytes"
	"encoding/hex"
	"encoding/json"
	"errors"
	"fmt"
	gio "io"
	"regexp"

	"github.com/nspcc-dev/neo-go/pkg/core/block"
	"github.com/nspcc-dev/neo-go/pkg/core/dao"
	"github.com/nspcc-dev/neo-go/pkg/core/mpt"
	"github.com/nspcc-dev/neo-go/pkg/core/state"
	"github.com/nspcc-dev/neo-go/pkg/core/transaction"
	"github.com/nspcc-dev/neo-go/pkg/crypto/hash"
	"github.com/nspcc-dev/neo-go/pkg/io"
	"github.com/nspcc-dev/neo-go/pkg/neorpc/result"
	"github.com/nspcc-dev/neo-go/pkg/network"
	"github.com/nspcc-dev/neo-go/pkg/network/capability"
	"github.com/nspcc-dev/neo-go/pkg/network/payload"
	"github.com/nspcc-dev/neo-go/pkg/smartcontract/manifest"
	"github.com/nspcc-dev/neo-go/pkg/smartcontract/nef"
	"github.com/nspcc-dev/neo-go/pkg/util"
	"github.com/nspcc-dev/neo-go/pkg/vm/stackitem"
)

// kind describes one wire format: how to draw a valid value, encode it, decode bytes and what the decoded
// value reports about its identity.
type kind struct {
	name  string
	build func(t *tape) any
	// enc writes the encoding of v; binary encoders issue one Write per primitive, which lets the mutator find
	// varint / bool positions.
	enc func(v any, w gio.Writer) error
	// dec decodes one value from b and reports how many bytes it consumed.
	dec func(b []byte) (v any, consumed int, err error)
	// whole: the decoder is given a complete message and must not accept trailing bytes silently as part of the value
	// (consumed is then always len(b) on success).
	whole bool
	// ident renders what the value reports about its identity (hashes, checksum). "" when there is none.
	ident func(v any) string
	// size is the reported serialized size, ok=false when the type has no such notion.
	size func(v any) (int, bool)
	dump func(v any) string
	// jsonEnc/jsonDec: JSON form, nil when none is defined.
	jsonEnc func(v any) ([]byte, error)
	jsonDec func(b []byte) (any, error)
	// invariant: what every accepted value of the type satisfies by the decoder's own documentation.
	invariant func(v any) error
	// decFailKey classifies a decoder error on the encoding of a valid value ("" = unclassified).
	decFailKey func(v any, e []byte, err error) string
	// sameEncoding compares a received encoding with the re-encoding when plain byte equality is not the right
	// notion (compressed frames: compare the payload bytes).
	sameEncoding func(in, e1 []byte) bool
	// reencRefused recognises an encoding that stands for "the encoder's documented limits refuse this value".
	reencRefused func(v any, e1 []byte) bool
	// reuse (optional): a receiver that is decoded into more than once. fresh makes one, into decodes the binary form
	// into it, jsonInto the JSON form (nil: none). Decoders fill their receiver, so an object that held another value
	// before has to report the identity of what it decoded last.
	reuse *reuseOps
	// guard inspects an input before it is decoded and returns the iteration count the decoder's loop is going to
	// run when that count comes from the input alone (see hangGuard in check.go); nil for all other decoders.
	guard func(b []byte) uint64
	// clamp rewrites such an input so that the count is 2^22 (a surrogate that is safe to execute).
	clamp func(b []byte) []byte
	// jsonKey names the finding class of a failing JSON clause for this kind ("" = none recorded).
	jsonKey string
	// alt are other production paths decoding the same bytes; all successful ones must agree on ident.
	alt []altPath
	// value-level extra laws.
	extra func(v any, e []byte, lab func(string)) error
	// encMayFail: the encoder has documented limits, an encode error on a drawn value is the contract.
	encMayFail bool
	// decMayFail: the decoder has documented limits the encoder does not have (JSON nesting depth); extra decides.
	decMayFail bool
	// expect maps a drawn value to the value its round trip is documented to give (nil: the value itself).
	expect   func(v any) any
	text     bool   // JSON text family (mutations differ)
	maxCount uint64 // cap for injected counts (0 = none); see known hangs in c17.go
	nodeterm bool   // encoding order is not deterministic (map iteration): compare dumps only
	// nodetermFn: the same for particular encodings (LZ4 output depends on a pooled, uncleared hash table).
	nodetermFn func(e []byte) bool
	weight     int // relative frequency in the value / byte checks
}

type altPath struct {
	name string
	dec  func(b []byte) (ident string, err error)
}

var (
	kinds  []*kind
	kindBy = map[string]*kind{}
)

func addKind(k *kind) {
	if k.dump == nil {
		k.dump = dump
	}
	if k.weight == 0 {
		k.weight = 2
	}
	kinds = append(kinds, k)
	kindBy[k.name] = k
}

// segWriter records the boundaries of the primitive writes.
type segWriter struct {
	buf  bytes.Buffer
	segs [][2]int
}

func (s *segWriter) Write(p []byte) (int, error) {
	s.segs = append(s.segs, [2]int{s.buf.Len(), len(p)})
	return s.buf.Write(p)
}

func encodeKind(k *kind, v any) ([]byte, [][2]int, error) {
	sw := &segWriter{}
	if err := k.enc(v, sw); err != nil {
		return nil, nil, err
	}
	return sw.buf.Bytes(), sw.segs, nil
}

func serEnc(v any, w gio.Writer) error {
	bw := io.NewBinWriterFromIO(w)
	v.(io.Encodable).EncodeBinary(bw)
	return bw.Err
}

func serDec[T any, PT interface {
	*T
	io.Decodable
}](prep func(*T)) func(b []byte) (any, int, error) {
	return func(b []byte) (any, int, error) {
		var v T
		if prep != nil {
			prep(&v)
		}
		r := io.NewBinReaderFromBuf(b)
		PT(&v).DecodeBinary(r)
		if r.Err != nil {
			return nil, 0, r.Err
		}
		return PT(&v), len(b) - r.Len(), nil
	}
}

type reuseOps struct {
	fresh    func() any
	into     func(obj any, b []byte) error
	jsonInto func(obj any, b []byte) error
}

func reuseOf[T any, PT interface {
	*T
	io.Decodable
}](prep func(*T), withJSON bool) *reuseOps {
	r := &reuseOps{
		fresh: func() any {
			v := new(T)
			if prep != nil {
				prep(v)
			}
			return v
		},
		into: func(obj any, b []byte) error {
			rd := io.NewBinReaderFromBuf(b)
			PT(obj.(*T)).DecodeBinary(rd)
			return rd.Err
		},
	}
	if withJSON {
		r.jsonInto = func(obj any, b []byte) error { return json.Unmarshal(b, obj) }
	}
	return r
}

func hx(u util.Uint256) string { return hex.EncodeToString(u[:]) }

func jsonOf[T any](prep func(*T)) (func(v any) ([]byte, error), func(b []byte) (any, error)) {
	return func(v any) ([]byte, error) { return json.Marshal(v) },
		func(b []byte) (any, error) {
			v := new(T)
			if prep != nil {
				prep(v)
			}
			if err := json.Unmarshal(b, v); err != nil {
				return nil, err
			}
			return v, nil
		}
}

// ---- identity functions ---------------------------------------------------------------------------------------

func txIdent(v any) string {
	tx := v.(*transaction.Transaction)
	return fmt.Sprintf("hash=%s size=%d", hx(tx.Hash()), tx.Size())
}

func blockIdent(v any) string {
	b := v.(*block.Block)
	s := "hash=" + hx(b.Hash()) + " txs="
	for _, tx := range b.Transactions {
		s += hx(tx.Hash())[:16] + fmt.Sprintf("/%d,", tx.Size())
	}
	return s + " mroot=" + hx(b.ComputeMerkleRoot())
}

func trimmedIdent(v any) string {
	b := v.(*block.Block)
	s := "hash=" + hx(b.Hash()) + " txs="
	for _, tx := range b.Transactions {
		s += hx(tx.Hash())[:16] + ","
	}
	return s
}

func nodeIdent(v any) string {
	n := v.(mpt.Node)
	switch n.Type() {
	case mpt.EmptyT:
		return "empty"
	}
	return "hash=" + hx(n.Hash())
}

// nodeDump is the serialized view of a node: the wire form keeps children as hashes only (by design), so a node
// with in-memory children and its decoded form are compared by type and bytes; nodeExtra adds the JSON comparison
// for nodes whose children already are hashes.
func nodeDump(v any) string {
	n := v.(mpt.Node)
	return fmt.Sprintf("type=%d bytes=%x", n.Type(), n.Bytes())
}

// nodeChildrenAreRefs tells from the JSON form whether all children are hash or empty nodes.
func nodeChildrenAreRefs(j []byte) bool {
	isRef := func(raw json.RawMessage) bool {
		var m map[string]json.RawMessage
		if json.Unmarshal(raw, &m) != nil {
			return false
		}
		if len(m) == 0 {
			return true
		}
		_, ok := m["hash"]
		return ok && len(m) == 1
	}
	var arr []json.RawMessage
	if json.Unmarshal(j, &arr) == nil {
		for _, c := range arr {
			if !isRef(c) {
				return false
			}
		}
		return true
	}
	var m map[string]json.RawMessage
	if json.Unmarshal(j, &m) != nil {
		return false
	}
	if next, ok := m["next"]; ok {
		return isRef(next)
	}
	return true
}

func msgDump(v any) string {
	m := v.(*network.Message)
	return fmt.Sprintf("cmd=%d payload=%s", m.Command, dump(m.Payload))
}

func msgIdent(v any) string {
	m := v.(*network.Message)
	switch p := m.Payload.(type) {
	case *transaction.Transaction:
		return txIdent(p)
	case *block.Block:
		return blockIdent(p)
	case *payload.Extensible:
		return "hash=" + hx(p.Hash())
	case *payload.P2PNotaryRequest:
		return notaryIdent(p)
	case *payload.Headers:
		s := "hdrs="
		for _, h := range p.Hdrs {
			s += hx(h.Hash())[:16] + ","
		}
		return s
	}
	return ""
}

func notaryIdent(v any) string {
	r := v.(*payload.P2PNotaryRequest)
	return fmt.Sprintf("hash=%s main=%s/%d fb=%s/%d", hx(r.Hash()), hx(r.MainTransaction.Hash()), r.MainTransaction.Size(),
		hx(r.FallbackTransaction.Hash()), r.FallbackTransaction.Size())
}

// invocationDump is the content of an invocation record: the arguments live in the unexported serialized form on the
// node side and in the Arguments field after JSON unmarshalling (client side); both are rendered as the item.
func invocationDump(v any) string {
	ci := v.(*state.ContractInvocation)
	args := "none"
	if ci.Arguments != nil {
		args = dumpItem(ci.Arguments)
	} else if j, err := ci.MarshalJSON(); err == nil {
		var aux struct {
			Arguments json.RawMessage `json:"arguments"`
		}
		if json.Unmarshal(j, &aux) == nil && len(aux.Arguments) > 0 {
			if it, err := stackitem.FromJSONWithTypes(aux.Arguments); err == nil {
				args = dumpItem(it)
			} else {
				args = "undecodable:" + err.Error()
			}
		}
	} else {
		args = "json-error:" + err.Error()
	}
	return fmt.Sprintf("{hash=%x method=%q count=%d truncated=%v args=%s}", ci.Hash, ci.Method, ci.ArgumentsCount, ci.Truncated, args)
}

func aerDump(v any) string {
	a := v.(*state.AppExecResult)
	s := fmt.Sprintf("c=%x trig=%d state=%d gas=%d stack=%s ev=%s fe=%q inv=[", a.Container, a.Trigger, a.VMState, a.GasConsumed,
		dump(a.Stack), dump(a.Events), a.FaultException)
	for i := range a.Invocations {
		s += invocationDump(&a.Invocations[i]) + ","
	}
	return s + "]"
}

// ---- kinds ------------------------------------------------------------------------------------------------------

// txInvariant: the structural rules Transaction decoding documents (isValid and the count limits).
func txInvariant(v any) error {
	tx := v.(*transaction.Transaction)
	switch {
	case len(tx.Signers) == 0:
		return errors.New("accepted transaction has no signers")
	case len(tx.Signers)+len(tx.Attributes) > transaction.MaxAttributes:
		return fmt.Errorf("accepted transaction has %d signers + %d attributes", len(tx.Signers), len(tx.Attributes))
	case len(tx.Script) == 0 || len(tx.Script) > transaction.MaxScriptLength:
		return fmt.Errorf("accepted transaction has a script of %d bytes", len(tx.Script))
	case tx.Version != 0 || tx.SystemFee < 0 || tx.NetworkFee < 0 || tx.SystemFee+tx.NetworkFee < tx.SystemFee:
		return errors.New("accepted transaction has a bad version or fees")
	}
	for i := range tx.Signers {
		for j := i + 1; j < len(tx.Signers); j++ {
			if tx.Signers[i].Account == tx.Signers[j].Account {
				return errors.New("accepted transaction has duplicate signers")
			}
		}
		for _, r := range tx.Signers[i].Rules {
			if d := condDepth(r.Condition); d > transaction.MaxConditionNesting {
				return fmt.Errorf("accepted transaction has a witness condition nested %d deep", d)
			}
		}
	}
	return nil
}

func txBytesInBlock(b []byte) []byte {
	var hdr block.Header
	hb, _, _ := encodeKind(kindBy["header"], &hdr)
	out := append([]byte{}, hb...)
	out = append(out, 1)
	return append(out, b...)
}

func txFrame(b []byte) []byte {
	out := []byte{0, byte(network.CMDTX)}
	out = putVarRef(out, uint64(len(b)), 0)
	return append(out, b...)
}

func init() {
	// --- transaction parts
	addKind(&kind{name: "witness", weight: 1,
		build:   func(t *tape) any { w := buildWitness(t); return &w },
		enc:     serEnc,
		dec:     serDec[transaction.Witness](nil),
		jsonEnc: func(v any) ([]byte, error) { return json.Marshal(v) },
		jsonDec: func(b []byte) (any, error) { v := new(transaction.Witness); return v, json.Unmarshal(b, v) },
	})
	je, jd := jsonOf[transaction.Signer](nil)
	addKind(&kind{name: "signer",
		build: func(t *tape) any { s := buildSigner(t, t.u160()); return &s },
		enc:   serEnc, dec: serDec[transaction.Signer](nil), jsonEnc: je, jsonDec: jd,
	})
	signerInv := func(v any) error {
		for _, r := range v.(*transaction.Signer).Rules {
			if d := condDepth(r.Condition); d > transaction.MaxConditionNesting {
				return fmt.Errorf("accepted signer has a witness condition nested %d deep (limit %d)", d, transaction.MaxConditionNesting)
			}
		}
		return nil
	}
	kindBy["signer"].invariant = signerInv
	addKind(&kind{name: "signer-json", weight: 4, text: true, whole: true,
		build: func(t *tape) any { s := buildSigner(t, t.u160()); return &s },
		enc: func(v any, w gio.Writer) error {
			b, err := json.Marshal(v)
			if err != nil {
				return err
			}
			_, err = w.Write(b)
			return err
		},
		dec: func(b []byte) (any, int, error) {
			s := new(transaction.Signer)
			if err := json.Unmarshal(b, s); err != nil {
				return nil, 0, err
			}
			return s, len(b), nil
		},
		invariant: signerInv,
	})
	je, jd = jsonOf[transaction.WitnessRule](nil)
	addKind(&kind{name: "rule",
		invariant: func(v any) error {
			if d := condDepth(v.(*transaction.WitnessRule).Condition); d > transaction.MaxConditionNesting {
				return fmt.Errorf("accepted rule has a witness condition nested %d deep (limit %d)", d, transaction.MaxConditionNesting)
			}
			return nil
		},
		build: func(t *tape) any { r := buildRule(t); return &r },
		enc:   serEnc, dec: serDec[transaction.WitnessRule](nil), jsonEnc: je, jsonDec: jd,
		size: func(v any) (int, bool) { return io.GetVarSize(v), true },
	})
	addKind(&kind{name: "attribute", weight: 1,
		build: func(t *tape) any {
			tx := buildTx(t, txOpts{scriptMax: 10})
			if len(tx.Attributes) == 0 {
				return &transaction.Attribute{Type: transaction.HighPriority}
			}
			return &tx.Attributes[0]
		},
		enc: serEnc, dec: serDec[transaction.Attribute](nil),
	})

	// --- transaction, three decode paths
	txAlt := []altPath{
		{"NewTransactionFromBytes", func(b []byte) (string, error) {
			tx, err := transaction.NewTransactionFromBytes(b)
			if err != nil {
				return "", err
			}
			return txIdent(tx), nil
		}},
		{"DecodeBinary", func(b []byte) (string, error) {
			tx := &transaction.Transaction{}
			r := io.NewBinReaderFromBuf(b)
			tx.DecodeBinary(r)
			if r.Err != nil {
				return "", r.Err
			}
			if r.Len() != 0 {
				return "", errors.New("trailing")
			}
			return txIdent(tx), nil
		}},
		{"inside-block", func(b []byte) (string, error) {
			bl := block.New(false)
			r := io.NewBinReaderFromBuf(txBytesInBlock(b))
			bl.DecodeBinary(r)
			if r.Err != nil {
				return "", r.Err
			}
			if r.Len() != 0 || len(bl.Transactions) != 1 {
				return "", errors.New("trailing")
			}
			return txIdent(bl.Transactions[0]), nil
		}},
		{"P2P-CMDTX", func(b []byte) (string, error) {
			m := &network.Message{}
			if err := m.Decode(io.NewBinReaderFromBuf(txFrame(b))); err != nil {
				return "", err
			}
			return txIdent(m.Payload.(*transaction.Transaction)), nil
		}},
		{"dao(raw-decoded,stored,read back)", func(b []byte) (string, error) {
			tx, err := transaction.NewTransactionFromBytes(b)
			if err != nil {
				return "", err
			}
			d := dao.NewSimple(storageNew(), false)
			if err := d.StoreAsTransaction(tx, 7, nil); err != nil {
				return "", err
			}
			got, _, err := d.GetTransaction(tx.Hash())
			if err != nil {
				return "", fmt.Errorf("GetTransaction(hash it was stored under): %w", err)
			}
			return txIdent(got), nil
		}},
	}
	je, jd = jsonOf[transaction.Transaction](nil)
	addKind(&kind{name: "tx", weight: 6,
		build: func(t *tape) any { return buildTx(t, txOpts{}) },
		enc:   serEnc, dec: serDec[transaction.Transaction](nil),
		ident: txIdent,
		size:  func(v any) (int, bool) { return v.(*transaction.Transaction).Size(), true },
		alt:   txAlt, extra: txExtra, invariant: txInvariant,
	})
	addKind(&kind{name: "tx-json", weight: 3,
		build: func(t *tape) any { return buildTx(t, txOpts{noReserved: true, scriptMax: 2000}) },
		enc:   serEnc, dec: serDec[transaction.Transaction](nil),
		ident: txIdent, jsonEnc: je, jsonDec: jd,
		size: func(v any) (int, bool) { return v.(*transaction.Transaction).Size(), true },
	})
	addKind(&kind{name: "tx-reserved-json", weight: 1, jsonKey: "json/reserved-attribute",
		build: func(t *tape) any {
			tx := buildTx(t, txOpts{scriptMax: 100})
			for len(tx.Attributes)+len(tx.Signers) >= transaction.MaxAttributes {
				if len(tx.Attributes) > 0 {
					tx.Attributes = tx.Attributes[:len(tx.Attributes)-1]
				} else {
					tx.Signers = tx.Signers[:len(tx.Signers)-1]
					tx.Scripts = tx.Scripts[:len(tx.Scripts)-1]
				}
			}
			for _, a := range tx.Attributes {
				if a.Type >= transaction.ReservedLowerBound {
					return tx
				}
			}
			tx.Attributes = append(tx.Attributes, transaction.Attribute{Type: transaction.ReservedLowerBound, Value: &transaction.Reserved{Value: t.smallBlob(8)}})
			return tx
		},
		enc: serEnc, dec: serDec[transaction.Transaction](nil),
		ident: txIdent, jsonEnc: je, jsonDec: jd,
	})
	addKind(&kind{name: "tx-raw", weight: 8, whole: true,
		build: func(t *tape) any { return buildTx(t, txOpts{scriptMax: 600}) },
		enc:   serEnc,
		dec: func(b []byte) (any, int, error) {
			tx, err := transaction.NewTransactionFromBytes(b)
			if err != nil {
				return nil, 0, err
			}
			return tx, len(b), nil
		},
		ident: txIdent,
		size:  func(v any) (int, bool) { return v.(*transaction.Transaction).Size(), true },
		alt:   txAlt, invariant: func(v any) error {
			if err := txInvariant(v); err != nil {
				return err
			}
			if tx := v.(*transaction.Transaction); len(tx.Scripts) != len(tx.Signers) {
				return fmt.Errorf("accepted transaction has %d witnesses for %d signers", len(tx.Scripts), len(tx.Signers))
			}
			return nil
		},
	})
	addKind(&kind{name: "tx-hashable", weight: 2, whole: true,
		build: func(t *tape) any {
			tx := buildTx(t, txOpts{scriptMax: 300})
			tx.Scripts = []transaction.Witness{}
			return tx
		},
		enc: func(v any, w gio.Writer) error {
			b, err := v.(*transaction.Transaction).EncodeHashableFields()
			if err != nil {
				return err
			}
			_, err = w.Write(b)
			return err
		},
		dec: func(b []byte) (any, int, error) {
			tx := &transaction.Transaction{}
			if err := tx.DecodeHashableFields(b); err != nil {
				return nil, 0, err
			}
			return tx, len(b), nil
		},
		ident: func(v any) string { return "hash=" + hx(v.(*transaction.Transaction).Hash()) },
	})

	// --- header / block
	for _, sr := range []bool{false, true} {
		sr := sr
		suffix := ""
		if sr {
			suffix = "-sr"
		}
		prepH := func(h *block.Header) { h.StateRootEnabled = sr }
		je, jd := jsonOf[block.Header](prepH)
		addKind(&kind{name: "header" + suffix,
			build: func(t *tape) any { return buildHeader(t, sr) },
			enc:   serEnc, dec: serDec[block.Header](prepH),
			ident:   func(v any) string { return "hash=" + hx(v.(*block.Header).Hash()) },
			size:    func(v any) (int, bool) { return io.GetVarSize(v), true },
			jsonEnc: je, jsonDec: jd, extra: headerExtra,
			reuse: reuseOf[block.Header](prepH, true),
		})
		prepB := func(b *block.Block) { b.StateRootEnabled = sr }
		je, jd = jsonOf[block.Block](prepB)
		addKind(&kind{name: "block" + suffix, weight: 4,
			build: func(t *tape) any { return buildBlock(t, sr) },
			enc:   serEnc, dec: serDec[block.Block](prepB),
			ident: blockIdent,
			size:  func(v any) (int, bool) { return v.(*block.Block).GetExpectedBlockSize(), true },
			extra: blockExtra(sr), jsonEnc: je, jsonDec: jd,
			reuse: reuseOf[block.Block](prepB, true),
			alt: []altPath{
				{"DecodeBinary", func(b []byte) (string, error) {
					bl := block.New(sr)
					r := io.NewBinReaderFromBuf(b)
					bl.DecodeBinary(r)
					if r.Err != nil {
						return "", r.Err
					}
					return blockIdent(bl), nil
				}},
				{"P2P-CMDBlock", func(b []byte) (string, error) {
					fr := putVarRef([]byte{0, byte(network.CMDBlock)}, uint64(len(b)), 0)
					m := &network.Message{StateRootInHeader: sr}
					if len(b) == 0 {
						return "", errors.New("empty")
					}
					if err := m.Decode(io.NewBinReaderFromBuf(append(fr, b...))); err != nil {
						return "", err
					}
					return blockIdent(m.Payload.(*block.Block)), nil
				}},
			},
		})
		addKind(&kind{name: "block-trimmed" + suffix, weight: 1,
			build: func(t *tape) any { return buildBlock(t, sr) },
			enc: func(v any, w gio.Writer) error {
				bw := io.NewBinWriterFromIO(w)
				v.(*block.Block).EncodeTrimmed(bw)
				return bw.Err
			},
			dec: func(b []byte) (any, int, error) {
				r := io.NewBinReaderFromBuf(b)
				bl, err := block.NewTrimmedFromReader(sr, r)
				if err != nil {
					return nil, 0, err
				}
				return bl, len(b) - r.Len(), nil
			},
			ident: trimmedIdent,
			dump:  func(v any) string { b := v.(*block.Block); return dump(&b.Header) + " " + trimmedIdent(b) },
		})
		addKind(&kind{name: "headers" + suffix, weight: 1,
			build: func(t *tape) any { return buildHeaders(t, sr) },
			enc:   serEnc, dec: serDec[payload.Headers](func(h *payload.Headers) { h.StateRootInHeader = sr }),
			ident: func(v any) string {
				s := ""
				for _, h := range v.(*payload.Headers).Hdrs {
					s += hx(h.Hash())[:16] + ","
				}
				return s
			},
		})
		addKind(&kind{name: "msg" + suffix, weight: 8, whole: false,
			build: func(t *tape) any { return buildMessage(t, sr) },
			enc: func(v any, w gio.Writer) error {
				m := v.(*network.Message)
				// A fresh copy: Encode caches the compressed payload and sets Flags on the value.
				mm := &network.Message{Command: m.Command, Payload: m.Payload, Flags: m.Flags &^ network.Compressed, StateRootInHeader: sr}
				b, err := mm.BytesCompressed(m.Flags&network.Compressed != 0)
				if err != nil {
					return err
				}
				if len(b) > 3 && b[0] == 0 && m.Payload != nil {
					// Uncompressed frame: replay it primitive by primitive so that the mutator sees the payload's varints.
					ps := &segWriter{}
					if err := serEnc(m.Payload, ps); err == nil {
						pb := ps.buf.Bytes()
						hdr := len(b) - len(pb)
						if hdr >= 3 && bytes.Equal(b[hdr:], pb) {
							_, _ = w.Write(b[:1])
							_, _ = w.Write(b[1:2])
							_, _ = w.Write(b[2:hdr])
							for _, sg := range ps.segs {
								_, _ = w.Write(pb[sg[0] : sg[0]+sg[1]])
							}
							return nil
						}
					}
				}
				_, err = w.Write(b)
				return err
			},
			dec: func(b []byte) (any, int, error) {
				m := &network.Message{StateRootInHeader: sr}
				r := io.NewBinReaderFromBuf(b)
				if err := m.Decode(r); err != nil {
					return nil, 0, err
				}
				// The Compressed flag of the frame is kept so that re-encoding follows the same compression decision.
				return m, len(b) - r.Len(), nil
			},
			ident: msgIdent, dump: msgDump, extra: msgExtra(sr),
			nodetermFn: func(e []byte) bool { return len(e) > 0 && e[0]&byte(network.Compressed) != 0 },
			decFailKey: func(v any, e []byte, err error) string {
				// A compressed frame which a reference LZ4 block decoder turns back into the payload bytes.
				m := v.(*network.Message)
				if len(e) == 0 || e[0]&byte(network.Compressed) == 0 {
					return ""
				}
				ps := &segWriter{}
				if serEnc(m.Payload, ps) != nil {
					return ""
				}
				if pl, ok := framePayload(e); ok && bytes.Equal(pl, ps.buf.Bytes()) {
					return "lz4-decoder-rejects-valid-block"
				}
				return ""
			},
			sameEncoding: func(in, e1 []byte) bool {
				a, ok1 := framePayload(in)
				b, ok2 := framePayload(e1)
				return ok1 && ok2 && len(in) > 1 && len(e1) > 1 && in[1] == e1[1] && bytes.Equal(a, b)
			},
		})
	}

	// --- P2P payloads on their own
	addKind(&kind{name: "version", build: func(t *tape) any { return buildVersion(t) }, enc: serEnc, dec: serDec[payload.Version](nil)})
	addKind(&kind{name: "capabilities", weight: 1, build: func(t *tape) any { c := buildCapabilities(t); return &c }, enc: serEnc, dec: serDec[capability.Capabilities](nil)})
	addKind(&kind{name: "addr", build: func(t *tape) any { return buildAddressList(t) }, enc: serEnc, dec: serDec[payload.AddressList](nil)})
	addKind(&kind{name: "inv", build: func(t *tape) any { return buildInventory(t) }, enc: serEnc, dec: serDec[payload.Inventory](nil)})
	addKind(&kind{name: "mptinv", weight: 1, build: func(t *tape) any { return payload.NewMPTInventory(buildHashes(t, payload.MaxMPTHashesCount)) }, enc: serEnc, dec: serDec[payload.MPTInventory](nil)})
	addKind(&kind{name: "mptdata", build: func(t *tape) any { return buildMPTData(t) }, enc: serEnc, dec: serDec[payload.MPTData](nil)})
	addKind(&kind{name: "getblocks", weight: 1, build: func(t *tape) any { return payload.NewGetBlocks(t.u256(), buildCount(t, 32767)) }, enc: serEnc, dec: serDec[payload.GetBlocks](nil)})
	addKind(&kind{name: "getblockbyindex", weight: 1, build: func(t *tape) any {
		return payload.NewGetBlockByIndex(t.u32(), buildCount(t, payload.MaxHeadersAllowed))
	}, enc: serEnc, dec: serDec[payload.GetBlockByIndex](nil)})
	addKind(&kind{name: "ping", weight: 1, build: func(t *tape) any {
		return &payload.Ping{LastBlockIndex: t.u32(), Timestamp: t.u32(), Nonce: t.u32()}
	}, enc: serEnc, dec: serDec[payload.Ping](nil)})
	addKind(&kind{name: "merkleblock", weight: 3, build: func(t *tape) any { return buildMerkleBlock(t) }, enc: serEnc, dec: serDec[payload.MerkleBlock](nil),
		ident: func(v any) string { return "hash=" + hx(v.(*payload.MerkleBlock).Hash()) }, reuse: reuseOf[payload.MerkleBlock](nil, false)})
	addKind(&kind{name: "extensible", weight: 3, build: func(t *tape) any { return buildExtensible(t) }, enc: serEnc, dec: serDec[payload.Extensible](nil),
		ident: func(v any) string { return "hash=" + hx(v.(*payload.Extensible).Hash()) },
		size:  func(v any) (int, bool) { return io.GetVarSize(v), true }, extra: extensibleExtra, reuse: reuseOf[payload.Extensible](nil, false)})
	je, jd = jsonOf[payload.P2PNotaryRequest](nil)
	addKind(&kind{name: "notaryreq", weight: 3, whole: true, build: func(t *tape) any { return buildNotaryRequest(t) }, enc: serEnc,
		dec: func(b []byte) (any, int, error) {
			r, err := payload.NewP2PNotaryRequestFromBytes(b)
			if err != nil {
				return nil, 0, err
			}
			return r, len(b), nil
		},
		ident: notaryIdent, reuse: reuseOf[payload.P2PNotaryRequest](nil, false), // (its JSON form is not one of the kind's decoders)
	})

	// --- state service / trie
	je, jd = jsonOf[state.MPTRoot](nil)
	addKind(&kind{name: "mptroot", build: func(t *tape) any { return buildMPTRoot(t) }, enc: serEnc, dec: serDec[state.MPTRoot](nil),
		ident:   func(v any) string { return "hash=" + hx(v.(*state.MPTRoot).Hash()) },
		size:    func(v any) (int, bool) { return io.GetVarSize(v), true },
		jsonEnc: je, jsonDec: jd, extra: mptRootExtra, reuse: reuseOf[state.MPTRoot](nil, true)})
	addKind(&kind{name: "mptnode", weight: 5,
		build: func(t *tape) any { return buildNode(t, 2, t.bool()) },
		enc: func(v any, w gio.Writer) error {
			bw := io.NewBinWriterFromIO(w)
			mpt.NodeObject{Node: v.(mpt.Node)}.EncodeBinary(bw)
			return bw.Err
		},
		dec: func(b []byte) (any, int, error) {
			var n mpt.NodeObject
			r := io.NewBinReaderFromBuf(b)
			n.DecodeBinary(r)
			if r.Err != nil {
				return nil, 0, r.Err
			}
			return n.Node, len(b) - r.Len(), nil
		},
		ident: nodeIdent, dump: nodeDump,
		size: func(v any) (int, bool) {
			n := v.(mpt.Node)
			return 1 + n.Size(), true // Size() is documented by its use: the encoding without the type byte
		},
		jsonEnc: func(v any) ([]byte, error) { return v.(mpt.Node).MarshalJSON() },
		jsonDec: func(b []byte) (any, error) {
			var n mpt.NodeObject
			if err := n.UnmarshalJSON(b); err != nil {
				return nil, err
			}
			return n.Node, nil
		},
		extra: nodeExtra,
	})
	addKind(&kind{name: "proofwithkey", weight: 1,
		guard: func(b []byte) uint64 {
			// Key = ReadVarBytes(); sz = ReadVarUint(); "for range sz { append(ReadVarBytes()) }" has no error exit.
			kl, ksz, ok := readVarRef(b, 0)
			if !ok || kl > 0x1000000 || uint64(ksz)+kl > uint64(len(b)) {
				return 0
			}
			sz, _, ok := readVarRef(b, ksz+int(kl))
			if !ok {
				return 0
			}
			return sz
		},
		clamp: func(b []byte) []byte {
			kl, ksz, _ := readVarRef(b, 0)
			p := ksz + int(kl)
			_, sz, _ := readVarRef(b, p)
			out := append([]byte{}, b[:p]...)
			out = putVarRef(out, 1<<22, 0)
			return append(out, b[p+sz:]...)
		},
		build: func(t *tape) any {
			p := &result.ProofWithKey{Key: t.blob(70)}
			n := t.n(4)
			for i := 0; i < n; i++ {
				p.Proof = append(p.Proof, t.blob(300))
			}
			return p
		}, enc: serEnc, dec: serDec[result.ProofWithKey](nil)})

	// --- contracts
	je, jd = jsonOf[nef.File](nil)
	addKind(&kind{name: "nef", weight: 4, build: func(t *tape) any { return buildNEF(t) }, enc: serEnc,
		dec: func(b []byte) (any, int, error) {
			f, err := nef.FileFromBytes(b)
			if err != nil {
				return nil, 0, err
			}
			n := len(b)
			if e, err := f.BytesLong(); err == nil && len(e) <= len(b) {
				n = len(e) // FileFromBytes does not report how much it read; the canonical length is the best estimate
			}
			return &f, n, nil
		},
		ident: func(v any) string {
			f := v.(*nef.File)
			return fmt.Sprintf("checksum=%08x calc=%08x", f.Checksum, f.CalculateChecksum())
		},
		size:    func(v any) (int, bool) { return io.GetVarSize(v), true },
		jsonEnc: je, jsonDec: jd,
		invariant: func(v any) error {
			f := v.(*nef.File)
			if c := f.CalculateChecksum(); c != f.Checksum {
				return fmt.Errorf("accepted NEF has checksum %08x, its content gives %08x", f.Checksum, c)
			}
			if len(f.Script) == 0 || f.Magic != nef.Magic {
				return fmt.Errorf("accepted NEF has empty script or wrong magic")
			}
			return nil
		},
	})
	addKind(&kind{name: "manifest-json", weight: 4, text: true, whole: true,
		build: func(t *tape) any { return buildManifest(t) },
		enc: func(v any, w gio.Writer) error {
			b, err := json.Marshal(v.(*manifest.Manifest))
			if err != nil {
				return err
			}
			_, err = w.Write(b)
			return err
		},
		dec: func(b []byte) (any, int, error) {
			m := new(manifest.Manifest)
			if err := json.Unmarshal(b, m); err != nil {
				return nil, 0, err
			}
			return m, len(b), nil
		},
		extra: manifestExtra,
	})
	addKind(&kind{name: "manifest-item", weight: 2,
		build: func(t *tape) any { return buildManifest(t) },
		enc: func(v any, w gio.Writer) error {
			it, err := v.(*manifest.Manifest).ToStackItem()
			if err != nil {
				return err
			}
			b, err := stackitem.Serialize(it)
			if err != nil {
				return err
			}
			_, err = w.Write(b)
			return err
		},
		dec: func(b []byte) (any, int, error) {
			r := io.NewBinReaderFromBuf(b)
			it := stackitem.DecodeBinary(r)
			if r.Err != nil {
				return nil, 0, r.Err
			}
			m := new(manifest.Manifest)
			if err := m.FromStackItem(it); err != nil {
				return nil, 0, err
			}
			return m, len(b) - r.Len(), nil
		},
		dump: func(v any) string {
			// Extra is stored in normalised form (ordered-JSON re-marshalling), compare it in that form.
			m := *v.(*manifest.Manifest)
			it, err := m.ToStackItem()
			if err != nil {
				return "ToStackItem error: " + err.Error()
			}
			ex, _ := it.Value().([]stackitem.Item)[7].TryBytes()
			m.Extra = ex
			return dump(&m)
		},
	})

	// --- stack items
	addKind(&kind{name: "item", weight: 8, encMayFail: true,
		build: func(t *tape) any { return buildItem(t, false, t.n(6) == 0) },
		enc: func(v any, w gio.Writer) error {
			b, err := stackitem.Serialize(v.(stackitem.Item))
			if err != nil {
				return err
			}
			_, err = w.Write(b)
			return err
		},
		dec: func(b []byte) (any, int, error) {
			r := io.NewBinReaderFromBuf(b)
			it := stackitem.DecodeBinary(r)
			if r.Err != nil {
				return nil, 0, r.Err
			}
			return it, len(b) - r.Len(), nil
		},
		dump:  func(v any) string { return dumpItem(v.(stackitem.Item)) },
		extra: itemExtra,
	})
	addKind(&kind{name: "item-protected", weight: 3,
		build: func(t *tape) any { return buildItem(t, false, true) },
		enc: func(v any, w gio.Writer) error {
			bw := io.NewBinWriterFromIO(w)
			it, _ := v.(stackitem.Item)
			stackitem.EncodeBinaryProtected(it, bw)
			return bw.Err
		},
		dec: func(b []byte) (any, int, error) {
			r := io.NewBinReaderFromBuf(b)
			it := stackitem.DecodeBinaryProtected(r)
			if r.Err != nil {
				return nil, 0, r.Err
			}
			return it, len(b) - r.Len(), nil
		},
		dump:  func(v any) string { it, _ := v.(stackitem.Item); return dumpItem(it) },
		extra: itemProtectedExtra,
		reencRefused: func(v any, e1 []byte) bool {
			return v != nil && len(e1) == 1 && e1[0] == byte(stackitem.InvalidT)
		},
		expect: func(v any) any {
			// Documented: an item that cannot be serialized (limits) is replaced by Invalid.
			it, _ := v.(stackitem.Item)
			var st itemStats
			statItem(it, 0, &st)
			ref, _ := refSerialize(nil, it, nil, true)
			if st.count > stackitem.MaxSerialized || len(ref) > stackitem.MaxSize {
				return stackitem.Item(nil)
			}
			return v
		},
	})
	addKind(&kind{name: "item-json", weight: 4, text: true, whole: true, encMayFail: true, decMayFail: true,
		// FromJSON(best precision) expands a number with a decimal exponent e into ~3.3*e bits and prints it again
		// (quadratic): 1e3000000 takes seconds, 1e100000000 hours. The guard finds the largest exponent in the text.
		guard: jsonMaxExponent,
		clamp: func(b []byte) []byte {
			return reExp.ReplaceAllFunc(b, func(m []byte) []byte {
				if jsonMaxExponent(m) > 3000000 {
					if bytes.Contains(m, []byte("-")) {
						return []byte("e-300000") // a negative exponent costs time, not memory: see the duration clause
					}
					return []byte("e3000000")
				}
				return m
			})
		},
		build: func(t *tape) any { return buildItem(t, true, false) },
		enc: func(v any, w gio.Writer) error {
			b, err := stackitem.ToJSON(v.(stackitem.Item))
			if err != nil {
				return err
			}
			_, err = w.Write(b)
			return err
		},
		dec: func(b []byte) (any, int, error) {
			it, err := stackitem.FromJSON(b, stackitem.MaxDeserialized, true)
			if err != nil {
				return nil, 0, err
			}
			return it, len(b), nil
		},
		dump:  func(v any) string { return dumpItem(v.(stackitem.Item)) },
		extra: itemJSONExtra,
	})
	addKind(&kind{name: "item-jsont", weight: 4, text: true, whole: true, encMayFail: true,
		build: func(t *tape) any { return buildItem(t, false, t.n(4) == 0) },
		enc: func(v any, w gio.Writer) error {
			b, err := stackitem.ToJSONWithTypes(v.(stackitem.Item))
			if err != nil {
				return err
			}
			_, err = w.Write(b)
			return err
		},
		dec: func(b []byte) (any, int, error) {
			it, err := stackitem.FromJSONWithTypes(b)
			if err != nil {
				return nil, 0, err
			}
			return it, len(b), nil
		},
		dump: func(v any) string { return dumpItem(v.(stackitem.Item)) },
	})

	// --- execution results
	je, jd = jsonOf[state.NotificationEvent](nil)
	addKind(&kind{name: "notification", weight: 3, build: func(t *tape) any { return buildNotification(t) }, enc: serEnc,
		dec: serDec[state.NotificationEvent](nil), jsonEnc: je, jsonDec: jd, reuse: reuseOf[state.NotificationEvent](nil, true)})
	je, jd = jsonOf[state.AppExecResult](nil)
	addKind(&kind{name: "aer", weight: 4, build: func(t *tape) any { return buildAER(t) },
		enc:  serEnc, // the value itself, as Blockchain.storeBlock does before handing it to subscribers
		dec:  serDec[state.AppExecResult](nil),
		dump: aerDump, jsonEnc: je, jsonDec: jd, reuse: reuseOf[state.AppExecResult](nil, true)})
	addKind(&kind{name: "invocation", weight: 1, build: func(t *tape) any { return buildInvocation(t) }, enc: serEnc,
		dec: serDec[state.ContractInvocation](nil), dump: invocationDump, reuse: reuseOf[state.ContractInvocation](nil, false)})

	// --- token transfer logs
	addKind(&kind{name: "nep17", build: func(t *tape) any { return buildNEP17(t) }, enc: serEnc, dec: serDec[state.NEP17Transfer](nil)})
	addKind(&kind{name: "nep11", build: func(t *tape) any { return buildNEP11(t) }, enc: serEnc, dec: serDec[state.NEP11Transfer](nil)})
	addKind(&kind{name: "tti", weight: 1, nodeterm: true, maxCount: 1 << 22,
		guard: func(b []byte) uint64 {
			// 26 bytes of fixed fields, then lenBalances = ReadVarUint(); "for range lenBalances" has no error exit.
			n, _, ok := readVarRef(b, 26)
			if !ok {
				return 0
			}
			return n
		},
		clamp: func(b []byte) []byte {
			_, sz, _ := readVarRef(b, 26)
			out := append([]byte{}, b[:26]...)
			out = putVarRef(out, 1<<22, 0)
			return append(out, b[26+sz:]...)
		},
		build: func(t *tape) any { return buildTTI(t) }, enc: serEnc, dec: serDec[state.TokenTransferInfo](nil)})
	for _, n11 := range []bool{false, true} {
		n11 := n11
		addKind(&kind{name: map[bool]string{false: "ttlog17", true: "ttlog11"}[n11], weight: 1,
			build: func(t *tape) any { return buildTTLog(t, n11) },
			enc: func(v any, w gio.Writer) error {
				_, err := w.Write(v.(*ttlog).log().Raw)
				return err
			},
			dec:  func(b []byte) (any, int, error) { return decodeTTLog(b, n11) },
			dump: func(v any) string { l := v.(*ttlog); return fmt.Sprintf("nep11=%v %s", l.NEP11, dump(l.Transfers)) },
		})
	}

	// --- dao
	addKind(&kind{name: "daoversion", weight: 1, whole: true,
		build: func(t *tape) any { return buildDaoVersion(t) },
		enc:   func(v any, w gio.Writer) error { _, err := w.Write(v.(*dao.Version).Bytes()); return err },
		dec: func(b []byte) (any, int, error) {
			v := new(dao.Version)
			if err := v.FromBytes(b); err != nil {
				return nil, 0, err
			}
			return v, len(b), nil
		}})
	addKind(&kind{name: "checkpoint", weight: 1, build: func(t *tape) any { return buildCheckpoint(t) }, enc: serEnc, dec: serDec[dao.StateSyncCheckpoint](nil)})

	// --- consensus payloads (bytes built by hand: the message bodies are unexported)
	for _, sr := range []bool{false, true} {
		addConsensusKind(sr)
	}

	initWeighted()
}

// ---- token transfer log wrapper ---------------------------------------------------------------------------------

type ttlog struct {
	NEP11     bool
	Transfers []any // *state.NEP17Transfer or *state.NEP11Transfer, oldest first
}

func (l *ttlog) log() *state.TokenTransferLog {
	lg := &state.TokenTransferLog{}
	for _, tr := range l.Transfers {
		if err := lg.Append(tr.(io.Serializable)); err != nil {
			panic(err)
		}
	}
	return lg
}

func buildTTLog(t *tape, n11 bool) any {
	l := &ttlog{NEP11: n11}
	n := t.n(5)
	if t.chance(15) {
		n = state.TokenTransferBatchSize
	}
	for i := 0; i < n; i++ {
		if l.NEP11 {
			l.Transfers = append(l.Transfers, buildNEP11(t))
		} else {
			l.Transfers = append(l.Transfers, buildNEP17(t))
		}
	}
	return l
}

// decodeTTLog reads a raw log the way the DAO readers do (ForEach*, newest first) and restores append order.
// Which family a log belongs to is known to the caller from the DAO key.
func decodeTTLog(b []byte, n11 bool) (any, int, error) {
	lg := &state.TokenTransferLog{Raw: b}
	l := &ttlog{NEP11: n11}
	var err error
	if n11 {
		_, err = lg.ForEachNEP11(func(tr *state.NEP11Transfer) (bool, error) {
			c := *tr
			l.Transfers = append([]any{&c}, l.Transfers...)
			return true, nil
		})
	} else {
		_, err = lg.ForEachNEP17(func(tr *state.NEP17Transfer) (bool, error) {
			c := *tr
			l.Transfers = append([]any{&c}, l.Transfers...)
			return true, nil
		})
	}
	if err != nil {
		return nil, 0, err
	}
	// The readers do not say how much they read: the canonical length is the best estimate.
	n := len(b)
	if raw := l.log().Raw; len(raw) <= len(b) {
		n = len(raw)
	}
	return l, n, nil
}

var reExp = regexp.MustCompile(`[eE][+-]?([0-9]+)`)

func jsonMaxExponent(b []byte) uint64 {
	var m uint64
	for _, g := range reExp.FindAllSubmatch(b, -1) {
		d := bytes.TrimLeft(g[1], "0")
		if len(d) > 12 {
			return 1 << 40
		}
		var v uint64
		for _, c := range d {
			v = v*10 + uint64(c-'0')
		}
		m = max(m, v)
	}
	return m
}

var errSkip = errors.New("skip")

func sha(b []byte) util.Uint256  { return hash.Sha256(b) }
func dsha(b []byte) util.Uint256 { return hash.DoubleSha256(b) }
func uint256Hex(b []byte) string { return hex.EncodeToString(b) }
