package c17

import (
	"bytes"
	"encoding/binary"
	"encoding/json"
	"errors"
	"fmt"
	"github.com/nspcc-dev/neo-go/pkg/crypto/hash"
	"os"
	"reflect"
	"regexp"
	"runtime"
	"runtime/debug"
	"strings"
	"time"

	"github.com/nspcc-dev/neo-go/pkg/core/mpt"
	"github.com/nspcc-dev/neo-go/pkg/network"
	"github.com/nspcc-dev/neo-go/pkg/network/payload"
	"github.com/nspcc-dev/neo-go/pkg/vm/stackitem"
	"pgregory.net/rapid"
	"verifharness/vt"
)

// ---- cases ---------------------------------------------------------------------------------------------------------

// ValueCase: a kind and the tape its value is built from.
type ValueCase struct {
	Kind string   `json:"kind"`
	Tape []uint32 `json:"tape"`
}

// Mut is one edit of an encoding.
type Mut struct {
	Op  string `json:"op"`
	Pos int    `json:"pos"`
	Arg uint64 `json:"arg"`
}

// BytesCase: bytes for one decoder: either Raw, or the encoding of the tape-built value (hostile encoder for
// stack items when Hostile is set), then edited by Muts.
type BytesCase struct {
	Kind    string   `json:"kind"`
	Tape    []uint32 `json:"tape,omitempty"`
	Raw     vt.Bytes `json:"raw,omitempty"`
	Hostile bool     `json:"hostile,omitempty"`
	Muts    []Mut    `json:"muts,omitempty"`
}

var weightedKinds []string

func initWeighted() {
	// rapid draws 0 much more often than any other number and mix(0)=0, so index 0 gets extra cases: give them
	// to the raw transaction path.
	weightedKinds = append(weightedKinds, "tx-raw")
	for _, k := range kinds {
		for i := 0; i < k.weight; i++ {
			weightedKinds = append(weightedKinds, k.name)
		}
	}
}

// genTape draws a tape. rapid prefers short slices and small numbers; a minimum length keeps the builders fed
// (mix() spreads the small numbers), shrinking still lowers every element towards 0 = the simplest alternative.
func genTape(t *rapid.T, max int) []uint32 {
	return rapid.SliceOfN(rapid.Uint32(), max/2, max).Draw(t, "tape")
}

// pick draws an index in [0,n) without rapid's preference for small values.
func pick(t *rapid.T, n int, label string) int {
	return int(mix(rapid.Uint32().Draw(t, label)) % uint32(n))
}

func genValueCase(t *rapid.T) ValueCase {
	return ValueCase{
		Kind: weightedKinds[pick(t, len(weightedKinds), "kind")],
		Tape: genTape(t, 260),
	}
}

var binOps = []string{"varint", "varint", "varint", "count", "count", "count2", "bool", "bool", "flip", "set", "trunc", "trail", "ins", "dup", "lz4wrap", "pubkey", "fixlen"}
var textOps = []string{"tok", "tok", "tok", "nest", "dupkey", "flip", "trunc", "trail", "ins"}

func genBytesCase(t *rapid.T) BytesCase {
	c := BytesCase{Kind: weightedKinds[pick(t, len(weightedKinds), "kind")]}
	k := kindBy[c.Kind]
	ops := binOps
	if k.text {
		ops = textOps
	}
	genMuts := func(lo, hi int) []Mut {
		n := rapid.IntRange(lo, hi).Draw(t, "nmut")
		var ms []Mut
		for i := 0; i < n; i++ {
			ms = append(ms, Mut{
				Op:  ops[pick(t, len(ops), "op")],
				Pos: pick(t, 1<<16, "pos"),
				Arg: uint64(mix(rapid.Uint32().Draw(t, "arg"))),
			})
		}
		return ms
	}
	switch pick(t, 12, "mode") {
	case 0: // random bytes
		c.Raw = rapid.SliceOfN(rapid.Byte(), 0, 120).Draw(t, "raw")
	case 1: // a hostile constant, possibly followed by random bytes and edits
		d := binDict
		if k.text {
			d = textDict
		}
		c.Raw = append(append(vt.Bytes{}, d[pick(t, len(d), "dict")]...), rapid.SliceOfN(rapid.Byte(), 0, 12).Draw(t, "tail")...)
		c.Muts = genMuts(0, 2)
	case 2: // untouched valid encoding (the canonical baseline of the class histogram)
		c.Tape = genTape(t, 200)
	default:
		c.Tape = genTape(t, 200)
		c.Hostile = rapid.Bool().Draw(t, "hostile")
		c.Muts = genMuts(1, 3)
		if strings.HasPrefix(c.Kind, "nef") && pick(t, 3, "fixsum") != 0 {
			c.Muts = append(c.Muts, Mut{Op: "fixsum"})
		}
		if strings.HasPrefix(c.Kind, "msg") && pick(t, 3, "fix") != 0 {
			c.Muts = append(c.Muts, Mut{Op: "fixlen"})
			if pick(t, 4, "wrap") == 0 {
				c.Muts = append(c.Muts, Mut{Op: "lz4wrap", Arg: uint64(pick(t, 8, "wraparg"))})
			}
		}
	}
	return c
}

// ---- hostile constants -------------------------------------------------------------------------------------------------

func rep(s string, n int) []byte { return bytes.Repeat([]byte(s), n) }

var binDict = [][]byte{
	{0xff, 0xff, 0xff, 0xff, 0xff, 0xff, 0xff, 0xff, 0x7f},
	{0xfd, 0x00, 0x00},
	{0xfe, 0x00, 0x00, 0x00, 0x00},
	{0xff, 0, 0, 0, 0, 0, 0, 0, 0},
	{0xfd, 0xff, 0xff},
	{0xfe, 0xff, 0xff, 0x00, 0x00},
	{0xfe, 0xff, 0xff, 0xff, 0x00},
	{0xfe, 0x00, 0x00, 0x00, 0x01},
	{0xfe, 0x01, 0x00, 0x00, 0x01},
	{0xff, 0xff, 0xff, 0xff, 0xff, 0xff, 0xff, 0xff, 0xff},
	{0xff, 0, 0, 0, 0, 0, 0, 0, 0x80},
	rep("\x00", 200),
	rep("\x40\x01", 100),
	rep("\x41\x01", 100),
	rep("\x48\x01\x20\x00", 60),
	rep("\x01", 12),
	rep("\x02\x01", 8),
	{0x40, 0xff, 0xff, 0xff, 0xff, 0xff, 0xff, 0xff, 0xff, 0xff},
	{0x48, 0x01, 0x40, 0x00, 0x00},
	{0x21, 0x21, 0, 0, 0, 0, 0, 0, 0, 0, 0, 0, 0, 0, 0, 0, 0, 0, 0, 0, 0, 0, 0, 0, 0, 0, 0, 0, 0, 0, 0, 0, 0, 0, 0},
	{0x01, 0x2b, 0xfe, 0xff, 0xff, 0xff, 0x01, 0xff, 0xff, 0xff, 0x7f},
}

var textDict = [][]byte{
	[]byte(`1e100`), []byte(`[1e400]`), []byte(`-1e40`), []byte(`1e3000000`), []byte(`[1e100000000]`), []byte(`1e-400`), []byte(`[1e-300000]`), []byte(`123.000`), []byte(`2.8e+22`), []byte(`9007199254740993`),
	[]byte(`{"a":1,"a":2}`), rep("[", 11), append(rep("[", 10), rep("]", 10)...), append(rep("[", 11), rep("]", 11)...),
	[]byte(`{"type":"Integer","value":"1` + strings.Repeat("0", 90) + `"}`),
	[]byte(`{"type":"Map","value":[{"key":{"type":"Array","value":[]},"value":{"type":"Any"}}]}`),
	[]byte(`{"type":"Pointer","value":-1}`), []byte(`{"type":"Array","value":null}`), []byte(`null`), []byte(`""`), []byte(`{}`), []byte(`[]`),
	[]byte(`{"name":"a","abi":{"methods":[{"name":"m","offset":-1,"parameters":null,"returntype":"Void","safe":false}],"events":null},"features":{},"groups":null,"permissions":null,"supportedstandards":null,"trusts":null,"extra":null}`),
	[]byte(`{"name":"a","groups":[{"pubkey":"","signature":""}]}`),
	[]byte(`{"name":"a","permissions":[{"contract":"*","methods":null}],"trusts":["*"]}`),
}

var countLadder = []uint64{0, 1, 0xfc, 0xfd, 0xfffe, 0xffff, 0x10000, 1 << 20, 1<<22 + 1, 0xffffff, 0x1000000, 0x1000001, 0x2000000, 0x2000001,
	1<<63 - 1, 1 << 63, 1<<64 - 1}

// ---- mutation engine ---------------------------------------------------------------------------------------------------

type mutState struct {
	b    []byte
	segs [][2]int
	// expectReject is set by an edit after which the decoder is required to fail (cleared by later edits).
	expectReject string
}

func varintCands(b []byte, segs [][2]int) []int {
	var c []int
	for _, s := range segs {
		p, l := s[0], s[1]
		if p < 0 || p >= len(b) {
			continue
		}
		switch {
		case l == 1 && b[p] < 0xfd, l == 3 && b[p] == 0xfd, l == 5 && b[p] == 0xfe, l == 9 && b[p] == 0xff:
			c = append(c, p)
		}
	}
	return c
}

func (m *mutState) replace(p, oldLen int, repl []byte) {
	nb := make([]byte, 0, len(m.b)-oldLen+len(repl))
	nb = append(nb, m.b[:p]...)
	nb = append(nb, repl...)
	nb = append(nb, m.b[p+oldLen:]...)
	d := len(repl) - oldLen
	if d != 0 {
		for i := range m.segs {
			if m.segs[i][0] == p {
				m.segs[i][1] = len(repl)
			} else if m.segs[i][0] > p {
				m.segs[i][0] += d
				if m.segs[i][0] <= p {
					m.segs[i] = [2]int{len(nb), 0} // the segment lay inside the replaced range: retire it
				}
			}
		}
	}
	m.b = nb
}

var (
	reNum = regexp.MustCompile(`-?[0-9]+(\.[0-9]+)?([eE][+-]?[0-9]+)?`)
	reStr = regexp.MustCompile(`"(?:[^"\\]|\\.)*"`)
)

var textToks = []string{`1e100`, `1e400`, `-1e40`, `1e3000000`, `1e100000000`, `1e-400`, `1e-300000`, `-2.5e-300000`, `123.000`, `2.8e+22`, `9007199254740993`, `18014398509481984`, `-0`, `0.5`, `null`, `true`, `[]`, `{}`, `""`,
	`"*"`, `"1` + strings.Repeat("0", 90) + `"`, `"Integer"`, `"Pointer"`, `"InteropInterface"`, `"Buffer"`, `-1`, `4294967296`, `"\ud800"`, `"\u0000"`, `[[[[[[[[[[[[1]]]]]]]]]]]]`}

func (m *mutState) apply(k *kind, mu Mut) {
	b := m.b
	m.expectReject = ""
	if len(b) == 0 && mu.Op != "trail" && mu.Op != "ins" {
		return
	}
	pos := 0
	if len(b) > 0 {
		pos = mu.Pos % len(b)
	}
	switch mu.Op {
	case "varint", "count":
		cands := varintCands(b, m.segs)
		p := pos
		if len(cands) > 0 {
			p = cands[mu.Pos%len(cands)]
		}
		val, sz, ok := readVarRef(b, p)
		if !ok {
			return
		}
		var repl []byte
		if mu.Op == "varint" {
			form := map[int]int{1: 0, 3: 1, 5: 2, 9: 3}[sz]
			if form == 3 {
				return
			}
			nf := form + 1 + int(mu.Arg%uint64(3-form))
			repl = putVarRef(nil, val, nf)
		} else {
			nv := countLadder[mu.Arg%uint64(len(countLadder))]
			if mc := effMaxCount(k); mc != 0 && nv > mc {
				nv = mc
			}
			repl = putVarRef(nil, nv, 0)
		}
		m.replace(p, sz, repl)
	case "count2":
		// Two neighbouring length fields at once (a guard value and the length it is supposed to guard).
		cands := varintCands(b, m.segs)
		if len(cands) < 2 {
			return
		}
		i := mu.Pos % (len(cands) - 1)
		vals := [2]uint64{countLadder[mu.Arg%uint64(len(countLadder))], countLadder[(mu.Arg/64)%uint64(len(countLadder))]}
		if (mu.Arg/4096)%2 == 0 {
			vals[1] = []uint64{1 << 20, 1<<22 + 1, 0xffffff}[(mu.Arg/8192)%3]
		}
		mc := effMaxCount(k)
		for j := 1; j >= 0; j-- { // later position first, so that the earlier offset stays valid
			p := cands[i+j]
			_, sz, ok := readVarRef(m.b, p)
			if !ok {
				return
			}
			nv := vals[j]
			if mc != 0 && nv > mc {
				nv = mc
			}
			m.replace(p, sz, putVarRef(nil, nv, 0))
		}
	case "fixsum":
		// NEF files end with a checksum of everything before it: make it agree with the (edited) bytes again, so
		// that the edit is judged by the parser and not stopped by the checksum of the bytes as received.
		if !strings.HasPrefix(k.name, "nef") || len(b) <= 4 {
			return
		}
		copy(b[len(b)-4:], hash.Checksum(b[:len(b)-4]))
	case "fixlen":
		// P2P frames: make the length prefix agree with the (edited) payload again.
		if !strings.HasPrefix(k.name, "msg") || len(b) < 3 || b[0] != 0 {
			return
		}
		_, sz, ok := readVarRef(b, 2)
		if !ok || 2+sz > len(b) {
			return
		}
		pl := b[2+sz:]
		m.replace(2, sz, putVarRef(nil, uint64(len(pl)), 0))
	case "bool":
		var cands []int
		for _, s := range m.segs {
			if s[1] == 1 && s[0] >= 0 && s[0] < len(b) && b[s[0]] <= 1 {
				cands = append(cands, s[0])
			}
		}
		p := pos
		if len(cands) > 0 {
			p = cands[mu.Pos%len(cands)]
		}
		m.b = bytes.Clone(b)
		m.b[p] = byte(2 + mu.Arg%254)
	case "pubkey":
		// Replace a compressed public key (02/03 + 32 bytes written as one primitive) by its uncompressed form.
		var cands []int
		for _, s := range m.segs {
			if s[1] == 33 && s[0] >= 0 && s[0]+33 <= len(b) && (b[s[0]] == 2 || b[s[0]] == 3) {
				cands = append(cands, s[0])
			}
		}
		if len(cands) == 0 {
			return
		}
		p := cands[mu.Pos%len(cands)]
		for _, pk := range pubKeys {
			if bytes.Equal(pk.Bytes(), b[p:p+33]) {
				m.replace(p, 33, pk.UncompressedBytes())
				break
			}
		}
	case "flip":
		m.b = bytes.Clone(b)
		m.b[pos] ^= 1 << (mu.Arg % 8)
	case "set":
		m.b = bytes.Clone(b)
		m.b[pos] = byte(mu.Arg)
	case "trunc":
		m.b = bytes.Clone(b[:pos])
		m.segs = nil
	case "trail":
		n := int(mu.Arg%5) + 1
		tail := make([]byte, n)
		for i := range tail {
			tail[i] = byte(mu.Arg >> (8 * i))
		}
		m.b = append(bytes.Clone(b), tail...)
	case "ins":
		d := binDict
		if k.text {
			d = textDict
		}
		ins := d[mu.Arg%uint64(len(d))]
		nb := append([]byte{}, b[:pos]...)
		nb = append(nb, ins...)
		m.b = append(nb, b[pos:]...)
		m.segs = nil
	case "dup":
		l := int(mu.Arg%40) + 1
		if pos+l > len(b) {
			l = len(b) - pos
		}
		nb := append([]byte{}, b[:pos+l]...)
		nb = append(nb, b[pos:pos+l]...)
		m.b = append(nb, b[pos+l:]...)
		m.segs = nil
	case "lz4wrap":
		// Only for P2P frames: replace an uncompressed payload by a literal-only LZ4 block with a declared length
		// that is right (Arg%4==0) or wrong.
		if !strings.HasPrefix(k.name, "msg") || len(b) < 3 || b[0] != 0 {
			return
		}
		l, sz, ok := readVarRef(b, 2)
		if !ok || l == 0 || uint64(len(b)) != 2+uint64(sz)+l {
			return
		}
		pl := b[2+sz:]
		declared := uint64(len(pl))
		switch mu.Arg % 8 {
		case 1:
			declared++
			m.expectReject = "declared length larger than the decompressed payload"
		case 2:
			if declared > 1 {
				declared--
				m.expectReject = "declared length smaller than the decompressed payload"
			}
		case 3:
			declared = payload.MaxSize + 1
			m.expectReject = "declared length above payload.MaxSize"
		case 4:
			declared = 0x08000000
			m.expectReject = "declared length above payload.MaxSize"
		case 5:
			declared = 0xffffffff
			m.expectReject = "declared length above payload.MaxSize"
		}
		comp := lz4Literal(pl, uint32(declared))
		nb := []byte{byte(network.Compressed), b[1]}
		nb = putVarRef(nb, uint64(len(comp)), 0)
		m.b = append(nb, comp...)
		m.segs = nil
	// ---- text
	case "tok":
		s := string(b)
		locs := append(reNum.FindAllStringIndex(s, -1), reStr.FindAllStringIndex(s, -1)...)
		if len(locs) == 0 {
			return
		}
		l := locs[mu.Pos%len(locs)]
		tok := textToks[mu.Arg%uint64(len(textToks))]
		m.b = []byte(s[:l[0]] + tok + s[l[1]:])
	case "nest":
		n := int(mu.Arg%14) + 1
		if strings.HasSuffix(k.name, "jsont") {
			m.b = []byte(strings.Repeat(`{"type":"Array","value":[`, n) + string(b) + strings.Repeat(`]}`, n))
		} else {
			m.b = []byte(strings.Repeat(`[`, n) + string(b) + strings.Repeat(`]`, n))
		}
	case "dupkey":
		s := string(b)
		i := strings.IndexByte(s, '{')
		if i < 0 {
			return
		}
		j := strings.IndexAny(s[i:], ",}")
		if j <= 1 {
			return
		}
		member := s[i+1 : i+j]
		m.b = []byte(s[:i+1] + member + "," + s[i+1:])
	}
}

// effMaxCount caps injected counts for decoders whose loop or allocation is driven by the count alone.
func effMaxCount(k *kind) uint64 {
	mc := k.maxCount
	if probing {
		return mc // a probe re-confirms the recorded finding with the recorded count
	}
	if (vt.Known("alloc/"+family(k.name)) || family(k.name) == "msg" && vt.Known("alloc/merkleblock")) && (mc == 0 || mc > 1<<16) {
		mc = 1 << 16 // the recorded finding is not re-triggered in every case, the search goes on behind it
	}
	return mc
}

func family(name string) string { return strings.TrimSuffix(name, "-sr") }

// allocKey names an allocation finding; for a P2P frame it is the finding of the payload type the command carries
// (the frame only is the way it gets in).
func allocKey(k *kind, in []byte) string {
	fam := family(k.name)
	if fam == "msg" && len(in) > 1 {
		switch network.CommandType(in[1]) {
		case network.CMDMerkleBlock:
			return "alloc/merkleblock"
		case network.CMDAddr:
			return "alloc/addr"
		case network.CMDVersion:
			return "alloc/version"
		}
	}
	return "alloc/" + fam
}

func (k *kind) isNodeterm(e []byte) bool {
	return k.nodeterm || k.nodetermFn != nil && k.nodetermFn(e)
}

// ---- safe calls ----------------------------------------------------------------------------------------------------------

type panicError struct {
	val   any
	stack string
}

func (p *panicError) Error() string { return fmt.Sprintf("PANIC: %v\n%s", p.val, p.stack) }

// key names a panic by its message class and the two innermost frames of the code under test, so that one defect
// reached through several decoders is one finding.
func (p *panicError) key(fam string) string {
	msg := fmt.Sprint(p.val)
	if i := strings.IndexByte(msg, ':'); i > 0 {
		msg = msg[:i]
	}
	if len(msg) > 40 {
		msg = msg[:40]
	}
	var frames []string
	for _, l := range strings.Split(p.stack, "\n") {
		if !strings.HasPrefix(l, "github.com/nspcc-dev/neo-go/pkg/") {
			continue
		}
		f := strings.TrimPrefix(l, "github.com/nspcc-dev/neo-go/pkg/")
		if i := strings.LastIndexByte(f, '('); i > 0 {
			f = f[:i]
		}
		if i := strings.LastIndexByte(f, '/'); i >= 0 {
			f = f[i+1:]
		}
		frames = append(frames, f)
		break
	}
	if len(frames) == 0 {
		return "panic/" + fam + "/" + strings.TrimSpace(msg)
	}
	return "panic/" + strings.Join(frames, "<") + "/" + strings.TrimSpace(msg)
}

func trimStack(b []byte) string {
	lines := strings.Split(string(b), "\n")
	var keep []string
	for _, l := range lines {
		if strings.HasPrefix(l, "\t") || strings.HasPrefix(l, "goroutine ") || l == "" {
			continue // keep function names only
		}
		if strings.HasPrefix(l, "runtime/debug.Stack") || strings.HasPrefix(l, "verifharness/c17.safe") || strings.HasPrefix(l, "panic(") {
			continue
		}
		keep = append(keep, l)
		if len(keep) == 12 {
			break
		}
	}
	return strings.Join(keep, "\n")
}

func safeDec(k *kind, b []byte) (v any, n int, err error) {
	defer func() {
		if r := recover(); r != nil {
			err = &panicError{val: r, stack: trimStack(debug.Stack())}
		}
	}()
	return k.dec(b)
}

func safeEnc(k *kind, v any) (e []byte, segs [][2]int, err error) {
	defer func() {
		if r := recover(); r != nil {
			err = &panicError{val: r, stack: trimStack(debug.Stack())}
		}
	}()
	return encodeKind(k, v)
}

func safeStr(f func(any) string, v any) (s string, err error) {
	defer func() {
		if r := recover(); r != nil {
			err = &panicError{val: r, stack: trimStack(debug.Stack())}
		}
	}()
	return f(v), nil
}

const (
	allocConst   = 64 << 20
	allocPerByte = 1000
)

// keyedError is a violated clause that belongs to a named finding class.
type keyedError struct {
	key string
	msg string
}

func (k *keyedError) Error() string { return k.msg }

func keyed(key, f string, a ...any) error { return &keyedError{key: key, msg: fmt.Sprintf(f, a...)} }

// ---- verdict helper ------------------------------------------------------------------------------------------------------

type verdict struct {
	o        *vt.Obs
	excluded bool
}

// fail reports a violated clause. A clause that belongs to a recorded finding (known_findings.json, status known)
// is counted as excluded instead, so that the search continues behind it.
func (vd *verdict) fail(key, f string, a ...any) error {
	if key != "" && vt.Known(key) {
		if onExcluded != nil {
			onExcluded(key)
		}
		if !vd.excluded {
			vd.excluded = true
			vd.o.Excluded()
			vd.o.Label("excluded:" + key)
		}
		return nil
	}
	msg := fmt.Sprintf(f, a...)
	if key != "" {
		msg += "  [finding-key: " + key + "]"
	}
	return errors.New(msg)
}

func (vd *verdict) extraErr(k *kind, err error, d0 string) error {
	var ke *keyedError
	if errors.As(err, &ke) {
		return vd.fail(ke.key, "%s: %s\nvalue: %s", k.name, ke.msg, short(d0))
	}
	return fmt.Errorf("%s: %v\nvalue: %s", k.name, err, short(d0))
}

// ---- value check -----------------------------------------------------------------------------------------------------------

func checkValue(c ValueCase, o *vt.Obs) error {
	k := kindBy[c.Kind]
	if k == nil {
		return fmt.Errorf("unknown kind %q", c.Kind)
	}
	vd := &verdict{o: o}
	fam := family(k.name)
	v := k.build(newTape(c.Tape))
	d0 := k.dump(v)
	if k.expect != nil {
		d0 = k.dump(k.expect(v))
	}
	id0 := ""
	if k.ident != nil {
		id0 = k.ident(v)
	}
	dSrc := k.dump(v)
	e, _, err := safeEnc(k, v)
	lab := func(l string) { o.Label(l) }
	// "survives encode-then-decode unchanged" starts with the value that was encoded: the node goes on using it
	// (events for subscribers, caches) after it has been written.
	if err == nil {
		if dAfter := k.dump(v); dAfter != dSrc {
			if err := vd.fail("encode-modifies-value/"+fam, "%s: encoding modified the value being encoded: %s\nvalue: %s", k.name, firstDiff(dAfter, dSrc), short(dSrc)); err != nil {
				return err
			}
		}
	}
	if err != nil {
		var pe *panicError
		if !k.encMayFail || errors.As(err, &pe) {
			return fmt.Errorf("%s: encoder fails on a valid value: %v\nvalue: %s", k.name, err, short(d0))
		}
		o.Label(fam + "/encode-refused")
		if k.extra != nil {
			if err := k.extra(v, nil, lab); err != nil {
				return vd.extraErr(k, err, d0)
			}
		}
		return nil
	}
	if k.size != nil {
		if s, ok := k.size(v); ok && s != len(e) {
			if err := vd.fail(sizeKey(k, v, s, e), "%s: reported size %d, encoding has %d bytes\nvalue: %s", k.name, s, len(e), short(d0)); err != nil {
				return err
			}
		}
	}
	v1, n, err := safeDec(k, e)
	var pe *panicError
	if err != nil && k.decMayFail && !errors.As(err, &pe) {
		o.Label(fam + "/decode-refused")
		if err := k.extra(v, e, lab); err != nil {
			return vd.extraErr(k, err, d0)
		}
		return nil
	}
	if err != nil {
		key := ""
		if k.decFailKey != nil && !errors.As(err, &pe) {
			key = k.decFailKey(v, e, err)
		}
		if err := vd.fail(key, "%s: decoder rejects the encoding of a valid value: %v\nvalue: %s\nbytes: %x", k.name, err, short(d0), shortB(e)); err != nil {
			return err
		}
		return nil
	}
	if n != len(e) {
		return fmt.Errorf("%s: decoder consumed %d of %d bytes of a valid encoding", k.name, n, len(e))
	}
	if d1 := k.dump(v1); d1 != d0 {
		return fmt.Errorf("%s: decode(encode(v)) differs from v: %s", k.name, firstDiff(d1, d0))
	}
	e1, _, err := safeEnc(k, v1)
	if err != nil {
		return fmt.Errorf("%s: re-encoding of the decoded value fails: %v", k.name, err)
	}
	if !k.isNodeterm(e) && !bytes.Equal(e1, e) {
		return fmt.Errorf("%s: encode(decode(encode(v))) differs: %s", k.name, firstDiff(fmt.Sprintf("%x", e1), fmt.Sprintf("%x", e)))
	}
	if k.ident != nil {
		if id1 := k.ident(v1); id1 != id0 {
			return fmt.Errorf("%s: identity changes over a binary round trip: %s, was %s", k.name, id1, id0)
		}
	}
	if k.size != nil {
		if s, ok := k.size(v1); ok && s != len(e) {
			if err := vd.fail(sizeKey(k, v1, s, e), "%s: decoded value reports size %d, encoding has %d bytes", k.name, s, len(e)); err != nil {
				return err
			}
		}
	}
	if k.reuse != nil {
		// identity where the kind has one, its whole content otherwise
		ident := func(v any) string {
			if k.ident != nil {
				return k.ident(v) + " " + k.dump(v)
			}
			return k.dump(v)
		}
		id0 := ident(v)
		// a receiver that held ANOTHER value of the kind before (the tape read backwards builds one) and computed its
		// identity reports, after decoding this one, what a fresh receiver reports
		rev := make([]uint32, len(c.Tape))
		for i := range c.Tape {
			rev[i] = c.Tape[len(c.Tape)-1-i] ^ 0x5a5a5a5a
		}
		vOther := k.build(newTape(rev))
		if eOther, _, err := safeEnc(k, vOther); err == nil {
			obj := k.reuse.fresh()
			if err := k.reuse.into(obj, eOther); err == nil {
				idOther := ident(obj)
				if k.size != nil {
					k.size(obj)
				}
				if err := k.reuse.into(obj, e); err != nil {
					if err := vd.fail("reused-object-stale-identity/"+fam, "%s: decoding a valid encoding into an object that held another value before fails: %v (a fresh object decodes it)", k.name, err); err != nil {
						return err
					}
				} else if id := ident(obj); id != id0 {
					if err := vd.fail("reused-object-stale-identity/"+fam, "%s: an object that held another value (%s) before and now decoded this one reports %s, a fresh object reports %s", k.name, idOther, id, id0); err != nil {
						return err
					}
				} else if idOther != id0 {
					o.Label(fam + "/reused-object")
				}
				if k.reuse.jsonInto != nil && k.jsonEnc != nil {
					jOther, err1 := k.jsonEnc(vOther)
					j, err2 := k.jsonEnc(v)
					if err1 == nil && err2 == nil {
						obj, fresh := k.reuse.fresh(), k.reuse.fresh()
						if k.reuse.jsonInto(obj, jOther) == nil && k.reuse.jsonInto(fresh, j) == nil {
							ident(obj)
							if err := k.reuse.jsonInto(obj, j); err != nil {
								if err := vd.fail("reused-object-stale-identity/"+fam, "%s: UnmarshalJSON of own output into an object that held another value before fails: %v (a fresh object accepts it)", k.name, err); err != nil {
									return err
								}
							} else if a, b := ident(obj), ident(fresh); a != b {
								if err := vd.fail("reused-object-stale-identity/"+fam, "%s: UnmarshalJSON into an object that held another value before reports %s, into a fresh object %s", k.name, a, b); err != nil {
									return err
								}
							} else {
								o.Label(fam + "/reused-object-json")
							}
						}
					}
				}
			}
		}
	}
	if k.jsonEnc != nil {
		j, err := k.jsonEnc(v)
		if err != nil {
			return fmt.Errorf("%s: JSON marshalling of a valid value fails: %v\nvalue: %s", k.name, err, short(d0))
		}
		v2, err := k.jsonDec(j)
		if err != nil {
			if err := vd.fail(k.jsonKey, "%s: JSON unmarshalling of own output fails: %v\njson: %s", k.name, err, short(string(j))); err != nil {
				return err
			}
			return nil
		}
		if d2 := k.dump(v2); d2 != d0 {
			return fmt.Errorf("%s: JSON round trip changes the value: %s\njson: %s", k.name, firstDiff(d2, d0), short(string(j)))
		}
		if k.ident != nil {
			if id2 := k.ident(v2); id2 != id0 {
				return fmt.Errorf("%s: identity changes over a JSON round trip: %s, was %s", k.name, id2, id0)
			}
		}
		j2, err := k.jsonEnc(v2)
		if err != nil || !bytes.Equal(j, j2) {
			if err := vd.fail("json-remarshal/"+fam, "%s: JSON of the unmarshalled value differs (%v): %s", k.name, err, firstDiff(string(j2), string(j))); err != nil {
				return err
			}
		}
		o.Label(fam + "/json")
	}
	if k.extra != nil {
		if err := k.extra(v, e, lab); err != nil {
			if err = vd.extraErr(k, err, d0); err != nil {
				return err
			}
		}
	}
	o.Label(fam)
	if nestDepth(v) >= 3 {
		o.Label("nested>=3")
		o.NonTrivial()
	}
	return nil
}

// sizeKey names the recorded size findings.
func sizeKey(k *kind, v any, reported int, e []byte) string {
	if len(e)-reported == 2 && bytes.Contains(e, []byte{0xfe, 0xff, 0xff, 0, 0}) {
		return keyVarint // io.GetVarSize(0xffff) = 3, WriteVarUint(0xffff) writes 5 bytes
	}
	if k.name == "mptnode" {
		if n, ok := v.(mpt.Node); ok {
			return fmt.Sprintf("size/mptnode-type%d", n.Type())
		}
	}
	return "size/" + family(k.name)
}

func shortB(b []byte) []byte {
	if len(b) > 300 {
		return b[:300]
	}
	return b
}

// nestDepth: the deepest chain of variable-length structures (slices, strings, maps, containers) inside v.
func nestDepth(v any) int {
	switch x := v.(type) {
	case stackitem.Item:
		var st itemStats
		statItem(x, 0, &st)
		return st.depth + 1
	case mpt.Node:
		return 2
	case *consBytes:
		return 3
	}
	return nestDepthR(reflect.ValueOf(v), 0)
}

func nestDepthR(v reflect.Value, rec int) int {
	if !v.IsValid() || rec > 200 {
		return 0
	}
	t := v.Type()
	if t.Implements(typItem) && t.Kind() != reflect.Struct {
		if (t.Kind() == reflect.Interface || t.Kind() == reflect.Pointer) && v.IsNil() {
			return 0
		}
		if v.CanInterface() {
			var st itemStats
			statItem(v.Interface().(stackitem.Item), 0, &st)
			return st.depth + 1
		}
	}
	switch t.Kind() {
	case reflect.Pointer, reflect.Interface:
		if v.IsNil() {
			return 0
		}
		return nestDepthR(v.Elem(), rec+1)
	case reflect.Struct:
		if t == typPubKey || t.ConvertibleTo(typPubKey) {
			return 0
		}
		m := 0
		for i := 0; i < t.NumField(); i++ {
			if t.Field(i).IsExported() {
				m = max(m, nestDepthR(v.Field(i), rec+1))
			}
		}
		return m
	case reflect.String:
		return 1
	case reflect.Slice:
		if t.Elem().Kind() == reflect.Uint8 {
			return 1
		}
		m := 0
		for i := 0; i < v.Len() && i < 64; i++ {
			m = max(m, nestDepthR(v.Index(i), rec+1))
		}
		return 1 + m
	case reflect.Map:
		return 1
	}
	return 0
}

// ---- bytes check -----------------------------------------------------------------------------------------------------------

// traceFile (env C17_TRACE) receives every bytes case before it runs: the last one is the culprit when a decoder
// hangs or the process dies (a hang cannot be turned into a verdict from inside the process).
var traceFile = os.Getenv("C17_TRACE")

func checkBytes(c BytesCase, o *vt.Obs) error {
	if traceFile != "" {
		b, _ := json.Marshal(c)
		_ = os.WriteFile(traceFile, b, 0o644)
	}
	k := kindBy[c.Kind]
	if k == nil {
		return fmt.Errorf("unknown kind %q", c.Kind)
	}
	ms := &mutState{}
	origin := "raw"
	switch {
	case len(c.Tape) > 0 || len(c.Raw) == 0 && len(c.Muts) > 0 || len(c.Raw) == 0:
		t := newTape(c.Tape)
		t.hostile = c.Hostile
		v := k.build(t)
		if it, ok := v.(stackitem.Item); ok && c.Hostile && !k.text {
			h := &hostile{t: t, every: 3}
			b, ok := refSerialize(nil, it, h, k.name == "item-protected")
			if !ok {
				o.Label(family(k.name) + "/unencodable-base")
				return nil
			}
			ms.b = b
			origin = "hostile-encoder"
		} else {
			e, segs, err := safeEnc(k, v)
			if err != nil {
				o.Label(family(k.name) + "/unencodable-base")
				return nil
			}
			ms.b, ms.segs = e, segs
			origin = "valid"
		}
	default:
		ms.b = bytes.Clone(c.Raw)
	}
	for _, mu := range c.Muts {
		ms.apply(k, mu)
		if origin == "valid" {
			origin = "mutated"
		}
	}
	if len(ms.b) > 1<<20 {
		o.Label("input-too-big")
		return nil
	}
	return oracleBytes(k, ms.b, ms.expectReject, origin, o)
}

// oracleBytes is the law for one decoder and one input: error, or a value that is stable under re-encoding with the
// identity it reported at first; no panic; bounded allocation.
func oracleBytes(k *kind, in []byte, expectReject, origin string, o *vt.Obs) error {
	vd := &verdict{o: o}
	fam := family(k.name)
	// hangGuard: two decoders loop as many times as a count field says, without looking at read errors. Counts up to
	// 2^22 are executed (and show up as allocation / as accepted values); beyond that the loop would run for minutes
	// to centuries and cannot be interrupted from inside the process, so the case is reported without running it.
	if k.guard != nil {
		n := k.guard(in)
		if n > 1<<16 && !probing && (vt.Known("hang/"+fam) || vt.Known("alloc/"+fam)) {
			// Recorded: do not spend seconds and hundreds of MiB on re-confirming it in every such case.
			_ = vd.fail("hang/"+fam, "")
			_ = vd.fail("alloc/"+fam, "")
			return nil
		}
		if n > 1<<22 {
			// Not executed as it is. A surrogate with the count clamped to 2^22 is: when that already breaks the
			// allocation bound the original (same code path, a larger count) is reported; when the surrogate is
			// harmless (the loop is bounded by something else) the original is executed below like any input.
			sur := k.clamp(in)
			var s1, s2 runtime.MemStats
			runtime.ReadMemStats(&s1)
			st0 := time.Now()
			_, _, serr := safeDec(k, sur)
			stook := time.Since(st0)
			runtime.ReadMemStats(&s2)
			if len(sur) <= 256 && stook > 3*time.Second {
				if e := vd.fail("hang/"+fam+"-slow", "%s: the decoder's work is driven by a number in the input alone: this %d-byte input asks for %d steps; not executed. Surrogate with the number clamped (%q) took %s", k.name, len(in), n, shortB(sur), stook.Round(time.Millisecond)); e != nil {
					return e
				}
				return nil
			}
			var spe *panicError
			if sa := s2.TotalAlloc - s1.TotalAlloc; sa > uint64(allocConst+allocPerByte*len(sur)) || errors.As(serr, &spe) && false {
				if e := vd.fail("hang/"+fam, "%s: the decoder's work is driven by a number in the input alone: this %d-byte input asks for %d steps; not executed (found as a hang of the harness, see C17_TRACE). "+
					"Surrogate with the number clamped to 2^22 (%d bytes): allocated %d bytes, error=%v; input %x", k.name, len(in), n, len(sur), sa, serr != nil, shortB(in)); e != nil {
					return e
				}
				return nil
			}
		}
	}
	var m1, m2 runtime.MemStats
	runtime.ReadMemStats(&m1)
	t0 := time.Now()
	v, n, err := safeDec(k, in)
	took := time.Since(t0)
	runtime.ReadMemStats(&m2)
	alloc := m2.TotalAlloc - m1.TotalAlloc
	o.Units(1)
	// "decoders never hang": a short input that keeps the decoder busy for seconds asks for work that is driven by
	// a number in it alone. (Wall clock with a wide margin: ordinary decodings of such inputs take microseconds; the
	// bound is three seconds for at most 256 bytes.)
	if len(in) <= 256 && took > 3*time.Second {
		if e := vd.fail("hang/"+fam+"-slow", "%s: decoding %d bytes took %s (accepted=%v): the work is driven by a number in the input alone; input %q", k.name, len(in), took.Round(time.Millisecond), err == nil, shortB(in)); e != nil {
			return e
		}
		return nil
	}
	var pe *panicError
	if errors.As(err, &pe) {
		if e := vd.fail(pe.key(fam), "%s: decoder panics on %d bytes %x: %v", k.name, len(in), shortB(in), pe); e != nil {
			return e
		}
		return nil
	}
	if limit := uint64(allocConst + allocPerByte*len(in)); alloc > limit {
		if e := vd.fail(allocKey(k, in), "%s: decoding %d bytes allocated %d bytes (bound %d); accepted=%v; input %x", k.name, len(in), alloc, limit, err == nil, shortB(in)); e != nil {
			return e
		}
	}
	if err != nil {
		o.Label(fam + "/rejected")
		return nil
	}
	if expectReject != "" {
		return fmt.Errorf("%s: frame accepted although %s; input %x", k.name, expectReject, shortB(in))
	}
	if n < 0 || n > len(in) {
		return fmt.Errorf("%s: decoder reports %d consumed bytes of %d", k.name, n, len(in))
	}
	used := in[:n]
	if k.invariant != nil {
		if err := k.invariant(v); err != nil {
			return fmt.Errorf("%s: %v; input %x", k.name, err, shortB(in))
		}
	}
	d0, err := safeStr(k.dump, v)
	if err != nil {
		errors.As(err, &pe)
		if e := vd.fail(pe.key(fam), "%s: inspecting (JSON-marshalling / reading) an accepted value panics: %v; input %x", k.name, err, shortB(in)); e != nil {
			return e
		}
		return nil
	}
	id0 := ""
	if k.ident != nil {
		if id0, err = safeStr(k.ident, v); err != nil {
			errors.As(err, &pe)
			if e := vd.fail(pe.key(fam+"-ident"), "%s: Hash()/Size() of an accepted value panics: %v; input %x", k.name, err, shortB(in)); e != nil {
				return e
			}
			return nil
		}
	}
	e1, _, err := safeEnc(k, v)
	if err != nil {
		if errors.As(err, &pe) {
			if e := vd.fail(pe.key(fam+"-reenc"), "%s: re-encoding an accepted value panics: %v; input %x", k.name, err, shortB(in)); e != nil {
				return e
			}
			return nil
		}
		if k.encMayFail {
			o.Label(fam + "/accepted-reencode-refused")
			return nil
		}
		if e := vd.fail("reenc/"+fam, "%s: accepted value cannot be re-encoded: %v; value %s; input %x", k.name, err, short(d0), shortB(in)); e != nil {
			return e
		}
		return nil
	}
	if k.reencRefused != nil && k.reencRefused(v, e1) {
		o.Label(fam + "/accepted-reencode-refused")
		return nil
	}
	canonical := bytes.Equal(used, e1)
	if k.sameEncoding != nil {
		canonical = k.sameEncoding(used, e1)
	} else if k.isNodeterm(e1) {
		canonical = len(used) == len(e1)
	}
	nkey := ""
	if !canonical {
		nkey = noncanonKey(k, v)
	}
	v2, n2, err := safeDec(k, e1)
	if err != nil {
		key := "reenc/" + fam
		if k.decFailKey != nil && !errors.As(err, &pe) {
			if kk := k.decFailKey(v, e1, err); kk != "" {
				key = kk
			}
		}
		if e := vd.fail(key, "%s: re-encoding of an accepted value is rejected: %v; input %x; re-encoding %x", k.name, err, shortB(in), shortB(e1)); e != nil {
			return e
		}
		return nil
	}
	if n2 != len(e1) {
		return fmt.Errorf("%s: decoder consumed %d of %d bytes of a re-encoding", k.name, n2, len(e1))
	}
	if k.size != nil {
		s0, ok0 := k.size(v)
		s2, ok2 := k.size(v2)
		switch {
		case ok2 && s2 != len(e1):
			// the value decoded from its own canonical encoding misreports its size: a defect of Size() itself
			if e := vd.fail(sizeKey(k, v2, s2, e1), "%s: value reports size %d, its encoding has %d bytes; input %x; canonical %x", k.name, s2, len(e1), shortB(in), shortB(e1)); e != nil {
				return e
			}
		case ok0 && s0 != len(e1):
			if e := vd.fail(nkey, "%s: value decoded from %d bytes reports size %d, its encoding has %d bytes (size taken from the received bytes); input %x; canonical %x", k.name, n, s0, len(e1), shortB(in), shortB(e1)); e != nil {
				return e
			}
		}
	}
	if d2 := k.dump(v2); d2 != d0 {
		return fmt.Errorf("%s: value changes when re-encoded and decoded again: %s; input %x", k.name, firstDiff(d2, d0), shortB(in))
	}
	if k.ident != nil {
		if id2 := k.ident(v2); id2 != id0 {
			if e := vd.fail(nkey, "%s: identity depends on the encoding: decoded from the received bytes: %s; decoded from its own re-encoding: %s; received %x; re-encoding %x",
				k.name, id0, id2, shortB(in), shortB(e1)); e != nil {
				return e
			}
		}
	}
	if !k.isNodeterm(e1) {
		if e2, _, err := safeEnc(k, v2); err != nil || !bytes.Equal(e2, e1) {
			return fmt.Errorf("%s: encoding is not a fixpoint after one round (%v); input %x", k.name, err, shortB(in))
		}
	}
	// All production paths that accept these bytes must report the same identity.
	if len(k.alt) > 0 && n == len(in) {
		first, firstName := "", ""
		for _, p := range k.alt {
			id, err := safeAlt(p, in)
			if err != nil {
				if errors.As(err, &pe) {
					return fmt.Errorf("%s: path %s panics: %v; input %x", k.name, p.name, err, shortB(in))
				}
				o.Label(fam + "/path-rejects:" + p.name)
				continue
			}
			if first == "" {
				first, firstName = id, p.name
			} else if id != first {
				if e := vd.fail(nkey, "%s: identity depends on the arrival path: %s gives %s, %s gives %s; bytes %x", k.name, firstName, first, p.name, id, shortB(in)); e != nil {
					return e
				}
				break
			}
		}
	}
	if canonical {
		o.Label(fam + "/accepted-canonical")
	} else {
		o.Label(fam + "/accepted-NONCANONICAL")
		o.Label("origin-of-noncanonical:" + origin)
		o.NonTrivial()
	}
	return nil
}

func safeAlt(p altPath, b []byte) (id string, err error) {
	defer func() {
		if r := recover(); r != nil {
			err = &panicError{val: r, stack: trimStack(debug.Stack())}
		}
	}()
	return p.dec(b)
}

// noncanonKey names the recorded identity findings for values accepted from a non-canonical encoding.
func noncanonKey(k *kind, v any) string {
	switch family(k.name) {
	case "tx-raw", "tx":
		return "tx-identity-from-received-bytes"
	case "msg":
		if m, ok := v.(*network.Message); ok && m.Command == network.CMDTX {
			return "tx-identity-from-received-bytes"
		}
	}
	if family(k.name) == "tx-hashable" {
		return "tx-hashable-identity-from-received-bytes"
	}
	return "noncanonical-identity/" + family(k.name)
}

// ---- varint / GetVarSize law ---------------------------------------------------------------------------------------------

// VarCase: a length; the law ties io.GetVarSize, the writer and the reader together.
type VarCase struct {
	N uint64 `json:"n"`
}

func genVarCase(t *rapid.T) VarCase {
	base := rapid.SampledFrom([]uint64{0, 0xfc, 0xfd, 0xfe, 0xffff, 0x10000, 0xffffffff, 0x100000000, 1<<63 - 1}).Draw(t, "base")
	d := rapid.Int64Range(-3, 3).Draw(t, "delta")
	if rapid.IntRange(0, 3).Draw(t, "rnd") == 0 {
		return VarCase{N: rapid.Uint64().Draw(t, "n")}
	}
	n := base + uint64(d)
	if d < 0 && base < uint64(-d) {
		n = base
	}
	return VarCase{N: n}
}

var _ = binary.LittleEndian
