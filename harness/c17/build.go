package c17

import (
	"encoding/json"
	"math"
	"math/big"

	"github.com/nspcc-dev/neo-go/pkg/config/netmode"
	"github.com/nspcc-dev/neo-go/pkg/core/block"
	"github.com/nspcc-dev/neo-go/pkg/core/dao"
	"github.com/nspcc-dev/neo-go/pkg/core/mpt"
	"github.com/nspcc-dev/neo-go/pkg/core/state"
	"github.com/nspcc-dev/neo-go/pkg/core/storage"
	"github.com/nspcc-dev/neo-go/pkg/core/transaction"
	"github.com/nspcc-dev/neo-go/pkg/crypto/keys"
	"github.com/nspcc-dev/neo-go/pkg/network/capability"
	"github.com/nspcc-dev/neo-go/pkg/network/payload"
	"github.com/nspcc-dev/neo-go/pkg/smartcontract"
	"github.com/nspcc-dev/neo-go/pkg/smartcontract/callflag"
	"github.com/nspcc-dev/neo-go/pkg/smartcontract/manifest"
	"github.com/nspcc-dev/neo-go/pkg/smartcontract/nef"
	"github.com/nspcc-dev/neo-go/pkg/smartcontract/trigger"
	"github.com/nspcc-dev/neo-go/pkg/util"
	"github.com/nspcc-dev/neo-go/pkg/vm/stackitem"
	"github.com/nspcc-dev/neo-go/pkg/vm/vmstate"
)

// ---- transaction and its parts ----------------------------------------------------------------------------

// buildCondition draws a condition tree; levels is the number of levels still allowed (MaxConditionNesting at the top).
func buildCondition(t *tape, levels int) transaction.WitnessCondition {
	k := 7
	if levels > 1 {
		k = 10
	}
	switch t.n(k) {
	case 0:
		v := transaction.ConditionBoolean(t.bool())
		return &v
	case 1:
		return transaction.ConditionCalledByEntry{}
	case 2, 3:
		v := transaction.ConditionScriptHash(t.u160())
		return &v
	case 4:
		v := transaction.ConditionGroup(*t.pub())
		return &v
	case 5:
		v := transaction.ConditionCalledByContract(t.u160())
		return &v
	case 6:
		v := transaction.ConditionCalledByGroup(*t.pub())
		return &v
	case 7:
		return &transaction.ConditionNot{Condition: buildCondition(t, levels-1)}
	default:
		n := t.rng(1, 3)
		if t.chance(12) {
			n = 16
		}
		var l []transaction.WitnessCondition
		for i := 0; i < n; i++ {
			l = append(l, buildCondition(t, levels-1))
		}
		if t.bool() {
			v := transaction.ConditionAnd(l)
			return &v
		}
		v := transaction.ConditionOr(l)
		return &v
	}
}

func condDepth(c transaction.WitnessCondition) int {
	switch v := c.(type) {
	case *transaction.ConditionNot:
		return 1 + condDepth(v.Condition)
	case *transaction.ConditionAnd:
		m := 0
		for _, e := range *v {
			m = max(m, condDepth(e))
		}
		return 1 + m
	case *transaction.ConditionOr:
		m := 0
		for _, e := range *v {
			m = max(m, condDepth(e))
		}
		return 1 + m
	}
	return 1
}

func buildRule(t *tape) transaction.WitnessRule {
	if t.hostile && t.n(3) == 0 {
		// A spine one or two levels deeper than allowed (the encoders do not check the depth).
		c := buildCondition(t, 1)
		for i := 0; i < transaction.MaxConditionNesting+t.n(2); i++ {
			switch t.n(3) {
			case 0:
				c = &transaction.ConditionNot{Condition: c}
			case 1:
				v := transaction.ConditionAnd{c}
				c = &v
			default:
				v := transaction.ConditionOr{buildCondition(t, 1), c}
				c = &v
			}
		}
		return transaction.WitnessRule{Action: transaction.WitnessAction(t.n(2)), Condition: c}
	}
	return transaction.WitnessRule{
		Action:    transaction.WitnessAction(t.n(2)),
		Condition: buildCondition(t, transaction.MaxConditionNesting),
	}
}

var scopeChoices = []transaction.WitnessScope{
	transaction.CalledByEntry, transaction.None, transaction.Global,
	transaction.CustomContracts, transaction.CustomGroups, transaction.Rules,
	transaction.CalledByEntry | transaction.CustomContracts,
	transaction.CalledByEntry | transaction.CustomGroups | transaction.Rules,
	transaction.CustomContracts | transaction.CustomGroups | transaction.Rules | transaction.CalledByEntry,
	transaction.CustomContracts | transaction.CustomGroups,
	transaction.Rules | transaction.CustomContracts,
}

func listLen(t *tape) int {
	if t.chance(14) {
		return 16
	}
	return t.n(4)
}

func buildSigner(t *tape, account util.Uint160) transaction.Signer {
	s := transaction.Signer{Account: account, Scopes: scopeChoices[t.n(len(scopeChoices))]}
	if s.Scopes&transaction.CustomContracts != 0 {
		n := listLen(t)
		for i := 0; i < n; i++ {
			s.AllowedContracts = append(s.AllowedContracts, t.u160())
		}
	}
	if s.Scopes&transaction.CustomGroups != 0 {
		n := listLen(t)
		for i := 0; i < n; i++ {
			s.AllowedGroups = append(s.AllowedGroups, t.pub())
		}
	}
	if s.Scopes&transaction.Rules != 0 {
		n := listLen(t)
		for i := 0; i < n; i++ {
			s.Rules = append(s.Rules, buildRule(t))
		}
	}
	return s
}

func buildWitness(t *tape) transaction.Witness {
	return transaction.Witness{
		InvocationScript:   t.blob(transaction.MaxInvocationScript),
		VerificationScript: t.blob(transaction.MaxVerificationScript),
	}
}

var oracleCodes = []transaction.OracleResponseCode{
	transaction.Success, transaction.ProtocolNotSupported, transaction.ConsensusUnreachable, transaction.NotFound,
	transaction.Timeout, transaction.Forbidden, transaction.ResponseTooLarge, transaction.InsufficientFunds,
	transaction.ContentTypeNotSupported, transaction.Error,
}

func (t *tape) fee() int64 {
	switch t.n(5) {
	case 0:
		return 0
	case 1:
		return int64(t.n(100000))
	case 2:
		return math.MaxInt64 / 2
	default:
		return int64(t.u64() >> 2) // < 2^62, so the sum of two fees does not overflow
	}
}

type txOpts struct {
	noReserved bool // Reserved attributes have no JSON input form
	scriptMax  int
}

// buildTx draws a transaction every decoder accepts (rules of Transaction.isValid and of the part decoders).
func buildTx(t *tape, o txOpts) *transaction.Transaction {
	tx := &transaction.Transaction{
		Nonce:           t.u32(),
		SystemFee:       t.fee(),
		NetworkFee:      t.fee(),
		ValidUntilBlock: t.u32(),
	}
	smax := transaction.MaxScriptLength
	if o.scriptMax > 0 {
		smax = o.scriptMax
	}
	tx.Script = t.blob(smax)
	if len(tx.Script) == 0 {
		tx.Script = []byte{0x40}
	}
	ns := 1
	switch t.n(8) {
	case 0, 1:
		ns = 2
	case 2:
		ns = 3
	case 3:
		if t.chance(4) {
			ns = 16
		}
	}
	for i := 0; i < ns; i++ {
		var acc util.Uint160
		copy(acc[:], t.fill(20))
		acc[0] = byte(i) // unique accounts
		tx.Signers = append(tx.Signers, buildSigner(t, acc))
		tx.Scripts = append(tx.Scripts, buildWitness(t))
	}
	room := transaction.MaxAttributes - ns
	na := t.n(5)
	if t.chance(12) {
		na = room
	}
	na = min(na, room)
	used := map[transaction.AttrType]bool{}
	for i := 0; i < na; i++ {
		var a transaction.Attribute
		kinds := 7
		if o.noReserved {
			kinds = 6
		}
		switch t.n(kinds) {
		case 0:
			a = transaction.Attribute{Type: transaction.HighPriority}
		case 1:
			r := &transaction.OracleResponse{ID: t.u64(), Code: oracleCodes[t.n(len(oracleCodes))]}
			if r.Code == transaction.Success {
				r.Result = t.blob(transaction.MaxOracleResultSize)
			}
			a = transaction.Attribute{Type: transaction.OracleResponseT, Value: r}
		case 2:
			a = transaction.Attribute{Type: transaction.NotValidBeforeT, Value: &transaction.NotValidBefore{Height: t.u32()}}
		case 3, 4:
			a = transaction.Attribute{Type: transaction.ConflictsT, Value: &transaction.Conflicts{Hash: t.u256()}}
		case 5:
			a = transaction.Attribute{Type: transaction.NotaryAssistedT, Value: &transaction.NotaryAssisted{NKeys: t.u8()}}
		default:
			a = transaction.Attribute{Type: transaction.AttrType(transaction.ReservedLowerBound + t.n(32)), Value: &transaction.Reserved{Value: t.smallBlob(8)}}
		}
		if a.Type != transaction.ConflictsT {
			if used[a.Type] {
				continue
			}
			used[a.Type] = true
		}
		tx.Attributes = append(tx.Attributes, a)
	}
	return tx
}

// ---- header / block -------------------------------------------------------------------------------------------

func buildHeader(t *tape, sr bool) *block.Header {
	h := &block.Header{
		Version:          t.u32(),
		PrevHash:         t.u256(),
		MerkleRoot:       t.u256(),
		Timestamp:        t.u64(),
		Nonce:            t.u64(),
		Index:            t.u32(),
		NextConsensus:    t.u160(),
		PrimaryIndex:     t.u8(),
		Script:           buildWitness(t),
		StateRootEnabled: sr,
	}
	if sr {
		h.PrevStateRoot = t.u256()
	}
	return h
}

func buildBlock(t *tape, sr bool) *block.Block {
	b := &block.Block{Header: *buildHeader(t, sr)}
	n := t.n(4)
	for i := 0; i < n; i++ {
		tx := buildTx(t, txOpts{scriptMax: 700, noReserved: true})
		tx.Nonce = uint32(i)*7919 + tx.Nonce%7919 // distinct transactions
		b.Transactions = append(b.Transactions, tx)
	}
	if t.chance(30) {
		// many minimal transactions: the transaction count needs the 3-byte length form
		m := 0xfc + t.n(4)
		for i := 0; i < m; i++ {
			var acc util.Uint160
			acc[0] = byte(i)
			b.Transactions = append(b.Transactions, &transaction.Transaction{
				Nonce: uint32(100000 + i), Script: []byte{0x40},
				Signers: []transaction.Signer{{Account: acc, Scopes: transaction.CalledByEntry}},
				Scripts: []transaction.Witness{{}},
			})
		}
	}
	if t.bool() {
		b.RebuildMerkleRoot()
	}
	return b
}

// ---- network payloads ---------------------------------------------------------------------------------------

func buildCapabilities(t *tape) capability.Capabilities {
	var caps capability.Capabilities
	n := t.n(5)
	seen := map[capability.Type]bool{}
	for i := 0; i < n; i++ {
		var c capability.Capability
		switch t.n(7) {
		case 0:
			c = capability.Capability{Type: capability.TCPServer, Data: &capability.Server{Port: t.u16()}}
		case 1:
			c = capability.Capability{Type: capability.WSServer, Data: &capability.Server{Port: t.u16()}}
		case 2:
			c = capability.Capability{Type: capability.FullNode, Data: &capability.Node{StartHeight: t.u32()}}
		case 3:
			c = capability.Capability{Type: capability.ArchivalNode, Data: &capability.Archival{}}
		case 4:
			c = capability.Capability{Type: capability.DisableCompressionNode, Data: &capability.DisableCompression{}}
		default:
			u := capability.Unknown(t.smallBlob(8))
			c = capability.Capability{Type: capability.Type(0xf0 + t.n(16)), Data: &u}
		}
		if c.Type < capability.ReservedFirst {
			if seen[c.Type] {
				continue
			}
			seen[c.Type] = true
		}
		caps = append(caps, c)
	}
	return caps
}

func buildVersion(t *tape) *payload.Version {
	return &payload.Version{
		Magic:        netmode.Magic(t.u32()),
		Version:      t.u32(),
		Timestamp:    t.u32(),
		Nonce:        t.u32(),
		UserAgent:    t.blob(payload.MaxUserAgentLength),
		Capabilities: buildCapabilities(t),
	}
}

func buildAddressList(t *tape) *payload.AddressList {
	n := t.rng(1, 4)
	if t.chance(20) {
		n = payload.MaxAddrsCount
	}
	al := &payload.AddressList{}
	for i := 0; i < n; i++ {
		a := &payload.AddressAndTime{Timestamp: t.u32(), Capabilities: buildCapabilities(t)}
		copy(a.IP[:], t.fill(16))
		al.Addrs = append(al.Addrs, a)
	}
	return al
}

func buildHashes(t *tape, max int) []util.Uint256 {
	n := t.n(5)
	if t.chance(15) {
		n = max
	}
	n = min(n, max)
	res := make([]util.Uint256, n)
	for i := range res {
		res[i] = t.u256()
	}
	return res
}

func buildInventory(t *tape) *payload.Inventory {
	typ := []payload.InventoryType{payload.TXType, payload.BlockType, payload.ExtensibleType, payload.P2PNotaryRequestType, 0, 0xff}[t.n(6)]
	return &payload.Inventory{Type: typ, Hashes: buildHashes(t, payload.MaxHashesCount)}
}

func buildCount(t *tape, max int) int16 {
	switch t.n(4) {
	case 0:
		return -1
	case 1:
		return 1
	case 2:
		return int16(max)
	default:
		return int16(t.rng(1, max))
	}
}

func buildExtensible(t *tape) *payload.Extensible {
	cats := []string{"dBFT", "StateService", "", "x", "0123456789abcdef0123456789abcdef"}
	return &payload.Extensible{
		Category:        cats[t.n(len(cats))],
		ValidBlockStart: t.u32(),
		ValidBlockEnd:   t.u32(),
		Sender:          t.u160(),
		Data:            t.blob(3000),
		Witness:         buildWitness(t),
	}
}

// buildNotaryRequest follows P2PNotaryRequest.isValid.
func buildNotaryRequest(t *tape) *payload.P2PNotaryRequest {
	main := buildTx(t, txOpts{scriptMax: 300})
	var attrs []transaction.Attribute
	for _, a := range main.Attributes {
		if a.Type != transaction.NotaryAssistedT {
			attrs = append(attrs, a)
		}
	}
	if len(main.Signers) >= transaction.MaxAttributes {
		main.Signers = main.Signers[:transaction.MaxAttributes-1]
		main.Scripts = main.Scripts[:transaction.MaxAttributes-1]
	}
	if len(attrs)+len(main.Signers) >= transaction.MaxAttributes {
		attrs = attrs[:transaction.MaxAttributes-len(main.Signers)-1]
	}
	main.Attributes = append(attrs, transaction.Attribute{Type: transaction.NotaryAssistedT, Value: &transaction.NotaryAssisted{NKeys: byte(t.rng(1, 255))}})
	fb := &transaction.Transaction{
		Nonce:           t.u32(),
		SystemFee:       t.fee(),
		NetworkFee:      t.fee(),
		ValidUntilBlock: main.ValidUntilBlock,
		Script:          []byte{0x40},
	}
	var a1, a2 util.Uint160
	a1[0], a2[0] = 1, 2
	copy(a2[1:], t.fill(19))
	fb.Signers = []transaction.Signer{{Account: a1, Scopes: transaction.None}, buildSigner(t, a2)}
	inv := append([]byte{0x0c, keys.SignatureLen}, t.fill(keys.SignatureLen)...)
	fb.Scripts = []transaction.Witness{{InvocationScript: inv, VerificationScript: []byte{}}, buildWitness(t)}
	fb.Attributes = []transaction.Attribute{
		{Type: transaction.NotValidBeforeT, Value: &transaction.NotValidBefore{Height: t.u32()}},
		{Type: transaction.ConflictsT, Value: &transaction.Conflicts{Hash: main.Hash()}},
		{Type: transaction.NotaryAssistedT, Value: &transaction.NotaryAssisted{NKeys: 0}},
	}
	return &payload.P2PNotaryRequest{MainTransaction: main, FallbackTransaction: fb, Witness: buildWitness(t)}
}

func buildMerkleBlock(t *tape) *payload.MerkleBlock { return buildMerkleBlockSR(t, false) }

// buildMerkleBlockSR: the header is the header of the network the message travels in (StateRootInHeader or not).
func buildMerkleBlockSR(t *tape, sr bool) *payload.MerkleBlock {
	h := buildHeader(t, sr)
	hashes := buildHashes(t, 300)
	fl := t.fill((len(hashes) + 7) / 8)
	if t.bool() {
		fl = fl[:len(fl)/2]
	}
	return &payload.MerkleBlock{Header: h, TxCount: len(hashes), Hashes: hashes, Flags: fl}
}

func buildMPTData(t *tape) *payload.MPTData {
	n := t.rng(1, 4)
	d := &payload.MPTData{}
	for i := 0; i < n; i++ {
		d.Nodes = append(d.Nodes, t.blob(400))
	}
	return d
}

func buildHeaders(t *tape, sr bool) *payload.Headers {
	n := t.rng(1, 3)
	hs := &payload.Headers{StateRootInHeader: sr}
	for i := 0; i < n; i++ {
		hs.Hdrs = append(hs.Hdrs, buildHeader(t, sr))
	}
	return hs
}

// ---- state service / storage types ---------------------------------------------------------------------------

func buildMPTRoot(t *tape) *state.MPTRoot {
	r := &state.MPTRoot{Version: t.u8(), Index: t.u32(), Root: t.u256()}
	if t.bool() {
		r.Witness = []transaction.Witness{buildWitness(t)}
	}
	return r
}

// buildNode draws an MPT node. canonical=true keeps children in the form the serialization keeps (hash or empty).
func buildNode(t *tape, depth int, canonical bool) mpt.Node {
	k := 5
	if depth <= 0 {
		k = 3
	}
	switch t.n(k) {
	case 0:
		var v []byte
		switch t.n(10) {
		case 0:
			v = make([]byte, []int{0xffff - 1, 0xffff, 0x10000, mpt.MaxValueLength}[t.n(4)])
		default:
			v = t.blob(600)
		}
		return mpt.NewLeafNode(v)
	case 1:
		return mpt.NewHashNode(nonZero256(t))
	case 2:
		return mpt.EmptyNode{}
	case 3:
		n := t.rng(1, 6)
		if t.chance(10) {
			n = mpt.MaxKeyLength * 2
		}
		key := make([]byte, n)
		for i := range key {
			key[i] = byte(t.n(16))
		}
		var next mpt.Node
		if canonical || t.bool() {
			next = mpt.NewHashNode(nonZero256(t))
		} else {
			next = buildNode(t, depth-1, canonical)
			if _, empty := next.(mpt.EmptyNode); empty {
				next = mpt.NewLeafNode([]byte{1})
			}
		}
		return mpt.NewExtensionNode(key, next)
	default:
		b := mpt.NewBranchNode()
		for i := range b.Children {
			switch t.n(4) {
			case 0, 1:
			case 2:
				b.Children[i] = mpt.NewHashNode(nonZero256(t))
			default:
				if canonical {
					b.Children[i] = mpt.NewHashNode(nonZero256(t))
				} else {
					b.Children[i] = buildNode(t, depth-1, canonical)
				}
			}
		}
		return b
	}
}

func nonZero256(t *tape) util.Uint256 {
	u := t.u256()
	u[0] |= 1
	return u
}

func buildNEF(t *tape) *nef.File {
	comps := []string{"neo-go-0.1", "", "c", "neo-go\x00x", "0123456789012345678901234567890123456789012345678901234567890123"}
	f := &nef.File{
		Header: nef.Header{Magic: nef.Magic, Compiler: comps[t.n(len(comps))]},
		Source: t.text(nef.MaxSourceURLLength),
	}
	if t.chance(10) {
		f.Source = string(make([]byte, nef.MaxSourceURLLength))
	}
	n := t.n(4)
	if t.chance(15) {
		n = 128
	}
	f.Tokens = []nef.MethodToken{}
	methods := []string{"", "a", "transfer", "x_y", "01234567890123456789012345678901"}
	for i := 0; i < n; i++ {
		f.Tokens = append(f.Tokens, nef.MethodToken{
			Hash:       t.u160(),
			Method:     methods[t.n(len(methods))],
			ParamCount: t.u16(),
			HasReturn:  t.bool(),
			CallFlag:   callflag.CallFlag(t.n(int(callflag.All) + 1)),
		})
	}
	f.Script = t.blob(3000)
	if len(f.Script) == 0 {
		f.Script = []byte{0x40}
	}
	f.Checksum = f.CalculateChecksum()
	return f
}

var paramTypes = []smartcontract.ParamType{
	smartcontract.AnyType, smartcontract.BoolType, smartcontract.IntegerType, smartcontract.ByteArrayType,
	smartcontract.StringType, smartcontract.Hash160Type, smartcontract.Hash256Type, smartcontract.PublicKeyType,
	smartcontract.SignatureType, smartcontract.ArrayType, smartcontract.MapType, smartcontract.InteropInterfaceType,
}

func buildParams(t *tape) []manifest.Parameter {
	n := t.n(4)
	res := []manifest.Parameter{}
	for i := 0; i < n; i++ {
		res = append(res, manifest.Parameter{Name: t.ident() + string(rune('0'+i)), Type: paramTypes[t.n(len(paramTypes))]})
	}
	return res
}

var extras = []string{`null`, `{}`, `{"a":1}`, `{"z":1,"a":[1,2,{"b":null}],"m":"x y"}`, `"str"`, `[1, 2]`, `{"Author":"x","Email":"y","n":1.5e3}`, `12`, `true`}

// buildManifest draws a manifest accepted by Manifest.IsValid(zero hash).
func buildManifest(t *tape) *manifest.Manifest {
	m := manifest.NewManifest(t.ident())
	nm := t.rng(1, 4)
	for i := 0; i < nm; i++ {
		rt := append([]smartcontract.ParamType{smartcontract.VoidType}, paramTypes...)
		m.ABI.Methods = append(m.ABI.Methods, manifest.Method{
			Name:       t.ident() + string(rune('A'+i)),
			Offset:     t.n(70000),
			Parameters: buildParams(t),
			ReturnType: rt[t.n(len(rt))],
			Safe:       t.bool(),
		})
	}
	ne := t.n(3)
	for i := 0; i < ne; i++ {
		m.ABI.Events = append(m.ABI.Events, manifest.Event{Name: t.ident() + string(rune('A'+i)), Parameters: buildParams(t)})
	}
	ng := t.n(3)
	for i := 0; i < ng; i++ {
		m.Groups = append(m.Groups, manifest.Group{PublicKey: pubKeys[i*3+t.n(3)], Signature: t.fill(keys.SignatureLen)})
	}
	np := t.n(4)
	wild := false
	for i := 0; i < np; i++ {
		var p *manifest.Permission
		switch t.n(3) {
		case 0:
			if wild {
				continue
			}
			wild = true
			p = manifest.NewPermission(manifest.PermissionWildcard)
		case 1:
			var u util.Uint160
			copy(u[:], t.fill(20))
			u[0] = byte(i)
			p = manifest.NewPermission(manifest.PermissionHash, u)
		default:
			p = manifest.NewPermission(manifest.PermissionGroup, pubKeys[i*4+t.n(4)])
		}
		switch t.n(3) {
		case 0: // wildcard methods: Value stays nil
		case 1:
			p.Methods.Restrict()
		default:
			p.Methods.Restrict()
			k := t.rng(1, 3)
			for j := 0; j < k; j++ {
				p.Methods.Add(t.ident() + string(rune('a'+j)))
			}
		}
		m.Permissions = append(m.Permissions, *p)
	}
	ns := t.n(3)
	for i := 0; i < ns; i++ {
		m.SupportedStandards = append(m.SupportedStandards, []string{"NEP-17", "NEP-11", "NEP-24", "x"}[t.n(4)]+string(rune('a'+i)))
	}
	switch t.n(3) {
	case 0:
		m.Trusts = manifest.WildPermissionDescs{Wildcard: true}
	case 1:
		m.Trusts.Restrict()
	default:
		m.Trusts.Restrict()
		k := t.rng(1, 3)
		for j := 0; j < k; j++ {
			if t.bool() {
				var u util.Uint160
				copy(u[:], t.fill(20))
				u[0] = byte(j)
				m.Trusts.Add(manifest.PermissionDesc{Type: manifest.PermissionHash, Value: u})
			} else {
				m.Trusts.Add(manifest.PermissionDesc{Type: manifest.PermissionGroup, Value: pubKeys[j*5+t.n(5)]})
			}
		}
	}
	m.Extra = json.RawMessage(extras[t.n(len(extras))])
	return m
}

func buildItemArray(t *tape, invalid bool) *stackitem.Array {
	n := t.n(4)
	arr := make([]stackitem.Item, 0, n)
	for i := 0; i < n; i++ {
		o := &itemOpts{invalid: invalid, budget: 20}
		arr = append(arr, t.tree(o, 3))
	}
	return stackitem.NewArray(arr)
}

func buildNotification(t *tape) *state.NotificationEvent {
	return &state.NotificationEvent{ScriptHash: t.u160(), Name: t.text(40), Item: buildItemArray(t, false)}
}

func buildInvocation(t *tape) *state.ContractInvocation {
	args := buildItemArray(t, false)
	b, err := stackitem.Serialize(args)
	if err != nil || t.n(4) == 0 {
		return state.NewContractInvocation(t.u160(), t.text(32), nil, uint32(t.n(5)))
	}
	return state.NewContractInvocation(t.u160(), t.text(32), b, uint32(args.Len()))
}

func buildAER(t *tape) *state.AppExecResult {
	aer := &state.AppExecResult{Container: t.u256()}
	aer.Trigger = []trigger.Type{trigger.Application, trigger.OnPersist, trigger.PostPersist, trigger.Verification}[t.n(4)]
	aer.VMState = []vmstate.State{vmstate.Halt, vmstate.Fault, vmstate.None, vmstate.Break}[t.n(4)]
	aer.GasConsumed = t.fee()
	n := t.n(4)
	aer.Stack = []stackitem.Item{}
	for i := 0; i < n; i++ {
		o := &itemOpts{invalid: true, budget: 20}
		aer.Stack = append(aer.Stack, t.tree(o, 3))
	}
	ne := t.n(3)
	for i := 0; i < ne; i++ {
		aer.Events = append(aer.Events, *buildNotification(t))
	}
	if aer.VMState == vmstate.Fault {
		aer.FaultException = t.text(60)
	}
	if t.n(3) == 0 {
		ni := t.rng(1, 2)
		for i := 0; i < ni; i++ {
			aer.Invocations = append(aer.Invocations, *buildInvocation(t))
		}
	}
	return aer
}

func (t *tape) amount() *big.Int {
	return t.bigInt(false)
}

func buildNEP17(t *tape) *state.NEP17Transfer {
	return &state.NEP17Transfer{
		Asset: int32(t.u32()), Counterparty: t.u160(), Amount: t.amount(),
		Block: t.u32(), Timestamp: t.u64(), Tx: t.u256(),
	}
}

func buildNEP11(t *tape) *state.NEP11Transfer {
	return &state.NEP11Transfer{NEP17Transfer: *buildNEP17(t), ID: t.blob(64)}
}

func buildTTI(t *tape) *state.TokenTransferInfo {
	i := state.NewTokenTransferInfo()
	i.NextNEP11Batch, i.NextNEP17Batch = t.u32(), t.u32()
	i.NextNEP11NewestTimestamp, i.NextNEP17NewestTimestamp = t.u64(), t.u64()
	i.NewNEP11Batch, i.NewNEP17Batch = t.bool(), t.bool()
	n := t.n(5)
	for j := 0; j < n; j++ {
		i.LastUpdated[int32(t.u32())] = t.u32()
	}
	return i
}

func buildDaoVersion(t *tape) *dao.Version {
	return &dao.Version{
		StoragePrefix:              storage.KeyPrefix(t.u8()),
		StateRootInHeader:          t.bool(),
		P2PSigExtensions:           t.bool(),
		P2PStateExchangeExtensions: t.bool(),
		KeepOnlyLatestState:        t.bool(),
		Magic:                      t.u32(),
		Value:                      []string{"0.2.13", "", "v", "0.2.13-pre"}[t.n(4)],
		SaveInvocations:            t.bool(),
	}
}

func buildCheckpoint(t *tape) *dao.StateSyncCheckpoint {
	return &dao.StateSyncCheckpoint{IntermediateRoot: t.u256(), Root: t.u256(), Witness: buildWitness(t), LastStoredKey: t.blob(70)}
}
