package c17

import (
	"encoding/json"
	"fmt"
	"strings"

	"github.com/nspcc-dev/neo-go/pkg/core/transaction"
	"github.com/nspcc-dev/neo-go/pkg/io"
	"pgregory.net/rapid"
	"verifharness/vt"
)

// ScopeCase: the text form of a witness scope set as it appears in the JSON of signers (RPC parameters, wallets'
// signing contexts): names in a drawn order with drawn separators, duplicates and unknown names included.
type ScopeCase struct {
	Names []string `json:"names"`
	Sep   string   `json:"sep"`
}

var scopeNames = []string{"None", "CalledByEntry", "CustomContracts", "CustomGroups", "WitnessRules", "Global", "Global", "CalledByEntry", "Bogus"}

func genScopeCase(t *rapid.T) ScopeCase {
	return ScopeCase{
		Names: rapid.SliceOfN(rapid.SampledFrom(scopeNames), 1, 4).Draw(t, "names"),
		Sep:   rapid.SampledFrom([]string{",", ", ", " , "}).Draw(t, "sep"),
	}
}

// checkScopeCase: the text decoder either fails or gives a scope set that (1) is the union of the names, (2) a signer
// can carry through the binary and the JSON encodings, (the printer of combined sets is the signer's JSON form).
func checkScopeCase(c ScopeCase, o *vt.Obs) error {
	if len(c.Names) == 0 {
		return nil
	}
	text := strings.Join(c.Names, c.Sep)
	var want transaction.WitnessScope
	known := true
	bits := map[string]transaction.WitnessScope{"None": transaction.None, "CalledByEntry": transaction.CalledByEntry, "CustomContracts": transaction.CustomContracts,
		"CustomGroups": transaction.CustomGroups, "WitnessRules": transaction.Rules, "Global": transaction.Global}
	for _, n := range c.Names {
		b, ok := bits[n]
		known = known && ok
		want |= b
	}
	got, err := transaction.ScopesFromString(text)
	if err != nil {
		if known && want&transaction.Global == 0 {
			return fmt.Errorf("ScopesFromString(%q): %v, but every name is a scope and Global is not among them", text, err)
		}
		o.Label("scopes/rejected")
		return nil
	}
	if !known {
		return fmt.Errorf("ScopesFromString(%q) = %d although a name is not a scope", text, got)
	}
	if got != want {
		return fmt.Errorf("ScopesFromString(%q) = %d, the union of the names is %d", text, got, want)
	}
	s := transaction.Signer{Account: [20]byte{1}, Scopes: got}
	w := io.NewBufBinWriter()
	s.EncodeBinary(w.BinWriter)
	if w.Err != nil {
		return fmt.Errorf("scopes %q accepted as %d: the signer does not encode: %v", text, got, w.Err)
	}
	var s2 transaction.Signer
	r := io.NewBinReaderFromBuf(w.Bytes())
	s2.DecodeBinary(r)
	if r.Err != nil {
		return fmt.Errorf("scopes %q accepted from text as %d, but the binary decoder refuses a signer carrying them: %v", text, got, r.Err)
	}
	if s2.Scopes != got {
		return fmt.Errorf("scopes %q: %d after the binary round trip, %d before", text, s2.Scopes, got)
	}
	js, err := json.Marshal(&s)
	if err != nil {
		return fmt.Errorf("scopes %q accepted as %d: signer JSON: %v", text, got, err)
	}
	var s3 transaction.Signer
	if err := json.Unmarshal(js, &s3); err != nil || s3.Scopes != got {
		return fmt.Errorf("scopes %q accepted as %d: signer JSON %s reads back as %d, %v", text, got, js, s3.Scopes, err)
	}
	o.Label("scopes/accepted")
	if len(c.Names) > 1 {
		o.NonTrivial()
	}
	return nil
}

func init() {
	vt.Register("scopes", 0.02, genScopeCase, checkScopeCase)
}
