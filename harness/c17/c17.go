package c17

import (
	"bytes"
	"fmt"
	"reflect"
	"strings"

	"github.com/nspcc-dev/neo-go/pkg/core/transaction"
	"github.com/nspcc-dev/neo-go/pkg/io"
	"github.com/nspcc-dev/neo-go/pkg/util"
	"verifharness/vt"
)

// Finding keys used with vt.Known (see known_findings.json): a clause that fails with "[finding-key: K]" is
// counted as excluded once K is listed with status "known".
const keyVarint = "varint-ffff"

// refDiffKey classifies a difference between the reference encoding and the implementation's: it is the recorded
// varint finding when the two become equal once every "fd ff ff" length prefix of the reference is written the
// way WriteVarUint writes 0xffff ("fe ff ff 00 00").
func refDiffKey(ref, got []byte) string {
	if bytes.Equal(bytes.ReplaceAll(ref, []byte{0xfd, 0xff, 0xff}, []byte{0xfe, 0xff, 0xff, 0, 0}), got) {
		return keyVarint
	}
	return ""
}

// checkVar: for a length n the writer, the reader, io.GetVarSize and the Neo format agree.
func checkVar(c VarCase, o *vt.Obs) error {
	vd := &verdict{o: o}
	n := c.N
	w := io.NewBufBinWriter()
	w.WriteVarUint(n)
	got := w.Bytes()
	r := io.NewBinReaderFromBuf(got)
	if back := r.ReadVarUint(); r.Err != nil || back != n || r.Len() != 0 {
		return fmt.Errorf("ReadVarUint(WriteVarUint(%d)) = %d, %v", n, back, r.Err)
	}
	ref := putVarRef(nil, n, 0)
	if !bytes.Equal(got, ref) {
		if err := vd.fail(keyVarint, "WriteVarUint(%#x) writes %x, the minimal form of the format is %x (a reader of the format sees a non-minimal length prefix; io.GetVarSize says %d bytes)",
			n, got, ref, varSizeOf(n)); err != nil {
			return err
		}
	}
	if n <= 1<<31-1 {
		if s := io.GetVarSize(int(n)); s != len(got) {
			if err := vd.fail(keyVarint, "io.GetVarSize(%d) = %d, WriteVarUint writes %d bytes", n, s, len(got)); err != nil {
				return err
			}
		}
	}
	// unsigned arguments of every magnitude ("supports ints/uints")
	if s := io.GetVarSize(n); s != len(got) {
		if err := vd.fail("getvarsize-wide-unsigned", "io.GetVarSize(uint64(%d)) = %d, WriteVarUint writes %d bytes", n, s, len(got)); err != nil {
			return err
		}
	}
	if n <= 1<<63-1 {
		if s := io.GetVarSize(int64(n)); s != len(got) {
			if err := vd.fail("getvarsize-wide-unsigned", "io.GetVarSize(int64(%d)) = %d, WriteVarUint writes %d bytes", n, s, len(got)); err != nil {
				return err
			}
		}
	}
	// Byte strings, strings and hash lists of that length (bounded so that the case stays cheap).
	if n <= 0x10003 {
		b := make([]byte, n)
		w := io.NewBufBinWriter()
		w.WriteVarBytes(b)
		if s := io.GetVarSize(b); s != w.Len() {
			if err := vd.fail(keyVarint, "io.GetVarSize([]byte of len %d) = %d, WriteVarBytes writes %d bytes", n, s, w.Len()); err != nil {
				return err
			}
		}
		w = io.NewBufBinWriter()
		w.WriteString(string(b))
		if s := io.GetVarSize(string(b)); s != w.Len() {
			if err := vd.fail(keyVarint, "io.GetVarSize(string of len %d) = %d, WriteString writes %d bytes", n, s, w.Len()); err != nil {
				return err
			}
		}
		rd := io.NewBinReaderFromBuf(w.Bytes())
		if back := rd.ReadString(); rd.Err != nil || len(back) != int(n) {
			return fmt.Errorf("ReadString(WriteString(len %d)) gives len %d, %v", n, len(back), rd.Err)
		}
		// Slices of serializable values (what WriteArray accepts) are sized like they are written.
		nel := int(n % 5)
		for _, arr := range []any{
			make([]util.Uint160, nel), make([]util.Uint256, nel), make([]transaction.Witness, nel),
			make([]transaction.Signer, nel), valueAttrs(nel), ptrSigners(nel),
		} {
			w = io.NewBufBinWriter()
			w.WriteArray(arr)
			if s := io.GetVarSize(arr); s != w.Len() {
				if err := vd.fail("getvarsize-value-slices", "io.GetVarSize(%T of len %d) = %d, WriteArray writes %d bytes", arr, nel, s, w.Len()); err != nil {
					return err
				}
			}
		}
		o.Label("with-slices")
	}
	o.Labelf("form%d", len(got))
	if len(got) > 1 {
		o.NonTrivial()
	}
	return nil
}

func varSizeOf(n uint64) int {
	if n > 1<<31-1 {
		return -1
	}
	return io.GetVarSize(int(n))
}

func valueAttrs(n int) []transaction.Attribute {
	res := make([]transaction.Attribute, n)
	for i := range res {
		res[i] = transaction.Attribute{Type: transaction.ConflictsT, Value: &transaction.Conflicts{}}
	}
	return res
}

func ptrSigners(n int) []*transaction.Signer {
	res := make([]*transaction.Signer, n)
	for i := range res {
		res[i] = &transaction.Signer{}
	}
	return res
}

// derefPrint renders any value including unexported fields (read-only reflection, no Interface() calls).
func derefPrint(v any) string {
	var sb strings.Builder
	rawDump(&sb, reflect.ValueOf(v), 0)
	return sb.String()
}

func rawDump(sb *strings.Builder, v reflect.Value, depth int) {
	if !v.IsValid() || depth > 50 {
		sb.WriteString("nil")
		return
	}
	switch v.Kind() {
	case reflect.Pointer, reflect.Interface:
		if v.IsNil() {
			sb.WriteString("nil")
			return
		}
		rawDump(sb, v.Elem(), depth+1)
	case reflect.Struct:
		sb.WriteString(v.Type().Name() + "{")
		for i := 0; i < v.NumField(); i++ {
			sb.WriteString(v.Type().Field(i).Name + "=")
			rawDump(sb, v.Field(i), depth+1)
			sb.WriteByte(' ')
		}
		sb.WriteByte('}')
	case reflect.Slice, reflect.Array:
		if v.Type().Elem().Kind() == reflect.Uint8 {
			fmt.Fprintf(sb, "x'")
			for i := 0; i < v.Len(); i++ {
				fmt.Fprintf(sb, "%02x", v.Index(i).Uint())
			}
			sb.WriteByte('\'')
			return
		}
		sb.WriteByte('[')
		for i := 0; i < v.Len(); i++ {
			rawDump(sb, v.Index(i), depth+1)
			sb.WriteByte(' ')
		}
		sb.WriteByte(']')
	case reflect.Bool:
		fmt.Fprintf(sb, "%v", v.Bool())
	case reflect.Int, reflect.Int8, reflect.Int16, reflect.Int32, reflect.Int64:
		fmt.Fprintf(sb, "%d", v.Int())
	case reflect.Uint, reflect.Uint8, reflect.Uint16, reflect.Uint32, reflect.Uint64:
		fmt.Fprintf(sb, "%d", v.Uint())
	case reflect.String:
		fmt.Fprintf(sb, "%q", v.String())
	default:
		fmt.Fprintf(sb, "<%s>", v.Kind())
	}
}

func init() {
	vt.PropertyID = "C17"
	vt.Register("values", 1.0, genValueCase, checkValue)
	vt.Register("bytes", 2.0, genBytesCase, checkBytes)
	vt.Register("varint", 0.02, genVarCase, checkVar)
}
