package c17

import (
	_ "embed"
	"encoding/json"
	"fmt"
	"os"

	"github.com/nspcc-dev/neo-go/pkg/core/block"
	"github.com/nspcc-dev/neo-go/pkg/network"
	"verifharness/vt"
)

// Known-finding probes (DESIGN §1.4): for every finding key that known_findings.json lists as "known", one recorded
// (shrunk) case is replayed and "KNOWN-FINDING: ..." is printed when the recorded clause still fails. A key that
// is not listed is not probed: the generated checks fail on it by themselves.

//go:embed probes.json
var probesJSON []byte

type probe struct {
	Key   string          `json:"key"`
	Check string          `json:"check"`
	Case  json.RawMessage `json:"case"`
	What  string          `json:"what"`
}

// probing is true while the probes run (single goroutine, before the generated checks start).
var probing bool

// onExcluded is called by verdict.fail whenever a clause is excluded because of a recorded finding.
var onExcluded func(key string)

// merkleBlockFrame is the hand-made P2P frame behind alloc/merkleblock: CMDMerkleBlock with a transaction count
// of 2^63 (negative as int, so it passes the MaxTransactionsPerBlock test and disables the ReadArray limit) and a
// hash count of 4M: a 120-byte message from any peer allocates 128 MiB (32 bytes times whatever the count says).
func merkleBlockFrame() []byte {
	hb, _, _ := encodeKind(kindBy["header"], &block.Header{})
	p := append([]byte{}, hb...)
	p = append(p, 0xff, 0, 0, 0, 0, 0, 0, 0, 0x80)
	p = append(p, 0xfe, 0x00, 0x00, 0x40, 0x00)
	fr := []byte{0, byte(network.CMDMerkleBlock)}
	fr = putVarRef(fr, uint64(len(p)), 0)
	return append(fr, p...)
}

func runProbes() {
	if s := os.Getenv("VERIF_SHARD"); s != "" && s != "0" {
		return
	}
	var ps []probe
	if err := json.Unmarshal(probesJSON, &ps); err != nil {
		fmt.Println("C17 probes: bad probes.json:", err)
		return
	}
	mb, _ := json.Marshal(BytesCase{Kind: "msg", Raw: merkleBlockFrame()})
	ps = append(ps, probe{Key: "alloc/merkleblock", Check: "bytes", Case: mb, What: "CMDMerkleBlock frame of 120 bytes allocates 128 MiB"})
	probing = true
	defer func() { onExcluded, probing = nil, false }()
	for _, p := range ps {
		if !vt.Known(p.Key) {
			continue
		}
		hit := false
		onExcluded = func(key string) {
			if key == p.Key {
				hit = true
			}
		}
		var err error
		o := &vt.Obs{}
		func() {
			defer func() {
				if r := recover(); r != nil {
					err = fmt.Errorf("panic: %v", r)
				}
			}()
			switch p.Check {
			case "values":
				var c ValueCase
				if err = json.Unmarshal(p.Case, &c); err == nil {
					err = checkValue(c, o)
				}
			case "bytes":
				var c BytesCase
				if err = json.Unmarshal(p.Case, &c); err == nil {
					err = checkBytes(c, o)
				}
			case "txjson":
				var c TxJSONCase
				if err = json.Unmarshal(p.Case, &c); err == nil {
					err = checkTxJSONCase(c, o)
				}
			case "varint":
				var c VarCase
				if err = json.Unmarshal(p.Case, &c); err == nil {
					err = checkVar(c, o)
				}
			}
		}()
		switch {
		case hit:
			vt.KnownFinding(p.Key, p.What)
		case err != nil:
			fmt.Printf("C17 probe %s: recorded case now fails differently: %v\n", p.Key, firstLineOf(err.Error()))
		default:
			fmt.Printf("C17 probe %s: recorded case no longer violates its clause (fixed? remove the entry from known_findings.json)\n", p.Key)
		}
	}
}

func firstLineOf(s string) string {
	for i := 0; i < len(s); i++ {
		if s[i] == '\n' {
			return s[:i]
		}
	}
	return s
}
