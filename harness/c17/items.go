package c17

import (
	"encoding/binary"
	"math/big"
	"unicode/utf8"

	"github.com/nspcc-dev/neo-go/pkg/vm/stackitem"
)

// ---- reference varint (Neo spec: value<0xfd -> 1 byte, <=0xffff -> fd+2, <=0xffffffff -> fe+4, else ff+8) ----

// putVarRef appends n in the given form: 0 minimal, 1 fd-form, 2 fe-form, 3 ff-form (a form too small for n
// falls back to the minimal one).
func putVarRef(b []byte, n uint64, form int) []byte {
	min := 0
	switch {
	case n < 0xfd:
		min = 0
	case n <= 0xffff:
		min = 1
	case n <= 0xffffffff:
		min = 2
	default:
		min = 3
	}
	if form < min {
		form = min
	}
	switch form {
	case 0:
		return append(b, byte(n))
	case 1:
		return binary.LittleEndian.AppendUint16(append(b, 0xfd), uint16(n))
	case 2:
		return binary.LittleEndian.AppendUint32(append(b, 0xfe), uint32(n))
	default:
		return binary.LittleEndian.AppendUint64(append(b, 0xff), n)
	}
}

// readVarRef parses a varint at b[p:]; ok=false when truncated.
func readVarRef(b []byte, p int) (val uint64, size int, ok bool) {
	if p >= len(b) {
		return 0, 0, false
	}
	switch b[p] {
	case 0xfd:
		if p+3 > len(b) {
			return 0, 0, false
		}
		return uint64(binary.LittleEndian.Uint16(b[p+1:])), 3, true
	case 0xfe:
		if p+5 > len(b) {
			return 0, 0, false
		}
		return uint64(binary.LittleEndian.Uint32(b[p+1:])), 5, true
	case 0xff:
		if p+9 > len(b) {
			return 0, 0, false
		}
		return binary.LittleEndian.Uint64(b[p+1:]), 9, true
	}
	return uint64(b[p]), 1, true
}

// ---- stack item builder -----------------------------------------------------------------------------------

type itemOpts struct {
	plain   bool // only items for which plain ToJSON/FromJSON is lossless
	invalid bool // allow Interop and Pointer
	budget  int  // remaining number of items to create
	done    []stackitem.Item
}

var (
	two255    = new(big.Int).Lsh(big.NewInt(1), 255)
	maxVMInt  = new(big.Int).Sub(two255, big.NewInt(1))
	minVMInt  = new(big.Int).Neg(two255)
	two53     = new(big.Int).Lsh(big.NewInt(1), 53)
	jsonSafe  = two53
	utf8Blobs = []string{"", "a", "hello", "ключ", "名前", "a+b", "q\"t", "back\\slash", "\u0001ctl", "<tag>&", "sp ace", "0", "12", "true", "null"}
)

func (t *tape) bigInt(plain bool) *big.Int {
	if plain {
		switch t.n(8) {
		case 0:
			return big.NewInt(0)
		case 1:
			return big.NewInt(int64(t.n(300)) - 150)
		case 2:
			return new(big.Int).Set(two53)
		case 3:
			return new(big.Int).Neg(two53)
		case 4:
			return new(big.Int).Sub(two53, big.NewInt(int64(1+t.n(3))))
		default:
			v := new(big.Int).SetUint64(t.u64() >> 11) // < 2^53
			if t.bool() {
				v.Neg(v)
			}
			return v
		}
	}
	switch t.n(12) {
	case 0:
		return big.NewInt(0)
	case 1:
		return big.NewInt(int64(t.n(300)) - 150)
	case 2:
		return new(big.Int).Set(maxVMInt)
	case 3:
		return new(big.Int).Set(minVMInt)
	case 4:
		return big.NewInt(127 + int64(t.n(3)))
	case 5:
		return big.NewInt(-129 + int64(t.n(3)))
	case 6:
		return big.NewInt(32767 + int64(t.n(3)))
	case 7:
		v := new(big.Int).Lsh(big.NewInt(1), uint(t.n(255)))
		if t.bool() {
			v.Neg(v)
		}
		return v
	case 8:
		v := new(big.Int).Add(two53, big.NewInt(int64(t.n(5))-2))
		return v
	default:
		nb := t.rng(1, 32)
		b := t.fill(nb)
		v := new(big.Int).SetBytes(b)
		if v.Cmp(maxVMInt) > 0 {
			v.Rsh(v, 1)
		}
		if t.bool() {
			v.Neg(v)
		}
		return v
	}
}

func (t *tape) itemBytes(plain bool, max int) []byte {
	if plain {
		return []byte(utf8Blobs[t.n(len(utf8Blobs))])
	}
	if t.n(3) == 0 {
		return []byte(utf8Blobs[t.n(len(utf8Blobs))])
	}
	return t.blob(max)
}

func (t *tape) leaf(o *itemOpts) stackitem.Item {
	o.budget--
	k := 6
	if !o.plain {
		k = 7
	}
	if o.invalid {
		k = 9
	}
	switch t.n(k) {
	case 0:
		return stackitem.Null{}
	case 1:
		return stackitem.NewBool(t.bool())
	case 2, 3:
		return stackitem.NewBigInteger(t.bigInt(o.plain))
	case 4, 5:
		return stackitem.NewByteArray(t.itemBytes(o.plain, 700))
	case 6:
		return stackitem.NewBuffer(t.itemBytes(false, 700))
	case 7:
		return stackitem.NewInterop(nil)
	default:
		return stackitem.NewPointer(t.n(300), nil)
	}
}

func (t *tape) mapKey(o *itemOpts) stackitem.Item {
	o.budget--
	if o.plain {
		return stackitem.NewByteArray([]byte(utf8Blobs[t.n(len(utf8Blobs))]))
	}
	switch t.n(4) {
	case 0:
		return stackitem.NewBool(t.bool())
	case 1:
		return stackitem.NewBigInteger(t.bigInt(false))
	case 2:
		return stackitem.NewByteArray([]byte(utf8Blobs[t.n(len(utf8Blobs))]))
	default:
		n := t.n(stackitem.MaxKeySize + 1)
		return stackitem.NewByteArray(t.fill(n))
	}
}

func (t *tape) tree(o *itemOpts, depth int) stackitem.Item {
	if depth <= 0 || o.budget <= 0 || t.n(3) == 0 {
		return t.leaf(o)
	}
	if len(o.done) > 0 && t.n(6) == 0 {
		o.budget--
		return o.done[t.n(len(o.done))] // shared sub-item (already complete, so no cycle)
	}
	o.budget--
	var res stackitem.Item
	kinds := 3
	if o.plain {
		kinds = 2
	}
	switch t.n(kinds) {
	case 0:
		n := t.n(5)
		arr := make([]stackitem.Item, 0, n)
		for i := 0; i < n; i++ {
			arr = append(arr, t.tree(o, depth-1))
		}
		res = stackitem.NewArray(arr)
	case 1:
		n := t.n(4)
		m := stackitem.NewMap()
		for i := 0; i < n; i++ {
			k := t.mapKey(o)
			m.Add(k, t.tree(o, depth-1))
		}
		res = m
	default:
		n := t.n(5)
		arr := make([]stackitem.Item, 0, n)
		for i := 0; i < n; i++ {
			arr = append(arr, t.tree(o, depth-1))
		}
		res = stackitem.NewStruct(arr)
	}
	o.done = append(o.done, res)
	return res
}

// buildItem draws one stack item; shape classes: leaf, small tree, wide, deep, big, shared.
func buildItem(t *tape, plain, invalid bool) stackitem.Item {
	o := &itemOpts{plain: plain, invalid: invalid, budget: 60}
	switch t.n(12) {
	case 10, 11:
		return buildSharedStraddle(t, plain)
	case 0:
		return t.leaf(o)
	case 1, 2, 3, 4:
		return t.tree(o, 4)
	case 5: // wide: element count around the 2048 limit (the array itself counts)
		n := []int{0, 1, 16, 252, 253, 2046, 2047, 2048, 2049}[t.n(9)]
		el := t.leaf(o)
		same := t.bool()
		arr := make([]stackitem.Item, n)
		for i := range arr {
			if same {
				arr[i] = el
			} else {
				arr[i] = stackitem.NewBool(i%2 == 0)
			}
		}
		if t.bool() && !plain {
			return stackitem.NewStruct(arr)
		}
		return stackitem.NewArray(arr)
	case 6: // deep nesting
		d := []int{8, 9, 10, 11, 12, 40, 300, 2047, 2048}[t.n(9)]
		var it stackitem.Item = t.leaf(o)
		for i := 0; i < d; i++ {
			if !plain && t.n(4) == 0 {
				it = stackitem.NewStruct([]stackitem.Item{it})
			} else if t.n(4) == 0 {
				m := stackitem.NewMap()
				m.Add(stackitem.NewByteArray([]byte("k")), it)
				it = m
			} else {
				it = stackitem.NewArray([]stackitem.Item{it})
			}
		}
		return it
	case 7: // big byte strings around MaxSize
		n := []int{0xffff - 1, 0xffff, 0x10000, stackitem.MaxSize - 6, stackitem.MaxSize - 5, stackitem.MaxSize - 4, stackitem.MaxSize, stackitem.MaxSize + 1}[t.n(8)]
		b := make([]byte, n)
		for i := range b {
			b[i] = 'a'
		}
		if plain || t.bool() {
			return stackitem.NewByteArray(b)
		}
		return stackitem.NewBuffer(b)
	case 8: // shared: one compound item referenced many times (serialized size multiplies)
		inner := t.tree(o, 2)
		n := t.n(40)
		arr := make([]stackitem.Item, n)
		for i := range arr {
			arr[i] = inner
		}
		return stackitem.NewArray([]stackitem.Item{stackitem.NewArray(arr), inner})
	default:
		o.budget = 200
		return t.tree(o, 7)
	}
}

// ---- independent reference: item statistics and serialization ---------------------------------------------

type itemStats struct {
	count      int  // items, shared ones counted at every occurrence
	depth      int  // nesting of containers
	unser      bool // contains Interop / Pointer / nil
	plainLossy bool // plain JSON is documented/obviously lossy for it (Buffer, Struct, non-string keys, non-UTF8, big ints)
	overflow   bool // count exceeded a sane bound (recursion cut)
	shared     bool // some compound object is referenced more than once
	seen       map[stackitem.Item]struct{}
}

func (st *itemStats) note(it stackitem.Item) {
	if st.seen == nil {
		st.seen = map[stackitem.Item]struct{}{}
	}
	if _, ok := st.seen[it]; ok {
		st.shared = true
	}
	st.seen[it] = struct{}{}
}

func statItem(it stackitem.Item, d int, st *itemStats) {
	st.count++
	if st.count > 1_000_000 {
		st.overflow = true
		return
	}
	switch v := it.(type) {
	case nil:
		st.unser = true
		st.plainLossy = true
	case *stackitem.Interop, *stackitem.Pointer:
		st.unser = true
		st.plainLossy = true
	case *stackitem.Buffer:
		st.plainLossy = true
	case *stackitem.ByteArray:
		if !utf8.Valid(v.Value().([]byte)) {
			st.plainLossy = true
		}
	case *stackitem.BigInteger:
		if v.Big().CmpAbs(jsonSafe) > 0 {
			st.plainLossy = true
		}
	case *stackitem.Struct:
		st.note(it)
		st.plainLossy = true
		if d+1 > st.depth {
			st.depth = d + 1
		}
		for _, e := range v.Value().([]stackitem.Item) {
			statItem(e, d+1, st)
		}
	case *stackitem.Array:
		st.note(it)
		if d+1 > st.depth {
			st.depth = d + 1
		}
		for _, e := range v.Value().([]stackitem.Item) {
			statItem(e, d+1, st)
		}
	case *stackitem.Map:
		st.note(it)
		if d+1 > st.depth {
			st.depth = d + 1
		}
		for _, e := range v.Value().([]stackitem.MapElement) {
			if _, ok := e.Key.(*stackitem.ByteArray); !ok {
				st.plainLossy = true
			}
			statItem(e.Key, d+1, st)
			statItem(e.Value, d+1, st)
		}
	}
}

// refBigBytes is the minimal little-endian two's complement form (zero -> empty), the documented integer format.
func refBigBytes(v *big.Int) []byte {
	if v.Sign() == 0 {
		return nil
	}
	// find minimal n with -(2^(8n-1)) <= v < 2^(8n-1)
	n := 1
	for {
		lim := new(big.Int).Lsh(big.NewInt(1), uint(8*n-1))
		if v.Cmp(lim) < 0 && v.Cmp(new(big.Int).Neg(lim)) >= 0 {
			break
		}
		n++
	}
	x := new(big.Int).Set(v)
	if x.Sign() < 0 {
		x.Add(x, new(big.Int).Lsh(big.NewInt(1), uint(8*n)))
	}
	be := x.Bytes()
	out := make([]byte, n)
	for i := 0; i < len(be); i++ {
		out[i] = be[len(be)-1-i]
	}
	return out
}

// hostile drives non-canonical choices of refSerialize; nil means canonical.
type hostile struct {
	t     *tape
	every int // 1/every of the choice points deviate
	used  int // number of deviations actually made
}

func (h *hostile) pick() bool {
	if h == nil {
		return false
	}
	if h.t.n(h.every) == 0 {
		h.used++
		return true
	}
	return false
}

func (h *hostile) varint(b []byte, n uint64) []byte {
	if h.pick() {
		return putVarRef(b, n, 1+h.t.n(3))
	}
	return putVarRef(b, n, 0)
}

// refSerialize is an independent encoder of the documented item format. With h != nil it emits non-minimal
// varints, padded integers, non-0/1 booleans and duplicate map keys at drawn points. ok=false for unserializable.
func refSerialize(b []byte, it stackitem.Item, h *hostile, protected bool) ([]byte, bool) {
	if len(b) > 4*stackitem.MaxSize {
		return b, true // enough to be over every limit; stop growing
	}
	switch v := it.(type) {
	case nil:
		if !protected {
			return b, false
		}
		return append(b, byte(stackitem.InvalidT)), true
	case stackitem.Null:
		return append(b, byte(stackitem.AnyT)), true
	case stackitem.Bool:
		b = append(b, byte(stackitem.BooleanT))
		if v {
			if h.pick() {
				return append(b, byte(2+h.t.n(254))), true
			}
			return append(b, 1), true
		}
		return append(b, 0), true
	case *stackitem.BigInteger:
		b = append(b, byte(stackitem.IntegerT))
		data := refBigBytes(v.Big())
		if h.pick() {
			pad := byte(0)
			if v.Big().Sign() < 0 {
				pad = 0xff
			}
			n := h.t.rng(1, 33-len(data)) // may reach 33 bytes in total, which the decoder must reject
			for i := 0; i < n; i++ {
				data = append(data, pad)
			}
		}
		b = h.varint(b, uint64(len(data)))
		return append(b, data...), true
	case *stackitem.ByteArray:
		b = append(b, byte(stackitem.ByteArrayT))
		d := v.Value().([]byte)
		b = h.varint(b, uint64(len(d)))
		return append(b, d...), true
	case *stackitem.Buffer:
		b = append(b, byte(stackitem.BufferT))
		d := v.Value().([]byte)
		b = h.varint(b, uint64(len(d)))
		return append(b, d...), true
	case *stackitem.Interop:
		if !protected {
			return b, false
		}
		return append(b, byte(stackitem.InteropT)), true
	case *stackitem.Pointer:
		if !protected {
			return b, false
		}
		b = append(b, byte(stackitem.PointerT))
		return h.varint(b, uint64(v.Position())), true
	case *stackitem.Array, *stackitem.Struct:
		if _, ok := v.(*stackitem.Array); ok {
			b = append(b, byte(stackitem.ArrayT))
		} else {
			b = append(b, byte(stackitem.StructT))
		}
		els := v.Value().([]stackitem.Item)
		b = h.varint(b, uint64(len(els)))
		for _, e := range els {
			var ok bool
			if b, ok = refSerialize(b, e, h, protected); !ok {
				return b, false
			}
		}
		return b, true
	case *stackitem.Map:
		b = append(b, byte(stackitem.MapT))
		els := v.Value().([]stackitem.MapElement)
		dup := len(els) > 0 && h.pick()
		n := len(els)
		if dup {
			n++
		}
		b = h.varint(b, uint64(n))
		for i, e := range els {
			var ok bool
			if dup && i == 0 {
				// an earlier entry with the same key and another value: the decoder keeps the later one
				if b, ok = refSerialize(b, e.Key, nil, protected); !ok {
					return b, false
				}
				b = append(b, byte(stackitem.AnyT))
			}
			if b, ok = refSerialize(b, e.Key, h, protected); !ok {
				return b, false
			}
			if b, ok = refSerialize(b, e.Value, h, protected); !ok {
				return b, false
			}
		}
		return b, true
	}
	return b, false
}

// mkCompound makes ONE compound object of the given kind (0 Array, 1 Map, 2 Struct) that holds `entries` sub-items
// (a Map gets entries/2 pairs, so entries is rounded down to an even number there) and returns it with the number
// of items it stands for (itself included).
func mkCompound(kind, entries int, sub func(i int) stackitem.Item) (stackitem.Item, int) {
	switch kind {
	case 1:
		m := stackitem.NewMap()
		cnt := 1
		for i := 0; i < entries/2; i++ {
			v := sub(i)
			var st itemStats
			statItem(v, 0, &st)
			m.Add(stackitem.NewByteArray([]byte("k"+itoa(i))), v)
			cnt += 1 + st.count
		}
		return m, cnt
	default:
		arr := make([]stackitem.Item, entries)
		cnt := 1
		for i := range arr {
			arr[i] = sub(i)
			var st itemStats
			statItem(arr[i], 0, &st)
			cnt += st.count
		}
		if kind == 2 {
			return stackitem.NewStruct(arr), cnt
		}
		return stackitem.NewArray(arr), cnt
	}
}

func itoa(i int) string {
	if i == 0 {
		return "0"
	}
	var b []byte
	for ; i > 0; i /= 10 {
		b = append([]byte{byte('0' + i%10)}, b...)
	}
	return string(b)
}

// buildSharedStraddle: one compound object (Array, Map or Struct) referenced many times inside one item, with the total
// number of items (every reference counts in full, as the deserializer will see it) placed exactly at a drawn
// target around MaxSerialized. The serializers keep a cache of compounds already written and charge the cached item
// count for every further reference; this is the shape where that accounting decides acceptance.
func buildSharedStraddle(t *tape, plain bool) stackitem.Item {
	kinds := 3
	if plain {
		kinds = 2 // Array, Map
	}
	target := stackitem.MaxSerialized + []int{0, -1, 1, -2, 2, -3, 3, -700, 5}[t.n(9)]
	innerKind := t.n(kinds)
	leaf := func(int) stackitem.Item { return stackitem.NewBool(true) }
	var inner stackitem.Item
	var c int
	switch t.n(5) {
	case 0: // smallest compound: one entry / one pair
		inner, c = mkCompound(innerKind, 1+innerKind%2, leaf)
	case 1: // a few entries
		inner, c = mkCompound(innerKind, 2+t.n(9), leaf)
	case 2: // big compound referenced 2-3 times
		inner, c = mkCompound(innerKind, 600+t.n(130), leaf)
	case 3: // empty compound
		inner, c = mkCompound(innerKind, 0, leaf)
	default: // nested sharing: the shared compound itself consists of references to another shared compound
		inner2, _ := mkCompound(t.n(kinds), 1+t.n(4), leaf)
		inner, c = mkCompound(innerKind, 2+t.n(12), func(int) stackitem.Item { return inner2 })
	}
	outerKind := t.n(kinds)
	per := c // items one reference costs in the outer container
	if outerKind == 1 {
		per = c + 1 // plus the key
	}
	k := (target - 1) / per
	if k > 1 && t.n(4) == 0 {
		k -= t.n(k/2 + 1) // sometimes fewer references, rest filled with plain leaves
	}
	rest := target - 1 - k*per
	var outer stackitem.Item
	switch outerKind {
	case 1:
		m := stackitem.NewMap()
		for i := 0; i < k; i++ {
			m.Add(stackitem.NewByteArray([]byte("r"+itoa(i))), inner)
		}
		// a map entry costs two items: fill an odd remainder through one more level
		for i := 0; i+1 < rest; i += 2 {
			m.Add(stackitem.NewByteArray([]byte("f"+itoa(i))), stackitem.Null{})
		}
		outer = m
	default:
		arr := make([]stackitem.Item, 0, k+rest)
		mixed := t.bool()
		for i := 0; i < k; i++ {
			arr = append(arr, inner)
			if mixed && rest > 0 { // references interleaved with fresh leaves
				arr = append(arr, stackitem.Null{})
				rest--
			}
		}
		for ; rest > 0; rest-- {
			arr = append(arr, stackitem.Null{})
		}
		if outerKind == 2 {
			outer = stackitem.NewStruct(arr)
		} else {
			outer = stackitem.NewArray(arr)
		}
	}
	if t.n(4) == 0 && !plain {
		// one more level, so that the shared object is met again after the container that cached it is closed
		return stackitem.NewStruct([]stackitem.Item{outer})
	}
	return outer
}
