package c17

import (
	"testing"

	"verifharness/vt"
)

func TestProp(t *testing.T) {
	runProbes()
	vt.RunAll(t, 20000)
}

func TestReplay(t *testing.T) { vt.ReplayAll(t) }
