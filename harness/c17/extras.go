package c17

import (
	"bytes"
	"encoding/binary"
	"encoding/json"
	"errors"
	"fmt"
	gio "io"

	"github.com/nspcc-dev/dbft"
	"github.com/nspcc-dev/neo-go/pkg/config/netmode"
	"github.com/nspcc-dev/neo-go/pkg/consensus"
	"github.com/nspcc-dev/neo-go/pkg/core/block"
	"github.com/nspcc-dev/neo-go/pkg/core/dao"
	"github.com/nspcc-dev/neo-go/pkg/core/mpt"
	"github.com/nspcc-dev/neo-go/pkg/core/state"
	"github.com/nspcc-dev/neo-go/pkg/core/storage"
	"github.com/nspcc-dev/neo-go/pkg/core/transaction"
	"github.com/nspcc-dev/neo-go/pkg/crypto/keys"
	"github.com/nspcc-dev/neo-go/pkg/io"
	"github.com/nspcc-dev/neo-go/pkg/network"
	"github.com/nspcc-dev/neo-go/pkg/network/payload"
	"github.com/nspcc-dev/neo-go/pkg/smartcontract/manifest"
	"github.com/nspcc-dev/neo-go/pkg/util"
	"github.com/nspcc-dev/neo-go/pkg/vm/stackitem"
)

func storageNew() storage.Store { return storage.NewMemoryStore() }

// ---- P2P messages ---------------------------------------------------------------------------------------------

var msgCommands = []network.CommandType{
	network.CMDTX, network.CMDBlock, network.CMDVersion, network.CMDVerack, network.CMDGetAddr, network.CMDAddr,
	network.CMDPing, network.CMDPong, network.CMDGetHeaders, network.CMDHeaders, network.CMDGetBlocks, network.CMDMempool,
	network.CMDInv, network.CMDGetData, network.CMDGetBlockByIndex, network.CMDNotFound, network.CMDExtensible,
	network.CMDP2PNotaryRequest, network.CMDGetMPTData, network.CMDMPTData, network.CMDFilterClear, network.CMDMerkleBlock,
}

// buildMessage draws a message of any decodable command. Flags=Compressed on the drawn value means "the sender
// allows compression" (whether the frame ends up compressed then depends on the payload size and type).
func buildMessage(t *tape, sr bool) *network.Message {
	cmd := msgCommands[t.n(len(msgCommands))]
	var p payload.Payload
	switch cmd {
	case network.CMDTX:
		p = buildTx(t, txOpts{scriptMax: 3000})
	case network.CMDBlock:
		p = buildBlock(t, sr)
	case network.CMDVersion:
		p = buildVersion(t)
	case network.CMDVerack, network.CMDGetAddr, network.CMDMempool, network.CMDFilterClear:
		p = payload.NewNullPayload()
	case network.CMDAddr:
		p = buildAddressList(t)
	case network.CMDPing, network.CMDPong:
		p = &payload.Ping{LastBlockIndex: t.u32(), Timestamp: t.u32(), Nonce: t.u32()}
	case network.CMDGetHeaders, network.CMDGetBlockByIndex:
		p = payload.NewGetBlockByIndex(t.u32(), buildCount(t, payload.MaxHeadersAllowed))
	case network.CMDHeaders:
		p = buildHeaders(t, sr)
	case network.CMDGetBlocks:
		p = payload.NewGetBlocks(t.u256(), buildCount(t, 32767))
	case network.CMDInv, network.CMDGetData, network.CMDNotFound:
		p = buildInventory(t)
	case network.CMDExtensible:
		p = buildExtensible(t)
	case network.CMDP2PNotaryRequest:
		p = buildNotaryRequest(t)
	case network.CMDGetMPTData:
		p = payload.NewMPTInventory(buildHashes(t, payload.MaxMPTHashesCount))
	case network.CMDMPTData:
		p = buildMPTData(t)
	case network.CMDMerkleBlock:
		p = buildMerkleBlockSR(t, sr)
	}
	m := network.NewMessage(cmd, p)
	m.StateRootInHeader = sr
	if t.n(3) != 0 {
		m.Flags = network.Compressed
	}
	return m
}

// lz4Literal wraps data into a valid LZ4 block consisting of one literal-only sequence, preceded by the 4-byte
// declared length used by the P2P framing.
func lz4Literal(data []byte, declared uint32) []byte {
	out := binary.LittleEndian.AppendUint32(nil, declared)
	n := len(data)
	if n < 15 {
		out = append(out, byte(n<<4))
	} else {
		out = append(out, 0xf0)
		rest := n - 15
		for rest >= 255 {
			out = append(out, 255)
			rest -= 255
		}
		out = append(out, byte(rest))
	}
	return append(out, data...)
}

// lz4Block decodes an LZ4 block (reference decoder of the block format, used only to tell whether a compressed
// frame carried the canonical payload bytes). ok=false on malformed input.
func lz4Block(src []byte, max int) ([]byte, bool) {
	var dst []byte
	i := 0
	for i < len(src) {
		tok := src[i]
		i++
		ll := int(tok >> 4)
		if ll == 15 {
			for {
				if i >= len(src) {
					return nil, false
				}
				c := src[i]
				i++
				ll += int(c)
				if c != 255 {
					break
				}
			}
		}
		if i+ll > len(src) || len(dst)+ll > max {
			return nil, false
		}
		dst = append(dst, src[i:i+ll]...)
		i += ll
		if i >= len(src) {
			return dst, true
		}
		if i+2 > len(src) {
			return nil, false
		}
		off := int(src[i]) | int(src[i+1])<<8
		i += 2
		ml := int(tok & 15)
		if ml == 15 {
			for {
				if i >= len(src) {
					return nil, false
				}
				c := src[i]
				i++
				ml += int(c)
				if c != 255 {
					break
				}
			}
		}
		ml += 4
		if off == 0 || off > len(dst) || len(dst)+ml > max {
			return nil, false
		}
		for j := 0; j < ml; j++ {
			dst = append(dst, dst[len(dst)-off])
		}
	}
	return dst, true
}

// framePayload extracts the (decompressed) payload bytes of a P2P frame.
func framePayload(fr []byte) ([]byte, bool) {
	if len(fr) < 3 {
		return nil, false
	}
	l, sz, ok := readVarRef(fr, 2)
	if !ok || uint64(2+sz)+l > uint64(len(fr)) {
		return nil, false
	}
	body := fr[2+sz : 2+sz+int(l)]
	if fr[0]&byte(network.Compressed) == 0 {
		return body, true
	}
	if len(body) < 4 {
		return nil, false
	}
	n := int(binary.LittleEndian.Uint32(body))
	if n > payload.MaxSize {
		return nil, false
	}
	out, ok := lz4Block(body[4:], n)
	return out, ok && len(out) == n
}

// ---- value-level extra laws -------------------------------------------------------------------------------------

// Reference hashes: the signed parts of header, extensible payload and state root written out by hand from the
// protocol's field lists, hashed with SHA-256.
func headerExtra(v any, e []byte, lab func(string)) error {
	h := v.(*block.Header)
	var b []byte
	b = binary.LittleEndian.AppendUint32(b, h.Version)
	b = append(b, h.PrevHash[:]...)
	b = append(b, h.MerkleRoot[:]...)
	b = binary.LittleEndian.AppendUint64(b, h.Timestamp)
	b = binary.LittleEndian.AppendUint64(b, h.Nonce)
	b = binary.LittleEndian.AppendUint32(b, h.Index)
	b = append(b, h.PrimaryIndex)
	b = append(b, h.NextConsensus[:]...)
	if h.StateRootEnabled {
		b = append(b, h.PrevStateRoot[:]...)
	}
	if want := sha(b); want != h.Hash() {
		return fmt.Errorf("Hash() %s is not SHA-256 of the hashable fields (%s)", hx(h.Hash()), hx(want))
	}
	// the full encoding is those fields, one witness count byte and the witness
	full := append(append([]byte{}, b...), 1)
	full = putVarRef(full, uint64(len(h.Script.InvocationScript)), 0)
	full = append(full, h.Script.InvocationScript...)
	full = putVarRef(full, uint64(len(h.Script.VerificationScript)), 0)
	full = append(full, h.Script.VerificationScript...)
	if !bytes.Equal(full, e) {
		return fmt.Errorf("encoding differs from the protocol's field list: %s", firstDiff(fmt.Sprintf("%x", e), fmt.Sprintf("%x", full)))
	}
	return nil
}

func extensibleExtra(v any, e []byte, lab func(string)) error {
	x := v.(*payload.Extensible)
	var b []byte
	b = putVarRef(b, uint64(len(x.Category)), 0)
	b = append(b, x.Category...)
	b = binary.LittleEndian.AppendUint32(b, x.ValidBlockStart)
	b = binary.LittleEndian.AppendUint32(b, x.ValidBlockEnd)
	b = append(b, x.Sender[:]...)
	b = putVarRef(b, uint64(len(x.Data)), 0)
	b = append(b, x.Data...)
	c := *x
	if want := sha(b); want != (&c).Hash() {
		return fmt.Errorf("Hash() %s is not SHA-256 of the unsigned fields (%s)", hx((&c).Hash()), hx(want))
	}
	if !bytes.HasPrefix(e, b) {
		return fmt.Errorf("encoding does not start with the unsigned fields")
	}
	return nil
}

func mptRootExtra(v any, e []byte, lab func(string)) error {
	r := v.(*state.MPTRoot)
	b := []byte{r.Version}
	b = binary.LittleEndian.AppendUint32(b, r.Index)
	b = append(b, r.Root[:]...)
	if want := sha(b); want != r.Hash() {
		return fmt.Errorf("Hash() %s is not SHA-256 of version, index and root (%s)", hx(r.Hash()), hx(want))
	}
	if !bytes.HasPrefix(e, b) {
		return fmt.Errorf("encoding does not start with the unsigned fields")
	}
	return nil
}

// txExtra: the hash/size of a transaction is the same on every path it can arrive by.
func txExtra(v any, e []byte, lab func(string)) error {
	tx := v.(*transaction.Transaction)
	want := txIdent(tx)
	if got := sha(mustHashable(tx)); got != tx.Hash() {
		return fmt.Errorf("Hash() %x is not SHA-256 of the hashable part %x", tx.Hash(), got)
	}
	for _, p := range kindBy["tx"].alt {
		got, err := p.dec(e)
		if err != nil {
			return fmt.Errorf("path %s rejects the encoding of a valid transaction: %v", p.name, err)
		}
		if got != want {
			return fmt.Errorf("path %s: %s, built in memory: %s", p.name, got, want)
		}
	}
	// The same through the DAO together with an execution result, and through a notary request.
	d := dao.NewSimple(storageNew(), false)
	if err := d.StoreAsTransaction(tx, 42, nil); err != nil {
		return fmt.Errorf("StoreAsTransaction: %v", err)
	}
	got, h, err := d.GetTransaction(tx.Hash())
	if err != nil {
		return fmt.Errorf("GetTransaction: %v", err)
	}
	if h != 42 || txIdent(got) != want || dump(got) != dump(tx) {
		return fmt.Errorf("dao read-back differs: height %d, %s vs %s", h, txIdent(got), want)
	}
	if len(tx.Attributes) > 0 {
		lab("tx-with-attrs")
	}
	// An object that held another transaction before (decoders fill the receiver): hash and size are those of the
	// bytes decoded last.
	reused := new(transaction.Transaction)
	r := io.NewBinReaderFromBuf(smallTxBytes)
	reused.DecodeBinary(r)
	if r.Err != nil {
		return fmt.Errorf("harness: the small transaction does not decode: %v", r.Err)
	}
	_, _ = reused.Hash(), reused.Size()
	r = io.NewBinReaderFromBuf(e)
	reused.DecodeBinary(r)
	if r.Err != nil {
		return fmt.Errorf("decoding into a used Transaction object fails: %v", r.Err)
	}
	if got := txIdent(reused); got != want {
		return &keyedError{key: "tx-reused-object-stale-size", msg: fmt.Sprintf("a Transaction object that held a %d-byte transaction before and now decoded this %d-byte one reports %s, a fresh object reports %s", len(smallTxBytes), len(e), got, want)}
	}
	// ... the same for the other decoders that fill the receiver: the signed part alone, and JSON
	used := func() *transaction.Transaction {
		u := new(transaction.Transaction)
		r := io.NewBinReaderFromBuf(smallTxBytes)
		u.DecodeBinary(r)
		_, _ = u.Hash(), u.Size()
		return u
	}
	fresh, u := new(transaction.Transaction), used()
	hf := mustHashable(tx)
	if err1, err2 := fresh.DecodeHashableFields(hf), u.DecodeHashableFields(hf); err1 != nil || err2 != nil {
		return fmt.Errorf("DecodeHashableFields of the signed part of a valid transaction: fresh object %v, used object %v", err1, err2)
	}
	if a, b := txIdent(u), txIdent(fresh); a != b {
		return &keyedError{key: "tx-reused-object-stale-size", msg: fmt.Sprintf("DecodeHashableFields into a Transaction object that held another transaction before reports %s, into a fresh object %s", a, b)}
	}
	if j, err := json.Marshal(tx); err == nil {
		fresh, u = new(transaction.Transaction), used()
		err1, err2 := json.Unmarshal(j, fresh), json.Unmarshal(j, u)
		if (err1 == nil) != (err2 == nil) {
			return &keyedError{key: "tx-reused-object-stale-size", msg: fmt.Sprintf("UnmarshalJSON of a transaction: into a fresh object %v, into an object that held another transaction before: %v", err1, err2)}
		}
		if err1 == nil {
			if a, b := txIdent(u), txIdent(fresh); a != b {
				return &keyedError{key: "tx-reused-object-stale-size", msg: fmt.Sprintf("UnmarshalJSON into a used Transaction object reports %s, into a fresh object %s", a, b)}
			}
		}
	}
	return nil
}

var smallTxBytes = func() []byte {
	tx := transaction.New([]byte{0x40}, 0)
	tx.Signers = []transaction.Signer{{Account: util.Uint160{1}}}
	tx.Scripts = []transaction.Witness{{InvocationScript: []byte{}, VerificationScript: []byte{}}}
	return mustEnc(tx)
}()

func mustEnc(v io.Serializable) []byte {
	w := io.NewBufBinWriter()
	v.EncodeBinary(w.BinWriter)
	if w.Err != nil {
		panic(w.Err)
	}
	return w.Bytes()
}

func mustHashable(tx *transaction.Transaction) []byte {
	b, err := tx.EncodeHashableFields()
	if err != nil {
		panic(err)
	}
	return b
}

func blockExtra(sr bool) func(v any, e []byte, lab func(string)) error {
	return func(v any, e []byte, lab func(string)) error {
		b := v.(*block.Block)
		want := blockIdent(b)
		if err := headerExtra(&b.Header, mustEnc(&b.Header), lab); err != nil {
			return err
		}
		if got := io.GetVarSize(b); got != len(e) || b.GetExpectedBlockSize() != len(e) {
			return fmt.Errorf("GetVarSize %d / GetExpectedBlockSize %d, encoding has %d bytes", got, b.GetExpectedBlockSize(), len(e))
		}
		for _, p := range kindBy["block"+map[bool]string{false: "", true: "-sr"}[sr]].alt {
			got, err := p.dec(e)
			if err != nil {
				return fmt.Errorf("path %s rejects the encoding of a valid block: %v", p.name, err)
			}
			if got != want {
				return fmt.Errorf("path %s: %s, built in memory: %s", p.name, got, want)
			}
		}
		d := dao.NewSimple(storageNew(), sr)
		if err := d.StoreAsBlock(b, nil, nil); err != nil {
			return fmt.Errorf("StoreAsBlock: %v", err)
		}
		got, err := d.GetBlock(b.Hash())
		if err != nil {
			return fmt.Errorf("GetBlock: %v", err)
		}
		if !got.Trimmed || trimmedIdent(got) != trimmedIdent(b) || dump(&got.Header) != dump(&b.Header) {
			return fmt.Errorf("dao read-back differs: %s vs %s", trimmedIdent(got), trimmedIdent(b))
		}
		for i, tx := range b.Transactions {
			if err := d.StoreAsTransaction(tx, b.Index, nil); err != nil {
				return fmt.Errorf("StoreAsTransaction: %v", err)
			}
			rt, _, err := d.GetTransaction(got.Transactions[i].Hash())
			if err != nil {
				return fmt.Errorf("GetTransaction(hash listed in the stored block): %v", err)
			}
			if txIdent(rt) != txIdent(tx) {
				return fmt.Errorf("tx %d read back as %s, was %s", i, txIdent(rt), txIdent(tx))
			}
		}
		// Header stored alone reads back as a transaction-less trimmed block.
		d2 := dao.NewSimple(storageNew(), sr)
		if err := d2.StoreHeader(&b.Header); err != nil {
			return fmt.Errorf("StoreHeader: %v", err)
		}
		hb, err := d2.GetBlock(b.Hash())
		if err != nil || hb.Hash() != b.Hash() || len(hb.Transactions) != 0 {
			return fmt.Errorf("header read-back: %v", err)
		}
		if len(b.Transactions) > 0 {
			lab("block-with-txs")
		}
		return nil
	}
}

func nodeExtra(v any, e []byte, lab func(string)) error {
	n := v.(mpt.Node)
	if n.Type() == mpt.EmptyT {
		return nil
	}
	if !bytes.Equal(n.Bytes(), e) {
		return fmt.Errorf("Bytes() %x differs from the encoding %x", n.Bytes(), e)
	}
	if n.Type() != mpt.HashT {
		if got := dsha(e); got != n.Hash() {
			return fmt.Errorf("Hash() %x is not the double SHA-256 of the encoding (%x)", n.Hash(), got)
		}
	}
	j, err := n.MarshalJSON()
	if err != nil {
		return fmt.Errorf("MarshalJSON: %v", err)
	}
	if nodeChildrenAreRefs(j) {
		var d mpt.NodeObject
		r := io.NewBinReaderFromBuf(e)
		d.DecodeBinary(r)
		if r.Err != nil {
			return r.Err
		}
		dj, err := d.Node.MarshalJSON()
		if err != nil || !bytes.Equal(dj, j) {
			return fmt.Errorf("decoded node differs field-wise (%v): %s", err, firstDiff(string(dj), string(j)))
		}
		lab("mptnode-refs-only")
	} else {
		lab("mptnode-inline-children")
	}
	return nil
}

func manifestExtra(v any, e []byte, lab func(string)) error {
	m := v.(*manifest.Manifest)
	if err := m.IsValid(util.Uint160{}, true); err != nil {
		return fmt.Errorf("drawn manifest is not valid (generator defect): %v", err)
	}
	m2 := new(manifest.Manifest)
	if err := json.Unmarshal(e, m2); err != nil {
		return fmt.Errorf("unmarshal of own JSON: %v", err)
	}
	if err := m2.IsValid(util.Uint160{}, true); err != nil {
		return fmt.Errorf("manifest is valid, its JSON round trip is not: %v", err)
	}
	return nil
}

// decoyItem is serialized through a reusable context right before the item under test: whatever the context
// remembers of it (cache of written compounds, remaining count) must not leak into the next serialization.
func decoyItem() stackitem.Item {
	m := stackitem.NewMap()
	m.Add(stackitem.NewByteArray([]byte("d")), stackitem.NewBool(false))
	return stackitem.NewArray([]stackitem.Item{m, m, m, stackitem.NewStruct([]stackitem.Item{m})})
}

// itemExtra: every serializer entry point agrees with the documented format, and the count / size limits are exact
// in both directions - also when one compound object is referenced many times (every reference counts in full,
// exactly as the deserializer will count it).
func itemExtra(v any, e []byte, lab func(string)) error {
	it := v.(stackitem.Item)
	var st itemStats
	statItem(it, 0, &st)
	ref, ok := refSerialize(nil, it, nil, false)
	sizeOK := ok && !st.unser && len(ref) <= stackitem.MaxSize
	want := sizeOK && st.count <= stackitem.MaxSerialized
	sh := ""
	if st.shared {
		sh = " (with shared compounds)"
		lab("item-shared")
		if d := st.count - stackitem.MaxSerialized; d >= -3 && d <= 3 {
			lab("item-shared-at-count-limit")
		}
	}
	// All entry points with the default limit.
	type path struct {
		name string
		run  func() ([]byte, error)
	}
	ctx := stackitem.NewSerializationContext()
	paths := []path{
		{"Serialize", func() ([]byte, error) { return e, map[bool]error{true: errors.New("refused"), false: nil}[e == nil] }},
		{"EncodeBinary", func() ([]byte, error) {
			w := io.NewBufBinWriter()
			stackitem.EncodeBinary(it, w.BinWriter)
			if w.Err != nil {
				return nil, w.Err
			}
			return w.Bytes(), nil
		}},
		{"SerializeLimited(default)", func() ([]byte, error) { return stackitem.SerializeLimited(it, 0) }},
		{"SerializationContext.Serialize (reused after another item)", func() ([]byte, error) {
			if _, err := ctx.Serialize(decoyItem(), false); err != nil {
				return nil, fmt.Errorf("decoy: %w", err)
			}
			b, err := ctx.Serialize(it, false)
			return bytes.Clone(b), err
		}},
		{"SerializationContext.Serialize (same item again)", func() ([]byte, error) {
			b, err := ctx.Serialize(it, false)
			return bytes.Clone(b), err
		}},
	}
	for _, p := range paths {
		got, err := p.run()
		switch {
		case err != nil && want:
			return fmt.Errorf("%s fails (%v) for an item of %d elements%s, %d bytes (limits %d / %d)", p.name, err, st.count, sh, len(ref), stackitem.MaxSerialized, stackitem.MaxSize)
		case err == nil && !want:
			_, derr := stackitem.Deserialize(got)
			return fmt.Errorf("%s accepts an item outside the limits: %d elements%s, %d bytes, unserializable=%v; Deserialize of its output: %v", p.name, st.count, sh, len(ref), st.unser, derr)
		case err == nil && !bytes.Equal(ref, got):
			return keyed(refDiffKey(ref, got), "%s output differs from the documented format%s: %s", p.name, sh, firstDiff(fmt.Sprintf("%x", got), fmt.Sprintf("%x", ref)))
		}
	}
	// The protected form of the same context: the item itself when it fits, Invalid otherwise.
	if !st.unser {
		pb, err := ctx.Serialize(it, true)
		if err != nil || want && !bytes.Equal(pb, ref) || !want && !bytes.Equal(pb, []byte{byte(stackitem.InvalidT)}) {
			return fmt.Errorf("SerializationContext.Serialize(protected) gives %x... (%v) for an item of %d elements%s, %d bytes", pb[:min(8, len(pb))], err, st.count, sh, len(ref))
		}
	}
	// Custom limits: exactly the number of items passes, one less does not (beyond the default limit as well).
	if sizeOK && st.count <= 3*stackitem.MaxSerialized {
		got, err := stackitem.SerializeLimited(it, st.count)
		if err != nil || !bytes.Equal(got, ref) {
			return fmt.Errorf("SerializeLimited(limit=%d = number of items%s) fails or differs: %v", st.count, sh, err)
		}
		back, err := stackitem.DeserializeLimited(got, st.count)
		if err != nil {
			return fmt.Errorf("DeserializeLimited(limit=%d = number of items%s) fails: %v", st.count, sh, err)
		}
		if dumpItem(back) != dumpItem(it) {
			return fmt.Errorf("SerializeLimited/DeserializeLimited(limit=%d) change the item%s: %s", st.count, sh, firstDiff(dumpItem(back), dumpItem(it)))
		}
		if st.count > 1 {
			if out, err := stackitem.SerializeLimited(it, st.count-1); err == nil {
				_, derr := stackitem.DeserializeLimited(out, st.count-1)
				return fmt.Errorf("SerializeLimited(limit=%d) accepts %d items%s; DeserializeLimited of its output with the same limit: %v", st.count-1, st.count, sh, derr)
			}
			if _, err := stackitem.DeserializeLimited(ref, st.count-1); err == nil {
				return fmt.Errorf("DeserializeLimited(limit=%d) accepts %d items%s", st.count-1, st.count, sh)
			}
		}
	}
	if e == nil {
		lab("item-over-limit")
		return nil
	}
	if st.count >= stackitem.MaxSerialized-2 {
		lab("item-at-count-limit")
	}
	if len(e) >= stackitem.MaxSize-8 {
		lab("item-at-size-limit")
	}
	return nil
}

func itemProtectedExtra(v any, e []byte, lab func(string)) error {
	it, _ := v.(stackitem.Item)
	var st itemStats
	statItem(it, 0, &st)
	ref, _ := refSerialize(nil, it, nil, true)
	if st.count <= stackitem.MaxSerialized && len(ref) <= stackitem.MaxSize {
		if !bytes.Equal(ref, e) {
			return keyed(refDiffKey(ref, e), "EncodeBinaryProtected output differs from the documented format: %s", firstDiff(fmt.Sprintf("%x", e), fmt.Sprintf("%x", ref)))
		}
		if st.unser {
			lab("protected-with-interop")
		}
	} else if !bytes.Equal(e, []byte{byte(stackitem.InvalidT)}) {
		return fmt.Errorf("over-limit item is not replaced by Invalid: %x...", e[:min(8, len(e))])
	}
	return nil
}

// itemJSONExtra: depth limit of the plain JSON decoder is exactly MaxJSONDepth, both precisions agree on safe items.
func itemJSONExtra(v any, e []byte, lab func(string)) error {
	it := v.(stackitem.Item)
	if e == nil {
		return nil
	}
	var st itemStats
	statItem(it, 0, &st)
	for _, best := range []bool{false, true} {
		got, err := stackitem.FromJSON(e, stackitem.MaxDeserialized, best)
		switch {
		case st.depth > stackitem.MaxJSONDepth:
			if err == nil {
				return fmt.Errorf("FromJSON(best=%v) accepts nesting depth %d > MaxJSONDepth", best, st.depth)
			}
			if !errors.Is(err, stackitem.ErrTooDeep) {
				return fmt.Errorf("FromJSON(best=%v) of depth %d fails with %v, want ErrTooDeep", best, st.depth, err)
			}
			lab("json-too-deep")
		case st.count > stackitem.MaxDeserialized:
			if err == nil {
				return fmt.Errorf("FromJSON accepts %d items", st.count)
			}
		default:
			if err != nil {
				return fmt.Errorf("FromJSON(best=%v) rejects ToJSON output of a plain item (depth %d, %d items): %v", best, st.depth, st.count, err)
			}
			if dumpItem(got) != dumpItem(it) {
				return fmt.Errorf("FromJSON(best=%v) changes the item: %s", best, firstDiff(dumpItem(got), dumpItem(it)))
			}
			if st.depth == stackitem.MaxJSONDepth {
				lab("json-at-depth-limit")
			}
		}
	}
	return nil
}

// ---- consensus payloads ----------------------------------------------------------------------------------------------

type consBytes struct {
	Raw []byte // the Extensible encoding
}

// buildConsensusMessage hand-encodes a dBFT message of any of the six types (format of pkg/consensus/*.go).
func buildConsensusMessage(t *tape, sr bool, typ byte) []byte {
	var b []byte
	b = append(b, typ)
	b = binary.LittleEndian.AppendUint32(b, t.u32())
	b = append(b, t.u8(), t.u8())
	compactList := func(elem func()) {
		n := t.n(4)
		b = putVarRef(b, uint64(n), 0)
		for i := 0; i < n; i++ {
			elem()
		}
	}
	varBytes := func(d []byte) {
		b = putVarRef(b, uint64(len(d)), 0)
		b = append(b, d...)
	}
	prepReq := func() {
		b = binary.LittleEndian.AppendUint32(b, t.u32())
		b = append(b, t.fill(32)...)
		b = binary.LittleEndian.AppendUint64(b, t.u64())
		b = binary.LittleEndian.AppendUint64(b, t.u64())
		n := t.n(4)
		b = putVarRef(b, uint64(n), 0)
		for i := 0; i < n; i++ {
			b = append(b, t.fill(32)...)
		}
		if sr {
			b = append(b, t.fill(32)...)
		}
	}
	switch typ {
	case 0x00: // ChangeView
		b = binary.LittleEndian.AppendUint64(b, t.u64())
		reason := []byte{0, 1, 2, 3, 4, 5, 0xff}[t.n(7)]
		b = append(b, reason)
		if reason == 3 || reason == 4 {
			n := t.n(4)
			b = putVarRef(b, uint64(n), 0)
			for i := 0; i < n; i++ {
				b = append(b, t.fill(32)...)
			}
		}
	case 0x20:
		prepReq()
	case 0x21:
		b = append(b, t.fill(32)...)
	case 0x30:
		b = append(b, t.fill(64)...)
	case 0x40:
		b = binary.LittleEndian.AppendUint64(b, t.u64())
	case 0x41: // RecoveryMessage
		compactList(func() {
			b = append(b, t.u8(), t.u8())
			b = binary.LittleEndian.AppendUint64(b, t.u64())
			varBytes(t.smallBlob(8))
		})
		switch t.n(3) {
		case 0:
			b = append(b, 1)
			b = append(b, 0x20)
			b = binary.LittleEndian.AppendUint32(b, t.u32())
			b = append(b, t.u8(), t.u8())
			prepReq()
		case 1:
			b = append(b, 0, 32)
			b = append(b, t.fill(32)...)
		default:
			b = append(b, 0, 0)
		}
		compactList(func() {
			b = append(b, t.u8())
			varBytes(t.smallBlob(8))
		})
		compactList(func() {
			b = append(b, t.u8(), t.u8())
			b = append(b, t.fill(64)...)
			varBytes(t.smallBlob(8))
		})
	}
	return b
}

var consTypes = []byte{0x00, 0x20, 0x21, 0x30, 0x40, 0x41}

func addConsensusKind(sr bool) {
	name := "consensus"
	if sr {
		name += "-sr"
	}
	dec := func(b []byte) (*consensus.Payload, int, error) {
		p := consensus.NewPayload(netmode.UnitTestNet, sr)
		r := io.NewBinReaderFromBuf(b)
		p.DecodeBinary(r)
		if r.Err != nil {
			return nil, 0, r.Err
		}
		return p, len(b) - r.Len(), nil
	}
	addKind(&kind{name: name, weight: 4,
		build: func(t *tape) any {
			msg := buildConsensusMessage(t, sr, consTypes[t.n(len(consTypes))])
			// The wrapper the node itself produces: ValidBlockStart 0, ValidBlockEnd = block index of the message.
			e := &payload.Extensible{
				Category:      payload.ConsensusCategory,
				ValidBlockEnd: binary.LittleEndian.Uint32(msg[1:5]),
				Sender:        t.u160(),
				Data:          msg,
				Witness:       buildWitness(t),
			}
			w := io.NewBufBinWriter()
			e.EncodeBinary(w.BinWriter)
			return &consBytes{Raw: w.Bytes()}
		},
		enc: func(v any, w gio.Writer) error {
			switch x := v.(type) {
			case *consBytes:
				_, err := w.Write(x.Raw)
				return err
			case *consensus.Payload:
				// Re-encode the decoded message body instead of replaying the received Data.
				// (encodeData also resets the validity range to what the node itself uses; a received payload
				// keeps the range it came with, so restore it.)
				c := *x
				c.Data = nil
				tmp := io.NewBufBinWriter()
				c.EncodeBinary(tmp.BinWriter)
				if tmp.Err != nil {
					return tmp.Err
				}
				c.ValidBlockStart, c.ValidBlockEnd = x.ValidBlockStart, x.ValidBlockEnd
				bw := io.NewBinWriterFromIO(w)
				c.Extensible.EncodeBinary(bw)
				return bw.Err
			}
			return errors.New("bad value")
		},
		dec: func(b []byte) (any, int, error) {
			p, n, err := dec(b)
			if err != nil {
				return nil, 0, err
			}
			return p, n, nil
		},
		dump: func(v any) string {
			switch x := v.(type) {
			case *consBytes:
				p, _, err := dec(x.Raw)
				if err != nil {
					return "undecodable: " + err.Error()
				}
				return consDump(p)
			case *consensus.Payload:
				return consDump(x)
			}
			return "?"
		},
		// No identity law: a consensus payload is identified by the hash of the Extensible it travels in, i.e. by
		// the received Data bytes, which the node never re-encodes.
		extra: func(v any, e []byte, lab func(string)) error {
			p, _, err := dec(e)
			if err != nil {
				return nil
			}
			return recoveryGetters(p, lab)
		},
	})
}

// recoveryGetters: what dBFT does with a decoded RecoveryMessage right away (dbft.go onRecoveryMessage calls the four
// getters with the validator list, without any check of its own). The compact entries carry a validator index taken
// from the wire: whatever it is, the getters return payloads or nothing - "decoders never panic".
func recoveryGetters(p *consensus.Payload, lab func(string)) (err error) {
	type getters interface {
		GetPrepareRequest(dbft.ConsensusPayload[util.Uint256], []dbft.PublicKey, uint16) dbft.ConsensusPayload[util.Uint256]
		GetPrepareResponses(dbft.ConsensusPayload[util.Uint256], []dbft.PublicKey) []dbft.ConsensusPayload[util.Uint256]
		GetChangeViews(dbft.ConsensusPayload[util.Uint256], []dbft.PublicKey) []dbft.ConsensusPayload[util.Uint256]
		GetCommits(dbft.ConsensusPayload[util.Uint256], []dbft.PublicKey) []dbft.ConsensusPayload[util.Uint256]
	}
	g, ok := p.Payload().(getters)
	if !ok {
		return nil
	}
	for _, n := range []int{4, 7} {
		vals := make([]dbft.PublicKey, n)
		for i := range vals {
			vals[i] = recoveryValidators[i]
		}
		what := ""
		func() {
			defer func() {
				if r := recover(); r != nil {
					err = &keyedError{key: "recovery-validator-index", msg: fmt.Sprintf("RecoveryMessage.%s with %d validators panics: %v (dBFT calls it on every received recovery message)", what, n, r)}
				}
			}()
			what = "GetPrepareRequest"
			_ = g.GetPrepareRequest(p, vals, uint16(p.ValidatorIndex())%uint16(n))
			what = "GetPrepareResponses"
			_ = g.GetPrepareResponses(p, vals)
			what = "GetChangeViews"
			_ = g.GetChangeViews(p, vals)
			what = "GetCommits"
			_ = g.GetCommits(p, vals)
		}()
		if err != nil {
			return err
		}
	}
	lab("recovery-getters")
	return nil
}

var recoveryValidators = func() []*keys.PublicKey {
	var out []*keys.PublicKey
	for i := 0; i < 7; i++ {
		k, err := keys.NewPrivateKeyFromBytes(append(make([]byte, 31), byte(i+1)))
		if err != nil {
			panic(err)
		}
		out = append(out, k.PublicKey())
	}
	return out
}()

// consDump renders a decoded consensus payload through its exported accessors.
func consDump(p *consensus.Payload) string {
	s := fmt.Sprintf("cat=%q vbs=%d vbe=%d sender=%x wit=%s type=%d height=%d validator=%d view=%d body=", p.Category, p.ValidBlockStart, p.ValidBlockEnd,
		p.Sender, dump(&p.Witness), p.Type(), p.Height(), p.ValidatorIndex(), p.ViewNumber())
	// The bodies are unexported structs; %+v prints every field by value (hashes as byte arrays, slices in order),
	// pointers inside recoveryMessage are dereferenced by hand via the accessors that exist.
	switch body := p.Payload().(type) {
	case interface{ PreparationHash() *util.Uint256 }:
		h := body.PreparationHash()
		if h != nil {
			s += fmt.Sprintf("prephash=%x ", *h)
		}
		s += fmt.Sprintf("%+v", derefPrint(body))
	default:
		s += fmt.Sprintf("%+v", derefPrint(body))
	}
	return s
}

// msgExtra: a Message value is encoded more than once in production (Server.iteratePeersWithSendMsg serialises one
// value with and without compression for different peers; a received message may be relayed): every encoding of the
// same value, in whatever order the compression choices come, has to be a frame a peer decodes to the same payload,
// and a decoded value re-encoded as it is has to decode again.
func msgExtra(sr bool) func(v any, e []byte, lab func(string)) error {
	return func(v any, e []byte, lab func(string)) error {
		m0 := v.(*network.Message)
		if m0.Payload == nil {
			return nil
		}
		ps := &segWriter{}
		if serEnc(m0.Payload, ps) != nil {
			return nil
		}
		want := ps.buf.Bytes()
		checkFrame := func(what string, fr []byte) error {
			dm := &network.Message{StateRootInHeader: sr}
			if err := dm.Decode(io.NewBinReaderFromBuf(fr)); err != nil {
				// the vendored LZ4 decoder refusing a frame the reference decoder opens is the listed finding
				if pl, ok := framePayload(fr); ok && bytes.Equal(pl, want) && fr[0]&byte(network.Compressed) != 0 {
					lab("msg/lz4-known")
					return nil
				}
				return fmt.Errorf("%s: the frame (flags %d, %d bytes) does not decode: %v", what, fr[0], len(fr), err)
			}
			pl, ok := framePayload(fr)
			if !ok || !bytes.Equal(pl, want) {
				return fmt.Errorf("%s: the frame (flags %d, %d bytes) does not carry the payload encoding", what, fr[0], len(fr))
			}
			return nil
		}
		for _, seq := range [][]bool{{true, true}, {true, false}, {false, true}, {false, false, true}} {
			m := &network.Message{Command: m0.Command, Payload: m0.Payload, StateRootInHeader: sr}
			for i, allow := range seq {
				fr, err := m.BytesCompressed(allow)
				if err != nil {
					return fmt.Errorf("BytesCompressed(%v) #%d of %v: %v", allow, i, seq, err)
				}
				if !allow && fr[0]&byte(network.Compressed) != 0 {
					return fmt.Errorf("BytesCompressed(false) #%d of %v gives a frame flagged as compressed", i, seq)
				}
				if err := checkFrame(fmt.Sprintf("BytesCompressed(%v) #%d of the sequence %v on one Message value", allow, i, seq), fr); err != nil {
					return err
				}
				if fr[0]&byte(network.Compressed) != 0 {
					lab("msg/compressed-frame")
				}
			}
		}
		if len(e) > 0 {
			dm := &network.Message{StateRootInHeader: sr}
			if err := dm.Decode(io.NewBinReaderFromBuf(e)); err == nil {
				fr, err := dm.Bytes()
				if err != nil {
					return fmt.Errorf("Bytes() of a decoded message: %v", err)
				}
				if err := checkFrame("Bytes() of the value decoded from its own frame", fr); err != nil {
					return err
				}
			}
		}
		return nil
	}
}
