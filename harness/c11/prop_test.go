package c11

import (
	"encoding/json"
	"fmt"
	"strings"
	"testing"

	"verifharness/vt"
)

func TestProp(t *testing.T)   { vt.RunAll(t, 2000) }
func TestReplay(t *testing.T) { vt.ReplayAll(t) }

// knownDropCases are the minimal forms of the three mechanisms behind finding KnownDropKey (a block that is computed by
// AddMPTBatch and then dropped by one of storeBlock's later error returns still changes the node's MPT data).
var knownDropCases = []struct{ name, js string }{
	{"committed reference counter rewritten in dao.Store (value slice of the lower layer modified in place, trie.go:462-483,532)",
		`{"mode":1,"depth":10,"steps":[{"kind":"block","batch":[{"k":"a0"},{"k":"00"}]},{"kind":"block","batch":[{"k":"a0","del":true}]},{"kind":"drop","batch":[{"k":"a0"}]}]}`},
	{"next block gets a wrong state root (in-memory nodes shared by the shallow trie copy, stateroot/module.go:337)",
		`{"mode":1,"depth":10,"steps":[{"kind":"block","batch":[{"k":"00","v":"61"},{"k":"10","v":"61"}]},{"kind":"drop","batch":[{"k":"20","v":"62"}]},{"kind":"block","batch":[{"k":"30","v":"63"}]}]}`},
	{"stale cached counter in the shared refcount map (trie.go:423): counter 2 for a node occurring once",
		`{"mode":1,"depth":10,"steps":[{"kind":"block","batch":[{"k":"00","v":"61"},{"k":"10","v":"62"}]},{"kind":"restart"},{"kind":"drop","batch":[{"k":"20","v":"63"}]},{"kind":"block","batch":[{"k":"30","v":"63"}]}]}`},
}

// TestKnownDroppedBlock re-confirms the listed finding (the generator skips the shape while it is listed as known).
func TestKnownDroppedBlock(t *testing.T) {
	if !vt.Known(KnownDropKey) {
		t.Skip("finding not listed as known: TestProp generates dropped blocks itself")
	}
	for _, kc := range knownDropCases {
		var c Case
		if err := json.Unmarshal([]byte(kc.js), &c); err != nil {
			t.Fatalf("bad fixed case: %v", err)
		}
		err := func() (err error) {
			defer func() {
				if r := recover(); r != nil {
					err = fmt.Errorf("PANIC: %v", r)
				}
			}()
			return checkHistory(c, &vt.Obs{}, false)
		}()
		if err == nil {
			t.Logf("fixed case no longer fails: %s", kc.name)
			continue
		}
		msg := err.Error()
		if i := strings.IndexByte(msg, '\n'); i >= 0 {
			msg = msg[:i]
		}
		vt.KnownFinding(KnownDropKey, kc.name+" :: "+msg)
	}
}
