// Package c11 checks property C11: trie node storage stays exact under reference counting and
// garbage collection (stateroot.Module driven with the call protocol of core.Blockchain.storeBlock /
// persist / tryRunGC, DataMPT records compared with the node multiset of the independent reference trie).
//
// What the stored counter counts (derived from mpt/trie.go addRef/removeRef and mpt/billet.go assumption 3):
// every creation of a node at a position of the trie is one addRef, every disappearance of a node from a position
// one removeRef, positions below an unchanged node are not touched. The counter of hash x therefore is the number
// of positions (paths) of the latest trie at which a node with hash x sits = the number of times x is emitted by a
// full tree walk. mptref.Build emits one NodeRec per position, so the oracle counts exactly the same thing.
package c11

import (
	"bytes"
	"encoding/binary"
	"errors"
	"fmt"
	"sort"

	"github.com/nspcc-dev/neo-go/pkg/config"
	"github.com/nspcc-dev/neo-go/pkg/core/mpt"
	"github.com/nspcc-dev/neo-go/pkg/core/stateroot"
	"github.com/nspcc-dev/neo-go/pkg/core/storage"
	"github.com/nspcc-dev/neo-go/pkg/util"
	"go.uber.org/zap"
	"pgregory.net/rapid"
	"verifharness/mptref"
	"verifharness/vt"
)

// KnownDropKey is the known_findings.json key of the "block computed but never committed" defect (a dropped block
// rewrote committed counters in place, left its node changes in the module's in-memory trie and its cached counters
// in the shared refcount map; repaired in /repo by the fix: commit "a state batch computed but never committed
// corrupted the state root module and the store below it"; regression cases in replays/C11/regress/dropped-block-*.json,
// standalone reproduction in testdata/repro_dropped_block_test.go.txt). Drop steps are always generated; they are
// skipped (and counted as excluded) only if the key is ever listed with status "known" again.
const KnownDropKey = "dropped-block-leaks-into-module-trie"

// KV is one storage change of a block; Del means "delete".
type KV struct {
	K   vt.Bytes `json:"k"`
	V   vt.Bytes `json:"v,omitempty"`
	Del bool     `json:"del,omitempty"`
}

// Step is one event of a node's life.
//
//	block   : storeBlock of the next height with these storage changes
//	drop    : storeBlock of the next height that fails after AddMPTBatch (Late=false: before the Collapse point, the
//	          StateRootInHeader mismatch return; Late=true: after it, the aerdone error return); nothing is committed
//	persist : Blockchain.persist (dao.Store -> persistent store)
//	gc      : tryRunGC's Module.GC(G, persistentStore); Fresh=true: directly after a persist (the production sequence),
//	          Fresh=false: blocks were stored between the persist and the GC pass (storeBlock runs concurrently)
//	restart : graceful stop (persist) and a new Module initialised over the persistent store
//	crash   : process death: everything not persisted is lost, new Module initialised at the persisted height
type Step struct {
	Kind  string `json:"kind"`
	Batch []KV   `json:"batch,omitempty"`
	Late  bool   `json:"late,omitempty"`
	Fresh bool   `json:"fresh,omitempty"`
	G     int    `json:"g,omitempty"`
}

// Case is a node configuration plus a history.
type Case struct {
	Mode  int    `json:"mode"`  // 1: KeepOnlyLatestState; 3: RemoveUntraceableBlocks; 4: both flags (trie mode is ModeGC again)
	Depth int    `json:"depth"` // depth handed to Collapse at the point where storeBlock collapses (production constant: 10)
	Steps []Step `json:"steps"`
}

// ---- generator ------------------------------------------------------------------------------------

var alphabet = []byte{0x00, 0x01, 0x10, 0x11, 0xff, 0x0f, 0xf0, 0x12}

var longStem = func() []byte {
	b := make([]byte, 60)
	for i := range b {
		b[i] = byte(0xa0 + i%7)
	}
	return b
}()

func genPart(t *rapid.T, label string, min, max int) []byte {
	n := rapid.IntRange(min, max).Draw(t, label+"_n")
	k := []byte{}
	if rapid.IntRange(0, 11).Draw(t, label+"_long") == 0 {
		k = append(k, longStem[:rapid.SampledFrom([]int{1, 2, 30, 60}).Draw(t, label+"_ll")]...)
	}
	for i := 0; i < n; i++ {
		k = append(k, rapid.SampledFrom(alphabet).Draw(t, label+"_b"))
	}
	return k
}

func genVal(t *rapid.T, label string) []byte {
	switch rapid.IntRange(0, 9).Draw(t, label+"_kind") {
	case 0:
		return []byte{}
	case 1, 2, 3:
		return []byte("a")
	case 4, 5:
		return []byte("b")
	case 6:
		return bytes.Repeat([]byte{0x33}, 253) // varint boundary of the leaf encoding
	case 7:
		return bytes.Repeat([]byte{0x34}, 300)
	default:
		return rapid.SliceOfN(rapid.Byte(), 0, 4).Draw(t, label+"_raw")
	}
}

// universe is the small key/value universe of one case: keys = prefixes x suffixes, a few values.
type universe struct {
	np, ns, nv int
	vals       [][]byte
	key        func(p, s int) vt.Bytes
}

func genUniverse(t *rapid.T) universe {
	u := universe{
		np: rapid.IntRange(2, 3).Draw(t, "np"),
		ns: rapid.IntRange(2, 4).Draw(t, "ns"),
		nv: rapid.IntRange(2, 3).Draw(t, "nv"),
	}
	var prefixes, suffixes [][]byte
	for i := 0; i < u.np; i++ {
		prefixes = append(prefixes, genPart(t, "prefix", 1, 2))
	}
	for i := 0; i < u.ns; i++ {
		suffixes = append(suffixes, genPart(t, "suffix", 0, 2))
	}
	for i := 0; i < u.nv; i++ {
		u.vals = append(u.vals, genVal(t, "val"))
	}
	u.key = func(p, s int) vt.Bytes {
		k := append(append([]byte{}, prefixes[p]...), suffixes[s]...)
		if len(k) > mpt.MaxKeyLength {
			k = k[:mpt.MaxKeyLength]
		}
		return k
	}
	return u
}

// genElems draws 1..max batch elements over the universe: single put / single delete / a whole prefix subtree set to
// the canonical value pattern (equal subtrees under several prefixes => shared interior nodes) / a whole subtree deleted.
func (u universe) genElems(t *rapid.T, max int) (b []KV) {
	n := rapid.IntRange(1, max).Draw(t, "bn")
	for i := 0; i < n; i++ {
		p := rapid.IntRange(0, u.np-1).Draw(t, "p")
		switch rapid.IntRange(0, 11).Draw(t, "ekind") {
		case 0:
			shift := rapid.IntRange(0, 1).Draw(t, "shift")
			for s := 0; s < u.ns; s++ {
				b = append(b, KV{K: u.key(p, s), V: u.vals[(s+shift)%u.nv]})
			}
		case 1:
			for s := 0; s < u.ns; s++ {
				b = append(b, KV{K: u.key(p, s), Del: true})
			}
		case 2, 3, 4, 5:
			b = append(b, KV{K: u.key(p, rapid.IntRange(0, u.ns-1).Draw(t, "s")), Del: true})
		default:
			b = append(b, KV{K: u.key(p, rapid.IntRange(0, u.ns-1).Draw(t, "s")), V: u.vals[rapid.IntRange(0, u.nv-1).Draw(t, "v")]})
		}
	}
	return b
}

// genCase draws a small key universe prefixes x suffixes (so that equal subtrees under different prefixes, i.e. shared
// interior nodes, and delete/re-create of the same key are frequent), a small value pool (shared leaves) and a history.
func genCase(t *rapid.T) Case {
	c := Case{
		Mode:  rapid.SampledFrom([]int{1, 1, 3, 3, 3, 4}).Draw(t, "mode"),
		Depth: rapid.SampledFrom([]int{10, 10, 10, 0, 1, 2, 3}).Draw(t, "depth"),
	}
	u := genUniverse(t)
	nv, vals := u.nv, u.vals
	// The state trie of a chain is never empty after genesis (native contracts keep storage forever): one anchor key is
	// written by the first block and never deleted. (With an empty state Module.Init builds a trie over the zero hash
	// and the next block fails with "key not found"; unreachable in production, so not generated.)
	anchor := vt.Bytes(genPart(t, "anchor", 1, 2))
	if len(anchor) > mpt.MaxKeyLength {
		anchor = anchor[:mpt.MaxKeyLength]
	}
	genBatch := func(t *rapid.T) (b []KV) {
		defer func() {
			kept := b[:0]
			for _, kv := range b {
				if !(kv.Del && bytes.Equal(kv.K, anchor)) {
					kept = append(kept, kv)
				}
			}
			b = kept
			if len(b) == 0 {
				b = append(b, KV{K: anchor, V: vals[0]})
			}
		}()
		return u.genElems(t, 5)
	}
	kinds := []string{"block", "block", "block", "block", "block", "block", "block", "block", "block", "block",
		"drop", "drop", "persist", "persist", "restart", "crash"}
	if c.Mode != 1 {
		kinds = append(kinds, "gc", "gc", "gc", "gc")
	}
	nsteps := rapid.IntRange(1, 25).Draw(t, "nsteps")
	for i := 0; i < nsteps; i++ {
		st := Step{Kind: rapid.SampledFrom(kinds).Draw(t, "kind")}
		if i == 0 {
			st.Kind = "block" // genesis
		}
		switch st.Kind {
		case "block":
			st.Batch = genBatch(t)
			if i == 0 {
				st.Batch = append(st.Batch, KV{K: anchor, V: vals[rapid.IntRange(0, nv-1).Draw(t, "av")]})
			}
		case "drop":
			st.Batch = genBatch(t)
			st.Late = rapid.Bool().Draw(t, "late")
		case "gc":
			st.Fresh = rapid.IntRange(0, 3).Draw(t, "fresh") != 0
			st.G = rapid.IntRange(0, 1000).Draw(t, "g")
		}
		c.Steps = append(c.Steps, st)
	}
	return c
}

// ---- oracle model ---------------------------------------------------------------------------------

// rec is the decoded 5-byte suffix of a DataMPT record: active flag and counter (active) or height (inactive).
type rec struct {
	active bool
	n      uint32
}

func (r rec) String() string {
	if r.active {
		return fmt.Sprintf("active count=%d", r.n)
	}
	return fmt.Sprintf("inactive since=%d", r.n)
}

type snapshot struct {
	content map[string][]byte
	root    mptref.Hash
	ms      map[mptref.Hash]int
}

func cloneRecs(m map[mptref.Hash]rec) map[mptref.Hash]rec {
	r := make(map[mptref.Hash]rec, len(m))
	for k, v := range m {
		r[k] = v
	}
	return r
}

func cloneContent(m map[string][]byte) map[string][]byte {
	r := make(map[string][]byte, len(m))
	for k, v := range m {
		r[k] = v
	}
	return r
}

func sortedKeys(m map[string][]byte) []string {
	ks := make([]string, 0, len(m))
	for k := range m {
		ks = append(ks, k)
	}
	sort.Strings(ks)
	return ks
}

func kindOf(b []byte) string {
	if len(b) == 0 {
		return "?"
	}
	switch b[0] {
	case 0:
		return "branch"
	case 1:
		return "extension"
	case 2:
		return "leaf"
	}
	return fmt.Sprintf("type%d", b[0])
}

// diskLike is the persistent layer: a MemoryStore whose Get hands out a copy, like the BoltDB and LevelDB backends do
// (boltdb_store.go:98, goleveldb). A bare MemoryStore returns its internal slice, which Trie.updateRefCount then
// modifies in place (trie.go:477-482), i.e. "persisted" bytes would change without a persist; no real database that
// survives a crash behaves like that, so crash steps would raise false alarms on it.
type diskLike struct{ *storage.MemoryStore }

func (d diskLike) Get(k []byte) ([]byte, error) {
	v, err := d.MemoryStore.Get(k)
	if err != nil {
		return nil, err
	}
	return bytes.Clone(v), nil
}

// world is the system under test together with the oracle's bookkeeping.
type world struct {
	c    Case
	o    *vt.Obs
	cfg  config.Blockchain
	gc   bool // trie mode has the GC flag
	ps   storage.Store
	dao  *storage.MemCachedStore
	mod  *stateroot.Module
	have bool   // at least one block is committed
	h    uint32 // height of the last committed block (valid when have)

	persistedHeight uint32 // mirrors Blockchain.persistedHeight (0 until something is persisted)
	everPersisted   bool
	gcSincePersist  bool
	lastG           uint32 // highest G handed to GC so far (0: none)

	snaps   map[uint32]*snapshot // committed states by height (heights lost in a crash are removed)
	exp     map[mptref.Hash]rec  // expected DataMPT records in the dao.Store view
	expPS   map[mptref.Hash]rec  // expected DataMPT records in the persistent store
	bytesOf map[mptref.Hash][]byte
	allKeys map[string]struct{}

	// per-hash bookkeeping for the class labels
	wasSharedDropped                                                      map[mptref.Hash]bool
	sawSharedRecreated, sawReactivation, sawDropBeforeCommit, pendingDrop bool
	sawGC, sawGCRemoved, sawRestart, sawCrash, sawShared                  bool
	sawUnretainedErr, sawUnretainedOK                                     bool
}

func (w *world) newModule() error {
	w.mod = stateroot.NewModule(w.cfg, nil, zap.NewNop(), w.dao)
	var at uint32
	if w.have {
		at = w.h
	}
	return w.mod.Init(at)
}

func newWorld(c Case, o *vt.Obs) (*world, error) {
	w := &world{c: c, o: o,
		snaps: map[uint32]*snapshot{}, exp: map[mptref.Hash]rec{}, expPS: map[mptref.Hash]rec{},
		bytesOf: map[mptref.Hash][]byte{}, allKeys: map[string]struct{}{}, wasSharedDropped: map[mptref.Hash]bool{},
	}
	switch c.Mode {
	case 1:
		w.cfg.KeepOnlyLatestState = true
	case 3:
		w.cfg.RemoveUntraceableBlocks = true
		w.gc = true
	case 4:
		w.cfg.KeepOnlyLatestState = true
		w.cfg.RemoveUntraceableBlocks = true
		w.gc = true
	default:
		return nil, fmt.Errorf("bad mode %d", c.Mode)
	}
	if c.Depth < 0 {
		return nil, fmt.Errorf("bad depth")
	}
	w.ps = diskLike{storage.NewMemoryStore()}
	w.dao = storage.NewMemCachedStore(w.ps)
	if err := w.newModule(); err != nil {
		return nil, fmt.Errorf("Init(0) on an empty store: %v", err)
	}
	return w, nil
}

func (w *world) content() map[string][]byte {
	if !w.have {
		return map[string][]byte{}
	}
	return w.snaps[w.h].content
}

// storeBlock follows core.Blockchain.storeBlock: private cache over dao.Store, the block's storage changes are written
// to it, MapToMPTBatch(GetStorageChanges) -> AddMPTBatch(index, batch, cache) -> [error returns] -> Collapse when
// everything before this block is persisted -> PersistPrivate -> mpt.Store = dao.Store -> UpdateCurrentLocal.
func (w *world) storeBlock(st Step, commit bool) error {
	var index uint32
	if w.have {
		index = w.h + 1
	}
	cache := storage.NewPrivateMemCachedStore(w.dao)
	next := cloneContent(w.content())
	for _, kv := range st.Batch {
		sk := append([]byte{byte(storage.STStorage)}, kv.K...)
		w.allKeys[string(kv.K)] = struct{}{}
		if kv.Del {
			cache.Delete(sk)
			delete(next, string(kv.K))
		} else {
			v := append([]byte{}, kv.V...)
			cache.Put(sk, v)
			next[string(kv.K)] = v
		}
	}
	b := mpt.MapToMPTBatch(cache.GetStorageChanges())
	tr, sr, err := w.mod.AddMPTBatch(index, b, cache)
	if err != nil {
		return fmt.Errorf("AddMPTBatch(%d) failed: %v", index, err)
	}
	if !commit && !st.Late {
		return nil // blockchain.go:2101-2112, cache and trie copy are garbage
	}
	if w.persistedHeight == index-1 {
		tr.Collapse(w.c.Depth)
	}
	if !commit {
		return nil // blockchain.go:2126-2129
	}
	w.dao.PersistPrivate(cache)
	tr.Store = w.dao
	w.mod.UpdateCurrentLocal(tr, sr)

	root := w.advance(index, next)
	if got := mptref.Hash(sr.Root); got != root {
		return fmt.Errorf("state root of block %d is %x, the reference root of its content (%d keys) is %x", index, got[:6], len(next), root[:6])
	}
	if got := w.mod.CurrentLocalHeight(); got != index {
		return fmt.Errorf("CurrentLocalHeight() = %d after block %d", got, index)
	}
	if got := mptref.Hash(w.mod.CurrentLocalStateRoot()); got != root {
		return fmt.Errorf("CurrentLocalStateRoot() = %x after block %d, want %x", got[:6], index, root[:6])
	}
	// Keys touched by this block read back from the new root.
	for _, kv := range st.Batch {
		if err := w.getExact(index, kv.K); err != nil {
			return err
		}
	}
	return nil
}

// advance moves the oracle to the committed state `next` of height index: expected records follow the rule of the
// property (count = occurrences in the latest trie; unreferenced => deleted, or inactive since index in GC mode).
func (w *world) advance(index uint32, next map[string][]byte) mptref.Hash {
	root, nodes := mptref.Build(next)
	ms := mptref.Multiset(nodes)
	for _, n := range nodes {
		if _, ok := w.bytesOf[n.Hash]; !ok {
			w.bytesOf[n.Hash] = n.Bytes
		}
	}
	var prev map[mptref.Hash]int
	if w.have {
		prev = w.snaps[w.h].ms
	}
	for x, was := range prev {
		now := ms[x]
		if was >= 2 {
			w.sawShared = true
			if now < was {
				w.wasSharedDropped[x] = true
			}
		}
		if now == 0 {
			if w.gc {
				w.exp[x] = rec{false, index}
			} else {
				delete(w.exp, x)
			}
		}
	}
	for x, now := range ms {
		was := prev[x]
		if now > was && w.wasSharedDropped[x] {
			w.sawSharedRecreated = true
		}
		if was == 0 {
			if old, ok := w.exp[x]; ok && !old.active {
				w.sawReactivation = true
			}
		}
		w.exp[x] = rec{true, uint32(now)}
	}
	w.snaps[index] = &snapshot{content: next, root: root, ms: ms}
	w.have, w.h = true, index
	if w.pendingDrop {
		w.sawDropBeforeCommit = true
		w.pendingDrop = false
	}
	return root
}

func (w *world) persist() error {
	n, err := w.dao.Persist()
	if err != nil {
		return fmt.Errorf("Persist: %v", err)
	}
	if n > 0 && w.have { // Blockchain.persist: persistedHeight follows the persisted current block
		w.persistedHeight = w.h
		w.everPersisted = true
		w.gcSincePersist = false
	}
	w.expPS = cloneRecs(w.exp)
	return nil
}

// lowestRetained is the lowest height whose state must stay readable.
func (w *world) lowestRetained() uint32 {
	if !w.gc {
		return w.h
	}
	return w.lastG
}

// readStore decodes every DataMPT record of a store view.
func readStore(s storage.Store, what string, bytesOf map[mptref.Hash][]byte) (map[mptref.Hash]rec, error) {
	out := map[mptref.Hash]rec{}
	var ferr error
	s.Seek(storage.SeekRange{Prefix: []byte{byte(storage.DataMPT)}}, func(k, v []byte) bool {
		if len(k) != 33 {
			ferr = fmt.Errorf("%s: DataMPT key of %d bytes: %x", what, len(k), k)
			return false
		}
		var h mptref.Hash
		copy(h[:], k[1:])
		if len(v) < 6 {
			ferr = fmt.Errorf("%s: record %x has %d bytes, no room for a node and the 5-byte suffix", what, h[:6], len(v))
			return false
		}
		body, suf := v[:len(v)-5], v[len(v)-5:]
		if suf[0] > 1 {
			ferr = fmt.Errorf("%s: record %x has active byte %d", what, h[:6], suf[0])
			return false
		}
		want, ok := bytesOf[h]
		if !ok {
			ferr = fmt.Errorf("%s: record %x (%s, %d bytes) is not a node of any state committed so far", what, h[:6], kindOf(body), len(body))
			return false
		}
		if !bytes.Equal(body, want) {
			ferr = fmt.Errorf("%s: record %x holds node bytes %x, the node with this hash is %x", what, h[:6], body, want)
			return false
		}
		out[h] = rec{suf[0] == 1, binary.LittleEndian.Uint32(suf[1:])}
		return true
	})
	return out, ferr
}

func (w *world) cmpRecs(what string, got, want map[mptref.Hash]rec) error {
	var hs []mptref.Hash
	for h := range want {
		hs = append(hs, h)
	}
	for h := range got {
		if _, ok := want[h]; !ok {
			hs = append(hs, h)
		}
	}
	sort.Slice(hs, func(i, j int) bool { return bytes.Compare(hs[i][:], hs[j][:]) < 0 })
	for _, h := range hs {
		g, gok := got[h]
		e, eok := want[h]
		switch {
		case !gok:
			return fmt.Errorf("%s: node %x (%s) is missing, expected %v; %s", what, h[:6], kindOf(w.bytesOf[h]), e, w.whereUsed(h))
		case !eok:
			return fmt.Errorf("%s: unexpected record %x (%s) %v: the node belongs to no state that still has a claim on it; %s", what, h[:6], kindOf(w.bytesOf[h]), g, w.whereUsed(h))
		case g != e:
			return fmt.Errorf("%s: node %x (%s) is stored as [%v], expected [%v]; %s", what, h[:6], kindOf(w.bytesOf[h]), g, e, w.whereUsed(h))
		}
	}
	return nil
}

func (w *world) whereUsed(h mptref.Hash) string {
	var hs []int
	for height, s := range w.snaps {
		if s.ms[h] > 0 {
			hs = append(hs, int(height))
		}
	}
	sort.Ints(hs)
	s := "occurrences by height:"
	for _, height := range hs {
		s += fmt.Sprintf(" %d:x%d", height, w.snaps[uint32(height)].ms[h])
	}
	if len(hs) == 0 {
		s += " none"
	}
	return s
}

// checkRecords compares the stored records with the expectation (both directions, exact suffixes) and, independently
// of the expectation's derivation, requires every node of every retained state to be present.
func (w *world) checkRecords(when string, alsoPS bool) error {
	got, err := readStore(w.dao, when+", dao.Store view", w.bytesOf)
	if err != nil {
		return err
	}
	if err := w.cmpRecs(when+", dao.Store view", got, w.exp); err != nil {
		return err
	}
	if w.have {
		for height := w.lowestRetained(); height <= w.h; height++ {
			s := w.snaps[height]
			if s == nil {
				continue // cannot happen: heights between lastG and h are committed
			}
			for x := range s.ms {
				if _, ok := got[x]; !ok {
					return fmt.Errorf("%s: node %x (%s) of retained height %d is not in the store", when, x[:6], kindOf(w.bytesOf[x]), height)
				}
			}
		}
		cur := w.snaps[w.h]
		for x, r := range got {
			if r.active && uint32(cur.ms[x]) != r.n {
				return fmt.Errorf("%s: node %x is active with count %d, it occurs %d times in the latest trie (height %d)", when, x[:6], r.n, cur.ms[x], w.h)
			}
			if !r.active && r.n > w.h {
				return fmt.Errorf("%s: node %x is inactive since height %d, current height is %d", when, x[:6], r.n, w.h)
			}
		}
	}
	if alsoPS {
		gotPS, err := readStore(w.ps, when+", persistent store", w.bytesOf)
		if err != nil {
			return err
		}
		if err := w.cmpRecs(when+", persistent store", gotPS, w.expPS); err != nil {
			return err
		}
	}
	return nil
}

func (w *world) rootOf(height uint32) util.Uint256 { return util.Uint256(w.snaps[height].root) }

// getExact: GetState on a retained root answers exactly like the snapshot.
func (w *world) getExact(height uint32, key []byte) error {
	s := w.snaps[height]
	if s.root == (mptref.Hash{}) {
		return nil // empty trie: there is no root node to start from
	}
	v, err := w.mod.GetState(w.rootOf(height), key)
	want, ok := s.content[string(key)]
	switch {
	case ok && err != nil:
		return fmt.Errorf("GetState(root of height %d, %x): %v, the state holds %x (current height %d, GC height %d)", height, key, err, short(want), w.h, w.lastG)
	case ok && !bytes.Equal(v, want):
		return fmt.Errorf("GetState(root of height %d, %x) = %x, the state holds %x", height, key, short(v), short(want))
	case !ok && err == nil:
		return fmt.Errorf("GetState(root of height %d, %x) = %x, the key is absent from that state", height, key, short(v))
	case !ok && !errors.Is(err, mpt.ErrNotFound):
		return fmt.Errorf("GetState(root of height %d, %x) of an absent key: %v, want ErrNotFound (all nodes of a retained state must be readable)", height, key, err)
	}
	return nil
}

func short(b []byte) []byte {
	if len(b) > 8 {
		return b[:8]
	}
	return b
}

func (w *world) firstBytes() []byte {
	seen := map[byte]bool{}
	var out []byte
	for k := range w.allKeys {
		if !seen[k[0]] {
			seen[k[0]] = true
			out = append(out, k[0])
		}
	}
	sort.Slice(out, func(i, j int) bool { return out[i] < out[j] })
	return out
}

func (w *world) sortedAllKeys() []string {
	ks := make([]string, 0, len(w.allKeys))
	for k := range w.allKeys {
		ks = append(ks, k)
	}
	sort.Strings(ks)
	return ks
}

// readRetained reads a retained state completely through the Module's read API and compares with the snapshot.
func (w *world) readRetained(height uint32) error {
	s := w.snaps[height]
	w.o.Units(1)
	sr, err := w.mod.GetStateRoot(height)
	if err != nil {
		return fmt.Errorf("GetStateRoot(%d): %v", height, err)
	}
	if mptref.Hash(sr.Root) != s.root {
		return fmt.Errorf("stored state root of height %d is %x, want %x", height, sr.Root[:6], s.root[:6])
	}
	if s.root == (mptref.Hash{}) {
		return nil
	}
	for _, k := range w.sortedAllKeys() {
		if err := w.getExact(height, []byte(k)); err != nil {
			return err
		}
	}
	keys := sortedKeys(s.content)
	for _, fb := range w.firstBytes() {
		var want []storage.KeyValue
		for _, k := range keys {
			if k[0] == fb {
				want = append(want, storage.KeyValue{Key: []byte(k), Value: s.content[k]})
			}
		}
		got, err := w.mod.FindStates(w.rootOf(height), []byte{fb}, nil, 1<<20)
		if err != nil {
			if !(len(want) == 0 && errors.Is(err, mpt.ErrNotFound)) {
				return fmt.Errorf("FindStates(root of height %d, prefix %02x): %v, the state has %d such keys (current height %d, GC height %d)", height, fb, err, len(want), w.h, w.lastG)
			}
		} else if err := cmpKV(fmt.Sprintf("FindStates(root of height %d, prefix %02x)", height, fb), got, want); err != nil {
			return err
		}
		var seek []storage.KeyValue
		if err, pan := seekStates(w.mod, w.rootOf(height), []byte{fb}, func(k, v []byte) bool {
			seek = append(seek, storage.KeyValue{Key: append([]byte{fb}, k...), Value: bytes.Clone(v)})
			return true
		}); err != nil || pan != nil {
			return fmt.Errorf("SeekStates(root of height %d, prefix %02x): error %v, panic %v; the state is retained (current height %d, GC height %d)", height, fb, err, pan, w.h, w.lastG)
		}
		if err := cmpKV(fmt.Sprintf("SeekStates(root of height %d, prefix %02x)", height, fb), seek, want); err != nil {
			return err
		}
	}
	return nil
}

// probeUnretained reads a state that is no longer retained: an error is fine, data must be the snapshot's data.
func (w *world) probeUnretained(height uint32) error {
	s := w.snaps[height]
	if s == nil || s.root == (mptref.Hash{}) {
		return nil
	}
	w.o.Units(1)
	clean := true
	for _, k := range w.sortedAllKeys() {
		v, err := w.mod.GetState(w.rootOf(height), []byte(k))
		if err != nil {
			clean = false
			continue
		}
		want, ok := s.content[k]
		if !ok {
			return fmt.Errorf("GetState(unretained root of height %d, %x) = %x without error, the key was absent from that state", height, k, short(v))
		}
		if !bytes.Equal(v, want) {
			return fmt.Errorf("GetState(unretained root of height %d, %x) = %x without error, that state held %x", height, k, short(v), short(want))
		}
	}
	keys := sortedKeys(s.content)
	for _, fb := range w.firstBytes() {
		got, err := w.mod.FindStates(w.rootOf(height), []byte{fb}, nil, 1<<20)
		if err != nil {
			clean = false
			continue
		}
		var want []storage.KeyValue
		for _, k := range keys {
			if k[0] == fb {
				want = append(want, storage.KeyValue{Key: []byte(k), Value: s.content[k]})
			}
		}
		if err := cmpKV(fmt.Sprintf("FindStates(unretained root of height %d, prefix %02x) without error", height, fb), got, want); err != nil {
			return err
		}
	}
	// SeekStates (the range scan behind findstoragehistoric and the state upload tool): it either reports an error or
	// calls back with exactly the content of that state
	for _, fb := range w.firstBytes() {
		var want, seek []storage.KeyValue
		for _, k := range keys {
			if k[0] == fb {
				want = append(want, storage.KeyValue{Key: []byte(k), Value: s.content[k]})
			}
		}
		err, pan := seekStates(w.mod, w.rootOf(height), []byte{fb}, func(k, v []byte) bool {
			seek = append(seek, storage.KeyValue{Key: append([]byte{fb}, k...), Value: bytes.Clone(v)})
			return true
		})
		if err != nil || pan != nil {
			clean = false
			if pan != nil {
				w.o.Label("unretained-seek-panics")
			}
			continue
		}
		if err := cmpKV(fmt.Sprintf("SeekStates(unretained root of height %d, prefix %02x) without error", height, fb), seek, want); err != nil {
			return err
		}
	}
	if !clean {
		w.sawUnretainedErr = true
	} else {
		w.sawUnretainedOK = true
	}
	return nil
}

func cmpKV(what string, got, want []storage.KeyValue) error {
	if len(got) != len(want) {
		return fmt.Errorf("%s: %d items %s, want %d items %s", what, len(got), fmtKV(got), len(want), fmtKV(want))
	}
	for i := range got {
		if !bytes.Equal(got[i].Key, want[i].Key) || !bytes.Equal(got[i].Value, want[i].Value) {
			return fmt.Errorf("%s: item %d is %x=%x, want %x=%x", what, i, got[i].Key, short(got[i].Value), want[i].Key, short(want[i].Value))
		}
	}
	return nil
}

func fmtKV(l []storage.KeyValue) string {
	s := "["
	for i, kv := range l {
		if i > 0 {
			s += " "
		}
		s += fmt.Sprintf("%x", kv.Key)
	}
	return s + "]"
}

// readAll reads every retained state completely and probes the unretained ones.
func (w *world) readAll() error {
	if !w.have {
		return nil
	}
	low := w.lowestRetained()
	for height := low; height <= w.h; height++ {
		if err := w.readRetained(height); err != nil {
			return err
		}
	}
	for height := uint32(0); height < low; height++ {
		if err := w.probeUnretained(height); err != nil {
			return err
		}
	}
	return nil
}

func (w *world) runGC(st Step) (bool, error) {
	if !w.gc {
		return false, nil
	}
	if st.Fresh {
		if err := w.persist(); err != nil {
			return false, err
		}
	}
	// tryRunGC: tgt = persistedHeight - MaxTraceableBlocks (>= 1) rounded down to a multiple of GarbageCollectionPeriod
	// (>= 1), GC runs only if tgt > GarbageCollectionPeriod, at most once per persist; tgt never decreases.
	if !w.everPersisted || w.gcSincePersist || w.persistedHeight < 3 {
		return false, nil
	}
	lo, hi := uint32(2), w.persistedHeight-1
	if w.lastG > lo {
		lo = w.lastG
	}
	if lo > hi {
		return false, nil
	}
	g := lo + uint32(st.G)%(hi-lo+1)
	w.mod.GC(g, w.ps)
	w.gcSincePersist = true
	w.lastG = g
	w.sawGC = true
	for _, m := range []map[mptref.Hash]rec{w.exp, w.expPS} {
		for x, r := range m {
			if !r.active && r.n <= g {
				delete(m, x)
				w.sawGCRemoved = true
			}
		}
	}
	return true, nil
}

func (w *world) restart(crash bool) (bool, error) {
	if crash {
		if !w.everPersisted {
			return false, nil
		}
		// Everything above the persistent store is gone.
		for height := range w.snaps {
			if height > w.persistedHeight {
				delete(w.snaps, height)
			}
		}
		w.h = w.persistedHeight
		w.exp = cloneRecs(w.expPS)
		w.pendingDrop = false
	} else {
		if !w.have {
			return false, nil
		}
		if err := w.persist(); err != nil { // Blockchain.Run's deferred persist on exit
			return false, err
		}
	}
	w.dao = storage.NewMemCachedStore(w.ps)
	if err := w.newModule(); err != nil {
		return false, fmt.Errorf("Init(%d) after restart: %v", w.h, err)
	}
	if got, want := mptref.Hash(w.mod.CurrentLocalStateRoot()), w.snaps[w.h].root; got != want {
		return false, fmt.Errorf("CurrentLocalStateRoot() after restart at height %d is %x, want %x", w.h, got[:6], want[:6])
	}
	return true, nil
}

func checkCase(c Case, o *vt.Obs) error {
	return checkHistory(c, o, vt.Known(KnownDropKey))
}

// checkHistory runs a case; with dropsExcluded the "drop" steps are skipped (listed known finding) and counted.
func checkHistory(c Case, o *vt.Obs, dropsExcluded bool) error {
	w, err := newWorld(c, o)
	if err != nil {
		return err
	}
	for i, st := range c.Steps {
		where := func(err error) error { return fmt.Errorf("step %d (%s): %w", i, st.Kind, err) }
		fullRead := false
		switch st.Kind {
		case "block":
			if len(st.Batch) == 0 {
				return where(errors.New("empty batch"))
			}
			if err := w.storeBlock(st, true); err != nil {
				return where(err)
			}
		case "drop":
			if dropsExcluded {
				o.Excluded()
				continue
			}
			if err := w.storeBlock(st, false); err != nil {
				return where(err)
			}
			w.pendingDrop = true
		case "persist":
			if err := w.persist(); err != nil {
				return where(err)
			}
		case "gc":
			ran, err := w.runGC(st)
			if err != nil {
				return where(err)
			}
			fullRead = ran
		case "restart", "crash":
			ran, err := w.restart(st.Kind == "crash")
			if err != nil {
				return where(err)
			}
			if ran {
				fullRead = true
				if st.Kind == "crash" {
					w.sawCrash = true
				} else {
					w.sawRestart = true
				}
			}
		default:
			return where(errors.New("unknown step kind"))
		}
		if err := w.checkRecords(fmt.Sprintf("after step %d (%s) at height %d", i, st.Kind, w.h), st.Kind != "block" && st.Kind != "drop"); err != nil {
			return err
		}
		if fullRead {
			if err := w.readAll(); err != nil {
				return where(err)
			}
		}
	}
	if err := w.readAll(); err != nil {
		return fmt.Errorf("final read: %w", err)
	}

	o.Labelf("mode%d", c.Mode)
	if w.sawShared {
		o.Label("node-with-count>=2")
	}
	if w.sawSharedRecreated {
		o.Label("shared-node-dropped-then-recreated")
	}
	if w.sawReactivation {
		o.Label("inactive-node-reactivated")
	}
	if w.sawDropBeforeCommit {
		o.Label("uncommitted-batch-before-committed")
	}
	if w.sawGC {
		o.Label("gc-ran")
	}
	if w.sawGCRemoved {
		o.Label("gc-removed-records")
	}
	if w.sawRestart {
		o.Label("restart")
	}
	if w.sawCrash {
		o.Label("crash-restart")
	}
	if w.sawUnretainedErr {
		o.Label("unretained-root-read-fails")
	}
	if w.sawUnretainedOK {
		o.Label("unretained-root-still-complete")
	}
	if w.sawSharedRecreated || w.sawDropBeforeCommit {
		o.NonTrivial()
	}
	return nil
}

// ---- second sub-law: the Trie API itself (Put / Delete / PutBatch between Flush(index) calls) ---------------------
//
// Production only reaches the trie through PutBatch (Module.AddMPTBatch, statesync), but Put and Delete are the same
// reference-counting code family (trie.go:168-396, named by the property's anchors) and are public API, so the stored
// records are compared after every Flush for direct op sequences too.

// TOp is one trie operation. flush = end of block (Flush with the next index); collapse / reload imply a flush first
// (documented precondition of Collapse; a reload needs the nodes in the store).
type TOp struct {
	Kind  string   `json:"kind"` // put del batch flush collapse reload
	K     vt.Bytes `json:"k,omitempty"`
	V     vt.Bytes `json:"v,omitempty"`
	Batch []KV     `json:"batch,omitempty"`
	Depth int      `json:"depth,omitempty"`
}

// TCase is a trie mode plus operations.
type TCase struct {
	Mode int   `json:"mode"` // 1 ModeLatest, 3 ModeGC
	Ops  []TOp `json:"ops"`
}

func genTrieCase(t *rapid.T) TCase {
	c := TCase{Mode: rapid.SampledFrom([]int{1, 3}).Draw(t, "mode")}
	u := genUniverse(t)
	n := rapid.IntRange(1, 40).Draw(t, "nops")
	for i := 0; i < n; i++ {
		op := TOp{Kind: rapid.SampledFrom([]string{"put", "put", "put", "put", "del", "del", "del", "batch", "batch",
			"flush", "flush", "flush", "collapse", "reload"}).Draw(t, "kind")}
		switch op.Kind {
		case "put":
			op.K = u.key(rapid.IntRange(0, u.np-1).Draw(t, "p"), rapid.IntRange(0, u.ns-1).Draw(t, "s"))
			op.V = u.vals[rapid.IntRange(0, u.nv-1).Draw(t, "v")]
		case "del":
			op.K = u.key(rapid.IntRange(0, u.np-1).Draw(t, "p"), rapid.IntRange(0, u.ns-1).Draw(t, "s"))
		case "batch":
			op.Batch = u.genElems(t, 4)
		case "collapse":
			op.Depth = rapid.IntRange(0, 4).Draw(t, "depth")
		}
		c.Ops = append(c.Ops, op)
	}
	return c
}

func checkTrieCase(c TCase, o *vt.Obs) error {
	if c.Mode != 1 && c.Mode != 3 {
		return fmt.Errorf("bad mode %d", c.Mode)
	}
	mode := mpt.TrieMode(c.Mode)
	w := &world{o: o, gc: mode.GC(),
		snaps: map[uint32]*snapshot{}, exp: map[mptref.Hash]rec{}, expPS: map[mptref.Hash]rec{},
		bytesOf: map[mptref.Hash][]byte{}, allKeys: map[string]struct{}{}, wasSharedDropped: map[mptref.Hash]bool{},
	}
	w.ps = storage.NewMemoryStore()
	w.dao = storage.NewMemCachedStore(w.ps)
	tr := mpt.NewTrie(nil, mode, w.dao)
	content := map[string][]byte{}
	var index uint32 // next Flush index
	dirty := false
	sawReload := false

	flush := func(i int) error {
		tr.Flush(index)
		root := w.advance(index, cloneContent(content))
		index++
		dirty = false
		if got := mptref.Hash(tr.StateRoot()); got != root {
			return fmt.Errorf("op %d: root %x differs from the reference root %x", i, got[:6], root[:6])
		}
		got, err := readStore(w.dao, fmt.Sprintf("after Flush(%d) at op %d", w.h, i), w.bytesOf)
		if err != nil {
			return err
		}
		if err := w.cmpRecs(fmt.Sprintf("after Flush(%d) at op %d", w.h, i), got, w.exp); err != nil {
			return err
		}
		return nil
	}
	for i, op := range c.Ops {
		switch op.Kind {
		case "put":
			w.allKeys[string(op.K)] = struct{}{}
			if err := tr.Put(op.K, append([]byte{}, op.V...)); err != nil {
				return fmt.Errorf("op %d: Put(%x): %v", i, op.K, err)
			}
			content[string(op.K)] = append([]byte{}, op.V...)
			dirty = true
		case "del":
			w.allKeys[string(op.K)] = struct{}{}
			if err := tr.Delete(op.K); err != nil {
				return fmt.Errorf("op %d: Delete(%x): %v", i, op.K, err)
			}
			delete(content, string(op.K))
			dirty = true
		case "batch":
			m := map[string][]byte{}
			for _, kv := range op.Batch {
				w.allKeys[string(kv.K)] = struct{}{}
				if kv.Del {
					m["\x70"+string(kv.K)] = nil
					delete(content, string(kv.K))
				} else {
					m["\x70"+string(kv.K)] = append([]byte{}, kv.V...)
					content[string(kv.K)] = append([]byte{}, kv.V...)
				}
			}
			if _, err := tr.PutBatch(mpt.MapToMPTBatch(m)); err != nil {
				return fmt.Errorf("op %d: PutBatch: %v", i, err)
			}
			dirty = true
		case "flush", "collapse", "reload":
			if dirty || op.Kind == "flush" {
				if err := flush(i); err != nil {
					return err
				}
			}
			switch op.Kind {
			case "collapse":
				tr.Collapse(op.Depth)
			case "reload":
				if r := tr.StateRoot(); r.Equals(util.Uint256{}) {
					tr = mpt.NewTrie(nil, mode, w.dao)
				} else {
					tr = mpt.NewTrie(mpt.NewHashNode(r), mode, w.dao)
				}
				sawReload = true
			}
		default:
			return fmt.Errorf("op %d: unknown kind %q", i, op.Kind)
		}
	}
	if err := flush(len(c.Ops)); err != nil {
		return err
	}
	// Every state that still has all its nodes (all of them in GC mode, the latest otherwise) reads back exactly.
	low := w.h
	if w.gc {
		low = 0
	}
	for height := low; height <= w.h; height++ {
		sn := w.snaps[height]
		if sn.root == (mptref.Hash{}) {
			continue
		}
		o.Units(1)
		rd := mpt.NewTrie(mpt.NewHashNode(util.Uint256(sn.root)), mode&^mpt.ModeGCFlag, storage.NewMemCachedStore(w.dao))
		for _, k := range w.sortedAllKeys() {
			v, err := rd.Get([]byte(k))
			want, ok := sn.content[k]
			switch {
			case ok && (err != nil || !bytes.Equal(v, want)):
				return fmt.Errorf("state of Flush(%d): Get(%x) = %x, %v; want %x", height, k, short(v), err, short(want))
			case !ok && !errors.Is(err, mpt.ErrNotFound):
				return fmt.Errorf("state of Flush(%d): Get(%x) of an absent key = %x, %v", height, k, short(v), err)
			}
		}
	}
	o.Labelf("mode%d", c.Mode)
	if w.sawShared {
		o.Label("node-with-count>=2")
	}
	if w.sawSharedRecreated {
		o.Label("shared-node-dropped-then-recreated")
	}
	if w.sawReactivation {
		o.Label("inactive-node-reactivated")
	}
	if sawReload {
		o.Label("reload")
	}
	if w.sawSharedRecreated {
		o.NonTrivial()
	}
	return nil
}

func init() {
	vt.PropertyID = "C11"
	vt.Register("history", 1.0, genCase, checkCase)
	vt.Register("trieops", 0.5, genTrieCase, checkTrieCase)
}

// seekStates calls Module.SeekStates whatever its result list is (the error result was added by the repair of
// finding `seekstates-unretained-root-silently-empty`), returning its error and a recovered panic.
func seekStates(m any, root util.Uint256, prefix []byte, f func(k, v []byte) bool) (err error, pan any) {
	defer func() { pan = recover() }()
	switch sm := m.(type) {
	case interface {
		SeekStates(util.Uint256, []byte, func(k, v []byte) bool) error
	}:
		err = sm.SeekStates(root, prefix, f)
	case interface {
		SeekStates(util.Uint256, []byte, func(k, v []byte) bool)
	}:
		sm.SeekStates(root, prefix, f)
	default:
		panic("stateroot.Module has no SeekStates method")
	}
	return
}
