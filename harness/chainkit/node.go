package chainkit

import (
	"fmt"
	"os"
	"path/filepath"
	"sort"
	"time"

	"github.com/nspcc-dev/neo-go/pkg/config"
	"github.com/nspcc-dev/neo-go/pkg/core"
	"github.com/nspcc-dev/neo-go/pkg/core/native/noderoles"
	"github.com/nspcc-dev/neo-go/pkg/crypto/keys"
	"github.com/nspcc-dev/neo-go/pkg/core/storage"
	"github.com/nspcc-dev/neo-go/pkg/core/storage/dbconfig"
	"go.uber.org/zap"
	"go.uber.org/zap/zapcore"
)

func init() {
	// The production flush is driven by a 1 s timer; the harness places flushes itself (VerifPersist).
	core.VerifSetPersistInterval(24 * time.Hour)
}

// ChainCfg is the protocol-level configuration shared by all replicas of one history (JSON-able).
type ChainCfg struct {
	Profile           string `json:"profile"` // V1C1 | V1C3 | V4C6 | V7C7
	SRIH              bool   `json:"srih,omitempty"`
	P2PSig            bool   `json:"p2psig,omitempty"`
	StateExchange     bool   `json:"state_exchange,omitempty"`
	// GenesisRoles: bitmask of node roles designated in the genesis block (NeoGo extension Genesis.Roles): 1 Oracle,
	// 2 StateValidator, 4 NeoFSAlphabet, 8 P2PNotary; RoleKeys[i%3] and RoleKeys[(i+1)%3] for the i-th of them.
	GenesisRoles int `json:"genesis_roles,omitempty"`
	StateSyncInterval int    `json:"state_sync_interval,omitempty"`
	MTB               uint32 `json:"mtb,omitempty"`
	MaxVUBInc         uint32 `json:"max_vub_inc,omitempty"`
	HFStagger         bool   `json:"hf_stagger,omitempty"`
	MaxBlockSize      uint32 `json:"max_block_size,omitempty"`
	MaxTxPerBlock     uint16 `json:"max_tx_per_block,omitempty"`
	MaxBlockSysFee    int64  `json:"max_block_sysfee,omitempty"`
	MemPoolSize       int    `json:"mempool_size,omitempty"`
	// ValidatorsHistory / CommitteeHistory (height -> count) replace the fixed sizes of the profile when set: the
	// profile still names the standby committee (a prefix of CommitteeKeys), ValidatorsCount is left zero as the
	// configuration rules demand. Heights must obey the rules of pkg/config (aligned with the committee size).
	ValidatorsHistory map[uint32]uint32 `json:"validators_history,omitempty"`
	CommitteeHistory  map[uint32]uint32 `json:"committee_history,omitempty"`
}

// StandbyValidators is the number of validators at height 0 (they hold the genesis funds).
func (c ChainCfg) StandbyValidators() int {
	if n, ok := c.ValidatorsHistory[0]; ok && len(c.ValidatorsHistory) > 0 {
		return int(n)
	}
	_, vc := c.Sizes()
	return vc
}

// NodeCfg holds node-local settings (they must not influence the ledger state).
type NodeCfg struct {
	Backend           string `json:"backend"` // mem | bolt | leveldb
	KeepOnlyLatest    bool   `json:"keep_only_latest,omitempty"`
	RemoveUntraceable bool   `json:"remove_untraceable,omitempty"`
	GCPeriod          uint32 `json:"gc_period,omitempty"`
	NoVerifyTx        bool   `json:"no_verify_tx,omitempty"`
	SaveStorageBatch  bool   `json:"save_storage_batch,omitempty"`
	SaveInvocations   bool   `json:"save_invocations,omitempty"`
}

// Sizes returns (committee size, validators count) of a profile.
func (c ChainCfg) Sizes() (int, int) {
	switch c.Profile {
	case "V1C1":
		return 1, 1
	case "V1C3":
		return 3, 1
	case "V4C6":
		return 6, 4
	case "V7C7":
		return 7, 7
	}
	panic("unknown profile " + c.Profile)
}

// Blockchain builds the config.Blockchain for a replica.
func (c ChainCfg) Blockchain(n NodeCfg) config.Blockchain {
	cs, vc := c.Sizes()
	var committee []string
	for i := 0; i < cs; i++ {
		committee = append(committee, CommitteeKeys[i].Pub.StringCompressed())
	}
	mtb := c.MTB
	if mtb == 0 {
		mtb = 1000
	}
	vub := c.MaxVUBInc
	if vub == 0 {
		vub = mtb / 2
	}
	cfg := config.Blockchain{
		ProtocolConfiguration: config.ProtocolConfiguration{
			Magic:                       Magic,
			MaxTraceableBlocks:          mtb,
			MaxValidUntilBlockIncrement: vub,
			MaxBlockSystemFee:           c.MaxBlockSysFee,
			MaxBlockSize:                c.MaxBlockSize,
			MaxTransactionsPerBlock:     c.MaxTxPerBlock,
			MemPoolSize:                 c.MemPoolSize,
			TimePerBlock:                time.Second,
			Genesis:                     config.Genesis{TimePerBlock: time.Second},
			StandbyCommittee:            committee,
			ValidatorsCount:             uint32(vc),
			VerifyTransactions:          !n.NoVerifyTx,
			StateRootInHeader:           c.SRIH,
			P2PSigExtensions:            c.P2PSig,
			P2PStateExchangeExtensions:  c.StateExchange,
			StateSyncInterval:           c.StateSyncInterval,
		},
		Ledger: config.Ledger{
			KeepOnlyLatestState:     n.KeepOnlyLatest,
			RemoveUntraceableBlocks: n.RemoveUntraceable,
			GarbageCollectionPeriod: n.GCPeriod,
			SaveStorageBatch:        n.SaveStorageBatch,
			SaveInvocations:         n.SaveInvocations,
		},
	}
	if c.GenesisRoles != 0 {
		cfg.Genesis.Roles = map[noderoles.Role]keys.PublicKeys{}
		for i, r := range []noderoles.Role{noderoles.Oracle, noderoles.StateValidator, noderoles.NeoFSAlphabet, noderoles.P2PNotary} {
			if c.GenesisRoles&(1<<uint(i)) != 0 {
				ks := keys.PublicKeys{RoleKeys[i%3].Pub, RoleKeys[(i+1)%3].Pub}
				sort.Sort(ks)
				cfg.Genesis.Roles[r] = ks
			}
		}
	}
	if len(c.ValidatorsHistory) > 0 {
		cfg.ValidatorsCount = 0
		cfg.ValidatorsHistory = map[uint32]uint32{}
		for h, n := range c.ValidatorsHistory {
			cfg.ValidatorsHistory[h] = n
		}
	}
	if len(c.CommitteeHistory) > 0 {
		cfg.CommitteeHistory = map[uint32]uint32{}
		for h, n := range c.CommitteeHistory {
			cfg.CommitteeHistory[h] = n
		}
	}
	if cfg.MaxBlockSystemFee == 0 {
		cfg.MaxBlockSystemFee = 900000000000
	}
	if c.HFStagger {
		cfg.Hardforks = map[string]uint32{}
		h := uint32(0)
		for i, hf := range config.StableHardforks {
			if i >= 3 { // the three oldest from genesis, later ones at small staggered heights
				h += 2
			}
			cfg.Hardforks[hf.String()] = h
		}
	}
	return cfg
}

// noCloseStore keeps an in-memory backend alive across Blockchain.Close (Run closes its store on exit).
type noCloseStore struct{ storage.Store }

func (noCloseStore) Close() error { return nil }

// Node is one replica.
type Node struct {
	BC    *core.Blockchain
	Chain ChainCfg
	Opts  NodeCfg

	base    storage.Store // the real backend
	wrap    func(storage.Store) storage.Store
	dir     string
	running bool
}

// nopLog discards everything below Fatal. A Fatal entry (zap would os.Exit(1) silently even on a no-op logger) is turned
// into a Go panic carrying the message and its fields: in the goroutine of a check it is caught and reported as a
// failure of the case, in a goroutine of the node it ends the process with a trace the driver files as a crash.
var nopLog = zap.New(zapcore.NewNopCore(), zap.WithFatalHook(fatalPanic{}))

type fatalPanic struct{}

func (fatalPanic) OnWrite(ce *zapcore.CheckedEntry, fields []zapcore.Field) {
	enc := zapcore.NewMapObjectEncoder()
	for _, f := range fields {
		f.AddTo(enc)
	}
	panic(fmt.Sprintf("the node logged a FATAL error (it would exit): %s %v", ce.Message, enc.Fields))
}

func openBackend(kind, dir string) (storage.Store, error) {
	switch kind {
	case "", "mem":
		return storage.NewMemoryStore(), nil
	case "bolt":
		return storage.NewBoltDBStore(dbconfig.BoltDBOptions{FilePath: filepath.Join(dir, "chain.bolt")})
	case "leveldb":
		return storage.NewLevelDBStore(dbconfig.LevelDBOptions{DataDirectoryPath: filepath.Join(dir, "ldb")})
	}
	return nil, fmt.Errorf("unknown backend %q", kind)
}

// NewNode creates and starts a replica. wrap (optional) wraps the backend (recording / gating stores).
func NewNode(chain ChainCfg, opts NodeCfg, wrap func(storage.Store) storage.Store) (*Node, error) {
	n := &Node{Chain: chain, Opts: opts, wrap: wrap}
	if opts.Backend == "bolt" || opts.Backend == "leveldb" {
		d, err := os.MkdirTemp("", "verif-node-")
		if err != nil {
			return nil, err
		}
		n.dir = d
	}
	if err := n.open(); err != nil {
		n.cleanup()
		return nil, err
	}
	return n, nil
}

// NewNodeOnStore creates and starts a replica over an existing backend (not closed by the node).
func NewNodeOnStore(chain ChainCfg, opts NodeCfg, st storage.Store) (*Node, error) {
	n := &Node{Chain: chain, Opts: opts, base: st}
	if err := n.open(); err != nil {
		return nil, err
	}
	return n, nil
}

func (n *Node) open() error {
	if n.dir != "" { // disk backends are really closed by Blockchain.Close: (re)open them
		b, err := openBackend(n.Opts.Backend, n.dir)
		if err != nil {
			return err
		}
		n.base = b
	} else if n.base == nil {
		n.base = storage.NewMemoryStore()
	}
	var st storage.Store = n.base
	if n.dir == "" {
		st = noCloseStore{st}
	}
	if n.wrap != nil {
		st = n.wrap(st)
	}
	bc, err := core.NewBlockchain(st, n.Chain.Blockchain(n.Opts), nopLog)
	if err != nil {
		if n.dir != "" {
			_ = n.base.Close()
		}
		return err
	}
	n.BC = bc
	go bc.Run()
	n.running = true
	return nil
}

// Stop closes the chain (flushes, closes disk backends) without reopening.
func (n *Node) Stop() {
	if n.running {
		n.BC.Close()
		n.running = false
	}
}

// StopNoRun marks a node as stopped (used when the chain was never started).
func (n *Node) Running() bool { return n.running }

// Restart = Close() + NewBlockchain over the same backend (disk backends are really closed and reopened).
func (n *Node) Restart() error {
	n.Stop()
	return n.open()
}

// Reopen opens a stopped node again.
func (n *Node) Reopen() error { return n.open() }

// Close stops the node and removes its files.
func (n *Node) Close() {
	n.Stop()
	n.cleanup()
}

func (n *Node) cleanup() {
	if n.dir != "" {
		_ = os.RemoveAll(n.dir)
	}
}

// Base returns the real backend (memory backends only stay valid after Stop).
func (n *Node) Base() storage.Store { return n.base }

// ResetTo performs the "db reset" procedure the CLI does: stop the node, open a non-running Blockchain over the
// same backend, Reset(h), and start the node again. Memory backends only.
func (n *Node) ResetTo(h uint32) error {
	if n.dir != "" {
		return fmt.Errorf("ResetTo is supported on memory backends only")
	}
	n.Stop()
	var st storage.Store = noCloseStore{n.base}
	if n.wrap != nil {
		st = n.wrap(st)
	}
	bc, err := core.NewBlockchain(st, n.Chain.Blockchain(n.Opts), nopLog)
	if err != nil {
		return fmt.Errorf("open for reset: %w", err)
	}
	if err := bc.Reset(h); err != nil {
		_ = n.open()
		return err
	}
	return n.open()
}
