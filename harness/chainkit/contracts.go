package chainkit

import (
	"strings"
	"github.com/nspcc-dev/neo-go/pkg/core/native/nativehashes"
	"github.com/nspcc-dev/neo-go/pkg/core/state"
	"github.com/nspcc-dev/neo-go/pkg/smartcontract"
	"github.com/nspcc-dev/neo-go/pkg/smartcontract/manifest"
	"github.com/nspcc-dev/neo-go/pkg/util"
	"github.com/nspcc-dev/neo-go/pkg/vm/opcode"
	"verifharness/asm"
)

// KContract assembles the library "kitchen sink" contract used by chain-level histories:
//
//	put(k,v) putFail(k,v) del(k) get(k) find(prefix,opts) notify(v) fail() abort() call(h,m,f,args) tryCall(h,m,f,args)
//	cw(acct) burn(n) xfer(token,to,amount) destroy() update(nef,manifest) verify() safeGet(k) safePut(k,v)
//	oracleCb(url,userData,code,result) oracleCbFail(url,userData,code,result)
//	onNEP17Payment(from,amount,data) _deploy(data,isUpdate)
//
// variant changes one constant in the script so that several distinct contracts (different NEF checksums) exist.
func KContract(name string, variant int, opts ...asm.ManifestOpt) *asm.Contract {
	b := asm.New()
	var ms []asm.MethodSpec
	m := func(name string, params int, void, safe bool) {
		b.Label(name)
		ms = append(ms, asm.MethodSpec{Name: name, Label: name, Params: params, Void: void, Safe: safe})
	}
	put := func() {
		b.InitSlot(0, 2).Op(opcode.LDARG1, opcode.LDARG0).Syscall("System.Storage.GetContext").Syscall("System.Storage.Put").Op(opcode.PUSH1, opcode.RET)
	}
	get := func() {
		b.InitSlot(0, 1).Op(opcode.LDARG0).Syscall("System.Storage.GetContext").Syscall("System.Storage.Get").Op(opcode.RET)
	}

	m("variant", 0, false, true)
	b.Int(int64(variant)).Op(opcode.RET)

	m("put", 2, false, false)
	put()
	m("putFail", 2, false, false)
	b.InitSlot(0, 2).Op(opcode.LDARG1, opcode.LDARG0).Syscall("System.Storage.GetContext").Syscall("System.Storage.Put")
	b.Op(opcode.LDARG1, opcode.PUSH1, opcode.PACK).Str("E").Syscall("System.Runtime.Notify").Str("putFail").Op(opcode.THROW)
	m("del", 1, false, false)
	b.InitSlot(0, 1).Op(opcode.LDARG0).Syscall("System.Storage.GetContext").Syscall("System.Storage.Delete").Op(opcode.PUSH1, opcode.RET)
	m("get", 1, false, false)
	get()
	m("safeGet", 1, false, true)
	get()
	m("safePut", 2, false, true)
	put()

	m("find", 2, false, false)
	b.InitSlot(2, 2).Op(opcode.LDARG1, opcode.LDARG0).Syscall("System.Storage.GetContext").Syscall("System.Storage.Find").Op(opcode.STLOC0)
	b.Op(opcode.NEWARRAY0, opcode.STLOC1)
	b.Label("find_loop").Op(opcode.LDLOC0).Syscall("System.Iterator.Next").Jmp(opcode.JMPIFNOTL, "find_end")
	b.Op(opcode.LDLOC1, opcode.LDLOC0).Syscall("System.Iterator.Value").Op(opcode.APPEND).Jmp(opcode.JMPL, "find_loop")
	b.Label("find_end").Op(opcode.LDLOC1, opcode.RET)

	m("notify", 1, false, false)
	b.InitSlot(0, 1).Op(opcode.LDARG0, opcode.PUSH1, opcode.PACK).Str("E").Syscall("System.Runtime.Notify").Op(opcode.PUSH1, opcode.RET)

	m("fail", 0, false, false)
	b.Str("boom").Op(opcode.THROW)
	m("abort", 0, false, false)
	b.Op(opcode.ABORT)

	m("call", 4, false, false)
	b.InitSlot(0, 4).Op(opcode.LDARG3, opcode.LDARG2, opcode.LDARG1, opcode.LDARG0).Syscall("System.Contract.Call").Op(opcode.RET)

	m("tryCall", 4, false, false)
	b.InitSlot(1, 4).Try("tc_catch", "")
	b.Op(opcode.LDARG3, opcode.LDARG2, opcode.LDARG1, opcode.LDARG0).Syscall("System.Contract.Call").Op(opcode.STLOC0).Jmp(opcode.ENDTRYL, "tc_end")
	b.Label("tc_catch").Op(opcode.DROP).Int(-1).Op(opcode.STLOC0).Jmp(opcode.ENDTRYL, "tc_end")
	b.Label("tc_end").Op(opcode.LDLOC0, opcode.RET)

	m("cw", 1, false, false)
	b.InitSlot(0, 1).Op(opcode.LDARG0).Syscall("System.Runtime.CheckWitness").Op(opcode.RET)

	m("burn", 1, false, false)
	b.InitSlot(0, 1).Op(opcode.LDARG0).Syscall("System.Runtime.BurnGas").Op(opcode.PUSH1, opcode.RET)

	m("xfer", 3, false, false)
	b.InitSlot(0, 3).Op(opcode.PUSHNULL, opcode.LDARG2, opcode.LDARG1).Syscall("System.Runtime.GetExecutingScriptHash").Op(opcode.PUSH4, opcode.PACK)
	b.Op(opcode.PUSH15).Str("transfer").Op(opcode.LDARG0).Syscall("System.Contract.Call").Op(opcode.RET)

	// Oracle callbacks (url, userData, code, result), void: a storage item under the url, an event with the other three.
	m("oracleCb", 4, true, false)
	b.InitSlot(0, 4).Op(opcode.LDARG3, opcode.LDARG0).Syscall("System.Storage.GetContext").Syscall("System.Storage.Put")
	b.Op(opcode.LDARG3, opcode.LDARG2, opcode.LDARG1, opcode.PUSH3, opcode.PACK, opcode.PUSH1, opcode.PACK).Str("E").Syscall("System.Runtime.Notify").Op(opcode.RET)
	// The same under the key FailedCallbackPrefix+url, then a throw: neither the item nor the event may survive.
	m("oracleCbFail", 4, true, false)
	b.InitSlot(0, 4).Op(opcode.LDARG3).Str(FailedCallbackPrefix).Op(opcode.LDARG0, opcode.CAT).Syscall("System.Storage.GetContext").Syscall("System.Storage.Put")
	b.Op(opcode.LDARG3, opcode.LDARG2, opcode.LDARG1, opcode.PUSH3, opcode.PACK, opcode.PUSH1, opcode.PACK).Str("E").Syscall("System.Runtime.Notify")
	b.Str("oracleCbFail").Op(opcode.THROW)

	m("destroy", 0, false, false)
	b.Op(opcode.NEWARRAY0, opcode.PUSH15).Str("destroy").Bytes(nativehashes.ContractManagement.BytesBE()).Syscall("System.Contract.Call").Op(opcode.RET)

	m("update", 2, false, false)
	b.InitSlot(0, 2).Op(opcode.PUSHNULL, opcode.LDARG1, opcode.LDARG0, opcode.PUSH3, opcode.PACK, opcode.PUSH15).Str("update").Bytes(nativehashes.ContractManagement.BytesBE()).Syscall("System.Contract.Call").Op(opcode.RET)

	b.Label("verify")
	ms = append(ms, asm.MethodSpec{Name: "verify", Label: "verify", Ret: smartcontract.BoolType})
	b.Op(opcode.PUSHT, opcode.RET)

	m("onNEP17Payment", 3, true, false)
	b.InitSlot(0, 3).Op(opcode.LDARG2, opcode.ISNULL).Jmp(opcode.JMPIFNOTL, "pay_data")
	// no data. A MINT (no sender: the GAS reward NEO pays when the balance or the vote of the contract changes, also
	// when its account is blocked) runs the call stored under "onmint" (serialised [hash, method, flags, args]), once.
	b.Op(opcode.LDARG0, opcode.ISNULL).Jmp(opcode.JMPIFNOTL, "pay_ok")
	b.Str("onmint").Syscall("System.Storage.GetContext").Syscall("System.Storage.Get")
	b.Op(opcode.DUP, opcode.ISNULL).Jmp(opcode.JMPIFL, "pay_drop")
	b.Str("onmint").Syscall("System.Storage.GetContext").Syscall("System.Storage.Delete")
	b.Op(opcode.PUSH1, opcode.PACK, opcode.PUSH15).Str("deserialize").Bytes(nativehashes.StdLib.BytesBE()).Syscall("System.Contract.Call")
	b.Op(opcode.UNPACK, opcode.DROP) // [h, m, f, args] -> h on top, then m, f, args
	b.Syscall("System.Contract.Call").Op(opcode.DROP, opcode.RET)
	b.Label("pay_drop").Op(opcode.DROP, opcode.RET)
	b.Label("pay_data")
	b.Op(opcode.LDARG2).Ins(opcode.ISTYPE, 0x40).Jmp(opcode.JMPIFL, "pay_call")
	b.Str("payment rejected").Op(opcode.THROW)
	b.Label("pay_call")
	b.Op(opcode.LDARG2, opcode.PUSH3, opcode.PICKITEM, opcode.LDARG2, opcode.PUSH2, opcode.PICKITEM, opcode.LDARG2, opcode.PUSH1, opcode.PICKITEM, opcode.LDARG2, opcode.PUSH0, opcode.PICKITEM)
	b.Syscall("System.Contract.Call").Op(opcode.DROP)
	b.Label("pay_ok").Op(opcode.RET)

	m("_deploy", 2, true, false)
	b.InitSlot(0, 2).Op(opcode.LDARG1).Str("dep").Syscall("System.Storage.GetContext").Syscall("System.Storage.Put").Op(opcode.RET)

	// A name ending in "big" pads the script (unreachable bytes after the last RET) so that the serialised contract
	// state is larger than a storage value a contract may write itself (64 KiB), yet within what ContractManagement
	// stores: every layer below (write cache, trie leaves, backends, state sync) has to carry it.
	if strings.HasSuffix(name, "big") {
		pad := make([]byte, 66000)
		for i := range pad {
			pad[i] = byte(opcode.NOP)
		}
		b.Raw(pad)
	}
	// Odd variants declare token standards: the node keeps the hashes of such contracts in a cached index
	// (GetNEP17Contracts / GetNEP11Contracts) that has to follow deployments, updates and destructions, discarded ones too.
	if variant%2 == 1 {
		std := manifest.NEP17StandardName
		if variant%4 == 3 {
			std = manifest.NEP11StandardName
		}
		opts = append([]asm.ManifestOpt{func(m *manifest.Manifest) { m.SupportedStandards = []string{std} }}, opts...)
	}
	c, err := asm.BuildContract(name, b, ms, opts...)
	if err != nil {
		panic(err)
	}
	return c
}

// ContractHash computes the hash a contract gets when deployed by sender.
func ContractHash(sender util.Uint160, c *asm.Contract) util.Uint160 {
	return state.CreateContractHash(sender, c.Checksum, c.Name)
}

// WithGroup adds a manifest group signed by key for the contract deployed by sender.
func WithGroup(sender util.Uint160, key Key, c *asm.Contract) asm.ManifestOpt {
	return func(m *manifest.Manifest) {
		h := state.CreateContractHash(sender, c.Checksum, c.Name)
		m.Groups = append(m.Groups, manifest.Group{PublicKey: key.Pub, Signature: key.Priv.Sign(h.BytesBE())})
	}
}
