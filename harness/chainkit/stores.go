package chainkit

import (
	"sync"

	"github.com/nspcc-dev/neo-go/pkg/core/storage"
)

// Commit is one atomic write the node issued to its backend.
type Commit struct {
	Kind string            // "put" (PutChangeSet) or "gc" (SeekGC deletions)
	Mem  map[string][]byte // nil value = deletion
	Stor map[string][]byte
}

// RecStore wraps a backend and records every atomic commit (PutChangeSet / SeekGC) in order.
// It survives node restarts (Close is a no-op; the harness owns the backend).
type RecStore struct {
	storage.Store
	mu      sync.Mutex
	Commits []Commit
}

// NewRecStore wraps st.
func NewRecStore(st storage.Store) *RecStore { return &RecStore{Store: st} }

func cloneMap(m map[string][]byte) map[string][]byte {
	out := make(map[string][]byte, len(m))
	for k, v := range m {
		if v == nil {
			out[k] = nil
		} else {
			out[k] = append([]byte{}, v...)
		}
	}
	return out
}

// PutChangeSet records and forwards.
func (r *RecStore) PutChangeSet(puts map[string][]byte, stor map[string][]byte) error {
	c := Commit{Kind: "put", Mem: cloneMap(puts), Stor: cloneMap(stor)}
	err := r.Store.PutChangeSet(puts, stor)
	if err == nil {
		r.mu.Lock()
		r.Commits = append(r.Commits, c)
		r.mu.Unlock()
	}
	return err
}

// SeekGC records the deletions it performs as one commit.
func (r *RecStore) SeekGC(rng storage.SeekRange, keep func(k, v []byte) (bool, bool)) error {
	c := Commit{Kind: "gc", Mem: map[string][]byte{}, Stor: map[string][]byte{}}
	err := r.Store.SeekGC(rng, func(k, v []byte) (bool, bool) {
		kp, cont := keep(k, v)
		if !kp {
			if len(k) > 0 && (k[0] == byte(storage.STStorage) || k[0] == byte(storage.STTempStorage)) {
				c.Stor[string(k)] = nil
			} else {
				c.Mem[string(k)] = nil
			}
		}
		return kp, cont
	})
	if err == nil && len(c.Mem)+len(c.Stor) > 0 {
		r.mu.Lock()
		r.Commits = append(r.Commits, c)
		r.mu.Unlock()
	}
	return err
}

// Close is a no-op: the store outlives the node.
func (r *RecStore) Close() error { return nil }

// Count returns the number of commits so far.
func (r *RecStore) Count() int {
	r.mu.Lock()
	defer r.mu.Unlock()
	return len(r.Commits)
}

// Materialise builds a fresh MemoryStore holding the first k commits.
func (r *RecStore) Materialise(k int) *storage.MemoryStore {
	r.mu.Lock()
	defer r.mu.Unlock()
	st := storage.NewMemoryStore()
	for i := 0; i < k && i < len(r.Commits); i++ {
		c := r.Commits[i]
		_ = st.PutChangeSet(cloneMap(c.Mem), cloneMap(c.Stor))
	}
	return st
}
