package chainkit

import (
	"fmt"
	"strings"
	"testing"
	"time"
)

func TestSmoke(t *testing.T) {
	for _, prof := range []string{"V1C1", "V1C3", "V4C6"} {
		for _, p2p := range []bool{false, true} {
			start := time.Now()
			b, err := NewBuilder(ChainCfg{Profile: prof, P2PSig: p2p, SRIH: p2p})
			if err != nil {
				t.Fatal(err)
			}
			raws, err := b.Bootstrap()
			if err != nil {
				t.Fatal(prof, err)
			}
			raw, blk, err := b.BuildBlock(BlockSpec{Txs: []Action{
				{Kind: "invoke", From: 2, A: 0, S: "put", K: []byte("k"), V: []byte("v"), Nonce: 100},
				{Kind: "vote", From: 1, A: 0, Nonce: 101},
				{Kind: "register", From: 6, A: 0, Nonce: 102},
				{Kind: "policy", From: 3, S: "setFeePerByte", N: 2000, Nonce: 103},
				{Kind: "invoke", From: 2, A: 1, S: "try_fail_put", K: []byte("z"), V: []byte("v"), B: 0, Nonce: 104},
				{Kind: "invoke", From: 2, A: 0, S: "put_then_fail", K: []byte("q"), V: []byte("v"), Nonce: 105},
				{Kind: "gas_transfer", From: 4, A: 20, N: 5, Nonce: 106},
			}, TimeD: 5})
			if err != nil {
				t.Fatal(err)
			}
			d := FullDump(b.N.BC, nil)
			a := AERs(b.N.BC, blk.Hash(), blk.Transactions, false)
			t.Log(prof, p2p, len(raws), len(raw), len(blk.Transactions), b.Rejected, len(d), len(a), time.Since(start))
			if len(a) != 9 || a["aer/tx4/0"] == "" {
				t.Fatal("unexpected AERs")
			}
			_ = d
			b.Close()
		}
	}
}

func TestSmokeNativeSetters(t *testing.T) {
	b, err := NewBuilder(ChainCfg{Profile: "V1C3", P2PSig: true})
	if err != nil {
		t.Fatal(err)
	}
	defer b.Close()
	if _, err := b.Bootstrap(); err != nil {
		t.Fatal(err)
	}
	_, blk, err := b.BuildBlock(BlockSpec{Txs: []Action{
		{Kind: "native_set", From: 3, S: "Oracle.setPrice", N: 7_0000_0000, Nonce: 1},
		{Kind: "native_set", From: 3, S: "Notary.setMaxNotValidBeforeDelta", N: 5, Nonce: 2},
		{Kind: "native_set", From: 3, S: "Management.setMinimumDeploymentFee", N: 1, Nonce: 3},
		{Kind: "oracle_request", From: 2, A: 0, S: "a", V: []byte("ud"), Nonce: 4},
		{Kind: "policy", From: 4, S: "setWhitelistFeeContract", A: 0, K: []byte("put"), N: 1000, Nonce: 5},
		{Kind: "gas_transfer", From: 1, A: 2, N: 5, B: 7, Nonce: 6},
	}, TimeD: 5})
	if err != nil {
		t.Fatal(err)
	}
	a := AERs(b.N.BC, blk.Hash(), blk.Transactions, false)
	for i := range blk.Transactions {
		s := a[fmt.Sprintf("aer/tx%d/0", i)]
		t.Log(i, s[:min(len(s), 400)])
		if i != 3 && !strings.Contains(s, `"HALT"`) { // tx 3 pays the price raised by tx 0 of the same block: out of gas
			t.Errorf("tx %d did not HALT", i)
		}
	}
	if len(blk.Transactions) != 6 {
		t.Fatalf("%d txs, rejected %v", len(blk.Transactions), b.Rejected)
	}
}

// TestSmokeFlows drives the oracle response and notary-assisted flows end to end.
func TestSmokeFlows(t *testing.T) {
	for _, prof := range []string{"V1C1", "V4C6"} {
		b, err := NewBuilder(ChainCfg{Profile: prof, P2PSig: true})
		if err != nil {
			t.Fatal(err)
		}
		if _, err := b.Bootstrap(); err != nil {
			t.Fatal(err)
		}
		bc := b.N.BC
		_, blk, err := b.BuildBlock(BlockSpec{Txs: []Action{
			{Kind: "oracle_request", From: 2, A: 0, S: "a", V: []byte("ud"), B: 1, N: 1_0000_0000, Nonce: 1},
			{Kind: "oracle_request", From: 2, A: 1, S: "b", V: []byte("ud"), B: 2, N: 1_0000_0000, Nonce: 2},
			{Kind: "oracle_request", From: 3, A: 1, S: "b", V: []byte("ud"), B: 0, Nonce: 3},
			{Kind: "oracle_request", From: 3, A: 0, S: "c", V: []byte{}, B: 1, N: 5000_0000, Nonce: 4},
		}, TimeD: 5})
		if err != nil || len(blk.Transactions) != 4 {
			t.Fatal(err, b.Rejected)
		}
		p, err := PendingOracleRequests(bc)
		if err != nil || len(p) != 4 {
			t.Fatal(err, len(p))
		}
		roleGas := func() string {
			s := ""
			for _, k := range RoleKeys {
				s += bc.GetUtilityTokenBalance(k.Hash, k.Hash).String() + " "
			}
			return s
		}
		t.Log("role keys GAS before:", roleGas())
		_, blk, err = b.BuildBlock(BlockSpec{Txs: []Action{
			{Kind: "oracle_response", A: 0, B: 0, V: []byte("result"), Nonce: 10},
			{Kind: "oracle_response", A: 1, B: 0, V: []byte("result"), Nonce: 11},
			{Kind: "oracle_response", A: 2, B: 5, V: []byte("result"), Nonce: 12},
			{Kind: "oracle_response", A: 3, B: 12, Nonce: 13},
			{Kind: "notary_assisted", From: 0, A: 2, B: NAExact, Inner: &Action{Kind: "gas_transfer", A: 3, N: 7}, Nonce: 20},
			{Kind: "notary_assisted", From: 1, A: 0, B: NAExact, Inner: &Action{Kind: "throw"}, Nonce: 21},
			{Kind: "notary_assisted", From: 0, A: 1, B: NAOverDeposit, Inner: &Action{Kind: "gas_transfer", A: 3, N: 7}, Nonce: 22},
			{Kind: "notary_assisted", From: 0, A: 1, B: NAThirdSigner, Inner: &Action{Kind: "gas_transfer", A: 3, N: 7}, Nonce: 23},
			{Kind: "notary_assisted", From: 2, A: 1, B: NACosigner, Inner: &Action{Kind: "policy", S: "setFeePerByte", N: 1500}, Nonce: 24},
			{Kind: "notary_assisted", From: 0, A: 3, B: NAWholeDeposit, Inner: &Action{Kind: "invoke", S: "put", A: 0, K: []byte("n"), V: []byte("v")}, Nonce: 25},
			{Kind: "notary_assisted", From: 0, A: 0, B: NAExact, Nonce: 26},
		}, TimeD: 5})
		if err != nil {
			t.Fatal(err)
		}
		t.Log(prof, "txs", len(blk.Transactions), "rejected", b.Rejected, "flow", b.Flow)
		t.Log("role keys GAS after:", roleGas())
		a := AERs(bc, blk.Hash(), blk.Transactions, false)
		for i, tx := range blk.Transactions {
			s := a[fmt.Sprintf("aer/tx%d/0", i)]
			t.Log(i, tx.Nonce, tx.SystemFee, tx.NetworkFee, s[:min(len(s), 300)])
		}
		if len(blk.Transactions) != 8 {
			t.Errorf("%d txs", len(blk.Transactions))
		}
		for _, l := range []string{"oracle-response", "oracle-response-callback-fault", "notary-assisted", "notary-assisted-fault", "notary-assisted-cosigned", "deposit-exhausted"} {
			if b.Flow[l] == 0 {
				t.Errorf("flow %s not seen", l)
			}
		}
		if p, _ := PendingOracleRequests(bc); len(p) != 0 {
			t.Errorf("%d requests still pending", len(p))
		}
		if l := LeakedFailedCallbackWrites(bc); len(l) != 0 {
			t.Errorf("leaked: %v", l)
		}
		if NotaryDeposit(bc, Accounts[0].Hash) != nil {
			t.Errorf("deposit of account 0 still there")
		}
		b.Close()
	}
}
