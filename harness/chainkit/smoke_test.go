package chainkit

import (
	"testing"
	"time"
)

func TestSmoke(t *testing.T) {
	for _, prof := range []string{"V1C1", "V1C3", "V4C6"} {
		for _, p2p := range []bool{false, true} {
			start := time.Now()
			b, err := NewBuilder(ChainCfg{Profile: prof, P2PSig: p2p, SRIH: p2p})
			if err != nil {
				t.Fatal(err)
			}
			raws, err := b.Bootstrap()
			if err != nil {
				t.Fatal(prof, err)
			}
			raw, blk, err := b.BuildBlock(BlockSpec{Txs: []Action{
				{Kind: "invoke", From: 2, A: 0, S: "put", K: []byte("k"), V: []byte("v"), Nonce: 100},
				{Kind: "vote", From: 1, A: 0, Nonce: 101},
				{Kind: "register", From: 6, A: 0, Nonce: 102},
				{Kind: "policy", From: 3, S: "setFeePerByte", N: 2000, Nonce: 103},
				{Kind: "invoke", From: 2, A: 1, S: "try_fail_put", K: []byte("z"), V: []byte("v"), B: 0, Nonce: 104},
				{Kind: "invoke", From: 2, A: 0, S: "put_then_fail", K: []byte("q"), V: []byte("v"), Nonce: 105},
				{Kind: "gas_transfer", From: 4, A: 20, N: 5, Nonce: 106},
			}, TimeD: 5})
			if err != nil {
				t.Fatal(err)
			}
			d := FullDump(b.N.BC, nil)
			a := AERs(b.N.BC, blk.Hash(), blk.Transactions, false)
			t.Log(prof, p2p, len(raws), len(raw), len(blk.Transactions), b.Rejected, len(d), len(a), time.Since(start))
			if len(a) != 9 || a["aer/tx4/0"] == "" {
				t.Fatal("unexpected AERs")
			}
			_ = d
			b.Close()
		}
	}
}
