package chainkit

import (
	"fmt"
	"strings"
	"testing"
	"time"
)

func TestSmoke(t *testing.T) {
	for _, prof := range []string{"V1C1", "V1C3", "V4C6"} {
		for _, p2p := range []bool{false, true} {
			start := time.Now()
			b, err := NewBuilder(ChainCfg{Profile: prof, P2PSig: p2p, SRIH: p2p})
			if err != nil {
				t.Fatal(err)
			}
			raws, err := b.Bootstrap()
			if err != nil {
				t.Fatal(prof, err)
			}
			raw, blk, err := b.BuildBlock(BlockSpec{Txs: []Action{
				{Kind: "invoke", From: 2, A: 0, S: "put", K: []byte("k"), V: []byte("v"), Nonce: 100},
				{Kind: "vote", From: 1, A: 0, Nonce: 101},
				{Kind: "register", From: 6, A: 0, Nonce: 102},
				{Kind: "policy", From: 3, S: "setFeePerByte", N: 2000, Nonce: 103},
				{Kind: "invoke", From: 2, A: 1, S: "try_fail_put", K: []byte("z"), V: []byte("v"), B: 0, Nonce: 104},
				{Kind: "invoke", From: 2, A: 0, S: "put_then_fail", K: []byte("q"), V: []byte("v"), Nonce: 105},
				{Kind: "gas_transfer", From: 4, A: 20, N: 5, Nonce: 106},
			}, TimeD: 5})
			if err != nil {
				t.Fatal(err)
			}
			d := FullDump(b.N.BC, nil)
			a := AERs(b.N.BC, blk.Hash(), blk.Transactions, false)
			t.Log(prof, p2p, len(raws), len(raw), len(blk.Transactions), b.Rejected, len(d), len(a), time.Since(start))
			if len(a) != 9 || a["aer/tx4/0"] == "" {
				t.Fatal("unexpected AERs")
			}
			_ = d
			b.Close()
		}
	}
}

func TestSmokeNativeSetters(t *testing.T) {
	b, err := NewBuilder(ChainCfg{Profile: "V1C3", P2PSig: true})
	if err != nil {
		t.Fatal(err)
	}
	defer b.Close()
	if _, err := b.Bootstrap(); err != nil {
		t.Fatal(err)
	}
	_, blk, err := b.BuildBlock(BlockSpec{Txs: []Action{
		{Kind: "native_set", From: 3, S: "Oracle.setPrice", N: 7_0000_0000, Nonce: 1},
		{Kind: "native_set", From: 3, S: "Notary.setMaxNotValidBeforeDelta", N: 5, Nonce: 2},
		{Kind: "native_set", From: 3, S: "Management.setMinimumDeploymentFee", N: 1, Nonce: 3},
		{Kind: "oracle_request", From: 2, A: 0, S: "a", V: []byte("ud"), Nonce: 4},
		{Kind: "policy", From: 4, S: "setWhitelistFeeContract", A: 0, K: []byte("put"), N: 1000, Nonce: 5},
		{Kind: "gas_transfer", From: 1, A: 2, N: 5, B: 7, Nonce: 6},
	}, TimeD: 5})
	if err != nil {
		t.Fatal(err)
	}
	a := AERs(b.N.BC, blk.Hash(), blk.Transactions, false)
	for i := range blk.Transactions {
		s := a[fmt.Sprintf("aer/tx%d/0", i)]
		t.Log(i, s[:min(len(s), 400)])
		if i != 3 && !strings.Contains(s, `"HALT"`) { // tx 3 pays the price raised by tx 0 of the same block: out of gas
			t.Errorf("tx %d did not HALT", i)
		}
	}
	if len(blk.Transactions) != 6 {
		t.Fatalf("%d txs, rejected %v", len(blk.Transactions), b.Rejected)
	}
}
