package chainkit

import (
	"bytes"
	"encoding/binary"
	"errors"
	"fmt"
	"os"
	"sort"

	"github.com/nspcc-dev/neo-go/pkg/core"
	"github.com/nspcc-dev/neo-go/pkg/core/block"
	"github.com/nspcc-dev/neo-go/pkg/core/native"
	"github.com/nspcc-dev/neo-go/pkg/core/native/nativehashes"
	"github.com/nspcc-dev/neo-go/pkg/core/native/nativeids"
	"github.com/nspcc-dev/neo-go/pkg/core/native/noderoles"
	"github.com/nspcc-dev/neo-go/pkg/core/state"
	"github.com/nspcc-dev/neo-go/pkg/core/transaction"
	"github.com/nspcc-dev/neo-go/pkg/io"
	"github.com/nspcc-dev/neo-go/pkg/smartcontract"
	"github.com/nspcc-dev/neo-go/pkg/smartcontract/trigger"
	"github.com/nspcc-dev/neo-go/pkg/util"
	"github.com/nspcc-dev/neo-go/pkg/vm/emit"
	"github.com/nspcc-dev/neo-go/pkg/vm/stackitem"
	"github.com/nspcc-dev/neo-go/pkg/vm/vmstate"
	"verifharness/vt"
)

// This file holds the two flows whose transactions are not made by ordinary accounts:
//
//	oracle_response   answers a pending oracle request the way pkg/services/oracle does: script = the native's response
//	                  script, signers [Oracle contract, multisig of the CURRENTLY designated oracle nodes] both with scope
//	                  None, attribute OracleResponse{ID, Code, Result}, fees covering the request's GasForResponse.
//	                  A = index into the pending requests (ordered by id, modulo their number), B = response code selector
//	                  (OracleCodes), V = result (sent with code Success only), GasAdj = added to the system fee.
//	notary_assisted   a transaction with a NotaryAssisted{NKeys} attribute witnessed by a designated P2PNotary node.
//	                  From = depositor (an ordinary account), A = NKeys, N = which designated node signs, Inner = the
//	                  action whose script is carried (its From is replaced by the depositor), Scope = depositor's scope,
//	                  B = mode:
//	                    0 sender is the Notary contract, fees exactly as required (charged to the depositor's deposit)
//	                    1 the same, network fee raised so that the fees equal the REMAINING deposit (record disappears)
//	                    2 one unit above the remaining deposit: admission must refuse it
//	                    3 a third ordinary signer next to [Notary, depositor]: admission must refuse it
//	                    4 the depositor is the sender and pays from its own balance, Notary only co-signs
//	                       (any further signers the inner script needs are added)

// OracleCallbacks are the callback names an oracle_request may name (selected by Action.B).
var OracleCallbacks = []string{"notify", "oracleCb", "oracleCbFail"}

// FailedCallbackPrefix starts the storage key oracleCbFail writes right before it throws: no such item may ever exist.
const FailedCallbackPrefix = "F!"

// OracleCodes are the response codes an oracle_response may carry (selected by Action.B; Success is frequent).
var OracleCodes = []transaction.OracleResponseCode{
	transaction.Success, transaction.Success, transaction.Success, transaction.Success,
	transaction.ProtocolNotSupported, transaction.ConsensusUnreachable, transaction.NotFound, transaction.Timeout,
	transaction.Forbidden, transaction.ResponseTooLarge, transaction.InsufficientFunds, transaction.ContentTypeNotSupported,
	transaction.Error,
}

// Notary-assisted modes (Action.B).
const (
	NAExact = iota
	NAWholeDeposit
	NAOverDeposit
	NAThirdSigner
	NACosigner
	NAModes
)

// PendingRequest is one stored oracle request.
type PendingRequest struct {
	ID  uint64
	Req *state.OracleRequest
}

// PendingOracleRequests decodes the pending requests from the storage of the native Oracle, ordered by id.
func PendingOracleRequests(bc *core.Blockchain) ([]PendingRequest, error) {
	var (
		out []PendingRequest
		err error
	)
	bc.SeekStorage(nativeids.OracleContract, []byte{7}, func(k, v []byte) bool {
		if len(k) != 8 {
			err = fmt.Errorf("oracle request key of %d bytes", len(k))
			return false
		}
		req := new(state.OracleRequest)
		if e := stackitem.DeserializeConvertible(v, req); e != nil {
			err = fmt.Errorf("oracle request %x: %w", k, e)
			return false
		}
		out = append(out, PendingRequest{ID: binary.BigEndian.Uint64(k), Req: req})
		return true
	})
	sort.Slice(out, func(i, j int) bool { return out[i].ID < out[j].ID })
	return out, err
}

// OracleNodesActor is the multisig of the oracle nodes designated for the next block (nil when there are none).
func (b *Builder) OracleNodesActor() (*Actor, error) {
	nodes, _, err := b.N.BC.GetDesignatedByRole(noderoles.Oracle)
	if err != nil {
		return nil, err
	}
	if len(nodes) == 0 {
		return nil, nil
	}
	a, err := MultisigOfPubs(smartcontract.GetDefaultHonestNodeCount(len(nodes)), nodes)
	if err != nil {
		return nil, err
	}
	return &a, nil
}

func mod(i, n int) int { return ((i % n) + n) % n }

// KnownOracleOrigTx is the key of a finding recorded in known_findings.json (status known, not repaired):
// Oracle.finish loads the ORIGINAL REQUEST TRANSACTION from the node's block storage (native/oracle.go finishDeferrable,
// ic.DAO.GetTransaction(req.OriginalTxID), its signers become the signers of the callback) without any traceability rule.
// A request may stay pending for longer than MaxTraceableBlocks; nodes that do not keep untraceable blocks
// (Ledger.RemoveUntraceableBlocks after a GC run, nodes that joined by P2P state synchronisation) no longer have that
// transaction: the response FAULTs there ("oracle request not found") and HALTs on archival nodes -> different state roots
// for the same block. While the finding is listed for the running property the builder does not build responses to
// requests whose original transaction is not traceable at the next block (height + MaxTraceableBlocks <= next index);
// they are counted in Builder.Excluded. StrictKnown switches the exclusion off (probes).
const KnownOracleOrigTx = "oracle-response-needs-untraceable-request-tx"

// StrictKnown disables the exclusion of known-finding shapes (set by the re-confirmation probes; VERIF_STRICT_KNOWN=1
// sets it for a whole run, e.g. to replay a recorded case of the finding).
var StrictKnown = os.Getenv("VERIF_STRICT_KNOWN") == "1"

func (b *Builder) untraceableOrigTx(req *state.OracleRequest) bool {
	bc := b.N.BC
	_, h, err := bc.GetTransaction(req.OriginalTxID)
	if err != nil {
		return true
	}
	return uint64(h)+uint64(bc.GetMaxTraceableBlocks()) <= uint64(bc.BlockHeight())+1
}

func (b *Builder) makeOracleResponse(a Action) (*transaction.Transaction, error) {
	bc := b.N.BC
	nodes, err := b.OracleNodesActor()
	if err != nil {
		return nil, err
	}
	if nodes == nil {
		return nil, errors.New("no oracle nodes designated")
	}
	pending, err := PendingOracleRequests(bc)
	if err != nil {
		return nil, err
	}
	if len(pending) == 0 {
		return nil, errors.New("no pending oracle request")
	}
	p := pending[mod(a.A, len(pending))]
	if !StrictKnown && vt.Known(KnownOracleOrigTx) && b.untraceableOrigTx(p.Req) {
		b.Excluded++
		return nil, errors.New("excluded: known finding " + KnownOracleOrigTx)
	}
	resp := &transaction.OracleResponse{ID: p.ID, Code: OracleCodes[mod(a.B, len(OracleCodes))]}
	if resp.Code == transaction.Success {
		resp.Result = []byte(a.V)
	}
	tx := transaction.New(native.CreateOracleResponseScript(nativehashes.OracleContract), 0)
	tx.Nonce = a.Nonce
	tx.ValidUntilBlock = bc.BlockHeight() + 1 + a.VUB%max(1, bc.GetMaxValidUntilBlockIncrement())
	tx.Attributes = []transaction.Attribute{{Type: transaction.OracleResponseT, Value: resp}}
	tx.Signers = []transaction.Signer{
		{Account: nativehashes.OracleContract, Scopes: transaction.None},
		{Account: nodes.Hash, Scopes: transaction.None},
	}
	signers := []txSigner{
		{contract: true, hash: nativehashes.OracleContract},
		{actor: nodes, hash: nodes.Hash},
	}
	if err := b.AddNetworkFee(tx, signers); err != nil {
		return nil, err
	}
	gfr := int64(p.Req.GasForResponse)
	if tx.NetworkFee > gfr && resp.Code != transaction.InsufficientFunds {
		// what the oracle service does when the request's gas does not even cover the network fee
		resp.Code, resp.Result = transaction.InsufficientFunds, nil
		if err := b.AddNetworkFee(tx, signers); err != nil {
			return nil, err
		}
	}
	tx.SystemFee = max(0, gfr-tx.NetworkFee) + a.GasAdj
	if tx.SystemFee < 0 {
		tx.SystemFee = 0
	}
	b.Sign(tx, signers)
	return tx, nil
}

// NotaryDeposit reads the deposit record of an account (nil: none).
func NotaryDeposit(bc *core.Blockchain, acc util.Uint160) *state.Deposit {
	si := bc.GetStorageItem(nativeids.Notary, append([]byte{1}, acc.BytesBE()...))
	if si == nil {
		return nil
	}
	d := new(state.Deposit)
	if stackitem.DeserializeConvertible(si, d) != nil {
		return nil
	}
	return d
}

// pooledNotaryFees sums the fees of the pooled transactions charged to the deposit of acc.
func pooledNotaryFees(bc *core.Blockchain, acc util.Uint160) int64 {
	var sum int64
	for _, tx := range bc.GetMemPool().GetVerifiedTransactions() {
		if tx.Sender() == nativehashes.Notary && len(tx.Signers) > 1 && tx.Signers[1].Account == acc {
			sum += tx.SystemFee + tx.NetworkFee
		}
	}
	return sum
}

func (b *Builder) makeNotaryAssisted(a Action) (*transaction.Transaction, error) {
	bc := b.N.BC
	nodes, _, err := bc.GetDesignatedByRole(noderoles.P2PNotary)
	if err != nil {
		return nil, err
	}
	if len(nodes) == 0 {
		return nil, errors.New("no notary node designated")
	}
	node, ok := KeyByPub(nodes[mod(int(a.N%1024), len(nodes))])
	if !ok {
		return nil, errors.New("notary node not in the cast")
	}
	fromP := mod(a.From, NAccounts)
	depositor := Accounts[fromP]
	inner := Action{Kind: "syscall_time"}
	if a.Inner != nil {
		inner = *a.Inner
	}
	inner.From = fromP
	script, extra, err := b.MakeScript(inner)
	if err != nil {
		return nil, err
	}
	mode := mod(a.B, NAModes)
	tx := transaction.New(script, 0)
	tx.Nonce = a.Nonce
	tx.ValidUntilBlock = bc.BlockHeight() + 1 + a.VUB%max(1, bc.GetMaxValidUntilBlockIncrement())
	tx.Attributes = []transaction.Attribute{{Type: transaction.NotaryAssistedT, Value: &transaction.NotaryAssisted{NKeys: uint8(mod(a.A, 256))}}}
	var signers []txSigner
	add := func(s txSigner, scope transaction.WitnessScope) {
		for _, e := range signers {
			if e.hash == s.hash {
				return
			}
		}
		signers = append(signers, s)
		tx.Signers = append(tx.Signers, transaction.Signer{Account: s.hash, Scopes: scope})
	}
	notary := txSigner{contract: true, hash: nativehashes.Notary, inv: func(t *transaction.Transaction) []byte {
		w := io.NewBufBinWriter()
		emit.Bytes(w.BinWriter, node.Priv.SignHashable(uint32(Magic), t))
		return w.Bytes()
	}}
	dep := Single(depositor)
	if mode == NACosigner {
		add(txSigner{actor: &dep, hash: dep.Hash}, scopeOf(a.Scope))
		add(notary, transaction.None)
		for _, p := range extra {
			var s txSigner
			if p < 0 {
				act := Single(candKey(-1 - p))
				s = txSigner{actor: &act, hash: act.Hash}
			} else {
				act, isC, h := b.party(p)
				s = txSigner{actor: act, contract: isC, hash: h}
			}
			add(s, transaction.Global)
		}
	} else {
		add(notary, transaction.None)
		add(txSigner{actor: &dep, hash: dep.Hash}, scopeOf(a.Scope))
		if mode == NAThirdSigner {
			third := Single(Accounts[(fromP+1)%NAccounts])
			add(txSigner{actor: &third, hash: third.Hash}, transaction.CalledByEntry)
		}
	}
	gas, _ := b.TestInvoke(tx)
	tx.SystemFee = max(0, gas+inner.GasAdj)
	if err := b.AddNetworkFee(tx, signers); err != nil {
		return nil, err
	}
	if mode == NAWholeDeposit || mode == NAOverDeposit {
		d := NotaryDeposit(bc, depositor.Hash)
		if d == nil || !d.Amount.IsInt64() {
			return nil, errors.New("the depositor has no notary deposit")
		}
		left := d.Amount.Int64() - pooledNotaryFees(bc, depositor.Hash)
		if left < tx.SystemFee+tx.NetworkFee {
			return nil, errors.New("the remaining notary deposit does not cover the required fees")
		}
		tx.NetworkFee = left - tx.SystemFee
		if mode == NAOverDeposit {
			tx.NetworkFee++
		}
	}
	b.Sign(tx, signers)
	return tx, nil
}

// Flows classifies what a just-added block contained (labels for the class histograms of the checks):
//
//	oracle-response                  an accepted response whose execution HALTed (the callback ran to its end)
//	oracle-response-callback-fault   an accepted response whose execution FAULTed (callback threw / not found / out of gas)
//	oracle-response-error-code       an accepted response with a code other than Success
//	oracle-nodes-paid                PostPersist minted GAS to a designated oracle node
//	notary-assisted                  an accepted NotaryAssisted transaction paid from a deposit, HALTed
//	notary-assisted-fault            the same, FAULTed
//	notary-assisted-cosigned         an accepted NotaryAssisted transaction whose sender is an ordinary account
//	notary-nodes-paid                there were designated notary nodes to reward
//	deposit-exhausted                the fees of the block's transactions consumed a whole deposit (record removed by OnPersist)
//
// depositsBefore = NotaryDeposits(bc) taken before the block (nil: the label deposit-exhausted is not evaluated).
func Flows(bc *core.Blockchain, blk *block.Block, depositsBefore map[util.Uint160]int64) []string {
	set := map[string]bool{}
	charged := map[util.Uint160]int64{}
	for _, tx := range blk.Transactions {
		halted := false
		if aer, err := bc.GetAppExecResults(tx.Hash(), trigger.Application); err == nil && len(aer) == 1 {
			halted = aer[0].VMState == vmstate.Halt
		}
		if bytes.Contains(tx.Script, []byte("getTransactionFromBlock")) || bytes.Contains(tx.Script, []byte("\x08getBlock")) {
			if halted {
				set["ledger-question-answered"] = true
			} else {
				set["ledger-question-fault"] = true
			}
		}
		for _, at := range tx.Attributes {
			switch at.Type {
			case transaction.OracleResponseT:
				if halted {
					set["oracle-response"] = true
				} else {
					set["oracle-response-callback-fault"] = true
				}
				if at.Value.(*transaction.OracleResponse).Code != transaction.Success {
					set["oracle-response-error-code"] = true
				}
				if nodes, _, err := bc.GetDesignatedByRole(noderoles.Oracle); err == nil && len(nodes) > 0 {
					set["oracle-nodes-paid"] = true
				}
			case transaction.NotaryAssistedT:
				if tx.Sender() != nativehashes.Notary {
					set["notary-assisted-cosigned"] = true
					break
				}
				if halted {
					set["notary-assisted"] = true
				} else {
					set["notary-assisted-fault"] = true
				}
				if len(tx.Signers) > 1 {
					charged[tx.Signers[1].Account] += tx.SystemFee + tx.NetworkFee
				}
				if nodes, _, err := bc.GetDesignatedByRole(noderoles.P2PNotary); err == nil && len(nodes) > 0 {
					set["notary-nodes-paid"] = true
				}
			}
		}
	}
	for acc, fees := range charged {
		if before, ok := depositsBefore[acc]; ok && before == fees {
			set["deposit-exhausted"] = true
		}
	}
	var out []string
	for l := range set {
		out = append(out, l)
	}
	sort.Strings(out)
	return out
}

// NotaryDeposits reads all deposit amounts.
func NotaryDeposits(bc *core.Blockchain) map[util.Uint160]int64 {
	m := map[util.Uint160]int64{}
	bc.SeekStorage(nativeids.Notary, []byte{1}, func(k, v []byte) bool {
		h, err := util.Uint160DecodeBytesBE(k)
		if err != nil {
			return true
		}
		d := new(state.Deposit)
		if stackitem.DeserializeConvertible(v, d) == nil && d.Amount != nil && d.Amount.IsInt64() {
			m[h] = d.Amount.Int64()
		}
		return true
	})
	return m
}

// LeakedFailedCallbackWrites lists storage items (contract id/key) written by oracleCbFail that survived its throw.
func LeakedFailedCallbackWrites(bc *core.Blockchain) []string {
	var out []string
	for id := int32(1); id <= MaxContractID; id++ {
		bc.SeekStorage(id, []byte(FailedCallbackPrefix), func(k, v []byte) bool {
			out = append(out, fmt.Sprintf("%d/%s%s=%x", id, FailedCallbackPrefix, k, v))
			return true
		})
	}
	return out
}
