// Package chainkit builds generated block histories on real core.Blockchain instances (DESIGN.md §2.1):
// a deterministic cast of keys, protocol/node configurations built in code, a transaction grammar, block
// assembly and signing, replicas with restart, full-state observation and store wrappers.
package chainkit

import (
	"crypto/elliptic"
	"crypto/sha256"
	"fmt"
	"github.com/nspcc-dev/neo-go/pkg/core/block"
	"github.com/nspcc-dev/neo-go/pkg/smartcontract/scparser"
	"sort"

	"github.com/nspcc-dev/neo-go/pkg/config/netmode"
	"github.com/nspcc-dev/neo-go/pkg/crypto/hash"
	"github.com/nspcc-dev/neo-go/pkg/crypto/keys"
	"github.com/nspcc-dev/neo-go/pkg/io"
	"github.com/nspcc-dev/neo-go/pkg/smartcontract"
	"github.com/nspcc-dev/neo-go/pkg/util"
	"github.com/nspcc-dev/neo-go/pkg/vm/emit"
	"github.com/nspcc-dev/neo-go/pkg/vm/opcode"
)

// Magic is the network magic used by all harness chains.
const Magic = netmode.UnitTestNet

// Key is one deterministic key of the cast.
type Key struct {
	Priv *keys.PrivateKey
	Pub  *keys.PublicKey
	Hash util.Uint160 // script hash of the standard signature contract
	Ver  []byte       // verification script
}

// Cast indices: committee keys, ordinary accounts, candidate keys.
const (
	NCommittee  = 7 // committee pool (the profile uses a prefix of it)
	NAccounts   = 6
	NCandidates = 3
)

var (
	// CommitteeKeys are sorted by public key (neo-go expects validators in a consistent order only through scripts).
	CommitteeKeys []Key
	// Accounts are ordinary funded accounts.
	Accounts []Key
	// Candidates are keys that may register as candidates (they are accounts too).
	Candidates []Key
	// NotaryNode / OracleNode keys for role designation.
	RoleKeys []Key

	byPub = map[string]Key{}
)

func mkKey(tag string, i int) Key {
	for ctr := 0; ; ctr++ {
		h := sha256.Sum256([]byte(fmt.Sprintf("verif-%s-%d-%d", tag, i, ctr)))
		p, err := keys.NewPrivateKeyFromBytes(h[:])
		if err != nil {
			continue
		}
		pub := p.PublicKey()
		ver := pub.GetVerificationScript()
		k := Key{Priv: p, Pub: pub, Hash: hash.Hash160(ver), Ver: ver}
		byPub[string(pub.Bytes())] = k
		return k
	}
}

func init() {
	for i := 0; i < NCommittee; i++ {
		CommitteeKeys = append(CommitteeKeys, mkKey("committee", i))
	}
	for i := 0; i < NAccounts; i++ {
		Accounts = append(Accounts, mkKey("account", i))
	}
	for i := 0; i < NCandidates; i++ {
		Candidates = append(Candidates, mkKey("candidate", i))
	}
	for i := 0; i < 3; i++ {
		RoleKeys = append(RoleKeys, mkKey("role", i))
	}
}

// KeyByPub finds the cast key for a public key.
func KeyByPub(p *keys.PublicKey) (Key, bool) {
	k, ok := byPub[string(p.Bytes())]
	return k, ok
}

// Actor is anything that can sign: a single key or an m-of-n multisig of cast keys.
type Actor struct {
	M    int
	Keys []Key // sorted by public key for multisig
	Ver  []byte
	Hash util.Uint160
}

// Single makes an Actor of one key.
func Single(k Key) Actor { return Actor{M: 0, Keys: []Key{k}, Ver: k.Ver, Hash: k.Hash} }

// Multisig makes an m-of-n Actor (keys are sorted as CreateMultiSigRedeemScript does).
func Multisig(m int, ks []Key) Actor {
	sorted := append([]Key{}, ks...)
	sort.Slice(sorted, func(i, j int) bool { return sorted[i].Pub.Cmp(sorted[j].Pub) < 0 })
	pubs := make(keys.PublicKeys, len(sorted))
	for i := range sorted {
		pubs[i] = sorted[i].Pub
	}
	script, err := smartcontract.CreateMultiSigRedeemScript(m, pubs)
	if err != nil {
		panic(err)
	}
	return Actor{M: m, Keys: sorted, Ver: script, Hash: hash.Hash160(script)}
}

// MultisigOfPubs builds the actor for a list of public keys all belonging to the cast.
func MultisigOfPubs(m int, pubs []*keys.PublicKey) (Actor, error) {
	ks := make([]Key, len(pubs))
	for i, p := range pubs {
		k, ok := KeyByPub(p)
		if !ok {
			return Actor{}, fmt.Errorf("public key %s is not in the cast", p.StringCompressed())
		}
		ks[i] = k
	}
	return Multisig(m, ks), nil
}

// Invocation returns the invocation script signing the hashable item (first M keys sign for multisig).
func (a Actor) Invocation(item hash.Hashable) []byte {
	return a.InvocationN(item, a.M)
}

// InvocationN signs with the first n keys (n may be lower than M to build a deliberately insufficient witness).
func (a Actor) InvocationN(item hash.Hashable, n int) []byte {
	w := io.NewBufBinWriter()
	if a.M == 0 {
		emit.Bytes(w.BinWriter, a.Keys[0].Priv.SignHashable(uint32(Magic), item))
		return w.Bytes()
	}
	for i := 0; i < n && i < len(a.Keys); i++ {
		emit.Bytes(w.BinWriter, a.Keys[i].Priv.SignHashable(uint32(Magic), item))
	}
	return w.Bytes()
}

// DummyInvocation is an invocation script of the right size for fee calculation.
func (a Actor) DummyInvocation() []byte {
	n := a.M
	if n == 0 {
		n = 1
	}
	w := io.NewBufBinWriter()
	for i := 0; i < n; i++ {
		emit.Bytes(w.BinWriter, make([]byte, 64))
	}
	return w.Bytes()
}

var _ = opcode.RET

// AltInvocation signs the item with the LAST M keys of a multisignature actor: another valid witness of the same script
// (any M of N signatures make one; peers of a network hold different ones for the same block). ok=false when the actor
// has no second choice (M == N, or a single key).
func (a Actor) AltInvocation(item hash.Hashable) (inv []byte, ok bool) {
	if a.M == 0 || a.M >= len(a.Keys) {
		return nil, false
	}
	w := io.NewBufBinWriter()
	for i := len(a.Keys) - a.M; i < len(a.Keys); i++ {
		emit.Bytes(w.BinWriter, a.Keys[i].Priv.SignHashable(uint32(Magic), item))
	}
	return w.Bytes(), true
}

// AltBlockWitness gives the block another valid witness (see AltInvocation); false when there is none.
func AltBlockWitness(b *block.Block) bool {
	m, pubsB, ok := scparser.ParseMultiSigContract(b.Script.VerificationScript)
	if !ok {
		return false
	}
	pubs := make([]*keys.PublicKey, len(pubsB))
	for i, pb := range pubsB {
		p, err := keys.NewPublicKeyFromBytes(pb, elliptic.P256())
		if err != nil {
			return false
		}
		pubs[i] = p
	}
	act, err := MultisigOfPubs(m, pubs)
	if err != nil {
		return false
	}
	inv, ok := act.AltInvocation(b)
	if !ok {
		return false
	}
	b.Script.InvocationScript = inv
	return true
}
