package chainkit

import (
	"bytes"
	"github.com/nspcc-dev/neo-go/pkg/core/native/noderoles"
	"pgregory.net/rapid"
	"verifharness/vt"
)

// GenBias selects which families of actions dominate a generated history.
type GenBias struct {
	Governance int // votes, candidates, committee-signed policy/NEO settings, blocked accounts
	Value      int // token transfers, notary deposits
	Storage    int // deploy / invoke / multi_put / update / destroy
	Faults     int // throwing scripts, out-of-gas, failed nested calls
	Attrs      int // percentage of txs carrying attributes (0..100)
	P2PSig     bool
	Oracle     int // oracle requests (2 of 5) and oracle responses (3 of 5)
	Notary     int // notary-assisted transactions (only drawn when P2PSig)
}

// BalancedBias is the default mixture.
func BalancedBias(p2psig bool) GenBias {
	return GenBias{Governance: 4, Value: 3, Storage: 4, Faults: 2, Attrs: 10, P2PSig: p2psig, Oracle: 2, Notary: 1}
}

var keyAlphabet = []byte{0x00, 0x01, 0x10, 0xff, 'a', 'b'}

// GenStorageKey draws a short storage key from a tiny alphabet (so deletes and overwrites hit).
func GenStorageKey(t *rapid.T, label string) vt.Bytes {
	n := rapid.IntRange(0, 3).Draw(t, label+"_n")
	if rapid.IntRange(0, 11).Draw(t, label+"_long") == 0 {
		// around the maximum key length of a contract (64 bytes; 65 is refused by System.Storage.Put)
		n = rapid.SampledFrom([]int{62, 63, 64, 64, 64, 65}).Draw(t, label+"_nlong")
		k := bytes.Repeat([]byte{rapid.SampledFrom(keyAlphabet).Draw(t, label+"_fill")}, n)
		k[n-1] = rapid.SampledFrom(keyAlphabet).Draw(t, label+"_last")
		return k
	}
	k := make([]byte, n)
	for i := range k {
		k[i] = rapid.SampledFrom(keyAlphabet).Draw(t, label+"_b")
	}
	return k
}

// GenStorageVal draws a small value (often equal to other values, sometimes empty).
func GenStorageVal(t *rapid.T, label string) vt.Bytes {
	switch rapid.IntRange(0, 5).Draw(t, label+"_k") {
	case 0:
		return vt.Bytes{}
	case 1, 2:
		return vt.Bytes("v")
	case 3:
		return vt.Bytes("w")
	default:
		return rapid.SliceOfN(rapid.Byte(), 1, 5).Draw(t, label+"_raw")
	}
}

func genParty(t *rapid.T, label string) int { return rapid.IntRange(0, NParties-1).Draw(t, label) }

func genAmount(t *rapid.T, label string, neo bool) int64 {
	switch rapid.IntRange(0, 7).Draw(t, label+"_k") {
	case 0:
		return 0
	case 1:
		return 1
	case 2:
		if neo {
			return 1000000 // more than anybody holds
		}
		return 90000_0000_0000 // more than the balance
	case 3:
		if neo {
			return rapid.Int64Range(1, 6000).Draw(t, label+"_v")
		}
		return rapid.Int64Range(1, 5_0000_0000).Draw(t, label+"_v")
	default:
		if neo {
			return rapid.Int64Range(1, 900).Draw(t, label+"_v")
		}
		return rapid.Int64Range(1, 100_0000_0000).Draw(t, label+"_v")
	}
}

// GenAction draws one transaction spec.
func GenAction(t *rapid.T, bias GenBias) Action {
	a := Action{Nonce: rapid.Uint32().Draw(t, "nonce"), From: genParty(t, "from")}
	nw := bias.Notary
	if !bias.P2PSig {
		nw = 0
	}
	fam := weighted(t, "family", bias.Governance, bias.Value, bias.Storage, bias.Faults, bias.Oracle, nw)
	switch fam {
	case 4: // oracle
		if rapid.IntRange(0, 4).Draw(t, "ok") < 2 {
			GenOracleRequest(t, &a)
		} else {
			GenOracleResponse(t, &a)
		}
	case 5: // notary-assisted
		GenNotaryAssisted(t, &a)
	case 0: // governance
		switch rapid.IntRange(0, 13).Draw(t, "gov") {
		case 0, 1, 2:
			a.Kind = "vote"
			a.A = rapid.IntRange(-1, NCandidates+1).Draw(t, "cand")
		case 3, 4:
			a.Kind = "register"
			a.A = rapid.IntRange(0, NCandidates+1).Draw(t, "cand")
		case 5:
			a.Kind = "register_pay"
			a.A = rapid.IntRange(0, NCandidates+1).Draw(t, "cand")
			a.N = rapid.SampledFrom([]int64{1000_0000_0000, 1000_0000_0000, 999_0000_0000, 1500_0000_0000}).Draw(t, "pay")
		case 6:
			a.Kind = "unregister"
			a.A = rapid.IntRange(0, NCandidates+1).Draw(t, "cand")
		case 7, 8:
			a.Kind = "policy"
			a.S = rapid.SampledFrom([]string{"blockAccount", "unblockAccount", "blockCandidate", "unblockCandidate", "blockCandidate"}).Draw(t, "pm")
			if a.S == "blockAccount" || a.S == "unblockAccount" {
				a.A = genParty(t, "target")
			} else {
				a.A = rapid.IntRange(0, NCandidates+1).Draw(t, "cand")
			}
		case 9, 10:
			a.Kind = "policy"
			a.S = rapid.SampledFrom([]string{"setFeePerByte", "setExecFeeFactor", "setStoragePrice", "setAttributeFee", "setMillisecondsPerBlock", "setMaxValidUntilBlockIncrement", "setMaxTraceableBlocks", "setWhitelistFeeContract", "setWhitelistFeeContract", "removeWhitelistFeeContract"}).Draw(t, "pm")
			switch a.S {
			case "setWhitelistFeeContract", "removeWhitelistFeeContract": // A = contract, K = method (put | get | notify), N = fixed fee
				a.A = rapid.IntRange(0, 2).Draw(t, "wl_contract")
				a.K = vt.Bytes(rapid.SampledFrom([]string{"put", "put", "get", "notify", "oracleCb"}).Draw(t, "wl_method"))
				a.N = rapid.SampledFrom([]int64{0, 1, 1000, 123456, 10000000}).Draw(t, "wl_fee")
			case "setFeePerByte":
				a.N = rapid.Int64Range(0, 3000).Draw(t, "v")
			case "setExecFeeFactor":
				a.N = rapid.Int64Range(1, 60).Draw(t, "v")
			case "setStoragePrice":
				a.N = rapid.Int64Range(1, 300000).Draw(t, "v")
			case "setAttributeFee":
				a.A = rapid.SampledFrom([]int{1, 0x11, 0x20, 0x21, 0x22}).Draw(t, "attr")
				a.N = rapid.Int64Range(0, 5_0000_0000).Draw(t, "v")
			case "setMillisecondsPerBlock":
				a.N = rapid.Int64Range(1, 20000).Draw(t, "v")
			case "setMaxValidUntilBlockIncrement":
				a.N = rapid.Int64Range(1, 40).Draw(t, "v")
			case "setMaxTraceableBlocks":
				a.N = rapid.Int64Range(2, 1000).Draw(t, "v")
			}
		case 11:
			a.Kind = "neo_set"
			a.S = rapid.SampledFrom([]string{"setGasPerBlock", "setRegisterPrice", "Oracle.setPrice", "Notary.setMaxNotValidBeforeDelta", "Management.setMinimumDeploymentFee"}).Draw(t, "nm")
			switch a.S {
			case "setGasPerBlock":
				a.N = rapid.Int64Range(0, 10_0000_0000).Draw(t, "v")
			case "setRegisterPrice":
				a.N = rapid.Int64Range(1, 1500_0000_0000).Draw(t, "v")
			case "Oracle.setPrice": // cached by the native Oracle; oracle_request pays it
				a.Kind = "native_set"
				a.N = rapid.SampledFrom([]int64{1, 1000, 5000_0000, 1_0000_0000, 7_0000_0000}).Draw(t, "v")
			case "Notary.setMaxNotValidBeforeDelta": // cached by the native Notary; bounds NotValidBefore attributes
				a.Kind = "native_set"
				a.N = rapid.SampledFrom([]int64{1, 2, 3, 5, 20, 140}).Draw(t, "v")
			default: // cached by Management; deployments pay at least this
				a.Kind = "native_set"
				a.N = rapid.SampledFrom([]int64{0, 1, 10_0000_0000, 30_0000_0000}).Draw(t, "v")
			}
		default:
			a.Kind = "designate"
			a.A = int(rapid.SampledFrom([]noderoles.Role{noderoles.StateValidator, noderoles.Oracle, noderoles.NeoFSAlphabet, noderoles.P2PNotary}).Draw(t, "role"))
			a.B = rapid.IntRange(1, 7).Draw(t, "keys")
		}
	case 1: // value
		k := rapid.IntRange(0, 9).Draw(t, "val")
		switch {
		case k <= 3:
			a.Kind = "gas_transfer"
			a.N = genAmount(t, "amt", false)
		case k <= 6:
			a.Kind = "neo_transfer"
			a.N = genAmount(t, "amt", true)
		case k == 7 && bias.P2PSig:
			a.Kind = "notary_deposit"
			a.N = rapid.Int64Range(1, 30_0000_0000).Draw(t, "amt")
			a.A = rapid.IntRange(0, 12).Draw(t, "till")
			a.B = rapid.IntRange(-1, NAccounts-1).Draw(t, "benef")
		case k == 8 && bias.P2PSig:
			a.Kind = "notary_lock"
			a.A = rapid.IntRange(0, 20).Draw(t, "till")
		case k == 9 && bias.P2PSig:
			a.Kind = "notary_withdraw"
			a.A = genParty(t, "to")
		default:
			a.Kind = "gas_transfer"
			a.N = genAmount(t, "amt", false)
		}
		if a.Kind == "gas_transfer" || a.Kind == "neo_transfer" {
			if rapid.IntRange(0, 7).Draw(t, "selfref") == 0 {
				a.B = 7 // self-referencing array as data
			}
			switch rapid.IntRange(0, 6).Draw(t, "tok") {
			case 0:
				a.A = a.From // self transfer
			case 1:
				a.A = PContract0 + rapid.IntRange(0, 3).Draw(t, "c") // to a contract with a payment callback
				if rapid.Bool().Draw(t, "reject") {
					a.V = vt.Bytes("x") // non-null non-array data: callback throws
				}
			default:
				a.A = genParty(t, "to")
			}
			if rapid.IntRange(0, 3).Draw(t, "assert") == 0 {
				a.S = "assert"
			}
		}
	case 2: // storage / contracts
		k := rapid.IntRange(0, 18).Draw(t, "st")
		a.A = rapid.IntRange(0, 4).Draw(t, "contract")
		switch {
		case k <= 3:
			a.Kind, a.S = "invoke", "put"
			a.K, a.V = GenStorageKey(t, "k"), GenStorageVal(t, "v")
		case k <= 5:
			a.Kind, a.S = "invoke", "del"
			a.K = GenStorageKey(t, "k")
		case k <= 8:
			a.Kind = "multi_put"
			a.N = rapid.Int64Range(1, 6).Draw(t, "n")
			a.B = rapid.IntRange(0, 3).Draw(t, "delmod")
			a.K, a.V = GenStorageKey(t, "k"), GenStorageVal(t, "v")
		case k == 9:
			a.Kind, a.S = "invoke", "notify"
			a.V = GenStorageVal(t, "v")
		case k == 10:
			a.Kind = "deploy"
			a.A = rapid.IntRange(0, 2).Draw(t, "variant")
			a.S = rapid.SampledFrom([]string{"", "a", "b", "big", "big"}).Draw(t, "suffix")
			a.B = rapid.SampledFrom([]int{0, 0, 1, 1, 2, 3}).Draw(t, "perm_profile")
		case k == 11:
			a.Kind, a.S = "invoke", "update"
			a.N = rapid.Int64Range(0, 2).Draw(t, "variant")
			a.B = rapid.SampledFrom([]int{0, 0, 0, 1, 2, 3}).Draw(t, "perm_profile")
			a.From = a.A % 2 // deployers of the bootstrap contracts (update needs no particular witness in K, but keep it plausible)
		case k == 12:
			a.Kind, a.S = "invoke", "destroy"
		case k == 13:
			a.Kind, a.S = "invoke", "xfer"
			a.B = rapid.IntRange(0, 1).Draw(t, "tok")
			a.K = vt.Bytes{byte(genParty(t, "to"))}
			a.N = rapid.Int64Range(0, 3).Draw(t, "amt")
		case k == 15:
			GenOracleRequest(t, &a) // via a deployed contract: pays the Oracle price, adds a pending request
		case k >= 17: // a question to the Ledger contract about the current or a recent block
			a.Kind = "ledger_q"
			a.A = rapid.SampledFrom([]int{0, 0, 0, 1, 2, 5, 9, 14, 30}).Draw(t, "back")
			a.B = rapid.IntRange(0, 2).Draw(t, "txidx")
			a.N = rapid.Int64Range(0, 1).Draw(t, "q")
		case k == 14:
			a.Kind, a.S = "invoke", "find"
			a.K = GenStorageKey(t, "k")
			a.N = rapid.SampledFrom([]int64{0, 1, 2, 4, 8, 0x80}).Draw(t, "opts")
		default:
			a.Kind, a.S = "invoke", "get"
			a.K = GenStorageKey(t, "k")
		}
	default: // faults
		a.A = rapid.IntRange(0, 4).Draw(t, "contract")
		switch rapid.IntRange(0, 5).Draw(t, "fk") {
		case 0:
			a.Kind = "throw"
		case 1:
			a.Kind, a.S = "invoke", "put_then_fail"
			a.K, a.V = GenStorageKey(t, "k"), GenStorageVal(t, "v")
		case 2:
			a.Kind, a.S = "invoke", "try_fail_put"
			a.B = rapid.IntRange(0, 4).Draw(t, "callee")
			a.K, a.V = GenStorageKey(t, "k"), GenStorageVal(t, "v")
		case 3:
			a.Kind, a.S = "invoke", "abort"
		case 4: // out of gas in the middle of a multi-write
			a.Kind = "multi_put"
			a.N = rapid.Int64Range(2, 6).Draw(t, "n")
			a.K, a.V = GenStorageKey(t, "k"), GenStorageVal(t, "v")
			a.GasAdj = -rapid.Int64Range(1, 3000000).Draw(t, "short")
		default:
			a.Kind, a.S = "invoke", "burn"
			a.N = rapid.Int64Range(1, 5_0000_0000).Draw(t, "burn")
		}
	}
	if rapid.IntRange(0, 99).Draw(t, "hasattr") < bias.Attrs {
		a.Attrs = append(a.Attrs, Attr{
			Kind: rapid.SampledFrom([]string{"conflicts", "conflicts", "nvb", "high"}).Draw(t, "ak"),
			Ref:  rapid.IntRange(0, 6).Draw(t, "aref"),
		})
	}
	a.VUB = uint32(rapid.IntRange(0, 4).Draw(t, "vub"))
	a.Scope = rapid.SampledFrom([]int{0, 0, 0, 1}).Draw(t, "scope")
	// A governance / value action whose transaction faults after the action was performed: native caches, balances
	// and storage it touched have to be as if it never ran (on the running node as well as on a restarted one).
	if (fam == 0 || fam == 1 || fam == 2) && rapid.IntRange(0, 11).Draw(t, "fail_after") == 0 {
		a.Fail = true
	}
	return a
}

// GenOracleRequest fills an oracle_request: contract, url, user data, callback and the gas the response may spend.
func GenOracleRequest(t *rapid.T, a *Action) {
	a.Kind = "oracle_request"
	a.A = rapid.IntRange(0, 4).Draw(t, "contract")
	a.S = rapid.SampledFrom([]string{"a", "b", "c"}).Draw(t, "url")
	a.V = GenStorageVal(t, "ud")
	a.B = rapid.SampledFrom([]int{0, 1, 1, 1, 1, 2, 2}).Draw(t, "cb")
	a.N = rapid.SampledFrom([]int64{0, 2000_0000, 5000_0000, 5000_0000, 1_0000_0000, 3_0000_0000}).Draw(t, "gfr")
}

// GenOracleResponse fills an oracle_response (pending request by index, code, result, fee adjustment).
func GenOracleResponse(t *rapid.T, a *Action) {
	a.Kind = "oracle_response"
	a.A = rapid.IntRange(0, 5).Draw(t, "req")
	a.B = rapid.IntRange(0, len(OracleCodes)-1).Draw(t, "code")
	a.V = GenStorageVal(t, "result")
	switch rapid.IntRange(0, 19).Draw(t, "adj") {
	case 0: // less than the request paid for: admission must refuse it
		a.GasAdj = -rapid.Int64Range(1, 6000_0000).Draw(t, "short")
	case 1, 2: // more than the request paid for (taken from the gas of the other pending requests, if any)
		a.GasAdj = rapid.Int64Range(1, 2000_0000).Draw(t, "over")
	}
}

// GenNotaryAssisted fills a notary_assisted action (see flows.go for the modes).
func GenNotaryAssisted(t *rapid.T, a *Action) {
	a.Kind = "notary_assisted"
	a.From = rapid.SampledFrom([]int{0, 0, 0, 1, 1, 1, 2, 3, 4}).Draw(t, "depositor") // 0 and 1 have bootstrap deposits
	a.A = rapid.IntRange(0, 3).Draw(t, "nkeys")
	a.N = int64(rapid.IntRange(0, 2).Draw(t, "node"))
	a.B = rapid.SampledFrom([]int{NAExact, NAExact, NAExact, NAExact, NAExact, NAExact, NAWholeDeposit, NAOverDeposit, NAThirdSigner, NACosigner, NACosigner}).Draw(t, "mode")
	in := Action{}
	switch rapid.IntRange(0, 7).Draw(t, "inner") {
	case 0, 1, 2:
		in.Kind = "gas_transfer"
		in.A = genParty(t, "to")
		in.N = genAmount(t, "amt", false)
		if rapid.IntRange(0, 3).Draw(t, "assert") == 0 {
			in.S = "assert"
		}
	case 3:
		in.Kind, in.S = "invoke", "put"
		in.A = rapid.IntRange(0, 4).Draw(t, "contract")
		in.K, in.V = GenStorageKey(t, "k"), GenStorageVal(t, "v")
	case 4:
		in.Kind, in.S = "invoke", "notify"
		in.A = rapid.IntRange(0, 4).Draw(t, "contract")
		in.V = GenStorageVal(t, "v")
	case 5:
		in.Kind = "throw"
	case 6:
		in.Kind, in.S = "invoke", "put_then_fail"
		in.A = rapid.IntRange(0, 4).Draw(t, "contract")
		in.K, in.V = GenStorageKey(t, "k"), GenStorageVal(t, "v")
	default: // out of gas in the middle of a multi-write
		in.Kind = "multi_put"
		in.A = rapid.IntRange(0, 4).Draw(t, "contract")
		in.N = rapid.Int64Range(2, 5).Draw(t, "n")
		in.K, in.V = GenStorageKey(t, "k"), GenStorageVal(t, "v")
		if rapid.Bool().Draw(t, "oog") {
			in.GasAdj = -rapid.Int64Range(1, 3000000).Draw(t, "short")
		}
	}
	a.Inner = &in
}

func weighted(t *rapid.T, label string, w ...int) int {
	total := 0
	for _, x := range w {
		total += x
	}
	if total <= 0 {
		return 0
	}
	r := rapid.IntRange(0, total-1).Draw(t, label)
	for i, x := range w {
		if r < x {
			return i
		}
		r -= x
	}
	return len(w) - 1
}

// GenBlock draws one block spec.
func GenBlock(t *rapid.T, bias GenBias, maxTx int) BlockSpec {
	n := rapid.IntRange(0, maxTx).Draw(t, "ntx")
	bs := BlockSpec{
		TimeD:   uint32(rapid.IntRange(1, 20000).Draw(t, "timed")),
		Nonce:   rapid.Uint64().Draw(t, "bnonce"),
		Primary: rapid.IntRange(0, 6).Draw(t, "primary"),
	}
	for i := 0; i < n; i++ {
		bs.Txs = append(bs.Txs, GenAction(t, bias))
	}
	return bs
}

// GenChainCfg draws a protocol configuration.
func GenChainCfg(t *rapid.T, smallMTB bool) ChainCfg {
	c := ChainCfg{
		Profile:   rapid.SampledFrom([]string{"V1C1", "V1C3", "V1C3", "V4C6", "V4C6"}).Draw(t, "profile"),
		SRIH:      rapid.Bool().Draw(t, "srih"),
		P2PSig:    rapid.Bool().Draw(t, "p2psig"),
		HFStagger: rapid.IntRange(0, 3).Draw(t, "hfstagger") == 0,
	}
	if smallMTB {
		c.MTB = uint32(rapid.IntRange(8, 30).Draw(t, "mtb"))
	}
	if rapid.IntRange(0, 4).Draw(t, "vhist") == 0 {
		// the number of validators changes at committee refresh heights (config ValidatorsHistory): the block at such
		// a height is still signed by the old validators, the next one by the new ones
		switch c.Profile {
		case "V4C6":
			c.ValidatorsHistory = map[uint32]uint32{0: 4, 6: uint32(rapid.SampledFrom([]int{1, 6, 2}).Draw(t, "vh1"))}
			if rapid.Bool().Draw(t, "vh_second") {
				c.ValidatorsHistory[12] = uint32(rapid.SampledFrom([]int{4, 1, 6}).Draw(t, "vh2"))
			}
		case "V1C3":
			c.ValidatorsHistory = map[uint32]uint32{0: 1, uint32(3 * rapid.IntRange(1, 3).Draw(t, "vh_at")): uint32(rapid.SampledFrom([]int{3, 2}).Draw(t, "vh1"))}
		}
	}
	return c
}
