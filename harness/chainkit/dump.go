package chainkit

import (
	"encoding/hex"
	"encoding/json"
	"fmt"
	"sort"
	"strings"

	"github.com/nspcc-dev/neo-go/pkg/core"
	"github.com/nspcc-dev/neo-go/pkg/core/native/nativehashes"
	"github.com/nspcc-dev/neo-go/pkg/core/native/noderoles"
	"github.com/nspcc-dev/neo-go/pkg/core/storage"
	"github.com/nspcc-dev/neo-go/pkg/core/transaction"
	"github.com/nspcc-dev/neo-go/pkg/io"
	"github.com/nspcc-dev/neo-go/pkg/smartcontract/callflag"
	"github.com/nspcc-dev/neo-go/pkg/smartcontract/trigger"
	"github.com/nspcc-dev/neo-go/pkg/util"
	"github.com/nspcc-dev/neo-go/pkg/vm/emit"
	"github.com/nspcc-dev/neo-go/pkg/vm/stackitem"
)

// Dump is a flat, comparable description of the ledger state of one node: map of observable name -> value.
type Dump map[string]string

// Diff returns a description of the first differences between two dumps ("" when equal).
func Diff(a, b Dump) string {
	var keys []string
	seen := map[string]bool{}
	for k := range a {
		keys = append(keys, k)
		seen[k] = true
	}
	for k := range b {
		if !seen[k] {
			keys = append(keys, k)
		}
	}
	sort.Strings(keys)
	var out []string
	for _, k := range keys {
		va, oka := a[k]
		vb, okb := b[k]
		if oka && okb && va == vb {
			continue
		}
		switch {
		case !oka:
			out = append(out, fmt.Sprintf("%s: <absent> vs %s", k, clip(vb)))
		case !okb:
			out = append(out, fmt.Sprintf("%s: %s vs <absent>", k, clip(va)))
		default:
			i := 0
			for i < len(va) && i < len(vb) && va[i] == vb[i] {
				i++
			}
			from := max(0, i-40)
			out = append(out, fmt.Sprintf("%s: (first difference at byte %d) ...%s vs ...%s", k, i, clip(va[from:]), clip(vb[from:])))
		}
		if len(out) >= 6 {
			out = append(out, "...")
			break
		}
	}
	return strings.Join(out, "; ")
}

func clip(s string) string {
	if len(s) > 160 {
		return s[:160] + "..."
	}
	return s
}

// MaxContractID bounds the scan of deployed contract ids.
const MaxContractID = 24

// StorageDump reads ALL contract storage through the live DAO (independent of the state trie).
func StorageDump(bc *core.Blockchain, d Dump) {
	for id := int32(-16); id <= MaxContractID; id++ {
		if id == 0 {
			continue
		}
		bc.SeekStorage(id, nil, func(k, v []byte) bool {
			d[fmt.Sprintf("st/%d/%x", id, k)] = hex.EncodeToString(v)
			return true
		})
	}
}

// StorageMap returns contract storage as id/key -> value (keys are "%d/%x").
func StorageMap(bc *core.Blockchain) map[string][]byte {
	m := map[string][]byte{}
	for id := int32(-16); id <= MaxContractID; id++ {
		if id == 0 {
			continue
		}
		bc.SeekStorage(id, nil, func(k, v []byte) bool {
			m[fmt.Sprintf("%d/%x", id, k)] = append([]byte{}, v...)
			return true
		})
	}
	return m
}

// GetterScript is a read-only script that calls the native getters whose answers are served from native caches.
func GetterScript(extraHashes []util.Uint160) []byte {
	w := io.NewBufBinWriter()
	call := func(h util.Uint160, m string, args ...any) {
		emit.AppCall(w.BinWriter, h, m, callflag.ReadOnly, args...)
	}
	pol := nativehashes.PolicyContract
	for _, m := range []string{"getFeePerByte", "getExecFeeFactor", "getStoragePrice", "getMaxValidUntilBlockIncrement", "getMillisecondsPerBlock", "getMaxTraceableBlocks"} {
		call(pol, m)
	}
	for _, t := range []int64{int64(transaction.HighPriority), int64(transaction.OracleResponseT), int64(transaction.NotValidBeforeT), int64(transaction.ConflictsT), int64(transaction.NotaryAssistedT)} {
		call(pol, "getAttributeFee", t)
	}
	var parties []util.Uint160
	for _, k := range Accounts {
		parties = append(parties, k.Hash)
	}
	for _, k := range Candidates {
		parties = append(parties, k.Hash)
	}
	for _, k := range CommitteeKeys[:3] {
		parties = append(parties, k.Hash)
	}
	parties = append(parties, extraHashes...)
	neo, gas := nativehashes.NeoToken, nativehashes.GasToken
	for _, p := range parties {
		call(pol, "isBlocked", p)
		call(neo, "balanceOf", p)
		call(gas, "balanceOf", p)
		call(neo, "getAccountState", p)
	}
	for _, m := range []string{"getCommittee", "getNextBlockValidators", "getCandidates", "getGasPerBlock", "getRegisterPrice", "totalSupply", "getCommitteeAddress"} {
		call(neo, m)
	}
	call(gas, "totalSupply")
	for i := 0; i < NCandidates+2; i++ {
		call(neo, "getCandidateVote", candPub(i).Bytes())
	}
	call(nativehashes.ContractManagement, "getMinimumDeploymentFee")
	call(nativehashes.LedgerContract, "currentIndex")
	return w.Bytes()
}

// HeightScript returns getters that need the current height as an argument.
func HeightScript(height uint32, p2psig bool) []byte {
	w := io.NewBufBinWriter()
	call := func(h util.Uint160, m string, args ...any) {
		emit.AppCall(w.BinWriter, h, m, callflag.ReadOnly, args...)
	}
	for _, k := range append(append([]Key{}, Accounts...), Candidates...) {
		call(nativehashes.NeoToken, "unclaimedGas", k.Hash, int64(height)+1)
	}
	for _, r := range []noderoles.Role{noderoles.StateValidator, noderoles.Oracle, noderoles.NeoFSAlphabet, noderoles.P2PNotary} {
		call(nativehashes.RoleManagement, "getDesignatedByRole", int64(r), int64(height)+1)
	}
	if p2psig {
		for _, k := range Accounts {
			call(nativehashes.Notary, "balanceOf", k.Hash)
			call(nativehashes.Notary, "expirationOf", k.Hash)
		}
		call(nativehashes.Notary, "getMaxNotValidBeforeDelta")
	}
	return w.Bytes()
}

// RunReadOnly executes a script in a test VM of the node at its current height and returns "STATE gas [stack json]".
func RunReadOnly(bc *core.Blockchain, script []byte) string {
	tx := transaction.New(script, 0)
	tx.Signers = []transaction.Signer{{Account: Accounts[0].Hash, Scopes: transaction.None}}
	ic, err := bc.GetTestVM(trigger.Application, tx, nil)
	if err != nil {
		return "ERR " + err.Error()
	}
	defer ic.Finalize()
	ic.VM.LoadWithFlags(script, callflag.ReadOnly)
	err = ic.VM.Run()
	return vmResult(ic.VM.State().String(), ic.VM.GasConsumed(), ic.VM.Estack().ToArray(), err)
}

func vmResult(st string, gas int64, items []stackitem.Item, err error) string {
	var sb strings.Builder
	fmt.Fprintf(&sb, "%s gas=%d", st, gas)
	if err != nil {
		fmt.Fprintf(&sb, " err=%q", firstLine(err.Error()))
	}
	for _, it := range items {
		b, jerr := stackitem.ToJSONWithTypes(it)
		if jerr != nil {
			fmt.Fprintf(&sb, " <%s:%v>", it.Type(), jerr)
			continue
		}
		sb.WriteByte(' ')
		sb.Write(b)
	}
	return sb.String()
}

func firstLine(s string) string {
	if i := strings.IndexByte(s, '\n'); i >= 0 {
		return s[:i]
	}
	return s
}

// FullDump observes everything the property C01 lists: height, state root, all contract storage, native
// getters (through the VM, i.e. through the native caches), Go-level committee/validators/policy answers,
// contract states.
func FullDump(bc *core.Blockchain, deployed []util.Uint160) Dump {
	d := Dump{}
	h := bc.BlockHeight()
	d["height"] = fmt.Sprint(h)
	d["hash"] = bc.CurrentBlockHash().StringLE()
	if sr, err := bc.GetStateModule().GetStateRoot(h); err == nil {
		d["stateroot"] = sr.Root.StringLE()
	} else {
		d["stateroot"] = "ERR " + err.Error()
	}
	d["localroot"] = bc.GetStateModule().CurrentLocalStateRoot().StringLE()
	// what getstateheight answers (with the state root in the header every local root is a validated one)
	d["stateheight"] = fmt.Sprintf("local %d validated %d", bc.GetStateModule().CurrentLocalHeight(), bc.GetStateModule().CurrentValidatedHeight())
	StorageDump(bc, d)
	d["vm/getters"] = RunReadOnly(bc, GetterScript(deployed))
	d["vm/height"] = RunReadOnly(bc, HeightScript(h, bc.P2PSigExtensionsEnabled()))
	if com, err := bc.GetCommittee(); err == nil {
		d["go/committee"] = pubs(com)
	} else {
		d["go/committee"] = "ERR " + err.Error()
	}
	if v, err := bc.GetNextBlockValidators(); err == nil {
		d["go/nextvalidators"] = pubs(v)
	} else {
		d["go/nextvalidators"] = "ERR " + err.Error()
	}
	d["go/computenext"] = pubs(bc.ComputeNextBlockValidators())
	if e, err := bc.GetEnrollments(); err == nil {
		var s []string
		for _, v := range e {
			s = append(s, fmt.Sprintf("%s=%s", v.Key.StringCompressed(), v.Votes))
		}
		d["go/enrollments"] = strings.Join(s, ",")
	}
	{
		hs := func(l []util.Uint160) string {
			ss := make([]string, len(l))
			for i := range l {
				ss[i] = l[i].StringLE()
			}
			sort.Strings(ss)
			return strings.Join(ss, ",")
		}
		d["go/nep17contracts"] = hs(bc.GetNEP17Contracts())
		d["go/nep11contracts"] = hs(bc.GetNEP11Contracts())
	}
	d["go/policy"] = fmt.Sprintf("fpb=%d base=%d sp=%d mtb=%d ms=%d vub=%d mvg=%d", bc.FeePerByte(), bc.GetBaseExecFee(), bc.GetStoragePrice(),
		bc.GetMaxTraceableBlocks(), bc.GetMillisecondsPerBlock(), bc.GetMaxValidUntilBlockIncrement(), bc.GetMaxVerificationGAS())
	for i, k := range append(append([]Key{}, Accounts...), Candidates...) {
		gb := bc.GetUtilityTokenBalance(k.Hash, util.Uint160{})
		nb, upd := bc.GetGoverningTokenBalance(k.Hash)
		cl, _ := bc.CalculateClaimable(k.Hash, h+1)
		d[fmt.Sprintf("go/acc/%d", i)] = fmt.Sprintf("gas=%s neo=%s upd=%d claim=%s notaryexp=%d", gb, nb, upd, cl, bc.GetNotaryDepositExpiration(k.Hash))
	}
	for _, r := range []noderoles.Role{noderoles.StateValidator, noderoles.Oracle, noderoles.NeoFSAlphabet, noderoles.P2PNotary} {
		ks, idx, err := bc.GetDesignatedByRole(r)
		d[fmt.Sprintf("go/role/%d", r)] = fmt.Sprintf("%s@%d %v", pubs(ks), idx, err)
	}
	for _, cs := range bc.GetNatives() {
		it, err := cs.ToStackItem()
		if err != nil {
			d["native/"+cs.Manifest.Name] = "ERR " + err.Error()
			continue
		}
		sb, err := stackitem.Serialize(it)
		d["native/"+cs.Manifest.Name] = fmt.Sprintf("%x %v", sb, err)
	}
	for id := int32(1); id <= MaxContractID; id++ {
		hh, err := bc.GetContractScriptHash(id)
		if err != nil {
			continue
		}
		cs := bc.GetContractState(hh)
		if cs == nil {
			d[fmt.Sprintf("contract/%d", id)] = "hash " + hh.StringLE() + " without state"
			continue
		}
		// Canonical (stack item) form: JSON differs in nil-vs-empty slices between a freshly deployed and a reloaded state.
		it, err := cs.ToStackItem()
		if err != nil {
			d[fmt.Sprintf("contract/%d", id)] = "ERR " + err.Error()
			continue
		}
		sb, err := stackitem.Serialize(it)
		d[fmt.Sprintf("contract/%d", id)] = fmt.Sprintf("%s upd=%d %x %v", cs.Hash.StringLE(), cs.UpdateCounter, sb, err)
	}
	return d
}

func pubs[T ~[]P, P interface{ StringCompressed() string }](l T) string {
	var s []string
	for _, p := range l {
		s = append(s, p.StringCompressed()[:10])
	}
	return strings.Join(s, ",")
}

// AERs returns the normalised application logs of a block: the block-level executions (OnPersist/PostPersist)
// and every transaction's execution, as JSON strings keyed by position.
func AERs(bc *core.Blockchain, blockHash util.Uint256, txs []*transaction.Transaction, stripContainer bool) Dump {
	d := Dump{}
	put := func(name string, h util.Uint256) {
		aers, err := bc.GetAppExecResults(h, trigger.All)
		if err != nil {
			d[name] = "ERR " + err.Error()
			return
		}
		for i, a := range aers {
			if stripContainer {
				a.Container = util.Uint256{}
			}
			a.Invocations = nil // node-local application log extension (Ledger.SaveInvocations)
			b, err := json.Marshal(a)
			if err != nil {
				d[fmt.Sprintf("%s/%d", name, i)] = "ERR " + err.Error()
				continue
			}
			d[fmt.Sprintf("%s/%d", name, i)] = string(b)
		}
	}
	put("aer/block", blockHash)
	for i, tx := range txs {
		put(fmt.Sprintf("aer/tx%d", i), tx.Hash())
	}
	return d
}

// RawDump lists every key/value of a backend (memory stores need two prefixes families: iterate all first bytes).
func RawDump(st storage.Store) map[string]string {
	m := map[string]string{}
	for p := 0; p < 256; p++ {
		st.Seek(storage.SeekRange{Prefix: []byte{byte(p)}}, func(k, v []byte) bool {
			m[hex.EncodeToString(k)] = hex.EncodeToString(v)
			return true
		})
	}
	return m
}
