package chainkit

import (
	"bytes"
	"encoding/hex"
	"errors"
	"fmt"
	"github.com/nspcc-dev/neo-go/pkg/core/storage"
	"github.com/nspcc-dev/neo-go/pkg/smartcontract/manifest"
	"github.com/nspcc-dev/neo-go/pkg/vm/stackitem"
	"math/big"
	"sort"
	"strings"

	"github.com/nspcc-dev/neo-go/pkg/core/block"
	"github.com/nspcc-dev/neo-go/pkg/core/fee"
	"github.com/nspcc-dev/neo-go/pkg/core/interop/interopnames"
	"github.com/nspcc-dev/neo-go/pkg/core/native/nativehashes"
	"github.com/nspcc-dev/neo-go/pkg/core/native/noderoles"
	"github.com/nspcc-dev/neo-go/pkg/core/transaction"
	"github.com/nspcc-dev/neo-go/pkg/crypto/hash"
	"github.com/nspcc-dev/neo-go/pkg/crypto/keys"
	"github.com/nspcc-dev/neo-go/pkg/io"
	"github.com/nspcc-dev/neo-go/pkg/smartcontract"
	"github.com/nspcc-dev/neo-go/pkg/smartcontract/callflag"
	"github.com/nspcc-dev/neo-go/pkg/smartcontract/trigger"
	"github.com/nspcc-dev/neo-go/pkg/util"
	"github.com/nspcc-dev/neo-go/pkg/vm/emit"
	"github.com/nspcc-dev/neo-go/pkg/vm/opcode"
	"verifharness/asm"
	"verifharness/vt"
)

// Party numbering used by actions (JSON-friendly small ints):
//
//	0..5   Accounts[i]          6..8  Candidates[i-6]
//	9      current committee (majority multisig of bc.GetCommittee())
//	10     standby validators multisig (holds the genesis NEO/GAS)
//	20+i   deployed contract i (as a transfer target / signer), modulo the number of deployed contracts
const (
	PCommittee  = 9
	PValidators = 10
	PContract0  = 20
	NParties    = 9 // key-holding ordinary parties
)

// Attr is a transaction attribute spec.
type Attr struct {
	Kind string `json:"kind"`          // conflicts | nvb | high
	Ref  int    `json:"ref,omitempty"` // conflicts: index into the history of built tx hashes (from the end), nvb: delta
}

// Action is one transaction spec. The meaning of A, B, N, K, V, S depends on Kind (see MakeScript).
type Action struct {
	Kind   string   `json:"kind"`
	From   int      `json:"from"` // paying party (sender)
	A      int      `json:"a,omitempty"`
	B      int      `json:"b,omitempty"`
	N      int64    `json:"n,omitempty"`
	K      vt.Bytes `json:"k,omitempty"`
	V      vt.Bytes `json:"v,omitempty"`
	S      string   `json:"s,omitempty"`
	Attrs  []Attr   `json:"attrs,omitempty"`
	Nonce  uint32   `json:"nonce"`
	VUB    uint32   `json:"vub,omitempty"`    // added to height+1
	GasAdj int64    `json:"gasadj,omitempty"` // added to the measured system fee (negative: run out of gas)
	Scope  int      `json:"scope,omitempty"`  // 0 Global, 1 CalledByEntry, 2 None
	Inner  *Action  `json:"inner,omitempty"`  // notary_assisted: the action whose script the transaction carries
	Fail   bool     `json:"fail,omitempty"`   // the script throws after the action is done: everything it did must be discarded
}

// BlockSpec is one block of a history.
type BlockSpec struct {
	Txs     []Action `json:"txs"`
	TimeD   uint32   `json:"time_d"` // timestamp delta to the previous block, ms (>= 1 enforced)
	Nonce   uint64   `json:"nonce"`
	Primary int      `json:"primary"`
}

// Deployed is a contract known to the builder.
type Deployed struct {
	Hash     util.Uint160
	C        *asm.Contract
	Deployer int
}

// Builder turns specs into real signed transactions and blocks on its own (reference) node.
type Builder struct {
	N        *Node
	Deployed []Deployed
	TxHashes []util.Uint256 // hashes of all txs built so far (for Conflicts references)
	Rejected map[string]int // admission rejections by error class
	Flow     map[string]int // blocks per flow label (see Flows): oracle responses, notary-assisted transactions
	Excluded int            // actions not built because their shape is a listed known finding (see flows.go)
	nvariant int
}

// NewBuilder starts a builder node (memory backend, archival, verifying).
func NewBuilder(chain ChainCfg) (*Builder, error) {
	n, err := NewNode(chain, NodeCfg{Backend: "mem"}, nil)
	if err != nil {
		return nil, err
	}
	return &Builder{N: n, Rejected: map[string]int{}, Flow: map[string]int{}}, nil
}

// Close stops the builder node.
func (b *Builder) Close() { b.N.Close() }

// PartyHash resolves a party number to a script hash.
func (b *Builder) PartyHash(p int) util.Uint160 {
	a, _, h := b.party(p)
	if a != nil {
		return a.Hash
	}
	return h
}

// party resolves a party: an Actor (key holders) or a contract hash.
func (b *Builder) party(p int) (*Actor, bool, util.Uint160) {
	switch {
	case p >= PContract0:
		if len(b.Deployed) == 0 {
			a := Single(Accounts[0])
			return &a, false, a.Hash
		}
		return nil, true, b.Deployed[(p-PContract0)%len(b.Deployed)].Hash
	case p == PCommittee:
		a := b.CommitteeActor()
		return &a, false, a.Hash
	case p == PValidators:
		a := b.StandbyValidatorsActor()
		return &a, false, a.Hash
	case p >= NAccounts && p < NParties:
		a := Single(Candidates[p-NAccounts])
		return &a, false, a.Hash
	default:
		a := Single(Accounts[((p%NAccounts)+NAccounts)%NAccounts])
		return &a, false, a.Hash
	}
}

// CommitteeActor is the majority multisig of the CURRENT committee.
func (b *Builder) CommitteeActor() Actor {
	com, err := b.N.BC.GetCommittee()
	if err != nil {
		panic(err)
	}
	a, err := MultisigOfPubs(smartcontract.GetMajorityHonestNodeCount(len(com)), com)
	if err != nil {
		panic(err)
	}
	return a
}

// StandbyValidatorsActor is the BFT multisig of the standby validators (genesis funds holder).
func (b *Builder) StandbyValidatorsActor() Actor {
	vc := b.N.Chain.StandbyValidators()
	return Multisig(smartcontract.GetDefaultHonestNodeCount(vc), CommitteeKeys[:vc])
}

// ValidatorsActor is the multisig that has to sign the next block.
func (b *Builder) ValidatorsActor() (Actor, error) {
	vals, err := b.N.BC.GetNextBlockValidators()
	if err != nil {
		return Actor{}, err
	}
	return MultisigOfPubs(smartcontract.GetDefaultHonestNodeCount(len(vals)), vals)
}

// CandCommittee0 + j as a candidate index names CommitteeKeys[j] (the small indices reach members 0 and 1 only).
const CandCommittee0 = 100

func candPub(i int) *keys.PublicKey {
	if i >= CandCommittee0 { // any member of the committee pool by its index (elections inside the standby committee)
		return CommitteeKeys[(i-CandCommittee0)%NCommittee].Pub
	}
	i = ((i % (NCandidates + 2)) + NCandidates + 2) % (NCandidates + 2)
	if i < NCandidates {
		return Candidates[i].Pub
	}
	return CommitteeKeys[i-NCandidates].Pub // standby committee members can be voted for / registered too
}

func candKey(i int) Key {
	k, _ := KeyByPub(candPub(i))
	return k
}

// MakeScript builds the entry script and the list of extra signers (parties) an action needs.
func (b *Builder) MakeScript(a Action) ([]byte, []int, error) {
	w := io.NewBufBinWriter()
	call := func(h util.Uint160, method string, args ...any) {
		emit.AppCall(w.BinWriter, h, method, callflag.All, args...)
	}
	var extra []int
	from := b.PartyHash(a.From)
	switch a.Kind {
	case "gas_transfer", "neo_transfer": // A = to party, N = amount, V = optional data
		tok := nativehashes.GasToken
		if a.Kind == "neo_transfer" {
			tok = nativehashes.NeoToken
		}
		var data any
		if len(a.V) > 0 {
			data = []byte(a.V)
		}
		if a.B == 7 {
			// data is an array that contains itself: a value no serialiser accepts (nodes that save invocations try to)
			emit.Opcodes(w.BinWriter, opcode.NEWARRAY0, opcode.DUP, opcode.DUP, opcode.APPEND)
			emit.Int(w.BinWriter, a.N)
			emit.Bytes(w.BinWriter, b.PartyHash(a.A).BytesBE())
			emit.Bytes(w.BinWriter, from.BytesBE())
			emit.Int(w.BinWriter, 4)
			emit.Opcodes(w.BinWriter, opcode.PACK)
			emit.AppCallNoArgs(w.BinWriter, tok, "transfer", callflag.All)
		} else {
			call(tok, "transfer", from, b.PartyHash(a.A), a.N, data)
		}
		// A failed transfer (false) must not halt silently as success of intent: assert to make FAULTs happen too when S="assert".
		if a.S == "assert" {
			emit.Opcodes(w.BinWriter, opcode.ASSERT)
		}
	case "vote": // A = candidate index or -1 (unvote)
		if a.A < 0 {
			call(nativehashes.NeoToken, "vote", from, nil)
		} else {
			call(nativehashes.NeoToken, "vote", from, candPub(a.A).Bytes())
		}
	case "register": // A = candidate index; the candidate key must sign
		call(nativehashes.NeoToken, "registerCandidate", candPub(a.A).Bytes())
		extra = append(extra, -1-a.A)
	case "register_pay": // registration by GAS payment to NEO with the key as data (post-Echidna form)
		call(nativehashes.GasToken, "transfer", from, nativehashes.NeoToken, a.N, candPub(a.A).Bytes())
		extra = append(extra, -1-a.A)
	case "unregister":
		call(nativehashes.NeoToken, "unregisterCandidate", candPub(a.A).Bytes())
		extra = append(extra, -1-a.A)
	case "policy": // S = method, N = integer argument or A = party for (un)blockAccount
		extra = append(extra, PCommittee)
		switch a.S {
		case "blockAccount", "unblockAccount":
			call(nativehashes.PolicyContract, a.S, b.PartyHash(a.A))
		case "blockCandidate", "unblockCandidate": // block the account of a candidate key
			call(nativehashes.PolicyContract, a.S[:len(a.S)-9]+"Account", candKey(a.A).Hash)
		case "setAttributeFee":
			call(nativehashes.PolicyContract, a.S, int64(a.A), a.N)
		case "setWhitelistFeeContract", "removeWhitelistFeeContract": // A = contract, K = method name, N = fee
			if len(b.Deployed) == 0 {
				return nil, nil, errors.New("no contract deployed")
			}
			d := b.Deployed[((a.A%len(b.Deployed))+len(b.Deployed))%len(b.Deployed)]
			argc := map[string]int64{"put": 2, "get": 1, "notify": 1, "del": 1}[string(a.K)]
			if a.S == "setWhitelistFeeContract" {
				call(nativehashes.PolicyContract, a.S, d.Hash, string(a.K), argc, a.N)
			} else {
				call(nativehashes.PolicyContract, a.S, d.Hash, string(a.K), argc)
			}
		default:
			call(nativehashes.PolicyContract, a.S, a.N)
		}
	case "neo_set": // S = setGasPerBlock | setRegisterPrice
		extra = append(extra, PCommittee)
		call(nativehashes.NeoToken, a.S, a.N)
	case "native_set": // S = "<Native>.<setter>", N = value; committee-signed
		extra = append(extra, PCommittee)
		h := map[string]util.Uint160{"Oracle": nativehashes.OracleContract, "Notary": nativehashes.Notary, "Management": nativehashes.ContractManagement}
		dot := strings.IndexByte(a.S, '.')
		if dot < 0 {
			return nil, nil, fmt.Errorf("native_set: bad method %q", a.S)
		}
		ch, ok := h[a.S[:dot]]
		if !ok {
			return nil, nil, fmt.Errorf("native_set: unknown native %q", a.S)
		}
		call(ch, a.S[dot+1:], a.N)
	case "designate": // A = role, B = bitmask of RoleKeys
		extra = append(extra, PCommittee)
		var pubs []any
		for i := range RoleKeys {
			if a.B&(1<<i) != 0 {
				pubs = append(pubs, RoleKeys[i].Pub.Bytes())
			}
		}
		if len(pubs) == 0 {
			pubs = append(pubs, RoleKeys[0].Pub.Bytes())
		}
		call(nativehashes.RoleManagement, "designateAsRole", int64(a.A), pubs)
	case "notary_deposit": // N = amount, A = till delta, B = beneficiary party (or -1: self)
		to := from
		if a.B >= 0 {
			to = b.PartyHash(a.B)
		}
		call(nativehashes.GasToken, "transfer", from, nativehashes.Notary, a.N, []any{to, int64(b.N.BC.BlockHeight()) + int64(a.A)})
	case "notary_lock":
		call(nativehashes.Notary, "lockDepositUntil", from, int64(b.N.BC.BlockHeight())+int64(a.A))
	case "notary_withdraw": // A = receiver party
		call(nativehashes.Notary, "withdraw", from, b.PartyHash(a.A))
	case "deploy": // A = variant selector (0..2), S = name suffix, B = permission profile (PermProfile)
		c := KContract(fmt.Sprintf("K%d%s", a.A, a.S), a.A, PermProfile(a.B)...)
		if emitBigNEFArgs(w.BinWriter, c) {
			emit.AppCallNoArgs(w.BinWriter, nativehashes.ContractManagement, "deploy", callflag.All)
			break
		}
		call(nativehashes.ContractManagement, "deploy", c.NEF, c.Manifest)
	case "invoke": // A = contract index, S = method, K/V/N arguments by method
		if len(b.Deployed) == 0 {
			return nil, nil, errors.New("no contract deployed")
		}
		d := b.Deployed[((a.A%len(b.Deployed))+len(b.Deployed))%len(b.Deployed)]
		switch a.S {
		case "put", "safePut":
			call(d.Hash, a.S, []byte(a.K), []byte(a.V))
		case "del", "get", "safeGet":
			call(d.Hash, a.S, []byte(a.K))
		case "find":
			call(d.Hash, "find", []byte(a.K), a.N)
		case "notify":
			call(d.Hash, "notify", []byte(a.V))
		case "fail", "abort", "destroy", "variant":
			call(d.Hash, a.S)
		case "burn":
			call(d.Hash, "burn", a.N)
		case "cw":
			call(d.Hash, "cw", b.PartyHash(a.B))
		case "xfer": // contract sends N of GAS (B even) / NEO (B odd) to party K[0]
			tok := nativehashes.GasToken
			if a.B%2 == 1 {
				tok = nativehashes.NeoToken
			}
			to := 0
			if len(a.K) > 0 {
				to = int(a.K[0])
			}
			call(d.Hash, "xfer", tok, b.PartyHash(to), a.N)
		case "vote_self": // the CONTRACT votes for candidate B with the NEO it holds (-1: withdraws its vote)
			var pub any
			if a.B >= 0 {
				pub = candPub(a.B).Bytes()
			}
			call(d.Hash, "call", nativehashes.NeoToken, "vote", int64(callflag.All), []any{d.Hash, pub})
		case "set_onmint": // what the contract does when GAS is minted to it: Policy.blockAccount(party B) (S2 == ""), see KContract
			it := stackitem.NewArray([]stackitem.Item{
				stackitem.NewByteArray(nativehashes.PolicyContract.BytesBE()), stackitem.NewByteArray([]byte("blockAccount")),
				stackitem.NewBigInteger(big.NewInt(int64(callflag.All))),
				stackitem.NewArray([]stackitem.Item{stackitem.NewByteArray(b.PartyHash(a.B).BytesBE())})})
			raw, err := stackitem.Serialize(it)
			if err != nil {
				return nil, nil, err
			}
			call(d.Hash, "put", []byte("onmint"), raw)
		case "put_then_fail": // storage write followed by a throw: the write must not survive
			call(d.Hash, "put", []byte(a.K), []byte(a.V))
			call(d.Hash, "fail")
		case "try_fail_put": // caught failure of a nested call, then a kept write
			d2 := b.Deployed[(a.B%len(b.Deployed)+len(b.Deployed))%len(b.Deployed)]
			call(d.Hash, "tryCall", d2.Hash, "putFail", int64(callflag.All), []any{[]byte(a.K), []byte(a.V)})
			emit.Opcodes(w.BinWriter, opcode.DROP)
			call(d.Hash, "put", append([]byte("kept"), a.K...), []byte(a.V))
		case "update": // update to another variant
			c := KContract(d.C.Name, int(a.N%3), PermProfile(a.B)...) // B = permission profile of the new manifest
			if emitBigNEFArgs(w.BinWriter, c) {
				emit.AppCallNoArgs(w.BinWriter, d.Hash, "update", callflag.All)
				break
			}
			call(d.Hash, "update", c.NEF, c.Manifest)
		default:
			return nil, nil, fmt.Errorf("unknown method %q", a.S)
		}
	case "multi_put": // A = contract, N = count, K = key prefix, V = value: several puts/deletes in one tx
		if len(b.Deployed) == 0 {
			return nil, nil, errors.New("no contract deployed")
		}
		d := b.Deployed[((a.A%len(b.Deployed))+len(b.Deployed))%len(b.Deployed)]
		for i := int64(0); i < a.N; i++ {
			k := append(append([]byte{}, a.K...), byte(i))
			if a.B != 0 && i%int64(a.B+1) == 0 {
				call(d.Hash, "del", k)
			} else {
				call(d.Hash, "put", k, append(append([]byte{}, a.V...), byte('a'+i%26))) // distinct values
			}
			emit.Opcodes(w.BinWriter, opcode.DROP)
		}
	case "oracle_request": // via contract A: call Oracle.request(url, filter, cb, userdata, gas)
		if len(b.Deployed) == 0 {
			return nil, nil, errors.New("no contract deployed")
		}
		d := b.Deployed[((a.A%len(b.Deployed))+len(b.Deployed))%len(b.Deployed)]
		// B selects the callback: 0 "notify" (1 parameter: the response finds no method with 4 and FAULTs), 1 oracleCb
		// (writes a storage item, emits an event), 2 oracleCbFail (the same, then throws). N = gas for the response (0: the minimum).
		gfr := a.N
		if gfr == 0 {
			gfr = 10000000
		}
		cb := OracleCallbacks[((a.B%len(OracleCallbacks))+len(OracleCallbacks))%len(OracleCallbacks)]
		call(d.Hash, "call", nativehashes.OracleContract, "request", int64(callflag.All), []any{"https://x.example/" + a.S, nil, cb, []byte(a.V), gfr})
	case "ledger_q":
		// A question about a recent block, answered from the ledger records of the node (not from contract storage):
		// N 0: Ledger.getTransactionFromBlock(currentIndex-A, B), N 1: Ledger.getBlock(currentIndex-A); then
		// 1 GAS unit (an answer) or 2 (Null) are moved, so that a different answer or a fault shows in the state.
		call(nativehashes.LedgerContract, "currentIndex")
		emit.Int(w.BinWriter, int64(a.A))
		emit.Opcodes(w.BinWriter, opcode.SUB)
		method := "getBlock"
		if a.N == 0 {
			method = "getTransactionFromBlock"
			emit.Int(w.BinWriter, int64(a.B))
			emit.Opcodes(w.BinWriter, opcode.SWAP)
			emit.Int(w.BinWriter, 2)
		} else {
			emit.Int(w.BinWriter, 1)
		}
		emit.Opcodes(w.BinWriter, opcode.PACK)
		emit.AppCallNoArgs(w.BinWriter, nativehashes.LedgerContract, method, callflag.ReadStates)
		// amount = 1 (an answer) or 2 (Null): GAS.transfer(from, to, amount, nil)
		emit.Opcodes(w.BinWriter, opcode.ISNULL, opcode.PUSH1, opcode.ADD, opcode.PUSHNULL, opcode.SWAP)
		emit.Bytes(w.BinWriter, b.PartyHash((a.From+1)%NAccounts).BytesBE())
		emit.Bytes(w.BinWriter, from.BytesBE())
		emit.Int(w.BinWriter, 4)
		emit.Opcodes(w.BinWriter, opcode.PACK)
		emit.AppCallNoArgs(w.BinWriter, nativehashes.GasToken, "transfer", callflag.All)
		emit.Opcodes(w.BinWriter, opcode.ASSERT)
	case "raw": // V = raw script
		w.WriteBytes(a.V)
	case "throw":
		emit.String(w.BinWriter, "generated throw")
		emit.Opcodes(w.BinWriter, opcode.THROW)
	case "syscall_time": // harmless read-only script
		emit.Syscall(w.BinWriter, interopnames.SystemRuntimeGetTime)
	default:
		return nil, nil, fmt.Errorf("unknown action kind %q", a.Kind)
	}
	if a.Fail {
		emit.String(w.BinWriter, "generated throw after the action")
		emit.Opcodes(w.BinWriter, opcode.THROW)
	}
	if w.Err != nil {
		return nil, nil, w.Err
	}
	return w.Bytes(), extra, nil
}

func scopeOf(s int) transaction.WitnessScope {
	switch s {
	case 1:
		return transaction.CalledByEntry
	case 2:
		return transaction.None
	}
	return transaction.Global
}

type txSigner struct {
	actor    *Actor
	contract bool
	hash     util.Uint160
	// contract signers whose `verify` takes arguments: the invocation script (nil: empty)
	inv func(tx *transaction.Transaction) []byte
}

// MakeTx builds, prices and signs the transaction of an action against the builder's current state.
func (b *Builder) MakeTx(a Action) (*transaction.Transaction, error) {
	switch a.Kind {
	case "oracle_response":
		return b.makeOracleResponse(a)
	case "notary_assisted":
		return b.makeNotaryAssisted(a)
	}
	script, extra, err := b.MakeScript(a)
	if err != nil {
		return nil, err
	}
	bc := b.N.BC
	tx := transaction.New(script, 0)
	tx.Nonce = a.Nonce
	tx.ValidUntilBlock = bc.BlockHeight() + 1 + a.VUB%max(1, bc.GetMaxValidUntilBlockIncrement())
	var signers []txSigner
	add := func(p int, scope transaction.WitnessScope) {
		var s txSigner
		if p < 0 { // candidate key -1-i
			a := Single(candKey(-1 - p))
			s = txSigner{actor: &a, hash: a.Hash}
		} else {
			act, isC, h := b.party(p)
			s = txSigner{actor: act, contract: isC, hash: h}
		}
		for _, e := range signers {
			if e.hash == s.hash {
				return
			}
		}
		signers = append(signers, s)
		tx.Signers = append(tx.Signers, transaction.Signer{Account: s.hash, Scopes: scope})
	}
	add(a.From, scopeOf(a.Scope))
	for _, p := range extra {
		add(p, transaction.Global)
	}
	for _, at := range a.Attrs {
		switch at.Kind {
		case "conflicts":
			if at.Ref >= 3 || len(b.TxHashes) > 0 {
				var h util.Uint256
				if at.Ref >= 3 {
					// a transaction that was signed but never sent (the documented use of the attribute: cancel it):
					// the hash names nothing on chain, the block leaves conflict records (hash -> height, hash+signer ->
					// height) that make the named transaction unacceptable while they are traceable. Few distinct
					// hashes, so that one hash is named again by later blocks.
					h = SpareHash(at.Ref)
				} else {
					h = b.TxHashes[len(b.TxHashes)-1-(at.Ref%len(b.TxHashes))]
				}
				dup := false
				for _, e := range tx.Attributes {
					if c, ok := e.Value.(*transaction.Conflicts); ok && c.Hash == h {
						dup = true
					}
				}
				if !dup {
					tx.Attributes = append(tx.Attributes, transaction.Attribute{Type: transaction.ConflictsT, Value: &transaction.Conflicts{Hash: h}})
				}
			}
		case "nvb":
			has := false
			for _, e := range tx.Attributes {
				if e.Type == transaction.NotValidBeforeT {
					has = true
				}
			}
			if !has {
				tx.Attributes = append(tx.Attributes, transaction.Attribute{Type: transaction.NotValidBeforeT, Value: &transaction.NotValidBefore{Height: bc.BlockHeight() + uint32(at.Ref%3)}})
			}
		case "high":
			has := false
			for _, e := range tx.Attributes {
				if e.Type == transaction.HighPriority {
					has = true
				}
			}
			if !has {
				tx.Attributes = append(tx.Attributes, transaction.Attribute{Type: transaction.HighPriority})
				add(PCommittee, transaction.None)
			}
		}
	}
	// System fee from a test invocation on the current state.
	gas, _ := b.TestInvoke(tx)
	tx.SystemFee = gas + a.GasAdj
	if a.Kind == "ledger_q" {
		// the price is measured on the builder; a node that answers differently must be able to go on to the transfer
		tx.SystemFee += 5000_0000
	}
	if tx.SystemFee < 0 {
		tx.SystemFee = 0
	}
	if err := b.AddNetworkFee(tx, signers); err != nil {
		return nil, err
	}
	b.Sign(tx, signers)
	return tx, nil
}

// TestInvoke runs the tx script on the current state and returns the gas consumed.
func (b *Builder) TestInvoke(tx *transaction.Transaction) (int64, error) {
	ttx := *tx
	ic, err := b.N.BC.GetTestVM(trigger.Application, &ttx, nil)
	if err != nil {
		return 0, err
	}
	defer ic.Finalize()
	ic.VM.LoadWithFlags(tx.Script, callflag.All)
	err = ic.VM.Run()
	return ic.VM.GasConsumed(), err
}

// AddNetworkFee sets tx.NetworkFee to the exact required amount (the way wallets / neotest compute it).
func (b *Builder) AddNetworkFee(tx *transaction.Transaction, signers []txSigner) error {
	bc := b.N.BC
	base := bc.GetBaseExecFee()
	size := io.GetVarSize(tx)
	tx.NetworkFee = 0
	for _, s := range signers {
		if s.contract {
			txc := *tx
			ic, err := bc.GetTestVM(trigger.Verification, &txc, nil)
			if err != nil {
				return err
			}
			ic.UseSigners(tx.Signers)
			ic.VM.SetGasLimit(bc.GetMaxVerificationGAS())
			wit := &transaction.Witness{}
			if s.inv != nil {
				wit.InvocationScript = s.inv(&txc) // the signature is not final yet: only its size and its cost matter here
			}
			if err := bc.InitVerificationContext(ic, s.hash, wit); err != nil {
				ic.Finalize()
				return err
			}
			err = ic.VM.Run()
			gas := ic.VM.GasConsumed()
			ic.Finalize()
			if err != nil {
				return err
			}
			tx.NetworkFee += gas
			size += io.GetVarSize(wit.InvocationScript) + io.GetVarSize([]byte{})
			continue
		}
		nf, sd := fee.Calculate(base, s.actor.Ver)
		tx.NetworkFee += nf
		size += sd
	}
	tx.NetworkFee += int64(size)*bc.FeePerByte() + bc.CalculateAttributesFee(tx)
	return nil
}

// Sign fills tx.Scripts.
func (b *Builder) Sign(tx *transaction.Transaction, signers []txSigner) {
	tx.Scripts = tx.Scripts[:0]
	for _, s := range signers {
		if s.contract {
			inv := []byte{}
			if s.inv != nil {
				inv = s.inv(tx)
			}
			tx.Scripts = append(tx.Scripts, transaction.Witness{InvocationScript: inv, VerificationScript: []byte{}})
			continue
		}
		tx.Scripts = append(tx.Scripts, transaction.Witness{InvocationScript: s.actor.Invocation(tx), VerificationScript: s.actor.Ver})
	}
}

// errClass maps an error to a short stable class name (no hashes / numbers: it is used as a histogram label).
func errClass(err error) string {
	s := err.Error()
	var out []rune
	for _, r := range s {
		if r >= '0' && r <= '9' {
			break
		}
		out = append(out, r)
		if len(out) >= 44 {
			break
		}
	}
	return strings.TrimSpace(string(out))
}

// NextBlock assembles and signs the next block from already-built transactions.
func (b *Builder) NextBlock(txs []*transaction.Transaction, timeD uint32, nonce uint64, primary int) (*block.Block, error) {
	bc := b.N.BC
	prev, err := bc.GetHeader(bc.CurrentBlockHash())
	if err != nil {
		return nil, err
	}
	vals, err := b.ValidatorsActor()
	if err != nil {
		return nil, err
	}
	next := bc.ComputeNextBlockValidators()
	ns, err := smartcontract.CreateDefaultMultiSigRedeemScript(next)
	if err != nil {
		return nil, err
	}
	if timeD == 0 {
		timeD = 1
	}
	blk := &block.Block{
		Header: block.Header{
			Version:       0,
			PrevHash:      prev.Hash(),
			Timestamp:     prev.Timestamp + uint64(timeD),
			Nonce:         nonce,
			Index:         prev.Index + 1,
			PrimaryIndex:  byte(((primary % len(vals.Keys)) + len(vals.Keys)) % len(vals.Keys)),
			NextConsensus: hash.Hash160(ns),
			Script:        transaction.Witness{VerificationScript: vals.Ver},
		},
		Transactions: txs,
	}
	if bc.GetConfig().StateRootInHeader {
		blk.StateRootEnabled = true
		blk.PrevStateRoot = bc.GetStateModule().CurrentLocalStateRoot()
	}
	blk.RebuildMerkleRoot()
	blk.Script.InvocationScript = vals.Invocation(blk)
	return blk, nil
}

// BuildBlock builds the transactions of a spec (admitting each into the builder's mempool so the block is valid
// by the node's own rules; rejected candidates are counted, not retried), assembles, signs and adds the block.
// It returns the block bytes.
func (b *Builder) BuildBlock(spec BlockSpec) ([]byte, *block.Block, error) {
	bc := b.N.BC
	var txs []*transaction.Transaction
	for _, a := range spec.Txs {
		tx, err := b.MakeTx(a)
		if err != nil {
			b.Rejected["build: "+errClass(err)]++
			continue
		}
		if err := bc.PoolTx(tx); err != nil {
			b.Rejected["pool: "+errClass(err)]++
			continue
		}
		txs = append(txs, tx)
	}
	// Pooling a conflicting tx may have evicted earlier ones: keep only what is still pooled.
	kept := txs[:0]
	for _, tx := range txs {
		if bc.GetMemPool().ContainsKey(tx.Hash()) {
			kept = append(kept, tx)
		} else {
			b.Rejected["evicted by conflict"]++
		}
	}
	txs = kept
	blk, err := b.NextBlock(txs, spec.TimeD, spec.Nonce, spec.Primary)
	if err != nil {
		return nil, nil, err
	}
	deposits := NotaryDeposits(bc)
	if err := bc.AddBlock(blk); err != nil {
		return nil, nil, fmt.Errorf("builder rejected its own block %d: %w", blk.Index, err)
	}
	b.NoteFlows(blk, deposits)
	for _, tx := range txs {
		b.TxHashes = append(b.TxHashes, tx.Hash())
	}
	b.trackDeployments(spec, txs)
	w := io.NewBufBinWriter()
	blk.EncodeBinary(w.BinWriter)
	if w.Err != nil {
		return nil, nil, w.Err
	}
	return w.Bytes(), blk, nil
}

// NoteFlows counts the flow labels of a block the builder has just added (depositsBefore: NotaryDeposits before it).
func (b *Builder) NoteFlows(blk *block.Block, depositsBefore map[util.Uint160]int64) {
	if b.Flow == nil { // builders assembled by hand
		b.Flow = map[string]int{}
	}
	for _, l := range Flows(b.N.BC, blk, depositsBefore) {
		b.Flow[l]++
	}
}

// FlowLabels returns the flow labels seen so far, sorted.
func (b *Builder) FlowLabels() []string {
	var out []string
	for l, n := range b.Flow {
		if n > 0 {
			out = append(out, l)
		}
	}
	sort.Strings(out)
	return out
}

// trackDeployments records contracts that now exist (after successful deploy txs) and drops destroyed ones.
func (b *Builder) trackDeployments(spec BlockSpec, txs []*transaction.Transaction) {
	for _, a := range spec.Txs {
		if a.Kind != "deploy" {
			continue
		}
		c := KContract(fmt.Sprintf("K%d%s", a.A, a.S), a.A)
		h := ContractHash(b.PartyHash(a.From), c)
		if b.N.BC.GetContractState(h) == nil {
			continue
		}
		known := false
		for _, d := range b.Deployed {
			if d.Hash == h {
				known = true
			}
		}
		if !known {
			b.Deployed = append(b.Deployed, Deployed{Hash: h, C: c, Deployer: a.From})
		}
	}
	// Destroyed contracts stay in the list on purpose (calls to them must fail identically everywhere).
}

// DecodeBlock parses block bytes the way a peer would (its own copy, no pointer sharing between nodes).
func DecodeBlock(raw []byte, srih bool) (*block.Block, error) {
	blk := block.New(srih)
	r := io.NewBinReaderFromBuf(raw)
	blk.DecodeBinary(r)
	return blk, r.Err
}

// Bootstrap builds the fixed funding prologue: block 1 funds every party from the genesis holder, block 2 deploys
// two library contracts (by account 0 and account 1). It returns the block bytes.
func (b *Builder) Bootstrap() ([][]byte, error) {
	var out [][]byte
	var fund []Action
	n := uint32(1)
	for p := 0; p < NParties; p++ {
		fund = append(fund, Action{Kind: "gas_transfer", From: PValidators, A: p, N: 20000_0000_0000, Nonce: n})
		n++
		neo := int64(1000 * (p + 1))
		if p >= NAccounts {
			neo = 50
		}
		fund = append(fund, Action{Kind: "neo_transfer", From: PValidators, A: p, N: neo, Nonce: n})
		n++
	}
	raw, _, err := b.BuildBlock(BlockSpec{Txs: fund, TimeD: 1000})
	if err != nil {
		return nil, err
	}
	out = append(out, raw)
	dep := []Action{
		{Kind: "deploy", From: 0, A: 0, Nonce: n},
		{Kind: "deploy", From: 1, A: 1, Nonce: n + 1},
		{Kind: "designate", From: 3, A: int(noderoles.Oracle), B: 7, Nonce: n + 5},
	}
	if b.N.Chain.P2PSig {
		dep = append(dep,
			Action{Kind: "designate", From: 2, A: int(noderoles.P2PNotary), B: 1, Nonce: n + 2},
			Action{Kind: "notary_deposit", From: 0, N: 50_0000_0000, A: 40, B: -1, Nonce: n + 3},
			Action{Kind: "notary_deposit", From: 1, N: 30_0000_0000, A: 25, B: -1, Nonce: n + 4},
		)
	}
	raw, _, err = b.BuildBlock(BlockSpec{Txs: dep, TimeD: 1000})
	if err != nil {
		return nil, err
	}
	out = append(out, raw)
	if len(b.Rejected) != 0 {
		return nil, fmt.Errorf("bootstrap transactions rejected: %v", b.Rejected)
	}
	if len(b.Deployed) != 2 {
		return nil, fmt.Errorf("bootstrap deployed %d contracts", len(b.Deployed))
	}
	return out, nil
}

var _ = big.NewInt

// PermProfile is the set of manifest permissions a generated contract is deployed (or updated) with:
// 0 wildcard (may call everything), 1 any contract but an explicitly EMPTY method list (may call nothing),
// 2 any contract, methods put and putFail only, 3 no permission at all. Calls of non-safe methods the profile
// does not allow fault ("disallowed method call") on every node, restarted or not.
func PermProfile(p int) []asm.ManifestOpt {
	p = ((p % 4) + 4) % 4
	if p == 0 {
		return nil
	}
	return []asm.ManifestOpt{func(m *manifest.Manifest) {
		switch p {
		case 1:
			mp := manifest.NewPermission(manifest.PermissionWildcard)
			mp.Methods.Value = []string{}
			m.Permissions = []manifest.Permission{*mp}
		case 2:
			mp := manifest.NewPermission(manifest.PermissionWildcard)
			mp.Methods.Value = []string{"put", "putFail"}
			m.Permissions = []manifest.Permission{*mp}
		case 3:
			m.Permissions = []manifest.Permission{}
		}
	}}
}

// emitBigNEFArgs emits the argument array [nef, manifest] of a padded ("big") contract: its NEF does not fit into a
// transaction script (65535 bytes), so the script puts it together from the part before the padding, three copies of
// a 22000-byte chunk and the rest. It reports false (emitting nothing) for ordinary contracts.
func emitBigNEFArgs(w *io.BinWriter, c *asm.Contract) bool {
	pad := bytes.Repeat([]byte{byte(opcode.NOP)}, 66000)
	i := bytes.Index(c.NEF, pad)
	if i < 0 {
		return false
	}
	emit.Bytes(w, c.Manifest)
	emit.Bytes(w, c.NEF[:i])
	emit.Bytes(w, pad[:22000])
	emit.Opcodes(w, opcode.DUP, opcode.DUP, opcode.CAT, opcode.CAT, opcode.CAT)
	emit.Bytes(w, c.NEF[i+len(pad):])
	emit.Opcodes(w, opcode.CAT, opcode.CONVERT)
	w.WriteB(byte(stackitem.ByteArrayT))
	emit.Opcodes(w, opcode.PUSH2, opcode.PACK)
	return true
}

// SpareHash is the hash of the n-th "signed but never sent" transaction named by generated Conflicts attributes.
func SpareHash(n int) util.Uint256 {
	return hash.Sha256([]byte{'s', 'p', 'a', 'r', 'e', byte(n % 3)})
}

// ConflictRecords lists the on-chain conflict records of a store: executable-prefixed keys (hash, or hash + signer)
// whose value is the 5-byte stub (transaction marker + height). They decide whether a transaction named by a Conflicts
// attribute of an on-chain transaction is acceptable (dao.HasTransaction).
func ConflictRecords(st storage.Store) map[string]string {
	m := map[string]string{}
	st.Seek(storage.SeekRange{Prefix: []byte{byte(storage.DataExecutable)}}, func(k, v []byte) bool {
		if len(v) == 5 && v[0] == storage.ExecTransaction && (len(k) == 33 || len(k) == 53) {
			m[hex.EncodeToString(k)] = hex.EncodeToString(v)
		}
		return true
	})
	return m
}
