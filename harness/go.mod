module verifharness

go 1.25.0

require (
	github.com/nspcc-dev/neo-go v0.0.0
	pgregory.net/rapid v1.3.0
)

require (
	github.com/decred/dcrd/crypto/ripemd160 v1.0.2 // indirect
	github.com/golang/snappy v0.0.1 // indirect
	github.com/nspcc-dev/bbolt v0.0.0-20260404200350-24f70ceb2bd9 // indirect
	github.com/syndtr/goleveldb v1.0.1-0.20210305035536-64b5b1c73954 // indirect
	golang.org/x/sys v0.45.0 // indirect
	gopkg.in/yaml.v3 v3.0.1 // indirect
)

replace github.com/nspcc-dev/neo-go => /repo
