package c16

import (
	"fmt"
	"slices"
	"strings"

	"github.com/nspcc-dev/neo-go/pkg/smartcontract/callflag"
	"github.com/nspcc-dev/neo-go/pkg/smartcontract/trigger"
	"github.com/nspcc-dev/neo-go/pkg/util"
	"pgregory.net/rapid"
	"verifharness/vt"
)

// Hop is one link of a call chain: contract P<C+1> is called with the requested flags; Safe selects the
// safe-declared forwarding method (shop) for intermediate hops and the safe-declared leaf for the last one.
type Hop struct {
	C     int  `json:"c"`     // 0..2 -> P1..P3
	Flags int  `json:"flags"` // requested flags for this call
	Safe  bool `json:"safe"`
	// Token: the call into P1 (C must be 0) is made by a CALLT of contract TH whose method token carries Flags as
	// the token's call flags; TH itself is entered through System.Contract.Call requesting the flags Enter.
	Token bool `json:"token,omitempty"`
	Enter int  `json:"enter,omitempty"`
}

// ChainCase is entry(All) -> hop1 -> ... -> hopN whose last hop executes the leaf action.
type ChainCase struct {
	Hops   []Hop  `json:"hops"`   // 1..3
	Action string `json:"action"` // leafActions
	Try    bool   `json:"try"`    // the leaf runs its action inside a TRY block (a missing flag is NOT a catchable exception in this VM: the run must fault all the same; the TRY makes nested calls go through the per-call DAO layer of call.go)
}

// genChainCase draws the chain so that every verdict class is frequent: each hop requests either an arbitrary one of
// the 16 flag sets, or what the rest of the chain needs plus arbitrary extras, or that with one needed flag removed.
func genChainCase(t *rapid.T) ChainCase {
	n := 1 + uniform(t, 3, "len")
	c := ChainCase{Action: pick(t, leafActions, "action"), Try: rapid.Bool().Draw(t, "try")}
	for i := 0; i < n; i++ {
		need := needCall // what the code running at this hop must be able to do: call on
		if i == n-1 {
			need = needs(c.Action)
		}
		var f int
		switch uniform(t, 8, "style") {
		case 0, 1:
			f = uniform(t, 16, "flags")
		case 2:
			f = fAll
		case 3, 4: // exactly one needed flag missing somewhere below All
			f = need | uniform(t, 16, "extra")
			if need != 0 {
				var bits []int
				for b := 1; b < 16; b <<= 1 {
					if need&b != 0 {
						bits = append(bits, b)
					}
				}
				f &^= pick(t, bits, "drop")
			}
		default:
			f = need | uniform(t, 16, "extra")
			if i < n-1 { // keep what the later hops need, so that the leaf decides
				f |= needs(c.Action)
			}
		}
		c.Hops = append(c.Hops, Hop{C: uniform(t, 3, "contract"), Flags: f, Safe: uniform(t, 6, "safe") == 0})
	}
	// Every third chain makes the hops that can be expressed as a method token of TH go through CALLT.
	if uniform(t, 3, "tokens") == 0 {
		for i := range c.Hops {
			if slices.Contains(thMethods, hopMethodName(c, i)) && rapid.Bool().Draw(t, "token") {
				c.Hops[i].Token, c.Hops[i].C = true, 0
				switch uniform(t, 4, "enter") {
				case 0:
					c.Hops[i].Enter = uniform(t, 16, "enterflags")
				case 1: // TH holds only part of what CALLT needs
					c.Hops[i].Enter = (needCall | uniform(t, 16, "enterextra")) &^ pick(t, []int{fRead, fCall}, "enterdrop")
				default:
					c.Hops[i].Enter = fAll
				}
			}
		}
	}
	return c
}

// needs is the specification of what a leaf action requires, from the documentation of the four flags: storage
// writes need WriteStates (and ReadStates when they first obtain a storage context), notifications AllowNotify,
// a contract call ReadStates|AllowCall, a token transfer everything (it reads, writes, notifies and may call back).
func needs(action string) int {
	switch action {
	case "put", "del":
		return fRead | fWrite
	case "lput", "ldel":
		return fWrite
	case "notify":
		return fNotify
	case "call":
		return fRead | fCall
	case "xfer":
		return fAll
	}
	return 0
}

const needCall = fRead | fCall // System.Contract.Call itself

// chainSpec computes, from the property ("flags only shrink along a call chain", "a safe method never modifies
// state"), the effective flags of the leaf and whether every link of the chain can be made.
func chainSpec(c ChainCase) (leafFlags int, reached bool) {
	eff := fAll // entry script
	for _, h := range c.Hops {
		if eff&needCall != needCall {
			return 0, false
		}
		if h.Token { // first into TH, which then needs the right to call for its CALLT
			eff &= h.Enter
			if eff&needCall != needCall {
				return 0, false
			}
		}
		eff &= h.Flags
		if h.Safe {
			eff &= fReadOnly
		}
	}
	return eff, true
}

func (w *world) chainScript(c ChainCase) ([]byte, []util.Uint160) {
	// path elements for hops 2..n, then [P4] as the argument of the leaf
	var path []any
	link := func(i int) (util.Uint160, int, string) {
		h := c.Hops[i]
		if h.Token {
			return w.th.Hash, h.Enter, thMethod(hopMethodName(c, i), h.Flags)
		}
		return w.ps[h.C].Hash, h.Flags, hopMethodName(c, i)
	}
	for i := 1; i < len(c.Hops); i++ {
		hash, f, m := link(i)
		path = append(path, []any{hb(hash), int64(f), m})
	}
	path = append(path, hb(w.ps[3].Hash))
	var own []util.Uint160
	for _, h := range c.Hops {
		own = append(own, w.ps[h.C].Hash)
		if h.Token {
			own = append(own, w.th.Hash)
		}
	}
	hash, f, m := link(0)
	return appCall(hash, m, callflag.CallFlag(f), path), own
}

func hopMethodName(c ChainCase, i int) string {
	if i == len(c.Hops)-1 {
		return leafMethod(c.Action, c.Try, c.Hops[i].Safe)
	}
	if c.Hops[i].Safe {
		return "shop"
	}
	return "hop"
}

// leafEffect reports which kind of effect of the leaf action is visible in the outcome.
func leafEffect(action string, leaf string, o *outcome) (present bool) {
	st, nt := o.Changed, o.Notifs
	has := func(l []string, pfx string) bool {
		return slices.ContainsFunc(l, func(s string) bool { return strings.HasPrefix(s, pfx) })
	}
	switch action {
	case "put":
		present = has(st, "+"+leaf+"(")
	case "lput":
		present = has(st, "+"+leaf+"(")
	case "del", "ldel":
		present = has(st, "-"+leaf+"(")
	case "notify":
		present = has(nt, leaf+":E")
	case "call":
		present = o.Invoc["P4"] > 0 || slices.Contains(o.Foreign, "P4")
	case "xfer":
		present = has(st, "~GasToken") || has(nt, "GasToken:Transfer")
	}
	return present
}

func checkChainCase(c ChainCase, o *vt.Obs) error {
	w, err := getWorld()
	if err != nil {
		return fmt.Errorf("setup: %v", err)
	}
	if len(c.Hops) < 1 || len(c.Hops) > 4 || !slices.Contains(leafActions, c.Action) {
		return nil
	}
	for i, h := range c.Hops {
		if h.C < 0 || h.C > 2 || h.Flags < 0 || h.Flags > 15 || h.Enter < 0 || h.Enter > 15 {
			return nil
		}
		if h.Token && (h.C != 0 || !slices.Contains(thMethods, hopMethodName(c, i))) {
			return nil // not expressible as a token of TH
		}
	}
	script, own := w.chainScript(c)
	ic, err := w.newIC(trigger.Application, w.plainTx(nil, 0))
	if err != nil {
		return err
	}
	ic.VM.LoadWithFlags(script, callflag.All)
	out := w.run(ic, own...)
	o.Units(1)

	leafFlags, reached := chainSpec(c)
	leafName := w.ps[c.Hops[len(c.Hops)-1].C].Name
	enough := reached && leafFlags&needs(c.Action) == needs(c.Action)
	where := fmt.Sprintf("chain %s (specified leaf flags %s, reached=%v)", describeChain(c), flagName(leafFlags), reached)

	// 1. Behavioural clauses on everything that ran: the most any code in the chain can hold is the flags of the first hop.
	present := leafEffect(c.Action, leafName, out)
	hasStorage, hasNotif := len(out.Changed) != 0, len(out.Notifs) != 0
	hasCall := out.Invoc["P4"] > 0 || slices.Contains(out.Foreign, "P4") || out.Invoc["GasToken"] > 0
	if out.Halt {
		if reached && leafFlags&fWrite == 0 && hasStorage {
			return fmt.Errorf("%s: leaf ran without WriteStates, yet storage changed: %s", where, out)
		}
		if reached && leafFlags&fNotify == 0 && hasNotif {
			return fmt.Errorf("%s: leaf ran without AllowNotify, yet a notification was emitted: %s", where, out)
		}
		if reached && leafFlags&fCall == 0 && hasCall {
			return fmt.Errorf("%s: leaf ran without AllowCall, yet it called a contract: %s", where, out)
		}
		if !reached && (hasStorage || hasNotif || hasCall) {
			return fmt.Errorf("%s: a link of the chain lacked ReadStates|AllowCall, yet effects appeared: %s", where, out)
		}
	}
	// 2. Exactness: effective flags are the intersection along the chain -- the leaf effect is present iff they suffice.
	switch {
	case enough:
		if !out.Halt {
			return fmt.Errorf("%s: flags suffice for %q but the run failed: %s", where, c.Action, out)
		}
		if needs(c.Action) != 0 && !present {
			return fmt.Errorf("%s: flags suffice for %q, the run HALTed, but the effect is absent: %s", where, c.Action, out)
		}
		if c.Action == "flags" {
			// the leaf reports the flags it actually holds: exactly the intersection along the chain
			if out.Stack != fmt.Sprint(leafFlags) {
				return fmt.Errorf("%s: the leaf holds flags %s (System.Contract.GetCallFlags)", where, out.Stack)
			}
		} else if out.Stack != "1" {
			return fmt.Errorf("%s: flags suffice for %q but the leaf reported %s", where, c.Action, out.Stack)
		}
	default:
		if out.Halt {
			return fmt.Errorf("%s: flags do not suffice (leaf lacks %s for %q or a link cannot call), yet the run HALTed: %s", where, flagName(needs(c.Action)&^leafFlags), c.Action, out)
		}
	}
	// Classification.
	o.Labelf("len-%d", len(c.Hops))
	o.Label("action/" + c.Action)
	anySafe, anyToken := false, false
	for _, h := range c.Hops {
		anySafe = anySafe || h.Safe
		anyToken = anyToken || h.Token
	}
	if anyToken {
		o.Label("with-token-hop")
	}
	if anySafe {
		o.Label("with-safe-hop")
	}
	switch {
	case !reached:
		o.Label("link-cannot-call")
	case enough:
		o.Label("leaf-allowed")
	default:
		o.Label("leaf-denied")
	}
	// Non-trivial: the action is denied only because of one flag missing at one hop (with that single flag added back
	// the whole chain is allowed), or allowed/observed through a hop that requested strictly less than All.
	if !enough && needs(c.Action) != 0 {
		for i := range c.Hops {
			for bit := 1; bit < 16; bit <<= 1 {
				if c.Hops[i].Flags&bit != 0 && !(c.Hops[i].Token && c.Hops[i].Enter&bit == 0) {
					continue
				}
				d := ChainCase{Hops: slices.Clone(c.Hops), Action: c.Action, Try: c.Try}
				if !c.Hops[i].Token || c.Hops[i].Enter&needCall == needCall {
					d.Hops[i].Flags |= bit
				} else {
					d.Hops[i].Enter |= bit
				}
				if lf, r := chainSpec(d); r && lf&needs(c.Action) == needs(c.Action) {
					// confirm by execution: the same chain with that single flag added succeeds with the effect
					script, own := w.chainScript(d)
					ic, err := w.newIC(trigger.Application, w.plainTx(nil, 0))
					if err != nil {
						return err
					}
					ic.VM.LoadWithFlags(script, callflag.All)
					out2 := w.run(ic, own...)
					o.Units(1)
					if !out2.Halt || !leafEffect(c.Action, leafName, out2) {
						return fmt.Errorf("chain %s: flags suffice for %q but the run failed or the effect is absent: %s", describeChain(d), c.Action, out2)
					}
					o.Label("denied-by-single-flag")
					o.NonTrivial()
					return nil
				}
			}
		}
	}
	if enough && c.Action != "nothing" && len(c.Hops) >= 2 {
		for _, h := range c.Hops {
			if h.Flags != fAll {
				o.Label("allowed-through-restricted-hop")
				o.NonTrivial()
				return nil
			}
		}
	}
	return nil
}

func describeChain(c ChainCase) string {
	s := "entry[All]"
	for i, h := range c.Hops {
		m := "hop"
		if i == len(c.Hops)-1 {
			m = c.Action
			if c.Try {
				m = "try{" + m + "}"
			}
		}
		if h.Safe {
			m = "safe:" + m
		}
		if h.Token {
			s += fmt.Sprintf(" -(%s)-> TH =CALLT[token flags %s]=> P%d.%s", flagName(h.Enter), flagName(h.Flags), h.C+1, m)
		} else {
			s += fmt.Sprintf(" -(%s)-> P%d.%s", flagName(h.Flags), h.C+1, m)
		}
	}
	return s
}

// ---- (d) safe methods -------------------------------------------------------------------------------------------

// SafeCase: a safe-declared method whose body attempts an effect, called with drawn requested flags, directly from
// the entry script or through one ordinary hop.
type SafeCase struct {
	C      int    `json:"c"`
	Action string `json:"action"`
	Try    bool   `json:"try"`
	Flags  int    `json:"flags"` // requested for the safe method
	Via    int    `json:"via"`   // 0 entry -> safe, 1 entry -> P(c+1).hop[All] -> safe
}

func genSafeCase(t *rapid.T) SafeCase {
	return SafeCase{
		C:      uniform(t, 3, "c"),
		Action: pick(t, leafActions, "action"),
		Try:    rapid.Bool().Draw(t, "try"),
		Flags:  pick(t, []int{15, 15, 15, 15, 15, 15, 14, 11, 10, 7, 5, 3, 2, 8, 0, 1, 4, 6, 9, 12, 13}, "flags"),
		Via:    uniform(t, 2, "via"),
	}
}

func checkSafeCase(c SafeCase, o *vt.Obs) error {
	w, err := getWorld()
	if err != nil {
		return fmt.Errorf("setup: %v", err)
	}
	if c.C < 0 || c.C > 2 || !slices.Contains(leafActions, c.Action) || c.Flags < 0 || c.Flags > 15 {
		return nil
	}
	cc := ChainCase{Action: c.Action, Try: c.Try, Hops: []Hop{{C: c.C, Flags: c.Flags, Safe: true}}}
	if c.Via == 1 {
		cc.Hops = []Hop{{C: (c.C + 1) % 3, Flags: fAll}, {C: c.C, Flags: c.Flags, Safe: true}}
	}
	script, own := w.chainScript(cc)
	ic, err := w.newIC(trigger.Application, w.plainTx(nil, 0))
	if err != nil {
		return err
	}
	ic.VM.LoadWithFlags(script, callflag.All)
	out := w.run(ic, own...)
	o.Units(1)
	where := fmt.Sprintf("safe method attempting %q (try=%v) of P%d called with requested flags %s via %d", c.Action, c.Try, c.C+1, flagName(c.Flags), c.Via)
	// The property: calling a method marked safe never modifies state whatever flags the caller passes (and, with
	// DESIGN: emits no event). Judged on the run's effects when it HALTs (a FAULTed transaction changes nothing by C04).
	if out.Halt {
		if len(out.Changed) != 0 {
			return fmt.Errorf("%s: storage changed: %s", where, out)
		}
		if len(out.Notifs) != 0 {
			return fmt.Errorf("%s: notification emitted: %s", where, out)
		}
	}
	// A safe method keeps the right to read and to call (read-only): with ReadStates|AllowCall requested the call
	// action must work and the callee must have run.
	mutating := needs(c.Action)&(fWrite|fNotify) != 0
	if c.Action == "flags" && out.Halt {
		want := c.Flags & fReadOnly
		if out.Stack != fmt.Sprint(want) {
			return fmt.Errorf("%s: the safe method holds flags %s, expected the requested ones without WriteStates and AllowNotify (%d)", where, out.Stack, want)
		}
	}
	switch {
	case mutating && out.Halt:
		return fmt.Errorf("%s: the mutating action did not fail inside the safe method: %s", where, out)
	case !mutating && c.Flags&needs(c.Action) == needs(c.Action) && (!out.Halt || (out.Stack != "1" && c.Action != "flags")):
		return fmt.Errorf("%s: a read-only action within the requested flags failed: %s", where, out)
	}
	o.Label("action/" + c.Action)
	o.Labelf("via-%d", c.Via)
	if mutating {
		o.Label("mutation-attempted")
		if c.Flags&needs(c.Action) == needs(c.Action) {
			// the caller passed everything the action needs: only the safe marking stands in the way
			o.Label("denied-only-by-safe")
			o.NonTrivial()
		}
	}
	return nil
}
