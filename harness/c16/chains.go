package c16

import (
	"fmt"
	"slices"
	"strings"

	"github.com/nspcc-dev/neo-go/pkg/smartcontract/callflag"
	"github.com/nspcc-dev/neo-go/pkg/smartcontract/trigger"
	"github.com/nspcc-dev/neo-go/pkg/util"
	"pgregory.net/rapid"
	"verifharness/vt"
)

// Hop is one link of a call chain: contract P<C+1> is called with the requested flags; Safe selects the
// safe-declared forwarding method (shop) for intermediate hops and the safe-declared leaf for the last one.
type Hop struct {
	C     int  `json:"c"`     // 0..2 -> P1..P3
	Flags int  `json:"flags"` // requested flags for this call
	Safe  bool `json:"safe"`
}

// ChainCase is entry(All) -> hop1 -> ... -> hopN whose last hop executes the leaf action.
type ChainCase struct {
	Hops   []Hop  `json:"hops"`   // 1..3
	Action string `json:"action"` // leafActions
	Try    bool   `json:"try"`    // the leaf swallows the exception of its own action
}

// biasedFlags draws one of the 16 flag sets, rich sets more often (so that deep chains reach their leaf).
func biasedFlags(t *rapid.T, label string) int {
	if rapid.IntRange(0, 2).Draw(t, label+"_any") == 0 {
		return rapid.IntRange(0, 15).Draw(t, label)
	}
	return rapid.SampledFrom([]int{15, 15, 15, 7, 13, 5, 11, 14, 3, 9}).Draw(t, label)
}

func genChainCase(t *rapid.T) ChainCase {
	n := rapid.IntRange(1, 3).Draw(t, "len")
	c := ChainCase{Action: rapid.SampledFrom(leafActions).Draw(t, "action"), Try: rapid.Bool().Draw(t, "try")}
	for i := 0; i < n; i++ {
		c.Hops = append(c.Hops, Hop{
			C:     rapid.IntRange(0, 2).Draw(t, "contract"),
			Flags: biasedFlags(t, "flags"),
			Safe:  rapid.IntRange(0, 5).Draw(t, "safe") == 0,
		})
	}
	return c
}

// needs is the specification of what a leaf action requires, from the documentation of the four flags: storage
// writes need WriteStates (and ReadStates when they first obtain a storage context), notifications AllowNotify,
// a contract call ReadStates|AllowCall, a token transfer everything (it reads, writes, notifies and may call back).
func needs(action string) int {
	switch action {
	case "put", "del":
		return fRead | fWrite
	case "lput", "ldel":
		return fWrite
	case "notify":
		return fNotify
	case "call":
		return fRead | fCall
	case "xfer":
		return fAll
	}
	return 0
}

const needCall = fRead | fCall // System.Contract.Call itself

// chainSpec computes, from the property ("flags only shrink along a call chain", "a safe method never modifies
// state"), the effective flags of the leaf and whether every link of the chain can be made.
func chainSpec(c ChainCase) (leafFlags int, reached bool) {
	eff := fAll // entry script
	for _, h := range c.Hops {
		if eff&needCall != needCall {
			return 0, false
		}
		eff &= h.Flags
		if h.Safe {
			eff &= fReadOnly
		}
	}
	return eff, true
}

func (w *world) chainScript(c ChainCase) ([]byte, []util.Uint160) {
	// path elements for hops 2..n, then [P4] as the argument of the leaf
	var path []any
	for i := 1; i < len(c.Hops); i++ {
		h := c.Hops[i]
		path = append(path, []any{hb(w.ps[h.C].Hash), int64(h.Flags), w.hopMethod(c, i)})
	}
	path = append(path, hb(w.ps[3].Hash))
	h0 := c.Hops[0]
	var own []util.Uint160
	for _, h := range c.Hops {
		own = append(own, w.ps[h.C].Hash)
	}
	return appCall(w.ps[h0.C].Hash, w.hopMethod(c, 0), callflag.CallFlag(h0.Flags), path), own
}

func (w *world) hopMethod(c ChainCase, i int) string {
	if i == len(c.Hops)-1 {
		return leafMethod(c.Action, c.Try, c.Hops[i].Safe)
	}
	if c.Hops[i].Safe {
		return "shop"
	}
	return "hop"
}

// leafEffect reports which kind of effect of the leaf action is visible in the outcome.
func leafEffect(action string, leaf string, o *outcome) (present bool, other []string) {
	var st, nt []string
	st = append(st, o.Changed...)
	nt = append(nt, o.Notifs...)
	has := func(l []string, pfx string) bool {
		return slices.ContainsFunc(l, func(s string) bool { return strings.HasPrefix(s, pfx) })
	}
	switch action {
	case "put":
		present = has(st, "+"+leaf+"(")
	case "lput":
		present = has(st, "+"+leaf+"(")
	case "del", "ldel":
		present = has(st, "-"+leaf+"(")
	case "notify":
		present = has(nt, leaf+":E")
	case "call":
		present = o.Invoc["P4"] > 0 || slices.Contains(o.Foreign, "P4")
	case "xfer":
		present = has(st, "~GasToken") || has(nt, "GasToken:Transfer")
	}
	return present, nil
}

func checkChainCase(c ChainCase, o *vt.Obs) error {
	w, err := getWorld()
	if err != nil {
		return fmt.Errorf("setup: %v", err)
	}
	if len(c.Hops) < 1 || len(c.Hops) > 4 || !slices.Contains(leafActions, c.Action) {
		return nil
	}
	for _, h := range c.Hops {
		if h.C < 0 || h.C > 2 || h.Flags < 0 || h.Flags > 15 {
			return nil
		}
	}
	script, own := w.chainScript(c)
	ic, err := w.newIC(trigger.Application, w.plainTx(nil, 0))
	if err != nil {
		return err
	}
	ic.VM.LoadWithFlags(script, callflag.All)
	out := w.run(ic, own...)
	o.Units(1)

	leafFlags, reached := chainSpec(c)
	leafName := w.ps[c.Hops[len(c.Hops)-1].C].Name
	enough := reached && leafFlags&needs(c.Action) == needs(c.Action)
	where := fmt.Sprintf("chain %s (specified leaf flags %s, reached=%v)", describeChain(c), flagName(leafFlags), reached)

	// 1. Behavioural clauses on everything that ran: the most any code in the chain can hold is the flags of the first hop.
	present, _ := leafEffect(c.Action, leafName, out)
	hasStorage, hasNotif := len(out.Changed) != 0, len(out.Notifs) != 0
	hasCall := out.Invoc["P4"] > 0 || slices.Contains(out.Foreign, "P4") || out.Invoc["GasToken"] > 0
	if out.Halt {
		if reached && leafFlags&fWrite == 0 && hasStorage {
			return fmt.Errorf("%s: leaf ran without WriteStates, yet storage changed: %s", where, out)
		}
		if reached && leafFlags&fNotify == 0 && hasNotif {
			return fmt.Errorf("%s: leaf ran without AllowNotify, yet a notification was emitted: %s", where, out)
		}
		if reached && leafFlags&fCall == 0 && hasCall {
			return fmt.Errorf("%s: leaf ran without AllowCall, yet it called a contract: %s", where, out)
		}
		if !reached && (hasStorage || hasNotif || hasCall) {
			return fmt.Errorf("%s: a link of the chain lacked ReadStates|AllowCall, yet effects appeared: %s", where, out)
		}
	}
	// 2. Exactness: effective flags are the intersection along the chain -- the leaf effect is present iff they suffice.
	switch {
	case enough:
		if !out.Halt {
			return fmt.Errorf("%s: flags suffice for %q but the run failed: %s", where, c.Action, out)
		}
		if c.Action != "nothing" && !present {
			return fmt.Errorf("%s: flags suffice for %q, the run HALTed, but the effect is absent: %s", where, c.Action, out)
		}
		if out.Stack != "1" {
			return fmt.Errorf("%s: flags suffice for %q but the leaf reported %s", where, c.Action, out.Stack)
		}
	case reached && c.Try:
		// the leaf swallows the failure of its action: the run HALTs with marker 2 and without the effect
		if !out.Halt || out.Stack != "2" {
			return fmt.Errorf("%s: leaf flags lack %s for %q; expected the swallowed failure (marker 2), got %s", where, flagName(needs(c.Action)&^leafFlags), c.Action, out)
		}
		if hasStorage || hasNotif || hasCall {
			return fmt.Errorf("%s: leaf flags lack %s for %q, yet effects appeared: %s", where, flagName(needs(c.Action)&^leafFlags), c.Action, out)
		}
	default:
		if out.Halt {
			return fmt.Errorf("%s: flags do not suffice (leaf lacks %s for %q or a link cannot call), yet the run HALTed: %s", where, flagName(needs(c.Action)&^leafFlags), c.Action, out)
		}
	}
	// Classification.
	o.Labelf("len-%d", len(c.Hops))
	o.Label("action/" + c.Action)
	anySafe := false
	for _, h := range c.Hops {
		anySafe = anySafe || h.Safe
	}
	if anySafe {
		o.Label("with-safe-hop")
	}
	switch {
	case !reached:
		o.Label("link-cannot-call")
	case enough:
		o.Label("leaf-allowed")
	default:
		o.Label("leaf-denied")
	}
	// Non-trivial: the leaf is denied only because of one flag removed somewhere along the chain (with that single flag
	// added back to one hop the action would be allowed), or allowed while some hop requested strictly less than All.
	if reached && !enough && c.Action != "nothing" {
		for i := range c.Hops {
			for bit := 1; bit < 16; bit <<= 1 {
				if c.Hops[i].Flags&bit != 0 {
					continue
				}
				d := ChainCase{Hops: slices.Clone(c.Hops), Action: c.Action, Try: c.Try}
				d.Hops[i].Flags |= bit
				if lf, r := chainSpec(d); r && lf&needs(c.Action) == needs(c.Action) {
					o.Label("denied-by-single-flag")
					o.NonTrivial()
					return nil
				}
			}
		}
	}
	if enough && c.Action != "nothing" && len(c.Hops) >= 2 {
		for _, h := range c.Hops {
			if h.Flags != fAll {
				o.Label("allowed-through-restricted-hop")
				o.NonTrivial()
				return nil
			}
		}
	}
	return nil
}

func describeChain(c ChainCase) string {
	s := "entry[All]"
	for i, h := range c.Hops {
		m := "hop"
		if i == len(c.Hops)-1 {
			m = c.Action
			if c.Try {
				m = "try{" + m + "}"
			}
		}
		if h.Safe {
			m = "safe:" + m
		}
		s += fmt.Sprintf(" -(%s)-> P%d.%s", flagName(h.Flags), h.C+1, m)
	}
	return s
}

// ---- (d) safe methods -------------------------------------------------------------------------------------------

// SafeCase: a safe-declared method whose body attempts an effect, called with drawn requested flags, directly from
// the entry script or through one ordinary hop.
type SafeCase struct {
	C      int    `json:"c"`
	Action string `json:"action"`
	Try    bool   `json:"try"`
	Flags  int    `json:"flags"` // requested for the safe method
	Via    int    `json:"via"`   // 0 entry -> safe, 1 entry -> P(c+1).hop[All] -> safe
}

func genSafeCase(t *rapid.T) SafeCase {
	return SafeCase{
		C:      rapid.IntRange(0, 2).Draw(t, "c"),
		Action: rapid.SampledFrom(leafActions).Draw(t, "action"),
		Try:    rapid.Bool().Draw(t, "try"),
		Flags:  rapid.SampledFrom([]int{15, 15, 15, 15, 14, 11, 10, 7, 5, 3, 2, 8, 0, 1, 4, 6, 9, 12, 13}).Draw(t, "flags"),
		Via:    rapid.IntRange(0, 1).Draw(t, "via"),
	}
}

func checkSafeCase(c SafeCase, o *vt.Obs) error {
	w, err := getWorld()
	if err != nil {
		return fmt.Errorf("setup: %v", err)
	}
	if c.C < 0 || c.C > 2 || !slices.Contains(leafActions, c.Action) || c.Flags < 0 || c.Flags > 15 {
		return nil
	}
	cc := ChainCase{Action: c.Action, Try: c.Try, Hops: []Hop{{C: c.C, Flags: c.Flags, Safe: true}}}
	if c.Via == 1 {
		cc.Hops = []Hop{{C: (c.C + 1) % 3, Flags: fAll}, {C: c.C, Flags: c.Flags, Safe: true}}
	}
	script, own := w.chainScript(cc)
	ic, err := w.newIC(trigger.Application, w.plainTx(nil, 0))
	if err != nil {
		return err
	}
	ic.VM.LoadWithFlags(script, callflag.All)
	out := w.run(ic, own...)
	o.Units(1)
	where := fmt.Sprintf("safe method attempting %q (try=%v) of P%d called with requested flags %s via %d", c.Action, c.Try, c.C+1, flagName(c.Flags), c.Via)
	// The property: calling a method marked safe never modifies state whatever flags the caller passes (and, with
	// DESIGN: emits no event). Judged on the run's effects when it HALTs (a FAULTed transaction changes nothing by C04).
	if out.Halt {
		if len(out.Changed) != 0 {
			return fmt.Errorf("%s: storage changed: %s", where, out)
		}
		if len(out.Notifs) != 0 {
			return fmt.Errorf("%s: notification emitted: %s", where, out)
		}
	}
	// A safe method keeps the right to read and to call (read-only): with ReadStates|AllowCall requested the call
	// action must work and the callee must have run.
	mutating := needs(c.Action)&(fWrite|fNotify) != 0
	switch {
	case mutating && !c.Try && out.Halt:
		return fmt.Errorf("%s: the mutating action did not fail inside the safe method: %s", where, out)
	case mutating && c.Try && (!out.Halt || out.Stack != "2"):
		return fmt.Errorf("%s: expected the swallowed failure (marker 2): %s", where, out)
	case !mutating && c.Flags&needs(c.Action) == needs(c.Action) && (!out.Halt || out.Stack != "1"):
		return fmt.Errorf("%s: a read-only action within the requested flags failed: %s", where, out)
	}
	o.Label("action/" + c.Action)
	o.Labelf("via-%d", c.Via)
	if mutating {
		o.Label("mutation-attempted")
		if c.Flags&needs(c.Action) == needs(c.Action) {
			// the caller passed everything the action needs: only the safe marking stands in the way
			o.Label("denied-only-by-safe")
			o.NonTrivial()
		}
	}
	return nil
}
