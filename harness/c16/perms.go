package c16

import (
	"encoding/json"
	"fmt"
	"github.com/nspcc-dev/neo-go/pkg/core/native/nativehashes"
	"github.com/nspcc-dev/neo-go/pkg/smartcontract"
	"slices"
	"strings"
	"sync"

	"github.com/nspcc-dev/neo-go/pkg/crypto/keys"
	"github.com/nspcc-dev/neo-go/pkg/smartcontract/callflag"
	"github.com/nspcc-dev/neo-go/pkg/smartcontract/manifest"
	"github.com/nspcc-dev/neo-go/pkg/smartcontract/trigger"
	"github.com/nspcc-dev/neo-go/pkg/util"
	"github.com/nspcc-dev/neo-go/pkg/vm/opcode"
	"pgregory.net/rapid"
	"verifharness/asm"
	ck "verifharness/chainkit"
	"verifharness/vt"
)

// Callees of the permission family: name -> groups it belongs to.
var calleeGroups = [][]string{
	{"G"},      // T1
	{"G", "H"}, // T2
	{},         // T3
	{"H"},      // T4
}

// calleeNames includes X: a hash no contract has (pure checks only).
var calleeNames = []string{"T1", "T2", "T3", "T4", "X"}

func groupKey(n string) ck.Key {
	switch n {
	case "G":
		return ck.RoleKeys[1]
	case "H":
		return ck.RoleKeys[2]
	}
	return ck.CommitteeKeys[5] // "Z": nobody's group
}

// permSpec is one manifest permission in harness terms.
type permSpec struct {
	Desc    string   `json:"desc"`    // "*" | "hash:T1".."hash:X" | "group:G" | "group:H" | "group:Z"
	Wild    bool     `json:"wild"`    // method wildcard
	Methods []string `json:"methods"` // explicit list when !Wild
}

func (p permSpec) String() string {
	if p.Wild {
		return p.Desc + "[*]"
	}
	return fmt.Sprintf("%s%v", p.Desc, p.Methods)
}

type callerSpec struct {
	Name  string
	Perms []permSpec
}

// specMatches / specAllowed are the specification, written from the property text: a call of a non-safe method is
// permitted iff one permission matches both the callee (wildcard, its hash, or a group it belongs to) and the method name.
func specMatchesCallee(p permSpec, callee string, groups []string) bool {
	switch {
	case p.Desc == "*":
		return true
	case strings.HasPrefix(p.Desc, "hash:"):
		return p.Desc[5:] == callee
	case strings.HasPrefix(p.Desc, "group:"):
		return slices.Contains(groups, p.Desc[6:])
	}
	return false
}

func specPermAllows(p permSpec, callee string, groups []string, method string) bool {
	return specMatchesCallee(p, callee, groups) && (p.Wild || slices.Contains(p.Methods, method))
}

func specAllowed(ps []permSpec, callee string, groups []string, method string) bool {
	for _, p := range ps {
		if specPermAllows(p, callee, groups, method) {
			return true
		}
	}
	return false
}

// decidedByMethods: some permission matches the callee and the verdict hinges on the method lists.
func decidedByMethods(ps []permSpec, callee string, groups []string) bool {
	anyMatch, wildMatch := false, false
	for _, p := range ps {
		if specMatchesCallee(p, callee, groups) {
			anyMatch = true
			if p.Wild {
				wildMatch = true
			}
		}
	}
	return anyMatch && !wildMatch
}

// knownShape is the shape of the recorded finding for one permission: a GROUP permission that matches the callee by
// membership and whose explicit method list does not contain the method (the implementation ignores the list).
func knownShape(p permSpec, callee string, groups []string, method string) bool {
	return strings.HasPrefix(p.Desc, "group:") && specMatchesCallee(p, callee, groups) && !specPermAllows(p, callee, groups, method)
}

// onlyGroupListDenies: the specification denies the call and some permission has the known shape.
func onlyGroupListDenies(ps []permSpec, callee string, groups []string, method string) bool {
	if specAllowed(ps, callee, groups, method) {
		return false
	}
	for _, p := range ps {
		if knownShape(p, callee, groups, method) {
			return true
		}
	}
	return false
}

const knownGroupKey = "group-permission-ignores-methods"

var knownOnce sync.Once

var (
	descPool   = []string{"*", "hash:T1", "hash:T3", "hash:X", "group:G", "group:H", "group:Z"}
	methodPool = [][]string{nil, {}, {"m"}, {"n"}, {"m", "n"}, {"s"}}
)

func mkPerm(d string, form int) permSpec {
	if form == 0 {
		return permSpec{Desc: d, Wild: true}
	}
	return permSpec{Desc: d, Methods: methodPool[form]}
}

// callerFamily is the bounded family of caller manifests deployed by the setup: no permission at all, every
// single permission (7 descriptors x 6 method forms), and 24 two-permission manifests.
var nCallers = len(callerFamily())

func callerFamily() []callerSpec {
	var out []callerSpec
	add := func(ps ...permSpec) {
		out = append(out, callerSpec{Name: fmt.Sprintf("C%02d", len(out)), Perms: ps})
	}
	add()
	for _, d := range descPool {
		for f := range methodPool {
			add(mkPerm(d, f))
		}
	}
	for i := 0; i < 24; i++ {
		d1 := i % len(descPool)
		d2 := (i*3 + 1) % len(descPool)
		if d2 == d1 {
			d2 = (d2 + 1) % len(descPool)
		}
		add(mkPerm(descPool[d1], (i*5+2)%len(methodPool)), mkPerm(descPool[d2], (i*7+3)%len(methodPool)))
	}
	return out
}

func (w *world) hashOf(callee string) util.Uint160 {
	for i, n := range calleeNames[:4] {
		if n == callee {
			return w.ts[i].Hash
		}
	}
	return util.Uint160{0xEE, 0x16}
}

func (w *world) realPerm(p permSpec) manifest.Permission {
	var mp *manifest.Permission
	switch {
	case p.Desc == "*":
		mp = manifest.NewPermission(manifest.PermissionWildcard)
	case strings.HasPrefix(p.Desc, "hash:"):
		mp = manifest.NewPermission(manifest.PermissionHash, w.hashOf(p.Desc[5:]))
	default:
		mp = manifest.NewPermission(manifest.PermissionGroup, groupKey(p.Desc[6:]).Pub)
	}
	if !p.Wild {
		mp.Methods.Value = append([]string{}, p.Methods...)
	}
	return *mp
}

func buildCallee(name string) (*asm.B, []asm.MethodSpec) {
	b := asm.New()
	var ms []asm.MethodSpec
	for i, m := range []string{"m", "n", "s"} {
		b.Label(m)
		ms = append(ms, asm.MethodSpec{Name: m, Label: m, Safe: m == "s"})
		b.Int(int64(11 + i)).Op(opcode.RET)
	}
	b.Str(name).Op(opcode.DROP, opcode.RET) // makes the scripts (and checksums) of the callees distinct
	return b, ms
}

func buildCaller() (*asm.B, []asm.MethodSpec) {
	b := asm.New()
	b.Label("call")
	b.InitSlot(0, 4).Op(opcode.LDARG3, opcode.LDARG2, opcode.LDARG1, opcode.LDARG0).Syscall("System.Contract.Call").Op(opcode.RET)
	// dcall: the same call made after the contract has destroyed itself in this very execution (its manifest lets it
	// call ContractManagement.destroy): the rest of its code still runs under the permissions it was deployed with.
	b.Label("dcall")
	b.InitSlot(0, 4)
	b.Op(opcode.NEWARRAY0).Int(15).Str("destroy").Bytes(nativehashes.ContractManagement.BytesBE()).Syscall("System.Contract.Call").Op(opcode.DROP)
	b.Op(opcode.LDARG3, opcode.LDARG2, opcode.LDARG1, opcode.LDARG0).Syscall("System.Contract.Call").Op(opcode.RET)
	// upd: the contract replaces its own manifest (ContractManagement.update(null, manifest)).
	b.Label("upd")
	b.InitSlot(0, 1)
	b.Op(opcode.LDARG0, opcode.PUSHNULL).Int(2).Op(opcode.PACK).Int(15).Str("update").Bytes(nativehashes.ContractManagement.BytesBE()).Syscall("System.Contract.Call").Op(opcode.RET)
	return b, []asm.MethodSpec{{Name: "call", Label: "call", Params: 4}, {Name: "dcall", Label: "dcall", Params: 4}, {Name: "upd", Label: "upd", Params: 1}}
}

func (w *world) deployPermissionFamily() error {
	sender := w.b.PartyHash(deployer)
	var tcs []*asm.Contract
	for i, n := range calleeNames[:4] {
		b, ms := buildCallee(n)
		c0, err := asm.BuildContract(n, b, ms)
		if err != nil {
			return err
		}
		var opts []asm.ManifestOpt
		for _, g := range calleeGroups[i] {
			opts = append(opts, ck.WithGroup(sender, groupKey(g), c0))
		}
		b, ms = buildCallee(n)
		c, err := asm.BuildContract(n, b, ms, opts...)
		if err != nil {
			return err
		}
		tcs = append(tcs, c)
	}
	var err error
	if w.ts, err = w.deployAll(deployer, tcs); err != nil {
		return err
	}
	w.csDef = callerFamily()
	var ccs []*asm.Contract
	for _, cs := range w.csDef {
		b, ms := buildCaller()
		c, err := asm.BuildContract(cs.Name, b, ms, func(m *manifest.Manifest) {
			m.Permissions = []manifest.Permission{}
			for _, p := range cs.Perms {
				m.Permissions = append(m.Permissions, w.realPerm(p))
			}
			// harness constant, never matches a callee of the family: the right to destroy itself (dcall)
			mp := manifest.NewPermission(manifest.PermissionHash, nativehashes.ContractManagement)
			mp.Methods.Value = []string{"destroy", "update"}
			m.Permissions = append(m.Permissions, *mp)
		})
		if err != nil {
			return err
		}
		ccs = append(ccs, c)
		// the manifest the caller can update itself to: the harness constant only, no permission for the family
		b, ms = buildCaller()
		bare, err := asm.BuildContract(cs.Name, b, ms, func(m *manifest.Manifest) {
			mp := manifest.NewPermission(manifest.PermissionHash, nativehashes.ContractManagement)
			mp.Methods.Value = []string{"destroy", "update"}
			m.Permissions = []manifest.Permission{*mp}
		})
		if err != nil {
			return err
		}
		w.csBare = append(w.csBare, bare.Manifest)
	}
	if w.cs, err = w.deployAll(deployer, ccs); err != nil {
		return err
	}
	// The deployed manifests must say what the family says (guards the harness itself).
	for i, d := range w.cs {
		if len(d.CS.Manifest.Permissions) != len(w.csDef[i].Perms)+1 {
			return fmt.Errorf("caller %s deployed with %d permissions, wanted %d", d.Name, len(d.CS.Manifest.Permissions), len(w.csDef[i].Perms))
		}
	}
	return nil
}

// ---- pure: Permission.IsAllowed / Manifest.CanCall ----------------------------------------------------------

// PermCase is a manifest (list of permissions) against a callee and a method.
type PermCase struct {
	Perms  []permSpec `json:"perms"`
	Callee int        `json:"callee"` // index into calleeNames
	Groups []string   `json:"groups"` // groups of the callee's manifest (drawn independently of the deployed family)
	Method string     `json:"method"`
	Stored bool       `json:"stored"` // evaluate on the manifest after a stack-item round trip (the form contracts are stored in)
	// JSONEdit (JSON form only): the first permission as a deployer may write it by hand: "methods-null",
	// "methods-missing", "contract-null", "contract-missing", "empty" ({}). Such a permission names no method (no
	// contract): the manifest has to be refused, or the permission must match nothing; it is never a wildcard.
	JSONEdit string `json:"json_edit,omitempty"`
}

func genPermSpec(t *rapid.T) permSpec {
	d := pick(t, descPool, "desc")
	switch uniform(t, 4, "form") {
	case 0:
		return permSpec{Desc: d, Wild: true}
	default:
		return permSpec{Desc: d, Methods: rapid.SliceOfNDistinct(rapid.SampledFrom([]string{"m", "n", "s", "other"}), 0, 3, rapid.ID[string]).Draw(t, "methods")}
	}
}

func genPermCase(t *rapid.T) PermCase {
	c := PermCase{
		Perms:  rapid.SliceOfN(rapid.Custom(genPermSpec), 0, 3).Draw(t, "perms"),
		Callee: uniform(t, len(calleeNames), "callee"),
		Groups: rapid.SliceOfNDistinct(rapid.SampledFrom([]string{"G", "H", "Z"}), 0, 2, rapid.ID[string]).Draw(t, "groups"),
		Method: pick(t, []string{"m", "n", "s", "other", ""}, "method"),
		Stored: rapid.Bool().Draw(t, "stored"),
	}
	if e := pick(t, []string{"", "", "", "", "", "", "methods-null", "methods-missing", "contract-null", "contract-missing", "empty", "methods-null-second-spelling",
		"second-spelling-methods-wild", "second-spelling-methods-list", "second-spelling-contract-wild", "second-spelling-permissions"}, "json_edit"); e != "" && !c.Stored && len(c.Perms) > 0 {
		c.JSONEdit = e
	}
	for i := range c.Perms {
		if c.Perms[i].Methods == nil && !c.Perms[i].Wild {
			c.Perms[i].Methods = []string{}
		}
	}
	return c
}

func checkPermCase(c PermCase, o *vt.Obs) error {
	w, err := getWorld()
	if err != nil {
		return fmt.Errorf("setup: %v", err)
	}
	if c.Callee < 0 || c.Callee >= len(calleeNames) {
		return nil
	}
	callee := calleeNames[c.Callee]
	hash := w.hashOf(callee)
	known := vt.Known(knownGroupKey)
	// Callee manifest: only Groups matter to permission matching.
	cm := manifest.NewManifest(callee)
	for _, g := range c.Groups {
		cm.Groups = append(cm.Groups, manifest.Group{PublicKey: groupKey(g).Pub, Signature: make([]byte, keys.SignatureLen)})
	}
	mm := manifest.NewManifest("caller")
	for _, p := range c.Perms {
		mm.Permissions = append(mm.Permissions, w.realPerm(p))
	}
	if c.Stored {
		for _, m := range []*manifest.Manifest{cm, mm} {
			it, err := m.ToStackItem()
			if err != nil {
				return fmt.Errorf("manifest to stack item: %v", err)
			}
			back := new(manifest.Manifest)
			if err := back.FromStackItem(it); err != nil {
				return fmt.Errorf("manifest from stack item: %v", err)
			}
			*m = *back
		}
		o.Label("stored-form")
	} else if len(c.Perms) > 0 {
		// JSON form (what a deployer submits).
		raw, err := json.Marshal(mm.Permissions)
		if err != nil {
			return err
		}
		if c.JSONEdit != "" {
			return checkHandWrittenPermission(c, raw, hash, cm, o)
		}
		var back []manifest.Permission
		if err := json.Unmarshal(raw, &back); err != nil {
			return fmt.Errorf("permissions JSON %s does not parse back: %v", raw, err)
		}
		mm.Permissions = back
	}
	for i, p := range c.Perms {
		if known && knownShape(p, callee, c.Groups, c.Method) {
			if mm.Permissions[i].IsAllowed(hash, cm, c.Method) {
				knownOnce.Do(func() {
					vt.KnownFinding(knownGroupKey, fmt.Sprintf("re-confirmed: Permission.IsAllowed(%s, callee groups %v, method %q) = true: the method list of a group permission is ignored", p, c.Groups, c.Method))
				})
			}
			o.Excluded()
			o.Label("excluded/known-group-finding")
			continue
		}
		want := specPermAllows(p, callee, c.Groups, c.Method)
		got := mm.Permissions[i].IsAllowed(hash, cm, c.Method)
		if got != want {
			return fmt.Errorf("Permission.IsAllowed: permission %s against callee %s (groups %v) method %q: got %v, the property says %v",
				p, callee, c.Groups, c.Method, got, want)
		}
		o.Units(1)
	}
	want := specAllowed(c.Perms, callee, c.Groups, c.Method)
	if known && onlyGroupListDenies(c.Perms, callee, c.Groups, c.Method) {
		o.Excluded()
		return nil
	}
	if got := mm.CanCall(hash, cm, c.Method); got != want {
		return fmt.Errorf("Manifest.CanCall: permissions %v against callee %s (groups %v) method %q: got %v, the property says %v",
			c.Perms, callee, c.Groups, c.Method, got, want)
	}
	o.Labelf("allowed=%v", want)
	for _, p := range c.Perms {
		if specMatchesCallee(p, callee, c.Groups) {
			o.Label("match/" + p.Desc[:strings.IndexAny(p.Desc+":", ":")])
		}
	}
	if decidedByMethods(c.Perms, callee, c.Groups) {
		o.Label("decided-by-method-list")
		o.NonTrivial()
	}
	return nil
}

// ---- end to end: deployed callers calling deployed callees -----------------------------------------------------

// PermCallCase picks a deployed caller, a deployed callee and a method; flags requested for the inner call are drawn too.
type PermCallCase struct {
	Caller int    `json:"caller"`
	Callee int    `json:"callee"`          // 0..3
	Method string `json:"method"`          // m | n | s
	Flags  int    `json:"flags"`           // flags the caller requests for the callee
	After  string `json:"after,omitempty"` // "destroy": the caller destroys itself before making the call; "update": see below
}

func genPermCallCase(t *rapid.T) PermCallCase {
	return PermCallCase{
		Caller: uniform(t, nCallers, "caller"),
		Callee: uniform(t, 4, "callee"),
		Method: pick(t, []string{"m", "m", "n", "n", "s"}, "method"),
		Flags:  pick(t, []int{15, 15, 15, 5, 1, 0}, "flags"),
		After:  pick(t, []string{"", "", "destroy", "update", "update"}, "after"),
	}
}

func checkPermCallCase(c PermCallCase, o *vt.Obs) error {
	w, err := getWorld()
	if err != nil {
		return fmt.Errorf("setup: %v", err)
	}
	if c.Caller < 0 || c.Caller >= len(w.cs) || c.Callee < 0 || c.Callee > 3 {
		return nil
	}
	caller, spec := w.cs[c.Caller], w.csDef[c.Caller]
	callee := w.ts[c.Callee]
	groups := calleeGroups[c.Callee]
	mi := slices.Index([]string{"m", "n", "s"}, c.Method)
	if mi < 0 {
		return nil
	}
	if c.Method != "s" && vt.Known(knownGroupKey) && onlyGroupListDenies(spec.Perms, callee.Name, groups, c.Method) {
		o.Excluded()
		o.Label("excluded/known-group-finding")
		return nil
	}
	if c.After == "update" {
		// One transaction: the caller calls the callee, replaces its own manifest by one without any permission for
		// the family, and is asked to make the same call again: the second call is judged by the new manifest.
		if c.Method == "s" || !specAllowed(spec.Perms, callee.Name, groups, c.Method) || c.Flags != 15 {
			return nil
		}
		script := appCall(caller.Hash, "call", callflag.All, callee.Hash.BytesBE(), c.Method, int64(c.Flags), []any{})
		script = append(script, byte(opcode.DROP))
		script = append(script, appCall(caller.Hash, "upd", callflag.All, w.csBare[c.Caller])...)
		script = append(script, byte(opcode.DROP))
		script = append(script, appCall(caller.Hash, "call", callflag.All, callee.Hash.BytesBE(), c.Method, int64(c.Flags), []any{})...)
		ic, err := w.newIC(trigger.Application, w.plainTx(nil, 0))
		if err != nil {
			return err
		}
		ic.VM.LoadWithFlags(script, callflag.All)
		out := w.run(ic, caller.Hash)
		o.Units(1)
		o.Label("call-update-call")
		if out.Invoc[callee.Name] < 1 {
			return fmt.Errorf("harness: caller %s (permissions %v): the first call of %s.%s was not made: %s", caller.Name, spec.Perms, callee.Name, c.Method, out)
		}
		if out.Halt || out.Invoc[callee.Name] != 1 {
			return fmt.Errorf("caller %s (permissions %v) calls %s.%s, updates itself to a manifest without any permission for it and is called again in the same transaction: the second call was performed (%s) although no permission of the current manifest matches", caller.Name, spec.Perms, callee.Name, c.Method, out)
		}
		o.NonTrivial()
		return nil
	}
	entry := "call"
	if c.After == "destroy" {
		entry = "dcall"
	} else if c.After != "" {
		return nil
	}
	script := appCall(caller.Hash, entry, callflag.All, callee.Hash.BytesBE(), c.Method, int64(c.Flags), []any{})
	ic, err := w.newIC(trigger.Application, w.plainTx(nil, 0))
	if err != nil {
		return err
	}
	ic.VM.LoadWithFlags(script, callflag.All)
	out := w.run(ic, caller.Hash)
	o.Units(1)
	executed := slices.Contains(out.Foreign, callee.Name) || out.Invoc[callee.Name] != 0
	where := fmt.Sprintf("caller %s with permissions %v calls %s.%s (callee groups %v, requested flags %s)", caller.Name, spec.Perms, callee.Name, c.Method, groups, flagName(c.Flags))
	if executed != (out.Halt && out.Stack == fmt.Sprint(11+mi)) {
		return fmt.Errorf("%s: inconsistent observation (harness): executed=%v outcome %s", where, executed, out)
	}
	if c.After == "destroy" {
		where += " after destroying itself"
		o.Label("after-self-destroy")
		// the destruction itself removes the contract record and emits Destroy; nothing else may appear
		for _, n := range out.Notifs {
			if n != "ContractManagement:Destroy" {
				return fmt.Errorf("%s: unexpected notification %s", where, out)
			}
		}
		for _, ch := range out.Changed {
			// (a destroyed contract's hash is blocked in Policy so that it cannot be deployed again)
			if !strings.Contains(ch, "ContractManagement(") && !strings.HasPrefix(ch, "+PolicyContract(") {
				return fmt.Errorf("%s: unexpected storage change %s", where, out)
			}
		}
	} else if len(out.Changed) != 0 || len(out.Notifs) != 0 {
		return fmt.Errorf("%s: unexpected effects %s", where, out)
	}
	if c.Method == "s" {
		// The property restricts calls of NON-safe methods only; nothing is claimed here.
		o.Labelf("safe-method/executed=%v", executed)
		return nil
	}
	want := specAllowed(spec.Perms, callee.Name, groups, c.Method)
	if executed && !want {
		return fmt.Errorf("%s: the call was performed (%s) although no permission matches both the callee and the method", where, out)
	}
	if !executed && want {
		return fmt.Errorf("%s: the call was refused (%s) although a permission matches both the callee and the method", where, out)
	}
	o.Labelf("allowed=%v", want)
	if decidedByMethods(spec.Perms, callee.Name, groups) {
		o.Label("decided-by-method-list")
		o.NonTrivial()
	}
	return nil
}

// checkHandWrittenPermission: the permission list as JSON with the first entry lacking its "methods" and / or
// "contract" member (absent or null). "A call of a non-safe method is permitted iff one permission matches both the
// callee and the method name": an entry that names no method cannot match a method name, so either the manifest is
// refused (decoding error or Manifest.IsValid, as ContractManagement.deploy applies them) or the entry allows nothing.
func checkHandWrittenPermission(c PermCase, raw []byte, hash util.Uint160, cm *manifest.Manifest, o *vt.Obs) error {
	var list []map[string]json.RawMessage
	if err := json.Unmarshal(raw, &list); err != nil || len(list) == 0 {
		return fmt.Errorf("permissions JSON %s: %v", raw, err)
	}
	switch c.JSONEdit {
	case "methods-null":
		list[0]["methods"] = json.RawMessage("null")
	case "methods-missing":
		delete(list[0], "methods")
	case "contract-null":
		list[0]["contract"] = json.RawMessage("null")
	case "contract-missing":
		delete(list[0], "contract")
	case "empty":
		list[0] = map[string]json.RawMessage{}
	case "methods-null-second-spelling", "second-spelling-methods-wild", "second-spelling-methods-list", "second-spelling-contract-wild", "second-spelling-permissions":
	default:
		return nil
	}
	second := c.JSONEdit == "methods-null-second-spelling" || strings.HasPrefix(c.JSONEdit, "second-spelling")
	edited, err := json.Marshal(list[:1])
	if err != nil {
		return err
	}
	// a member a second time in another letter case (Go's decoder matches member names case-insensitively, the later
	// one wins; the reference reads the exact names only)
	switch c.JSONEdit {
	case "methods-null-second-spelling":
		edited = append(edited[:len(edited)-2], []byte(`,"Methods":null}]`)...)
	case "second-spelling-methods-wild":
		edited = append(edited[:len(edited)-2], []byte(`,"Methods":"*"}]`)...)
	case "second-spelling-methods-list":
		edited = append(edited[:len(edited)-2], []byte(`,"METHODS":["m","n","anything","`+c.Method+`"]}]`)...)
	case "second-spelling-contract-wild":
		edited = append(edited[:len(edited)-2], []byte(`,"Contract":"*"}]`)...)
	}
	mm := manifest.NewManifest("caller")
	mm.ABI.Methods = []manifest.Method{{Name: "run", ReturnType: smartcontract.VoidType}}
	if err := mm.IsValid(util.Uint160{1, 2, 3}, true); err != nil {
		return fmt.Errorf("harness: the base manifest is invalid: %v", err)
	}
	full, err := json.Marshal(mm)
	if err != nil {
		return err
	}
	var doc map[string]json.RawMessage
	if err := json.Unmarshal(full, &doc); err != nil {
		return err
	}
	doc["permissions"] = edited
	full, err = json.Marshal(doc)
	if err != nil {
		return err
	}
	if c.JSONEdit == "second-spelling-permissions" {
		full = append(full[:len(full)-1], []byte(`,"Permissions":[{"contract":"*","methods":"*"}]}`)...)
	}
	o.Label("hand-written-permission/" + c.JSONEdit)
	o.Units(1)
	back := new(manifest.Manifest)
	if err := json.Unmarshal(full, back); err != nil {
		o.Label("hand-written-permission-refused")
		o.NonTrivial()
		return nil
	}
	if err := back.IsValid(util.Uint160{1, 2, 3}, true); err != nil {
		o.Label("hand-written-permission-refused")
		o.NonTrivial()
		return nil
	}
	if second {
		// the properly spelled member is there: a decoder may ignore the second spelling (the reference does) or refuse
		// the manifest, but it must not allow more than the first permission says
		for _, m := range []string{c.Method, "m", "n", "anything"} {
			if got, want := back.CanCall(hash, cm, m), specPermAllows(c.Perms[0], calleeNames[c.Callee], c.Groups, m); got && !want {
				return fmt.Errorf("manifest with the hand-written permission %s is accepted and CanCall(%s, groups %v, %q) = true although the permission %s does not allow it: the second spelling of a member (%s) replaced what the properly spelled one says",
					edited, calleeNames[c.Callee], c.Groups, m, c.Perms[0], c.JSONEdit)
			}
		}
		o.Label("hand-written-permission-second-spelling-harmless")
		o.NonTrivial()
		return nil
	}
	for _, m := range []string{c.Method, "m", "anything"} {
		if back.CanCall(hash, cm, m) {
			return fmt.Errorf("manifest with the hand-written permission %s is accepted (json.Unmarshal and Manifest.IsValid) and CanCall(%s, groups %v, %q) = true: a permission that names no %s works as a wildcard",
				edited, calleeNames[c.Callee], c.Groups, m, map[bool]string{true: "contract", false: "method"}[strings.HasPrefix(c.JSONEdit, "contract")])
		}
	}
	o.Label("hand-written-permission-allows-nothing")
	o.NonTrivial()
	return nil
}
