package c16

import "verifharness/vt"

func init() {
	vt.PropertyID = "C16"
	vt.Register("syscalls", 0.08, genSysCase, checkSysCase)
	vt.Register("natives", 0.15, genNatCase, checkNatCase)
	vt.Register("chains", 1.0, genChainCase, checkChainCase)
	vt.Register("tokens", 0.006, genTokCase, checkTokCase)
	vt.Register("safe", 0.2, genSafeCase, checkSafeCase)
	vt.Register("permissions", 1.0, genPermCase, checkPermCase)
	vt.Register("permcalls", 0.5, genPermCallCase, checkPermCallCase)
}
