package c16

import (
	"fmt"
	"slices"

	"github.com/nspcc-dev/neo-go/pkg/core/native/nativehashes"
	"github.com/nspcc-dev/neo-go/pkg/smartcontract/callflag"
	"github.com/nspcc-dev/neo-go/pkg/smartcontract/trigger"
	"github.com/nspcc-dev/neo-go/pkg/util"
	"github.com/nspcc-dev/neo-go/pkg/vm/opcode"
	"pgregory.net/rapid"
	"verifharness/asm"
	ck "verifharness/chainkit"
	"verifharness/vt"
)

// ---- (f) contract methods invoked BY a native contract (callbacks) ---------------------------------------------------
//
// A native contract calls back into deployed code: GAS.transfer -> onNEP17Payment of the receiver,
// ContractManagement.deploy -> _deploy of the new contract. The callback is one more link of the call chain: it
// holds at most the flags of the native's own context (entry ∩ hops ∩ flags requested for the native method), and a
// callback method marked safe must not modify state whatever its caller holds.
//
// CBN / CBS are deployed by the setup and differ only in the safe marking of onNEP17Payment; CBD is only built: its
// NEF and manifest are the arguments of the deploy call made by the case itself (the test context is thrown away, so
// every case deploys the same contract afresh). `data` = [action index, hash of P4, expected flags]; a null `data`
// (the setup's own transfers / deployments) does nothing.

var cbActions = []string{"nothing", "flags", "put", "lput", "notify", "call", "xfer"}

// emitDispatch emits: if data != null { switch data[0] { case i: action_i } }; RET. ld loads `data`.
func emitDispatch(b *asm.B, ld opcode.Opcode) {
	ret := b.Fresh("ret")
	b.Op(ld, opcode.ISNULL).Jmp(opcode.JMPIFL, ret)
	for i, a := range cbActions {
		next := b.Fresh("next")
		b.Op(ld, opcode.PUSH0, opcode.PICKITEM).Int(int64(i)).Op(opcode.NUMEQUAL).Jmp(opcode.JMPIFNOTL, next)
		switch a {
		case "flags": // HALT only when the callback holds exactly the flags the case expects
			b.Syscall("System.Contract.GetCallFlags").Op(ld, opcode.PUSH2, opcode.PICKITEM, opcode.NUMEQUAL, opcode.ASSERT)
		case "call":
			b.Op(opcode.PUSHNULL, opcode.PUSH1, opcode.PACK).Int(15).Str("ping").Op(ld, opcode.PUSH1, opcode.PICKITEM).Syscall("System.Contract.Call").Op(opcode.DROP)
		default:
			emitAction(b, a)
		}
		b.Jmp(opcode.JMPL, ret)
		b.Label(next)
	}
	b.Label(ret).Op(opcode.RET)
}

// emitMode emits the prologue of a callback: loc0 = data, or, when data is null, [ma, mh, mf] read from the
// contract's own storage (set by setMode earlier in the same run), or null when no mode is stored.
func emitMode(b *asm.B, ldData opcode.Opcode) {
	disp := b.Fresh("disp")
	b.Op(ldData, opcode.STLOC0)
	b.Op(opcode.LDLOC0, opcode.ISNULL).Jmp(opcode.JMPIFNOTL, disp)
	b.Str("ma").Syscall("System.Storage.GetContext").Syscall("System.Storage.Get").Op(opcode.STLOC0)
	b.Op(opcode.LDLOC0, opcode.ISNULL).Jmp(opcode.JMPIFL, disp) // null stays null: nothing to do
	b.Str("mf").Syscall("System.Storage.GetContext").Syscall("System.Storage.Get")
	b.Str("mh").Syscall("System.Storage.GetContext").Syscall("System.Storage.Get")
	b.Op(opcode.LDLOC0, opcode.PUSH3, opcode.PACK, opcode.STLOC0)
	b.Label(disp)
}

func buildCallbackProbe(name string, safePayment bool) *asm.Contract {
	b := asm.New()
	var ms []asm.MethodSpec
	b.Label("_deploy")
	ms = append(ms, asm.MethodSpec{Name: "_deploy", Label: "_deploy", Params: 2, Void: true})
	b.InitSlot(1, 2)
	emitMode(b, opcode.LDARG0)
	emitDispatch(b, opcode.LDLOC0)
	b.Label("onNEP17Payment")
	ms = append(ms, asm.MethodSpec{Name: "onNEP17Payment", Label: "onNEP17Payment", Params: 3, Void: true, Safe: safePayment})
	b.InitSlot(1, 3)
	emitMode(b, opcode.LDARG2)
	emitDispatch(b, opcode.LDLOC0)
	b.Label("ping")
	ms = append(ms, asm.MethodSpec{Name: "ping", Label: "ping", Params: 1})
	b.InitSlot(0, 1).Str(name).Op(opcode.DROP).Int(42).Op(opcode.RET) // the name makes the three scripts distinct
	// setMode(a, h, f): what the next callback without data has to do
	b.Label("setMode")
	ms = append(ms, asm.MethodSpec{Name: "setMode", Label: "setMode", Params: 3, Void: true})
	b.InitSlot(0, 3)
	b.Op(opcode.LDARG0).Str("ma").Syscall("System.Storage.GetContext").Syscall("System.Storage.Put")
	b.Op(opcode.LDARG1).Str("mh").Syscall("System.Storage.GetContext").Syscall("System.Storage.Put")
	b.Op(opcode.LDARG2).Str("mf").Syscall("System.Storage.GetContext").Syscall("System.Storage.Put")
	b.Op(opcode.RET)
	// call(h, m, f, args): forwarder, so that the contract itself is the caller (and witness) of a native method
	b.Label("call")
	ms = append(ms, asm.MethodSpec{Name: "call", Label: "call", Params: 4})
	b.InitSlot(0, 4).Op(opcode.LDARG3, opcode.LDARG2, opcode.LDARG1, opcode.LDARG0).Syscall("System.Contract.Call").Op(opcode.RET)
	c, err := asm.BuildContract(name, b, ms)
	if err != nil {
		panic(fmt.Errorf("%s: %w", name, err))
	}
	return c
}

func (w *world) deployCallbackProbes() error {
	cbs, err := w.deployAll(deployer, []*asm.Contract{buildCallbackProbe("CBN", false), buildCallbackProbe("CBS", true)})
	if err != nil {
		return err
	}
	w.cb = cbs
	w.cbd = buildCallbackProbe("CBD", false)
	// the case's transaction is sent by account 0 (plainTx)
	w.cbdHash = ck.ContractHash(ck.Accounts[0].Hash, w.cbd)
	w.byHash[w.cbdHash] = "CBD"
	// CBN and CBS hold NEO: the blocks built after this one accrue a GAS reward that NEO.vote pays out through
	// GAS.mint -> onNEP17Payment (data is null there: the callback takes its orders from setMode).
	var acts []ck.Action
	for _, d := range cbs {
		acts = append(acts, ck.Action{Kind: "raw", From: 0, S: "NEO for " + d.Name, Nonce: w.next(),
			V: append(appCall(nativehashes.NeoToken, "transfer", callflag.All, ck.Accounts[0].Hash, d.Hash, int64(100), nil), byte(opcode.ASSERT))})
	}
	return w.block(acts)
}

// CallbackCase: entry[All] -(G)-> X.call -(F)-> native method -> callback(action), X = P1 (pay, deploy) or the
// callback contract itself (vote: the voter must be the caller).
type CallbackCase struct {
	Trigger string `json:"trigger"` // pay | paysafe | deploy | vote | votesafe
	G       int    `json:"g"`       // flags requested for X.call (15 when Direct)
	F       int    `json:"f"`       // flags requested for the native method
	Direct  bool   `json:"direct"`  // deploy only: the entry script calls the native itself
	Action  string `json:"action"`
}

var cbTriggers = []string{"pay", "paysafe", "deploy", "vote", "votesafe"}

func genCallbackCase(t *rapid.T) CallbackCase {
	c := CallbackCase{Trigger: pick(t, []string{"pay", "paysafe", "paysafe", "deploy", "vote", "vote", "vote", "votesafe"}, "trigger"), Action: pick(t, cbActions, "action")}
	fl := func(label string) int {
		switch uniform(t, 4, label+"style") {
		case 0:
			return uniform(t, 16, label)
		case 1: // what vote needs, plus extras
			return 11 | uniform(t, 16, label)
		default:
			return fAll
		}
	}
	c.G, c.F = fl("g"), fl("f")
	if c.Trigger == "deploy" {
		c.Direct = uniform(t, 3, "direct") == 0
	}
	if c.Direct {
		c.G = fAll
	}
	return c
}

func checkCallbackCase(c CallbackCase, o *vt.Obs) error {
	w, err := getWorld()
	if err != nil {
		return fmt.Errorf("setup: %v", err)
	}
	if c.Trigger == "deploy" && c.Action == "xfer" {
		return nil // a contract being deployed owns nothing to transfer
	}
	ai := slices.Index(cbActions, c.Action)
	if ai < 0 || c.G < 0 || c.G > 15 || c.F < 0 || c.F > 15 || !slices.Contains(cbTriggers, c.Trigger) || (c.Direct && (c.Trigger != "deploy" || c.G != fAll)) {
		return nil
	}
	// ---- specification ----
	native := c.G & c.F // flags of the native method's context
	var (
		// what the native method itself requires (its declared flags, `missing call flags` otherwise): transfer and
		// deploy everything, vote States|AllowNotify.
		nativeNeeds = fAll
		nativeName  = "GAS.transfer"
		cbFlags     = native
		target      = w.cb[0]
		safe        = c.Trigger == "paysafe" || c.Trigger == "votesafe"
	)
	if safe {
		target = w.cb[1]
		cbFlags = native & fReadOnly // a method marked safe never holds WriteStates / AllowNotify
	}
	targetName, targetHash := target.Name, target.Hash
	switch c.Trigger {
	case "deploy":
		targetName, targetHash, nativeName = "CBD", w.cbdHash, "ContractManagement.deploy"
	case "vote", "votesafe":
		nativeNeeds, nativeName = fRead|fWrite|fNotify, "NEO.vote -> GAS.mint"
	}
	reached := (c.Direct || c.G&needCall == needCall) && native&nativeNeeds == nativeNeeds
	need := needs(c.Action)
	if c.Trigger == "vote" || c.Trigger == "votesafe" {
		need |= fRead // the callback reads its orders from its own storage
	}
	enough := reached && cbFlags&need == need
	// ---- run ----
	var script []byte
	data := []any{int64(ai), w.ps[3].Hash.BytesBE(), int64(cbFlags)}
	own := []util.Uint160{w.ps[0].Hash, targetHash}
	switch c.Trigger {
	case "deploy":
		if c.Direct {
			script = appCall(nativehashes.ContractManagement, "deploy", callflag.CallFlag(c.F), w.cbd.NEF, w.cbd.Manifest, data)
		} else {
			script = appCall(w.ps[0].Hash, "call", callflag.CallFlag(c.G), nativehashes.ContractManagement.BytesBE(), "deploy", int64(c.F), []any{w.cbd.NEF, w.cbd.Manifest, data})
		}
	case "pay", "paysafe":
		script = appCall(w.ps[0].Hash, "call", callflag.CallFlag(c.G), nativehashes.GasToken.BytesBE(), "transfer", int64(c.F),
			[]any{w.ps[0].Hash.BytesBE(), targetHash.BytesBE(), int64(1), data})
	default: // vote: orders first, then the contract votes for the registered candidate itself
		script = appCall(targetHash, "setMode", callflag.All, data...)
		script = append(script, appCall(targetHash, "call", callflag.CallFlag(c.G), nativehashes.NeoToken.BytesBE(), "vote", int64(c.F),
			[]any{targetHash.BytesBE(), ck.Candidates[0].Pub.Bytes()})...)
	}
	ic, err := w.newIC(trigger.Application, w.plainTx(nil, 0))
	if err != nil {
		return err
	}
	ic.VM.LoadWithFlags(script, callflag.All)
	out := w.run(ic, own...)
	o.Units(1)
	via := "P1.call"
	if c.Trigger == "vote" || c.Trigger == "votesafe" {
		via = targetName + ".call"
	}
	where := fmt.Sprintf("entry[All] -(%s)-> %s -(%s)-> %s -> %s callback (safe=%v) doing %q (specified callback flags %s, reached=%v)",
		flagName(c.G), via, flagName(c.F), nativeName, targetName, safe, c.Action, flagName(cbFlags), reached)
	if c.Direct {
		where = "direct: " + where
	}

	// effects of the callback itself (the orders written by setMode are ma / mh / mf, the put action writes c / lc)
	has := func(l []string, pfx string) bool {
		return slices.ContainsFunc(l, func(s string) bool { return len(s) >= len(pfx) && s[:len(pfx)] == pfx })
	}
	idOf := func(key string) string { return fmt.Sprintf("/%x=", key) }
	cbStorage := false
	for _, ch := range out.Changed {
		if len(ch) > len(targetName)+1 && ch[1:1+len(targetName)+1] == targetName+"(" {
			for _, k := range []string{"c", "lc"} {
				if idx := indexOf(ch, idOf(k)); idx >= 0 {
					cbStorage = true
				}
			}
		}
	}
	cbNotif := has(out.Notifs, targetName+":E")
	cbCall := out.Invoc["P4"] > 0 || slices.Contains(out.Foreign, "P4")
	nXfer := 0
	for _, n := range out.Notifs {
		if n == "GasToken:Transfer" {
			nXfer++
		}
	}
	cbXfer := nXfer >= 2 // the payment (or the reward) itself and the one made by the callback
	present := map[string]bool{"put": cbStorage, "lput": cbStorage, "notify": cbNotif, "call": cbCall, "xfer": cbXfer}[c.Action]

	// 0. "a context without the allow-call flag never calls a contract": NEO.vote needs States|AllowNotify only, yet it
	// makes GAS mint the voter's reward and GAS calls onNEP17Payment of a voting CONTRACT. When the native context
	// holds no AllowCall and the callback demonstrably ran, that clause is broken (listed finding, same in the
	// reference implementation).
	if (c.Trigger == "vote" || c.Trigger == "votesafe") && reached && native&fCall == 0 && out.Halt && (present || c.Action == "flags") {
		if strictNoCall || !vt.Known(knownNativeNoCall) {
			return fmt.Errorf("%s: the native context held %s (no AllowCall), yet the deployed contract %s was called from it and ran its action: %s", where, flagName(native), targetName, out)
		}
		o.Excluded()
		o.Label("excl:" + knownNativeNoCall)
	}
	// 1. confinement, judged on effects
	if out.Halt {
		if cbFlags&fWrite == 0 && cbStorage {
			return fmt.Errorf("%s: the callback ran without WriteStates, yet its storage changed: %s", where, out)
		}
		if cbFlags&fNotify == 0 && cbNotif {
			return fmt.Errorf("%s: the callback ran without AllowNotify, yet it emitted a notification: %s", where, out)
		}
		if cbFlags&fCall == 0 && cbCall {
			return fmt.Errorf("%s: the callback ran without AllowCall, yet it called a contract: %s", where, out)
		}
	}
	// 2. exactness: the callback holds the intersection along the chain (without the write bits when marked safe)
	switch {
	case enough:
		if !out.Halt {
			return fmt.Errorf("%s: flags suffice but the run failed: %s", where, out)
		}
		if needs(c.Action) != 0 && !present {
			return fmt.Errorf("%s: flags suffice, the run HALTed, but the effect of the callback is absent: %s", where, out)
		}
	default:
		if out.Halt {
			return fmt.Errorf("%s: flags do not suffice (callback lacks %s, or a link cannot call), yet the run HALTed: %s", where, flagName(need&^cbFlags), out)
		}
	}
	o.Label("trigger/" + c.Trigger)
	o.Label("action/" + c.Action)
	switch {
	case !reached:
		o.Label("native-not-reached")
	case enough:
		o.Label("callback-allowed")
		if cbFlags != fAll {
			o.Label("allowed-under-restricted-flags")
			o.NonTrivial()
		}
	default:
		o.Label("callback-denied")
		o.NonTrivial()
	}
	return nil
}

// knownNativeNoCall: see known_findings.json.
const knownNativeNoCall = "native-without-allowcall-calls-contract"

// strictNoCall switches the exclusion off (probe).
var strictNoCall bool

// probeNativeNoCall re-confirms the listed finding with a fixed case.
func probeNativeNoCall() {
	if !vt.Known(knownNativeNoCall) {
		return
	}
	strictNoCall = true
	defer func() { strictNoCall = false }()
	err := checkCallbackCase(CallbackCase{Trigger: "vote", G: fAll, F: fRead | fWrite | fNotify, Action: "put"}, &vt.Obs{})
	if err == nil {
		fmt.Println("C16 probe " + knownNativeNoCall + ": the recorded case no longer violates its clause (remove the entry from known_findings.json)")
		return
	}
	msg := err.Error()
	if len(msg) > 600 {
		msg = msg[:600] + "..."
	}
	vt.KnownFinding(knownNativeNoCall, msg)
}

func indexOf(s, sub string) int {
	for i := 0; i+len(sub) <= len(s); i++ {
		if s[i:i+len(sub)] == sub {
			return i
		}
	}
	return -1
}

func init() {
	vt.Register("callbacks", 0.3, genCallbackCase, checkCallbackCase)
}
