package c16

import (
	"fmt"

	"github.com/nspcc-dev/neo-go/pkg/core/native/nativehashes"
	"github.com/nspcc-dev/neo-go/pkg/core/state"
	"github.com/nspcc-dev/neo-go/pkg/core/transaction"
	"github.com/nspcc-dev/neo-go/pkg/crypto/hash"
	"github.com/nspcc-dev/neo-go/pkg/smartcontract"
	"github.com/nspcc-dev/neo-go/pkg/smartcontract/callflag"
	"github.com/nspcc-dev/neo-go/pkg/smartcontract/manifest"
	"github.com/nspcc-dev/neo-go/pkg/smartcontract/trigger"
	"github.com/nspcc-dev/neo-go/pkg/util"
	"github.com/nspcc-dev/neo-go/pkg/vm/stackitem"
	"pgregory.net/rapid"
	"verifharness/asm"
	ck "verifharness/chainkit"
	"verifharness/vt"
)

// natMethod is one (native contract, method, arity) cell.
type natMethod struct {
	C    *state.Contract
	M    *manifest.Method
	Name string // Contract.method/arity
}

func (w *world) natMethods() []natMethod {
	var out []natMethod
	for i := range w.natives {
		c := &w.natives[i]
		for j := range c.Manifest.ABI.Methods {
			m := &c.Manifest.ABI.Methods[j]
			out = append(out, natMethod{C: c, M: m, Name: fmt.Sprintf("%s.%s/%d", c.Manifest.Name, m.Name, len(m.Parameters))})
		}
	}
	return out
}

// NatCase selects a native method, its arguments (a hand-written realistic tuple or one pick per parameter from
// the value pools), who signs the container and whether the call comes from the entry script or from a contract.
type NatCase struct {
	Method  string `json:"method"`  // Contract.method/arity
	Golden  int    `json:"golden"`  // >= 0: index (mod count) into the realistic tuples of the method, -1: pooled picks
	Picks   []int  `json:"picks"`   // per parameter, index (mod size) into the pool of its type
	Signers int    `json:"signers"` // 0 account 0, 1 committee + whole cast (Global), 2 nobody relevant, 3 as 1 plus an OracleResponse attribute
	Via     int    `json:"via"`     // 0 entry script -> native, 1 entry script -> P1.call -> native
}

func genNatCase(t *rapid.T) NatCase {
	w, err := getWorld()
	if err != nil {
		t.Fatalf("setup: %v", err)
	}
	ms := w.natMethods()
	m := ms[uniform(t, len(ms), "method")]
	c := NatCase{Method: m.Name, Golden: -1}
	if uniform(t, 3, "useGolden") != 0 {
		c.Golden = uniform(t, 6, "golden")
	}
	for range m.M.Parameters {
		c.Picks = append(c.Picks, uniform(t, 24, "pick"))
	}
	c.Signers = pick(t, []int{1, 1, 1, 1, 0, 2, 3}, "signers")
	c.Via = pick(t, []int{0, 0, 1}, "via")
	return c
}

func hb(h util.Uint160) []byte { return h.BytesBE() }

// pool lists candidate values for a parameter of the given type (and name): accounts of the cast, a registered and an
// unregistered candidate key, existing contracts, small and protocol-sized integers, ...
func (w *world) pool(t smartcontract.ParamType, name string) []any {
	h := int64(w.bc.BlockHeight())
	a := ck.Accounts
	switch t {
	case smartcontract.Hash160Type:
		return []any{hb(a[0].Hash), hb(a[1].Hash), hb(a[3].Hash), hb(a[4].Hash), hb(a[5].Hash), hb(ck.Candidates[0].Hash), hb(w.ps[0].Hash),
			hb(w.b.Deployed[0].Hash), hb(nativehashes.GasToken), hb(nativehashes.NeoToken), hb(nativehashes.Notary), hb(w.b.CommitteeActor().Hash), hb(util.Uint160{1, 2, 3})}
	case smartcontract.PublicKeyType:
		return []any{ck.Candidates[0].Pub.Bytes(), ck.Candidates[1].Pub.Bytes(), ck.CommitteeKeys[0].Pub.Bytes(), ck.RoleKeys[0].Pub.Bytes(), nil}
	case smartcontract.IntegerType:
		return []any{int64(0), int64(1), int64(2), int64(5), int64(8), int64(16), int64(23), int64(31), int64(32), int64(141), int64(900), int64(1001), int64(1500),
			int64(100001), int64(6000_0000), int64(6_0000_0000), int64(1000_0000_0000), h, h + 1, h + 100, int64(-1)}
	case smartcontract.BoolType:
		return []any{true, false}
	case smartcontract.ByteArrayType:
		ser, _ := stackitem.Serialize(stackitem.Make(42))
		return []any{[]byte{}, []byte("k1"), []byte{1}, hb(a[0].Hash), a[0].Pub.Bytes(), w.bc.GetHeaderHash(1).BytesBE(), w.someTx().BytesBE(), ser,
			[]byte(`{"a":[1,2]}`), make([]byte, 64), w.sig(), []byte("abc")}
	case smartcontract.StringType:
		return []any{"", "abc", "123", "7b", "AQID", "0102", "2VfUX", "a,b,,c", ",", "https://x.example/a", "ping", "oracleCb", "transfer", `{"a":1}`, "$.a"}
	case smartcontract.ArrayType:
		return []any{[]any{}, []any{ck.RoleKeys[0].Pub.Bytes()}, []any{ck.RoleKeys[0].Pub.Bytes(), ck.RoleKeys[1].Pub.Bytes()}, []any{int64(1), int64(2)}, []any{hb(a[0].Hash), h + 100}}
	case smartcontract.Hash256Type:
		return []any{w.bc.GetHeaderHash(0).BytesBE(), w.bc.GetHeaderHash(1).BytesBE(), w.someTx().BytesBE(), make([]byte, 32)}
	case smartcontract.SignatureType:
		return []any{make([]byte, 64), w.sig()}
	case smartcontract.AnyType:
		return []any{nil, int64(1), []byte("abc"), []any{hb(a[0].Hash), h + 100}, ck.Candidates[1].Pub.Bytes(), "str", true, []any{int64(1), []any{}}}
	}
	return []any{nil, int64(0), []byte{}} // Map, InteropInterface, Void: not expressible by a script literal
}

// someTx is the hash of a transaction of block 1.
func (w *world) someTx() util.Uint256 {
	b, err := w.bc.GetBlock(w.bc.GetHeaderHash(1))
	if err != nil || len(b.Transactions) == 0 {
		return util.Uint256{}
	}
	return b.Transactions[0].Hash()
}

// golden returns the hand-written realistic argument tuples: the ones meant to make state-changing methods succeed.
func (w *world) golden() map[string][][]any {
	w.goldenOnce.Do(func() {
		h := int64(w.bc.BlockHeight())
		a := ck.Accounts
		c0, c1 := ck.Candidates[0].Pub.Bytes(), ck.Candidates[1].Pub.Bytes()
		p1 := w.ps[0]
		fresh := buildFresh()
		rk := ck.RoleKeys[0].Pub.Bytes()
		g := map[string][][]any{
			"GasToken.transfer/4": {
				{hb(a[0].Hash), hb(a[1].Hash), int64(1), nil},
				{hb(a[0].Hash), hb(p1.Hash), int64(5), nil},
				{hb(a[0].Hash), hb(nativehashes.Notary), int64(2_0000_0000), []any{hb(a[0].Hash), h + 100}},
				{hb(a[4].Hash), hb(nativehashes.NeoToken), int64(1000_0000_0000), c1},
				{hb(p1.Hash), hb(a[0].Hash), int64(1), nil},
				{hb(a[0].Hash), hb(a[0].Hash), int64(0), nil},
			},
			"NeoToken.transfer/4": {
				{hb(a[0].Hash), hb(a[1].Hash), int64(1), nil},
				{hb(a[3].Hash), hb(a[1].Hash), int64(10), nil},
				{hb(a[0].Hash), hb(p1.Hash), int64(1), nil},
				{hb(a[0].Hash), hb(a[0].Hash), int64(0), nil},
			},
			"NeoToken.vote/2":                {{hb(a[1].Hash), c0}, {hb(a[3].Hash), nil}, {hb(a[3].Hash), c0}},
			"NeoToken.registerCandidate/1":   {{c1}},
			"NeoToken.unregisterCandidate/1": {{c0}, {c1}},
			"NeoToken.setGasPerBlock/1":      {{int64(6_0000_0000)}},
			"NeoToken.setRegisterPrice/1":    {{int64(1001_0000_0000)}},
			"NeoToken.unclaimedGas/2":        {{hb(a[0].Hash), h + 1}},
			"NeoToken.getAccountState/1":     {{hb(a[3].Hash)}},
			"NeoToken.getCandidateVote/1":    {{c0}},
			"NeoToken.onNEP17Payment/3":      {{hb(a[4].Hash), int64(1000_0000_0000), c1}},

			"PolicyContract.blockAccount/1":                   {{hb(a[4].Hash)}, {hb(ck.Candidates[0].Hash)}},
			"PolicyContract.unblockAccount/1":                 {{hb(a[5].Hash)}},
			"PolicyContract.setFeePerByte/1":                  {{int64(1001)}},
			"PolicyContract.setExecFeeFactor/1":               {{int64(31)}},
			"PolicyContract.setStoragePrice/1":                {{int64(100001)}},
			"PolicyContract.setMaxTraceableBlocks/1":          {{int64(900)}},
			"PolicyContract.setMaxValidUntilBlockIncrement/1": {{int64(400)}},
			"PolicyContract.setMillisecondsPerBlock/1":        {{int64(1500)}},
			"PolicyContract.setAttributeFee/2":                {{int64(0x20), int64(7)}, {int64(0x21), int64(9)}},
			"PolicyContract.getAttributeFee/1":                {{int64(0x20)}},
			"PolicyContract.setWhitelistFeeContract/4":        {{hb(p1.Hash), "ping", int64(1), int64(12345)}},
			"PolicyContract.removeWhitelistFeeContract/3":     {{hb(w.b.Deployed[1].Hash), "variant", int64(0)}},
			"PolicyContract.recoverFund/2":                    {{hb(a[5].Hash), hb(nativehashes.GasToken)}},
			"PolicyContract.isBlocked/1":                      {{hb(a[5].Hash)}},

			"RoleManagement.designateAsRole/2":     {{int64(8), []any{rk}}, {int64(4), []any{rk, ck.RoleKeys[1].Pub.Bytes()}}, {int64(32), []any{rk}}},
			"RoleManagement.getDesignatedByRole/2": {{int64(32), h + 1}},

			"OracleContract.request/5":  {{"https://x.example/a", nil, "oracleCb", nil, int64(1000_0000)}, {"https://x.example/b", "$.a", "oracleCb", []byte("ud"), int64(2000_0000)}},
			"OracleContract.setPrice/1": {{int64(6000_0000)}},
			"OracleContract.finish/0":   {{}},

			"Notary.lockDepositUntil/2":          {{hb(a[0].Hash), h + 200}},
			"Notary.withdraw/2":                  {{hb(a[4].Hash), hb(a[4].Hash)}, {hb(a[4].Hash), hb(a[1].Hash)}},
			"Notary.setMaxNotValidBeforeDelta/1": {{int64(141)}},
			"Notary.balanceOf/1":                 {{hb(a[0].Hash)}},
			"Notary.expirationOf/1":              {{hb(a[0].Hash)}},
			"Notary.onNEP17Payment/3":            {{hb(a[0].Hash), int64(2_0000_0000), []any{hb(a[0].Hash), h + 100}}},

			"ContractManagement.deploy/2":                  {{fresh.NEF, fresh.Manifest}},
			"ContractManagement.deploy/3":                  {{fresh.NEF, fresh.Manifest, nil}, {fresh.NEF, fresh.Manifest, []byte("x")}},
			"ContractManagement.update/2":                  {{p1.C.NEF, p1.C.Manifest}, {nil, p1.C.Manifest}},
			"ContractManagement.update/3":                  {{p1.C.NEF, p1.C.Manifest, nil}},
			"ContractManagement.destroy/0":                 {{}},
			"ContractManagement.setMinimumDeploymentFee/1": {{int64(11_0000_0000)}},
			"ContractManagement.getContract/1":             {{hb(p1.Hash)}},
			"ContractManagement.getContractById/1":         {{int64(1)}},
			"ContractManagement.hasMethod/3":               {{hb(p1.Hash), "ping", int64(1)}},
			"ContractManagement.isContract/1":              {{hb(p1.Hash)}},

			"LedgerContract.getBlock/1":                {{[]byte{1}}, {w.bc.GetHeaderHash(1).BytesBE()}},
			"LedgerContract.getTransaction/1":          {{w.someTx().BytesBE()}},
			"LedgerContract.getTransactionFromBlock/2": {{[]byte{1}, int64(0)}},
			"LedgerContract.getTransactionHeight/1":    {{w.someTx().BytesBE()}},
			"LedgerContract.getTransactionSigners/1":   {{w.someTx().BytesBE()}},
			"LedgerContract.getTransactionVMState/1":   {{w.someTx().BytesBE()}},

			"Treasury.onNEP17Payment/3": {{hb(a[0].Hash), int64(1), nil}},
			"Treasury.onNEP11Payment/4": {{hb(a[0].Hash), int64(1), []byte("id"), nil}},

			"StdLib.atoi/1": {{"123"}}, "StdLib.atoi/2": {{"7b", int64(16)}}, "StdLib.itoa/1": {{int64(255)}}, "StdLib.itoa/2": {{int64(255), int64(16)}},
			"StdLib.base58CheckDecode/1": {{"3vQB7B6MrGQZaxCuFg4oh"}}, "StdLib.base58Decode/1": {{"2VfUX"}}, "StdLib.base64Decode/1": {{"AQID"}},
			"StdLib.base64UrlDecode/1": {{"YWJj"}}, "StdLib.hexDecode/1": {{"0102"}}, "StdLib.jsonDeserialize/1": {{[]byte(`{"a":[1,2]}`)}},
			"StdLib.deserialize/1": {{mustSerialize(42)}}, "StdLib.memorySearch/3": {{[]byte("abcabc"), []byte("c"), int64(1)}},
			"StdLib.memorySearch/4": {{[]byte("abcabc"), []byte("c"), int64(6), true}}, "StdLib.stringSplit/3": {{"a,b,,c", ",", true}},
			"CryptoLib.verifyWithECDsa/4":  {{[]byte("msg"), a[0].Pub.Bytes(), a[0].Priv.Sign([]byte("msg")), int64(23)}},
			"CryptoLib.murmur32/2":         {{[]byte("abc"), int64(5)}},
			"CryptoLib.recoverSecp256K1/2": {{hash.Sha256([]byte("m")).BytesBE(), make([]byte, 65)}},
		}
		w.goldenMap = g
	})
	return w.goldenMap
}

func mustSerialize(v any) []byte {
	b, err := stackitem.Serialize(stackitem.Make(v))
	if err != nil {
		panic(err)
	}
	return b
}

// buildFresh is a small contract nobody has deployed yet (for ContractManagement.deploy).
func buildFresh() *asm.Contract {
	b := asm.New()
	var ms []asm.MethodSpec
	addCommon(b, &ms)
	c, err := asm.BuildContract("Fresh", b, ms)
	if err != nil {
		panic(err)
	}
	return c
}

// natTx is the container of a native-method run.
func (w *world) natTx(signers int) *transaction.Transaction {
	if signers == 3 {
		tx := w.plainTx(nil, 1)
		tx.Attributes = []transaction.Attribute{{Type: transaction.OracleResponseT, Value: &transaction.OracleResponse{ID: 0, Code: transaction.Success, Result: []byte(`"r"`)}}}
		return tx
	}
	return w.plainTx(nil, signers)
}

func (w *world) natArgs(m natMethod, c NatCase) ([]any, bool) {
	if c.Golden >= 0 {
		if g := w.golden()[m.Name]; len(g) > 0 {
			return g[c.Golden%len(g)], true
		}
	}
	args := make([]any, len(m.M.Parameters))
	for i, p := range m.M.Parameters {
		pool := w.pool(p.Type, p.Name)
		k := 0
		if i < len(c.Picks) && c.Picks[i] >= 0 {
			k = c.Picks[i]
		}
		args[i] = pool[k%len(pool)]
	}
	return args, false
}

func renderArgs(args []any) string {
	s := "("
	for i, a := range args {
		if i > 0 {
			s += ", "
		}
		switch v := a.(type) {
		case []byte:
			if len(v) > 20 {
				s += fmt.Sprintf("%x..(%d bytes)", v[:20], len(v))
			} else {
				s += fmt.Sprintf("%x", v)
			}
		case []any:
			s += renderArgs(v)
		case nil:
			s += "null"
		default:
			s += fmt.Sprintf("%v", v)
		}
	}
	return s + ")"
}

func checkNatCase(c NatCase, o *vt.Obs) error {
	w, err := getWorld()
	if err != nil {
		return fmt.Errorf("setup: %v", err)
	}
	var m natMethod
	for _, x := range w.natMethods() {
		if x.Name == c.Method {
			m = x
		}
	}
	if m.C == nil {
		o.Label("skipped/unknown-method")
		return nil
	}
	args, golden := w.natArgs(m, c)
	proxy := w.ps[0]
	safe := m.M.Safe
	where := fmt.Sprintf("%s%s signers-mode %d via %d (safe=%v)", m.Name, renderArgs(args), c.Signers, c.Via, safe)
	var outs [16]*outcome
	for f := 0; f < 16; f++ {
		var script []byte
		own := []util.Uint160{m.C.Hash}
		if c.Via == 1 {
			script = appCall(proxy.Hash, "call", callflag.All, hb(m.C.Hash), m.M.Name, int64(f), args)
			own = append(own, proxy.Hash)
		} else {
			script = appCall(m.C.Hash, m.M.Name, callflag.CallFlag(f), args...)
		}
		ic, err := w.newIC(trigger.Application, w.natTx(c.Signers))
		if err != nil {
			return err
		}
		ic.VM.LoadWithFlags(script, callflag.All)
		out := w.run(ic, own...)
		outs[f] = out
		o.Units(1)
		if !out.Halt {
			continue
		}
		// What the confined code (the native method, running with the requested flags; a safe method additionally
		// without write and notify rights whatever was requested) did beyond being invoked once itself.
		calls := out.Calls + out.Invoc[m.C.Manifest.Name] - 1
		if c.Via == 1 {
			calls += out.Invoc[proxy.Name] - 1
		} else {
			calls += out.Invoc[proxy.Name]
		}
		eff := f
		if safe {
			eff &= fReadOnly
		}
		if err := confined(eff, out, calls, out.Foreign); err != nil {
			return fmt.Errorf("%s requested flags %s: %v; outcome %s", where, flagName(f), err, out)
		}
	}
	halts, nt := 0, false
	for f := 0; f < 16; f++ {
		if !outs[f].Halt {
			continue
		}
		halts++
		for g := 0; g < 16; g++ {
			if g == f || g&f != f {
				continue
			}
			if !outs[g].Halt {
				return fmt.Errorf("%s: succeeds with requested flags %s but fails with the superset %s: %s", where, flagName(f), flagName(g), outs[g])
			}
			if a, b := outs[f].effects(), outs[g].effects(); a != b {
				return fmt.Errorf("%s: effects differ between requested flags %s (%s) and the superset %s (%s)", where, flagName(f), a, flagName(g), b)
			}
		}
	}
	for f := 0; f < 16; f++ {
		for bit := 1; bit < 16; bit <<= 1 {
			if f&bit == 0 && !outs[f].Halt && outs[f|bit].Halt {
				nt = true
			}
		}
	}
	o.Label("native/" + m.C.Manifest.Name)
	if golden {
		o.Label("args/realistic")
	} else {
		o.Label("args/pooled")
	}
	if safe {
		o.Label("method/safe")
	} else {
		o.Label("method/non-safe")
	}
	switch {
	case halts == 0:
		o.Label("never-halts")
	case halts == 16:
		o.Label("flag-independent")
	default:
		o.Label("flag-dependent")
	}
	if outs[15].Halt {
		if len(outs[15].Changed) != 0 {
			o.Label("effect/storage")
		}
		if len(outs[15].Notifs) != 0 {
			o.Label("effect/notification")
		}
		if len(outs[15].Foreign) != 0 {
			o.Label("effect/call")
		}
	}
	if nt {
		o.NonTrivial()
	}
	return nil
}

func clipS(s string, n int) string {
	if len(s) > n {
		return s[:n] + "..."
	}
	return s
}
