package c16

import (
	"fmt"
	"sort"
	"strconv"

	"github.com/nspcc-dev/neo-go/pkg/core/interop"
	istorage "github.com/nspcc-dev/neo-go/pkg/core/interop/storage"
	"github.com/nspcc-dev/neo-go/pkg/core/native/nativehashes"
	"github.com/nspcc-dev/neo-go/pkg/io"
	"github.com/nspcc-dev/neo-go/pkg/smartcontract/callflag"
	"github.com/nspcc-dev/neo-go/pkg/smartcontract/trigger"
	"github.com/nspcc-dev/neo-go/pkg/util"
	"github.com/nspcc-dev/neo-go/pkg/vm/emit"
	"github.com/nspcc-dev/neo-go/pkg/vm/opcode"
	"github.com/nspcc-dev/neo-go/pkg/vm/stackitem"
	"pgregory.net/rapid"
	ck "verifharness/chainkit"
	"verifharness/vt"
)

// Special argument markers (only the harness can put these on a stack: "go-only" variants).
type ctxArg struct {
	who string // "SC" or "P1": whose storage
	ro  bool
}
type iterArg struct{}

// fakeIter is an iterator item handed to System.Iterator.* without going through Storage.Find.
type fakeIter struct{ n int }

func (f *fakeIter) Next() bool            { f.n++; return f.n <= 2 }
func (f *fakeIter) Value() stackitem.Item { return stackitem.Make(f.n) }

type sysVariant struct {
	Label string
	Args  func(w *world) []any // Args()[0] is popped first by the system call
	Trig  trigger.Type         // 0 = Application
	// Reports: the result of the run is the flag set held by some code reached from the probe (System.Contract.GetCallFlags):
	// 1 = by the probe itself (must equal F), 2 = by code it called or loaded (must be a subset of F: flags only shrink).
	Reports int
}

// sysSpec is one row of the hand-written system call table: arity and result shape only -- the flag
// requirements are deliberately NOT written here; the oracle is behavioural.
type sysSpec struct {
	Name  string
	Own   bool // composite row: the probe first obtains its own storage context (System.Storage.GetContext), then the call
	Arity int  // arguments supplied by the caller
	Ret   bool // leaves a result
	V     []sysVariant
}

func (s sysSpec) key() string {
	if s.Own {
		return s.Name + "+ownctx"
	}
	return s.Name
}

func noArgs(*world) []any { return nil }

func reports(v sysVariant) sysVariant { v.Reports = 2; return v }

func sysScript(name string) []byte {
	bw := io.NewBufBinWriter()
	emit.Syscall(bw.BinWriter, name)
	return bw.Bytes()
}

func fixed(a ...any) func(*world) []any { return func(*world) []any { return a } }

var sysTable []sysSpec

func init() {
	a0 := ck.Accounts[0]
	hb := func(h util.Uint160) []byte { return h.BytesBE() }
	pArg := func(w *world) []any { return []any{[]any{hb(w.ps[3].Hash)}} } // argument list of a leaf method: [[P4]]
	callV := func(label string, who func(w *world) util.Uint160, method string, flags int64, args func(w *world) []any) sysVariant {
		return sysVariant{Label: label, Args: func(w *world) []any { return []any{hb(who(w)), method, flags, args(w)} }}
	}
	p1 := func(w *world) util.Uint160 { return w.ps[0].Hash }
	p4 := func(w *world) util.Uint160 { return w.ps[3].Hash }
	gas := func(*world) util.Uint160 { return nativehashes.GasToken }
	loadV := func(label string, script func(w *world) []byte, flags int64) sysVariant {
		return sysVariant{Label: label, Args: func(w *world) []any { return []any{script(w), flags, []any{}} }}
	}
	own := func(ro bool) ctxArg { return ctxArg{who: "SC", ro: ro} }
	sysTable = []sysSpec{
		{Name: "System.Contract.Call", Arity: 4, Ret: true, V: []sysVariant{
			callV("P1.put/All", p1, "a_put", 15, pArg),
			callV("P1.lput/W", p1, "a_lput", 2, pArg),
			callV("P1.del/All", p1, "a_del", 15, pArg),
			callV("P1.notify/All", p1, "a_notify", 15, pArg),
			callV("P1.put/ReadOnly", p1, "a_put", 5, pArg),
			callV("P1.sa_put/All", p1, "sa_put", 15, pArg),
			callV("P1.sa_nothing/All", p1, "sa_nothing", 15, pArg),
			callV("P4.ping/None", p4, "ping", 0, func(*world) []any { return []any{nil} }),
			callV("P1.call/All", p1, "a_call", 15, pArg),
			reports(callV("P1.flags/All", p1, "a_flags", 15, pArg)),
			reports(callV("P1.flags/WN", p1, "a_flags", 10, pArg)),
			reports(callV("P1.sa_flags/All", p1, "sa_flags", 15, pArg)),
			callV("GAS.balanceOf", gas, "balanceOf", 15, func(*world) []any { return []any{hb(a0.Hash)} }),
			callV("GAS.transfer-from-self", gas, "transfer", 15, func(w *world) []any { return []any{hb(w.sc.Hash), hb(a0.Hash), int64(3), nil} }),
		}},
		{Name: "System.Contract.CallNative", Arity: 1, V: []sysVariant{{Label: "v0", Args: fixed(int64(0))}}},
		{Name: "System.Contract.CreateMultisigAccount", Arity: 2, Ret: true, V: []sysVariant{{Label: "1of1", Args: fixed(int64(1), []any{a0.Pub.Bytes()})}}},
		{Name: "System.Contract.CreateStandardAccount", Arity: 1, Ret: true, V: []sysVariant{{Label: "pub", Args: fixed(a0.Pub.Bytes())}}},
		{Name: "System.Contract.GetCallFlags", Ret: true, V: []sysVariant{{Label: "-", Args: noArgs, Reports: 1}}},
		{Name: "System.Contract.NativeOnPersist", V: []sysVariant{{Label: "app", Args: noArgs}, {Label: "onpersist", Args: noArgs, Trig: trigger.OnPersist}}},
		{Name: "System.Contract.NativePostPersist", V: []sysVariant{{Label: "app", Args: noArgs}, {Label: "postpersist", Args: noArgs, Trig: trigger.PostPersist}}},
		{Name: "System.Crypto.CheckMultisig", Arity: 2, Ret: true, V: []sysVariant{
			{Label: "valid", Args: func(w *world) []any { return []any{[]any{a0.Pub.Bytes()}, []any{w.sig()}} }},
			{Label: "invalid", Args: fixed([]any{a0.Pub.Bytes()}, []any{make([]byte, 64)})},
		}},
		{Name: "System.Crypto.CheckSig", Arity: 2, Ret: true, V: []sysVariant{
			{Label: "valid", Args: func(w *world) []any { return []any{a0.Pub.Bytes(), w.sig()} }},
			{Label: "invalid", Args: fixed(a0.Pub.Bytes(), make([]byte, 64))},
		}},
		{Name: "System.Iterator.Next", Arity: 1, Ret: true, V: []sysVariant{{Label: "go-iterator", Args: fixed(iterArg{})}}},
		{Name: "System.Iterator.Value", Arity: 1, Ret: true, V: []sysVariant{{Label: "go-iterator", Args: fixed(iterArg{})}}},
		{Name: "System.Runtime.BurnGas", Arity: 1, V: []sysVariant{{Label: "1000", Args: fixed(int64(1000))}}},
		{Name: "System.Runtime.CheckWitness", Arity: 1, Ret: true, V: []sysVariant{
			{Label: "signer", Args: fixed(hb(a0.Hash))}, {Label: "stranger", Args: fixed(hb(ck.RoleKeys[2].Hash))}, {Label: "key", Args: fixed(a0.Pub.Bytes())},
		}},
		{Name: "System.Runtime.CurrentSigners", Ret: true, V: []sysVariant{{Label: "-", Args: noArgs}}},
		{Name: "System.Runtime.GasLeft", Ret: true, V: []sysVariant{{Label: "-", Args: noArgs}}},
		{Name: "System.Runtime.GetAddressVersion", Ret: true, V: []sysVariant{{Label: "-", Args: noArgs}}},
		{Name: "System.Runtime.GetCallingScriptHash", Ret: true, V: []sysVariant{{Label: "-", Args: noArgs}}},
		{Name: "System.Runtime.GetEntryScriptHash", Ret: true, V: []sysVariant{{Label: "-", Args: noArgs}}},
		{Name: "System.Runtime.GetExecutingScriptHash", Ret: true, V: []sysVariant{{Label: "-", Args: noArgs}}},
		{Name: "System.Runtime.GetInvocationCounter", Ret: true, V: []sysVariant{{Label: "-", Args: noArgs}}},
		{Name: "System.Runtime.GetNetwork", Ret: true, V: []sysVariant{{Label: "-", Args: noArgs}}},
		{Name: "System.Runtime.GetNotifications", Arity: 1, Ret: true, V: []sysVariant{
			{Label: "all", Args: fixed(nil)}, {Label: "of-SC", Args: func(w *world) []any { return []any{hb(w.sc.Hash)} }},
		}},
		{Name: "System.Runtime.GetRandom", Ret: true, V: []sysVariant{{Label: "-", Args: noArgs}}},
		{Name: "System.Runtime.GetScriptContainer", Ret: true, V: []sysVariant{{Label: "-", Args: noArgs}}},
		{Name: "System.Runtime.GetTime", Ret: true, V: []sysVariant{{Label: "-", Args: noArgs}}},
		{Name: "System.Runtime.GetTrigger", Ret: true, V: []sysVariant{{Label: "-", Args: noArgs}}},
		{Name: "System.Runtime.LoadScript", Arity: 3, Ret: true, V: []sysVariant{
			loadV("push1", func(*world) []byte { return []byte{byte(opcode.PUSH1)} }, 15),
			reports(loadV("getflags/All", func(*world) []byte { return sysScript("System.Contract.GetCallFlags") }, 15)),
			reports(loadV("getflags/RW", func(*world) []byte { return sysScript("System.Contract.GetCallFlags") }, 3)),
			loadV("calls-P4.ping", func(w *world) []byte { return appCall(w.ps[3].Hash, "ping", callflag.All, nil) }, 15),
			loadV("calls-P4.ping/None", func(w *world) []byte { return appCall(w.ps[3].Hash, "ping", callflag.All, nil) }, 0),
			loadV("calls-P1.put", func(w *world) []byte { return appCall(w.ps[0].Hash, "a_put", callflag.All, []any{hb(w.ps[3].Hash)}) }, 15),
			loadV("calls-P1.t_put", func(w *world) []byte { return appCall(w.ps[0].Hash, "t_put", callflag.All, []any{hb(w.ps[3].Hash)}) }, 15),
			loadV("calls-P1.t_notify", func(w *world) []byte { return appCall(w.ps[0].Hash, "t_notify", callflag.All, []any{hb(w.ps[3].Hash)}) }, 15),
		}},
		{Name: "System.Runtime.Log", Arity: 1, V: []sysVariant{{Label: "msg", Args: fixed("c16 probe")}}},
		{Name: "System.Runtime.Notify", Arity: 2, V: []sysVariant{
			{Label: "declared", Args: fixed("E", []any{int64(1)})}, {Label: "undeclared", Args: fixed("Nope", []any{int64(1)})},
		}},
		{Name: "System.Runtime.Platform", Ret: true, V: []sysVariant{{Label: "-", Args: noArgs}}},
		// Storage with a context item supplied by the harness (go-only) ...
		{Name: "System.Storage.Delete", Arity: 2, V: []sysVariant{
			{Label: "present", Args: fixed(own(false), []byte("k1"))}, {Label: "absent", Args: fixed(own(false), []byte("zz"))},
			{Label: "ro-ctx", Args: fixed(own(true), []byte("k1"))}, {Label: "foreign-ctx", Args: fixed(ctxArg{who: "P1"}, []byte("k1"))},
		}},
		{Name: "System.Storage.Find", Arity: 3, Ret: true, V: []sysVariant{{Label: "k*", Args: fixed(own(false), []byte("k"), int64(0))}}},
		{Name: "System.Storage.Get", Arity: 2, Ret: true, V: []sysVariant{{Label: "present", Args: fixed(own(false), []byte("k1"))}, {Label: "ro-ctx", Args: fixed(own(true), []byte("k1"))}}},
		{Name: "System.Storage.GetContext", Ret: true, V: []sysVariant{{Label: "-", Args: noArgs}}},
		{Name: "System.Storage.GetReadOnlyContext", Ret: true, V: []sysVariant{{Label: "-", Args: noArgs}}},
		{Name: "System.Storage.Put", Arity: 3, V: []sysVariant{
			{Label: "new", Args: fixed(own(false), []byte("n1"), []byte("val"))}, {Label: "overwrite", Args: fixed(own(false), []byte("k1"), []byte("other"))},
			{Label: "ro-ctx", Args: fixed(own(true), []byte("n1"), []byte("val"))}, {Label: "foreign-ctx", Args: fixed(ctxArg{who: "P1"}, []byte("n1"), []byte("val"))},
		}},
		{Name: "System.Storage.AsReadOnly", Arity: 1, Ret: true, V: []sysVariant{{Label: "rw", Args: fixed(own(false))}}},
		// ... and with the probe's own context obtained inside the probe (every mode).
		{Name: "System.Storage.Delete", Own: true, Arity: 1, V: []sysVariant{{Label: "present", Args: fixed([]byte("k1"))}, {Label: "absent", Args: fixed([]byte("zz"))}}},
		{Name: "System.Storage.Find", Own: true, Arity: 2, Ret: true, V: []sysVariant{{Label: "k*", Args: fixed([]byte("k"), int64(0))}}},
		{Name: "System.Storage.Get", Own: true, Arity: 1, Ret: true, V: []sysVariant{{Label: "present", Args: fixed([]byte("k1"))}}},
		{Name: "System.Storage.Put", Own: true, Arity: 2, V: []sysVariant{{Label: "new", Args: fixed([]byte("n1"), []byte("val"))}, {Label: "overwrite", Args: fixed([]byte("k2"), []byte("other"))}}},
		{Name: "System.Storage.AsReadOnly", Own: true, Ret: true, V: []sysVariant{{Label: "-", Args: noArgs}}},
		{Name: "System.Storage.Local.Get", Arity: 1, Ret: true, V: []sysVariant{{Label: "present", Args: fixed([]byte("k1"))}}},
		{Name: "System.Storage.Local.Find", Arity: 2, Ret: true, V: []sysVariant{{Label: "k*", Args: fixed([]byte("k"), int64(0))}}},
		{Name: "System.Storage.Local.Put", Arity: 2, V: []sysVariant{{Label: "new", Args: fixed([]byte("n2"), []byte("val"))}, {Label: "overwrite", Args: fixed([]byte("k3"), []byte("other"))}}},
		{Name: "System.Storage.Local.Delete", Arity: 1, V: []sysVariant{{Label: "present", Args: fixed([]byte("k2"))}, {Label: "absent", Args: fixed([]byte("zz"))}}},
	}
}

// sig is a valid signature of account 0 over the fixed container transaction.
func (w *world) sig() []byte {
	w.sigOnce.Do(func() { w.sigBytes = ck.Accounts[0].Priv.SignHashable(uint32(ck.Magic), w.plainTx(nil, 0)) })
	return w.sigBytes
}

// toItem converts a table argument to a stack item (mode 0).
func (w *world) toItem(a any) stackitem.Item {
	switch v := a.(type) {
	case ctxArg:
		id := w.sc.ID
		if v.who == "P1" {
			id = w.ps[0].ID
		}
		return stackitem.NewInterop(&istorage.Context{ID: id, ReadOnly: v.ro})
	case iterArg:
		return stackitem.NewInterop(&fakeIter{})
	case []any:
		items := make([]stackitem.Item, len(v))
		for i := range v {
			items[i] = w.toItem(v[i])
		}
		return stackitem.NewArray(items)
	case nil:
		return stackitem.Null{}
	}
	return stackitem.Make(a)
}

func goOnly(args []any) bool {
	for _, a := range args {
		switch v := a.(type) {
		case ctxArg, iterArg:
			return true
		case []any:
			if goOnly(v) {
				return true
			}
		}
	}
	return false
}

// Modes of running one system call under exactly the flag set F.
const (
	modeContract = 0 // the probe method is the first context, loaded by the harness with flags F (arguments are Go-built items)
	modeRaw      = 1 // a raw script `push args; SYSCALL` loaded with VM.LoadWithFlags(script, F) (no contract, no manifest)
	modeCalled   = 2 // an entry script with All calls the probe method through System.Contract.Call requesting F
)

// SysCase selects one row / variant / mode of the table; the check runs it under all 16 flag sets.
type SysCase struct {
	Sys     int `json:"sys"`
	Variant int `json:"variant"`
	Mode    int `json:"mode"`
}

func genSysCase(t *rapid.T) SysCase {
	// uniform over the flattened (row, variant) pairs, then over the three modes
	n := 0
	for _, s := range sysTable {
		n += len(s.V)
	}
	k := uniform(t, n, "cell")
	c := SysCase{Mode: uniform(t, 3, "mode")}
	for i, s := range sysTable {
		if k < len(s.V) {
			c.Sys, c.Variant = i, k
			break
		}
		k -= len(s.V)
	}
	return c
}

// loadSys prepares a context running the selected system call under flags f.
func (w *world) loadSys(s sysSpec, v sysVariant, mode int, f int) (*interop.Context, []util.Uint160, error) {
	trig := v.Trig
	if trig == 0 {
		trig = trigger.Application
	}
	ic, err := w.newIC(trig, w.plainTx(nil, 0))
	if err != nil {
		return nil, nil, err
	}
	args := v.Args(w)
	if len(args) != s.Arity {
		return nil, nil, fmt.Errorf("table error: %s/%s has %d arguments, arity %d", s.key(), v.Label, len(args), s.Arity)
	}
	mname := sysMethod(s.Name)
	if s.Own {
		mname += "_own"
	}
	switch mode {
	case modeContract:
		md := w.sc.CS.Manifest.ABI.GetMethod(mname, s.Arity)
		if md == nil {
			return nil, nil, fmt.Errorf("probe method %s/%d missing", mname, s.Arity)
		}
		ic.VM.LoadNEFMethod(&w.sc.CS.NEF, &w.sc.CS.Manifest, util.Uint160{}, w.sc.Hash, callflag.CallFlag(f), s.Ret, md.Offset, -1, nil, nil, false)
		for i := len(args) - 1; i >= 0; i-- {
			ic.VM.Estack().PushItem(w.toItem(args[i]))
		}
		return ic, []util.Uint160{w.sc.Hash}, nil
	case modeRaw:
		bw := io.NewBufBinWriter()
		for i := len(args) - 1; i >= 0; i-- {
			emit.Any(bw.BinWriter, args[i])
		}
		if s.Own {
			emit.Syscall(bw.BinWriter, "System.Storage.GetContext")
		}
		emit.Syscall(bw.BinWriter, s.Name)
		if bw.Err != nil {
			return nil, nil, bw.Err
		}
		ic.VM.LoadWithFlags(bw.Bytes(), callflag.CallFlag(f))
		return ic, nil, nil
	default:
		script := appCall(w.sc.Hash, mname, callflag.CallFlag(f), args...)
		ic.VM.LoadWithFlags(script, callflag.All)
		return ic, []util.Uint160{w.sc.Hash}, nil
	}
}

// confined evaluates the behavioural clauses of the property for a run that HALTed with effective flags eff.
// calls is the number of contract invocations performed by the confined code, foreign the contracts whose code ran.
func confined(eff int, o *outcome, calls int, foreign []string) error {
	if eff&fWrite == 0 && len(o.Changed) != 0 {
		return fmt.Errorf("ran without WriteStates (flags %s) and HALTed, yet contract storage changed: %v", flagName(eff), o.Changed)
	}
	if eff&fNotify == 0 && len(o.Notifs) != 0 {
		return fmt.Errorf("ran without AllowNotify (flags %s) and HALTed, yet notifications were emitted: %v", flagName(eff), o.Notifs)
	}
	if eff&fCall == 0 && (calls != 0 || len(foreign) != 0) {
		return fmt.Errorf("ran without AllowCall (flags %s) and HALTed, yet contracts were called: %d invocations, code of %v executed", flagName(eff), calls, foreign)
	}
	return nil
}

func checkSysCase(c SysCase, o *vt.Obs) error {
	w, err := getWorld()
	if err != nil {
		return fmt.Errorf("setup: %v", err)
	}
	if w.covErr != nil {
		return w.covErr
	}
	if c.Sys < 0 || c.Sys >= len(sysTable) || c.Variant < 0 || c.Variant >= len(sysTable[c.Sys].V) {
		return nil
	}
	s := sysTable[c.Sys]
	v := s.V[c.Variant]
	if c.Mode != modeContract && goOnly(v.Args(w)) {
		o.Label("skipped/go-only-arguments")
		return nil
	}
	where := fmt.Sprintf("%s[%s] mode %d", s.key(), v.Label, c.Mode)
	var outs [16]*outcome
	for f := 0; f < 16; f++ {
		ic, own, err := w.loadSys(s, v, c.Mode, f)
		if err != nil {
			return fmt.Errorf("%s: %v", where, err)
		}
		outs[f] = w.run(ic, own...)
		o.Units(1)
		if !outs[f].Halt {
			continue
		}
		calls := outs[f].Calls
		if c.Mode == modeCalled {
			// The entry script (All) performed exactly one call, of SC; everything else is the confined code's doing.
			if outs[f].Invoc["SC"] != 1 {
				return fmt.Errorf("%s flags %s: probe invoked %d times", where, flagName(f), outs[f].Invoc["SC"])
			}
		} else if n := outs[f].Invoc["SC"]; n > 1 {
			calls += n
		}
		if v.Reports != 0 {
			held, err := strconv.Atoi(outs[f].Stack)
			if err != nil {
				return fmt.Errorf("%s flags %s: expected a flag set as the result, got %q", where, flagName(f), outs[f].Stack)
			}
			if v.Reports == 1 && held != f {
				return fmt.Errorf("%s: probe loaded with flags %s reports holding %s", where, flagName(f), flagName(held))
			}
			if held&^f != 0 {
				return fmt.Errorf("%s: code reached from a context holding %s reports holding %s: flags grew along the call chain", where, flagName(f), flagName(held))
			}
		}
		eff := f
		if v.Trig != 0 && f&fNotify == 0 && len(outs[f].Notifs) != 0 {
			// NativeOnPersist / NativePostPersist under their own triggers: the natives mint and burn GAS, which records
			// Transfer events, while the system calls ask for States only. Only the node itself can produce these triggers
			// and it always loads the persist scripts with All (Blockchain.runPersist), so no caller can observe this:
			// recorded as a class, not judged. Storage and call confinement are still judged.
			o.Label("persist-trigger/notifies-without-AllowNotify(unreachable)")
			eff |= fNotify
		}
		if err := confined(eff, outs[f], calls, outs[f].Foreign); err != nil {
			return fmt.Errorf("%s: %v; outcome %s", where, err, outs[f])
		}
	}
	// Flags only restrict: success under F implies success with the same effects under every superset of F.
	halts := 0
	nt := false
	for f := 0; f < 16; f++ {
		if !outs[f].Halt {
			continue
		}
		halts++
		for g := 0; g < 16; g++ {
			if g == f || g&f != f {
				continue
			}
			if !outs[g].Halt {
				return fmt.Errorf("%s: succeeds under flags %s but fails under the superset %s: %s", where, flagName(f), flagName(g), outs[g])
			}
			if a, b := outs[f].effects(), outs[g].effects(); a != b {
				return fmt.Errorf("%s: effects differ between flags %s (%s) and the superset %s (%s)", where, flagName(f), a, flagName(g), b)
			}
		}
	}
	for f := 0; f < 16; f++ {
		for bit := 1; bit < 16; bit <<= 1 {
			if f&bit == 0 && !outs[f].Halt && outs[f|bit].Halt {
				nt = true // the missing flag is the only reason for the failure
			}
		}
	}
	o.Label("sys/" + s.key())
	o.Labelf("mode-%d", c.Mode)
	switch {
	case halts == 0:
		o.Label("never-halts")
	case halts == 16:
		o.Label("flag-independent")
	default:
		o.Label("flag-dependent")
	}
	if outs[15].Halt {
		if len(outs[15].Changed) != 0 {
			o.Label("effect/storage")
		}
		if len(outs[15].Notifs) != 0 {
			o.Label("effect/notification")
		}
		if outs[15].Calls != 0 || len(outs[15].Foreign) != 0 {
			o.Label("effect/call")
		}
	}
	if nt {
		o.NonTrivial()
	}
	return nil
}

// sysTableCoverage verifies that the hand-written table covers exactly the system calls the node registers.
func (w *world) sysTableCoverage() error {
	ic, err := w.newIC(trigger.Application, w.plainTx(nil, 0))
	if err != nil {
		return err
	}
	defer ic.Finalize()
	have := map[string]bool{}
	for _, s := range sysTable {
		have[s.Name] = true
	}
	var missing []string
	live := map[string]bool{}
	for _, f := range ic.Functions {
		live[f.Name] = true
		if !have[f.Name] {
			missing = append(missing, f.Name)
		}
	}
	for n := range have {
		if !live[n] {
			missing = append(missing, "(not registered) "+n)
		}
	}
	sort.Strings(missing)
	if len(missing) != 0 {
		return fmt.Errorf("system call table of the check and of the node differ: %v", missing)
	}
	return nil
}
