// Package c16 checks property C16: call flags and manifest permissions confine what called code can do.
//
// One chain state is built once per process (world); every case then runs scripts in fresh test VMs
// (bc.GetTestVM: a private DAO layer over the fixed state) and judges the EFFECTS of the run -- storage
// difference of all contracts, notifications, contract invocation counters, script hashes that executed
// instructions -- never the error text.
package c16

import (
	"bytes"
	"encoding/hex"
	"fmt"
	"sort"
	"strings"
	"sync"

	"github.com/nspcc-dev/neo-go/pkg/core"
	"github.com/nspcc-dev/neo-go/pkg/core/interop"
	"github.com/nspcc-dev/neo-go/pkg/core/native/nativehashes"
	"github.com/nspcc-dev/neo-go/pkg/core/state"
	"github.com/nspcc-dev/neo-go/pkg/core/storage"
	"github.com/nspcc-dev/neo-go/pkg/core/transaction"
	"github.com/nspcc-dev/neo-go/pkg/io"
	"github.com/nspcc-dev/neo-go/pkg/smartcontract/callflag"
	"github.com/nspcc-dev/neo-go/pkg/smartcontract/trigger"
	"github.com/nspcc-dev/neo-go/pkg/util"
	"github.com/nspcc-dev/neo-go/pkg/vm/emit"
	"github.com/nspcc-dev/neo-go/pkg/vm/opcode"
	"github.com/nspcc-dev/neo-go/pkg/vm/stackitem"
	"github.com/nspcc-dev/neo-go/pkg/vm/vmstate"
	"verifharness/asm"
	ck "verifharness/chainkit"
)

// Flag bits, written down from the property text (not imported as a table from the code under test).
const (
	fRead   = 1
	fWrite  = 2
	fCall   = 4
	fNotify = 8
	fAll    = 15
	// fReadOnly is what a method marked safe is confined to (no writes, no notifications).
	fReadOnly = fRead | fCall
)

func flagName(f int) string {
	if f == 0 {
		return "None"
	}
	var s []string
	for i, n := range []string{"R", "W", "C", "N"} {
		if f&(1<<i) != 0 {
			s = append(s, n)
		}
	}
	return strings.Join(s, "")
}

// deployed is one contract put on the chain by the setup.
type deployed struct {
	Name string
	Hash util.Uint160
	ID   int32
	C    *asm.Contract
	CS   *state.Contract
}

// world is the fixed chain state shared by all cases of the process.
type world struct {
	b       *ck.Builder
	bc      *core.Blockchain
	base    map[string][]byte // every storage item of every contract: raw store key -> value
	prefix  byte              // storage key prefix of the DAO version
	natives []state.Contract
	byHash  map[util.Uint160]string // contract names for messages
	ids     map[int32]string

	sc      *deployed     // system call probe
	ps      []*deployed   // P1..P4: hop / leaf / safe probes
	tk      []*deployed   // TK, TKP: method token probes
	th      *deployed     // TH: token hop of call chains
	ts      []*deployed   // permission callees
	cs      []*deployed   // permission callers
	cb      []*deployed   // CBN, CBS: callback probes (callbacks.go)
	cbd     *asm.Contract // CBD: deployed by the cases themselves
	cbdHash util.Uint160
	csDef   []callerSpec // their permission specs (same order)
	csBare  [][]byte     // manifest JSON of every caller without any permission for the family (for ContractManagement.update)

	nonce uint32

	covErr     error // the hand-written system call table does not match the node's
	goldenOnce sync.Once
	goldenMap  map[string][][]any
	sigOnce    sync.Once
	sigBytes   []byte
}

var (
	theWorld *world
	worldErr error
	once     sync.Once
)

func getWorld() (*world, error) {
	once.Do(func() { theWorld, worldErr = buildWorld() })
	return theWorld, worldErr
}

func (w *world) next() uint32 { w.nonce++; return w.nonce }

// deployScript is the entry script deploying c (sender = first signer).
func deployScript(c *asm.Contract) []byte {
	bw := io.NewBufBinWriter()
	emit.AppCall(bw.BinWriter, nativehashes.ContractManagement, "deploy", callflag.All, c.NEF, c.Manifest)
	return bw.Bytes()
}

func appCall(h util.Uint160, method string, f callflag.CallFlag, args ...any) []byte {
	bw := io.NewBufBinWriter()
	emit.AppCall(bw.BinWriter, h, method, f, args...)
	if bw.Err != nil {
		panic(bw.Err)
	}
	return bw.Bytes()
}

// block builds one block of raw-script actions and requires every transaction to HALT.
func (w *world) block(acts []ck.Action) error {
	_, blk, err := w.b.BuildBlock(ck.BlockSpec{Txs: acts, TimeD: 1000})
	if err != nil {
		return err
	}
	if len(blk.Transactions) != len(acts) {
		return fmt.Errorf("setup block %d: %d of %d transactions admitted (%v)", blk.Index, len(blk.Transactions), len(acts), w.b.Rejected)
	}
	for i, tx := range blk.Transactions {
		aers, err := w.bc.GetAppExecResults(tx.Hash(), trigger.Application)
		if err != nil || len(aers) != 1 {
			return fmt.Errorf("setup block %d tx %d: no execution result: %v", blk.Index, i, err)
		}
		if aers[0].VMState != vmstate.Halt {
			return fmt.Errorf("setup block %d tx %d (%s): %s %s", blk.Index, i, acts[i].S, aers[0].VMState, aers[0].FaultException)
		}
	}
	return nil
}

func (w *world) deployAll(from int, cs []*asm.Contract) ([]*deployed, error) {
	var acts []ck.Action
	for _, c := range cs {
		acts = append(acts, ck.Action{Kind: "raw", From: from, V: deployScript(c), S: "deploy " + c.Name, Nonce: w.next()})
	}
	// Keep blocks moderate.
	for len(acts) > 0 {
		n := min(len(acts), 24)
		if err := w.block(acts[:n]); err != nil {
			return nil, err
		}
		acts = acts[n:]
	}
	var out []*deployed
	sender := w.b.PartyHash(from)
	for _, c := range cs {
		h := ck.ContractHash(sender, c)
		st := w.bc.GetContractState(h)
		if st == nil {
			return nil, fmt.Errorf("contract %s not found after deployment", c.Name)
		}
		d := &deployed{Name: c.Name, Hash: h, ID: st.ID, C: c, CS: st}
		w.byHash[h] = c.Name
		w.ids[st.ID] = c.Name
		out = append(out, d)
	}
	return out, nil
}

const deployer = 2 // account index deploying all probe contracts

func buildWorld() (*world, error) {
	b, err := ck.NewBuilder(ck.ChainCfg{Profile: "V1C1", P2PSig: true})
	if err != nil {
		return nil, err
	}
	if _, err := b.Bootstrap(); err != nil {
		return nil, fmt.Errorf("bootstrap: %v", err)
	}
	w := &world{b: b, bc: b.N.BC, byHash: map[util.Uint160]string{}, ids: map[int32]string{}, nonce: 1000}

	// Governance background so that native methods have something to act on: a registered candidate, votes.
	if err := w.block([]ck.Action{
		{Kind: "register", From: ck.NAccounts + 0, A: 0, Nonce: w.next(), S: "register"},
	}); err != nil {
		return nil, err
	}
	if err := w.block([]ck.Action{
		{Kind: "vote", From: 3, A: 0, Nonce: w.next(), S: "vote"},
	}); err != nil {
		return nil, err
	}

	// Probe contracts.
	sc, err := w.deployAll(deployer, []*asm.Contract{buildSyscallProbe()})
	if err != nil {
		return nil, err
	}
	w.sc = sc[0]
	var pcs []*asm.Contract
	for i := 1; i <= 4; i++ {
		pcs = append(pcs, buildHopProbe(fmt.Sprintf("P%d", i)))
	}
	if w.ps, err = w.deployAll(deployer, pcs); err != nil {
		return nil, err
	}
	if err := w.deployTokenProbes(); err != nil {
		return nil, err
	}
	// Background for the native methods: a blocked account, a notary deposit that is expired by the end of the setup,
	// a pending oracle request (id 0) made by P1, a whitelisted method.
	if err := w.block([]ck.Action{
		{Kind: "policy", From: 2, S: "blockAccount", A: 5, Nonce: w.next()},
		{Kind: "notary_deposit", From: 4, N: 10_0000_0000, A: 2, B: -1, Nonce: w.next(), S: "deposit"},
		{Kind: "raw", From: 0, Nonce: w.next(), S: "oracle request", V: appCall(w.ps[0].Hash, "call", callflag.All,
			nativehashes.OracleContract.BytesBE(), "request", int64(15), []any{"https://x.example/q", nil, "oracleCb", nil, int64(1000_0000)})},
		{Kind: "raw", From: ck.PCommittee, Nonce: w.next(), S: "whitelist", V: appCall(nativehashes.PolicyContract, "setWhitelistFeeContract", callflag.All,
			w.b.Deployed[1].Hash.BytesBE(), "variant", int64(0), int64(1000))},
	}); err != nil {
		return nil, err
	}
	if err := w.deployPermissionFamily(); err != nil {
		return nil, err
	}
	if err := w.deployCallbackProbes(); err != nil {
		return nil, err
	}
	// Fund the probes (they receive GAS through onNEP17Payment) so that leaves can transfer.
	var fund []ck.Action
	for _, d := range append(append([]*deployed{w.sc}, w.ps...), w.tk...) {
		fund = append(fund, ck.Action{Kind: "raw", From: 0, S: "fund " + d.Name, Nonce: w.next(),
			V: append(appCall(nativehashes.GasToken, "transfer", callflag.All, ck.Accounts[0].Hash, d.Hash, int64(100_0000_0000), nil), byte(opcode.ASSERT))})
	}
	if err := w.block(fund); err != nil {
		return nil, err
	}
	for _, n := range w.bc.GetNatives() {
		w.natives = append(w.natives, n)
		w.byHash[n.Hash] = n.Manifest.Name
		w.ids[n.ID] = n.Manifest.Name
	}
	for i, d := range w.b.Deployed {
		w.byHash[d.Hash] = fmt.Sprintf("K%d", i)
		if st := w.bc.GetContractState(d.Hash); st != nil {
			w.ids[st.ID] = fmt.Sprintf("K%d", i)
		}
	}
	// The contract a case deploys itself gets the next free id.
	var maxID int32
	for id := range w.ids {
		maxID = max(maxID, id)
	}
	w.ids[maxID+1] = "CBD"
	// Baseline storage of ALL contracts, read through a fresh test context.
	ic, err := w.newIC(trigger.Application, w.plainTx(nil, 0))
	if err != nil {
		return nil, err
	}
	w.prefix = byte(ic.DAO.Version.StoragePrefix)
	w.base = w.allStorage(ic)
	ic.Finalize()
	if len(w.base) < 20 {
		return nil, fmt.Errorf("baseline storage suspiciously small: %d items", len(w.base))
	}
	w.covErr = w.sysTableCoverage()
	return w, nil
}

// allStorage reads every storage item of every contract visible through the context's DAO.
func (w *world) allStorage(ic *interop.Context) map[string][]byte {
	m := map[string][]byte{}
	ic.DAO.Store.Seek(storage.SeekRange{Prefix: []byte{w.prefix}}, func(k, v []byte) bool {
		m[string(k)] = bytes.Clone(v)
		return true
	})
	return m
}

func (w *world) newIC(t trigger.Type, tx *transaction.Transaction) (*interop.Context, error) {
	return w.bc.GetTestVM(t, tx, nil)
}

// plainTx is the container of a run: signers are account 0 (Global) and, when committee is set, the current
// committee multisig with Global scope (so that privileged native setters are reachable).
func (w *world) plainTx(script []byte, mode int) *transaction.Transaction {
	tx := transaction.New(script, 0)
	tx.Nonce = 7
	tx.ValidUntilBlock = w.bc.BlockHeight() + 1
	tx.Signers = []transaction.Signer{{Account: ck.Accounts[0].Hash, Scopes: transaction.Global}}
	switch mode {
	case 1: // committee + the ordinary cast
		tx.Signers = append(tx.Signers, transaction.Signer{Account: w.b.CommitteeActor().Hash, Scopes: transaction.Global})
		for _, k := range append(append([]ck.Key{}, ck.Accounts[1:]...), ck.Candidates...) {
			tx.Signers = append(tx.Signers, transaction.Signer{Account: k.Hash, Scopes: transaction.Global})
		}
	case 2: // nobody relevant
		tx.Signers = []transaction.Signer{{Account: ck.RoleKeys[2].Hash, Scopes: transaction.None}}
	}
	tx.Scripts = make([]transaction.Witness, len(tx.Signers))
	return tx
}

// storageKeyName renders a raw store key as contract-name/hex-key.
func (w *world) storageKeyName(k string) string {
	if len(k) < 5 {
		return hex.EncodeToString([]byte(k))
	}
	id := int32(uint32(k[1]) | uint32(k[2])<<8 | uint32(k[3])<<16 | uint32(k[4])<<24)
	n := w.ids[id]
	if n == "" {
		n = fmt.Sprint(id)
	}
	return fmt.Sprintf("%s(id %d)/%x", n, id, k[5:])
}

// outcome is everything observed about one run.
type outcome struct {
	Halt      bool
	Err       string
	Changed   []string       // storage items whose value differs from the baseline (sorted, rendered)
	Rewritten int            // storage items written with the value they already had
	Notifs    []string       // "contract:event" in emission order
	Invoc     map[string]int // contract invocation counters by contract name
	Calls     int            // invocations of contracts other than the ones loaded / named by the harness
	Foreign   []string       // contracts (other than the ones loaded by the harness) whose code executed instructions
	Scripts   []string       // dynamic (non-contract) scripts that executed instructions (System.Runtime.LoadScript)
	Stack     string         // result stack rendered
	Gas       int64
}

func (o *outcome) invocTotal() int {
	n := 0
	for _, v := range o.Invoc {
		n += v
	}
	return n
}

func (o *outcome) effects() string {
	var inv []string
	for k, v := range o.Invoc {
		inv = append(inv, fmt.Sprintf("%s=%d", k, v))
	}
	sort.Strings(inv)
	return fmt.Sprintf("storage%v notifications%v invocations%v", o.Changed, o.Notifs, inv)
}

func (o *outcome) String() string {
	st := "HALT"
	if !o.Halt {
		st = "FAULT(" + firstLine(o.Err) + ")"
	}
	return fmt.Sprintf("%s %s stack=%s", st, o.effects(), o.Stack)
}

func firstLine(s string) string {
	if i := strings.IndexByte(s, '\n'); i >= 0 {
		s = s[:i]
	}
	if len(s) > 200 {
		s = s[:200]
	}
	return s
}

// run executes what load put into the VM of a fresh context and observes the effects before Finalize.
// own lists the script hashes the harness itself loaded (they do not count as "foreign" code).
func (w *world) run(ic *interop.Context, own ...util.Uint160) *outcome {
	defer ic.Finalize()
	seen := map[util.Uint160]bool{}
	var order []util.Uint160
	for _, c := range ic.VM.Istack() {
		seen[c.ScriptHash()] = true
	}
	for _, h := range own {
		seen[h] = true
	}
	initial := map[util.Uint160]bool{}
	for h := range seen {
		initial[h] = true
	}
	ic.VM.SetOnExecHook(func(h util.Uint160, _ int, _ opcode.Opcode) {
		if !seen[h] {
			seen[h] = true
			order = append(order, h)
		}
	})
	err := ic.VM.Run()
	o := &outcome{Halt: err == nil && ic.VM.State() == vmstate.Halt, Invoc: map[string]int{}, Gas: ic.VM.GasConsumed()}
	if err != nil {
		o.Err = err.Error()
	} else if !o.Halt {
		o.Err = "state " + ic.VM.State().String()
	}
	// Storage difference of ALL contracts against the baseline (both directions), through a full scan.
	after := w.allStorage(ic)
	for k, v := range after {
		bv, ok := w.base[k]
		if !ok {
			o.Changed = append(o.Changed, fmt.Sprintf("+%s=%x", w.storageKeyName(k), clipB(v)))
		} else if !bytes.Equal(bv, v) {
			o.Changed = append(o.Changed, fmt.Sprintf("~%s=%x(was %x)", w.storageKeyName(k), clipB(v), clipB(bv)))
		}
	}
	for k := range w.base {
		if _, ok := after[k]; !ok {
			o.Changed = append(o.Changed, "-"+w.storageKeyName(k))
		}
	}
	sort.Strings(o.Changed)
	// Cross-check with the change set of the private layer: anything recorded there with an unchanged value
	// is a same-value rewrite; anything changed must be recorded there.
	for k, v := range ic.DAO.Store.GetStorageChanges() {
		if len(k) == 0 || k[0] != w.prefix {
			continue
		}
		if bv, ok := w.base[k]; ok && v != nil && bytes.Equal(bv, v) {
			o.Rewritten++
		}
	}
	for _, n := range ic.Notifications {
		o.Notifs = append(o.Notifs, w.name(n.ScriptHash)+":"+n.Name)
	}
	for h, n := range ic.Invocations {
		if n != 0 {
			o.Invoc[w.name(h)] = n
			if !initial[h] {
				o.Calls += n
			}
		}
	}
	for _, h := range order {
		if _, err := ic.GetContract(h); err == nil {
			o.Foreign = append(o.Foreign, w.name(h))
		} else {
			o.Scripts = append(o.Scripts, "script:"+h.StringLE()[:8])
		}
	}
	if o.Halt {
		var sb strings.Builder
		for i, it := range ic.VM.Estack().ToArray() {
			if i > 0 {
				sb.WriteByte(' ')
			}
			sb.WriteString(renderItem(it, 0))
		}
		o.Stack = sb.String()
	}
	return o
}

func clipB(b []byte) []byte {
	if len(b) > 24 {
		return b[:24]
	}
	return b
}

func (w *world) name(h util.Uint160) string {
	if n := w.byHash[h]; n != "" {
		return n
	}
	return h.StringLE()[:8]
}

func renderItem(it stackitem.Item, depth int) string {
	if depth > 4 {
		return "..."
	}
	switch t := it.(type) {
	case stackitem.Null:
		return "null"
	case *stackitem.Interop:
		return fmt.Sprintf("interop(%T)", t.Value())
	case *stackitem.Array, *stackitem.Struct:
		var s []string
		for _, e := range it.Value().([]stackitem.Item) {
			s = append(s, renderItem(e, depth+1))
		}
		return "[" + strings.Join(s, ",") + "]"
	case *stackitem.Map:
		return fmt.Sprintf("map(%d)", t.Len())
	case *stackitem.Pointer:
		return "pointer"
	case stackitem.Bool:
		return fmt.Sprint(bool(t))
	case *stackitem.BigInteger:
		return t.Big().String()
	default:
		b, err := it.TryBytes()
		if err != nil {
			return it.Type().String()
		}
		if len(b) > 24 {
			return fmt.Sprintf("%x..(%d)", b[:24], len(b))
		}
		return fmt.Sprintf("%x", b)
	}
}
