package c16

import (
	"fmt"
	"slices"
	"strconv"

	"github.com/nspcc-dev/neo-go/pkg/core/native/nativehashes"
	"github.com/nspcc-dev/neo-go/pkg/smartcontract/callflag"
	"github.com/nspcc-dev/neo-go/pkg/smartcontract/manifest"
	"github.com/nspcc-dev/neo-go/pkg/smartcontract/nef"
	"github.com/nspcc-dev/neo-go/pkg/smartcontract/trigger"
	"github.com/nspcc-dev/neo-go/pkg/util"
	"github.com/nspcc-dev/neo-go/pkg/vm/opcode"
	"pgregory.net/rapid"
	"verifharness/asm"
	ck "verifharness/chainkit"
	"verifharness/vt"
)

// Method tokens (opcode CALLT, NEF token table) are the second way, besides System.Contract.Call, for code to call a
// contract: the token carries hash, method, parameter count, has-return and its OWN call flags.

// tokTarget is what a token of the probes TK / TKP points at.
type tokTarget struct {
	Label  string
	Who    string // "P1" | "GAS" | "StdLib"
	Method string
	Params int
	Safe   bool // the target method is declared safe in the target's manifest
	Needs  int  // what the target's action needs to succeed (specification, as needs() in chains.go)
}

var tokTargets = []tokTarget{
	{Label: "P1.put", Who: "P1", Method: "a_put", Params: 1, Needs: fRead | fWrite},
	{Label: "P1.lput", Who: "P1", Method: "a_lput", Params: 1, Needs: fWrite},
	{Label: "P1.notify", Who: "P1", Method: "a_notify", Params: 1, Needs: fNotify},
	{Label: "P1.flags", Who: "P1", Method: "a_flags", Params: 1},
	{Label: "P1.safe-flags", Who: "P1", Method: "sa_flags", Params: 1, Safe: true},
	{Label: "GAS.transfer", Who: "GAS", Method: "transfer", Params: 4, Needs: fAll},
	{Label: "StdLib.itoa", Who: "StdLib", Method: "itoa", Params: 1, Safe: true},
	{Label: "P1.call", Who: "P1", Method: "a_call", Params: 1, Needs: fRead | fCall},
}

// tkpPerms is the manifest of TKP: only two methods of P1 may be called.
var tkpPerms = []permSpec{{Desc: "hash:P1", Methods: []string{"a_notify", "a_flags"}}}

func (w *world) tokHash(who string) util.Uint160 {
	switch who {
	case "GAS":
		return nativehashes.GasToken
	case "StdLib":
		return nativehashes.StdLib
	}
	return w.ps[0].Hash
}

func tokName(who string) string {
	switch who {
	case "GAS":
		return "GasToken"
	}
	return who
}

// withTokens rebuilds the NEF of c with a token table (the checksum, hence the contract hash, covers it).
func withTokens(c *asm.Contract, tokens []nef.MethodToken) *asm.Contract {
	ne, err := nef.NewFile(c.Script)
	if err != nil {
		panic(err)
	}
	ne.Tokens = tokens
	ne.Checksum = ne.CalculateChecksum()
	nb, err := ne.Bytes()
	if err != nil {
		panic(err)
	}
	c.NEF, c.Checksum = nb, ne.Checksum
	return c
}

func callt(b *asm.B, id int) { b.Ins(opcode.CALLT, byte(id), byte(id>>8)) }

// buildTokenProbe assembles TK / TKP: token t*16+f points at tokTargets[t] with token flags f; method k<id>(args...) is
// `CALLT id; RET`.
func (w *world) buildTokenProbe(name string, opts ...asm.ManifestOpt) *asm.Contract {
	b := asm.New()
	var ms []asm.MethodSpec
	var toks []nef.MethodToken
	for t, tg := range tokTargets {
		for f := 0; f < 16; f++ {
			id := t*16 + f
			l := fmt.Sprintf("k%d", id)
			b.Label(l)
			ms = append(ms, asm.MethodSpec{Name: l, Label: l, Params: tg.Params})
			callt(b, id)
			b.Op(opcode.RET)
			toks = append(toks, nef.MethodToken{Hash: w.tokHash(tg.Who), Method: tg.Method, ParamCount: uint16(tg.Params), HasReturn: true, CallFlag: callflag.CallFlag(f)})
		}
	}
	addCommon(b, &ms)
	c, err := asm.BuildContract(name, b, ms, opts...)
	if err != nil {
		panic(err)
	}
	return withTokens(c, toks)
}

// Token hops of call chains: contract TH, method th_<method>_<f>(path) = `CALLT; RET` with a token pointing at
// P1.<method> with token flags f.
var thMethods = []string{"hop", "shop", "a_flags", "a_put", "a_lput", "a_notify", "a_call", "a_xfer"}

func thMethod(method string, f int) string { return fmt.Sprintf("th_%s_%d", method, f) }

func (w *world) buildTokenHop() *asm.Contract {
	b := asm.New()
	var ms []asm.MethodSpec
	var toks []nef.MethodToken
	for i, m := range thMethods {
		for f := 0; f < 16; f++ {
			l := thMethod(m, f)
			b.Label(l)
			ms = append(ms, asm.MethodSpec{Name: l, Label: l, Params: 1})
			callt(b, i*16+f)
			b.Op(opcode.RET)
			toks = append(toks, nef.MethodToken{Hash: w.ps[0].Hash, Method: m, ParamCount: 1, HasReturn: true, CallFlag: callflag.CallFlag(f)})
		}
	}
	addCommon(b, &ms)
	c, err := asm.BuildContract("TH", b, ms)
	if err != nil {
		panic(err)
	}
	return withTokens(c, toks)
}

func (w *world) deployTokenProbes() error {
	tkp := func(m *manifest.Manifest) {
		m.Permissions = []manifest.Permission{}
		for _, p := range tkpPerms {
			mp := manifest.NewPermission(manifest.PermissionHash, w.ps[0].Hash)
			mp.Methods.Value = append([]string{}, p.Methods...)
			m.Permissions = append(m.Permissions, *mp)
		}
	}
	ds, err := w.deployAll(deployer, []*asm.Contract{w.buildTokenProbe("TK"), w.buildTokenProbe("TKP", tkp), w.buildTokenHop()})
	if err != nil {
		return err
	}
	w.tk, w.th = ds[:2], ds[2]
	for _, d := range ds {
		if len(d.CS.NEF.Tokens) != 128 {
			return fmt.Errorf("%s deployed with %d tokens", d.Name, len(d.CS.NEF.Tokens))
		}
	}
	return nil
}

// TokCase selects a token probe (0 TK: wildcard permissions, 1 TKP: restricted manifest), a target and how the probe
// method is entered; the check runs the complete 16 x 16 matrix caller flags x token flags.
type TokCase struct {
	Contract int `json:"contract"`
	Target   int `json:"target"`
	Mode     int `json:"mode"` // 0 the probe method is loaded by the harness with the caller flags, 2 called through System.Contract.Call requesting them
}

func genTokCase(t *rapid.T) TokCase {
	return TokCase{Contract: uniform(t, 2, "contract"), Target: uniform(t, len(tokTargets), "target"), Mode: 2 * uniform(t, 2, "mode")}
}

func (w *world) tokArgs(probe *deployed, tg tokTarget) []any {
	switch tg.Label {
	case "GAS.transfer":
		return []any{hb(probe.Hash), hb(ck.Accounts[0].Hash), int64(1), nil}
	case "StdLib.itoa":
		return []any{int64(255)}
	}
	return []any{[]any{hb(w.ps[3].Hash)}}
}

func checkTokCase(c TokCase, o *vt.Obs) error {
	w, err := getWorld()
	if err != nil {
		return fmt.Errorf("setup: %v", err)
	}
	if c.Contract < 0 || c.Contract > 1 || c.Target < 0 || c.Target >= len(tokTargets) || (c.Mode != 0 && c.Mode != 2) {
		return nil
	}
	probe, tg := w.tk[c.Contract], tokTargets[c.Target]
	args := w.tokArgs(probe, tg)
	target := tokName(tg.Who)
	// Specification of the permission: TK may call anything; TKP only what its manifest lists; the property restricts
	// calls of non-safe methods only.
	permitted := c.Contract == 0 || tg.Safe || specAllowed(tkpPerms, tg.Who, nil, tg.Method)
	nt := false
	for tf := 0; tf < 16; tf++ {
		id := c.Target*16 + tf
		mname := fmt.Sprintf("k%d", id)
		var outs [16]*outcome
		for f := 0; f < 16; f++ {
			ic, err := w.newIC(trigger.Application, w.plainTx(nil, 0))
			if err != nil {
				return err
			}
			if c.Mode == 0 {
				md := probe.CS.Manifest.ABI.GetMethod(mname, tg.Params)
				if md == nil {
					return fmt.Errorf("probe method %s missing", mname)
				}
				ic.VM.LoadNEFMethod(&probe.CS.NEF, &probe.CS.Manifest, util.Uint160{}, probe.Hash, callflag.CallFlag(f), true, md.Offset, -1, nil, nil, false)
				for i := len(args) - 1; i >= 0; i-- {
					ic.VM.Estack().PushItem(w.toItem(args[i]))
				}
			} else {
				ic.VM.LoadWithFlags(appCall(probe.Hash, mname, callflag.CallFlag(f), args...), callflag.All)
			}
			out := w.run(ic, probe.Hash)
			outs[f] = out
			o.Units(1)
			where := fmt.Sprintf("%s holding flags %s executes CALLT of token {%s, flags %s} (mode %d)", probe.Name, flagName(f), tg.Label, flagName(tf), c.Mode)
			ownInv := 0
			if c.Mode == 2 {
				ownInv = 1
			}
			executed := out.Calls != 0 || len(out.Foreign) != 0 || out.Invoc[probe.Name] != ownInv
			canCall := f&needCall == needCall
			eff := f & tf
			if tg.Safe {
				eff &= fReadOnly
			}
			ok := canCall && permitted && eff&tg.Needs == tg.Needs
			// Behavioural clauses. That foreign code ran is observed directly (instruction hook), so it is judged even when
			// the run as a whole faults later.
			if !canCall && executed {
				return fmt.Errorf("%s: the caller lacks %s, which a contract call needs, yet a contract was called: %s", where, flagName(needCall&^f), out)
			}
			if !permitted && executed {
				return fmt.Errorf("%s: the manifest of %s (%v) permits neither this contract nor this method, yet the call was performed: %s", where, probe.Name, tkpPerms, out)
			}
			if out.Halt {
				if err := confined(eff|(f&fCall), out, out.Calls, out.Foreign); err != nil {
					return fmt.Errorf("%s (callee flags %s): %v; outcome %s", where, flagName(eff), err, out)
				}
			}
			// Exactness: callee flags = caller flags ∩ token flags (∩ ReadOnly for a safe target); effect present iff they suffice.
			if ok != out.Halt {
				return fmt.Errorf("%s: specification says success=%v (caller can call=%v, permitted=%v, callee flags %s, target needs %s), observed %s", where, ok, canCall, permitted, flagName(eff), flagName(tg.Needs), out)
			}
			if !ok {
				continue
			}
			if !slices.Contains(out.Foreign, target) || out.Invoc[target] != 1 {
				return fmt.Errorf("%s: run HALTed but %s was not invoked exactly once: %s", where, target, out)
			}
			var bad string
			switch tg.Label {
			case "P1.put", "P1.lput":
				if !leafEffect("put", "P1", out) || len(out.Notifs) != 0 {
					bad = "storage item of P1 missing"
				}
			case "P1.notify":
				if !leafEffect("notify", "P1", out) || len(out.Changed) != 0 {
					bad = "event of P1 missing"
				}
			case "P1.flags", "P1.safe-flags":
				if out.Stack != strconv.Itoa(eff) {
					bad = "callee reports other flags than caller ∩ token"
				}
			case "GAS.transfer":
				if out.Stack != "true" || !leafEffect("xfer", "", out) {
					bad = "transfer effect missing"
				}
			case "StdLib.itoa":
				if out.Stack != "323535" {
					bad = "wrong result"
				}
			case "P1.call":
				if out.Invoc["P4"] != 1 {
					bad = "P4 not called"
				}
			}
			if bad != "" {
				return fmt.Errorf("%s: %s: %s", where, bad, out)
			}
		}
		// Flags only restrict (in the caller flags, for a fixed token).
		for f := 0; f < 16; f++ {
			for g := 0; g < 16 && outs[f].Halt; g++ {
				if g != f && g&f == f && !outs[g].Halt {
					return fmt.Errorf("%s token {%s, flags %s}: succeeds under caller flags %s but fails under the superset %s", probe.Name, tg.Label, flagName(tf), flagName(f), flagName(g))
				}
			}
			for bit := 1; bit < 16; bit <<= 1 {
				if f&bit == 0 && !outs[f].Halt && outs[f|bit].Halt {
					nt = true
				}
			}
		}
	}
	o.Label("probe/" + probe.Name)
	o.Label("target/" + tg.Label)
	o.Labelf("mode-%d", c.Mode)
	if !permitted {
		o.Label("denied-by-manifest")
		nt = true
	}
	if nt {
		o.NonTrivial()
	}
	return nil
}
