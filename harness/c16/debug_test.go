package c16

import (
	"fmt"
	"os"
	"sort"
	"testing"

	"github.com/nspcc-dev/neo-go/pkg/smartcontract/callflag"
	"github.com/nspcc-dev/neo-go/pkg/smartcontract/trigger"
)

// TestTables prints the sizes of the finite tables (always) and, with VERIF_DEBUG=1, under which flag sets every
// native method HALTs with its realistic argument tuples (vacuity control while developing the tables).
func TestTables(t *testing.T) {
	w, err := getWorld()
	if err != nil {
		t.Fatal(err)
	}
	if w.covErr != nil {
		t.Error(w.covErr)
	}
	cells, goOnlyCells := 0, 0
	for _, s := range sysTable {
		for _, v := range s.V {
			cells += 3
			if goOnly(v.Args(w)) {
				goOnlyCells += 2
			}
		}
	}
	gold := 0
	for _, m := range w.natMethods() {
		gold += max(1, len(w.golden()[m.Name]))
	}
	fmt.Printf("syscall rows %d, (row,variant,mode) cells %d of which %d skipped (go-only arguments), x16 flag sets\n", len(sysTable), cells, goOnlyCells)
	fmt.Printf("native methods %d, realistic tuples %d (x2 call paths x4 signer modes x16 flag sets)\n", len(w.natMethods()), gold)
	fmt.Printf("permission callers %d x callees 4 x methods 3 = %d end-to-end cells; base storage items %d, height %d\n", len(w.cs), len(w.cs)*12, len(w.base), w.bc.BlockHeight())
	if os.Getenv("VERIF_DEBUG") == "" {
		return
	}
	for _, l := range w.natHaltReport() {
		fmt.Println(l)
	}
}

// natHaltReport (debugging / vacuity control): for every native method, under which requested flag sets the realistic
// tuples HALT and with which effects.
func (w *world) natHaltReport() []string {
	var out []string
	for _, m := range w.natMethods() {
		n := max(1, len(w.golden()[m.Name]))
		for gi := 0; gi < n; gi++ {
			for via := 0; via < 2; via++ {
				c := NatCase{Method: m.Name, Golden: gi, Signers: 1, Via: via}
				if m.Name == "OracleContract.finish/0" {
					c.Signers = 3
				}
				args, _ := w.natArgs(m, c)
				var hs []string
				eff := ""
				for f := 0; f < 16; f++ {
					var script []byte
					if via == 1 {
						script = appCall(w.ps[0].Hash, "call", callflag.All, hb(m.C.Hash), m.M.Name, int64(f), args)
					} else {
						script = appCall(m.C.Hash, m.M.Name, callflag.CallFlag(f), args...)
					}
					ic, _ := w.newIC(trigger.Application, w.natTx(c.Signers))
					ic.VM.LoadWithFlags(script, callflag.All)
					o := w.run(ic, m.C.Hash, w.ps[0].Hash)
					if o.Halt {
						hs = append(hs, flagName(f))
						eff = o.effects()
					} else if f == 15 {
						eff = "FAULT " + firstLine(o.Err)
					}
				}
				sort.Strings(hs)
				out = append(out, fmt.Sprintf("%-52s g%d via%d halts=%d %v  %s", m.Name, gi, via, len(hs), hs, clipS(eff, 260)))
			}
		}
	}
	return out
}
