package c16

import (
	"fmt"
	"testing"
	"time"
)

func TestDebugNatives(t *testing.T) {
	t0 := time.Now()
	w, err := getWorld()
	if err != nil {
		t.Fatal(err)
	}
	fmt.Println("setup", time.Since(t0), "height", w.bc.BlockHeight(), "base items", len(w.base))
	if err := w.sysTableCoverage(); err != nil {
		t.Error(err)
	}
	n := 0
	for _, c := range w.natives {
		for _, m := range c.Manifest.ABI.Methods {
			n++
			s := ""
			for _, p := range m.Parameters {
				s += fmt.Sprintf("%s:%s ", p.Name, p.Type)
			}
			fmt.Printf("%s.%s(%s) -> %s safe=%v\n", c.Manifest.Name, m.Name, s, m.ReturnType, m.Safe)
		}
	}
	fmt.Println("methods", n)
}

func TestDebugNatHalts(t *testing.T) {
	w, err := getWorld()
	if err != nil {
		t.Fatal(err)
	}
	t0 := time.Now()
	r := w.natHaltReport()
	for _, l := range r {
		fmt.Println(l)
	}
	fmt.Println("runs", len(r)*16, time.Since(t0))
}
