package c16

import (
	"fmt"
	"strings"

	"github.com/nspcc-dev/neo-go/pkg/core/native/nativehashes"
	"github.com/nspcc-dev/neo-go/pkg/vm/opcode"
	"verifharness/asm"
	ck "verifharness/chainkit"
)

// ---- system call probe ------------------------------------------------------------------------------

// sysMethod is the ABI name of the probe method wrapping a system call.
func sysMethod(name string) string {
	return "x" + strings.NewReplacer(".", "_").Replace(strings.TrimPrefix(name, "System."))
}

// buildSyscallProbe assembles contract SC: for every entry of the hand-written system call table a method whose
// body is just `SYSCALL; RET` (arguments are whatever the caller left on the stack), plus _deploy filling
// some storage, onNEP17Payment and a trivial `ping`.
func buildSyscallProbe() *asm.Contract {
	b := asm.New()
	var ms []asm.MethodSpec
	for _, s := range sysTable {
		l := sysMethod(s.Name)
		if s.Own {
			l += "_own"
		}
		b.Label(l)
		ms = append(ms, asm.MethodSpec{Name: l, Label: l, Params: s.Arity, Void: !s.Ret})
		if s.Own {
			b.Syscall("System.Storage.GetContext")
		}
		b.Syscall(s.Name).Op(opcode.RET)
	}
	addCommon(b, &ms)
	c, err := asm.BuildContract("SC", b, ms)
	if err != nil {
		panic(err)
	}
	return c
}

// addCommon adds _deploy (three storage items), onNEP17Payment (accepts) and ping (returns 42, no effects).
func addCommon(b *asm.B, ms *[]asm.MethodSpec) {
	b.Label("_deploy")
	*ms = append(*ms, asm.MethodSpec{Name: "_deploy", Label: "_deploy", Params: 2, Void: true})
	b.InitSlot(0, 2)
	for _, k := range []string{"k1", "k2", "k3"} {
		b.Str("v-" + k).Str(k).Syscall("System.Storage.GetContext").Syscall("System.Storage.Put")
	}
	b.Op(opcode.RET)
	b.Label("onNEP17Payment")
	*ms = append(*ms, asm.MethodSpec{Name: "onNEP17Payment", Label: "onNEP17Payment", Params: 3, Void: true})
	b.InitSlot(0, 3).Op(opcode.RET)
	b.Label("ping")
	*ms = append(*ms, asm.MethodSpec{Name: "ping", Label: "ping", Params: 1})
	b.InitSlot(0, 1).Int(42).Op(opcode.RET)
}

// ---- hop / leaf / safe probe --------------------------------------------------------------------------

// Leaf actions. What each one needs is written in needs() (chains.go) from the documentation of the flags.
var leafActions = []string{"nothing", "flags", "put", "lput", "del", "ldel", "notify", "call", "xfer"}

// leafMethod names the ABI method of a leaf: a_<action> (plain), t_<action> (action inside a TRY block whose CATCH
// returns 2; a missing call flag is not a catchable exception in this VM, so 2 is never expected), sa_/st_ the same
// bodies declared safe in the manifest. Leaves return 1, except "flags" which returns System.Contract.GetCallFlags.
func leafMethod(action string, try, safe bool) string {
	p := "a"
	if try {
		p = "t"
	}
	if safe {
		p = "s" + p
	}
	return p + "_" + action
}

// emitAction emits the body of one leaf action (stack neutral).
func emitAction(b *asm.B, action string) {
	switch action {
	case "nothing", "flags":
	case "put":
		b.Str("v").Str("c").Syscall("System.Storage.GetContext").Syscall("System.Storage.Put")
	case "lput":
		b.Str("v").Str("lc").Syscall("System.Storage.Local.Put")
	case "del":
		b.Str("k1").Syscall("System.Storage.GetContext").Syscall("System.Storage.Delete")
	case "ldel":
		b.Str("k2").Syscall("System.Storage.Local.Delete")
	case "notify":
		b.Int(5).Op(opcode.PUSH1, opcode.PACK).Str("E").Syscall("System.Runtime.Notify")
	case "call": // a non-safe, effect-free method of P4 (the hash is patched in by name: P4 is looked up at run time through the argument)
		// args = [null]; flags All; method "ping"; hash = first element of the leaf's argument array
		b.Op(opcode.PUSHNULL, opcode.PUSH1, opcode.PACK).Int(15).Str("ping").Op(opcode.LDARG0, opcode.PUSH0, opcode.PICKITEM).Syscall("System.Contract.Call").Op(opcode.DROP)
	case "xfer": // GAS.transfer(self, account0, 1, null)
		b.Op(opcode.PUSHNULL).Int(1).Bytes(ck.Accounts[0].Hash.BytesBE()).Syscall("System.Runtime.GetExecutingScriptHash").Op(opcode.PUSH4, opcode.PACK)
		b.Int(15).Str("transfer").Bytes(nativehashes.GasToken.BytesBE()).Syscall("System.Contract.Call").Op(opcode.DROP)
	default:
		panic("unknown action " + action)
	}
}

// buildHopProbe assembles one of the identical contracts P1..P4:
//
//	hop(path) / shop(path, safe)  path = [[hash, flags, method], rest...]: calls hash.method(rest) with the given flags, returns its result
//	a_X(p) t_X(p) sa_X(p) st_X(p) leaf actions (p = [hash of the contract the "call" action pings]); return 1 (done) or 2 (exception swallowed)
func buildHopProbe(name string) *asm.Contract {
	b := asm.New()
	var ms []asm.MethodSpec
	for _, safe := range []bool{false, true} {
		l := "hop"
		if safe {
			l = "shop"
		}
		b.Label(l)
		ms = append(ms, asm.MethodSpec{Name: l, Label: l, Params: 1, Safe: safe})
		b.InitSlot(1, 1)
		b.Op(opcode.LDARG0, opcode.PUSH0, opcode.PICKITEM, opcode.STLOC0) // loc0 = [hash, flags, method]
		b.Op(opcode.LDARG0, opcode.PUSH0, opcode.REMOVE)                  // path = rest
		b.Op(opcode.LDARG0, opcode.PUSH1, opcode.PACK)                    // args = [rest]
		b.Op(opcode.LDLOC0, opcode.PUSH1, opcode.PICKITEM)                // flags
		b.Op(opcode.LDLOC0, opcode.PUSH2, opcode.PICKITEM)                // method
		b.Op(opcode.LDLOC0, opcode.PUSH0, opcode.PICKITEM)                // hash
		b.Syscall("System.Contract.Call").Op(opcode.RET)
	}
	for _, safe := range []bool{false, true} {
		for _, try := range []bool{false, true} {
			for _, a := range leafActions {
				l := leafMethod(a, try, safe)
				b.Label(l)
				ms = append(ms, asm.MethodSpec{Name: l, Label: l, Params: 1, Safe: safe})
				b.InitSlot(0, 1)
				if a == "flags" {
					b.Syscall("System.Contract.GetCallFlags").Op(opcode.RET)
					continue
				}
				if !try {
					emitAction(b, a)
					b.Op(opcode.PUSH1, opcode.RET)
					continue
				}
				c, e := b.Fresh("catch"), b.Fresh("end")
				b.Try(c, "")
				emitAction(b, a)
				b.Jmp(opcode.ENDTRYL, e)
				b.Label(c).Op(opcode.DROP).Jmp(opcode.ENDTRYL, e+"c")
				b.Label(e).Op(opcode.PUSH1, opcode.RET)
				b.Label(e+"c").Op(opcode.PUSH2, opcode.RET)
			}
		}
	}
	// call(h, m, f, args): generic forwarder (used as the calling contract of native methods that want one).
	b.Label("call")
	ms = append(ms, asm.MethodSpec{Name: "call", Label: "call", Params: 4})
	b.InitSlot(0, 4).Op(opcode.LDARG3, opcode.LDARG2, opcode.LDARG1, opcode.LDARG0).Syscall("System.Contract.Call").Op(opcode.RET)
	// oracleCb(url, userdata, code, result): callback of Oracle.finish; leaves a storage item and an event.
	b.Label("oracleCb")
	ms = append(ms, asm.MethodSpec{Name: "oracleCb", Label: "oracleCb", Params: 4, Void: true})
	b.InitSlot(0, 4).Str("answered").Str("ocb").Syscall("System.Storage.GetContext").Syscall("System.Storage.Put")
	b.Int(9).Op(opcode.PUSH1, opcode.PACK).Str("E").Syscall("System.Runtime.Notify").Op(opcode.RET)
	addCommon(b, &ms)
	c, err := asm.BuildContract(name, b, ms)
	if err != nil {
		panic(fmt.Errorf("%s: %w", name, err))
	}
	return c
}
