package c16

import "pgregory.net/rapid"

// uniform draws an index in [0,n) from fair bits: rapid's integer generators favour small values and bounds,
// which would leave most cells of the finite tables of this property under-sampled.
func uniform(t *rapid.T, n int, label string) int {
	if n <= 1 {
		return 0
	}
	bits := 4
	for 1<<(bits-4) < n {
		bits++
	}
	v := 0
	for i := 0; i < bits; i++ {
		v <<= 1
		if rapid.Bool().Draw(t, label) {
			v |= 1
		}
	}
	return v % n
}

func pick[T any](t *rapid.T, l []T, label string) T { return l[uniform(t, len(l), label)] }
