package c16

import (
	"os"
	"testing"

	"verifharness/vt"
)

func TestProp(t *testing.T) {
	if s := os.Getenv("VERIF_SHARD"); s == "" || s == "0" {
		probeNativeNoCall()
	}
	vt.RunAll(t, 2000)
}
func TestReplay(t *testing.T) { vt.ReplayAll(t) }
