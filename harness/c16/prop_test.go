package c16

import (
	"testing"

	"verifharness/vt"
)

func TestProp(t *testing.T)   { vt.RunAll(t, 2000) }
func TestReplay(t *testing.T) { vt.ReplayAll(t) }
