package vt
