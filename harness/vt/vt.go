// Package vt is the shared glue of the verification harness: registry of generated checks,
// seed/case-count handling for rapid, Case <-> JSON, statistics / evidence collection and replay.
//
// Discipline (DESIGN.md §1.1): every check is
//
//	gen (rapid draws only) -> Case (plain JSON-able data) -> check(Case, *Obs) error
//
// and only gen uses randomness. A failing Case is saved as JSON and can be replayed without rapid.
package vt

import (
	"crypto/sha256"
	"encoding/binary"
	"encoding/json"
	"flag"
	"fmt"
	"os"
	"path/filepath"
	"runtime/debug"
	"sort"
	"strconv"
	"strings"
	"sync"
	"testing"
	"time"

	"pgregory.net/rapid"
)

// Obs is handed to every check invocation to classify the case.
type Obs struct {
	labels     []string
	nontrivial bool
	excluded   bool
	units      int
}

// Label adds a class label (counted in the class histogram of the evidence).
func (o *Obs) Label(l string) {
	if o != nil {
		o.labels = append(o.labels, l)
	}
}

// Labelf is Label with formatting.
func (o *Obs) Labelf(f string, a ...any) { o.Label(fmt.Sprintf(f, a...)) }

// NonTrivial marks the case as non-trivial by the property's stated rule.
func (o *Obs) NonTrivial() {
	if o != nil {
		o.nontrivial = true
	}
}

// Excluded marks a case whose shape was excluded because of a listed known finding.
func (o *Obs) Excluded() {
	if o != nil {
		o.excluded = true
	}
}

// Units adds a number of inner evaluations (crash points, probes, argument tuples...) done by the case.
func (o *Obs) Units(n int) {
	if o != nil {
		o.units += n
	}
}

type entry struct {
	name   string
	weight float64
	run    func(t *testing.T, n int)
	replay func(raw json.RawMessage) error
}

var (
	registry []*entry
	byName   = map[string]*entry{}
)

// CheckStats is what one registered check accumulated in this process.
type CheckStats struct {
	Name        string         `json:"name"`
	Requested   int            `json:"requested"`
	Evaluations int            `json:"evaluations"`
	NonTrivial  int            `json:"nontrivial"`
	Excluded    int            `json:"excluded_known"`
	Units       int            `json:"units"`
	Labels      map[string]int `json:"labels"`
	Samples     []any          `json:"samples"`
	Failed      bool           `json:"failed"`
	FailFile    string         `json:"fail_file,omitempty"`
	FailMsg     string         `json:"fail_msg,omitempty"`
	WallS       float64        `json:"wall_s"`
	hashes      map[uint64]struct{}
	mu          sync.Mutex
}

var (
	statsMu sync.Mutex
	stats   = map[string]*CheckStats{}
)

func getStats(name string) *CheckStats {
	statsMu.Lock()
	defer statsMu.Unlock()
	s := stats[name]
	if s == nil {
		s = &CheckStats{Name: name, Labels: map[string]int{}, hashes: map[uint64]struct{}{}}
		stats[name] = s
	}
	return s
}

// envelope is the on-disk form of a saved case.
type envelope struct {
	Property string          `json:"property"`
	Check    string          `json:"check"`
	Error    string          `json:"error,omitempty"`
	Case     json.RawMessage `json:"case"`
}

// PropertyID is set by each property package (e.g. "C10") before registering.
var PropertyID = "C00"

const maxSamples = 3
const maxHashes = 4_000_000

// Register adds a generated check. weight scales the per-tier base case count for this check.
// gen must only use rapid draws; check must be a pure function of the case and the code under test.
func Register[C any](name string, weight float64, gen func(t *rapid.T) C, check func(c C, o *Obs) error) {
	e := &entry{name: name, weight: weight}
	e.replay = func(raw json.RawMessage) error {
		var c C
		if err := json.Unmarshal(raw, &c); err != nil {
			return fmt.Errorf("bad case JSON: %w", err)
		}
		return protect(func() error { return check(c, &Obs{}) })
	}
	e.run = func(t *testing.T, n int) {
		st := getStats(name)
		st.Requested = n
		start := time.Now()
		defer func() { st.WallS = time.Since(start).Seconds() }()
		_ = flag.Set("rapid.checks", strconv.Itoa(n))
		rapid.Check(t, func(rt *rapid.T) {
			c := gen(rt)
			o := &Obs{}
			err := protect(func() error { return check(c, o) })
			raw, jerr := json.Marshal(c)
			if jerr != nil {
				rt.Fatalf("case not serialisable: %v", jerr)
			}
			st.record(raw, o, c)
			if err != nil {
				st.mu.Lock()
				st.Failed = true
				st.FailMsg = err.Error()
				st.FailFile = saveFailure(name, raw, err)
				st.mu.Unlock()
				rt.Fatalf("%s/%s: %v", PropertyID, name, err)
			}
		})
	}
	registry = append(registry, e)
	byName[name] = e
}

// protect converts a panic of the code under test (same goroutine) into an error carrying the stack.
func protect(f func() error) (err error) {
	defer func() {
		if r := recover(); r != nil {
			err = fmt.Errorf("PANIC: %v\n%s", r, trimStack(debug.Stack()))
		}
	}()
	return f()
}

func trimStack(b []byte) string {
	s := string(b)
	lines := strings.Split(s, "\n")
	if len(lines) > 40 {
		lines = lines[:40]
	}
	return strings.Join(lines, "\n")
}

func (st *CheckStats) record(raw []byte, o *Obs, c any) {
	st.mu.Lock()
	defer st.mu.Unlock()
	st.Evaluations++
	st.Units += o.units
	if o.excluded {
		st.Excluded++
	}
	for _, l := range o.labels {
		st.Labels[l]++
	}
	if o.nontrivial {
		st.NonTrivial++
		if len(st.hashes) < maxHashes {
			h := sha256.Sum256(raw)
			st.hashes[binary.LittleEndian.Uint64(h[:8])] = struct{}{}
		}
		if len(st.Samples) < maxSamples {
			if len(raw) < 6000 {
				var v any
				_ = json.Unmarshal(raw, &v)
				st.Samples = append(st.Samples, v)
			} else {
				st.Samples = append(st.Samples, map[string]any{"note": "case too large to quote in full", "bytes": len(raw), "json_prefix": string(raw[:2500])})
			}
		}
	}
}

func root() string {
	if r := os.Getenv("VERIF_ROOT"); r != "" {
		return r
	}
	return "/verif"
}

func saveFailure(name string, raw []byte, cause error) string {
	dir := os.Getenv("VERIF_FAILDIR")
	if dir == "" {
		dir = filepath.Join(root(), "replays", PropertyID)
	}
	_ = os.MkdirAll(dir, 0o755)
	shard := os.Getenv("VERIF_SHARD")
	p := filepath.Join(dir, fmt.Sprintf("fail-%s-%s.json", name, shard))
	msg := cause.Error()
	if len(msg) > 4000 {
		msg = msg[:4000]
	}
	env := envelope{Property: PropertyID, Check: name, Error: msg, Case: raw}
	b, _ := json.MarshalIndent(env, "", " ")
	_ = os.WriteFile(p, b, 0o644)
	return p
}

// BaseChecks returns the per-tier base number of cases (env VERIF_CHECKS), default def.
func BaseChecks(def int) int {
	if s := os.Getenv("VERIF_CHECKS"); s != "" {
		if n, err := strconv.Atoi(s); err == nil && n > 0 {
			return n
		}
	}
	return def
}

// Tier returns "quick" or "thorough".
func Tier() string {
	if os.Getenv("VERIF_TIER") == "thorough" {
		return "thorough"
	}
	return "quick"
}

// RunAll runs every registered check as a subtest (selected by VERIF_ONLY when set) and writes the stats file.
func RunAll(t *testing.T, defBase int) {
	base := BaseChecks(defBase)
	only := os.Getenv("VERIF_ONLY")
	defer WriteStats()
	for _, e := range registry {
		if only != "" && !matchOnly(only, e.name) {
			continue
		}
		n := int(float64(base) * e.weight)
		if n < 1 {
			n = 1
		}
		e := e
		t.Run(e.name, func(t *testing.T) { e.run(t, n) })
	}
}

func matchOnly(only, name string) bool {
	for _, p := range strings.Split(only, ",") {
		if p == name {
			return true
		}
	}
	return false
}

// WriteStats dumps the statistics of this process to VERIF_STATS (JSON) and the NT hashes next to it.
func WriteStats() {
	p := os.Getenv("VERIF_STATS")
	if p == "" {
		return
	}
	statsMu.Lock()
	defer statsMu.Unlock()
	names := make([]string, 0, len(stats))
	for n := range stats {
		names = append(names, n)
	}
	sort.Strings(names)
	out := struct {
		Property string        `json:"property"`
		Checks   []*CheckStats `json:"checks"`
	}{Property: PropertyID}
	for _, n := range names {
		st := stats[n]
		out.Checks = append(out.Checks, st)
		hb := make([]byte, 0, 8*len(st.hashes))
		for h := range st.hashes {
			hb = binary.LittleEndian.AppendUint64(hb, h)
		}
		_ = os.WriteFile(p+"."+n+".hashes", hb, 0o644)
	}
	b, _ := json.MarshalIndent(out, "", " ")
	_ = os.WriteFile(p, b, 0o644)
}

// ReplayAll replays the files named by VERIF_REPLAY (a file, or a directory of *.json) without rapid.
// A reproduced failure fails the test and prints "REPLAY-FAIL <path>: <error>".
func ReplayAll(t *testing.T) {
	target := os.Getenv("VERIF_REPLAY")
	if target == "" {
		t.Skip("VERIF_REPLAY not set")
	}
	var files []string
	if fi, err := os.Stat(target); err == nil && fi.IsDir() {
		m, _ := filepath.Glob(filepath.Join(target, "*.json"))
		sort.Strings(m)
		files = m
	} else {
		files = []string{target}
	}
	for _, f := range files {
		b, err := os.ReadFile(f)
		if err != nil {
			t.Errorf("REPLAY-ERROR %s: %v", f, err)
			continue
		}
		var env envelope
		if err := json.Unmarshal(b, &env); err != nil {
			t.Errorf("REPLAY-ERROR %s: %v", f, err)
			continue
		}
		e := byName[env.Check]
		if e == nil {
			t.Errorf("REPLAY-ERROR %s: unknown check %q", f, env.Check)
			continue
		}
		if err := e.replay(env.Case); err != nil {
			fmt.Printf("REPLAY-FAIL %s: %v\n", f, firstLine(err.Error()))
			t.Errorf("replay %s reproduces: %v", f, err)
		} else {
			fmt.Printf("REPLAY-PASS %s\n", f)
		}
	}
}

func firstLine(s string) string {
	if i := strings.IndexByte(s, '\n'); i >= 0 {
		return s[:i]
	}
	return s
}

// ---- known findings ---------------------------------------------------------------------------

// Finding is one entry of /verif/known_findings.json.
type Finding struct {
	Property string `json:"property"`
	Key      string `json:"key"`
	Status   string `json:"status"` // "known" | "fixed"
	Commit   string `json:"commit,omitempty"`
	What     string `json:"what"`
}

var (
	findingsOnce sync.Once
	findings     []Finding
)

func loadFindings() {
	b, err := os.ReadFile(filepath.Join(root(), "known_findings.json"))
	if err != nil {
		return
	}
	var f struct {
		Findings []Finding `json:"findings"`
	}
	if json.Unmarshal(b, &f) == nil {
		findings = f.Findings
	}
}

// Known reports whether a finding with this key is listed with status "known" (i.e. recorded, not repaired):
// generators then exclude that exact shape so that the search continues behind it.
func Known(key string) bool {
	findingsOnce.Do(loadFindings)
	for _, f := range findings {
		if f.Property == PropertyID && f.Key == key && f.Status == "known" {
			return true
		}
	}
	return false
}

// KnownFinding prints the KNOWN-FINDING line for a listed finding that a probe has just re-confirmed.
func KnownFinding(key, what string) {
	fmt.Printf("KNOWN-FINDING: property=%s key=%s %s\n", PropertyID, key, what)
}

// ---- small generator helpers ----------------------------------------------------------------------

// Bytes is a []byte that marshals as hex (keeps case files readable and exact).
type Bytes []byte

func (b Bytes) MarshalJSON() ([]byte, error) {
	return json.Marshal(fmt.Sprintf("%x", []byte(b)))
}

func (b *Bytes) UnmarshalJSON(d []byte) error {
	var s string
	if err := json.Unmarshal(d, &s); err != nil {
		return err
	}
	out := make([]byte, len(s)/2)
	for i := 0; i < len(out); i++ {
		v, err := strconv.ParseUint(s[2*i:2*i+2], 16, 8)
		if err != nil {
			return err
		}
		out[i] = byte(v)
	}
	*b = out
	return nil
}
