package c08

import (
	"testing"

	"verifharness/vt"
)

func TestProp(t *testing.T)   { vt.RunAll(t, 20000) }
func TestReplay(t *testing.T) { vt.ReplayAll(t) }
