package c08

import (
	"fmt"
	"math/big"
	"sync"
	"time"

	"github.com/nspcc-dev/neo-go/pkg/core/mempool"
	"github.com/nspcc-dev/neo-go/pkg/util"
	"pgregory.net/rapid"
	"verifharness/vt"
)

// ConcCase (STRESS with respect to goroutine scheduling): the pool is fed by several goroutines at once, the way
// P2P peers, the RPC server and the block queue use it. The invariants of the property do not depend on the
// interleaving, they are evaluated once all goroutines are done. With Barrier set the fake Feer makes callers of
// BlockHeight() wait for each other (briefly): two additions are then in flight at the same moment, past whatever
// they checked before asking the Feer.
type ConcCase struct {
	Case
	Procs   [][]Op `json:"procs"` // per goroutine: add / remove ops (refresh is not used here)
	Barrier bool   `json:"barrier"`
}

func genConcCase(t *rapid.T) ConcCase {
	base := genCaseFl(flHistory)(t)
	base.Ops = nil
	c := ConcCase{Case: base, Barrier: rapid.Bool().Draw(t, "barrier")}
	np := rapid.IntRange(2, 4).Draw(t, "procs")
	same := rapid.IntRange(0, 2).Draw(t, "same") != 0 // the goroutines mostly offer the SAME transactions
	var common []Op
	if same {
		for i := rapid.IntRange(1, 4).Draw(t, "ncommon"); i > 0; i-- {
			common = append(common, Op{Kind: "add", Tx: rapid.IntRange(0, 9).Draw(t, "ctx")})
		}
	}
	for p := 0; p < np; p++ {
		ops := append([]Op{}, common...)
		for i := rapid.IntRange(0, 4).Draw(t, "nown"); i > 0; i-- {
			k := "add"
			switch rapid.IntRange(0, 6).Draw(t, "rm") {
			case 0:
				k = "remove"
			case 1, 2:
				k = "verify" // the read-only query (can this sender pay for the transaction on top of what is pooled?)
			}
			ops = append(ops, Op{Kind: k, Tx: rapid.IntRange(0, 9).Draw(t, "tx")})
		}
		c.Procs = append(c.Procs, ops)
	}
	return c
}

// barrierFeer lets up to n callers of BlockHeight meet (each waits at most 2 ms for the others).
type barrierFeer struct {
	*fakeFeer
	on      bool
	mu      sync.Mutex
	waiting int
	n       int
	gate    chan struct{}
}

func (b *barrierFeer) BlockHeight() uint32 {
	if b.on {
		b.mu.Lock()
		b.waiting++
		g := b.gate
		if b.waiting >= b.n {
			close(b.gate)
			b.gate = make(chan struct{})
			b.waiting = 0
		}
		b.mu.Unlock()
		select {
		case <-g:
		case <-time.After(2 * time.Millisecond):
		}
	}
	return b.fakeFeer.BlockHeight()
}

func (b *barrierFeer) GetUtilityTokenBalance(p, s util.Uint160) *big.Int {
	return b.fakeFeer.GetUtilityTokenBalance(p, s)
}

func checkConcCase(c ConcCase, o *vt.Obs) error {
	if c.Cap < 1 || len(c.Txs) == 0 || len(c.Procs) == 0 || len(c.Procs) > 8 {
		return nil
	}
	u := buildUniverse(c.Case)
	f := &fakeFeer{height: 1}
	for i := 0; i < nAccounts && i < len(c.Bal); i++ {
		f.bal[i] = max(c.Bal[i], 0)
	}
	for i := 0; i < nDepositors && i < len(c.Dep); i++ {
		f.dep[i] = max(c.Dep[i], 0)
	}
	bf := &barrierFeer{fakeFeer: f, on: c.Barrier, n: len(c.Procs), gate: make(chan struct{})}
	pool := mempool.New(c.Cap, false, nil)
	var wg sync.WaitGroup
	panics := make(chan string, len(c.Procs))
	start := make(chan struct{})
	for _, ops := range c.Procs {
		wg.Add(1)
		go func(ops []Op) {
			defer wg.Done()
			defer func() {
				if r := recover(); r != nil {
					panics <- fmt.Sprint(r)
				}
			}()
			<-start
			for _, op := range ops {
				m := u.txs[mod(op.Tx, len(u.txs))]
				switch op.Kind {
				case "add":
					_ = pool.Add(m.tx, bf, m.idx)
				case "remove":
					pool.Remove(m.hash)
				case "verify":
					_ = pool.Verify(m.tx, bf)
				}
			}
		}(ops)
	}
	close(start)
	wg.Wait()
	select {
	case p := <-panics:
		return fmt.Errorf("PANIC in a goroutine using the pool: %s", p)
	default:
	}
	bf.on = false
	// the same transaction object may be offered by several goroutines: it must be listed at most once
	seen := map[util.Uint256]int{}
	for _, tx := range pool.GetVerifiedTransactions() {
		seen[tx.Hash()]++
		if seen[tx.Hash()] > 1 {
			return fmt.Errorf("transaction %s is listed %d times after %d goroutines used the pool at once (count %d, capacity %d)", tx.Hash().StringLE(), seen[tx.Hash()], len(c.Procs), pool.Count(), c.Cap)
		}
	}
	ob, err := observe(pool, u, f)
	if err != nil {
		return err
	}
	if err := invariants(pool, u, f, c.Cap, ob); err != nil {
		return fmt.Errorf("after %d goroutines used the pool at once: %v", len(c.Procs), err)
	}
	o.Units(len(c.Procs))
	if c.Barrier {
		o.Label("barrier")
	}
	if len(ob.list) >= 2 {
		o.NonTrivial()
	}
	return nil
}

func init() {
	vt.Register("concurrent", 0.05, genConcCase, checkConcCase)
}
