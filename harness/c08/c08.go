// Package c08 checks property C08: the memory pool keeps its ordering, capacity, solvency and
// conflict invariants over every history of Add / Remove / RemoveStale, and a failed Add leaves it unchanged.
//
// Discipline: gen (rapid) -> Case (transaction universe + balances + op list, plain data) -> checkCase.
// checkCase drives a real mempool.Pool (and a shadow pool that never sees the failed additions) with a fake
// Feer whose balances change only inside a refresh op (the contract of the production callers:
// Blockchain.storeBlock changes balances and calls RemoveStale under the same chain lock).
package c08

import (
	"errors"
	"fmt"
	"math/big"
	"runtime/debug"
	"sort"
	"strings"

	"github.com/nspcc-dev/neo-go/pkg/core/mempool"
	"github.com/nspcc-dev/neo-go/pkg/core/native/nativehashes"
	"github.com/nspcc-dev/neo-go/pkg/core/transaction"
	"github.com/nspcc-dev/neo-go/pkg/util"
	"pgregory.net/rapid"
	"verifharness/vt"
)

const (
	nAccounts   = 4 // ordinary accounts 0..3 (each has a GAS balance)
	nDepositors = 3 // accounts 0..2 also own a Notary deposit
	bigBalance  = 1_000_000
)

// TxSpec describes one transaction of the universe of a case. Its nonce is its index, so hashes are distinct.
type TxSpec struct {
	Payer   int    `json:"payer"`             // sender account 0..3 of an ordinary transaction
	Sponsor int    `json:"sponsor,omitempty"` // k>0: sender = Notary contract, second signer (fee payer) = depositor account k-1
	Extra   int    `json:"extra,omitempty"`   // k>0: ordinary transaction has the additional signer account k-1
	Sys     int64  `json:"sys"`
	Net     int64  `json:"net"`
	Script  int    `json:"script"` // script length in bytes (drives the size)
	High    bool   `json:"high,omitempty"`
	Conf    []int  `json:"conf,omitempty"`   // c>=0: Conflicts attribute naming transaction (c mod own index); c<0: naming a foreign hash
	Oracle  uint64 `json:"oracle,omitempty"` // OracleResponse id, 0 = none (ordinary transactions only)
}

// Op is one step of a pool history.
type Op struct {
	Kind string  `json:"kind"`           // add remove refresh
	Tx   int     `json:"tx,omitempty"`   // add/remove: universe index (mod size)
	Drop []int   `json:"drop,omitempty"` // refresh: universe indices (mod size) the block made irrelevant
	Bal  []int64 `json:"bal,omitempty"`  // refresh: new GAS balances per account, -1 = unchanged
	Dep  []int64 `json:"dep,omitempty"`  // refresh: new Notary deposits per depositor, -1 = unchanged
	FPB  int64   `json:"fpb,omitempty"`  // refresh: policy fee per byte after the block
}

// Case is a capacity, a transaction universe, initial balances and a history.
type Case struct {
	Cap int      `json:"cap"`
	Txs []TxSpec `json:"txs"`
	Bal []int64  `json:"bal"`
	Dep []int64  `json:"dep"`
	Ops []Op     `json:"ops"`
}

func account(i int) util.Uint160 {
	var u util.Uint160
	for k := range u {
		u[k] = byte(0xA0 + i)
	}
	return u
}

func foreignHash(k int) util.Uint256 {
	var h util.Uint256
	for i := range h {
		h[i] = byte(0xF0 ^ k)
	}
	h[0] = byte(k)
	return h
}

func mod(a, n int) int {
	a %= n
	if a < 0 {
		a += n
	}
	return a
}

// resolveConf turns the Conf list of transaction i into distinct targets (duplicate Conflicts attributes are
// rejected by Blockchain.verifyTxAttributes, so no production caller pools such a transaction).
func resolveConf(s TxSpec, i int) (earlier []int, foreign []int) {
	seenE, seenF := map[int]bool{}, map[int]bool{}
	for _, c := range s.Conf {
		if c >= 0 {
			if i == 0 {
				continue
			}
			j := c % i
			if !seenE[j] {
				seenE[j] = true
				earlier = append(earlier, j)
			}
		} else {
			k := mod(-c, 4)
			if !seenF[k] {
				seenF[k] = true
				foreign = append(foreign, k)
			}
		}
	}
	return
}

func sponsored(s TxSpec) bool { return s.Sponsor > 0 }

// buildTx is a pure function of the spec; hashOf gives the hashes of earlier transactions.
func buildTx(s TxSpec, i int, hashOf func(j int) util.Uint256) *transaction.Transaction {
	n := s.Script
	if n < 1 {
		n = 1
	}
	if n > 400 {
		n = 400
	}
	script := make([]byte, n)
	for k := range script {
		script[k] = 0x21 // NOP
	}
	tx := transaction.New(script, s.Sys)
	tx.Nonce = uint32(i)
	tx.NetworkFee = s.Net
	tx.ValidUntilBlock = 1000
	scope := transaction.CalledByEntry
	if s.Oracle != 0 && !sponsored(s) {
		scope = transaction.None
	}
	if sponsored(s) {
		// What Notary-sponsored transactions look like to every production caller: exactly two signers and a
		// NotaryAssisted attribute (Blockchain.verifyTxAttributes, native Notary verify).
		tx.Signers = []transaction.Signer{
			{Account: nativehashes.Notary, Scopes: transaction.None},
			{Account: account(mod(s.Sponsor-1, nDepositors)), Scopes: scope},
		}
		tx.Attributes = append(tx.Attributes, transaction.Attribute{Type: transaction.NotaryAssistedT, Value: &transaction.NotaryAssisted{NKeys: 0}})
	} else {
		p := mod(s.Payer, nAccounts)
		tx.Signers = []transaction.Signer{{Account: account(p), Scopes: scope}}
		if s.Extra > 0 {
			if e := mod(s.Extra-1, nAccounts); e != p {
				tx.Signers = append(tx.Signers, transaction.Signer{Account: account(e), Scopes: scope})
			}
		}
		if s.Oracle != 0 {
			tx.Attributes = append(tx.Attributes, transaction.Attribute{Type: transaction.OracleResponseT,
				Value: &transaction.OracleResponse{ID: s.Oracle, Code: transaction.Success, Result: []byte{}}})
		}
	}
	if s.High {
		tx.Attributes = append(tx.Attributes, transaction.Attribute{Type: transaction.HighPriority})
	}
	earlier, foreign := resolveConf(s, i)
	for _, j := range earlier {
		tx.Attributes = append(tx.Attributes, transaction.Attribute{Type: transaction.ConflictsT, Value: &transaction.Conflicts{Hash: hashOf(j)}})
	}
	for _, k := range foreign {
		tx.Attributes = append(tx.Attributes, transaction.Attribute{Type: transaction.ConflictsT, Value: &transaction.Conflicts{Hash: foreignHash(k)}})
	}
	for range tx.Signers {
		tx.Scripts = append(tx.Scripts, transaction.Witness{InvocationScript: []byte{0x0c, 0x01, 0x00}, VerificationScript: []byte{0x11}})
	}
	return tx
}

func sizeOf(s TxSpec, i int) int {
	return buildTx(s, i, func(int) util.Uint256 { return util.Uint256{} }).Size()
}

// ---- generators -----------------------------------------------------------------------------------

type flavour struct {
	name       string
	pSponsored int // out of 10
	pOracle    int // out of 10 (ordinary transactions)
	pConf      int // out of 10
	maxCap     int
}

var (
	flHistory = flavour{name: "history", pSponsored: 5, pOracle: 3, pConf: 5, maxCap: 6}
	flNotary  = flavour{name: "notary", pSponsored: 7, pOracle: 0, pConf: 6, maxCap: 6}
	flOracle  = flavour{name: "oracle", pSponsored: 1, pOracle: 7, pConf: 2, maxCap: 3}
)

// chance is true with probability outOf10/10; the minimal draw (what shrinking goes for) is false.
func chance(t *rapid.T, outOf10 int, label string) bool {
	if outOf10 <= 0 {
		return false
	}
	return rapid.IntRange(0, 9).Draw(t, label) >= 10-outOf10
}

const (
	maxTxs = 10
	maxOps = 40
)

var netPalette = []int64{0, 130, 130, 260}

// genTx does not depend on the position of the transaction in the universe (Conf entries are taken modulo the own
// index when the universe is built), so the universe is a rapid slice and shrinks by dropping elements.
//
// like > 0 asks for a replacement candidate: when the universe is assembled (genCaseFl) the transaction takes over the
// fee payer of the first earlier transaction it names and that one's network fee plus like.
type txDraw struct {
	S    TxSpec
	Like int64
}

func genTxDraw(fl flavour) func(t *rapid.T) txDraw {
	g := genTx(fl)
	return func(t *rapid.T) txDraw {
		d := txDraw{S: g(t)}
		if len(d.S.Conf) > 0 && chance(t, 4, "like") {
			d.Like = rapid.SampledFrom([]int64{1, 1, 40}).Draw(t, "bump")
		}
		return d
	}
}

func assemble(draws []txDraw) []TxSpec {
	var txs []TxSpec
	for i, d := range draws {
		s := d.S
		if earlier, _ := resolveConf(s, i); d.Like > 0 && len(earlier) > 0 {
			m := txs[earlier[0]]
			s.Payer, s.Sponsor, s.Net = m.Payer, m.Sponsor, m.Net+d.Like
			if sponsored(s) {
				s.Extra, s.Oracle = 0, 0
			}
		}
		txs = append(txs, s)
	}
	return txs
}

func genTx(fl flavour) func(t *rapid.T) TxSpec {
	return func(t *rapid.T) TxSpec {
		s := TxSpec{}
		if chance(t, fl.pSponsored, "sponsored") {
			s.Sponsor = rapid.IntRange(1, nDepositors).Draw(t, "depositor")
		} else {
			s.Payer = rapid.IntRange(0, nAccounts-1).Draw(t, "payer")
			if chance(t, 2, "hasextra") {
				s.Extra = rapid.IntRange(1, nAccounts).Draw(t, "extra")
			}
			if chance(t, fl.pOracle, "oracle") {
				s.Oracle = uint64(rapid.IntRange(1, 2).Draw(t, "oracleid"))
			}
		}
		s.High = rapid.IntRange(0, 6).Draw(t, "high") == 6
		s.Script = rapid.SampledFrom([]int{1, 1, 1, 20, 100}).Draw(t, "script")
		s.Sys = rapid.SampledFrom([]int64{0, 0, 0, 1, 40, 300}).Draw(t, "sys")
		if chance(t, fl.pConf, "hasconf") {
			s.Conf = rapid.SliceOfNDistinct(rapid.IntRange(0, maxTxs-1), 1, 2, rapid.ID[int]).Draw(t, "conf")
			if chance(t, 2, "foreign") {
				s.Conf = append(s.Conf, -rapid.IntRange(1, 2).Draw(t, "foreignk"))
			}
		}
		// Network fee: mostly chosen through fee-per-byte and remainder so that ties in fee per byte are frequent,
		// sometimes from a small palette so that equal network fees (full priority ties) are frequent as well.
		if chance(t, 3, "palette") {
			s.Net = rapid.SampledFrom(netPalette).Draw(t, "net")
			return s
		}
		size := int64(sizeOf(s, maxTxs))
		fpb := int64(rapid.IntRange(0, 3).Draw(t, "fpb"))
		var rem int64
		switch rapid.IntRange(0, 5).Draw(t, "remkind") {
		case 0, 1, 2:
			rem = 0
		case 3:
			rem = 1
		case 4:
			rem = size - 1
		default:
			rem = int64(rapid.IntRange(0, int(size)-1).Draw(t, "rem"))
		}
		s.Net = fpb*size + rem
		return s
	}
}

// genBalance draws a balance that is zero, near a sum of fees the payer may have to cover, small or large.
func genBalance(t *rapid.T, label string, fees []int64, allowKeep bool) int64 {
	lo := 0
	if allowKeep {
		lo = -2
	}
	kind := rapid.IntRange(lo, 6).Draw(t, label+"_kind")
	switch {
	case kind < 0:
		return -1
	case kind <= 1:
		return bigBalance
	case kind <= 4 && len(fees) > 0:
		k := rapid.IntRange(1, 4).Draw(t, label+"_k")
		var sum int64
		for x := 0; x < k; x++ {
			sum += fees[rapid.IntRange(0, len(fees)-1).Draw(t, label+"_pick")]
		}
		sum += int64(rapid.IntRange(-1, 1).Draw(t, label+"_delta"))
		if sum < 0 {
			sum = 0
		}
		return sum
	case kind == 5:
		return 0
	default:
		return int64(rapid.IntRange(0, 2000).Draw(t, label+"_raw"))
	}
}

func genCaseFl(fl flavour) func(t *rapid.T) Case {
	return func(t *rapid.T) Case {
		c := Case{Cap: rapid.IntRange(1, fl.maxCap).Draw(t, "cap")}
		c.Txs = assemble(rapid.SliceOfN(rapid.Custom(genTxDraw(fl)), 2, maxTxs).Draw(t, "txs"))
		balFees := make([][]int64, nAccounts)
		depFees := make([][]int64, nDepositors)
		for _, s := range c.Txs {
			if sponsored(s) {
				d := mod(s.Sponsor-1, nDepositors)
				depFees[d] = append(depFees[d], s.Sys+s.Net)
			} else {
				p := mod(s.Payer, nAccounts)
				balFees[p] = append(balFees[p], s.Sys+s.Net)
			}
		}
		for a := 0; a < nAccounts; a++ {
			c.Bal = append(c.Bal, genBalance(t, "bal", balFees[a], false))
		}
		for d := 0; d < nDepositors; d++ {
			c.Dep = append(c.Dep, genBalance(t, "dep", depFees[d], false))
		}
		genOp := func(t *rapid.T) Op {
			op := Op{}
			switch x := rapid.IntRange(0, 19).Draw(t, "opkind"); {
			case x < 14:
				op.Kind = "add"
				op.Tx = rapid.IntRange(0, maxTxs-1).Draw(t, "tx")
			case x < 17:
				op.Kind = "remove"
				op.Tx = rapid.IntRange(0, maxTxs-1).Draw(t, "tx")
			default:
				op.Kind = "refresh"
				op.Drop = rapid.SliceOfN(rapid.IntRange(0, maxTxs-1), 0, 3).Draw(t, "drop")
				for a := 0; a < nAccounts; a++ {
					op.Bal = append(op.Bal, genBalance(t, "rbal", balFees[a], true))
				}
				for d := 0; d < nDepositors; d++ {
					op.Dep = append(op.Dep, genBalance(t, "rdep", depFees[d], true))
				}
				op.FPB = rapid.SampledFrom([]int64{0, 0, 0, 1, 2}).Draw(t, "policyfpb")
			}
			return op
		}
		nops := rapid.IntRange(1, maxOps).Draw(t, "nops")
		c.Ops = rapid.SliceOfN(rapid.Custom(genOp), nops, maxOps).Draw(t, "ops")
		return c
	}
}

// ---- fake Feer ------------------------------------------------------------------------------------

type fakeFeer struct {
	bal    [nAccounts]int64
	dep    [nDepositors]int64
	fpb    int64
	height uint32
}

func accountIndex(u util.Uint160) int {
	for i := 0; i < nAccounts; i++ {
		if u == account(i) {
			return i
		}
	}
	return -1
}

func (f *fakeFeer) FeePerByte() int64   { return f.fpb }
func (f *fakeFeer) BlockHeight() uint32 { return f.height }

// GetUtilityTokenBalance mirrors Blockchain.GetUtilityTokenBalance: deposit of the secondary for the Notary
// contract, GAS balance of the primary otherwise.
func (f *fakeFeer) GetUtilityTokenBalance(primary, secondary util.Uint160) *big.Int {
	if primary.Equals(nativehashes.Notary) && !secondary.Equals(util.Uint160{}) {
		if i := accountIndex(secondary); i >= 0 && i < nDepositors {
			return big.NewInt(f.dep[i])
		}
		return big.NewInt(0)
	}
	if i := accountIndex(primary); i >= 0 {
		return big.NewInt(f.bal[i])
	}
	return big.NewInt(0)
}

// ---- model of one universe transaction ------------------------------------------------------------

type mtx struct {
	idx     int
	spec    TxSpec
	tx      *transaction.Transaction
	hash    util.Uint256
	size    int64
	fee     int64 // sys + net
	fpb     int64
	payer   string // "gas:<account>" or "dep:<depositor>"
	author  util.Uint160
	signers map[util.Uint160]bool
	names   map[util.Uint256]bool
}

func (m *mtx) String() string {
	var b strings.Builder
	fmt.Fprintf(&b, "#%d{%s sys=%d net=%d size=%d fpb=%d", m.idx, m.payer, m.spec.Sys, m.spec.Net, m.size, m.fpb)
	if m.spec.High {
		b.WriteString(" high")
	}
	if m.spec.Oracle != 0 && !sponsored(m.spec) {
		fmt.Fprintf(&b, " oracle=%d", m.spec.Oracle)
	}
	return b.String() + "}"
}

type universe struct {
	txs    []*mtx
	byHash map[util.Uint256]*mtx
}

func buildUniverse(c Case) *universe {
	u := &universe{byHash: map[util.Uint256]*mtx{}}
	for i, s := range c.Txs {
		tx := buildTx(s, i, func(j int) util.Uint256 { return u.txs[j].hash })
		m := &mtx{idx: i, spec: s, tx: tx, hash: tx.Hash(), size: int64(tx.Size()), fee: s.Sys + s.Net,
			signers: map[util.Uint160]bool{}, names: map[util.Uint256]bool{}}
		m.fpb = s.Net / m.size
		if sponsored(s) {
			d := mod(s.Sponsor-1, nDepositors)
			m.payer = fmt.Sprintf("dep:%d", d)
			m.author = account(d)
		} else {
			p := mod(s.Payer, nAccounts)
			m.payer = fmt.Sprintf("gas:%d", p)
			m.author = account(p)
		}
		for _, sg := range tx.Signers {
			m.signers[sg.Account] = true
		}
		for _, a := range tx.GetAttributes(transaction.ConflictsT) {
			m.names[a.Value.(*transaction.Conflicts).Hash] = true
		}
		u.txs = append(u.txs, m)
		u.byHash[m.hash] = m
	}
	return u
}

func (m *mtx) oracleID() uint64 {
	if sponsored(m.spec) {
		return 0
	}
	return m.spec.Oracle
}

// prioCmp is the order the property states: high-priority attribute, then fee per byte, then network fee.
func prioCmp(a, b *mtx) int {
	switch {
	case a.spec.High && !b.spec.High:
		return 1
	case !a.spec.High && b.spec.High:
		return -1
	case a.fpb != b.fpb:
		if a.fpb > b.fpb {
			return 1
		}
		return -1
	case a.spec.Net != b.spec.Net:
		if a.spec.Net > b.spec.Net {
			return 1
		}
		return -1
	}
	return 0
}

func related(a, b *mtx) bool { return a.names[b.hash] || b.names[a.hash] }

func sharesSigner(a, b *mtx) bool {
	for s := range a.signers {
		if b.signers[s] {
			return true
		}
	}
	return false
}

func balanceOf(f *fakeFeer, payer string) int64 {
	var i int
	if _, err := fmt.Sscanf(payer[4:], "%d", &i); err != nil {
		panic(err)
	}
	if strings.HasPrefix(payer, "dep:") {
		return f.dep[i]
	}
	return f.bal[i]
}

// ---- observation ----------------------------------------------------------------------------------

type obs struct {
	list     []*mtx
	count    int
	contains []bool
	verify   []bool
	hasConf  []bool
}

func listStr(l []*mtx) string {
	parts := make([]string, len(l))
	for i, m := range l {
		parts[i] = fmt.Sprintf("#%d", m.idx)
	}
	return "[" + strings.Join(parts, " ") + "]"
}

func inList(l []*mtx, m *mtx) bool {
	for _, x := range l {
		if x == m {
			return true
		}
	}
	return false
}

func observe(p *mempool.Pool, u *universe, f *fakeFeer) (*obs, error) {
	o := &obs{count: p.Count()}
	for _, tx := range p.GetVerifiedTransactions() {
		m := u.byHash[tx.Hash()]
		if m == nil || m.tx != tx {
			return nil, fmt.Errorf("pool lists a transaction %s that was never added", tx.Hash().StringLE())
		}
		o.list = append(o.list, m)
	}
	for _, m := range u.txs {
		o.contains = append(o.contains, p.ContainsKey(m.hash))
		o.verify = append(o.verify, p.Verify(m.tx, f))
		o.hasConf = append(o.hasConf, p.HasConflicts(m.tx, f))
	}
	return o, nil
}

func sameObs(a, b *obs) string {
	if a.count != b.count {
		return fmt.Sprintf("Count %d vs %d", a.count, b.count)
	}
	if len(a.list) != len(b.list) {
		return fmt.Sprintf("list %s vs %s", listStr(a.list), listStr(b.list))
	}
	for i := range a.list {
		if a.list[i] != b.list[i] {
			return fmt.Sprintf("list %s vs %s", listStr(a.list), listStr(b.list))
		}
	}
	for i := range a.contains {
		if a.contains[i] != b.contains[i] {
			return fmt.Sprintf("ContainsKey(#%d) %v vs %v", i, a.contains[i], b.contains[i])
		}
		if a.verify[i] != b.verify[i] {
			return fmt.Sprintf("Verify(#%d) %v vs %v", i, a.verify[i], b.verify[i])
		}
		if a.hasConf[i] != b.hasConf[i] {
			return fmt.Sprintf("HasConflicts(#%d) %v vs %v", i, a.hasConf[i], b.hasConf[i])
		}
	}
	return ""
}

// invariants evaluates the state clauses of the property on one observation.
func invariants(p *mempool.Pool, u *universe, f *fakeFeer, capacity int, o *obs) error {
	if o.count != len(o.list) {
		return fmt.Errorf("Count() = %d but GetVerifiedTransactions lists %d", o.count, len(o.list))
	}
	if len(o.list) > capacity {
		return fmt.Errorf("pool holds %d transactions %s, capacity is %d", len(o.list), listStr(o.list), capacity)
	}
	seen := map[*mtx]bool{}
	for _, m := range o.list {
		if seen[m] {
			return fmt.Errorf("transaction %v listed twice in %s", m, listStr(o.list))
		}
		seen[m] = true
	}
	for i := 1; i < len(o.list); i++ {
		if prioCmp(o.list[i-1], o.list[i]) < 0 {
			return fmt.Errorf("list %s not ordered by priority: %v precedes %v", listStr(o.list), o.list[i-1], o.list[i])
		}
	}
	for i, m := range u.txs {
		if o.contains[i] != seen[m] {
			return fmt.Errorf("ContainsKey(%v) = %v but list is %s", m, o.contains[i], listStr(o.list))
		}
		tx, ok := p.TryGetValue(m.hash)
		if ok != seen[m] || (ok && tx != m.tx) {
			return fmt.Errorf("TryGetValue(%v) = %v,%v but list is %s", m, tx != nil, ok, listStr(o.list))
		}
		d, ok := p.TryGetData(m.hash)
		if ok != seen[m] {
			return fmt.Errorf("TryGetData(%v) ok=%v but list is %s", m, ok, listStr(o.list))
		}
		if ok {
			if v, isInt := d.(int); !isInt || v != m.idx {
				return fmt.Errorf("TryGetData(%v) = %v, want the data %d it was added with", m, d, m.idx)
			}
		}
	}
	for k := 0; k < 3; k++ {
		if p.ContainsKey(foreignHash(k)) {
			return fmt.Errorf("ContainsKey of a never-added hash is true")
		}
	}
	// Solvency per fee payer against the balance as of the last refresh.
	sums := map[string]int64{}
	for _, m := range o.list {
		sums[m.payer] += m.fee
	}
	payers := make([]string, 0, len(sums))
	for k := range sums {
		payers = append(payers, k)
	}
	sort.Strings(payers)
	for _, k := range payers {
		if bal := balanceOf(f, k); sums[k] > bal {
			return fmt.Errorf("payer %s: pooled fees sum to %d > balance %d; pool %s", k, sums[k], bal, describe(o.list))
		}
	}
	// Conflicts and oracle ids.
	oracle := map[uint64]*mtx{}
	for _, a := range o.list {
		for _, b := range o.list {
			if a != b && a.names[b.hash] {
				return fmt.Errorf("pooled %v names pooled %v in a Conflicts attribute; pool %s", a, b, listStr(o.list))
			}
		}
		if id := a.oracleID(); id != 0 {
			if prev := oracle[id]; prev != nil {
				return fmt.Errorf("two pooled responses %v and %v for oracle request %d", prev, a, id)
			}
			oracle[id] = a
		}
	}
	// Documented answers of HasConflicts (all transactions) and Verify (transactions unrelated to the pool content).
	for i, m := range u.txs {
		want := seen[m]
		rel := false
		for _, s := range o.list {
			if s != m && related(s, m) {
				want, rel = true, true
			}
		}
		if o.hasConf[i] != want {
			return fmt.Errorf("HasConflicts(%v) = %v, documented answer %v for pool %s", m, o.hasConf[i], want, listStr(o.list))
		}
		if !seen[m] && !rel {
			can := m.fee+sums[m.payer] <= balanceOf(f, m.payer)
			if o.verify[i] != can {
				return fmt.Errorf("Verify(%v) = %v but payer %s has balance %d and %d of pooled fees (pool %s)",
					m, o.verify[i], m.payer, balanceOf(f, m.payer), sums[m.payer], listStr(o.list))
			}
		}
	}
	return nil
}

func describe(l []*mtx) string {
	parts := make([]string, len(l))
	for i, m := range l {
		parts[i] = m.String()
	}
	return "[" + strings.Join(parts, " ") + "]"
}

func payerSum(l []*mtx, payer string) int64 {
	var s int64
	for _, m := range l {
		if m.payer == payer {
			s += m.fee
		}
	}
	return s
}

// subsequenceMinus checks that after == before with the transactions of removed taken out (order kept) and, when
// added != nil, with added inserted somewhere.
func orderKept(before, after []*mtx, added *mtx) (removed []*mtx, err error) {
	i := 0
	for _, m := range after {
		if m == added {
			continue
		}
		for i < len(before) && before[i] != m {
			removed = append(removed, before[i])
			i++
		}
		if i == len(before) {
			return nil, fmt.Errorf("list %s is not the old list %s with entries removed (entry #%d is new or moved)", listStr(after), listStr(before), m.idx)
		}
		i++
	}
	removed = append(removed, before[i:]...)
	return removed, nil
}

// ---- the check ------------------------------------------------------------------------------------

func checkCase(c Case, o *vt.Obs) (err error) {
	if c.Cap < 1 || len(c.Txs) == 0 {
		return nil
	}
	doing := "setup"
	defer func() {
		if r := recover(); r != nil {
			err = fmt.Errorf("%s: PANIC: %v at %s", doing, r, panicSite())
		}
	}()
	u := buildUniverse(c)
	if len(u.byHash) != len(u.txs) {
		return nil // cannot happen (nonce = index)
	}
	f := &fakeFeer{height: 1}
	for i := 0; i < nAccounts && i < len(c.Bal); i++ {
		f.bal[i] = max(c.Bal[i], 0)
	}
	for i := 0; i < nDepositors && i < len(c.Dep); i++ {
		f.dep[i] = max(c.Dep[i], 0)
	}
	pool := mempool.New(c.Cap, false, nil)
	shadow := mempool.New(c.Cap, false, nil) // sees every op except the additions that failed on pool
	labels := map[string]bool{}
	everPooled := map[*mtx]bool{}
	interactions := 0

	prev, err := observe(pool, u, f)
	if err != nil {
		return err
	}
	var cur *obs
	for step, op := range c.Ops {
		where := func(format string, a ...any) error {
			return fmt.Errorf("op %d (%s): %s", step, op.Kind, fmt.Sprintf(format, a...))
		}
		doing = fmt.Sprintf("op %d (%s) on pool %s", step, op.Kind, listStr(prev.list))
		switch op.Kind {
		case "add":
			t := u.txs[mod(op.Tx, len(u.txs))]
			S := prev.list
			addErr, panicked := safeAdd(pool, t, f)
			if panicked != "" {
				return where("Add(%v) to pool %s PANIC: %s", t, describe(S), panicked)
			}
			cur, err = observe(pool, u, f)
			if err != nil {
				return where("Add(%v): %v", t, err)
			}
			wasPooled := inList(S, t)
			if wasPooled != errors.Is(addErr, mempool.ErrDup) {
				return where("Add(%v) returned %v; transaction pooled before: %v (pool %s)", t, addErr, wasPooled, listStr(S))
			}
			if addErr != nil {
				// "An addition that fails leaves the pool unchanged."
				if d := sameObs(prev, cur); d != "" {
					return where("Add(%v) failed (%v) but changed the pool: %s", t, addErr, d)
				}
				if e := errorMeaning(t, S, f, c.Cap, addErr); e != "" {
					return where("Add(%v) to pool %s: %s", t, describe(S), e)
				}
				labels[errLabel(t, addErr)] = true
				if !errors.Is(addErr, mempool.ErrDup) {
					interactions++
				}
			} else {
				if !inList(cur.list, t) {
					return where("Add(%v) succeeded but the transaction is not listed in %s", t, listStr(cur.list))
				}
				removed, e := orderKept(S, cur.list, t)
				if e != nil {
					return where("Add(%v): %v", t, e)
				}
				if e := explainRemovals(t, S, cur.list, removed, c.Cap, labels); e != "" {
					return where("Add(%v) to pool %s gives %s: %s", t, describe(S), listStr(cur.list), e)
				}
				if len(removed) > 0 {
					interactions++
				}
				replacedNow := false
				for _, r := range removed {
					replacedNow = replacedNow || related(r, t)
				}
				if replacedNow && t.fee+payerSum(S, t.payer) > balanceOf(f, t.payer) {
					// accepted only because a replaced conflicting transaction of the same payer frees funds
					labels["replace-frees-funds"] = true
				}
				for _, s := range S {
					if prioCmp(s, t) == 0 {
						labels["tie-priority"] = true
					}
				}
				if sponsored(t.spec) {
					labels["sponsored-pooled"] = true
					for _, s := range S {
						if sponsored(s.spec) && s.payer != t.payer && related(s, t) {
							labels["sponsored-cross-conflict"] = true
						}
					}
				}
				if bal := balanceOf(f, t.payer); bal < bigBalance && bal-payerSum(cur.list, t.payer) <= 1 {
					labels["fees-at-balance"] = true
				}
				everPooled[t] = true
				if sErr := shadow.Add(t.tx, f, t.idx); sErr != nil {
					return where("Add(%v) succeeds on the pool but fails (%v) on a pool with the same history minus the failed additions", t, sErr)
				}
			}
		case "remove":
			t := u.txs[mod(op.Tx, len(u.txs))]
			pool.Remove(t.hash)
			shadow.Remove(t.hash)
			cur, err = observe(pool, u, f)
			if err != nil {
				return where("Remove(%v): %v", t, err)
			}
			removed, e := orderKept(prev.list, cur.list, nil)
			if e != nil {
				return where("Remove(%v): %v", t, e)
			}
			wantRemoved := 0
			if inList(prev.list, t) {
				wantRemoved = 1
			}
			if len(removed) != wantRemoved || (wantRemoved == 1 && removed[0] != t) {
				return where("Remove(%v) from %s gives %s", t, listStr(prev.list), listStr(cur.list))
			}
		case "refresh":
			for i := 0; i < nAccounts && i < len(op.Bal); i++ {
				if op.Bal[i] >= 0 {
					f.bal[i] = op.Bal[i]
				}
			}
			for i := 0; i < nDepositors && i < len(op.Dep); i++ {
				if op.Dep[i] >= 0 {
					f.dep[i] = op.Dep[i]
				}
			}
			f.fpb = max(op.FPB, 0)
			f.height++
			drop := map[util.Uint256]bool{}
			for _, d := range op.Drop {
				drop[u.txs[mod(d, len(u.txs))].hash] = true
			}
			isOK := func(tx *transaction.Transaction) bool { return !drop[tx.Hash()] }
			pool.RemoveStale(isOK, f)
			shadow.RemoveStale(isOK, f)
			cur, err = observe(pool, u, f)
			if err != nil {
				return where("RemoveStale: %v", err)
			}
			removed, e := orderKept(prev.list, cur.list, nil)
			if e != nil {
				return where("RemoveStale: %v", e)
			}
			for _, m := range cur.list {
				if drop[m.hash] {
					return where("RemoveStale kept %v for which the filter returned false", m)
				}
			}
			for _, m := range removed {
				if drop[m.hash] || m.fpb < f.fpb {
					continue
				}
				// Neither the filter nor the fee policy explains the drop: it must be needed for solvency.
				if bal := balanceOf(f, m.payer); m.fee+payerSum(cur.list, m.payer) <= bal {
					return where("RemoveStale dropped %v although the filter kept it, its fee per byte meets the policy %d and payer %s (balance %d) could pay it together with the kept %s",
						m, f.fpb, m.payer, bal, describe(cur.list))
				}
				labels["refresh-insolvent-drop"] = true
				interactions++
			}
			if len(removed) > 0 {
				labels["refresh-drop"] = true
			}
		default:
			return where("unknown op kind")
		}
		if e := invariants(pool, u, f, c.Cap, cur); e != nil {
			return where("%v", e)
		}
		// The pool and the pool that never saw the failed additions must be indistinguishable.
		sh, e := observe(shadow, u, f)
		if e != nil {
			return where("shadow: %v", e)
		}
		if d := sameObs(cur, sh); d != "" {
			return where("pool differs from a pool with the same history minus the failed additions: %s", d)
		}
		if len(cur.list) == c.Cap {
			labels["at-capacity"] = true
		}
		if !labels["mixed-payers-pooled"] {
			var sp, pl bool
			for _, m := range cur.list {
				sp = sp || sponsored(m.spec)
				pl = pl || !sponsored(m.spec)
			}
			if sp && pl {
				labels["mixed-payers-pooled"] = true
			}
		}
		prev = cur
		o.Units(1)
	}
	names := make([]string, 0, len(labels))
	for l := range labels {
		names = append(names, l)
	}
	sort.Strings(names)
	for _, l := range names {
		o.Label(l)
	}
	if len(everPooled) >= 3 && interactions > 0 {
		o.NonTrivial()
	}
	return nil
}

// panicSite names the mempool frames of the panic being recovered.
func panicSite() string {
	var at []string
	for _, l := range strings.Split(string(debug.Stack()), "\n") {
		if strings.Contains(l, "/mempool/") {
			l = strings.TrimSpace(l)
			if k := strings.LastIndex(l, "/pkg/"); k >= 0 {
				l = l[k+1:]
			}
			if k := strings.Index(l, " +0x"); k >= 0 {
				l = l[:k]
			}
			at = append(at, l)
		}
	}
	if len(at) > 3 {
		at = at[:3]
	}
	return strings.Join(at, " <- ")
}

// safeAdd reports a panic of Pool.Add together with the place it came from (so that the message names the transaction).
func safeAdd(p *mempool.Pool, t *mtx, f *fakeFeer) (err error, panicked string) {
	defer func() {
		if r := recover(); r != nil {
			panicked = fmt.Sprintf("%v at %s", r, panicSite())
		}
	}()
	return p.Add(t.tx, f, t.idx), ""
}

func errLabel(t *mtx, err error) string {
	switch {
	case errors.Is(err, mempool.ErrDup):
		return "rej-dup"
	case errors.Is(err, mempool.ErrInsufficientFunds):
		return "rej-insufficient-funds"
	case errors.Is(err, mempool.ErrConflict):
		return "rej-fee-sum"
	case errors.Is(err, mempool.ErrOOM):
		if t.oracleID() != 0 {
			return "rej-oom-oracle-tx"
		}
		return "rej-oom"
	case errors.Is(err, mempool.ErrConflictsAttribute):
		return "rej-conflicts-attr"
	case errors.Is(err, mempool.ErrOracleResponse):
		return "rej-oracle"
	}
	return "rej-other"
}

// errorMeaning checks that the documented meaning of the returned error value (doc comments of the Err*
// variables of package mempool) is true of the pool content S the addition was tried on.
func errorMeaning(t *mtx, S []*mtx, f *fakeFeer, capacity int, err error) string {
	bal := balanceOf(f, t.payer)
	switch {
	case errors.Is(err, mempool.ErrDup):
		// checked by the caller in both directions
	case errors.Is(err, mempool.ErrInsufficientFunds):
		if t.fee <= bal {
			return fmt.Sprintf("ErrInsufficientFunds although the fee %d does not exceed the balance %d of %s", t.fee, bal, t.payer)
		}
	case errors.Is(err, mempool.ErrConflict):
		if sum := payerSum(S, t.payer); t.fee+sum <= bal {
			return fmt.Sprintf("ErrConflict (insufficient funds for all pooled tx) although fee %d + pooled fees %d of %s do not exceed its balance %d", t.fee, sum, t.payer, bal)
		}
	case errors.Is(err, mempool.ErrOOM):
		if len(S) < capacity {
			return fmt.Sprintf("ErrOOM although the pool holds %d of %d", len(S), capacity)
		}
		if prioCmp(t, S[len(S)-1]) > 0 {
			return fmt.Sprintf("ErrOOM although the transaction has higher priority than the lowest entry %v", S[len(S)-1])
		}
	case errors.Is(err, mempool.ErrOracleResponse):
		for _, s := range S {
			if t.oracleID() != 0 && s.oracleID() == t.oracleID() && s.spec.Net >= t.spec.Net {
				return ""
			}
		}
		return "ErrOracleResponse although no pooled response for the same request has an equal or higher network fee"
	case errors.Is(err, mempool.ErrConflictsAttribute):
		for _, s := range S {
			if related(s, t) {
				return ""
			}
		}
		return "ErrConflictsAttribute although no pooled transaction is related to it by a Conflicts attribute"
	}
	return ""
}

// explainRemovals decides whether the entries that disappeared during a successful Add are the documented
// replacements (Conflicts relation, oracle response of the same request) or the single lowest-priority eviction.
func explainRemovals(t *mtx, S, after, removed []*mtx, capacity int, labels map[string]bool) string {
	var unexplained []*mtx
	explained := 0
	for _, r := range removed {
		switch {
		case related(r, t):
			explained++
			labels["conflict-replace"] = true
		case t.oracleID() != 0 && r.oracleID() == t.oracleID():
			if r.spec.Net > t.spec.Net {
				return fmt.Sprintf("oracle response %v replaced by one with a lower network fee", r)
			}
			explained++
			labels["oracle-replace"] = true
		default:
			unexplained = append(unexplained, r)
		}
	}
	if len(unexplained) > 1 {
		return fmt.Sprintf("%d entries %s evicted by one addition", len(unexplained), listStr(unexplained))
	}
	if len(unexplained) == 1 {
		r := unexplained[0]
		if len(S)-explained+1 <= capacity {
			return fmt.Sprintf("%v evicted although there was room (capacity %d)", r, capacity)
		}
		for _, m := range after {
			if prioCmp(r, m) > 0 {
				return fmt.Sprintf("evicted %v has higher priority than the kept %v", r, m)
			}
		}
		labels["evict-lowest"] = true
		if explained > 0 {
			labels["evict-during-replacement"] = true
		}
	}
	// Replacement through Conflicts needs a common signer with every named pooled transaction and a network fee above
	// the sum of the replaced ones that count (named by t, or naming t and signed by t's fee payer): error texts of
	// checkTxConflicts and TestMempoolAddRemoveConflicts.
	var sum int64
	for _, s := range S {
		if t.names[s.hash] {
			if !sharesSigner(s, t) {
				return fmt.Sprintf("accepted although it names pooled %v without sharing a signer with it", s)
			}
			sum += s.spec.Net
		} else if s.names[t.hash] && s.signers[t.author] {
			sum += s.spec.Net
		}
	}
	if sum != 0 && t.spec.Net <= sum {
		return fmt.Sprintf("accepted with network fee %d although the conflicting pooled transactions carry %d", t.spec.Net, sum)
	}
	for _, s := range S {
		if related(s, t) && inList(after, s) {
			return fmt.Sprintf("conflicting %v still pooled", s)
		}
	}
	return ""
}

func init() {
	vt.PropertyID = "C08"
	vt.Register("history", 1.0, genCaseFl(flHistory), checkCase)
	vt.Register("notary", 0.5, genCaseFl(flNotary), checkCase)
	vt.Register("oracle", 0.5, genCaseFl(flOracle), checkCase)
}
